From Coq Require Import ZArith List Bool.
From PSO Require Import Base.PyBytes Chunking.Model Chunking.ProofsChunk Chunking.ProofsBatch Chunking.ProofsPack.
Import ListNotations.
Open Scope Z_scope.

Theorem C11_batches_cover :
  forall (B : Z) (l : list entry) (next : Z),
    1 <= B -> log_wf l -> first_idx l < next ->
    let r := send_all B l next in
    sr_fuel_ok r = true /\
    (next <= last_idx l ->
       (exists pre : list entry,
          l = pre ++ concat (map batch_entries (sr_batches r)) /\
          Forall (fun e : entry => e_idx e < next) pre /\
          Forall (fun e : entry => next <= e_idx e) (concat (map batch_entries (sr_batches r)))) /\
       batches_ok B (sr_batches r) /\ sr_next r = last_idx l + 1) /\
    (last_idx l < next -> sr_batches r = [BNormal (prev_of l next) []] /\ sr_next r = next).
Proof. exact batches_cover. Qed.
Print Assumptions C11_batches_cover.

Theorem C11_get_entries_edges :
  forall (l : list entry) (f : Z) (count maxSize : option Z),
    get_entries l None count maxSize = [] /\
    (f < first_idx l -> get_entries l (Some f) count maxSize = []).
Proof. exact (fun l f c m => conj (get_entries_none l c m) (get_entries_below l f c m)). Qed.
Print Assumptions C11_get_entries_edges.

Theorem C11_get_entries_at_least_one :
  forall (l : list entry) (f B : Z),
    log_wf l -> first_idx l <= f <= last_idx l -> get_entries l (Some f) None (Some B) <> [].
Proof. exact get_entries_nonempty. Qed.
Print Assumptions C11_get_entries_at_least_one.

Theorem C11_chunk_labels :
  forall B size psize : Z,
    1 <= B -> B <= size -> size < psize ->
    let ls := map fst (piece_sizes B psize) in
    labels_ok ls = true /\
    ls = LStart :: repeat LProcess (Z.to_nat (cdiv psize B) - 2) ++ [LFinish] /\
    count_finish ls = 1%nat /\ last ls LStart = LFinish /\ hd LFinish ls = LStart /\
    (2 <= length ls)%nat /\ Z.of_nat (length ls) = cdiv psize B.
Proof. exact chunk_labels_thm. Qed.
Print Assumptions C11_chunk_labels.

Theorem C11_piece_sizes :
  forall (B psize : Z) (k : nat),
    1 <= B -> 1 <= psize -> (k < Z.to_nat (cdiv psize B))%nat ->
    nth k (map snd (piece_sizes B psize)) 0 =
      (if Z.of_nat k + 1 <? cdiv psize B then B else psize - (cdiv psize B - 1) * B) /\
    1 <= nth k (map snd (piece_sizes B psize)) 0 <= B.
Proof. exact piece_size_values. Qed.
Print Assumptions C11_piece_sizes.

Theorem C11_reassembly :
  forall (A : Type) (loads : list A -> option entry) (B size : Z) (data : list A)
         (e : entry) (buf0 : option (list A)),
    1 <= B -> B <= size -> size < zlen data -> loads data = Some e ->
    concat (map snd (pieces B data)) = data /\
    recv_run loads buf0 (to_msgs (pieces B data))
      = (None, repeat RNeedMore (length (pieces B data) - 1) ++ [RGot e]) /\
    Z.of_nat (length (pieces B data)) = cdiv (zlen data) B /\
    map (fun lp => (fst lp, zlen (snd lp))) (pieces B data) = piece_sizes B (zlen data).
Proof. exact reassembly_thm. Qed.
Print Assumptions C11_reassembly.

Theorem C11_transfer_intact :
  forall (A : Type) (dumps : entry -> list A) (loads : list A -> option entry),
    (forall e : entry, loads (dumps e) = Some e) ->
    forall (B : Z) (l : list entry) (next : Z) (s : fstate A),
      1 <= B -> log_wf l -> first_idx l < next <= last_idx l ->
      (forall e : entry, In e l -> e_size e < zlen (dumps e)) ->
      let s' := follower_run loads s (wire_of (cut_data dumps B) (sr_batches (send_all B l next))) in
      f_got s' = f_got s ++ suffix_from l next /\ f_raised s' = f_raised s.
Proof. exact transfer_intact. Qed.
Print Assumptions C11_transfer_intact.

Theorem C11_wire_sizes_agree :
  forall (A : Type) (dumps : entry -> list A) (B : Z) (bs : list batch),
    1 <= B ->
    (forall e : entry, In e (concat (map batch_entries bs)) -> e_psize e = zlen (dumps e)) ->
    map wire_len (wire_of (cut_data dumps B) bs) = wire_of (cut_sizes B) bs.
Proof. exact wire_sizes_agree. Qed.
Print Assumptions C11_wire_sizes_agree.

Theorem C11_old_labels_refuted :
  exists B size psize : Z,
    1 <= B /\ B <= size /\ size < psize /\
    labels_ok (old_labels B size psize) = false /\
    old_labels B size psize = [LStart; LFinish; LFinish].
Proof. exact old_labels_refuted. Qed.
Print Assumptions C11_old_labels_refuted.

Theorem C11_old_labels_band :
  forall B size psize : Z,
    1 <= B -> B <= size -> size < psize ->
    (labels_ok (old_labels B size psize) = false <->
     2 < cdiv psize B /\ cdiv size B < cdiv psize B).
Proof. exact old_labels_bad. Qed.
Print Assumptions C11_old_labels_band.

Theorem C11_pack_unpack :
  forall (V K : Type) (K_eqb : K -> K -> bool),
    (forall a b : K, K_eqb a b = true <-> a = b) ->
    forall (doApply : K) (vtrue : V) (B8 : Type) (regular : B8) (B8_eqb : B8 -> B8 -> bool),
    (forall b : B8, B8_eqb b b = true) ->
    forall (cdumps : cmd V K -> list B8) (cloads : list B8 -> option (cmd V K)),
    (forall c : cmd V K, cloads (cdumps c) = Some c) ->
    forall (fid : Z) (args : list V) (kw : list (K * V)) (reserved : bool),
      args_ok doApply kw ->
      apply_command V K K_eqb doApply vtrue B8 regular B8_eqb cloads
        (make_command V K B8 regular cdumps (pack V K fid args kw reserved))
      = Some (Some vtrue, (fid, args, kw)).
Proof. exact pack_unpack. Qed.
Print Assumptions C11_pack_unpack.

Theorem C11_pack_shapes :
  forall (V K : Type) (fid : Z) (args : list V) (kw : list (K * V)),
    pack V K fid [] [] false = CBare fid /\
    (args <> [] -> pack V K fid args [] false = CPair fid args) /\
    (kw <> [] -> pack V K fid args kw false = CTriple fid args kw) /\
    (kw <> [] -> pack V K fid [] kw false = CTriple fid [] kw) /\
    pack V K fid args kw true = CTriple fid args kw.
Proof. exact pack_shapes. Qed.
Print Assumptions C11_pack_shapes.

Theorem C11_strict_rule_no_finish_refuted :
  forall B k : Z, 1 <= B -> 1 <= k ->
    count_finish (labels_strict B (k * B)) = 0%nat /\ labels_ok (labels_strict B (k * B)) = false.
Proof. exact strict_rule_no_finish. Qed.
Print Assumptions C11_strict_rule_no_finish_refuted.
