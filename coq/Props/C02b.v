From Coq Require Import ZArith NArith List Bool.
From RecordUpdate Require Import RecordSet.
From PSO Require Import Raft.Types Raft.Node Raft.Net Raft.Obs Raft.ProofsApplyBase Raft.ProofsApply
  Raft.ProofsCallbacks Raft.ProofsCallbacks2.
From PSO Require Import Raft.ProofsElectionGhost Raft.ProofsCallbacksFull2.
From PSO Require Import Raft.Refine5Main Raft.ProofsCallbacksCore5 Raft.ProofsCallbacksCore5Fwd.
Import ListNotations.
Import RecordSetNotations.
Open Scope N_scope.

(* the link between the callback contract and the refinement (C02_success_is_committed_core3_partial /
   _direct / _forwarded of Props/C02.v) over the Tier C5 fragment: hypotheses exactly as in Props/TierC5.v
   (dyn = false, 1 < batch, valid V evs, run_ok5: a dump file may be configured, entries may travel in
   pieces, logs are compacted, snapshots are installed or refused for their code version). *)

(* a SUCCESS outcome at a voter is fired by a tick for an entry at an index <= the firing voter's commit
   index, above the position applied when the tick started, under a subscription recorded with that
   entry's own term; the entry is still held by the firing voter after the tick; and it is what every
   voter holds at that index, whenever its commit index has reached it, at every later state of the run *)
Theorem C02_success_is_committed_partial_core5 :
  forall (c : conf) (V : list nid) (evs1 : list event) (ev : event) (evs2 : list event)
         (g1 g2 g3 : gstate) (x : nid) (s : S) (id r : N),
  dyn c = false -> 1 < batch c ->
  valid V (evs1 ++ ev :: evs2) = true -> run_ok5 c ginit (evs1 ++ ev :: evs2) = true ->
  run_trace c ginit evs1 = Some g1 -> gstep c g1 ev = Some (g2, Some (x, s)) -> x < RO_BASE ->
  In (id, r, SUCCESS) (fired (outs s)) ->
  run_trace c g2 evs2 = Some g3 ->
  exists en x0 now rnd bud ord sl,
    ev = ETick x now rnd bud ord sl /\
    aget x (nodes g1) = Some x0 /\
    aget x (nodes g2) = Some (nd s) /\
    In en (log (nd s)) /\ applied x0 < eidx en /\ eidx en <= commit (nd s) /\
    In (eterm en, id)
       (local_subs (subs_of (eidx en)
          (wait_commit (nd (tick_pre (mk_env c now rnd bud ord sl) (start_S (mk_env c now rnd bud ord sl) x0)))))) /\
    forall b xb eb, aget b (nodes g3) = Some xb -> b < RO_BASE -> In eb (log xb) -> eidx eb = eidx en ->
                    eidx en <= commit xb -> eb = en.
Proof. exact success_is_committed_core5_partial. Qed.
Print Assumptions C02_success_is_committed_partial_core5.

(* with the id -> command link, for a command whose callback id was never parked in a pending-reply table
   before the firing step (it was appended by the node it was submitted at) *)
Theorem C02_success_is_committed_direct_core5 :
  forall (c : conf) (V : list nid) (evs1 : list event) (ev : event) (evs2 : list event)
         (g1 g2 g3 : gstate) (x : nid) (s : S) (id r : N),
  dyn c = false -> 1 < batch c ->
  valid V (evs1 ++ ev :: evs2) = true -> run_ok5 c ginit (evs1 ++ ev :: evs2) = true ->
  run_trace c ginit evs1 = Some g1 -> gstep c g1 ev = Some (g2, Some (x, s)) -> x < RO_BASE ->
  In (id, r, SUCCESS) (fired (outs s)) ->
  run_trace c g2 evs2 = Some g3 ->
  ~ In id (fwd_run c ginit evs1) ->
  exists en cm,
    submitted x cm id evs1 /\ ecmd en = cm /\
    In en (log (nd s)) /\ eidx en <= commit (nd s) /\
    forall b xb eb, aget b (nodes g3) = Some xb -> b < RO_BASE -> In eb (log xb) -> eidx eb = eidx en ->
                    eidx en <= commit xb -> eb = en.
Proof. exact success_is_committed_core5_direct. Qed.
Print Assumptions C02_success_is_committed_direct_core5.

(* the id -> command link without the "never forwarded" hypothesis: a callback that fires SUCCESS at a
   voter x fires for an entry that carries the command submitted at x under that callback id *)
Theorem C02_success_is_committed_forwarded_core5 :
  forall (c : conf) (V : list nid) (evs1 : list event) (ev : event) (evs2 : list event)
         (g1 g2 g3 : gstate) (x : nid) (s : S) (id r : N),
  dyn c = false -> 1 < batch c ->
  valid V (evs1 ++ ev :: evs2) = true -> run_ok5 c ginit (evs1 ++ ev :: evs2) = true ->
  run_trace c ginit evs1 = Some g1 -> gstep c g1 ev = Some (g2, Some (x, s)) -> x < RO_BASE ->
  In (id, r, SUCCESS) (fired (outs s)) ->
  run_trace c g2 evs2 = Some g3 ->
  exists en cm,
    submitted x cm id evs1 /\ ecmd en = cm /\
    In en (log (nd s)) /\ eidx en <= commit (nd s) /\
    forall b xb eb, aget b (nodes g3) = Some xb -> b < RO_BASE -> In eb (log xb) -> eidx eb = eidx en ->
                    eidx en <= commit xb -> eb = en.
Proof. exact success_is_committed_core5_forwarded. Qed.
Print Assumptions C02_success_is_committed_forwarded_core5.
