(* Tier CM2, second property file: the remaining corollaries of the refinement of Props/TierCM2.v on the same
   fragment (dyn = true, membership changes AND log compaction / snapshot install; hypotheses as in
   Props/TierCM2.v incl. the explicit [snap_ok] inside run_okM2, see KF-C10-3 / Raft/RefineM2Finding*.v).
   Logs are suffixes of the ghost full logs, so entries are named by their INDEX: the conclusions are those of
   Props/TierC2.v (L1_log_matching_core2, L1_leader_completeness_core2, L1_committed_entries_held_core2,
   L1_applied_entries_agree_core2, L1_committed_never_change_core2) line by line; compared with
   Props/TierCM.v / TierCM3.v (positions [nth_error (log x) (i-1)], agreement up to [esim]) they say the same
   of the entry with index i, and agreement is EQUALITY because the size fields of membership commands are a
   function of their content in this fragment. *)
From Coq Require Import ZArith NArith List.
From PSO Require Import Raft.Types Raft.Node Raft.Net Raft.Obs.
From PSO Require Import Raft.ProofsElectionBase Raft.ProofsElectionGhost Raft.ProofsMembership.
From PSO Require Import Raft.RefineMAbs Raft.RefineMMain Raft.RefineM2Abs Raft.RefineM2Main Raft.RefineM2Final
  Raft.RefineM2Final2.
Import ListNotations.
Open Scope N_scope.

Theorem L1_log_matching_coreM2 :
  forall (c : conf) (mf : N -> N -> N * N) (V : list nid) (evs : list event) (g : gstate) (a b : nid) (xa xb : node)
         (ea eb ea' eb' : entry),
    dyn c = true -> file_dump c = false -> 1 < batch c -> validM V evs = true ->
    run_okM2 c mf V ginit [] evs = true ->
    run_trace c ginit evs = Some g ->
    aget a (nodes g) = Some xa -> aget b (nodes g) = Some xb -> a < RO_BASE -> b < RO_BASE ->
    In ea (log xa) -> In eb (log xb) -> eidx ea = eidx eb -> eterm ea = eterm eb ->
    In ea' (log xa) -> In eb' (log xb) -> eidx ea' = eidx eb' -> eidx ea' <= eidx ea -> ea' = eb'.
Proof. exact TierCM2_log_matching. Qed.
Print Assumptions L1_log_matching_coreM2.

Theorem L1_leader_completeness_coreM2 :
  forall (c : conf) (mf : N -> N -> N * N) (V : list nid) (evs1 evs2 : list event) (g1 g2 : gstate) (a l : nid)
         (xa xl : node) (ea el : entry),
    dyn c = true -> file_dump c = false -> 1 < batch c -> validM V (evs1 ++ evs2) = true ->
    run_okM2 c mf V ginit [] (evs1 ++ evs2) = true ->
    run_trace c ginit evs1 = Some g1 -> run_trace c g1 evs2 = Some g2 ->
    aget a (nodes g1) = Some xa -> aget l (nodes g2) = Some xl -> a < RO_BASE -> l < RO_BASE ->
    role xl = LEADER -> term xa <= term xl -> In ea (log xa) -> eidx ea <= commit xa ->
    eidx ea <= last_idx (log xl) /\ (In el (log xl) -> eidx el = eidx ea -> el = ea).
Proof. exact TierCM2_leader_completeness. Qed.
Print Assumptions L1_leader_completeness_coreM2.

Theorem L1_committed_entries_held_coreM2 :
  forall (c : conf) (mf : N -> N -> N * N) (V : list nid) (evs : list event) (g : gstate) (a : nid) (xa : node) (i : N),
    dyn c = true -> file_dump c = false -> 1 < batch c -> validM V evs = true ->
    run_okM2 c mf V ginit [] evs = true ->
    run_trace c ginit evs = Some g ->
    aget a (nodes g) = Some xa -> a < RO_BASE -> first_idx (log xa) <= i -> i <= commit xa ->
    exists en, In en (log xa) /\ eidx en = i.
Proof. exact TierCM2_committed_held. Qed.
Print Assumptions L1_committed_entries_held_coreM2.

Theorem L1_applied_entries_agree_coreM2 :
  forall (c : conf) (mf : N -> N -> N * N) (V : list nid) (evs : list event) (g : gstate) (a b : nid) (xa xb : node)
         (ea eb : entry),
    dyn c = true -> file_dump c = false -> 1 < batch c -> validM V evs = true ->
    run_okM2 c mf V ginit [] evs = true ->
    run_trace c ginit evs = Some g ->
    aget a (nodes g) = Some xa -> aget b (nodes g) = Some xb -> a < RO_BASE -> b < RO_BASE ->
    In ea (log xa) -> In eb (log xb) -> eidx ea = eidx eb -> eidx ea <= applied xa -> eidx ea <= applied xb ->
    ea = eb.
Proof. exact TierCM2_applied_entries_agree. Qed.
Print Assumptions L1_applied_entries_agree_coreM2.

Theorem L1_committed_never_change_coreM2 :
  forall (c : conf) (mf : N -> N -> N * N) (V : list nid) (evs1 evs2 : list event) (g1 g2 : gstate) (a : nid)
         (xa1 xa2 : node) (e1 e2 : entry),
    dyn c = true -> file_dump c = false -> 1 < batch c -> validM V (evs1 ++ evs2) = true ->
    run_okM2 c mf V ginit [] (evs1 ++ evs2) = true ->
    run_trace c ginit evs1 = Some g1 -> run_trace c g1 evs2 = Some g2 ->
    aget a (nodes g1) = Some xa1 -> aget a (nodes g2) = Some xa2 -> a < RO_BASE ->
    In e1 (log xa1) -> eidx e1 <= commit xa1 ->
    commit xa1 <= commit xa2 /\ (In e2 (log xa2) -> eidx e2 = eidx e1 -> e2 = e1).
Proof. exact TierCM2_committed_never_change. Qed.
Print Assumptions L1_committed_never_change_coreM2.

(* C01-style: what ANY voter has applied at an index at ANY moment of a run is one and the same entry (a at the
   earlier moment, b at the later or the same one): all applied prefixes are prefixes of one common committed
   sequence.  (The statement about the user state [hist] itself - Props/TierC6.v C01_one_common_sequence - is
   not transported to this fragment, see the report.) *)
Theorem L1_applied_entries_agree_over_time_coreM2 :
  forall (c : conf) (mf : N -> N -> N * N) (V : list nid) (evs1 evs2 : list event) (g1 g2 : gstate) (a b : nid)
         (xa xb : node) (ea eb : entry),
    dyn c = true -> file_dump c = false -> 1 < batch c -> validM V (evs1 ++ evs2) = true ->
    run_okM2 c mf V ginit [] (evs1 ++ evs2) = true ->
    run_trace c ginit evs1 = Some g1 -> run_trace c g1 evs2 = Some g2 ->
    aget a (nodes g1) = Some xa -> aget b (nodes g2) = Some xb -> a < RO_BASE -> b < RO_BASE ->
    In ea (log xa) -> In eb (log xb) -> eidx ea = eidx eb -> eidx ea <= applied xa -> eidx ea <= applied xb ->
    ea = eb.
Proof. exact TierCM2_applied_entries_agree_over_time. Qed.
Print Assumptions L1_applied_entries_agree_over_time_coreM2.
