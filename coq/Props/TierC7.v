From Coq Require Import ZArith NArith List.
From PSO Require Import Raft.Types Raft.Node Raft.Net Raft.Obs.
From PSO Require Import Raft.ProofsApplyBase Raft.ProofsElectionGhost.
From PSO Require Import Raft.RefineAbs Raft.Refine5Abs Raft.Refine5Main Raft.Refine6Final Raft.Refine7ROFinal.
Import ListNotations.
Open Scope N_scope.

(* Tier C7: C01 for ALL nodes and C18 ("a read-only node converges to the same object state as the
   voters") on the fragment of Tier C5 (dyn = false, 1 < batch, `valid V evs`: voters start once with
   others = V minus itself; read-only nodes - ids >= RO_BASE - may start, be killed and be started again
   under the same id at any time; `run_ok5`: a node's first tick finds no dump stored).
   The sequence sigma of Tier C6 - the committed log at the end of the run without the common term-0
   entry of index 1 - explains EVERY node, voter or read-only: at every moment of the run the user state
   (`hist`) of every running node is `replay` of the first `applied - 1` entries of sigma, also right after
   the node compacted its log or installed a snapshot it received in pieces, and every snapshot a node
   stores carries the replay of sigma up to its index.  Hence the applied (and the committed) entries of
   any two nodes agree, and the user states of any two nodes at any two moments are comparable. *)

Theorem C01_one_common_sequence_all_nodes_core5 :
  forall (c : conf) (V : list nid) (evs : list event),
    dyn c = false -> 1 < batch c -> valid V evs = true -> run_ok5 c ginit evs = true ->
    exists sigma : list entry,
      forall (evs1 evs2 : list event) (g : gstate) (x : nid) (n : node),
        evs = evs1 ++ evs2 -> run_trace c ginit evs1 = Some g ->
        aget x (nodes g) = Some n ->
        exists k : nat, hist n = replay (firstn k sigma) /\ N.of_nat k + 1 = applied n.
Proof. exact TierC7_one_common_sequence_all. Qed.
Print Assumptions C01_one_common_sequence_all_nodes_core5.

Theorem C01_one_common_sequence_all_nodes_snapshots_core5 :
  forall (c : conf) (V : list nid) (evs : list event),
    dyn c = false -> 1 < batch c -> valid V evs = true -> run_ok5 c ginit evs = true ->
    exists sigma : list entry,
      forall (evs1 evs2 : list event) (g : gstate) (x : nid) (n : node),
        evs = evs1 ++ evs2 -> run_trace c ginit evs1 = Some g ->
        aget x (nodes g) = Some n ->
        (exists k : nat, hist n = replay (firstn k sigma) /\ N.of_nat k + 1 = applied n) /\
        (forall sn : snapshot, stored (sr n) = Some (Good sn) ->
           exists k : nat, s_hist sn = replay (firstn k sigma) /\ N.of_nat k + 1 = eidx (s_e1 sn)).
Proof. exact TierC7_one_common_sequence_all_snapshots. Qed.
Print Assumptions C01_one_common_sequence_all_nodes_snapshots_core5.

Theorem C01_state_is_replay_all_nodes_core5 : C01_one_common_sequence_all_nodes_full.
Proof. exact TierC7_state_is_replay_all_nodes. Qed.
Print Assumptions C01_state_is_replay_all_nodes_core5.

Theorem C01_states_comparable_all_nodes_core5 :
  forall (c : conf) (V : list nid) (evs ea ea' eb eb' : list event) (ga gb : gstate) (a b : nid) (na nb : node),
    dyn c = false -> 1 < batch c -> valid V evs = true -> run_ok5 c ginit evs = true ->
    evs = ea ++ ea' -> evs = eb ++ eb' ->
    run_trace c ginit ea = Some ga -> run_trace c ginit eb = Some gb ->
    aget a (nodes ga) = Some na -> aget b (nodes gb) = Some nb ->
    applied na <= applied nb -> exists r : list N, hist nb = hist na ++ r.
Proof. exact TierC7_states_comparable_all. Qed.
Print Assumptions C01_states_comparable_all_nodes_core5.

Theorem C18_applied_entries_agree_all_nodes_core5 :
  forall (c : conf) (V : list nid) (evs : list event) (g : gstate) (a b : nid) (xa xb : node) (ea eb : entry),
    dyn c = false -> 1 < batch c -> valid V evs = true -> run_ok5 c ginit evs = true ->
    run_trace c ginit evs = Some g ->
    aget a (nodes g) = Some xa -> aget b (nodes g) = Some xb ->
    In ea (log xa) -> In eb (log xb) -> eidx ea = eidx eb -> eidx ea <= applied xa -> eidx ea <= applied xb ->
    ea = eb.
Proof. exact TierC7_applied_entries_agree_all. Qed.
Print Assumptions C18_applied_entries_agree_all_nodes_core5.

Theorem C18_state_machine_safety_all_nodes_core5 :
  forall (c : conf) (V : list nid) (evs : list event) (g : gstate) (a b : nid) (xa xb : node) (ea eb : entry),
    dyn c = false -> 1 < batch c -> valid V evs = true -> run_ok5 c ginit evs = true ->
    run_trace c ginit evs = Some g ->
    aget a (nodes g) = Some xa -> aget b (nodes g) = Some xb ->
    In ea (log xa) -> In eb (log xb) -> eidx ea = eidx eb -> eidx ea <= commit xa -> eidx ea <= commit xb ->
    ea = eb.
Proof. exact TierC7_state_machine_safety_all. Qed.
Print Assumptions C18_state_machine_safety_all_nodes_core5.
