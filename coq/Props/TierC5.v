From Coq Require Import ZArith NArith List.
From PSO Require Import Raft.Types Raft.Node Raft.Net Raft.Obs.
From PSO Require Import Raft.ProofsElectionGhost.
From PSO Require Import Raft.RefineAbs Raft.Refine5Abs Raft.Refine5Main Raft.Refine5Final.
Import ListNotations.
Open Scope N_scope.

(* Tier C5: as Tier C4 WITHOUT the per-step hypothesis `ver_okb`: a complete snapshot may be refused by
   its receiver for its version and stay in the receiver's store.  What a node has applied (from its
   log or from a snapshot) is tied to the globally committed log directly (relation field `Rn_applied`)
   instead of through `applied <= commit`, which does not hold any more.
   Fragment: dyn = false, 1 < batch, `valid V evs` (voters start once, with others = V minus itself), and
   `run_ok5`: on every step `tick_okb` (a tick that is to load the dump file, i.e. the first tick of a
   node when file_dump = true, finds nothing stored: in the code the load precedes the first poll of
   the network).  Logs are the suffixes the nodes still hold: entries are named by their index. *)

Theorem L1_refines_L0_core5 :
  forall (c : conf) (V : list nid) (evs : list event) (g : gstate),
    dyn c = false -> 1 < batch c -> valid V evs = true -> run_ok5 c ginit evs = true ->
    run_trace c ginit evs = Some g ->
    exists gh s, grun c ginit gh0 evs = Some (g, gh) /\ KS.kreachable (absV V) s /\
                 R c V g gh (RefineFinal.sts_after [] evs) s.
Proof. exact TierC5_refinement. Qed.
Print Assumptions L1_refines_L0_core5.

Theorem L1_log_matching_core5 :
  forall (c : conf) (V : list nid) (evs : list event) (g : gstate) (a b : nid) (xa xb : node)
         (ea eb ea' eb' : entry),
    dyn c = false -> 1 < batch c -> valid V evs = true -> run_ok5 c ginit evs = true ->
    run_trace c ginit evs = Some g ->
    aget a (nodes g) = Some xa -> aget b (nodes g) = Some xb -> a < RO_BASE -> b < RO_BASE ->
    In ea (log xa) -> In eb (log xb) -> eidx ea = eidx eb -> eterm ea = eterm eb ->
    In ea' (log xa) -> In eb' (log xb) -> eidx ea' = eidx eb' -> eidx ea' <= eidx ea -> ea' = eb'.
Proof. exact TierC5_log_matching. Qed.
Print Assumptions L1_log_matching_core5.

Theorem L1_leader_completeness_core5 :
  forall (c : conf) (V : list nid) (evs1 evs2 : list event) (g1 g2 : gstate) (a l : nid) (xa xl : node)
         (ea el : entry),
    dyn c = false -> 1 < batch c -> valid V (evs1 ++ evs2) = true ->
    run_ok5 c ginit (evs1 ++ evs2) = true ->
    run_trace c ginit evs1 = Some g1 -> run_trace c g1 evs2 = Some g2 ->
    aget a (nodes g1) = Some xa -> aget l (nodes g2) = Some xl -> a < RO_BASE -> l < RO_BASE ->
    role xl = LEADER -> term xa <= term xl -> In ea (log xa) -> eidx ea <= commit xa ->
    eidx ea <= last_idx (log xl) /\ (In el (log xl) -> eidx el = eidx ea -> el = ea).
Proof. exact TierC5_leader_completeness. Qed.
Print Assumptions L1_leader_completeness_core5.

Theorem L1_state_machine_safety_core5 :
  forall (c : conf) (V : list nid) (evs : list event) (g : gstate) (a b : nid) (xa xb : node) (ea eb : entry),
    dyn c = false -> 1 < batch c -> valid V evs = true -> run_ok5 c ginit evs = true ->
    run_trace c ginit evs = Some g ->
    aget a (nodes g) = Some xa -> aget b (nodes g) = Some xb -> a < RO_BASE -> b < RO_BASE ->
    In ea (log xa) -> In eb (log xb) -> eidx ea = eidx eb -> eidx ea <= commit xa -> eidx ea <= commit xb ->
    ea = eb.
Proof. exact TierC5_state_machine_safety. Qed.
Print Assumptions L1_state_machine_safety_core5.

Theorem L1_committed_entries_held_core5 :
  forall (c : conf) (V : list nid) (evs : list event) (g : gstate) (a : nid) (xa : node) (i : N),
    dyn c = false -> 1 < batch c -> valid V evs = true -> run_ok5 c ginit evs = true ->
    run_trace c ginit evs = Some g ->
    aget a (nodes g) = Some xa -> a < RO_BASE -> first_idx (log xa) <= i -> i <= commit xa ->
    exists en, In en (log xa) /\ eidx en = i.
Proof. exact TierC5_committed_held. Qed.
Print Assumptions L1_committed_entries_held_core5.

Theorem L1_applied_entries_agree_core5 :
  forall (c : conf) (V : list nid) (evs : list event) (g : gstate) (a b : nid) (xa xb : node) (ea eb : entry),
    dyn c = false -> 1 < batch c -> valid V evs = true -> run_ok5 c ginit evs = true ->
    run_trace c ginit evs = Some g ->
    aget a (nodes g) = Some xa -> aget b (nodes g) = Some xb -> a < RO_BASE -> b < RO_BASE ->
    In ea (log xa) -> In eb (log xb) -> eidx ea = eidx eb -> eidx ea <= applied xa -> eidx ea <= applied xb ->
    ea = eb.
Proof. exact TierC5_applied_entries_agree. Qed.
Print Assumptions L1_applied_entries_agree_core5.

Theorem L1_snapshot_agrees_core5 :
  forall (c : conf) (V : list nid) (evs : list event) (g : gstate) (a b : nid) (xa xb : node)
         (sn : snapshot) (eb : entry),
    dyn c = false -> 1 < batch c -> valid V evs = true -> run_ok5 c ginit evs = true ->
    run_trace c ginit evs = Some g ->
    aget a (nodes g) = Some xa -> aget b (nodes g) = Some xb -> a < RO_BASE -> b < RO_BASE ->
    stored (sr xa) = Some (Good sn) ->
    In eb (log xb) -> eidx eb = eidx (s_e1 sn) -> eidx eb <= commit xb -> eb = s_e1 sn.
Proof. exact TierC5_snapshot_agrees. Qed.
Print Assumptions L1_snapshot_agrees_core5.

Theorem L1_committed_never_change_core5 :
  forall (c : conf) (V : list nid) (evs1 evs2 : list event) (g1 g2 : gstate) (a : nid) (xa1 xa2 : node)
         (e1 e2 : entry),
    dyn c = false -> 1 < batch c -> valid V (evs1 ++ evs2) = true ->
    run_ok5 c ginit (evs1 ++ evs2) = true ->
    run_trace c ginit evs1 = Some g1 -> run_trace c g1 evs2 = Some g2 ->
    aget a (nodes g1) = Some xa1 -> aget a (nodes g2) = Some xa2 -> a < RO_BASE ->
    In e1 (log xa1) -> eidx e1 <= commit xa1 ->
    commit xa1 <= commit xa2 /\ (In e2 (log xa2) -> eidx e2 = eidx e1 -> e2 = e1).
Proof. exact TierC5_committed_never_change. Qed.
Print Assumptions L1_committed_never_change_core5.
