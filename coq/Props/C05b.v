From Coq Require Import ZArith NArith List Bool.
From RecordUpdate Require Import RecordSet.
From PSO Require Import Raft.Types Raft.Node Raft.Net Raft.Obs Raft.ProofsSnapshotBase Raft.ProofsProgressElectBase Raft.ProofsProgressElectTick Raft.ProofsProgressElectVote Raft.ProofsProgressElectMain Raft.ProofsProgressElectSplit Raft.ProofsProgressElectExamples.
Import ListNotations.
Import RecordSetNotations.
Open Scope N_scope.

Theorem C05_candidate_start : forall (e : env) (nx : node) (me : nid),
  self nx = Some me ->
  (role nx = FOLLOWER \/ role nx = CANDIDATE) ->
  need_load nx && file_dump (cf e) = false ->
  replay_done nx ->
  (queue nx = [] \/ wait_leader (cf e) = true) ->
  (deadline nx < t0 e)%Z -> connected_to_anyone nx = true -> others nx <> [] ->
  let s := on_tick e nx in
  self (nd s) = Some me /\ others (nd s) = others nx /\ readonly (nd s) = readonly nx /\
  connected (nd s) = connected nx /\ tconn (nd s) = tconn nx /\
  role (nd s) = CANDIDATE /\ term (nd s) = term nx + 1 /\ voted (nd s) = Some me /\ votes (nd s) = 1 /\
  leader (nd s) = None /\
  wire (outs s) = map (fun y => Send y (rv_of nx)) (rv_targets nx) /\
  (log (nd s) = log nx \/ (pid (sr nx) = 1 /\ log (nd s) = delete_to (log nx) (cur_id (sr nx)))).
Proof. exact candidate_start. Qed.
Print Assumptions C05_candidate_start.

Theorem C05_single_node_elects : forall (e : env) (nx : node) (me : nid),
  self nx = Some me ->
  (role nx = FOLLOWER \/ role nx = CANDIDATE) ->
  need_load nx && file_dump (cf e) = false ->
  (deadline nx < t0 e)%Z -> others nx = [] ->
  let s := on_tick e nx in
  self (nd s) = Some me /\ role (nd s) = LEADER /\ term (nd s) = term nx + 1 /\ voted (nd s) = Some me /\
  leader (nd s) = Some me.
Proof. exact single_node_elects. Qed.
Print Assumptions C05_single_node_elects.

Theorem C05_vote_granted : forall (e : env) (from : nid) (t lli llt : N) (ny : node),
  self ny <> None ->
  (term ny < t \/ (term ny = t /\ role ny = FOLLOWER /\ voted ny = None)) ->
  log_ok_for lli llt ny -> smem from (tconn ny) = true ->
  let s := on_message e from (RequestVote t lli llt) ny in
  self (nd s) = self ny /\ others (nd s) = others ny /\ tconn (nd s) = tconn ny /\ log (nd s) = log ny /\
  role (nd s) = FOLLOWER /\ term (nd s) = t /\ voted (nd s) = Some from /\
  leader (nd s) = (if term ny <? t then None else leader ny) /\
  wire (outs s) = [Send from (ResponseVote t)].
Proof. exact vote_granted. Qed.
Print Assumptions C05_vote_granted.

Theorem C05_vote_counted : forall (e : env) (from : nid) (nx : node),
  role nx = CANDIDATE -> majority (votes nx + 1) nx = false ->
  on_message e from (ResponseVote (term nx)) nx = upd (fun n => n <| votes := votes n + 1 |>) (start_S e nx).
Proof. exact vote_counted. Qed.
Print Assumptions C05_vote_counted.

Theorem C05_majority_elects : forall (e : env) (from : nid) (nx : node) (me : nid),
  self nx = Some me -> role nx = CANDIDATE -> majority (votes nx + 1) nx = true ->
  log_wf (log nx) -> log nx <> [] -> 0 < noop_pk (cf e) ->
  let s := on_message e from (ResponseVote (term nx)) nx in
  self (nd s) = Some me /\ others (nd s) = others nx /\ readonly (nd s) = readonly nx /\
  connected (nd s) = connected nx /\ tconn (nd s) = tconn nx /\
  role (nd s) = LEADER /\ term (nd s) = term nx /\ voted (nd s) = voted nx /\ leader (nd s) = Some me /\
  no_tdrop (outs s) /\
  (forall d m, In m (sent_to d (outs s)) -> is_ae (term nx) m = true) /\
  (forall y, In y (others nx) -> smem y (connected nx) = true -> smem y (tconn nx) = true ->
             sent_to y (outs s) <> []).
Proof. exact majority_elects. Qed.
Print Assumptions C05_majority_elects.

Theorem C05_late_vote_ignored : forall (e : env) (from : nid) (t : N) (nx : node),
  (role nx <> CANDIDATE \/ t <> term nx) -> on_message e from (ResponseVote t) nx = start_S e nx.
Proof. exact late_vote_ignored. Qed.
Print Assumptions C05_late_vote_ignored.

Theorem C05_rival_request_ignored : forall (e : env) (from : nid) (t lli llt : N) (nx : node) (v : nid),
  self nx <> None -> term nx = t -> voted nx = Some v ->
  on_message e from (RequestVote t lli llt) nx = start_S e nx.
Proof. exact rival_request_ignored. Qed.
Print Assumptions C05_rival_request_ignored.

Theorem C05_append_entries_names_leader : forall (e : env) (from : nid) (m : msg) (ny : node) (T : N),
  is_ae T m = true -> term ny <= T ->
  let s := on_message e from m ny in
  self (nd s) = self ny /\ role (nd s) = FOLLOWER /\ term (nd s) = T /\
  voted (nd s) = (if term ny <? T then None else voted ny) /\ leader (nd s) = Some from.
Proof. exact ae_sets_leader. Qed.
Print Assumptions C05_append_entries_names_leader.

Theorem C05_election_resolves : forall (c : conf) (g : gstate) (x : nid) (nx : node) (ys : list nid)
    (now rnd : Z) (bud : N) (ord : list nid) (sl : N) (evs1 evs2 : list event),
  quiet_for c g x nx ys -> 0 < noop_pk c -> (deadline nx < now)%Z ->
  delivers_to x ys evs1 -> delivers_from x ys evs2 ->
  exists g' nx',
    run_trace c g (ETick x now rnd bud ord sl :: evs1 ++ evs2) = Some g' /\
    aget x (nodes g') = Some nx' /\
    role nx' = LEADER /\ term nx' = term nx + 1 /\ leader nx' = Some x /\ voted nx' = Some x /\
    forall y, In y ys ->
      follows g x (term nx + 1) y g' /\
      exists m rest, chan_get x y g' = m :: rest /\ is_ae (term nx + 1) m = true.
Proof. exact election_resolves. Qed.
Print Assumptions C05_election_resolves.

Theorem C05_leader_known : forall (c : conf) (x : nid) (T : N) (ys : list nid) (evs : list event) (g : gstate),
  delivers_to x ys evs -> NoDup ys -> ~ In x ys -> (forall y, In y ys -> pre3 x T y g) ->
  exists g', run_trace c g evs = Some g' /\ (forall y, In y ys -> post3 x T y g') /\
             aget x (nodes g') = aget x (nodes g).
Proof. exact leader_known. Qed.
Print Assumptions C05_leader_known.

Theorem C05_election_resolves_full : forall (c : conf) (g : gstate) (x : nid) (nx : node) (ys : list nid)
    (now rnd : Z) (bud : N) (ord : list nid) (sl : N) (evs1 evs2 evs3 : list event),
  quiet_for c g x nx ys -> 0 < noop_pk c -> (deadline nx < now)%Z ->
  delivers_to x ys evs1 -> delivers_from x ys evs2 -> delivers_to x ys evs3 ->
  exists g' nx',
    run_trace c g (ETick x now rnd bud ord sl :: evs1 ++ evs2 ++ evs3) = Some g' /\
    aget x (nodes g') = Some nx' /\
    role nx' = LEADER /\ term nx' = term nx + 1 /\ leader nx' = Some x /\
    forall y, In y ys ->
      exists ny', aget y (nodes g') = Some ny' /\ role ny' = FOLLOWER /\ term ny' = term nx + 1 /\
                  leader ny' = Some x.
Proof. exact election_resolves_full. Qed.
Print Assumptions C05_election_resolves_full.

Theorem C05_split_vote_retries : forall (c : conf) (g : gstate) (x1 x2 : nid) (n1 n2 : node) (T l1 t1 l2 t2 : N)
    (r1 r2 : list msg) (nowa rnda : Z) (orda : list nid) (nowb rndb : Z) (ordb : list nid)
    (now rnd : Z) (bud : N) (ord : list nid) (sl : N),
  x1 <> x2 ->
  aget x1 (nodes g) = Some n1 -> aget x2 (nodes g) = Some n2 ->
  self n1 = Some x1 -> role n1 = CANDIDATE -> term n1 = T -> voted n1 = Some x1 ->
  self n2 = Some x2 -> role n2 = CANDIDATE -> term n2 = T -> voted n2 = Some x2 ->
  chan_get x1 x2 g = RequestVote T l1 t1 :: r1 ->
  chan_get x2 x1 g = RequestVote T l2 t2 :: r2 ->
  need_load n1 && file_dump c = false -> replay_done n1 -> (queue n1 = [] \/ wait_leader c = true) ->
  (deadline n1 < now)%Z -> connected_to_anyone n1 = true -> others n1 <> [] ->
  exists g' g'' n1',
    run_trace c g [EDeliver x1 x2 nowa rnda orda; EDeliver x2 x1 nowb rndb ordb] = Some g' /\
    aget x1 (nodes g') = Some n1 /\ aget x2 (nodes g') = Some n2 /\
    chan_get x1 x2 g' = r1 /\ chan_get x2 x1 g' = r2 /\
    (forall a d, ~ (a = x1 /\ d = x2) -> ~ (a = x2 /\ d = x1) -> chan_get a d g' = chan_get a d g) /\
    run_trace c g' [ETick x1 now rnd bud ord sl] = Some g'' /\
    aget x1 (nodes g'') = Some n1' /\ role n1' = CANDIDATE /\ term n1' = T + 1 /\ voted n1' = Some x1 /\
    votes n1' = 1 /\
    wire (outs (on_tick (mk_env c now rnd bud ord sl) n1)) = map (fun y => Send y (rv_of n1)) (rv_targets n1).
Proof. exact split_vote_retries. Qed.
Print Assumptions C05_split_vote_retries.

Theorem C05_election_example_killed_leader_hyps :
  exists g nx, run_trace pe_conf ginit pe3_pre = Some g /\ quiet_for pe_conf g 2 nx [1; 3] /\
               (deadline nx < 130)%Z /\ 0 < noop_pk pe_conf /\
               delivers_to 2 [1; 3] pe3_round1 /\ delivers_from 2 [1; 3] pe3_round2 /\
               delivers_to 2 [1; 3] pe3_round3.
Proof. exact pe3_quiet. Qed.
Print Assumptions C05_election_example_killed_leader_hyps.

Theorem C05_election_example_killed_leader :
  option_map pe_view (run_trace pe_conf ginit pe3_pre) =
  Some [(1, FOLLOWER, 0, None, None, [(1, 0)]);
        (2, FOLLOWER, 1, Some 1, Some 1, [(1, 0); (2, 1); (3, 1)]);
        (3, FOLLOWER, 1, Some 1, Some 1, [(1, 0); (2, 1)])] /\
  option_map pe_view (run_trace pe_conf ginit (pe3_pre ++ peT 130 2 :: pe3_round1 ++ pe3_round2 ++ pe3_round3)) =
  Some [(1, FOLLOWER, 2, Some 2, Some 2, [(1, 0)]);
        (2, LEADER, 2, Some 2, Some 2, [(1, 0); (2, 1); (3, 1); (4, 2)]);
        (3, FOLLOWER, 2, Some 2, Some 2, [(1, 0); (2, 1)])].
Proof. exact (conj pe3_before pe3_after). Qed.
Print Assumptions C05_election_example_killed_leader.

Theorem C05_election_example_minority_down_hyps :
  exists g nx, run_trace pe_conf ginit pe5_pre = Some g /\ quiet_for pe_conf g 1 nx [2; 3] /\
               (deadline nx < 50)%Z /\ 0 < noop_pk pe_conf /\
               delivers_to 1 [2; 3] pe5_round1 /\ delivers_from 1 [2; 3] pe5_round2 /\
               delivers_to 1 [2; 3] pe5_round3.
Proof. exact pe5_quiet. Qed.
Print Assumptions C05_election_example_minority_down_hyps.

Theorem C05_split_vote_example :
  option_map pe_view (run_trace pe_conf ginit (pe2_pre ++ [peD 51 1 2; peD 51 2 1])) =
  Some [(1, CANDIDATE, 1, Some 1, None, [(1, 0)]); (2, CANDIDATE, 1, Some 2, None, [(1, 0)])] /\
  option_map pe_view (run_trace pe_conf ginit (pe2_pre ++ [peD 51 1 2; peD 51 2 1; peT 95 1; peD 96 1 2; peD 97 2 1])) =
  Some [(1, LEADER, 2, Some 1, Some 1, [(1, 0); (2, 2)]); (2, FOLLOWER, 2, Some 1, None, [(1, 0)])].
Proof. exact pe2_after. Qed.
Print Assumptions C05_split_vote_example.

Theorem C05_election_resolves_all_voters : forall (c : conf) (g : gstate) (x : nid) (nx : node)
    (now rnd : Z) (bud : N) (ord : list nid) (sl : N) (evs1 evs2 evs3 : list event),
  aget x (nodes g) = Some nx -> self nx = Some x ->
  (role nx = FOLLOWER \/ role nx = CANDIDATE) ->
  need_load nx && file_dump c = false ->
  replay_done nx ->
  (queue nx = [] \/ wait_leader c = true) ->
  NoDup (others nx) -> ~ In x (others nx) ->
  log_wf (log nx) -> log nx <> [] ->
  (pid (sr nx) = 1 -> delete_to (log nx) (cur_id (sr nx)) <> []) ->
  (forall y, In y (others nx) ->
     smem y (tconn nx) = true /\ smem y (connected nx) = true /\
     chan_get x y g = [] /\ chan_get y x g = [] /\
     exists ny, aget y (nodes g) = Some ny /\ self ny <> None /\ term ny <= term nx /\
                log_ok_for (last_idx (log nx)) (last_term (log nx)) ny /\ smem x (tconn ny) = true) ->
  0 < noop_pk c -> (deadline nx < now)%Z ->
  delivers_to x (others nx) evs1 -> delivers_from x (others nx) evs2 -> delivers_to x (others nx) evs3 ->
  exists g1 g2 nx1 nx2,
    run_trace c g (ETick x now rnd bud ord sl :: evs1 ++ evs2) = Some g1 /\
    aget x (nodes g1) = Some nx1 /\
    role nx1 = LEADER /\ term nx1 = term nx + 1 /\ leader nx1 = Some x /\
    (forall y, In y (others nx) ->
       exists ny ny1, aget y (nodes g) = Some ny /\ aget y (nodes g1) = Some ny1 /\
         role ny1 = FOLLOWER /\ term ny1 = term nx + 1 /\ voted ny1 = Some x /\ log ny1 = log ny) /\
    run_trace c g1 evs3 = Some g2 /\
    run_trace c g (ETick x now rnd bud ord sl :: evs1 ++ evs2 ++ evs3) = Some g2 /\
    aget x (nodes g2) = Some nx2 /\
    role nx2 = LEADER /\ term nx2 = term nx + 1 /\ leader nx2 = Some x /\
    (forall y, In y (others nx) ->
       exists ny2, aget y (nodes g2) = Some ny2 /\ role ny2 = FOLLOWER /\ term ny2 = term nx + 1 /\
                   leader ny2 = Some x).
Proof. exact election_resolves_all. Qed.
Print Assumptions C05_election_resolves_all_voters.

Theorem C05_node_level_example :
  exists g n2 n3, run_trace pe_conf ginit pe3_pre = Some g /\
    aget 2 (nodes g) = Some n2 /\ aget 3 (nodes g) = Some n3 /\
    let e := mk_env pe_conf 130 0 30 [] 9 in
    (self n2 = Some 2 /\ (role n2 = FOLLOWER \/ role n2 = CANDIDATE) /\
     need_load n2 && file_dump (cf e) = false /\ replay_done n2 /\
     (queue n2 = [] \/ wait_leader (cf e) = true) /\ (deadline n2 < t0 e)%Z /\
     connected_to_anyone n2 = true /\ others n2 <> []) /\
    (rv_of n2 = RequestVote 2 3 1 /\ self n3 <> None /\ term n3 < 2 /\ log_ok_for 3 1 n3 /\
     smem 2 (tconn n3) = true) /\
    (let c2 := nd (on_tick e n2) in
     self c2 = Some 2 /\ role c2 = CANDIDATE /\ term c2 = 2 /\ majority (votes c2 + 1) c2 = true /\
     log_wf (log c2) /\ log c2 <> [] /\ 0 < noop_pk (cf e)) /\
    (exists m rest g', run_trace pe_conf g (peT 130 2 :: pe3_round1 ++ pe3_round2) = Some g' /\
       chan_get 2 3 g' = m :: rest /\ is_ae 2 m = true).
Proof. exact pe3_node_level. Qed.
Print Assumptions C05_node_level_example.

Theorem C05_split_vote_example_hyps :
  exists g n1 n2, run_trace pe_conf ginit pe2_pre = Some g /\
    aget 1 (nodes g) = Some n1 /\ aget 2 (nodes g) = Some n2 /\
    self n1 = Some 1 /\ role n1 = CANDIDATE /\ term n1 = 1 /\ voted n1 = Some 1 /\
    self n2 = Some 2 /\ role n2 = CANDIDATE /\ term n2 = 1 /\ voted n2 = Some 2 /\
    chan_get 1 2 g = [RequestVote 1 1 0] /\ chan_get 2 1 g = [RequestVote 1 1 0] /\
    need_load n1 && file_dump pe_conf = false /\ replay_done n1 /\ queue n1 = [] /\
    (deadline n1 < 95)%Z /\ connected_to_anyone n1 = true /\ others n1 <> [].
Proof. exact pe2_split. Qed.
Print Assumptions C05_split_vote_example_hyps.

Theorem C05_single_node_example :
  (exists g nx, run_trace pe_conf ginit [ERestart 1 [] 0 0 1] = Some g /\ quiet_for pe_conf g 1 nx [] /\
                (deadline nx < 50)%Z) /\
  option_map pe_view (run_trace pe_conf ginit [ERestart 1 [] 0 0 1; peT 50 1]) =
  Some [(1, LEADER, 1, Some 1, Some 1, [(1, 0); (2, 1)])].
Proof. exact (conj pe1_quiet pe1_after). Qed.
Print Assumptions C05_single_node_example.
