From Coq Require Import ZArith NArith List Bool.
From PSO Require Import Raft.Types Raft.Node Raft.Net Raft.ProofsApplyBase Raft.ProofsApply Raft.ProofsApplyExamples.
Import ListNotations.
Open Scope N_scope.

(* In the model a REGULAR command with cb = 1 raises.  `runnable sv es` is the prefix of es before
   the first entry that needs a code version above sv; `replay` is the effect on the user state
   (raising commands contribute nothing); `needs_ver` marks that blocking entry. *)

(* the loop gets through every entry before the first blocker, raising or not, counts each, and
   no exception escapes *)
Theorem C12_moves_past :
  forall (es : list entry) (s : S),
  let sv := self_ver (nd s) in
  let s' := apply_list es s in
  applied (nd s') = applied (nd s) + N.of_nat (length (runnable sv es)) /\
  hist (nd s') = hist (nd s) ++ replay (runnable sv es) /\
  enabled_ver (nd s') = ver_after (enabled_ver (nd s)) (runnable sv es) /\
  self_ver (nd s') = sv /\
  exc s' = exc s /\
  (exists tl, es = runnable sv es ++ tl /\
              match tl with [] => True | b :: _ => needs_ver sv (ecmd b) = true end) /\
  ((forall e, In e es -> needs_ver sv (ecmd e) = false) ->
     applied (nd s') = applied (nd s) + N.of_nat (length es)).
Proof. exact moves_past. Qed.
Print Assumptions C12_moves_past.

(* which commands raise is invisible to the progress of the loop: all subsets of raising commands *)
Theorem C12_moves_past_any_raising :
  forall (es es' : list entry) (s : S),
  Forall2 same_but_raising es es' ->
  applied (nd (apply_list es s)) = applied (nd (apply_list es' s)) /\
  exc (apply_list es s) = exc (apply_list es' s).
Proof. exact moves_past_any_raising. Qed.
Print Assumptions C12_moves_past_any_raising.

(* one Fired per local subscriber of each executed entry: SUCCESS (with the method's result, or
   the exception marker 1 for a raising command) iff the recorded term is the entry's term,
   DISCARDED otherwise; the subscriptions are removed; other indices keep theirs *)
Theorem C12_callback_once :
  forall (es : list entry) (s : S),
  NoDup (map eidx es) ->
  asorted None (wait_commit (nd s)) ->
  let sv := self_ver (nd s) in
  let wc := wait_commit (nd s) in
  let s' := apply_list es s in
  fired (outs s') = fired (outs s) ++ fired_run (hist (nd s)) wc (runnable sv es) /\
  (forall en, In en (touched sv es) -> aget (eidx en) (wait_commit (nd s')) = None) /\
  (forall i, ~ In i (map eidx (touched sv es)) -> aget i (wait_commit (nd s')) = aget i wc) /\
  asorted None (wait_commit (nd s')).
Proof. exact callback_once. Qed.
Print Assumptions C12_callback_once.

Theorem C12_callback_result_raising :
  forall h c, raises c = true -> result_of h c = 1.
Proof. exact result_of_raises. Qed.
Print Assumptions C12_callback_result_raising.

(* replicas with the same user state end with the same user state and advance by the same amount *)
Theorem C12_replicas_equal :
  forall (es : list entry) (s1 s2 : S),
  hist (nd s1) = hist (nd s2) ->
  enabled_ver (nd s1) = enabled_ver (nd s2) ->
  self_ver (nd s1) = self_ver (nd s2) ->
  let s1' := apply_list es s1 in
  let s2' := apply_list es s2 in
  hist (nd s1') = hist (nd s2') /\
  enabled_ver (nd s1') = enabled_ver (nd s2') /\
  self_ver (nd s1') = self_ver (nd s2') /\
  (exists k, applied (nd s1') = applied (nd s1) + k /\ applied (nd s2') = applied (nd s2) + k) /\
  exc s1' = exc s1 /\ exc s2' = exc s2 /\
  (wait_commit (nd s1) = wait_commit (nd s2) ->
   exists f, fired (outs s1') = fired (outs s1) ++ f /\ fired (outs s2') = fired (outs s2) ++ f).
Proof. exact replicas_equal. Qed.
Print Assumptions C12_replicas_equal.

Theorem C12_raising_leaves_state :
  forall (es : list entry) (s : S),
  (forall e, In e es -> raises (ecmd e) = true) ->
  hist (nd (apply_list es s)) = hist (nd s) /\
  enabled_ver (nd (apply_list es s)) = enabled_ver (nd s) /\
  applied (nd (apply_list es s)) = applied (nd s) + N.of_nat (length es) /\
  exc (apply_list es s) = exc s.
Proof. exact raising_leaves_state. Qed.
Print Assumptions C12_raising_leaves_state.

(* a journal applied in one go or split anywhere gives the same state; the user state after a
   prefix is a function of the entries only *)
Theorem C12_replay_after_restart :
  forall (es1 es2 : list entry) (s : S),
  (runnable (self_ver (nd s)) es1 = es1 -> apply_list (es1 ++ es2) s = apply_list es2 (apply_list es1 s)) /\
  (runnable (self_ver (nd s)) es1 <> es1 -> apply_list (es1 ++ es2) s = apply_list es1 s) /\
  (forall s2 : S,
     hist (nd s2) = hist (nd s) -> enabled_ver (nd s2) = enabled_ver (nd s) -> self_ver (nd s2) = self_ver (nd s) ->
     applied (nd s2) = applied (nd s) ->
     hist (nd (apply_list es1 s2)) = hist (nd (apply_list es1 s)) /\
     enabled_ver (nd (apply_list es1 s2)) = enabled_ver (nd (apply_list es1 s)) /\
     applied (nd (apply_list es1 s2)) = applied (nd (apply_list es1 s))).
Proof. exact replay_after_restart. Qed.
Print Assumptions C12_replay_after_restart.

(* false of the model and of the code: the subscribers of the entry the loop stops at (one that
   needs a newer code version) are popped and never called *)
Theorem C12_unapplied_subscribers_untouched_refuted :
  ~ (forall (es : list entry) (s : S) (i : N),
       asorted None (wait_commit (nd s)) -> NoDup (map eidx es) ->
       ~ In i (map eidx (runnable (self_ver (nd s)) es)) ->
       aget i (wait_commit (nd (apply_list es s))) = aget i (wait_commit (nd s))).
Proof. exact unapplied_subscribers_untouched_refuted. Qed.
Print Assumptions C12_unapplied_subscribers_untouched_refuted.
