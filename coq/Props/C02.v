From Coq Require Import ZArith NArith List Bool.
From RecordUpdate Require Import RecordSet.
From PSO Require Import Raft.Types Raft.Node Raft.Net Raft.Obs Raft.ProofsApplyBase Raft.ProofsApply
  Raft.ProofsCallbacks Raft.ProofsCallbacks2.
From PSO Require Import Raft.ProofsElectionGhost Raft.RefineMain Raft.ProofsCallbacksCore.
From PSO Require Import Raft.Refine2Main Raft.ProofsCallbacksCore2 Raft.ProofsCallbacksFull2.
From PSO Require Import Raft.Refine3Main Raft.ProofsCallbacksCore3 Raft.ProofsCallbacksFwd3.
Import ListNotations.
Import RecordSetNotations.
Open Scope N_scope.

(* ev_ids ev: the non-zero callback id an ESubmit / EAdmin / ESetVer event carries;
   run_fired c g evs: the ids of all Fired outputs of the run, in order. *)

(* with pairwise distinct callback ids every id is fired at most once in the whole run, for every
   event list (any schedule, leader changes, forwarding, kills, restarts: a killed node forgets
   the ids it held, they never fire) *)
Theorem C02_at_most_once :
  forall (c : conf) (evs : list event) (g' : gstate) (f : list N),
  NoDup (flat_map ev_ids evs) ->
  run_fired c ginit evs = Some (g', f) ->
  NoDup f.
Proof. exact at_most_once. Qed.
Print Assumptions C02_at_most_once.

(* the resource invariant behind it, from any state: ids held by the nodes + ids fired stay distinct *)
Theorem C02_at_most_once_from :
  forall (c : conf) (evs : list event) (g g' : gstate) (f : list N),
  G_inv g ->
  NoDup (g_ids g ++ flat_map ev_ids evs) ->
  run_fired c g evs = Some (g', f) ->
  NoDup f /\ NoDup (g_ids g' ++ f).
Proof. exact at_most_once_from. Qed.
Print Assumptions C02_at_most_once_from.

(* an error outcome is produced only on a path that did not append the command and has taken it
   out of the queue *)
Theorem C02_error_means_never_appended :
  (forall e c cbk s id r err,
     In (id, r, err) (fired (outs (submit e c cbk s))) -> ~ In (id, r, err) (fired (outs s)) ->
     cbk = CbLocal id /\ r = 0 /\ err = QUEUE_FULL /\ nd (submit e c cbk s) = nd s) /\
  (forall e c cbk s rn rid a b,
     In (rn, rid, false, a, b) (aresps (outs (submit e c cbk s))) -> ~ In (rn, rid, false, a, b) (aresps (outs s)) ->
     cbk = CbRemote rn rid /\ a = QUEUE_FULL /\ nd (submit e c cbk s) = nd s) /\
  (forall e c cbk rest s,
     queue (nd s) = (c, cbk) :: rest ->
     let s0 := upd (fun n => n <| queue := rest |>) s in
     let s' := check_one e c cbk s0 in
     queue (nd s') = rest /\
     (forall id r err, In (id, r, err) (fired (outs s')) -> ~ In (id, r, err) (fired (outs s)) ->
        cbk = CbLocal id /\ r = 0 /\ err_local err /\
        log (nd s') = log (nd s) /\ wait_commit (nd s') = wait_commit (nd s) /\ wait_reply (nd s') = wait_reply (nd s)) /\
     (forall rn rid a b, In (rn, rid, false, a, b) (aresps (outs s')) -> ~ In (rn, rid, false, a, b) (aresps (outs s)) ->
        cbk = CbRemote rn rid /\ err_remote a /\
        log (nd s') = log (nd s) /\ wait_commit (nd s') = wait_commit (nd s) /\ wait_reply (nd s') = wait_reply (nd s))) /\
  (forall e from req a b n cbk,
     aget req (wait_reply n) = Some cbk ->
     let s' := on_message e from (ApplyResp req false a b) n in
     fired (outs s') = match cbk with CbLocal id => [(id, 0, a)] | _ => [] end /\
     log (nd s') = log n /\ queue (nd s') = queue n /\ wait_commit (nd s') = wait_commit n /\
     wait_reply (nd s') = adel req (wait_reply n)).
Proof. exact error_means_never_appended. Qed.
Print Assumptions C02_error_means_never_appended.

(* the complete contract of one dequeued command *)
Theorem C02_check_one_contract :
  forall e c cbk s,
  let s' := check_one e c cbk s in
  let idx := last_idx (log (nd s)) + 1 in
  let tm := term (nd s) in
  queue (nd s') = queue (nd s) /\ uview_of s' = uview_of s /\
  exists F R, fired (outs s') = fired (outs s) ++ F /\ aresps (outs s') = aresps (outs s) ++ R /\
  ((role (nd s) = LEADER /\ log (nd s') = log (nd s) ++ [mkEntry c idx tm] /\ F = [] /\
    wait_reply (nd s') = wait_reply (nd s) /\
    match cbk with
    | CbNone => R = [] /\ wait_commit (nd s') = wait_commit (nd s)
    | CbLocal id => R = [] /\
        wait_commit (nd s') = aset idx (subs_of idx (wait_commit (nd s)) ++ [(tm, cbk)]) (wait_commit (nd s))
    | CbRemote rn rid => (R = [] \/ R = [(rn, rid, true, idx, tm)]) /\ wait_commit (nd s') = wait_commit (nd s)
    end)
   \/
   (log (nd s') = log (nd s) /\ wait_commit (nd s') = wait_commit (nd s) /\
    ((role (nd s) <> LEADER /\ leader (nd s) <> None /\ F = [] /\ R = [] /\
      match cbk with
      | CbLocal id => wait_reply (nd s') = aset (local_ctr (nd s) + 1) cbk (wait_reply (nd s))
      | CbNone => wait_reply (nd s') = wait_reply (nd s)
      | CbRemote _ _ => False
      end)
     \/
     (wait_reply (nd s') = wait_reply (nd s) /\
      match cbk with
      | CbNone => F = [] /\ R = []
      | CbLocal id => exists err, F = [(id, 0, err)] /\ R = [] /\ err_local err
      | CbRemote rn rid => exists err, F = [] /\ (R = [] \/ R = [(rn, rid, false, err, 0)]) /\ err_remote err
      end)))).
Proof. exact check_one_spec. Qed.
Print Assumptions C02_check_one_contract.

(* a tick fires, in order: LEADER_CHANGED outcomes; the outcomes of the apply phase; then
   REQUEST_DENIED / MISSING_LEADER outcomes of commands just dequeued *)
Theorem C02_tick_outcomes :
  forall e n,
  let s0 := tick_pre e (start_S e n) in
  exists F0,
    fired (outs s0) = F0 /\ Forall is_leader_changed F0 /\ aresps (outs s0) = [] /\
    (ok s0 = false -> on_tick e n = s0) /\
    (ok s0 = true ->
     exists F2, fired (outs (on_tick e n)) =
                F0 ++ fired_list (hist (nd s0)) (wait_commit (nd s0)) (applied_in_tick s0) ++ F2 /\
                Forall is_local_err F2 /\ Forall resp_ok (aresps (outs (on_tick e n)))).
Proof. exact tick_outcomes. Qed.
Print Assumptions C02_tick_outcomes.

(* each outcome of the apply phase belongs to one executed entry and one subscription recorded for
   its index: SUCCESS iff the recorded term is the entry's own term, and then the result is what
   do_apply computes for that entry at that moment; DISCARDED iff the terms differ *)
Theorem C02_apply_outcome_origin :
  forall (s : S) id r err,
  log_idx_distinct (applied_in_tick s) ->
  In (id, r, err) (fired_list (hist (nd s)) (wait_commit (nd s)) (applied_in_tick s)) ->
  exists pre en post t,
    applied_in_tick s = pre ++ en :: post /\
    In (t, id) (local_subs (subs_of (eidx en) (wait_commit (nd s)))) /\
    ((err = SUCCESS /\ t = eterm en /\ r = result_of (hist (nd s) ++ replay pre) (ecmd en)) \/
     (err = DISCARDED /\ t <> eterm en /\ r = 0)).
Proof. exact apply_outcome_origin. Qed.
Print Assumptions C02_apply_outcome_origin.

(* in every step of every run from the initial state, SUCCESS and DISCARDED come out of the apply
   phase of a tick and of nowhere else.  Message handling only produces LEADER_CHANGED (a new leader
   shows up, or a late positive answer to a forwarded command whose index is already applied on the
   requester) and the refusal code carried by a negative apply_command_response; API calls only
   QUEUE_FULL *)
Theorem C02_success_local :
  forall c evs g ev g' o,
  run_trace c ginit evs = Some g -> gstep c g ev = Some (g', o) -> step_outcomes_ok c g ev o.
Proof. exact success_local. Qed.
Print Assumptions C02_success_local.

(* link to the refinement (Tier C), core fragment: a SUCCESS outcome - at the leader or, for a
   forwarded command, at the submitting follower - is fired by a tick for an entry that sits at an
   index <= the firing voter's commit index, under a subscription recorded with that entry's own term;
   and that (index, entry) pair is what every voter holds at that index, whenever its commit index
   has reached it, at every later state of the run (also after the firing voter was killed).
   The link from the id to the submitted command is C02_success_is_committed_core_full (Definition) *)
Theorem C02_success_is_committed_core_partial :
  forall (c : conf) (V : list nid) (evs1 : list event) (ev : event) (evs2 : list event)
         (g1 g2 g3 : gstate) (x : nid) (s : S) (id r : N),
  dyn c = false -> file_dump c = false -> 1 < batch c ->
  valid V (evs1 ++ ev :: evs2) = true -> run_ok c ginit (evs1 ++ ev :: evs2) = true ->
  run_trace c ginit evs1 = Some g1 -> gstep c g1 ev = Some (g2, Some (x, s)) -> x < RO_BASE ->
  In (id, r, SUCCESS) (fired (outs s)) ->
  run_trace c g2 evs2 = Some g3 ->
  exists en x0 now rnd bud ord sl,
    ev = ETick x now rnd bud ord sl /\ aget x (nodes g1) = Some x0 /\
    aget x (nodes g2) = Some (nd s) /\
    1 <= eidx en /\ eidx en <= commit (nd s) /\
    nth_error (log (nd s)) (N.to_nat (eidx en) - 1) = Some en /\
    In (eterm en, id)
       (local_subs (subs_of (eidx en)
          (wait_commit (nd (tick_pre (mk_env c now rnd bud ord sl) (start_S (mk_env c now rnd bud ord sl) x0)))))) /\
    forall b xb, aget b (nodes g3) = Some xb -> b < RO_BASE -> eidx en <= commit xb ->
                 nth_error (log xb) (N.to_nat (eidx en) - 1) = Some en.
Proof. exact success_is_committed_core_partial. Qed.
Print Assumptions C02_success_is_committed_core_partial.

(* the same over the fragment WITH log compaction and snapshot install (Tier C2): entries are named
   by their index; the fired entry is still held by the firing voter after the tick (the compaction
   step of the tick cuts only below the position applied when the tick started) *)
Theorem C02_success_is_committed_core2_partial :
  forall (c : conf) (V : list nid) (evs1 : list event) (ev : event) (evs2 : list event)
         (g1 g2 g3 : gstate) (x : nid) (s : S) (id r : N),
  dyn c = false -> file_dump c = false -> 1 < batch c ->
  valid V (evs1 ++ ev :: evs2) = true -> run_ok2 c ginit (evs1 ++ ev :: evs2) = true ->
  run_trace c ginit evs1 = Some g1 -> gstep c g1 ev = Some (g2, Some (x, s)) -> x < RO_BASE ->
  In (id, r, SUCCESS) (fired (outs s)) ->
  run_trace c g2 evs2 = Some g3 ->
  exists en x0 now rnd bud ord sl,
    ev = ETick x now rnd bud ord sl /\ aget x (nodes g1) = Some x0 /\
    aget x (nodes g2) = Some (nd s) /\
    In en (log (nd s)) /\ applied x0 < eidx en /\ eidx en <= commit (nd s) /\
    In (eterm en, id)
       (local_subs (subs_of (eidx en)
          (wait_commit (nd (tick_pre (mk_env c now rnd bud ord sl) (start_S (mk_env c now rnd bud ord sl) x0)))))) /\
    forall b xb eb, aget b (nodes g3) = Some xb -> b < RO_BASE -> In eb (log xb) -> eidx eb = eidx en ->
                    eidx en <= commit xb -> eb = en.
Proof. exact success_is_committed_core2_partial. Qed.
Print Assumptions C02_success_is_committed_core2_partial.

(* with the id -> command link, for a command whose callback id was never parked in a pending-reply
   table before the firing step (fwd_run collects those ids: the command was not forwarded, i.e. it
   was appended by the node it was submitted at): the entry that fired the callback carries the
   command submitted under that id at that node (ESubmit or ESetVer) *)
Theorem C02_success_is_committed_core2_direct :
  forall (c : conf) (V : list nid) (evs1 : list event) (ev : event) (evs2 : list event)
         (g1 g2 g3 : gstate) (x : nid) (s : S) (id r : N),
  dyn c = false -> file_dump c = false -> 1 < batch c ->
  valid V (evs1 ++ ev :: evs2) = true -> run_ok2 c ginit (evs1 ++ ev :: evs2) = true ->
  run_trace c ginit evs1 = Some g1 -> gstep c g1 ev = Some (g2, Some (x, s)) -> x < RO_BASE ->
  In (id, r, SUCCESS) (fired (outs s)) ->
  run_trace c g2 evs2 = Some g3 ->
  ~ In id (fwd_run c ginit evs1) ->
  exists en cm,
    submitted x cm id evs1 /\ ecmd en = cm /\
    In en (log (nd s)) /\ eidx en <= commit (nd s) /\
    forall b xb eb, aget b (nodes g3) = Some xb -> b < RO_BASE -> In eb (log xb) -> eidx eb = eidx en ->
                    eidx en <= commit xb -> eb = en.
Proof. exact success_is_committed_core2_direct. Qed.
Print Assumptions C02_success_is_committed_core2_direct.

(* the same two statements over the Tier C3 fragment (entries sent in pieces too, no smallness
   hypothesis: run_ok3 only asks that no complete snapshot is refused for its version) *)
Theorem C02_success_is_committed_core3_partial :
  forall (c : conf) (V : list nid) (evs1 : list event) (ev : event) (evs2 : list event)
         (g1 g2 g3 : gstate) (x : nid) (s : S) (id r : N),
  dyn c = false -> file_dump c = false -> 1 < batch c ->
  valid V (evs1 ++ ev :: evs2) = true -> run_ok3 c ginit (evs1 ++ ev :: evs2) = true ->
  run_trace c ginit evs1 = Some g1 -> gstep c g1 ev = Some (g2, Some (x, s)) -> x < RO_BASE ->
  In (id, r, SUCCESS) (fired (outs s)) ->
  run_trace c g2 evs2 = Some g3 ->
  exists en x0 now rnd bud ord sl,
    ev = ETick x now rnd bud ord sl /\
    aget x (nodes g1) = Some x0 /\
    aget x (nodes g2) = Some (nd s) /\
    In en (log (nd s)) /\ applied x0 < eidx en /\ eidx en <= commit (nd s) /\
    In (eterm en, id)
       (local_subs (subs_of (eidx en)
          (wait_commit (nd (tick_pre (mk_env c now rnd bud ord sl) (start_S (mk_env c now rnd bud ord sl) x0)))))) /\
    forall b xb eb, aget b (nodes g3) = Some xb -> b < RO_BASE -> In eb (log xb) -> eidx eb = eidx en ->
                    eidx en <= commit xb -> eb = en.
Proof. exact success_is_committed_core3_partial. Qed.
Print Assumptions C02_success_is_committed_core3_partial.

Theorem C02_success_is_committed_core3_direct :
  forall (c : conf) (V : list nid) (evs1 : list event) (ev : event) (evs2 : list event)
         (g1 g2 g3 : gstate) (x : nid) (s : S) (id r : N),
  dyn c = false -> file_dump c = false -> 1 < batch c ->
  valid V (evs1 ++ ev :: evs2) = true -> run_ok3 c ginit (evs1 ++ ev :: evs2) = true ->
  run_trace c ginit evs1 = Some g1 -> gstep c g1 ev = Some (g2, Some (x, s)) -> x < RO_BASE ->
  In (id, r, SUCCESS) (fired (outs s)) ->
  run_trace c g2 evs2 = Some g3 ->
  ~ In id (fwd_run c ginit evs1) ->
  exists en cm,
    submitted x cm id evs1 /\ ecmd en = cm /\
    In en (log (nd s)) /\ eidx en <= commit (nd s) /\
    forall b xb eb, aget b (nodes g3) = Some xb -> b < RO_BASE -> In eb (log xb) -> eidx eb = eidx en ->
                    eidx en <= commit xb -> eb = en.
Proof. exact success_is_committed_core3_direct. Qed.
Print Assumptions C02_success_is_committed_core3_direct.

(* the id -> command link without the "never forwarded" hypothesis: a callback that fires SUCCESS
   at a voter x (its command was appended by x itself, or forwarded by x to the leader with a
   request id, answered with the position, and subscribed there) fires for an entry that carries
   the command submitted at x under that callback id.  Read-only nodes (x >= RO_BASE), which may
   be restarted and then re-use request ids, are not covered. *)
Theorem C02_success_is_committed_core3_forwarded :
  forall (c : conf) (V : list nid) (evs1 : list event) (ev : event) (evs2 : list event)
         (g1 g2 g3 : gstate) (x : nid) (s : S) (id r : N),
  dyn c = false -> file_dump c = false -> 1 < batch c ->
  valid V (evs1 ++ ev :: evs2) = true -> run_ok3 c ginit (evs1 ++ ev :: evs2) = true ->
  run_trace c ginit evs1 = Some g1 -> gstep c g1 ev = Some (g2, Some (x, s)) -> x < RO_BASE ->
  In (id, r, SUCCESS) (fired (outs s)) ->
  run_trace c g2 evs2 = Some g3 ->
  exists en cm,
    submitted x cm id evs1 /\ ecmd en = cm /\
    In en (log (nd s)) /\ eidx en <= commit (nd s) /\
    forall b xb eb, aget b (nodes g3) = Some xb -> b < RO_BASE -> In eb (log xb) -> eidx eb = eidx en ->
                    eidx en <= commit xb -> eb = en.
Proof. exact success_is_committed_core3_forwarded. Qed.
Print Assumptions C02_success_is_committed_core3_forwarded.

(* without "x < RO_BASE" the id -> command link is FALSE: a restarted read-only node re-uses its
   request ids while the leader still holds a request of the previous incarnation; the answer to the
   old request subscribes the new callback at the position of the old command
   (C02_success_is_committed_core3_forwarded_any_node is the statement above for any node x, with the
   conclusion reduced to: some committed entry of the log of x carries a command submitted at x under
   the fired id; the witness is the 64-event run ro_trace, Example readonly_request_id_reuse) *)
Theorem C02_success_is_committed_core3_forwarded_readonly_refuted :
  ~ C02_success_is_committed_core3_forwarded_any_node.
Proof. exact success_is_committed_core3_forwarded_readonly_refuted. Qed.
Print Assumptions C02_success_is_committed_core3_forwarded_readonly_refuted.
