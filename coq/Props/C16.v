From Coq Require Import ZArith List Bool.
From PSO Require Import Lock.Base Lock.Gen Lock.Log Lock.Client Lock.ProofsTable Lock.ProofsExclusion Lock.ProofsClient.
Import ListNotations.
Open Scope Z_scope.

Theorem C16_exclusion_same_replica :
  forall U T L A B nowA nowB, A <> B ->
    ~ (is_acquired U T L A nowA = true /\ is_acquired U T L B nowB = true).
Proof. exact exclusion_same_replica. Qed.
Print Assumptions C16_exclusion_same_replica.

Theorem C16_mutual_exclusion :
  forall U p1 d L A B now,
    A <> B ->
    (forall t, In t (cmd_times d) -> t <= now) ->
    client_mono A (p1 ++ d) ->
    ~ In (Release L A) d ->
    ~ (is_acquired U (replay U p1) L A now = true /\ is_acquired U (replay U (p1 ++ d)) L B now = true).
Proof. exact mutual_exclusion. Qed.
Print Assumptions C16_mutual_exclusion.

Theorem C16_mono_proviso_necessary :
  exists U p1 d L A B now,
    A <> B /\ (forall t, In t (cmd_times d) -> t <= now) /\ ~ In (Release L A) d
    /\ ~ client_mono A (p1 ++ d)
    /\ is_acquired U (replay U p1) L A now = true
    /\ is_acquired U (replay U (p1 ++ d)) L B now = true.
Proof. exact mono_proviso_necessary. Qed.
Print Assumptions C16_mono_proviso_necessary.

Theorem C16_release_proviso_necessary :
  exists U p1 d L A B now,
    A <> B /\ (forall t, In t (cmd_times d) -> t <= now) /\ client_mono A (p1 ++ d)
    /\ In (Release L A) d
    /\ is_acquired U (replay U p1) L A now = true
    /\ is_acquired U (replay U (p1 ++ d)) L B now = true.
Proof. exact release_proviso_necessary. Qed.
Print Assumptions C16_release_proviso_necessary.

Theorem C16_clock_proviso_necessary :
  exists U p1 d L A B now,
    A <> B /\ client_mono A (p1 ++ d) /\ ~ In (Release L A) d
    /\ ~ (forall t, In t (cmd_times d) -> t <= now)
    /\ is_acquired U (replay U p1) L A now = true
    /\ is_acquired U (replay U (p1 ++ d)) L B now = true.
Proof. exact clock_proviso_necessary. Qed.
Print Assumptions C16_clock_proviso_necessary.

Theorem C16_late_acquire_fails :
  forall U self p raw acquireTime,
    p_mode p <> MSyncCallback ->
    2 * (acquireTime - p_attempt p) > U ->
    fst (try_complete U self p raw acquireTime) <> TBool true
    /\ (raw = Some true ->
        try_complete U self p raw acquireTime = (TBool false, [Release (p_lock p) self])).
Proof. exact late_acquire_fails. Qed.
Print Assumptions C16_late_acquire_fails.

Theorem C16_late_acquire_release_applied :
  forall U self p acquireTime T now,
    p_mode p <> MSyncCallback ->
    2 * (acquireTime - p_attempt p) > U ->
    forall c, In c (snd (try_complete U self p (Some true) acquireTime)) ->
    client_is_acquired U self (apply_cmd U T c) (p_lock p) now = false.
Proof. exact late_acquire_release_applied. Qed.
Print Assumptions C16_late_acquire_release_applied.

Theorem C16_expiry :
  forall U log s L H t C tc,
    tget (replay U log) L = Some (H, t) ->
    client_times H s = [] ->
    tc - t > U ->
    acquire_ok U (replay U (log ++ s)) L C tc = true
    \/ exists C' t', C' <> H /\ C' <> C /\ tget (replay U (log ++ s)) L = Some (C', t') /\ tc - t' <= U.
Proof. exact expiry. Qed.
Print Assumptions C16_expiry.

Theorem C16_expiry_uncontended :
  forall U log s L H t C tc,
    tget (replay U log) L = Some (H, t) ->
    client_times H s = [] ->
    existsb (is_acquire_of L) s = false ->
    tc - t > U ->
    acquire_ok U (replay U (log ++ s)) L C tc = true.
Proof. exact expiry_uncontended. Qed.
Print Assumptions C16_expiry_uncontended.

Theorem C16_release_foreign_noop :
  forall U T L C, (forall t, tget T L <> Some (C, t)) -> release U T L C = Ret T PyNone.
Proof. exact release_foreign_noop. Qed.
Print Assumptions C16_release_foreign_noop.

Theorem C16_release_drops_lock :
  forall U T L C now, is_acquired U (apply_cmd U T (Release L C)) L C now = false.
Proof. exact release_drops_lock. Qed.
Print Assumptions C16_release_drops_lock.

Theorem C16_no_keyerror :
  forall U log c, exists T' v, run_cmd U (replay U log) c = Ret T' v.
Proof. exact no_keyerror. Qed.
Print Assumptions C16_no_keyerror.

Theorem C16_snapshot_transparent :
  forall U p s, replay U (p ++ s) = run_log U (replay U p) s.
Proof. exact replay_app. Qed.
Print Assumptions C16_snapshot_transparent.
