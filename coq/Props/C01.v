From Coq Require Import ZArith NArith List Bool.
From PSO Require Import Raft.Types Raft.Node Raft.Net Raft.Obs Raft.ProofsApplyBase Raft.ProofsApply Raft.ProofsApplyLog
  Raft.ProofsCallbacks Raft.ProofsCallbacks2 Raft.ProofsApplyReplay Raft.ProofsApplyWf.
From PSO Require Raft.ProofsCommitBase Raft.ProofsCommit.
Import ListNotations.
Open Scope N_scope.

(* Local part of C01.  log_wf l: l is not empty and its indices increase by exactly one (taken as a
   hypothesis here).  The cluster-wide part (C01_state_machine_safety_full,
   C01_state_is_replay_full in Raft/ProofsApplyReplay.v) needs Log Matching + Leader Completeness
   and is not proved. *)

(* apply_entries executes exactly the entries applied+1 .. min(commit, last) (up to the first one
   that needs a newer code version), in increasing order, no gap, no repeat; applied ends at the
   last executed index *)
Theorem C01_apply_consecutive :
  forall (e : env) (s : S),
  log_wf (log (nd s)) ->
  let s' := fst (apply_entries e s) in
  let es := applied_now s in
  consec (applied (nd s) + 1) es /\
  (exists a b, log (nd s) = a ++ es ++ b) /\
  NoDup (map eidx es) /\
  applied (nd s') = applied (nd s) + N.of_nat (length es) /\
  (es <> [] -> applied (nd s') = last_idx es) /\
  applied (nd s') <= N.max (applied (nd s)) (N.min (commit (nd s)) (last_idx (log (nd s)))) /\
  (first_idx (log (nd s)) <= applied (nd s) + 1 -> applied (nd s) <= last_idx (log (nd s)) ->
   (forall en, In en (log (nd s)) -> needs_ver (self_ver (nd s)) (ecmd en) = false) ->
   applied (nd s') = N.max (applied (nd s)) (N.min (commit (nd s)) (last_idx (log (nd s))))) /\
  hist (nd s') = hist (nd s) ++ replay es /\
  enabled_ver (nd s') = ver_after (enabled_ver (nd s)) es /\
  exc s' = exc s /\
  log (nd s') = log (nd s) /\ commit (nd s') = commit (nd s).
Proof. exact apply_consecutive. Qed.
Print Assumptions C01_apply_consecutive.

(* serialization captures the user state and the entries at applied-1 / applied of that instant *)
Theorem C01_state_is_replay_compact :
  forall (e : env) (s : S),
  log_wf (log (nd s)) ->
  pid (sr (nd s)) = 0 ->
  let s' := try_compact e s in
  hist (nd s') = hist (nd s) /\ applied (nd s') = applied (nd s) /\ enabled_ver (nd s') = enabled_ver (nd s) /\
  log (nd s') = log (nd s) /\
  (pid (sr (nd s')) = 0 /\ stored (sr (nd s')) = stored (sr (nd s))
   \/
   exists sn, pid (sr (nd s')) = 1 /\ stored (sr (nd s')) = Some (Good sn) /\ cur_id (sr (nd s')) = eidx (s_e0 sn) /\
     s_hist sn = hist (nd s) /\ s_ver sn = enabled_ver (nd s) /\
     eidx (s_e0 sn) = applied (nd s) - 1 /\ eidx (s_e1 sn) = eidx (s_e0 sn) + 1 /\
     (exists a b, log (nd s) = a ++ s_e0 sn :: s_e1 sn :: b)).
Proof. exact compact_captures. Qed.
Print Assumptions C01_state_is_replay_compact.

(* loading a dump installs exactly the snapshot (a received one, clear = true, only when it is
   ahead of the node's position) *)
Theorem C01_state_is_replay_load :
  forall (e : env) (clear : bool) (s : S) (sn : snapshot),
  stored (sr (nd s)) = Some (Good sn) ->
  s_ver sn <= self_ver (nd s) ->
  (clear = true -> applied (nd s) < eidx (s_e1 sn)) ->
  let s' := load_dump e clear s in
  hist (nd s') = s_hist sn /\ enabled_ver (nd s') = s_ver sn /\ applied (nd s') = eidx (s_e1 sn) /\
  self_ver (nd s') = self_ver (nd s) /\ commit (nd s') = commit (nd s) /\
  log (nd s') = (if ProofsCommit.snap_kept sn (log (nd s))
                 then delete_to (log (nd s)) (eidx (s_e0 sn)) else [s_e0 sn; s_e1 sn]) /\
  (log (nd s') = [s_e0 sn; s_e1 sn] \/
   exists a b r, log (nd s') = a :: b :: r /\ entry_eqb a (s_e0 sn) = true /\ entry_eqb b (s_e1 sn) = true /\
                 exists pre, log (nd s) = pre ++ a :: b :: r).
Proof. exact load_dump_installs. Qed.
Print Assumptions C01_state_is_replay_load.

(* every tick: user state = (state after the optional dump load) extended by the replay of the
   consecutive entries executed in this tick *)
Theorem C01_state_is_replay_partial_tick :
  forall e n,
  let s0 := tick_pre e (start_S e n) in
  let es := applied_in_tick s0 in
  let '(h0, a0, v0, sv) := match loaded e n with
                           | Some sn => (s_hist sn, eidx (s_e1 sn), s_ver sn, self_ver n)
                           | None => (hist n, applied n, enabled_ver n, self_ver n)
                           end in
  uview_of s0 = (h0, a0, v0, sv) /\
  (ok s0 = false -> on_tick e n = s0) /\
  (ok s0 = true ->
   hist (nd (on_tick e n)) = h0 ++ replay es /\
   applied (nd (on_tick e n)) = a0 + N.of_nat (length es) /\
   enabled_ver (nd (on_tick e n)) = ver_after v0 es /\
   (log_wf (log (nd s0)) -> consec (a0 + 1) es /\ exists a b, log (nd s0) = a ++ es ++ b)).
Proof. exact tick_state_is_replay. Qed.
Print Assumptions C01_state_is_replay_partial_tick.

(* every delivered message: user state untouched, or a complete snapshot is installed *)
Theorem C01_state_is_replay_partial_message :
  forall e from m n,
  let s' := on_message e from m n in
  uview_of s' = uview_of (start_S e n) \/ installed m (self_ver n) s'.
Proof. exact message_state. Qed.
Print Assumptions C01_state_is_replay_partial_message.

(* every other event: user state untouched *)
Theorem C01_state_is_replay_partial_other :
  forall (api : env -> cmd -> cbref -> node -> S) e c cbk n x,
  (api = api_submit \/ api = api_admin \/ api = api_setver) ->
  uview_of (api e c cbk n) = uview_of (start_S e n) /\
  uview_of (idle_S (on_connected x n)) = uview_of (idle_S n) /\
  uview_of (idle_S (on_disconnected x n)) = uview_of (idle_S n) /\
  uview_of (idle_S (api_compact n)) = uview_of (idle_S n).
Proof. exact other_events_state. Qed.
Print Assumptions C01_state_is_replay_partial_other.

(* ---- log_wf through the handlers (each with the side condition it needs) ---- *)

(* append_entries body: truncation from the first conflict + append keeps the log well-formed when
   the entries of the message follow its prev index *)
Theorem C01_log_wf_append_entries :
  forall e from c prev new s,
  log_wf (log (nd s)) ->
  (forall p t, prev = Some (p, t) -> consec (p + 1) new) ->
  log_wf (log (nd (ae_regular e from c prev new s))).
Proof. exact log_wf_ae_regular. Qed.
Print Assumptions C01_log_wf_append_entries.

Theorem C01_log_wf_load_dump :
  forall e clear s,
  log_wf (log (nd s)) ->
  (forall sn, stored (sr (nd s)) = Some (Good sn) -> snap_wf sn) ->
  log_wf (log (nd (load_dump e clear s))).
Proof. exact log_wf_load_dump. Qed.
Print Assumptions C01_log_wf_load_dump.

Theorem C01_log_wf_try_compact :
  forall e s,
  log_wf (log (nd s)) ->
  (pid (sr (nd s)) = 1 -> cur_id (sr (nd s)) <= last_idx (log (nd s))) ->
  log_wf (log (nd (try_compact e s))).
Proof. exact log_wf_try_compact. Qed.
Print Assumptions C01_log_wf_try_compact.

(* every delivered well-formed message keeps the log well-formed (all message kinds: entries,
   chunked entry, snapshot chunks, votes, forwarded commands, replies) *)
Theorem C01_log_wf_message :
  forall e from m n,
  log_wf (log n) -> msg_wf m ->
  (forall sn, stored (sr n) = Some (Good sn) -> snap_wf sn) ->
  (forall ps, incoming (sr n) = Some ps -> Forall piece_wf ps) ->
  log_wf (log (nd (on_message e from m n))).
Proof. exact log_wf_on_message. Qed.
Print Assumptions C01_log_wf_message.

(* a tick keeps it up to the compaction phase; compaction keeps it when the cut index of a
   finished serialization is still in the log *)
Theorem C01_log_wf_tick_partial :
  forall e n,
  log_wf (log n) ->
  (forall sn, stored (sr n) = Some (Good sn) -> snap_wf sn) ->
  let sb := tick_body e (start_S e n) in
  log_wf (log (nd sb)) /\
  ((pid (sr (nd sb)) = 1 -> cur_id (sr (nd sb)) <= last_idx (log (nd sb))) ->
   log_wf (log (nd (on_tick e n)))).
Proof. exact log_wf_on_tick. Qed.
Print Assumptions C01_log_wf_tick_partial.

Theorem C01_log_other_events :
  forall (api : env -> cmd -> cbref -> node -> S) e c cbk n x,
  (api = api_submit \/ api = api_admin \/ api = api_setver) ->
  log (nd (api e c cbk n)) = log n /\ log (on_connected x n) = log n /\ log (on_disconnected x n) = log n /\
  log (api_compact n) = log n.
Proof. exact log_other_events. Qed.
Print Assumptions C01_log_other_events.

Theorem C01_log_wf_init :
  forall e me oth sv, log_wf (log (init_node e me oth sv)).
Proof. exact log_wf_init. Qed.
Print Assumptions C01_log_wf_init.
