(* Tier CM2: refinement of the faithful model WITH dynamic membership AND log compaction / snapshot install
   to AbstractM (Raft/RefineM2*.v; header of Raft/RefineM2Final.v documents the tier).
   Explicit extra hypothesis of the fragment: [snap_ok] inside [run_okM2] - a voter takes a snapshot only at a
   position where it is a member of the configuration its log defines.  WITHOUT it State Machine Safety is
   broken: Raft/RefineM2Finding.v (Examples finding_in_fragment, finding_member_set,
   finding_state_machine_safety_broken) and Raft/RefineM2Finding2.v (finding2_snapshot_before_own_add_arrives,
   finding2_state_machine_safety_broken) = known finding KF-C10-3.
   All hypotheses are explicit; [mf] is the function giving the size fields of a membership command from its
   content (checked on every submitted command by run_okM2). *)
From Coq Require Import ZArith NArith List.
From PSO Require Import Raft.Types Raft.Node Raft.Net Raft.Obs.
From PSO Require Import Raft.ProofsElectionBase Raft.ProofsElectionGhost Raft.ProofsMembership.
From PSO Require Import Raft.RefineMAbs Raft.RefineMMain Raft.RefineM2Abs Raft.RefineM2Main Raft.RefineM2Final.
Import ListNotations.
Open Scope N_scope.

Theorem L1_refines_AbstractM_coreM2 :
  forall (c : conf) (mf : N -> N -> N * N) (V : list nid) (evs : list event) (g : gstate),
    dyn c = true -> file_dump c = false -> 1 < batch c -> validM V evs = true ->
    run_okM2 c mf V ginit [] evs = true ->
    run_trace c ginit evs = Some g ->
    exists s, KS.kreachable (absV V) F0 s /\ R c mf V g (sts_after [] evs) s.
Proof. exact TierCM2_refinement. Qed.
Print Assumptions L1_refines_AbstractM_coreM2.

Theorem L1_one_leader_per_term_coreM2 :
  forall (c : conf) (mf : N -> N -> N * N) (V : list nid) (evs : list event) (g : gstate) (a b : nid) (xa xb : node),
    dyn c = true -> file_dump c = false -> 1 < batch c -> validM V evs = true ->
    run_okM2 c mf V ginit [] evs = true ->
    run_trace c ginit evs = Some g ->
    aget a (nodes g) = Some xa -> aget b (nodes g) = Some xb -> a < RO_BASE -> b < RO_BASE ->
    role xa = LEADER -> role xb = LEADER -> term xa = term xb -> a = b.
Proof. exact TierCM2_one_leader_per_term. Qed.
Print Assumptions L1_one_leader_per_term_coreM2.

Theorem L1_state_machine_safety_coreM2 :
  forall (c : conf) (mf : N -> N -> N * N) (V : list nid) (evs : list event) (g : gstate) (a b : nid) (xa xb : node)
         (ea eb : entry),
    dyn c = true -> file_dump c = false -> 1 < batch c -> validM V evs = true ->
    run_okM2 c mf V ginit [] evs = true ->
    run_trace c ginit evs = Some g ->
    aget a (nodes g) = Some xa -> aget b (nodes g) = Some xb -> a < RO_BASE -> b < RO_BASE ->
    In ea (log xa) -> In eb (log xb) -> eidx ea = eidx eb -> eidx ea <= commit xa -> eidx ea <= commit xb ->
    ea = eb.
Proof. exact TierCM2_state_machine_safety. Qed.
Print Assumptions L1_state_machine_safety_coreM2.

Theorem L1_members_follow_log_coreM2 :
  forall (c : conf) (mf : N -> N -> N * N) (V : list nid) (evs : list event) (g : gstate) (a : nid) (xa : node),
    dyn c = true -> file_dump c = false -> 1 < batch c -> validM V evs = true ->
    run_okM2 c mf V ginit [] evs = true ->
    run_trace c ginit evs = Some g ->
    aget a (nodes g) = Some xa -> a < RO_BASE ->
    exists full, suffix_of (log xa) full /\
      others xa = fold_members (vminus a V) full (Some a) /\
      (forall y, In y (others xa) <-> y <> a /\ In (N.to_nat y) (M.gcfg (absV V) (absL (pk c) full))).
Proof. exact TierCM2_members_follow_log. Qed.
Print Assumptions L1_members_follow_log_coreM2.

Theorem L1_snapshot_members_coreM2 :
  forall (c : conf) (mf : N -> N -> N * N) (V : list nid) (evs : list event) (g : gstate) (a : nid) (xa : node)
         (sn : snapshot),
    dyn c = true -> file_dump c = false -> 1 < batch c -> validM V evs = true ->
    run_okM2 c mf V ginit [] evs = true ->
    run_trace c ginit evs = Some g ->
    aget a (nodes g) = Some xa -> a < RO_BASE -> stored (sr xa) = Some (Good sn) ->
    exists full, suffix_of (log xa) full /\ eidx (s_e1 sn) <= commit xa /\
      nth_error full (N.to_nat (eidx (s_e1 sn)) - 1) = Some (s_e1 sn) /\
      (forall y, In y (s_cluster sn) <->
                 In (N.to_nat y) (M.gcfg (absV V) (absL (pk c) (firstn (N.to_nat (eidx (s_e1 sn))) full)))).
Proof. exact TierCM2_snapshot_members. Qed.
Print Assumptions L1_snapshot_members_coreM2.
