From Coq Require Import ZArith NArith List Bool.
From PSO Require Import Base.PyBytes Base.PyBytesFacts Framing.Model Framing.Proofs Framing.Proofs2.
Import ListNotations.
Open Scope Z_scope.

(* struct.pack('i', z) / struct.unpack('i', ...) *)
Theorem C13_length_field_roundtrip :
  forall z rest, (- two31 <= z < two31)%Z -> unpack_i (pack_i z ++ rest) = z.
Proof. exact unpack_pack_i. Qed.
Print Assumptions C13_length_field_roundtrip.

(* feed dec now c chunk = parse_all dec now (set_rbuf c (rbuf c ++ chunk)) is exactly what one
   __processConnection call with the READ flag does when recv returns the non-empty chunks bs
   (then EAGAIN or end of script), no error flag, no timeout, nothing to write; a WRITE flag
   (with nothing to write) only turns the poller subscription into READ|ERROR *)
Theorem C13_feed_is_step :
  forall (dec : bytes -> dres) (c : conn) (now : Z) (wr : bool) (ss : list sres)
         (bs : list bytes) (tl : list rres),
    st c = Connected ->
    now - last_read c <= timeout c ->
    (wr = true -> wbuf c = []) ->
    Forall (fun b => b <> []) bs ->
    match tl with [] => True | REagain :: _ => True | _ => False end ->
    step dec c (EPoll now true wr false false ss (map (fun b => RChunk b false) bs ++ tl))
    = feed dec now (set_last_read (if wr then set_interest c (Some (RE false)) else c) now) (concat bs).
Proof. exact step_poll_is_feed. Qed.
Print Assumptions C13_feed_is_step.

(* all message lists, all fragmentations of the frame stream: exactly ms, in order, buffer
   empty, connection state untouched, no oracle miss *)
Theorem C13_reader :
  forall (dec : bytes -> dres) (payload : N -> bytes) (now : Z) (ms : list N) (cs : list bytes)
         (c : conn),
    (forall m, In m ms -> dec (payload m) = DOk m /\ zlen (payload m) < two31) ->
    rbuf c = [] ->
    concat cs = concat (map (fun m => frame (payload m)) ms) ->
    feed_all dec now c cs =
      (c, {| accepted := []; delivered := ms; disc_calls := 0; conn_calls := 0; miss := false |}).
Proof. exact C13_reader_thm. Qed.
Print Assumptions C13_reader.

(* after any prefix of the stream, in any fragmentation: the first k messages, where the bytes
   that arrived are k whole frames plus a strict prefix (tail) of frame k; rbuf = tail *)
Theorem C13_reader_prefix :
  forall (dec : bytes -> dres) (payload : N -> bytes) (now : Z) (ms : list N) (cs : list bytes)
         (rest : bytes) (c : conn),
    (forall m, In m ms -> dec (payload m) = DOk m /\ zlen (payload m) < two31) ->
    rbuf c = [] ->
    concat cs ++ rest = concat (map (fun m => frame (payload m)) ms) ->
    exists k tail,
      (k <= length ms)%nat /\
      concat cs = concat (map (fun m => frame (payload m)) (firstn k ms)) ++ tail /\
      match skipn k ms with
      | [] => tail = []
      | m :: _ => exists s, s <> [] /\ tail ++ s = frame (payload m)
      end /\
      feed_all dec now c cs =
        (set_rbuf c tail,
         {| accepted := []; delivered := firstn k ms; disc_calls := 0; conn_calls := 0; miss := false |}).
Proof. exact C13_reader_prefix_thm. Qed.
Print Assumptions C13_reader_prefix.

(* the same for every such decomposition (so k and tail are determined by the bytes) *)
Theorem C13_reader_prefix_unique :
  forall (dec : bytes -> dres) (payload : N -> bytes) (now : Z) (ms : list N) (cs : list bytes)
         (k : nat) (tail : bytes) (c : conn),
    (forall m, In m ms -> dec (payload m) = DOk m /\ zlen (payload m) < two31) ->
    rbuf c = [] -> (k <= length ms)%nat ->
    concat cs = concat (map (fun m => frame (payload m)) (firstn k ms)) ++ tail ->
    match skipn k ms with
    | [] => tail = []
    | m :: _ => exists s, s <> [] /\ tail ++ s = frame (payload m)
    end ->
    feed_all dec now c cs =
      (set_rbuf c tail,
       {| accepted := []; delivered := firstn k ms; disc_calls := 0; conn_calls := 0; miss := false |}).
Proof. exact C13_reader_prefix_unique_thm. Qed.
Print Assumptions C13_reader_prefix_unique.

(* C13_reader stated on Model.run: one READ event per non-empty chunk, polls_ok = chunks
   non-empty and no poll later than the timeout after the previous one *)
Theorem C13_reader_on_run :
  forall (dec : bytes -> dres) (payload : N -> bytes) (ms : list N) (ps : list (Z * bytes))
         (c : conn),
    (forall m, In m ms -> dec (payload m) = DOk m /\ zlen (payload m) < two31) ->
    st c = Connected -> rbuf c = [] ->
    polls_ok (last_read c) (timeout c) ps ->
    concat (map snd ps) = concat (map (fun m => frame (payload m)) ms) ->
    exists c' os,
      run dec c (map (fun p => EPoll (fst p) true false false false [] [RChunk (snd p) false]) ps)
        = (c', os) /\
      st c' = Connected /\ rbuf c' = [] /\ wbuf c' = wbuf c /\
      fold_right out_app no_out os =
        {| accepted := []; delivered := ms; disc_calls := 0; conn_calls := 0; miss := false |}.
Proof. exact C13_reader_on_run_thm. Qed.
Print Assumptions C13_reader_on_run.

(* writer, schedules that keep the connection up (benign_event: send() and polls without READ,
   socket.send returns any k, 0 or EAGAIN, no error flag, no timeout):
   accepted-so-far ++ write buffer = frames handed to send(), in order *)
Theorem C13_writer :
  forall (dec : bytes -> dres) (es : list event) (c c' : conn) (os : list outs),
    st c = Connected -> wbuf c = [] ->
    Forall (benign_event (last_read c) (timeout c)) es ->
    run dec c es = (c', os) ->
    concat (map accepted os) ++ wbuf c' = sent_of es /\
    st c' = Connected /\ rbuf c' = rbuf c /\
    Forall (fun o => delivered o = [] /\ disc_calls o = 0%nat /\ conn_calls o = 0%nat /\ miss o = false) os.
Proof. exact writer_invariant. Qed.
Print Assumptions C13_writer.

(* writer, ALL event sequences of one connection lifetime (errors, timeouts, reads, explicit
   disconnects included; no reconnecting callback, no connect()): what the socket accepted is a
   prefix of the frames handed to send(); while not DISCONNECTED the rest is the buffer *)
Theorem C13_writer_any_schedule :
  forall (dec : bytes -> dres) (es : list event) (c c' : conn) (os : list outs),
    reconnect c = false ->
    Forall (fun e => match e with EConnect _ => False | _ => True end) es ->
    run dec c es = (c', os) ->
    exists rest,
      concat (map accepted os) ++ rest = wbuf c ++ sent_of es /\
      (st c' <> Disconnected -> wbuf c' = rest).
Proof. exact writer_any. Qed.
Print Assumptions C13_writer_any_schedule.

(* socket.send fails (f = SNeg or SErr) after accepting total ks bytes, fewer than buffered *)
Theorem C13_writer_failure_send :
  forall (dec : bytes -> dres) (c : conn) (now : Z) (p : bytes) (ks : list N) (f : sres)
         (post : list sres),
    st c = Connected -> now - last_read c <= timeout c ->
    match f with SNeg | SErr => True | _ => False end ->
    (total ks < length (wbuf c ++ frame p))%nat ->
    step dec c (ESend now p (map SAccept ks ++ f :: post)) =
      (if reconnect c then connect now c else cleared c,
       {| accepted := firstn (total ks) (wbuf c ++ frame p); delivered := [];
          disc_calls := 1; conn_calls := 0; miss := false |}).
Proof. exact writer_failure_send. Qed.
Print Assumptions C13_writer_failure_send.

Theorem C13_writer_failure_poll :
  forall (dec : bytes -> dres) (c : conn) (now : Z) (rd soerr : bool) (ks : list N) (f : sres)
         (post : list sres) (rs : list rres),
    st c = Connected -> now - last_read c <= timeout c ->
    match f with SNeg | SErr => True | _ => False end ->
    (total ks < length (wbuf c))%nat -> soerr = false ->
    step dec c (EPoll now rd true false soerr (map SAccept ks ++ f :: post) rs) =
      (if reconnect c then connect now c else cleared c,
       {| accepted := firstn (total ks) (wbuf c); delivered := []; disc_calls := 1; conn_calls := 0; miss := false |}).
Proof. exact writer_failure_poll. Qed.
Print Assumptions C13_writer_failure_poll.

Theorem C13_writer_timeout_send :
  forall (dec : bytes -> dres) (c : conn) (now : Z) (p : bytes) (script : list sres),
    st c = Connected -> now - last_read c > timeout c ->
    step dec c (ESend now p script) =
      (if reconnect c then connect now c else cleared c,
       {| accepted := []; delivered := []; disc_calls := 1; conn_calls := 0; miss := false |}).
Proof. exact writer_timeout_send. Qed.
Print Assumptions C13_writer_timeout_send.

Theorem C13_writer_timeout_poll :
  forall (dec : bytes -> dres) (c : conn) (now : Z) (rd wr soerr : bool) (ss : list sres)
         (rs : list rres),
    st c = Connected -> reconnect c = false -> now - last_read c > timeout c ->
    step dec c (EPoll now rd wr false soerr ss rs) =
      (cleared c,
       {| accepted := []; delivered := []; disc_calls := 1; conn_calls := 0; miss := false |}).
Proof. exact writer_timeout_poll. Qed.
Print Assumptions C13_writer_timeout_poll.

(* composition: messages ms handed to send() on a connection driven by ANY event sequence; the
   bytes accepted so far, cut arbitrarily, fed to a reader: firstn k ms; all of ms once the
   sender (still up) has an empty write buffer *)
Theorem C13_roundtrip :
  forall (dec : bytes -> dres) (payload : N -> bytes) (decw : bytes -> dres) (now : Z)
         (es : list event) (ms : list N) (cw cw' : conn) (os : list outs)
         (cs : list bytes) (cr : conn),
    wbuf cw = [] -> reconnect cw = false ->
    Forall (fun e => match e with EConnect _ => False | _ => True end) es ->
    flat_map (fun e => match e with ESend _ p _ => [p] | _ => [] end) es = map payload ms ->
    (forall m, In m ms -> dec (payload m) = DOk m /\ zlen (payload m) < two31) ->
    run decw cw es = (cw', os) ->
    concat cs = concat (map accepted os) -> rbuf cr = [] ->
    (exists k tail,
       (k <= length ms)%nat /\
       concat (map accepted os) = concat (map (fun m => frame (payload m)) (firstn k ms)) ++ tail /\
       match skipn k ms with
       | [] => tail = []
       | m :: _ => exists s, s <> [] /\ tail ++ s = frame (payload m)
       end /\
       feed_all dec now cr cs =
         (set_rbuf cr tail,
          {| accepted := []; delivered := firstn k ms; disc_calls := 0; conn_calls := 0; miss := false |})) /\
    (st cw' <> Disconnected -> wbuf cw' = [] ->
     feed_all dec now cr cs =
       (cr, {| accepted := []; delivered := ms; disc_calls := 0; conn_calls := 0; miss := false |})).
Proof. exact C13_roundtrip_thm. Qed.
Print Assumptions C13_roundtrip.

(* good frames ms, then a frame with a negative length field or an undecodable payload, then
   anything: exactly ms delivered, then Disconnected, buffers dropped, onDisconnected once *)
Theorem C13_bad_frame_disconnects :
  forall (dec : bytes -> dres) (payload : N -> bytes) (now : Z) (c : conn) (ms : list N)
         (bad rest : bytes),
    (forall m, In m ms -> dec (payload m) = DOk m /\ zlen (payload m) < two31) ->
    st c = Connected ->
    ((4 <= length bad)%nat /\ unpack_i bad < 0) \/
    (exists d, bad = pack_i (zlen d) ++ d /\ zlen d < two31 /\ dec d = DFail) ->
    rbuf c = concat (map (fun m => frame (payload m)) ms) ++ bad ++ rest ->
    parse_all dec now c =
      (if reconnect c then connect now c else cleared c,
       {| accepted := []; delivered := ms; disc_calls := 1; conn_calls := 0; miss := false |}).
Proof. exact C13_bad_frame_disconnects_thm. Qed.
Print Assumptions C13_bad_frame_disconnects.

(* the same on the modelled READ event that completes the bad frame *)
Theorem C13_bad_frame_disconnects_step :
  forall (dec : bytes -> dres) (payload : N -> bytes) (c : conn) (now : Z) (ms : list N)
         (bad rest : bytes) (bs : list bytes) (tl : list rres),
    (forall m, In m ms -> dec (payload m) = DOk m /\ zlen (payload m) < two31) ->
    st c = Connected -> now - last_read c <= timeout c ->
    Forall (fun b => b <> []) bs ->
    match tl with [] => True | REagain :: _ => True | _ => False end ->
    ((4 <= length bad)%nat /\ unpack_i bad < 0) \/
    (exists d, bad = pack_i (zlen d) ++ d /\ zlen d < two31 /\ dec d = DFail) ->
    rbuf c ++ concat bs = concat (map (fun m => frame (payload m)) ms) ++ bad ++ rest ->
    step dec c (EPoll now true false false false [] (map (fun b => RChunk b false) bs ++ tl)) =
      (if reconnect c then connect now c else cleared (set_last_read c now),
       {| accepted := []; delivered := ms; disc_calls := 1; conn_calls := 0; miss := false |}).
Proof. exact C13_bad_frame_disconnects_step_thm. Qed.
Print Assumptions C13_bad_frame_disconnects_step.

(* nothing after the bad frame: a Disconnected connection ignores poll events ... *)
Theorem C13_disconnected_ignores_poll :
  forall (dec : bytes -> dres) (c : conn) (now : Z) (rd wr er soerr : bool)
         (ss : list sres) (rs : list rres),
    st c = Disconnected -> step dec c (EPoll now rd wr er soerr ss rs) = (c, no_out).
Proof. exact step_poll_disconnected. Qed.
Print Assumptions C13_disconnected_ignores_poll.

(* ... and under any events short of connect() stays Disconnected, delivers and sends nothing, no second callback *)
Theorem C13_disconnected_stays_quiet :
  forall (dec : bytes -> dres) (es : list event) (c : conn),
    st c = Disconnected ->
    Forall (fun e => match e with EConnect _ => False | _ => True end) es ->
    st (fst (run dec c es)) = Disconnected /\
    Forall (fun o => accepted o = [] /\ delivered o = [] /\ disc_calls o = 0%nat /\
                     conn_calls o = 0%nat /\ miss o = false)
           (snd (run dec c es)).
Proof. exact run_disconnected. Qed.
Print Assumptions C13_disconnected_stays_quiet.

(* the fuel of parse_all is never what stops the loop *)
Theorem C13_parse_fuel_sufficient :
  forall (dec : bytes -> dres) (now : Z) (c : conn) (extra : nat),
    parse_loop dec now (S (length (rbuf c))) c = parse_loop dec now (S (length (rbuf c)) + extra) c.
Proof. exact parse_all_fuel_sufficient. Qed.
Print Assumptions C13_parse_fuel_sufficient.

(* ---- connection lifetimes: disconnect, (re-entrant) reconnect ---- *)

(* whatever the state and the event: if onDisconnected ran during it, both buffers are empty when
   the handler returns -- with or without a callback that reconnects re-entrantly *)
Theorem C13_disconnect_clears :
  forall (dec : bytes -> dres) (c : conn) (e : event) (c' : conn) (o : outs),
    step dec c e = (c', o) -> (0 < disc_calls o)%nat -> rbuf c' = [] /\ wbuf c' = [].
Proof. exact step_disconnect_clears. Qed.
Print Assumptions C13_disconnect_clears.

(* in particular a read burst bs (any bytes: whole frames, a partial frame, 1-3 header bytes) that
   ends in ECONNRESET / EOF / SO_ERROR: nothing of it is delivered, nothing of it is in the buffer of
   the dead connection or of the one the callback opened *)
Theorem C13_read_burst_disconnect :
  forall (dec : bytes -> dres) (c : conn) (now : Z) (bs : list bytes) (tl : list rres),
    st c = Connected -> now - last_read c <= timeout c ->
    Forall (fun b => b <> []) bs ->
    match tl with
    | RErr :: _ => True
    | RChunk [] _ :: _ => True
    | RChunk _ true :: _ => True
    | _ => False
    end ->
    step dec c (EPoll now true false false false [] (map (fun b => RChunk b false) bs ++ tl))
    = (set_last_read (if reconnect c then connect now c else cleared c) now,
       {| accepted := []; delivered := []; disc_calls := 1; conn_calls := 0; miss := false |}).
Proof. exact read_burst_disconnect. Qed.
Print Assumptions C13_read_burst_disconnect.

(* the CONNECTING branch of __processConnection *)
Theorem C13_connecting_establishes :
  forall (dec : bytes -> dres) (c : conn) (now : Z) (rd wr : bool) (ss : list sres) (rs : list rres),
    st c = Connecting -> now - last_read c <= timeout c -> rd || wr = true ->
    step dec c (EPoll now rd wr false false ss rs) =
      ({| st := Connected; rbuf := rbuf c; wbuf := wbuf c; last_read := now;
          timeout := timeout c; reconnect := reconnect c; interest := interest c; reuse_fd := reuse_fd c |},
       {| accepted := []; delivered := []; disc_calls := 0; conn_calls := 1; miss := false |}).
Proof. exact step_establish. Qed.
Print Assumptions C13_connecting_establishes.

(* whatever the connection held and whatever event e made onDisconnected run: if the callback
   reconnected, the new connection receives the stream sent on it exactly (C13_reader_on_run for the
   new connection), regardless of what was received before the disconnect *)
Theorem C13_reader_after_reconnect :
  forall (dec : bytes -> dres) (payload : N -> bytes) (ms : list N) (ps : list (Z * bytes))
         (c : conn) (e : event) (c1 : conn) (o1 : outs),
    (forall m, In m ms -> dec (payload m) = DOk m /\ zlen (payload m) < two31) ->
    step dec c e = (c1, o1) -> (0 < disc_calls o1)%nat ->
    concat (map snd ps) = concat (map (fun m => frame (payload m)) ms) ->
    (st c1 = Connecting ->
     forall t0 rd wr ss rs,
       t0 - last_read c1 <= timeout c1 -> rd || wr = true ->
       polls_ok t0 (timeout c1) ps ->
       exists c' os,
         run dec c1 (EPoll t0 rd wr false false ss rs ::
                     map (fun p => EPoll (fst p) true false false false [] [RChunk (snd p) false]) ps)
           = (c', os) /\
         st c' = Connected /\ rbuf c' = [] /\
         fold_right out_app no_out os =
           {| accepted := []; delivered := ms; disc_calls := 0; conn_calls := 1; miss := false |}) /\
    (st c1 = Connected ->
     polls_ok (last_read c1) (timeout c1) ps ->
     exists c' os,
       run dec c1 (map (fun p => EPoll (fst p) true false false false [] [RChunk (snd p) false]) ps)
         = (c', os) /\
       st c' = Connected /\ rbuf c' = [] /\
       fold_right out_app no_out os =
         {| accepted := []; delivered := ms; disc_calls := 0; conn_calls := 0; miss := false |}).
Proof. exact C13_reader_after_reconnect_thm. Qed.
Print Assumptions C13_reader_after_reconnect.

(* the same after an explicit connect() on any connection, whatever it held *)
Theorem C13_reader_after_connect :
  forall (dec : bytes -> dres) (payload : N -> bytes) (ms : list N) (ps : list (Z * bytes))
         (c : conn) (now t0 : Z) (rd wr : bool) (ss : list sres) (rs : list rres),
    (forall m, In m ms -> dec (payload m) = DOk m /\ zlen (payload m) < two31) ->
    t0 - now <= timeout c -> rd || wr = true ->
    polls_ok t0 (timeout c) ps ->
    concat (map snd ps) = concat (map (fun m => frame (payload m)) ms) ->
    exists c' os,
      run dec c (EConnect now :: EPoll t0 rd wr false false ss rs ::
                 map (fun p => EPoll (fst p) true false false false [] [RChunk (snd p) false]) ps)
        = (c', os) /\
      st c' = Connected /\ rbuf c' = [] /\
      fold_right out_app no_out os =
        {| accepted := []; delivered := ms; disc_calls := 0; conn_calls := 1; miss := false |}.
Proof. exact C13_reader_after_connect_thm. Qed.
Print Assumptions C13_reader_after_connect.

(* a quirk of the code, modelled as it is: a timeout whose callback reconnects does not end the
   handler (the test is `state == DISCONNECTED`), and an event with READ or WRITE then marks the
   fresh connection CONNECTED in the same call *)
Theorem C13_timeout_poll_reconnect :
  forall (dec : bytes -> dres) (c : conn) (now : Z) (rd wr soerr : bool) (ss : list sres)
         (rs : list rres),
    st c = Connected -> reconnect c = true -> now - last_read c > timeout c ->
    step dec c (EPoll now rd wr false soerr ss rs) =
      if rd || wr
      then ({| st := Connected; rbuf := []; wbuf := []; last_read := now;
               timeout := timeout c; reconnect := true; interest := Some RWE; reuse_fd := reuse_fd c |},
            {| accepted := []; delivered := []; disc_calls := 1; conn_calls := 1; miss := false |})
      else (connect now c,
            {| accepted := []; delivered := []; disc_calls := 1; conn_calls := 0; miss := false |}).
Proof. exact timeout_poll_reconnect. Qed.
Print Assumptions C13_timeout_poll_reconnect.

(* ---- the poller subscription (poller.subscribe / unsubscribe calls of TcpConnection) ----
   interest c = the mask the connection's current descriptor is subscribed with (None: not
   subscribed); wants_write c = that mask includes WRITE, i.e. a level-triggered poller WILL
   report writability. *)

(* every event sequence, after every step (k = number of events processed), from any connection
   whose subscription fits its state: CONNECTED with bytes in the write buffer => WRITE subscribed;
   CONNECTING => WRITE subscribed (connect completion is reported as writability); CONNECTED or
   CONNECTING => READ and ERROR subscribed; DISCONNECTED => not subscribed *)
Theorem C13_write_interest :
  forall (dec : bytes -> dres) (es : list event) (c : conn) (k : nat),
    match st c with
    | Disconnected => interest c = None
    | Connecting => interest c = Some RWE
    | Connected =>
      exists m, interest c = Some m /\ m_rd m = true /\ m_er m = true /\ (wbuf c <> [] -> m_wr m = true)
    end ->
    let c' := fst (run dec c (firstn k es)) in
    (st c' = Connected -> wbuf c' <> [] -> wants_write c' = true) /\
    (st c' = Connecting -> wants_write c' = true) /\
    (st c' <> Disconnected -> exists m, interest c' = Some m /\ m_rd m = true /\ m_er m = true) /\
    (st c' = Disconnected -> interest c' = None).
Proof. exact write_interest_thm. Qed.
Print Assumptions C13_write_interest.

(* in particular from a freshly constructed connection (TcpConnection(poller, socket=s, ...)),
   with or without a reconnecting callback, whatever descriptor numbers the OS hands out *)
Theorem C13_write_interest_init :
  forall (dec : bytes -> dres) (es : list event) (now tmo : Z) (rc ru : bool) (k : nat),
    let c' := fst (run dec (init_conn now tmo rc ru) (firstn k es)) in
    (st c' = Connected -> wbuf c' <> [] -> wants_write c' = true) /\
    (st c' = Connecting -> wants_write c' = true) /\
    (st c' <> Disconnected -> exists m, interest c' = Some m /\ m_rd m = true /\ m_er m = true) /\
    (st c' = Disconnected -> interest c' = None).
Proof. exact write_interest_init. Qed.
Print Assumptions C13_write_interest_init.

(* fair environment (fair_run): while WRITE is subscribed it delivers the next WRITE event, when
   WRITE is not subscribed it delivers none; every WRITE event (write_event_ok) is a pure WRITE
   event before the timeout whose first socket.send takes at least one byte and whose later ones do
   not fail.  From any CONNECTED connection whose subscription fits its state, length (wbuf c) such
   events suffice: the write buffer is empty, what the socket accepted is exactly the buffer, no
   callback ran -- no further send() needed *)
Theorem C13_writer_progress :
  forall (dec : bytes -> dres) (ws : list event) (c : conn),
    match st c with
    | Disconnected => interest c = None
    | Connecting => interest c = Some RWE
    | Connected =>
      exists m, interest c = Some m /\ m_rd m = true /\ m_er m = true /\ (wbuf c <> [] -> m_wr m = true)
    end ->
    st c = Connected ->
    Forall (write_event_ok (last_read c) (timeout c)) ws ->
    (length (wbuf c) <= length ws)%nat ->
    exists c' os,
      fair_run dec c ws = (c', os) /\
      st c' = Connected /\ wbuf c' = [] /\ rbuf c' = rbuf c /\
      concat (map accepted os) = wbuf c /\
      Forall (fun o => delivered o = [] /\ disc_calls o = 0%nat /\ conn_calls o = 0%nat /\ miss o = false) os.
Proof. exact writer_progress. Qed.
Print Assumptions C13_writer_progress.

(* send() as it was before commit 6d311d2 (run_gen _ false true: no subscribe at the end of
   send()): a concrete event sequence ends CONNECTED with bytes in the write buffer and WRITE not
   subscribed, and the fair environment never delivers anything; the code as it is ends the same
   sequence with WRITE subscribed *)
Theorem C13_old_send_stalls_refuted :
  exists (dec : bytes -> dres) (es : list event),
    let c' := fst (run_gen dec false true (init_conn 0 10 false false) es) in
    st c' = Connected /\ wbuf c' <> [] /\ wants_write c' = false /\
    (forall ws, fair_run dec c' ws = (c', [])) /\
    wants_write (fst (run dec (init_conn 0 10 false false) es)) = true.
Proof. exact old_send_stalls. Qed.
Print Assumptions C13_old_send_stalls_refuted.

(* the WRITE branch as it was before commit 8fba630 "return unless CONNECTED after
   __trySendBuffer()" (run_gen _ true false), reconnecting callback, the new socket gets the descriptor number just
   closed: after k events the connection is CONNECTING without WRITE subscribed, at the end it is
   CONNECTED with bytes in the write buffer and WRITE not subscribed; the code as it is has WRITE
   subscribed at both points *)
Theorem C13_old_write_branch_resubscribes_closed_descr_refuted :
  exists (dec : bytes -> dres) (es : list event) (k : nat),
    let c1 := fst (run_gen dec true false (init_conn 0 10 true true) (firstn k es)) in
    let c2 := fst (run_gen dec true false (init_conn 0 10 true true) es) in
    st c1 = Connecting /\ wants_write c1 = false /\
    st c2 = Connected /\ wbuf c2 <> [] /\ wants_write c2 = false /\
    wants_write (fst (run dec (init_conn 0 10 true true) (firstn k es))) = true /\
    wants_write (fst (run dec (init_conn 0 10 true true) es)) = true.
Proof. exact old_write_branch_resubscribes_closed_descr. Qed.
Print Assumptions C13_old_write_branch_resubscribes_closed_descr_refuted.

(* run_gen with both rules as they are now is run *)
Theorem C13_run_gen_is_run :
  forall (dec : bytes -> dres) (es : list event) (c : conn), run_gen dec true true c es = run dec c es.
Proof. exact run_gen_fixed. Qed.
Print Assumptions C13_run_gen_is_run.
