From Coq Require Import ZArith NArith List.
From PSO Require Import Base.PyBytes Base.PyBytesFacts Framing.Model.
Import ListNotations.

Theorem C13_length_field_roundtrip :
  forall z rest, (- two31 <= z < two31)%Z -> unpack_i (pack_i z ++ rest) = z.
Proof. exact unpack_pack_i. Qed.
Print Assumptions C13_length_field_roundtrip.
