From Coq Require Import NArith List.
From PSO Require Import Versions.Model Versions.Proofs Versions.Proofs2.
Import ListNotations.
Open Scope N_scope.

Theorem C17_ids_stable :
  forall old added : shape,
    (forall o a, In o old -> In a added -> d_ver o < d_ver a) ->
    enumerate_ids (old ++ added) = enumerate_ids old ++ enumerate_ids added.
Proof. exact enumerate_ids_app. Qed.
Print Assumptions C17_ids_stable.

Theorem C17_ids_stable_method_id :
  forall (old added : shape) (o : N) (vn : name) (i : N),
    (forall x a, In x old -> In a added -> d_ver x < d_ver a) ->
    method_id old o vn = Some i -> method_id (old ++ added) o vn = Some i.
Proof. exact method_id_stable. Qed.
Print Assumptions C17_ids_stable_method_id.

Theorem C17_ids_stable_id_to_method :
  forall (old added : shape) (fid : N) (d : decl),
    (forall x a, In x old -> In a added -> d_ver x < d_ver a) ->
    id_to_method old fid = Some d -> id_to_method (old ++ added) fid = Some d.
Proof. exact id_to_method_stable. Qed.
Print Assumptions C17_ids_stable_id_to_method.

Theorem C17_same_interpretation :
  forall (old added : shape) (es : list entry) (n1 n2 n1' : node) (o1 : outcome),
    (forall x a, In x old -> In a added -> d_ver x < d_ver a) ->
    n_code n1 = old -> n_code n2 = old ++ added ->
    n_hist n1 = n_hist n2 /\ n_enabled n1 = n_enabled n2 /\ n_applied n1 = n_applied n2 ->
    apply_loop n1 es = (n1', o1) ->
    exists n2' o2, apply_loop n2 es = (n2', o2) /\
      (exists more, n_hist n2' = n_hist n1' ++ more) /\
      (o1 = Done -> o2 = Done /\
         n_hist n1' = n_hist n2' /\ n_enabled n1' = n_enabled n2' /\ n_applied n1' = n_applied n2').
Proof. exact apply_loop_old_new. Qed.
Print Assumptions C17_same_interpretation.

Theorem C17_calls_before_switch_known_to_old :
  forall (old added : shape) (n : node) (o : N) (nm : name) (fid : N),
    (forall a, In a added -> self_code_version old < d_ver a) ->
    n_table n = name_table (n_code n) (n_enabled n) -> n_code n = old ++ added ->
    n_enabled n <= self_code_version old ->
    call_id n o nm = Some fid ->
    exists r, id_to_method old fid = Some (mkDecl o nm r) /\
      In (mkDecl o nm r) old /\ r <= n_enabled n /\
      (forall r', In (mkDecl o nm r') old -> r' <= n_enabled n -> r' <= r).
Proof. exact call_id_known_to_old. Qed.
Print Assumptions C17_calls_before_switch_known_to_old.

Theorem C17_ids_unstable_refuted :
  exists (old added : shape) (o : N) (vn : name) (i j : N),
    (exists a b, In a added /\ In b old /\ d_ver a <= d_ver b) /\
    method_id old o vn = Some i /\ method_id (old ++ added) o vn = Some j /\ i <> j.
Proof. exact ids_shift_witness. Qed.
Print Assumptions C17_ids_unstable_refuted.

Theorem C17_resolution :
  forall (s : shape) (v o : N) (nm : name),
    match get_func_name (name_table s v) o nm with
    | Some x => exists r, x = vname_of nm r /\
                  In (mkDecl o nm r) s /\ r <= v /\
                  (forall r', In (mkDecl o nm r') s -> r' <= v -> r' <= r)
    | None => forall r', In (mkDecl o nm r') s -> v < r'
    end.
Proof. exact resolution. Qed.
Print Assumptions C17_resolution.

Theorem C17_call_runs_newest :
  forall (n : node) (o : N) (nm : name),
    n_table n = name_table (n_code n) (n_enabled n) ->
    match call_id n o nm with
    | Some fid => exists r, id_to_method (n_code n) fid = Some (mkDecl o nm r) /\
                    In (mkDecl o nm r) (n_code n) /\ r <= n_enabled n /\
                    (forall r', In (mkDecl o nm r') (n_code n) -> r' <= n_enabled n -> r' <= r)
    | None => forall r', In (mkDecl o nm r') (n_code n) -> n_enabled n < r'
    end.
Proof. exact call_runs_newest. Qed.
Print Assumptions C17_call_runs_newest.

Theorem C17_consumer_plain_attribute_harmless :
  forall (s : shape) (v o : N) (nm : name),
    resolve s v o nm = pick (sort_N (dedupb N.eqb (versioned_vers s o nm))) v None.
Proof. exact resolve_quirk_harmless. Qed.
Print Assumptions C17_consumer_plain_attribute_harmless.

Theorem C17_validation :
  forall (n : node) (q : list entry) (v : N),
    (snd (submit_set_version n q v) = Queued <-> n_enabled n <= v /\ v <= self_code_version (n_code n)) /\
    (snd (submit_set_version n q v) = Queued -> fst (submit_set_version n q v) = q ++ [EVersion v]) /\
    (snd (submit_set_version n q v) <> Queued -> fst (submit_set_version n q v) = q) /\
    (snd (submit_set_version n q v) = RejectedAbove <-> self_code_version (n_code n) < v) /\
    (snd (submit_set_version n q v) = RejectedBelow <-> v <= self_code_version (n_code n) /\ v < n_enabled n).
Proof. exact validation. Qed.
Print Assumptions C17_validation.

Theorem C17_stops_not_misapplies :
  forall (n0 : node) (done pre : list entry) (e : entry) (post : list entry) (n1 : node),
    n_applied n0 = N.of_nat (length done) ->
    match e with
    | EVersion v => self_code_version (n_code n0) < v
    | ERegular fid _ => id_to_method (n_code n0) fid = None
    | EOther => False
    end ->
    apply_loop n0 pre = (n1, Done) ->
    let log := done ++ pre ++ e :: post in
    (forall commit, N.of_nat (length done + length pre) < commit ->
       tick n0 log commit = (n1, StoppedWrongVer (stop_ver n1 e))) /\
    (forall commit, n_applied n0 < commit -> commit <= N.of_nat (length done + length pre) ->
       tick n0 log commit = apply_loop n0 (firstn (N.to_nat (commit - n_applied n0)) pre)) /\
    (forall commits, ticks n1 log commits = n1) /\
    (forall commit, tick n1 log commit =
       (n1, if n_applied n1 <? commit then StoppedWrongVer (stop_ver n1 e) else Done)) /\
    n_applied n1 = N.of_nat (length done + length pre) /\
    n_hist n1 = n_hist n0 ++ execs_of (n_code n0) pre /\
    n_enabled n1 <= N.max (n_enabled n0) (self_code_version (n_code n0)).
Proof. exact stops_not_misapplies. Qed.
Print Assumptions C17_stops_not_misapplies.

Theorem C17_resumes_after_upgrade :
  forall (old added : shape) (n1 n2 : node) (pre : list entry) (v : N) (post : list entry) (n1' : node),
    (forall x a, In x old -> In a added -> d_ver x < d_ver a) ->
    n_code n1 = old -> n_code n2 = old ++ added ->
    n_hist n1 = n_hist n2 /\ n_enabled n1 = n_enabled n2 /\ n_applied n1 = n_applied n2 ->
    apply_loop n1 pre = (n1', Done) ->
    v <= self_code_version (old ++ added) ->
    exists n2', apply_loop n2 pre = (n2', Done) /\
      (n_hist n1' = n_hist n2' /\ n_enabled n1' = n_enabled n2' /\ n_applied n1' = n_applied n2') /\
      apply_loop n2 (pre ++ EVersion v :: post) =
      apply_loop (bump {| n_code := old ++ added; n_enabled := v; n_table := name_table (old ++ added) v;
                          n_hist := n_hist n2'; n_applied := n_applied n2' |}) post.
Proof. exact resumes_after_upgrade. Qed.
Print Assumptions C17_resumes_after_upgrade.

Theorem C17_enabled_version_supported :
  forall (es : list entry) (n n' : node) (o : outcome),
    n_enabled n <= self_code_version (n_code n) -> apply_loop n es = (n', o) ->
    n_enabled n' <= self_code_version (n_code n').
Proof. exact apply_loop_enabled_supported. Qed.
Print Assumptions C17_enabled_version_supported.

Theorem C17_enabled_version_supported_after_load :
  forall (n : node) (d : dump),
    n_enabled n <= self_code_version (n_code n) ->
    n_enabled (load_dump n d) <= self_code_version (n_code (load_dump n d)).
Proof. exact load_dump_enabled_supported. Qed.
Print Assumptions C17_enabled_version_supported_after_load.

Theorem C17_table_invariant :
  forall (es : list entry) (n n' : node) (o : outcome),
    n_table n = name_table (n_code n) (n_enabled n) -> apply_loop n es = (n', o) ->
    n_table n' = name_table (n_code n') (n_enabled n').
Proof. exact apply_loop_table_ok. Qed.
Print Assumptions C17_table_invariant.

Theorem C17_after_snapshot :
  forall n m : node,
    n_table n = name_table (n_code n) (n_enabled n) ->
    n_enabled n <= self_code_version (n_code m) ->
    let m' := load_dump m (take_dump false n) in
    n_enabled m' = n_enabled n /\ n_hist m' = n_hist n /\ n_applied m' = n_applied n /\
    n_table m' = name_table (n_code m) (n_enabled n) /\
    (forall o nm, match get_func_name (n_table m') o nm with
                  | Some x => exists r, x = vname_of nm r /\
                                In (mkDecl o nm r) (n_code m) /\ r <= n_enabled n /\
                                (forall r', In (mkDecl o nm r') (n_code m) -> r' <= n_enabled n -> r' <= r)
                  | None => forall r', In (mkDecl o nm r') (n_code m) -> n_enabled n < r'
                  end) /\
    (n_code m = n_code n -> m' = n).
Proof. exact after_snapshot. Qed.
Print Assumptions C17_after_snapshot.

Theorem C17_lacking_node_refuses_snapshot :
  forall (n : node) (d : dump) (v : N),
    dp_enabled d = Some v -> self_code_version (n_code n) < v -> load_dump n d = n.
Proof. exact lacking_node_refuses_snapshot. Qed.
Print Assumptions C17_lacking_node_refuses_snapshot.

Theorem C17_after_snapshot_custom_serializer_refuted :
  exists n m : node,
    n_table n = name_table (n_code n) (n_enabled n) /\ n_code m = n_code n /\ m = fresh (n_code n) /\
    n_enabled n = 1 /\ n_enabled (load_dump m (take_dump true n)) = 0 /\
    n_applied (load_dump m (take_dump true n)) = n_applied n /\
    call_id n 0 w_foo <> call_id (load_dump m (take_dump true n)) 0 w_foo.
Proof. exact after_snapshot_custom_refuted. Qed.
Print Assumptions C17_after_snapshot_custom_serializer_refuted.
