From Coq Require Import ZArith NArith List Bool.
From RecordUpdate Require Import RecordSet.
From PSO Require Import Raft.Types Raft.Node Raft.Net Raft.Obs Raft.ProofsCommitBase Raft.ProofsCommit Raft.ProofsSnapshotBase Raft.ProofsSnapshot Raft.ProofsDisk Raft.ProofsDiskAck Raft.ProofsDiskMeta Raft.ProofsDiskTick Raft.ProofsDiskExamples.
Import ListNotations.
Import RecordSetNotations.
Open Scope N_scope.

Theorem C06_disk_has_log : forall c n d, disk_of c n = Some d ->
  d_log d = log n /\ d_meta d = meta_commit n /\
  d_dump d = (if file_dump c then stored (sr n) else None) /\ file_journal c = true.
Proof. exact disk_has_log. Qed.
Print Assumptions C06_disk_has_log.

Theorem C06_kill_saves_disk : forall c g n x g' r,
  file_journal c = true -> aget n (nodes g) = Some x ->
  gstep c g (EKill n) = Some (g', r) ->
  aget n (disks g') = Some (mkDisk (log x) (meta_commit x) (if file_dump c then stored (sr x) else None)).
Proof. exact kill_saves_disk. Qed.
Print Assumptions C06_kill_saves_disk.

Theorem C06_restart_reads_disk : forall c g n oth now rn sv d g' r,
  n < RO_BASE -> aget n (disks g) = Some d ->
  gstep c g (ERestart n oth now rn sv) = Some (g', r) ->
  aget n (nodes g') = Some (init_from_disk (mk_env c now rn DEFAULT_BUDGET [] 0) (Some n) oth sv d).
Proof. exact restart_reads_disk. Qed.
Print Assumptions C06_restart_reads_disk.

Theorem C06_ack_only_logged_entries : forall e from c pidx pterm new s,
  log_wf (log (nd s)) -> consec (pidx + 1) new ->
  let s' := ae_regular e from c (Some (pidx, pterm)) new s in
  forall t nx r, In (Send from (NextIdx t nx r true)) (outs s') ->
    In (Send from (NextIdx t nx r true)) (outs s) \/
    (nx - 1 <= last_idx (log (nd s')) /\
     forall en, In en new ->
       exists en', In en' (log (nd s')) /\ eidx en' = eidx en /\ eterm en' = eterm en).
Proof. exact ack_covered. Qed.
Print Assumptions C06_ack_only_logged_entries.

Theorem C06_ack_on_disk : forall c e from cm pidx pterm new s d,
  log_wf (log (nd s)) -> consec (pidx + 1) new ->
  let s' := ae_regular e from cm (Some (pidx, pterm)) new s in
  disk_of c (nd s') = Some d ->
  forall t nx r, In (Send from (NextIdx t nx r true)) (outs s') ->
    In (Send from (NextIdx t nx r true)) (outs s) \/
    (nx - 1 <= last_idx (d_log d) /\
     forall en, In en new ->
       exists en', In en' (d_log d) /\ eidx en' = eidx en /\ eterm en' = eterm en).
Proof. exact ack_on_disk. Qed.
Print Assumptions C06_ack_on_disk.

Theorem C06_restart_state : forall e me oth sv d, d_log d <> [] ->
  let n := init_from_disk e me oth sv d in
  log n = d_log d /\ commit n = d_meta d /\ meta_commit n = d_meta d /\ applied n = 1 /\
  term n = 0 /\ voted n = None /\ role n = FOLLOWER /\ leader n = None /\
  stored (sr n) = d_dump d /\ pid (sr n) = 0 /\ trans (sr n) = [] /\ incoming (sr n) = None /\
  need_load n = true /\ replay_idx n = last_idx (d_log d) /\ hist n = [] /\ enabled_ver n = 0 /\
  self_ver n = sv /\ self n = me /\ others n = oth /\ queue n = [] /\
  deadline n = (t0 e + gen_timeout e)%Z.
Proof. exact restart_state. Qed.
Print Assumptions C06_restart_state.

Theorem C06_replay_is_apply : forall e s,
  let es := if applied (nd s) <? commit (nd s)
            then get_entries (log (nd s)) (Some (applied (nd s) + 1)) (Some (commit (nd s) - applied (nd s))) None
            else [] in
  exc (fst (apply_entries e s)) = exc s /\
  core (nd (fst (apply_entries e s))) =
    (hist (nd s) ++ fst (replay (self_ver (nd s)) es),
     applied (nd s) + N.of_nat (snd (replay (self_ver (nd s)) es)),
     self_ver (nd s), log (nd s), commit (nd s), replay_idx (nd s), meta_commit (nd s), sr (nd s)).
Proof. exact apply_entries_spec. Qed.
Print Assumptions C06_replay_is_apply.

Theorem C06_first_tick_rebuilds : forall e0 e me oth sv d sn pre post,
  file_dump (cf e) = true ->
  d_dump d = Some (Good sn) -> s_ver sn <= sv ->
  d_log d = pre ++ s_e0 sn :: s_e1 sn :: post -> log_wf (d_log d) ->
  (t0 e <= t0 e0 + gen_timeout e0)%Z ->
  let n0 := init_from_disk e0 me oth sv d in
  let es := if eidx (s_e1 sn) <? d_meta d
            then firstn (N.to_nat (d_meta d - eidx (s_e1 sn))) post else [] in
  let s' := on_tick e n0 in
  log (nd s') = s_e0 sn :: s_e1 sn :: post /\
  hist (nd s') = s_hist sn ++ fst (replay sv es) /\
  applied (nd s') = eidx (s_e1 sn) + N.of_nat (snd (replay sv es)) /\
  commit (nd s') = d_meta d /\ exc s' = 0.
Proof. exact first_tick_rebuilds_on_tick. Qed.
Print Assumptions C06_first_tick_rebuilds.

Theorem C06_first_tick_phases : forall e0 e me oth sv d sn pre post,
  file_dump (cf e) = true ->
  d_dump d = Some (Good sn) -> s_ver sn <= sv ->
  d_log d = pre ++ s_e0 sn :: s_e1 sn :: post -> log_wf (d_log d) ->
  let n0 := init_from_disk e0 me oth sv d in
  let s1 := tick_load e (start_S e n0) in
  let s2 := fst (apply_entries e s1) in
  let es := if eidx (s_e1 sn) <? d_meta d
            then firstn (N.to_nat (d_meta d - eidx (s_e1 sn))) post else [] in
  log (nd s1) = s_e0 sn :: s_e1 sn :: post /\ hist (nd s1) = s_hist sn /\
  applied (nd s1) = eidx (s_e1 sn) /\ commit (nd s1) = d_meta d /\ need_load (nd s1) = false /\
  log (nd s2) = s_e0 sn :: s_e1 sn :: post /\
  hist (nd s2) = s_hist sn ++ fst (replay sv es) /\
  applied (nd s2) = eidx (s_e1 sn) + N.of_nat (snd (replay sv es)) /\
  exc s2 = 0.
Proof. exact first_tick_rebuilds. Qed.
Print Assumptions C06_first_tick_phases.

Theorem C06_first_tick_no_dump : forall e0 e me oth sv d,
  d_log d <> [] -> (file_dump (cf e) = false \/ d_dump d = None) ->
  let n0 := init_from_disk e0 me oth sv d in
  let s1 := tick_load e (start_S e n0) in
  let s2 := fst (apply_entries e s1) in
  let es := if 1 <? d_meta d then get_entries (d_log d) (Some 2) (Some (d_meta d - 1)) None else [] in
  log (nd s1) = d_log d /\ hist (nd s1) = [] /\ applied (nd s1) = 1 /\ commit (nd s1) = d_meta d /\
  hist (nd s2) = fst (replay sv es) /\ applied (nd s2) = 1 + N.of_nat (snd (replay sv es)) /\
  log (nd s2) = d_log d.
Proof. exact first_tick_no_dump. Qed.
Print Assumptions C06_first_tick_no_dump.

Theorem C06_journal_only_compaction_refuted :
  exists g1 g2 n1 n2,
    file_journal c18 = true /\ file_dump c18 = false /\
    run_trace c18 ginit pre18 = Some g1 /\ aget 1 (nodes g1) = Some n1 /\
    hist n1 = [7; 8] /\ applied n1 = 4 /\ commit n1 = 4 /\ map eidx (log n1) = [3; 4] /\
    run_trace c18 g1 post18 = Some g2 /\ aget 1 (nodes g2) = Some n2 /\
    hist n2 = [] /\ applied n2 = 1 /\ commit n2 = 6 /\ map eidx (log n2) = [3; 4; 5; 6] /\
    role n2 = LEADER /\ applied n2 + 1 < first_idx (log n2).
Proof. exact journal_only_compaction_refuted. Qed.
Print Assumptions C06_journal_only_compaction_refuted.

Theorem C06_restart_rebuilds_full_refuted : ~ C06_restart_rebuilds_full.
Proof. exact restart_rebuilds_full_refuted. Qed.
Print Assumptions C06_restart_rebuilds_full_refuted.

Theorem C06_below_first_index_nothing_applies : forall e s,
  applied (nd s) + 1 < first_idx (log (nd s)) -> fst (apply_entries e s) = s.
Proof. exact apply_entries_stuck. Qed.
Print Assumptions C06_below_first_index_nothing_applies.

Theorem C06_below_first_index_no_compaction : forall e s,
  pid (sr (nd s)) = 0 -> applied (nd s) + 1 < first_idx (log (nd s)) ->
  log (nd (try_compact e s)) = log (nd s) /\ sr (nd (try_compact e s)) = sr (nd s) /\
  applied (nd (try_compact e s)) = applied (nd s) /\ hist (nd (try_compact e s)) = hist (nd s).
Proof. exact try_compact_stuck. Qed.
Print Assumptions C06_below_first_index_no_compaction.

Theorem C06_meta_commit_is_a_past_commit : forall c evs g x n,
  run_trace c ginit evs = Some g -> aget x (nodes g) = Some n -> meta_commit n <= commit n.
Proof. exact meta_le_commit_reachable. Qed.
Print Assumptions C06_meta_commit_is_a_past_commit.

Theorem C06_meta_commit_moves_within_commit : forall c evs g g' x n n',
  run_trace c g evs = Some g' -> runs_through x evs ->
  aget x (nodes g) = Some n -> aget x (nodes g') = Some n' -> meta_rel n n'.
Proof. exact meta_rel_trace. Qed.
Print Assumptions C06_meta_commit_moves_within_commit.

Theorem C06_restart_commit_not_ahead : forall c evs g x n g1 r1 oth now rn sv g2 r2,
  file_journal c = true -> x < RO_BASE ->
  run_trace c ginit evs = Some g -> aget x (nodes g) = Some n -> log n <> [] ->
  gstep c g (EKill x) = Some (g1, r1) ->
  gstep c g1 (ERestart x oth now rn sv) = Some (g2, r2) ->
  exists n2, aget x (nodes g2) = Some n2 /\ log n2 = log n /\
             commit n2 = meta_commit n /\ commit n2 <= commit n /\ applied n2 = 1.
Proof. exact restart_commit_not_ahead. Qed.
Print Assumptions C06_restart_commit_not_ahead.
