From Coq Require Import List Arith.
From PSO Require Import AbstractM.Model AbstractM.Kstep AbstractM.Cfg.
From PSO Require Import AbstractM.Safety6_LC AbstractM.Safety7_SM AbstractM.SafetyAll AbstractM.Theorems.
From PSO Require Import AbstractM.Examples AbstractM.Replay.
Import ListNotations.

(* C10m: single-server membership change on AbstractM (abstract Raft in the shape of PySyncObj, member
   tables derived from the logs as __doChangeCluster does, quorums = majorities of the decider's own table).
   [reachable C0 F s]: s reachable from [init C0] by [step C0 F]; C0 = initial members; F = switches
   {gateA; baseC0; tguard; reuse; links}.  The positive theorems hold for every F with
     gateA = true  (guards (a)+(b) of __changeCluster),  baseC0 = true (a joiner replays its log over the
     initial member list),  tguard = true (no election by a node that is not a member by its own log),
     reuse = false (an id that ran is never started again);   links (the transport's member filter) is free.
   The refutations are vm_compute-checked runs for the rules as coded. *)

Theorem C10m_single_change_majorities_intersect : forall A B Q1 Q2 : list nat,
  NoDup A -> NoDup B ->
  ((incl A B /\ length B <= S (length A)) \/ (incl B A /\ length A <= S (length B))) ->
  NoDup Q1 -> NoDup Q2 -> incl Q1 A -> incl Q2 B ->
  length A < 2 * length Q1 -> length B < 2 * length Q2 -> exists x, In x Q1 /\ In x Q2.
Proof. exact adj_meet. Qed.
Print Assumptions C10m_single_change_majorities_intersect.

Theorem C10m_election_safety : forall (C0 : list nat) (F : flags),
  gateA F = true /\ baseC0 F = true /\ tguard F = true /\ reuse F = false -> NoDup C0 -> C0 <> [] ->
  forall s t c c' Q Q' C C',
  reachable C0 F s -> In (t, c, Q, C) (wins s) -> In (t, c', Q', C') (wins s) -> c = c'.
Proof. exact election_safety. Qed.
Print Assumptions C10m_election_safety.

Theorem C10m_one_leader_per_term : forall (C0 : list nat) (F : flags),
  gateA F = true /\ baseC0 F = true /\ tguard F = true /\ reuse F = false -> NoDup C0 -> C0 <> [] ->
  forall s a b,
  reachable C0 F s -> rl (nodes s a) = Leader -> rl (nodes s b) = Leader ->
  term (nodes s a) = term (nodes s b) -> a = b.
Proof. exact one_leader_per_term. Qed.
Print Assumptions C10m_one_leader_per_term.

Theorem C10m_leader_append_only : forall (C0 : list nat) (F : flags),
  gateA F = true /\ baseC0 F = true /\ tguard F = true /\ reuse F = false -> NoDup C0 -> C0 <> [] ->
  forall s s' j,
  reachable C0 F s -> step C0 F s s' ->
  rl (nodes s j) = Leader -> rl (nodes s' j) = Leader -> term (nodes s' j) = term (nodes s j) ->
  exists r, log (nodes s' j) = log (nodes s j) ++ r.
Proof. exact leader_append_only. Qed.
Print Assumptions C10m_leader_append_only.

Theorem C10m_log_matching : forall (C0 : list nat) (F : flags),
  gateA F = true /\ baseC0 F = true /\ tguard F = true /\ reuse F = false -> NoDup C0 -> C0 <> [] ->
  forall s a b p e e',
  reachable C0 F s ->
  nth_error (log (nodes s a)) p = Some e -> nth_error (log (nodes s b)) p = Some e' -> eterm e = eterm e' ->
  firstn (S p) (log (nodes s a)) = firstn (S p) (log (nodes s b)).
Proof. exact log_matching. Qed.
Print Assumptions C10m_log_matching.

Theorem C10m_leader_completeness : forall (C0 : list nat) (F : flags),
  gateA F = true /\ baseC0 F = true /\ tguard F = true /\ reuse F = false -> NoDup C0 -> C0 <> [] ->
  forall s T p Cd T' c Q Cw,
  reachable C0 F s -> In (T, p, Cd) (direct s) -> In (T', c, Q, Cw) (wins s) -> T < T' ->
  exists e, nth_error (llog s T) p = Some e /\ eterm e = T /\ nth_error (llog s T') p = Some e /\
            firstn (S p) (llog s T') = firstn (S p) (llog s T).
Proof. exact leader_completeness. Qed.
Print Assumptions C10m_leader_completeness.

Theorem C10m_leader_completeness_current : forall (C0 : list nat) (F : flags),
  gateA F = true /\ baseC0 F = true /\ tguard F = true /\ reuse F = false -> NoDup C0 -> C0 <> [] ->
  forall s T p Cd L,
  reachable C0 F s -> In (T, p, Cd) (direct s) -> rl (nodes s L) = Leader -> T < term (nodes s L) ->
  exists e, nth_error (llog s T) p = Some e /\ eterm e = T /\ nth_error (log (nodes s L)) p = Some e.
Proof. exact leader_completeness_current. Qed.
Print Assumptions C10m_leader_completeness_current.

Theorem C10m_state_machine_safety : forall (C0 : list nat) (F : flags),
  gateA F = true /\ baseC0 F = true /\ tguard F = true /\ reuse F = false -> NoDup C0 -> C0 <> [] ->
  forall s a b i,
  reachable C0 F s -> 1 <= i -> i <= commit (nodes s a) -> i <= commit (nodes s b) ->
  exists e, nth_error (log (nodes s a)) (i - 1) = Some e /\ nth_error (log (nodes s b)) (i - 1) = Some e /\
            eidx e = i.
Proof. exact state_machine_safety_idx. Qed.
Print Assumptions C10m_state_machine_safety.

Theorem C10m_committed_never_change : forall (C0 : list nat) (F : flags),
  gateA F = true /\ baseC0 F = true /\ tguard F = true /\ reuse F = false -> NoDup C0 -> C0 <> [] ->
  forall s s' j i,
  reachable C0 F s -> steps C0 F s s' -> i < commit (nodes s j) ->
  commit (nodes s j) <= commit (nodes s' j) /\
  nth_error (log (nodes s' j)) i = nth_error (log (nodes s j)) i.
Proof. exact committed_never_change. Qed.
Print Assumptions C10m_committed_never_change.

Theorem C10m_member_table_is_function_of_log : forall (C0 : list nat) (F : flags),
  gateA F = true /\ baseC0 F = true /\ tguard F = true /\ reuse F = false -> NoDup C0 -> C0 <> [] ->
  forall s n, reachable C0 F s -> cfg n (nodes s n) = n :: del n (gcfg C0 (log (nodes s n))).
Proof. exact cfg_is_global. Qed.
Print Assumptions C10m_member_table_is_function_of_log.

Theorem C10m_decider_is_member : forall (C0 : list nat) (F : flags),
  gateA F = true /\ baseC0 F = true /\ tguard F = true /\ reuse F = false -> NoDup C0 -> C0 <> [] ->
  forall s n, reachable C0 F s -> rl (nodes s n) <> Follower -> In n (gcfg C0 (log (nodes s n))).
Proof. exact decider_is_member. Qed.
Print Assumptions C10m_decider_is_member.

Theorem C10m_win_by_majority_of_own_member_set : forall (C0 : list nat) (F : flags),
  gateA F = true /\ baseC0 F = true /\ tguard F = true /\ reuse F = false -> NoDup C0 -> C0 <> [] ->
  forall s t c Q C,
  reachable C0 F s -> In (t, c, Q, C) (wins s) ->
  NoDup Q /\ incl Q C /\ length C < 2 * length Q /\
  exists m, seteq C (gcfg C0 (firstn m (llog s t))).
Proof. exact win_by_majority_of_own_cfg. Qed.
Print Assumptions C10m_win_by_majority_of_own_member_set.

Theorem C10m_commit_by_majority_of_own_member_set : forall (C0 : list nat) (F : flags),
  gateA F = true /\ baseC0 F = true /\ tguard F = true /\ reuse F = false -> NoDup C0 -> C0 <> [] ->
  forall s T p Cd,
  reachable C0 F s -> In (T, p, Cd) (direct s) ->
  hasT (llog s T) T p /\
  (exists Q, NoDup Q /\ incl Q Cd /\ length Cd < 2 * length Q /\ forall f, In f Q -> acked s T f p) /\
  exists m, p < m /\ m <= length (llog s T) /\ seteq Cd (gcfg C0 (firstn m (llog s T))).
Proof. exact direct_by_majority_of_own_cfg. Qed.
Print Assumptions C10m_commit_by_majority_of_own_member_set.

(* the same for the finer-grained system kstep (the target of a refinement from Raft/Node.v) *)
Theorem C10m_k_state_machine_safety : forall (C0 : list nat) (F : flags),
  gateA F = true /\ baseC0 F = true /\ tguard F = true /\ reuse F = false -> NoDup C0 -> C0 <> [] ->
  forall s a b i,
  kreachable C0 F s -> i < commit (nodes s a) -> i < commit (nodes s b) ->
  nth_error (log (nodes s a)) i = nth_error (log (nodes s b)) i /\ i < length (log (nodes s a)).
Proof. exact k_state_machine_safety. Qed.
Print Assumptions C10m_k_state_machine_safety.

Theorem C10m_k_election_safety : forall (C0 : list nat) (F : flags),
  gateA F = true /\ baseC0 F = true /\ tguard F = true /\ reuse F = false -> NoDup C0 -> C0 <> [] ->
  forall s t c c' Q Q' C C',
  kreachable C0 F s -> In (t, c, Q, C) (wins s) -> In (t, c', Q', C') (wins s) -> c = c'.
Proof. exact k_election_safety. Qed.
Print Assumptions C10m_k_election_safety.

(* a complete replay over the member list of a log prefix is consistent (no hypothesis on id re-use) *)
Theorem C10m_joiner_replay_consistent : forall (C0 : list nat) (lK r : list entry) (y x : nat),
  In x (others_of y (del y (gcfg C0 lK)) (lK ++ r)) <-> In x (del y (gcfg C0 (lK ++ r))).
Proof. exact joiner_replay_consistent. Qed.
Print Assumptions C10m_joiner_replay_consistent.

(* R1 (Ongaro 2015): without guard (a) - own no-op committed before a change - two running nodes commit
   different entries at the same index.  Flags: gateA off, current list, no tguard, reuse, no filter. *)
Theorem C10m_without_noop_gate_refuted :
  exists s a b i, reachable [0; 1; 2; 3] (mkF false false false true false) s /\ alive s a /\ alive s b /\
    i < commit (nodes s a) /\ i < commit (nodes s b) /\
    nth_error (log (nodes s a)) i <> nth_error (log (nodes s b)) i.
Proof. exact C10_without_noop_gate_refuted. Qed.
Print Assumptions C10m_without_noop_gate_refuted.

(* R2 (KF-C10-1): the rules as coded, guards (a)(b) ON, member filter ON, joiner gets the CURRENT list,
   removed ids are added again as fresh nodes: a partial replay gives a member set that never existed. *)
Theorem C10m_as_coded_with_id_reuse_refuted :
  exists s a b i, reachable [0; 1; 2; 3; 4] (mkF true false false true true) s /\ alive s a /\ alive s b /\
    i < commit (nodes s a) /\ i < commit (nodes s b) /\
    nth_error (log (nodes s a)) i <> nth_error (log (nodes s b)) i.
Proof. exact C10_as_coded_with_id_reuse_refuted. Qed.
Print Assumptions C10m_as_coded_with_id_reuse_refuted.

(* R3: the Raft layer alone (member filter OFF): 3+1 nodes suffice. *)
Theorem C10m_without_member_filter_refuted :
  exists s a b i, reachable [0; 1; 2] (mkF true false false true false) s /\ alive s a /\ alive s b /\
    i < commit (nodes s a) /\ i < commit (nodes s b) /\
    nth_error (log (nodes s a)) i <> nth_error (log (nodes s b)) i.
Proof. exact C10_without_member_filter_refuted. Qed.
Print Assumptions C10m_without_member_filter_refuted.

(* R4: the rules as coded, guards ON, member filter ON, NO id re-use: the joiner's member list is read
   from a leader while a change is pending (and that change is later overwritten). *)
Theorem C10m_as_coded_list_read_during_change_refuted :
  exists s a b i, reachable [0; 1; 2] (mkF true false false false true) s /\ alive s a /\ alive s b /\
    i < commit (nodes s a) /\ i < commit (nodes s b) /\
    nth_error (log (nodes s a)) i <> nth_error (log (nodes s b)) i.
Proof. exact C10_as_coded_list_read_during_change_refuted. Qed.
Print Assumptions C10m_as_coded_list_read_during_change_refuted.

(* non-vacuity: a disciplined run - add node 3, remove node 2 (both committed in term 1 by node 0), node 3
   wins term 2 with {3,1}, a majority of its member set {3,0,1}, and commits *)
Theorem C10m_nonvacuous :
  reachable [0; 1; 2] (mkF true true true false true) (run [0; 1; 2] (mkF true true true false true) runS (init [0; 1; 2])) /\
  In (1, 3, [0; 3; 1]) (direct (run [0; 1; 2] (mkF true true true false true) runS (init [0; 1; 2]))) /\
  In (2, 3, [1; 3], [3; 0; 1]) (wins (run [0; 1; 2] (mkF true true true false true) runS (init [0; 1; 2]))) /\
  rl (nodes (run [0; 1; 2] (mkF true true true false true) runS (init [0; 1; 2])) 3) = Leader /\
  commit (nodes (run [0; 1; 2] (mkF true true true false true) runS (init [0; 1; 2])) 3) = 5 /\
  gcfg [0; 1; 2] (log (nodes (run [0; 1; 2] (mkF true true true false true) runS (init [0; 1; 2])) 3)) = [3; 0; 1].
Proof. exact C10m_nonvacuous_run. Qed.
Print Assumptions C10m_nonvacuous.
