(* Tier CM2, third property file: the user-state half of C01 on the fragment of Props/TierCM2.v (dynamic
   membership AND log compaction / snapshot install; hypotheses as there, incl. the explicit [snap_ok] inside
   run_okM2).  Counterparts of Props/TierC6.v (C01_one_common_sequence_core5,
   C01_one_common_sequence_snapshots_core5, C01_states_comparable_core5), conclusions word by word, with the
   same [replay] of Raft/ProofsApplyBase.v: membership (kind 2), version (kind 3) and no-op entries contribute
   nothing to the replay.  sigma = the committed entries of the run from index 2 on, read back from the
   AbstractM history (Raft/RefineM2HistBase.v [decL]). *)
From Coq Require Import ZArith NArith List.
From PSO Require Import Raft.Types Raft.Node Raft.Net Raft.Obs.
From PSO Require Import Raft.ProofsApplyBase Raft.ProofsElectionGhost.
From PSO Require Import Raft.RefineMAbs Raft.RefineMMain Raft.RefineM2Abs Raft.RefineM2Main Raft.RefineM2HistFinal.
Import ListNotations.
Open Scope N_scope.

Theorem C01_one_common_sequence_coreM2 :
  forall (c : conf) (mf : N -> N -> N * N) (V : list nid) (evs : list event),
    dyn c = true -> file_dump c = false -> 1 < batch c -> validM V evs = true ->
    run_okM2 c mf V ginit [] evs = true ->
    exists sigma : list entry,
      forall (evs1 evs2 : list event) (g : gstate) (x : nid) (n : node),
        evs = evs1 ++ evs2 -> run_trace c ginit evs1 = Some g ->
        aget x (nodes g) = Some n -> x < RO_BASE ->
        exists k : nat, hist n = replay (firstn k sigma) /\ N.of_nat k + 1 = applied n.
Proof. exact TierCM2_one_common_sequence. Qed.
Print Assumptions C01_one_common_sequence_coreM2.

Theorem C01_one_common_sequence_snapshots_coreM2 :
  forall (c : conf) (mf : N -> N -> N * N) (V : list nid) (evs : list event),
    dyn c = true -> file_dump c = false -> 1 < batch c -> validM V evs = true ->
    run_okM2 c mf V ginit [] evs = true ->
    exists sigma : list entry,
      forall (evs1 evs2 : list event) (g : gstate) (x : nid) (n : node),
        evs = evs1 ++ evs2 -> run_trace c ginit evs1 = Some g ->
        aget x (nodes g) = Some n -> x < RO_BASE ->
        (exists k : nat, hist n = replay (firstn k sigma) /\ N.of_nat k + 1 = applied n) /\
        (forall sn : snapshot, stored (sr n) = Some (Good sn) ->
           exists k : nat, s_hist sn = replay (firstn k sigma) /\ N.of_nat k + 1 = eidx (s_e1 sn)).
Proof. exact TierCM2_one_common_sequence_snapshots. Qed.
Print Assumptions C01_one_common_sequence_snapshots_coreM2.

Theorem C01_states_comparable_coreM2 :
  forall (c : conf) (mf : N -> N -> N * N) (V : list nid) (evs ea ea' eb eb' : list event) (ga gb : gstate)
         (a b : nid) (na nb : node),
    dyn c = true -> file_dump c = false -> 1 < batch c -> validM V evs = true ->
    run_okM2 c mf V ginit [] evs = true ->
    evs = ea ++ ea' -> evs = eb ++ eb' ->
    run_trace c ginit ea = Some ga -> run_trace c ginit eb = Some gb ->
    aget a (nodes ga) = Some na -> aget b (nodes gb) = Some nb -> a < RO_BASE -> b < RO_BASE ->
    applied na <= applied nb -> exists r : list N, hist nb = hist na ++ r.
Proof. exact TierCM2_states_comparable. Qed.
Print Assumptions C01_states_comparable_coreM2.
