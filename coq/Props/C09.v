From Coq Require Import ZArith NArith List Bool.
From RecordUpdate Require Import RecordSet.
From PSO Require Import Raft.Types Raft.Node Raft.Net Raft.Obs Raft.ProofsSnapshotBase Raft.ProofsSnapshot Raft.ProofsSnapshotChunks Raft.ProofsSnapshotExamples Raft.ProofsDumpBacked.
From PSO Require Raft.ProofsCommitBase Raft.ProofsCommit Raft.ProofsCommitLog.
Import ListNotations.
Import RecordSetNotations.
Open Scope N_scope.

Theorem C09_capture_point : forall e s,
  pid (sr (nd (try_compact e s))) = 1 ->
  pid (sr (nd s)) = 0 /\
  exists sn pre post,
    s_hist sn = hist (nd s) /\ s_ver sn = enabled_ver (nd s) /\
    s_cluster sn = cluster_at_applied (nd s) /\ s_len sn = snaplen e /\
    log (nd s) = pre ++ s_e0 sn :: s_e1 sn :: post /\
    N.of_nat (length pre) = applied (nd s) - 1 - first_idx (log (nd s)) /\
    first_idx (log (nd s)) <= applied (nd s) - 1 /\
    nd (try_compact e s) =
      (nd s) <| force_compact := false |>
             <| sr := (sr (nd s)) <| cur_id := eidx (s_e0 sn) |> <| stored := Some (Good sn) |> <| pid := 1 |> |> /\
    outs (try_compact e s) = outs s /\ exc (try_compact e s) = exc s.
Proof. exact capture_point. Qed.
Print Assumptions C09_capture_point.

Theorem C09_capture_point_indices : forall e s,
  pid (sr (nd (try_compact e s))) = 1 -> log_wf (log (nd s)) -> 1 <= applied (nd s) ->
  exists sn, stored (sr (nd (try_compact e s))) = Some (Good sn) /\
    cur_id (sr (nd (try_compact e s))) = applied (nd s) - 1 /\
    eidx (s_e0 sn) = applied (nd s) - 1 /\ eidx (s_e1 sn) = applied (nd s) /\
    In (s_e0 sn) (log (nd s)) /\ In (s_e1 sn) (log (nd s)) /\
    s_hist sn = hist (nd s) /\ s_ver sn = enabled_ver (nd s) /\ s_cluster sn = cluster_at_applied (nd s).
Proof. exact capture_point_indices. Qed.
Print Assumptions C09_capture_point_indices.

Theorem C09_capture_entries_exist : forall l a, log_wf l -> l <> [] -> 1 <= a ->
  ((exists e0 e1, get_entries l (Some (a - 1)) (Some 2) None = [e0; e1]) <->
   first_idx l <= a - 1 /\ a <= last_idx l).
Proof. exact capture_entries_exist. Qed.
Print Assumptions C09_capture_entries_exist.

Theorem C09_compaction_keeps_snapshot_entries : forall e s e' s2 added,
  pid (sr (nd (try_compact e s))) = 1 ->
  sr (nd s2) = sr (nd (try_compact e s)) ->
  log (nd s2) = log (nd s) ++ added -> log_wf (log (nd s2)) ->
  exists sn pre post,
    stored (sr (nd s2)) = Some (Good sn) /\
    log (nd s) = pre ++ s_e0 sn :: s_e1 sn :: post /\
    log (nd (try_compact e' s2)) = s_e0 sn :: s_e1 sn :: post ++ added /\
    stored (sr (nd (try_compact e' s2))) = Some (Good sn) /\
    (2 <= length (log (nd (try_compact e' s2))))%nat.
Proof. exact compaction_keeps_snapshot_entries. Qed.
Print Assumptions C09_compaction_keeps_snapshot_entries.

Theorem C09_load_restores : forall e s sn,
  stored (sr (nd s)) = Some (Good sn) -> s_ver sn <= self_ver (nd s) ->
  applied (nd s) < eidx (s_e1 sn) ->
  let s' := load_dump e true s in
  let kept := ProofsCommit.snap_kept sn (log (nd s)) in
  load_dump_ok s = true /\
  hist (nd s') = s_hist sn /\ enabled_ver (nd s') = s_ver sn /\ applied (nd s') = eidx (s_e1 sn) /\
  log (nd s') = (if kept then delete_to (log (nd s)) (eidx (s_e0 sn)) else [s_e0 sn; s_e1 sn]) /\
  replay_idx (nd s') = (if kept then replay_idx (nd s) else N.min (replay_idx (nd s)) (eidx (s_e1 sn))) /\
  commit (nd s') = commit (nd s) /\ sr (nd s') = sr (nd s) /\ exc s' = exc s /\
  self_ver (nd s') = self_ver (nd s) /\
  (dyn (cf e) = false -> others (nd s') = others (nd s)) /\
  (dyn (cf e) = true -> kept = false ->
   others (nd s') = filter (fun x => negb (self_is x (nd s))) (s_cluster sn)).
Proof. exact load_restores. Qed.
Print Assumptions C09_load_restores.

Theorem C09_load_failure_cases : forall s, load_dump_ok s = false <->
  (stored (sr (nd s)) = None \/ (exists l, stored (sr (nd s)) = Some (Corrupt l)) \/
   exists sn, stored (sr (nd s)) = Some (Good sn) /\
              (self_ver (nd s) < s_ver sn \/ eidx (s_e1 sn) <= applied (nd s))).
Proof. exact load_dump_ok_cases. Qed.
Print Assumptions C09_load_failure_cases.

Theorem C09_load_failure_keeps_state : forall e clear s,
  load_dump_ok s = false -> snap_behind s = false -> load_dump e clear s = s.
Proof. exact load_dump_fail. Qed.
Print Assumptions C09_load_failure_keeps_state.

(* a received snapshot that is not ahead of the node's position is not installed; the node only
   asks for a fresh snapshot of its own *)
Theorem C09_behind_snapshot_not_installed : forall e s,
  snap_behind s = true ->
  load_dump e true s = upd (fun n => n <| force_compact := true |> <| last_ser_entry := None |>) s.
Proof. exact load_dump_behind. Qed.
Print Assumptions C09_behind_snapshot_not_installed.

Theorem C09_load_failure_no_reply : forall e from t c p s,
  let s' := on_append_entries e from (AESnap t c p) t c s in
  load_dump_ok (fst (set_transmission p s)) = false \/ snd (set_transmission p s) = false ->
  commit (nd s') = commit (nd s) /\ log (nd s') = log (nd s) /\ hist (nd s') = hist (nd s) /\
  applied (nd s') = applied (nd s) /\ enabled_ver (nd s') = enabled_ver (nd s) /\
  no_new_send s s' /\ exc s' = exc s.
Proof. exact aesnap_no_install. Qed.
Print Assumptions C09_load_failure_no_reply.

Theorem C09_install_reply : forall e from t c p s sn,
  term (nd s) <= t ->
  snd (set_transmission p s) = true ->
  let s' := on_append_entries e from (AESnap t c p) t c s in
  stored (sr (nd s')) = Some (Good sn) -> s_ver sn <= self_ver (nd s) ->
  applied (nd s) < eidx (s_e1 sn) ->
  hist (nd s') = s_hist sn /\ enabled_ver (nd s') = s_ver sn /\ applied (nd s') = eidx (s_e1 sn) /\
  log (nd s') = (if ProofsCommit.snap_kept sn (log (nd s))
                 then delete_to (log (nd s)) (eidx (s_e0 sn)) else [s_e0 sn; s_e1 sn]) /\
  commit (nd s') = (if commit (nd s) <? c then N.max (commit (nd s)) (N.min c (eidx (s_e1 sn))) else commit (nd s)) /\
  (smem from (tconn (nd s)) = true -> dyn (cf e) = false ->
   In (Send from (NextIdx t (eidx (s_e1 sn) + 1) false true)) (outs s')).
Proof. exact aesnap_install. Qed.
Print Assumptions C09_install_reply.

Theorem C09_chunk_reassembly_sender : forall e x s b,
  1 <= chunk (cf e) -> pid (sr (nd s)) = 0 -> asorted (trans (sr (nd s))) ->
  stored (sr (nd s)) = Some b -> aget x (trans (sr (nd s))) = None ->
  forall fuel, (N.to_nat (nchunks (blob_len b) (chunk (cf e))) < fuel)%nat ->
  snd (sender_run fuel e x s) = transfer b (chunk (cf e)) /\
  trans_only s (fst (sender_run fuel e x s)) x.
Proof. exact sender_transfer. Qed.
Print Assumptions C09_chunk_reassembly_sender.

Theorem C09_chunk_count : forall b ch,
  length (transfer b ch) = Datatypes.S (N.to_nat (nchunks (blob_len b) ch)).
Proof. exact transfer_length. Qed.
Print Assumptions C09_chunk_count.

Theorem C09_chunk_shape : forall b ch k, (k < N.to_nat (nchunks (blob_len b) ch))%nat ->
  nth_error (transfer b ch) k = Some (piece_k b ch (N.of_nat k)).
Proof. exact transfer_nth. Qed.
Print Assumptions C09_chunk_shape.

Theorem C09_chunk_last : forall b ch,
  nth_error (transfer b ch) (N.to_nat (nchunks (blob_len b) ch)) = Some (final_piece b).
Proof. exact transfer_last. Qed.
Print Assumptions C09_chunk_last.

Theorem C09_chunk_ceil : forall len ch i, 1 <= ch -> (i < nchunks len ch <-> i * ch < len).
Proof. exact ceil_lt. Qed.
Print Assumptions C09_chunk_ceil.

Theorem C09_chunk_reassembly_receiver : forall b ch s, 1 <= ch -> snap_ahead b (applied (nd s)) = true ->
  recv_run (transfer b ch) s =
  (set_sr ((sr (nd s)) <| stored := Some b |> <| incoming := None |>) s,
   repeat false (N.to_nat (nchunks (blob_len b) ch)) ++ [true]).
Proof. exact recv_transfer. Qed.
Print Assumptions C09_chunk_reassembly_receiver.

Theorem C09_chunk_reassembly_refused : forall b ch s, 1 <= ch -> snap_ahead b (applied (nd s)) = false ->
  recv_run (transfer b ch) s =
  (set_sr ((sr (nd s)) <| incoming := None |>) s,
   repeat false (N.to_nat (nchunks (blob_len b) ch)) ++ [false]).
Proof. exact recv_transfer_refused. Qed.
Print Assumptions C09_chunk_reassembly_refused.

Theorem C09_chunk_reassembly_restarts : forall b ch ks s, 1 <= ch -> snap_ahead b (applied (nd s)) = true ->
  let r := recv_run (restarts b ch ks ++ transfer b ch) s in
  stored (sr (nd (fst r))) = Some b /\ incoming (sr (nd (fst r))) = None /\
  last (snd r) false = true.
Proof. exact recv_restarts_then_complete. Qed.
Print Assumptions C09_chunk_reassembly_restarts.

Theorem C09_chunk_reassembly_after_anything : forall pre b ch s, 1 <= ch -> snap_ahead b (applied (nd s)) = true ->
  let r := recv_run (pre ++ transfer b ch) s in
  stored (sr (nd (fst r))) = Some b /\ incoming (sr (nd (fst r))) = None /\
  last (snd r) false = true.
Proof. exact recv_after_anything. Qed.
Print Assumptions C09_chunk_reassembly_after_anything.

Theorem C09_restarts_never_install_wrong : forall b ch ks s, 1 <= ch ->
  let r := recv_run (restarts b ch ks) s in
  (stored (sr (nd (fst r))) = stored (sr (nd s)) \/ stored (sr (nd (fst r))) = Some b) /\
  sr_only s (fst r) /\
  (forall i, nth_error (snd r) i = Some true -> stored (sr (nd (fst r))) = Some b).
Proof. exact recv_restarts_safe. Qed.
Print Assumptions C09_restarts_never_install_wrong.

Theorem C09_no_first_no_completion : forall ps s, incoming (sr (nd s)) = None -> Forall not_first ps ->
  recv_run ps s = (s, repeat false (length ps)).
Proof. exact recv_no_first. Qed.
Print Assumptions C09_no_first_no_completion.

Theorem C09_stored_is_assembled : forall p s,
  snd (set_transmission p s) = true ->
  exists ps, stored (sr (nd (fst (set_transmission p s)))) = Some (assemble_snap ps) /\
             incoming (sr (nd (fst (set_transmission p s)))) = None.
Proof. exact set_transmission_stores. Qed.
Print Assumptions C09_stored_is_assembled.

Theorem C09_no_wrong_snapshot : forall ps s, assemble_snap ps = Good s ->
  (exists o l r, ps = (Good s, o, l) :: r) /\ cover_mod s 0 ps /\ pieces_total ps = s_len s.
Proof. exact no_wrong_snapshot. Qed.
Print Assumptions C09_no_wrong_snapshot.

Theorem C09_snap_eqb_meaning : forall a b, snap_eqb a b = true <->
  entry_eqb (s_e1 a) (s_e1 b) = true /\ entry_eqb (s_e0 a) (s_e0 b) = true /\
  s_len a = s_len b /\ length (s_hist a) = length (s_hist b).
Proof. exact snap_eqb_true. Qed.
Print Assumptions C09_snap_eqb_meaning.

Theorem C09_cancel_on_disconnect : forall e x n s b,
  asorted (trans (sr n)) -> nd s = on_disconnected x n ->
  pid (sr n) = 0 -> stored (sr n) = Some b ->
  aget x (trans (sr (nd s))) = None /\
  snd (get_transmission e x s) =
    SData b 0 (N.min (chunk (cf e)) (blob_len b)) true (N.min (chunk (cf e)) (blob_len b) =? 0).
Proof. exact cancel_on_disconnect. Qed.
Print Assumptions C09_cancel_on_disconnect.

Theorem C09_compaction_clears_transmissions : forall e s, pid (sr (nd s)) <> 0 ->
  trans (sr (nd (try_compact e s))) = [] /\ pid (sr (nd (try_compact e s))) = 0.
Proof. exact try_compact_clears_trans. Qed.
Print Assumptions C09_compaction_clears_transmissions.

Theorem C09_catch_up_index : forall e x next s a b rest,
  next <= first_idx (log (nd s)) -> log (nd s) = a :: b :: rest ->
  let r := fst (ae_body e x next s) in
  exc r = exc s /\ log (nd r) = log (nd s) /\
  (forall bl off len fst_, snd (get_transmission e x s) = SData bl off len fst_ true ->
     aget x (next_idx (nd r)) = Some (eidx b + 1)) /\
  (forall bl off len fst_, snd (get_transmission e x s) = SData bl off len fst_ false ->
     next_idx (nd r) = next_idx (nd s) /\ snd (ae_body e x next s) = true) /\
  (snd (get_transmission e x s) = SNone -> next_idx (nd r) = next_idx (nd s)).
Proof. exact catch_up_index. Qed.
Print Assumptions C09_catch_up_index.

Theorem C09_catch_up_index_wf : forall l a b rest, l = a :: b :: rest -> log_wf l -> eidx b + 1 = first_idx l + 2.
Proof. exact catch_up_index_wf. Qed.
Print Assumptions C09_catch_up_index_wf.

Theorem C09_become_leader_cancels_transmissions : forall e s x,
  asorted (trans (sr (nd s))) ->
  In x (sunion (others (nd s)) (readonly (nd s))) ->
  let s1 := become_leader_pre e s in
  aget x (trans (sr (nd s1))) = None /\ asorted (trans (sr (nd s1))) /\
  pid (sr (nd s1)) = pid (sr (nd s)) /\ stored (sr (nd s1)) = stored (sr (nd s)) /\
  forall b, pid (sr (nd s)) = 0 -> stored (sr (nd s)) = Some b ->
    snd (get_transmission e x s1) =
      SData b 0 (N.min (chunk (cf e)) (blob_len b)) true (N.min (chunk (cf e)) (blob_len b) =? 0).
Proof. exact become_leader_cancels. Qed.
Print Assumptions C09_become_leader_cancels_transmissions.

Theorem C09_become_leader_split : forall e s,
  become_leader e s = ((if use_batch (cf e) then (fun s => s) else send_ae e) ;; send_ae e) (become_leader_pre e s).
Proof. exact become_leader_split. Qed.
Print Assumptions C09_become_leader_split.

Theorem C09_other_destination_keeps_no_cursor : forall e y x s, y <> x -> aget x (trans (sr (nd s))) = None ->
  aget x (trans (sr (nd (fst (get_transmission e y s))))) = None.
Proof. exact get_transmission_other. Qed.
Print Assumptions C09_other_destination_keeps_no_cursor.

Theorem C09_inflight_loss_splices :
  exists g n3, run_trace cz ginit inflight_loss_trace = Some g /\ aget 3 (nodes g) = Some n3 /\
    stored (sr n3) = None /\ incoming (sr n3) = None /\ applied n3 = 1 /\ map eidx (log n3) = [1].
Proof. exact inflight_loss_splices. Qed.
Print Assumptions C09_inflight_loss_splices.

(* formerly C09_stored_snapshot_never_corrupt_refuted: its witness was the spliced file of
   C09_inflight_loss_splices, which setTransmissionData no longer stores; the statement now holds *)
Theorem C09_stored_snapshot_never_corrupt : C09_stored_snapshot_never_corrupt_full.
Proof. exact stored_snapshot_never_corrupt. Qed.
Print Assumptions C09_stored_snapshot_never_corrupt.

(* the install keeps what the follower holds behind the snapshot (positive statement of the repair of
   `install_drops_acked`): with consecutive indices and the snapshot's two entries in the log, the
   new log is exactly the old one from the snapshot's first entry on *)
Theorem C09_install_keeps_suffix :
  forall (e : env) (from : nid) (t c : N) (p : snap_part) (n : node) (sn : snapshot),
  term n <= t -> ProofsCommit.recv_snapshot p (sr n) = Some (Good sn) ->
  s_ver sn <= self_ver n -> applied n < eidx (s_e1 sn) ->
  ProofsCommitLog.consec (log n) -> ProofsCommit.snap_kept sn (log n) = true ->
  let n' := nd (on_message e from (AESnap t c p) n) in
  log n' = filter (fun en => eidx (s_e0 sn) <=? eidx en) (log n) /\
  (forall en, In en (log n) -> eidx (s_e1 sn) < eidx en -> In en (log n')) /\
  applied n' = eidx (s_e1 sn).
Proof. exact ProofsCommitLog.install_keeps_suffix. Qed.
Print Assumptions C09_install_keeps_suffix.
