From Coq Require Import ZArith NArith List.
From PSO Require Import Raft.Types Raft.Node Raft.Net Raft.Obs.
From PSO Require Import Raft.ProofsApplyBase Raft.ProofsElectionGhost.
From PSO Require Import Raft.RefineAbs Raft.Refine5Abs Raft.Refine5Main Raft.Refine6Final.
Import ListNotations.
Open Scope N_scope.

(* Tier C6: the capstone of C01 on the fragment of Tier C5 (dyn = false, 1 < batch, `valid V evs`: voters
   start once with others = V minus itself, `run_ok5`: a node's first tick finds no dump stored).
   For every run there is ONE sequence sigma of log entries - the committed log at the end of the run,
   without the common term-0 entry of index 1 - such that at every moment of the run the user state
   (`hist`: the list of executed command ids) of every running voter is `replay` of the first
   `applied - 1` entries of sigma: index i of the log is position i-2 of sigma; `replay` executes REGULAR
   commands that do not raise and skips no-op / VERSION / membership / raising entries; a voter that lacks
   the code version of a VERSION entry stops applying in front of it, so `applied` stays there.
   This holds also right after the voter compacted its log (the log is a suffix, the state is unchanged)
   and right after it installed a snapshot (hist := the snapshot's state, applied := the index of the
   snapshot's last entry): every snapshot stored by a voter carries the replay of sigma up to its index. *)

Theorem C01_one_common_sequence_core5 :
  forall (c : conf) (V : list nid) (evs : list event),
    dyn c = false -> 1 < batch c -> valid V evs = true -> run_ok5 c ginit evs = true ->
    exists sigma : list entry,
      forall (evs1 evs2 : list event) (g : gstate) (x : nid) (n : node),
        evs = evs1 ++ evs2 -> run_trace c ginit evs1 = Some g ->
        aget x (nodes g) = Some n -> x < RO_BASE ->
        exists k : nat, hist n = replay (firstn k sigma) /\ N.of_nat k + 1 = applied n.
Proof. exact TierC6_one_common_sequence. Qed.
Print Assumptions C01_one_common_sequence_core5.

Theorem C01_one_common_sequence_snapshots_core5 :
  forall (c : conf) (V : list nid) (evs : list event),
    dyn c = false -> 1 < batch c -> valid V evs = true -> run_ok5 c ginit evs = true ->
    exists sigma : list entry,
      forall (evs1 evs2 : list event) (g : gstate) (x : nid) (n : node),
        evs = evs1 ++ evs2 -> run_trace c ginit evs1 = Some g ->
        aget x (nodes g) = Some n -> x < RO_BASE ->
        (exists k : nat, hist n = replay (firstn k sigma) /\ N.of_nat k + 1 = applied n) /\
        (forall sn : snapshot, stored (sr n) = Some (Good sn) ->
           exists k : nat, s_hist sn = replay (firstn k sigma) /\ N.of_nat k + 1 = eidx (s_e1 sn)).
Proof. exact TierC6_one_common_sequence_snapshots. Qed.
Print Assumptions C01_one_common_sequence_snapshots_core5.

Theorem C01_states_comparable_core5 :
  forall (c : conf) (V : list nid) (evs ea ea' eb eb' : list event) (ga gb : gstate) (a b : nid) (na nb : node),
    dyn c = false -> 1 < batch c -> valid V evs = true -> run_ok5 c ginit evs = true ->
    evs = ea ++ ea' -> evs = eb ++ eb' ->
    run_trace c ginit ea = Some ga -> run_trace c ginit eb = Some gb ->
    aget a (nodes ga) = Some na -> aget b (nodes gb) = Some nb -> a < RO_BASE -> b < RO_BASE ->
    applied na <= applied nb -> exists r : list N, hist nb = hist na ++ r.
Proof. exact TierC6_states_comparable. Qed.
Print Assumptions C01_states_comparable_core5.

Theorem C01_one_common_sequence_frag5 :
  forall (c : conf) (V : list nid) (evs : list event), core_frag5 c V evs ->
    exists sigma : list entry,
      forall (evs1 evs2 : list event) (g : gstate) (x : nid) (n : node),
        evs = evs1 ++ evs2 -> run_trace c ginit evs1 = Some g ->
        aget x (nodes g) = Some n -> x < RO_BASE ->
        exists k : nat, hist n = replay (firstn k sigma) /\ N.of_nat k + 1 = applied n.
Proof. exact TierC6_one_common_sequence_frag. Qed.
Print Assumptions C01_one_common_sequence_frag5.

Theorem C01_state_is_replay_voters_core5 :
  C01_state_is_replay_voters (fun c evs => exists V, core_frag5 c V evs).
Proof. exact TierC6_state_is_replay_voters. Qed.
Print Assumptions C01_state_is_replay_voters_core5.
