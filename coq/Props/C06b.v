(* C06, "the files of a node back each other": the journal holds the two entries of the dump the node would load.
   This is the hypothesis `d_log d = pre ++ s_e0 sn :: s_e1 sn :: post` of C06_first_tick_rebuilds (Props/C06.v), here
   as an invariant of the node's own transitions.  Before the repair FX-C06-2 it was false: a received snapshot that
   the node refused had already replaced the stored dump (scenario refused_snapshot_then_kill). *)
From Coq Require Import ZArith NArith List Bool.
From PSO Require Import Raft.Types Raft.Node Raft.Net Raft.Obs Raft.ProofsCommitBase Raft.ProofsCommit Raft.ProofsCommitLog
  Raft.ProofsMembership Raft.ProofsCommitExamples Raft.ProofsDumpBacked.
Import ListNotations.
Open Scope N_scope.

(* every tick keeps it: the dump load of the first tick, the trim that ends a serialization, the start of a new one *)
Theorem C06_dump_backed_on_tick : forall e n, dinv n -> dinv (nd (on_tick e n)).
Proof. exact dump_backed_on_tick. Qed.
Print Assumptions C06_dump_backed_on_tick.

(* every transition of a node keeps it, for deliveries whose entries agree in term with the journal up to the dump's
   position (Raft safety: a leader never makes a follower cut a committed entry - a global fact, not a local one) and
   whose snapshot entries are literally the journal's where entry_eqb says so (a modelling artefact: entry_eqb does not
   compare the packed size).  The unconditioned statement is dump_backed_step_full. *)
Theorem C06_dump_backed_step_partial : forall c n n',
  nstep c (fun m => msg_wf m /\ msg_keeps n m) n n' -> dinv n -> dinv n'.
Proof. exact dump_backed_step_partial. Qed.
Print Assumptions C06_dump_backed_step_partial.

(* kill at any point between two steps, restart from the node's own files with the same code version (or any version
   that does not make a dump loadable that was not loadable before), first tick *)
Theorem C06_dump_backed_restart_tick_partial : forall c e0 e me oth sv n d,
  disk_of c n = Some d -> ssorted oth -> ver_stable n sv -> dinv n ->
  dinv (nd (on_tick e (init_from_disk e0 me oth sv d))).
Proof. exact dump_backed_restart_tick_partial. Qed.
Print Assumptions C06_dump_backed_restart_tick_partial.

(* the files of a killed node satisfy the hypothesis of C06_first_tick_rebuilds *)
Theorem C06_disk_journal_holds_dump : forall c n d sn,
  disk_of c n = Some d -> dump_backed n -> d_dump d = Some (Good sn) -> s_ver sn <= self_ver n ->
  exists pre post, d_log d = pre ++ s_e0 sn :: s_e1 sn :: post.
Proof. exact disk_journal_holds_dump. Qed.
Print Assumptions C06_disk_journal_holds_dump.

(* a fresh node satisfies the invariant *)
Theorem C06_dump_backed_init : forall e me oth sv, ssorted oth -> dinv (init_node e me oth sv).
Proof. exact dinv_init. Qed.
Print Assumptions C06_dump_backed_init.

(* the version hypothesis cannot be dropped: a node of code version 0 stores a snapshot of version 1 that is ahead of it
   and that it cannot load; restarted with code version 1 it loads that dump on the first tick against a journal that
   does not hold its entries, and the journal [1; 2; 3] becomes [5; 6] (what a snapshot install does, but from files) *)
Theorem C06_version_hypothesis_needed :
  let n := ProofsCommitExamples.node_of 3 ProofsCommitExamples.g3 in
  let m := AESnap 1 3 (SData (Good newer_snap) 0 50 true true) in
  let n' := nd (on_message (mk_env ProofsCommitExamples.xc 300 0 DEFAULT_BUDGET [] 0) 1 m n) in
  msg_wf m /\ msg_keeps n m /\ dinv n' /\
  stored (sr n') = Some (Good newer_snap) /\ self_ver n' = 0 /\ map eidx (log n') = [1; 2; 3] /\
  exists d, disk_of xj n' = Some d /\ ~ ver_stable n' 1 /\
    let r := init_from_disk (mk_env xj 400 0 DEFAULT_BUDGET [] 0) (Some 3) [1; 2] 1 d in
    ~ dump_backed r /\ map eidx (log r) = [1; 2; 3] /\
    map eidx (log (nd (on_tick (mk_env xj 410 0 30 [] 0) r))) = [5; 6].
Proof. exact ver_stable_needed. Qed.
Print Assumptions C06_version_hypothesis_needed.
