From Coq Require Import ZArith NArith List.
From PSO Require Import Base.PyBytes Journal.Model Journal.ProofsBytes Journal.Proofs Journal.ProofsRun.
Import ListNotations.

Theorem C08_refines_list :
  forall ver h, (zlen ver < 8)%Z -> killfree h -> run_fits (init_state ver) h ->
  exists m d, run (init_state ver) h = Some (m, d) /\
    m_entries m = l_entries (lst_run lst_init h) /\
    get_commit m = commit_of (l_commit (lst_run lst_init h)) /\
    exists m', reopen d = Some m' /\
      m_entries m' = l_entries (lst_run lst_init h) /\
      get_commit m' = commit_of (l_flushed (lst_run lst_init h)) /\
      m_cur m' = m_cur m.
Proof. exact refines_list. Qed.
Print Assumptions C08_refines_list.

Theorem C08_append_atomic :
  forall ver h m d c i t j, (zlen ver < 8)%Z ->
  run_fits (init_state ver) h -> run (init_state ver) h = Some (m, d) -> op_fits m (OAdd c i t) ->
  exists m', reopen (apply_prims d (firstn j (snd (exec m d (OAdd c i t))))) = Some m' /\
    (m_entries m' = m_entries m \/
     m_entries m' = m_entries m ++ [{| e_cmd := c; e_idx := i; e_term := t |}]).
Proof. exact append_atomic. Qed.
Print Assumptions C08_append_atomic.

Theorem C08_clear_atomic :
  forall ver h m d j, (zlen ver < 8)%Z ->
  run_fits (init_state ver) h -> run (init_state ver) h = Some (m, d) ->
  exists m', reopen (apply_prims d (firstn j (snd (exec m d OClear)))) = Some m' /\
    (m_entries m' = m_entries m \/ m_entries m' = []).
Proof. exact clear_atomic. Qed.
Print Assumptions C08_clear_atomic.

Theorem C08_drop_tail_safe :
  forall ver h m d k j, (zlen ver < 8)%Z ->
  run_fits (init_state ver) h -> run (init_state ver) h = Some (m, d) ->
  exists m' t, reopen (apply_prims d (firstn j (snd (exec m d (ODelFrom k))))) = Some m' /\
    (Nat.min (N.to_nat k) (length (m_entries m)) <= t <= length (m_entries m))%nat /\
    m_entries m' = firstn t (m_entries m).
Proof. exact drop_tail_safe. Qed.
Print Assumptions C08_drop_tail_safe.

Theorem C08_meta_is_a_set_value :
  forall ver h m d, run (init_state ver) h = Some (m, d) ->
  In (get_commit m) (1%Z :: sets_of h) /\
  forall m', reopen d = Some m' -> In (get_commit m') (1%Z :: sets_of h).
Proof. exact meta_is_a_set_value. Qed.
Print Assumptions C08_meta_is_a_set_value.

Theorem C08_drop_head_refuted :
  exists ver h m d k j m',
    (zlen ver < 8)%Z /\ run_fits (init_state ver) h /\ run (init_state ver) h = Some (m, d) /\
    reopen (apply_prims d (firstn j (snd (exec m d (ODelTo k))))) = Some m' /\
    ~ (exists a, (a <= N.to_nat k)%nat /\ m_entries m' = skipn a (m_entries m)).
Proof. exact drop_head_refuted. Qed.
Print Assumptions C08_drop_head_refuted.

Theorem C08_drop_head_prefix_of_kept :
  forall ver h m d k j, (zlen ver < 8)%Z ->
  run_fits (init_state ver) h -> run (init_state ver) h = Some (m, d) ->
  exists m', reopen (apply_prims d (firstn j (snd (exec m d (ODelTo k))))) = Some m' /\
    (m_entries m' = m_entries m \/
     exists t, (t <= length (skipn (N.to_nat k) (m_entries m)))%nat /\
               m_entries m' = firstn t (skipn (N.to_nat k) (m_entries m))).
Proof. exact drop_head_prefix_of_kept. Qed.
Print Assumptions C08_drop_head_prefix_of_kept.

Theorem C08_write_fits :
  forall f off vals, (0 <= off <= zlen f)%Z -> (0 < zlen f)%Z ->
  (off + zlen vals <= zlen (rf_write f off vals))%Z /\ (zlen f <= zlen (rf_write f off vals))%Z.
Proof. exact write_fits. Qed.
Print Assumptions C08_write_fits.

Theorem C08_never_stuck :
  forall ver h, (zlen ver < 8)%Z -> run_fits (init_state ver) h ->
  exists m d, run (init_state ver) h = Some (m, d) /\ exists m', reopen d = Some m' /\ m_entries m' = m_entries m.
Proof. exact never_stuck. Qed.
Print Assumptions C08_never_stuck.

Theorem C08_commit_ops_keep_entries :
  forall ver h m d o j, (zlen ver < 8)%Z ->
  run_fits (init_state ver) h -> run (init_state ver) h = Some (m, d) ->
  (o = OTimer \/ exists v, o = OSetCommit v) ->
  exists m', reopen (apply_prims d (firstn j (snd (exec m d o)))) = Some m' /\
    m_entries m' = m_entries m /\ m_cur m' = m_cur m.
Proof. exact commit_ops_keep_entries. Qed.
Print Assumptions C08_commit_ops_keep_entries.
