(* Tier CM2, fourth property file: the headline theorems of Props/TierCM2.v / TierCM2c.v over the fragment
   WITHOUT the bookkeeping check [san_ok]: [run_okM2'] (Raft/RefineM2BookMain.v) = run_okM2 minus san_ok.
   san_ok is proved as a fact about the model (Raft/RefineM2BookSan.v san_ok_holds: it holds at every step from
   a state related by the refinement; it genuinely needs file_dump c = false and the relation's hygiene of the
   ticking voter - first_idx <= applied, finished serializer job below applied), so
   run_okM2' -> run_okM2 on runs from ginit (run_okM2'_up).  The second bookkeeping check, ro_snap_okb (about
   snapshot pieces delivered to READ-ONLY nodes), is still part of run_okM2'. *)
From Coq Require Import ZArith NArith List.
From PSO Require Import Raft.Types Raft.Node Raft.Net Raft.Obs.
From PSO Require Import Raft.ProofsApplyBase Raft.ProofsElectionBase Raft.ProofsElectionGhost Raft.ProofsMembership.
From PSO Require Import Raft.RefineMAbs Raft.RefineMMain Raft.RefineM2Abs Raft.RefineM2Main Raft.RefineM2Final
  Raft.RefineM2BookMain.
Import ListNotations.
Open Scope N_scope.

Theorem run_okM2'_implies_run_okM2 :
  forall (c : conf) (mf : N -> N -> N * N) (V : list nid) (evs : list event),
    dyn c = true -> file_dump c = false -> 1 < batch c -> validM V evs = true ->
    run_okM2' c mf V ginit [] evs = true -> run_okM2 c mf V ginit [] evs = true.
Proof. exact run_okM2'_up. Qed.
Print Assumptions run_okM2'_implies_run_okM2.

Theorem L1_refines_AbstractM_coreM2' :
  forall (c : conf) (mf : N -> N -> N * N) (V : list nid) (evs : list event) (g : gstate),
    dyn c = true -> file_dump c = false -> 1 < batch c -> validM V evs = true ->
    run_okM2' c mf V ginit [] evs = true ->
    run_trace c ginit evs = Some g ->
    exists s, KS.kreachable (absV V) F0 s /\ R c mf V g (sts_after [] evs) s.
Proof. exact TierCM2'_refinement. Qed.
Print Assumptions L1_refines_AbstractM_coreM2'.

Theorem L1_state_machine_safety_coreM2' :
  forall (c : conf) (mf : N -> N -> N * N) (V : list nid) (evs : list event) (g : gstate) (a b : nid) (xa xb : node)
         (ea eb : entry),
    dyn c = true -> file_dump c = false -> 1 < batch c -> validM V evs = true ->
    run_okM2' c mf V ginit [] evs = true ->
    run_trace c ginit evs = Some g ->
    aget a (nodes g) = Some xa -> aget b (nodes g) = Some xb -> a < RO_BASE -> b < RO_BASE ->
    In ea (log xa) -> In eb (log xb) -> eidx ea = eidx eb -> eidx ea <= commit xa -> eidx ea <= commit xb ->
    ea = eb.
Proof. exact TierCM2'_state_machine_safety. Qed.
Print Assumptions L1_state_machine_safety_coreM2'.

Theorem L1_members_follow_log_coreM2' :
  forall (c : conf) (mf : N -> N -> N * N) (V : list nid) (evs : list event) (g : gstate) (a : nid) (xa : node),
    dyn c = true -> file_dump c = false -> 1 < batch c -> validM V evs = true ->
    run_okM2' c mf V ginit [] evs = true ->
    run_trace c ginit evs = Some g ->
    aget a (nodes g) = Some xa -> a < RO_BASE ->
    exists full, suffix_of (log xa) full /\
      others xa = fold_members (vminus a V) full (Some a) /\
      (forall y, In y (others xa) <-> y <> a /\ In (N.to_nat y) (M.gcfg (absV V) (absL (pk c) full))).
Proof. exact TierCM2'_members_follow_log. Qed.
Print Assumptions L1_members_follow_log_coreM2'.

Theorem L1_snapshot_members_coreM2' :
  forall (c : conf) (mf : N -> N -> N * N) (V : list nid) (evs : list event) (g : gstate) (a : nid) (xa : node)
         (sn : snapshot),
    dyn c = true -> file_dump c = false -> 1 < batch c -> validM V evs = true ->
    run_okM2' c mf V ginit [] evs = true ->
    run_trace c ginit evs = Some g ->
    aget a (nodes g) = Some xa -> a < RO_BASE -> stored (sr xa) = Some (Good sn) ->
    exists full, suffix_of (log xa) full /\ eidx (s_e1 sn) <= commit xa /\
      nth_error full (N.to_nat (eidx (s_e1 sn)) - 1) = Some (s_e1 sn) /\
      (forall y, In y (s_cluster sn) <->
                 In (N.to_nat y) (M.gcfg (absV V) (absL (pk c) (firstn (N.to_nat (eidx (s_e1 sn))) full)))).
Proof. exact TierCM2'_snapshot_members. Qed.
Print Assumptions L1_snapshot_members_coreM2'.

Theorem L1_one_leader_per_term_coreM2' :
  forall (c : conf) (mf : N -> N -> N * N) (V : list nid) (evs : list event) (g : gstate) (a b : nid) (xa xb : node),
    dyn c = true -> file_dump c = false -> 1 < batch c -> validM V evs = true ->
    run_okM2' c mf V ginit [] evs = true ->
    run_trace c ginit evs = Some g ->
    aget a (nodes g) = Some xa -> aget b (nodes g) = Some xb -> a < RO_BASE -> b < RO_BASE ->
    role xa = LEADER -> role xb = LEADER -> term xa = term xb -> a = b.
Proof. exact TierCM2'_one_leader_per_term. Qed.
Print Assumptions L1_one_leader_per_term_coreM2'.

Theorem C01_one_common_sequence_coreM2' :
  forall (c : conf) (mf : N -> N -> N * N) (V : list nid) (evs : list event),
    dyn c = true -> file_dump c = false -> 1 < batch c -> validM V evs = true ->
    run_okM2' c mf V ginit [] evs = true ->
    exists sigma : list entry,
      forall (evs1 evs2 : list event) (g : gstate) (x : nid) (n : node),
        evs = evs1 ++ evs2 -> run_trace c ginit evs1 = Some g ->
        aget x (nodes g) = Some n -> x < RO_BASE ->
        exists k : nat, hist n = replay (firstn k sigma) /\ N.of_nat k + 1 = applied n.
Proof. exact TierCM2'_one_common_sequence. Qed.
Print Assumptions C01_one_common_sequence_coreM2'.

Theorem C01_one_common_sequence_snapshots_coreM2' :
  forall (c : conf) (mf : N -> N -> N * N) (V : list nid) (evs : list event),
    dyn c = true -> file_dump c = false -> 1 < batch c -> validM V evs = true ->
    run_okM2' c mf V ginit [] evs = true ->
    exists sigma : list entry,
      forall (evs1 evs2 : list event) (g : gstate) (x : nid) (n : node),
        evs = evs1 ++ evs2 -> run_trace c ginit evs1 = Some g ->
        aget x (nodes g) = Some n -> x < RO_BASE ->
        (exists k : nat, hist n = replay (firstn k sigma) /\ N.of_nat k + 1 = applied n) /\
        (forall sn : snapshot, stored (sr n) = Some (Good sn) ->
           exists k : nat, s_hist sn = replay (firstn k sigma) /\ N.of_nat k + 1 = eidx (s_e1 sn)).
Proof. exact TierCM2'_one_common_sequence_snapshots. Qed.
Print Assumptions C01_one_common_sequence_snapshots_coreM2'.
