From Coq Require Import ZArith NArith List.
From PSO Require Import Raft.Types Raft.Node Raft.Net Raft.Obs.
From PSO Require Import Raft.ProofsElectionBase Raft.ProofsElectionGhost Raft.ProofsMembership.
From PSO Require Import Raft.RefineMAbs Raft.RefineM3Abs Raft.RefineMTickA Raft.RefineMMain Raft.RefineM3Main
  Raft.RefineMFinal Raft.RefineM3Final.
Import ListNotations.
Open Scope N_scope.

Theorem L1_refines_AbstractM_coreM3 :
  forall (c : conf) (V : list nid) (evs : list event) (g : gstate),
    dyn c = true -> file_dump c = false -> 1 < batch c -> validM V evs = true ->
    run_okM3 c V ginit evs = true ->
    run_trace c ginit evs = Some g ->
    exists s, K3.kreachable3 (absV V) F3 s /\ R c V g (sts_after [] evs) s.
Proof. exact TierCM3_refinement. Qed.
Print Assumptions L1_refines_AbstractM_coreM3.

Theorem L1_one_leader_per_term_coreM3 :
  forall (c : conf) (V : list nid) (evs : list event) (g : gstate) (a b : nid) (xa xb : node),
    dyn c = true -> file_dump c = false -> 1 < batch c -> validM V evs = true ->
    run_okM3 c V ginit evs = true ->
    run_trace c ginit evs = Some g ->
    aget a (nodes g) = Some xa -> aget b (nodes g) = Some xb -> a < RO_BASE -> b < RO_BASE ->
    role xa = LEADER -> role xb = LEADER -> term xa = term xb -> a = b.
Proof. exact TierCM3_one_leader_per_term. Qed.
Print Assumptions L1_one_leader_per_term_coreM3.

Theorem L1_log_matching_coreM3 :
  forall (c : conf) (V : list nid) (evs : list event) (g : gstate) (a b : nid) (xa xb : node)
         (p : nat) (ea eb : entry),
    dyn c = true -> file_dump c = false -> 1 < batch c -> validM V evs = true ->
    run_okM3 c V ginit evs = true ->
    run_trace c ginit evs = Some g ->
    aget a (nodes g) = Some xa -> aget b (nodes g) = Some xb -> a < RO_BASE -> b < RO_BASE ->
    nth_error (log xa) p = Some ea -> nth_error (log xb) p = Some eb -> eterm ea = eterm eb ->
    forall q, (q <= p)%nat -> osim (nth_error (log xa) q) (nth_error (log xb) q).
Proof. exact TierCM3_log_matching. Qed.
Print Assumptions L1_log_matching_coreM3.

Theorem L1_leader_completeness_coreM3 :
  forall (c : conf) (V : list nid) (evs1 evs2 : list event) (g1 g2 : gstate) (a l : nid) (xa xl : node) (i : N),
    dyn c = true -> file_dump c = false -> 1 < batch c -> validM V (evs1 ++ evs2) = true ->
    run_okM3 c V ginit (evs1 ++ evs2) = true ->
    run_trace c ginit evs1 = Some g1 -> run_trace c g1 evs2 = Some g2 ->
    aget a (nodes g1) = Some xa -> aget l (nodes g2) = Some xl -> a < RO_BASE -> l < RO_BASE ->
    role xl = LEADER -> term xa <= term xl -> 1 <= i -> i <= commit xa ->
    osim (nth_error (log xl) (N.to_nat i - 1)) (nth_error (log xa) (N.to_nat i - 1)).
Proof. exact TierCM3_leader_completeness. Qed.
Print Assumptions L1_leader_completeness_coreM3.

Theorem L1_state_machine_safety_coreM3 :
  forall (c : conf) (V : list nid) (evs : list event) (g : gstate) (a b : nid) (xa xb : node) (i : N),
    dyn c = true -> file_dump c = false -> 1 < batch c -> validM V evs = true ->
    run_okM3 c V ginit evs = true ->
    run_trace c ginit evs = Some g ->
    aget a (nodes g) = Some xa -> aget b (nodes g) = Some xb -> a < RO_BASE -> b < RO_BASE ->
    1 <= i -> i <= commit xa -> i <= commit xb ->
    exists ea eb, nth_error (log xa) (N.to_nat i - 1) = Some ea /\
                  nth_error (log xb) (N.to_nat i - 1) = Some eb /\ esim ea eb /\ eidx ea = i.
Proof. exact TierCM3_state_machine_safety. Qed.
Print Assumptions L1_state_machine_safety_coreM3.

Theorem L1_applied_entries_agree_coreM3 :
  forall (c : conf) (V : list nid) (evs : list event) (g : gstate) (a b : nid) (xa xb : node) (i : N),
    dyn c = true -> file_dump c = false -> 1 < batch c -> validM V evs = true ->
    run_okM3 c V ginit evs = true ->
    run_trace c ginit evs = Some g ->
    aget a (nodes g) = Some xa -> aget b (nodes g) = Some xb -> a < RO_BASE -> b < RO_BASE ->
    1 <= i -> i <= applied xa -> i <= applied xb ->
    exists ea eb, nth_error (log xa) (N.to_nat i - 1) = Some ea /\
                  nth_error (log xb) (N.to_nat i - 1) = Some eb /\ esim ea eb /\ eidx ea = i.
Proof. exact TierCM3_applied_entries_agree. Qed.
Print Assumptions L1_applied_entries_agree_coreM3.

Theorem L1_committed_never_change_coreM3 :
  forall (c : conf) (V : list nid) (evs1 evs2 : list event) (g1 g2 : gstate) (a : nid) (xa1 xa2 : node) (i : N),
    dyn c = true -> file_dump c = false -> 1 < batch c -> validM V (evs1 ++ evs2) = true ->
    run_okM3 c V ginit (evs1 ++ evs2) = true ->
    run_trace c ginit evs1 = Some g1 -> run_trace c g1 evs2 = Some g2 ->
    aget a (nodes g1) = Some xa1 -> aget a (nodes g2) = Some xa2 -> a < RO_BASE ->
    1 <= i -> i <= commit xa1 ->
    commit xa1 <= commit xa2 /\
    osim (nth_error (log xa2) (N.to_nat i - 1)) (nth_error (log xa1) (N.to_nat i - 1)).
Proof. exact TierCM3_committed_never_change. Qed.
Print Assumptions L1_committed_never_change_coreM3.

Theorem L1_members_follow_log_coreM3 :
  forall (c : conf) (V : list nid) (evs : list event) (g : gstate) (a : nid) (xa : node),
    dyn c = true -> file_dump c = false -> 1 < batch c -> validM V evs = true ->
    run_okM3 c V ginit evs = true ->
    run_trace c ginit evs = Some g ->
    aget a (nodes g) = Some xa -> a < RO_BASE ->
    others xa = fold_members (vminus a V) (log xa) (Some a) /\
    (forall y, In y (others xa) <-> y <> a /\ In (N.to_nat y) (M.gcfg (absV V) (absL (pk c) (log xa)))).
Proof. exact TierCM3_members_follow_log. Qed.
Print Assumptions L1_members_follow_log_coreM3.

Theorem L1_leader_is_member_by_own_log_coreM3 :
  forall (c : conf) (V : list nid) (evs : list event) (g : gstate) (a : nid) (xa : node),
    dyn c = true -> file_dump c = false -> 1 < batch c -> validM V evs = true ->
    run_okM3 c V ginit evs = true ->
    run_trace c ginit evs = Some g ->
    aget a (nodes g) = Some xa -> a < RO_BASE -> role xa = LEADER -> memb c V a xa = true.
Proof. exact TierCM3_leader_is_member_by_own_log. Qed.
Print Assumptions L1_leader_is_member_by_own_log_coreM3.

Theorem L1_premature_candidate_has_no_majority_coreM3 :
  forall (c : conf) (V : list nid) (evs : list event) (g : gstate) (a : nid) (xa : node),
    dyn c = true -> file_dump c = false -> 1 < batch c -> validM V evs = true ->
    run_okM3 c V ginit evs = true ->
    run_trace c ginit evs = Some g ->
    aget a (nodes g) = Some xa -> a < RO_BASE -> role xa = CANDIDATE -> memb c V a xa = false ->
    majority (votes xa) xa = false.
Proof. exact TierCM3_premature_candidate_has_no_majority. Qed.
Print Assumptions L1_premature_candidate_has_no_majority_coreM3.

