From Coq Require Import ZArith NArith List Bool.
From PSO Require Import Transport.Model Transport.Proofs Transport.ProofsInv Transport.ProofsThm Transport.ProofsRedial.
Import ListNotations.
Open Scope Z_scope.

Theorem C14_one_dialer :
  forall a b : Z, a <> b ->
  xorb (should_connect (Some a) b) (should_connect (Some b) a) = true.
Proof. exact one_dialer. Qed.
Print Assumptions C14_one_dialer.

Theorem C14_readonly_always_dials :
  forall b : Z, should_connect None b = true.
Proof. exact readonly_always_dials. Qed.
Print Assumptions C14_readonly_always_dials.

Theorem C14_dial_only_by_rule :
  forall st e c a ok,
  In (ODial c a ok) (snd (step st e)) -> should_connect (self_addr st) a = true.
Proof. exact dial_only_if_should. Qed.
Print Assumptions C14_dial_only_by_rule.

Theorem C14_attribution :
  forall self rt ut h st e c X m,
  exec (init self rt ut) h st ->
  In (OMessage c X m) (snd (step st e)) ->
  (exists u, ev_act e = Message c m u) /\ conn_state st c = Connected /\
  exists pre e0, In (pre, e0) h /\ registers pre e0 c X.
Proof. exact attribution. Qed.
Print Assumptions C14_attribution.

Theorem C14_attribution_every_run :
  forall self rt ut es e c X m,
  In (OMessage c X m) (snd (step (run_state (init self rt ut) es) e)) ->
  (exists u, ev_act e = Message c m u) /\
  exists pre e0, In (pre, e0) (history (init self rt ut) es []) /\ registers pre e0 c X.
Proof. exact attribution_run. Qed.
Print Assumptions C14_attribution_every_run.

Theorem C14_delivery_only_from_registered_member :
  forall self rt ut es e c X m,
  run_ok guarded (init self rt ut) es ->
  In (OMessage c X m) (snd (step (run_state (init self rt ut) es) e)) ->
  registered (run_state (init self rt ut) es) X = Some c /\
  (forall a, X = Member a -> zmem a (nodes (run_state (init self rt ut) es)) = true).
Proof. exact delivery_from_registered_member. Qed.
Print Assumptions C14_delivery_only_from_registered_member.

Theorem C14_no_delivery_after_drop :
  forall self rt ut es1 now refuse a es2 e c m,
  let es := es1 ++ mkEv now refuse (DropNode (Member a)) :: es2 in
  run_ok guarded (init self rt ut) es -> Forall (not_add a) es2 ->
  ~ In (OMessage c (Member a) m) (snd (step (run_state (init self rt ut) es) e)).
Proof. exact no_delivery_after_drop. Qed.
Print Assumptions C14_no_delivery_after_drop.

Theorem C14_no_delivery_after_drop_unguarded_refuted :
  exists self rt ut es e c a m,
  zmem a (nodes (run_state (init self rt ut) es)) = false /\
  registered (run_state (init self rt ut) es) (Member a) = None /\
  In (OMessage c (Member a) m) (snd (step (run_state (init self rt ut) es) e)).
Proof. exact double_add_refuted. Qed.
Print Assumptions C14_no_delivery_after_drop_unguarded_refuted.

Theorem C14_registry_single :
  forall self rt ut es,
  run_ok no_live_readd (init self rt ut) es ->
  forall c X, bind_of (run_state (init self rt ut) es) c = Some X ->
              conn_state (run_state (init self rt ut) es) c <> Disconnected ->
              registered (run_state (init self rt ut) es) X = Some c.
Proof. exact registry_single. Qed.
Print Assumptions C14_registry_single.

Theorem C14_registry_single_unguarded_refuted :
  exists self rt ut es c c' X,
  let st := run_state (init self rt ut) es in
  c <> c' /\ bind_of st c = Some X /\ bind_of st c' = Some X /\
  conn_state st c = Connected /\ conn_state st c' = Connected.
Proof. exact registry_single_unguarded_refuted. Qed.
Print Assumptions C14_registry_single_unguarded_refuted.

Theorem C14_unknown_rejected_partial :
  forall self rt ut es now refuse c m u,
  let st := run_state (init self rt ut) es in
  let r := step st (mkEv now refuse (Message c m u)) in
  conn_state st c = Connected -> bind_of st c = None -> rejectable st m ->
  snd r = [ODisconnect c] /\ dead (fst r) c /\ nmem c (unknown (fst r)) = false /\
  forall es' e X m', ~ In (OMessage c X m') (snd (step (run_state (fst r) es') e)).
Proof. exact unknown_rejected. Qed.
Print Assumptions C14_unknown_rejected_partial.

Theorem C14_unknown_rejected_refuted :
  exists self rt ut es now refuse c m u,
  let st := run_state (init self rt ut) es in
  conn_state st c = Connected /\ bind_of st c = None /\
  (match m with MUnhashable _ | MEmptyList => True | MList cmd => nmem cmd (utils st) = false | _ => False end) /\
  conn_state (fst (step st (mkEv now refuse (Message c m u)))) c = Connected /\
  nmem c (unknown (fst (step st (mkEv now refuse (Message c m u))))) = true /\
  In (ORaise 1) (snd (step st (mkEv now refuse (Message c m u)))).
Proof. exact unknown_rejected_refuted. Qed.
Print Assumptions C14_unknown_rejected_refuted.

Theorem C14_redial_immediate :
  forall st now refuse a c,
  reachable st ->
  registered st (Member a) = Some c -> zmem a (nodes st) = true -> should_connect (self_addr st) a = true ->
  conn_state st c <> Disconnected ->
  let r := step st (mkEv now refuse (Closed c)) in
  (throttled st a now = false ->
     snd r = [ONodeDisconnected (Member a); ODial c a (negb (zmem a refuse))] /\
     alookup Z.eqb a (last_attempt (fst r)) = Some now) /\
  (throttled st a now = true ->
     snd r = [ONodeDisconnected (Member a)] /\
     W a c (alookup Z.eqb a (last_attempt st)) (fst r)).
Proof. exact redial_immediate. Qed.
Print Assumptions C14_redial_immediate.

Theorem C14_redial_bound :
  forall st a c t es now refuse,
  reachable st -> W a c t st -> run_ok (quiet_ev a) st es ->
  (match t with None => True | Some t0 => retry st <= now - t0 end) ->
  let r := step (run_state st es) (mkEv now refuse Tick) in
  In (ODial c a (negb (zmem a refuse))) (snd r) /\
  alookup Z.eqb a (last_attempt (fst r)) = Some now /\
  (zmem a refuse = false -> conn_state (fst r) c <> Disconnected).
Proof. exact redial_bound. Qed.
Print Assumptions C14_redial_bound.

Theorem C14_send_truthful :
  forall st now refuse n m fault,
  let r := step st (mkEv now refuse (Send n m fault)) in
  (In (OSendResult true) (snd r) ->
     exists c, registered st n = Some c /\ conn_state st c = Connected /\
               registered (fst r) n = Some c /\ conn_state (fst r) c = Connected /\
               In (OSend c (PMsg m)) (snd r)) /\
  (forall c, registered st n = Some c -> conn_state st c = Connected -> fault = false ->
     r = (st, [OSend c (PMsg m); OSendResult true])) /\
  ((registered st n = None \/ exists c, registered st n = Some c /\ conn_state st c <> Connected) ->
     r = (st, [OSendResult false])).
Proof. exact send_truthful. Qed.
Print Assumptions C14_send_truthful.

Theorem C14_no_internal_assert :
  forall st e, reachable st -> ~ In (ORaise 3) (snd (step st e)).
Proof. exact no_internal_assert. Qed.
Print Assumptions C14_no_internal_assert.

Theorem C14_every_run_reachable :
  forall self rt ut es, reachable (run_state (init self rt ut) es).
Proof. exact run_reachable. Qed.
Print Assumptions C14_every_run_reachable.
