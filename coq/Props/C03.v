From Coq Require Import ZArith NArith List.
From PSO Require Import Raft.Types Raft.Node Raft.Net Raft.Obs.
From PSO Require Import Raft.ProofsElectionBase Raft.ProofsElectionStep Raft.ProofsElectionGhost.
From PSO Require Import Raft.ProofsElectionMain Raft.ProofsElectionC07.
Import ListNotations.
Open Scope N_scope.

Theorem C03_election_safety :
  forall (c : conf) (V : list nid) (evs : list event) (g : gstate),
    dyn c = false -> file_dump c = false -> valid V evs = true ->
    run_trace c ginit evs = Some g ->
    exists gh, grun c ginit gh0 evs = Some (g, gh) /\
      forall t a b, In (t, a) (wins gh) -> In (t, b) (wins gh) -> a = b.
Proof. exact election_safety_run. Qed.
Print Assumptions C03_election_safety.

Theorem C03_election_safety_ghost :
  forall (c : conf) (V : list nid) (evs : list event) (g : gstate) (gh : ghost),
    dyn c = false -> file_dump c = false -> valid V evs = true ->
    grun c ginit gh0 evs = Some (g, gh) ->
    forall t a b, In (t, a) (wins gh) -> In (t, b) (wins gh) -> a = b.
Proof. exact election_safety. Qed.
Print Assumptions C03_election_safety_ghost.

Theorem C03_win_has_quorum :
  forall (c : conf) (V : list nid) (evs : list event) (g : gstate) (gh : ghost),
    dyn c = false -> file_dump c = false -> valid V evs = true ->
    grun c ginit gh0 evs = Some (g, gh) ->
    forall t a, In (t, a) (wins gh) ->
      NoDup (voters gh t a) /\ incl (voters gh t a) V /\ (length V < 2 * length (voters gh t a))%nat.
Proof. exact win_has_quorum. Qed.
Print Assumptions C03_win_has_quorum.

Theorem C03_ghost_run_is_run_trace :
  forall (c : conf) (g : gstate) (gh : ghost) (evs : list event) (g' : gstate),
    run_trace c g evs = Some g' <-> exists gh', grun c g gh evs = Some (g', gh').
Proof. exact grun_run_trace. Qed.
Print Assumptions C03_ghost_run_is_run_trace.

Theorem C03_ghost_self_vote_is_a_vote :
  forall (e : env) (x : node),
    term x < term (nd (on_tick e x)) ->
    exists me, self x = Some me /\ voted (nd (on_tick e x)) = Some me /\
               term (nd (on_tick e x)) = term x + 1.
Proof. exact tick_votes_self. Qed.
Print Assumptions C03_ghost_self_vote_is_a_vote.

Theorem C03_majority_arith :
  forall (count : N) (n : node),
    majority count n = true <-> N.of_nat (length (others n)) + 1 < 2 * count.
Proof. exact majority_arith. Qed.
Print Assumptions C03_majority_arith.

Theorem C03_majority_arith_rational :
  forall (count : N) (n : node),
    majority count n = true <-> (Z.of_N (N.of_nat (length (others n))) + 1 < 2 * Z.of_N count)%Z.
Proof. exact majority_arith_Q. Qed.
Print Assumptions C03_majority_arith_rational.

Theorem C03_majorities_intersect :
  forall A B U : list N,
    NoDup A -> NoDup B -> incl A U -> incl B U ->
    (length U < 2 * length A)%nat -> (length U < 2 * length B)%nat ->
    exists x, In x A /\ In x B.
Proof. exact majorities_intersect. Qed.
Print Assumptions C03_majorities_intersect.

Theorem C03_example_valid_run :
  valid [1;2;3] ex_valid = true /\
  exists g gh, grun cfg_mem ginit gh0 ex_valid = Some (g, gh) /\ wins gh = [(1, 1)] /\
               In (1, 3, 1) (grants gh) /\ In (2, 2, 2) (grants gh).
Proof. exact ex_valid_ok. Qed.
Print Assumptions C03_example_valid_run.
