From Coq Require Import ZArith NArith List.
From PSO Require Import Raft.Types Raft.Node Raft.Net Raft.Obs.
From PSO Require Import Raft.ProofsElectionBase Raft.ProofsElectionStep Raft.ProofsElectionGhost.
From PSO Require Import Raft.ProofsElectionMain Raft.ProofsElectionC07.
From PSO Require Import Raft.ProofsElectionDump.
Import ListNotations.
Open Scope N_scope.

Theorem C03_election_safety :
  forall (c : conf) (V : list nid) (evs : list event) (g : gstate),
    dyn c = false -> file_dump c = false -> valid V evs = true ->
    run_trace c ginit evs = Some g ->
    exists gh, grun c ginit gh0 evs = Some (g, gh) /\
      forall t a b, In (t, a) (wins gh) -> In (t, b) (wins gh) -> a = b.
Proof. exact election_safety_run. Qed.
Print Assumptions C03_election_safety.

Theorem C03_election_safety_ghost :
  forall (c : conf) (V : list nid) (evs : list event) (g : gstate) (gh : ghost),
    dyn c = false -> file_dump c = false -> valid V evs = true ->
    grun c ginit gh0 evs = Some (g, gh) ->
    forall t a b, In (t, a) (wins gh) -> In (t, b) (wins gh) -> a = b.
Proof. exact election_safety. Qed.
Print Assumptions C03_election_safety_ghost.

Theorem C03_win_has_quorum :
  forall (c : conf) (V : list nid) (evs : list event) (g : gstate) (gh : ghost),
    dyn c = false -> file_dump c = false -> valid V evs = true ->
    grun c ginit gh0 evs = Some (g, gh) ->
    forall t a, In (t, a) (wins gh) ->
      NoDup (voters gh t a) /\ incl (voters gh t a) V /\ (length V < 2 * length (voters gh t a))%nat.
Proof. exact win_has_quorum. Qed.
Print Assumptions C03_win_has_quorum.

Theorem C03_ghost_run_is_run_trace :
  forall (c : conf) (g : gstate) (gh : ghost) (evs : list event) (g' : gstate),
    run_trace c g evs = Some g' <-> exists gh', grun c g gh evs = Some (g', gh').
Proof. exact grun_run_trace. Qed.
Print Assumptions C03_ghost_run_is_run_trace.

Theorem C03_ghost_self_vote_is_a_vote :
  forall (e : env) (x : node),
    term x < term (nd (on_tick e x)) ->
    exists me, self x = Some me /\ voted (nd (on_tick e x)) = Some me /\
               term (nd (on_tick e x)) = term x + 1.
Proof. exact tick_votes_self. Qed.
Print Assumptions C03_ghost_self_vote_is_a_vote.

Theorem C03_majority_arith :
  forall (count : N) (n : node),
    majority count n = true <-> N.of_nat (length (others n)) + 1 < 2 * count.
Proof. exact majority_arith. Qed.
Print Assumptions C03_majority_arith.

Theorem C03_majority_arith_rational :
  forall (count : N) (n : node),
    majority count n = true <-> (Z.of_N (N.of_nat (length (others n))) + 1 < 2 * Z.of_N count)%Z.
Proof. exact majority_arith_Q. Qed.
Print Assumptions C03_majority_arith_rational.

Theorem C03_majorities_intersect :
  forall A B U : list N,
    NoDup A -> NoDup B -> incl A U -> incl B U ->
    (length U < 2 * length A)%nat -> (length U < 2 * length B)%nat ->
    exists x, In x A /\ In x B.
Proof. exact majorities_intersect. Qed.
Print Assumptions C03_majorities_intersect.

Theorem C03_example_valid_run :
  valid [1;2;3] ex_valid = true /\
  exists g gh, grun cfg_mem ginit gh0 ex_valid = Some (g, gh) /\ wins gh = [(1, 1)] /\
               In (1, 3, 1) (grants gh) /\ In (2, 2, 2) (grants gh).
Proof. exact ex_valid_ok. Qed.
Print Assumptions C03_example_valid_run.

(* ---- with a dump file configured ----
   dump_ok c ginit evs: on every ETick of the run, a node that is about to load its dump file
   (need_load and file_dump c) has nothing stored; with file_dump c = false it is always true
   (C03_dump_condition_void_without_dump_file), so the three theorems below contain the ones above *)
Theorem C03_election_safety_dump :
  forall (c : conf) (V : list nid) (evs : list event) (g : gstate),
    dyn c = false -> dump_ok c ginit evs = true -> valid V evs = true ->
    run_trace c ginit evs = Some g ->
    exists gh, grun c ginit gh0 evs = Some (g, gh) /\
      forall t a b, In (t, a) (wins gh) -> In (t, b) (wins gh) -> a = b.
Proof. exact election_safety_run_dump. Qed.
Print Assumptions C03_election_safety_dump.

Theorem C03_election_safety_ghost_dump :
  forall (c : conf) (V : list nid) (evs : list event) (g : gstate) (gh : ghost),
    dyn c = false -> dump_ok c ginit evs = true -> valid V evs = true ->
    grun c ginit gh0 evs = Some (g, gh) ->
    forall t a b, In (t, a) (wins gh) -> In (t, b) (wins gh) -> a = b.
Proof. exact election_safety_dump. Qed.
Print Assumptions C03_election_safety_ghost_dump.

Theorem C03_win_has_quorum_dump :
  forall (c : conf) (V : list nid) (evs : list event) (g : gstate) (gh : ghost),
    dyn c = false -> dump_ok c ginit evs = true -> valid V evs = true ->
    grun c ginit gh0 evs = Some (g, gh) ->
    forall t a, In (t, a) (wins gh) ->
      NoDup (voters gh t a) /\ incl (voters gh t a) V /\ (length V < 2 * length (voters gh t a))%nat.
Proof. exact win_has_quorum_dump. Qed.
Print Assumptions C03_win_has_quorum_dump.

Theorem C03_dump_condition_void_without_dump_file :
  forall (c : conf) (evs : list event), file_dump c = false -> forall g : gstate, dump_ok c g evs = true.
Proof. exact dump_ok_static. Qed.
Print Assumptions C03_dump_condition_void_without_dump_file.

(* the Tier C4 fragment of the refinement (run_ok4) implies the condition *)
Theorem C03_dump_condition_from_tier_c4 :
  forall (c : conf) (evs : list event) (g : gstate),
    Refine4Main.run_ok4 c g evs = true -> dump_ok c g evs = true.
Proof. exact run_ok4_dump_ok. Qed.
Print Assumptions C03_dump_condition_from_tier_c4.

(* a run with file_dump = true that meets the hypotheses (run D of the Tier C4 examples) ... *)
Theorem C03_example_dump_run :
  file_dump Refine4Example.t4_confD = true /\ dyn Refine4Example.t4_confD = false /\
  valid Refine4Example.t4_V Refine4Example.t4_traceD = true /\
  dump_ok Refine4Example.t4_confD ginit Refine4Example.t4_traceD = true /\
  exists g gh, grun Refine4Example.t4_confD ginit gh0 Refine4Example.t4_traceD = Some (g, gh) /\
               wins gh = [(1, 1)] /\ In (1, 3, 1) (grants gh).
Proof. exact dump_run_example. Qed.
Print Assumptions C03_example_dump_run.

(* ... and one that does not: voter 2 ticks for the first time after it has installed a snapshot *)
Theorem C03_example_dump_condition_violated :
  dump_ok Refine4Example.t4_confD ginit Refine4Example.t4_traceA = false.
Proof. exact dump_run_violation. Qed.
Print Assumptions C03_example_dump_condition_violated.
