From Coq Require Import ZArith NArith List Bool.
From RecordUpdate Require Import RecordSet.
From PSO Require Import Raft.Types Raft.Node Raft.Net Raft.Obs Raft.ProofsCommitBase Raft.ProofsCommit Raft.ProofsMembership Raft.ProofsCommitLog Raft.ProofsMembershipInv Raft.ProofsCommitGlobal Raft.ProofsCommitExamples Raft.ProofsMembershipSnap Raft.ProofsMembershipExamples.
Import ListNotations.
Import RecordSetNotations.
Open Scope N_scope.

(* the leader appends a MEMBERSHIP command only when it has applied the no-op of its own term and no
   earlier change is unapplied (and the change is effective); it then remembers the new index and
   applies the change; otherwise it answers REQUEST_DENIED and appends nothing *)
Theorem C10_gate :
  forall (e : env) (c : cmd) (cbk : cbref) (s : S) (a : bool) (x : nid),
  dyn (cf e) = true -> role (nd s) = LEADER -> membership_of c = Some (a, x) ->
  let n := nd s in
  let s' := check_one e c cbk s in
  let idx := last_idx (log n) + 1 in
  (gate_open n /\ effective (self n) (others n) (a, x) = true /\
   log (nd s') = log n ++ [mkEntry c idx (term n)] /\
   change_idx (nd s') = Some idx /\
   others (nd s') = step_member (self n) (others n) (a, x))
  \/
  ((~ gate_open n \/ effective (self n) (others n) (a, x) = false) /\
   exists s0, gate_state s s0 /\ s' = denied_out cbk s0).
Proof. exact gate. Qed.
Print Assumptions C10_gate.

(* every state a node can reach through its handlers (well-formed deliveries): among the entries a
   leader appended in its current term at most one membership entry is unapplied *)
Theorem C10_one_pending_change :
  forall (c : conf) (n : node),
  dyn c = true -> nreach c n -> role n = LEADER ->
  exists i, noop_idx n = Some i /\
    forall e1 e2, In e1 (log n) -> In e2 (log n) -> is_mem e1 = true -> is_mem e2 = true ->
                  i < eidx e1 -> i < eidx e2 -> applied n < eidx e1 -> applied n < eidx e2 -> e1 = e2.
Proof. exact one_pending_change. Qed.
Print Assumptions C10_one_pending_change.

(* when the gate is open no membership entry of the whole log is unapplied *)
Theorem C10_gate_open_no_pending :
  forall (c : conf) (n : node),
  dyn c = true -> nreach c n -> role n = LEADER -> gate_open n ->
  forall en, In en (log n) -> is_mem en = true ->
    eidx en <= applied n \/ (exists i, noop_idx n = Some i /\ eidx en <= i /\ i <= applied n).
Proof. exact gate_open_no_pending. Qed.
Print Assumptions C10_gate_open_no_pending.

(* follower: an accepted append_entries undoes (in reverse) the membership entries it cuts and
   applies (in order) those it appends; the member set stays the fold of the log when the cut
   entries were effective (or named this node) when they were applied *)
Theorem C10_members_follow_log_append :
  forall (e : env) (from : nid) (c pidx pterm : N) (new : list entry) (s : S) (p0 : entry)
         (ptail : list entry) (base : list nid),
  dyn (cf e) = true ->
  get_entries (log (nd s)) (Some pidx) None None = p0 :: ptail -> eterm p0 = pterm ->
  let n := nd s in
  let me := self n in
  let m := matched_prefix ptail new in
  let rest := skipn m ptail in
  let add := skipn m new in
  let kept := delete_from (log n) (pidx + 1 + N.of_nat m) in
  let n' := nd (ae_regular e from c (Some (pidx, pterm)) new s) in
  ssorted base ->
  others n = fold_members base (log n) me ->
  (truncating rest add = true -> all_undo_ok me (fold_members base kept me) (mem_ops rest) = true) ->
  log n = kept ++ rest /\
  log n' = (if truncating rest add then kept else log n) ++ add /\
  others n' = fold_members base (log n') me.
Proof. exact members_follow_log_append. Qed.
Print Assumptions C10_members_follow_log_append.

(* leader: the change is applied when the entry is appended *)
Theorem C10_members_follow_log_leader :
  forall (e : env) (c : cmd) (cbk : cbref) (s : S) (a : bool) (x : nid) (base : list nid),
  dyn (cf e) = true -> role (nd s) = LEADER -> membership_of c = Some (a, x) ->
  let n := nd s in
  let n' := nd (check_one e c cbk s) in
  others n = fold_members base (log n) (self n) ->
  others n' = fold_members base (log n') (self n).
Proof. exact members_follow_log_leader. Qed.
Print Assumptions C10_members_follow_log_leader.

(* for one command the side condition is exact *)
Theorem C10_undo_one_exact :
  forall (me : option nid) (l : list nid) (o : mop),
  ssorted l ->
  (step_member me (step_member me l o) (flip_op o) = l <-> undo_ok me l o = true).
Proof. exact undo_one_exact. Qed.
Print Assumptions C10_undo_one_exact.

(* without it the undo is not exact: `add x` for a present x is a no-op whose reversal removes x *)
Theorem C10_undo_not_exact_refuted :
  exists (s : S) (es : list entry),
    ssorted (others (nd s)) /\
    others (nd (apply_membership true (rev es) (apply_membership false es s))) <> others (nd s).
Proof. exact undo_not_exact_refuted. Qed.
Print Assumptions C10_undo_not_exact_refuted.

Theorem C10_undo_not_exact_refuted_msgs :
  let n1 := nd (on_message refute_env 2 refute_msg1 refute_node) in
  let n2 := nd (on_message refute_env 3 refute_msg2 n1) in
  others refute_node = fold_members [2; 3] (log refute_node) (Some 1) /\
  others n1 = fold_members [2; 3] (log n1) (Some 1) /\
  mem_ops (log n2) = [] /\
  others n2 = [2] /\ others n2 <> fold_members [2; 3] (log n2) (Some 1).
Proof. exact undo_not_exact_refuted_msgs. Qed.
Print Assumptions C10_undo_not_exact_refuted_msgs.

(* apply path (D20 repair): a node that is not replaying a journal never changes its member set by
   applying committed entries *)
Theorem C10_apply_does_not_reapply_local :
  forall (e : env) (s : S),
  replay_idx (nd s) <= applied (nd s) ->
  others (nd (fst (apply_entries e s))) = others (nd s) /\
  replay_idx (nd (fst (apply_entries e s))) <= applied (nd (fst (apply_entries e s))).
Proof. exact apply_does_not_reapply. Qed.
Print Assumptions C10_apply_does_not_reapply_local.

(* ... in particular in every state of a node started fresh *)
Theorem C10_apply_does_not_reapply :
  forall (c : conf) (n : node) (e : env) (s : S),
  freach c n -> nd s = n -> others (nd (fst (apply_entries e s))) = others n.
Proof. exact apply_does_not_reapply_fresh. Qed.
Print Assumptions C10_apply_does_not_reapply.

(* a removed node keeps no state in the leader ... *)
Theorem C10_removed_has_no_state :
  forall (x : nid) (s : S),
  ssorted (others (nd s)) -> asorted (next_idx (nd s)) -> asorted (match_idx (nd s)) ->
  ssorted (tconn (nd s)) ->
  snd (do_change_cluster false x false s) = true ->
  let s' := fst (do_change_cluster false x false s) in
  smem x (others (nd s')) = false /\
  aget x (next_idx (nd s')) = None /\ aget x (match_idx (nd s')) = None /\
  smem x (tconn (nd s')) = false /\
  outs s' = outs s ++ [TDrop x].
Proof. exact removed_has_no_state. Qed.
Print Assumptions C10_removed_has_no_state.

(* ... and the commit count, the fallback count and the election majority do not depend on
   anything stored under its id *)
Theorem C10_removed_cannot_count :
  forall (x : nid) (s : S),
  ssorted (others (nd s)) ->
  snd (do_change_cluster false x false s) = true ->
  let n' := nd (fst (do_change_cluster false x false s)) in
  ~ In x (others n') /\
  (forall ci (m2 : list (nid * N)),
     (forall y, y <> x -> aget y m2 = aget y (match_idx n')) ->
     match_count ci (n' <| match_idx := m2 |>) = match_count ci n' /\
     slot_missing (n' <| match_idx := m2 |>) = slot_missing n') /\
  (forall dl (r2 : list (nid * Z)),
     (forall y, y <> x -> aget y r2 = aget y (last_resp n')) ->
     resp_count dl (n' <| last_resp := r2 |>) = resp_count dl n') /\
  (forall cnt, majority cnt n' = (N.of_nat (length (others n')) + 1 <? 2 * cnt)).
Proof. exact removed_cannot_count. Qed.
Print Assumptions C10_removed_cannot_count.

Theorem C10_commit_loop_members :
  forall (f : nat) (ci nx : N) (s1 s2 : S),
  others (nd s1) = others (nd s2) -> log (nd s1) = log (nd s2) -> term (nd s1) = term (nd s2) ->
  (forall y, In y (others (nd s1)) -> aget y (match_idx (nd s1)) = aget y (match_idx (nd s2))) ->
  snd (commit_loop f ci nx s1) = snd (commit_loop f ci nx s2) /\
  ((exc (fst (commit_loop f ci nx s1)) = exc s1 /\ exc (fst (commit_loop f ci nx s2)) = exc s2) \/
   (exc (fst (commit_loop f ci nx s1)) = EXC_KEY /\ exc (fst (commit_loop f ci nx s2)) = EXC_KEY)).
Proof. exact commit_loop_members. Qed.
Print Assumptions C10_commit_loop_members.

(* what the model does with messages from a non-member *)
Theorem C10_response_vote_sender_irrelevant :
  forall (e : env) (f1 f2 : nid) (t : N) (n : node),
  on_message e f1 (ResponseVote t) n = on_message e f2 (ResponseVote t) n.
Proof. exact response_vote_sender_irrelevant. Qed.
Print Assumptions C10_response_vote_sender_irrelevant.

Theorem C10_next_idx_without_slot_raises :
  forall (e : env) (from : nid) (nx : N) (r : bool) (n : node),
  role n = LEADER -> aget from (match_idx n) = None ->
  exc (on_message e from (NextIdx (term n) nx r true) n) = EXC_KEY.
Proof. exact next_idx_without_slot_raises. Qed.
Print Assumptions C10_next_idx_without_slot_raises.

(* majorities of two member lists that differ by one id share an element *)
Theorem C10_single_change_majorities_intersect :
  forall (A B qa qb : list nid),
  NoDup A -> NoDup B -> single_change A B ->
  is_majority_of qa A -> is_majority_of qb B ->
  exists y, In y qa /\ In y qb.
Proof. exact single_change_majorities_intersect. Qed.
Print Assumptions C10_single_change_majorities_intersect.

(* the same over all reachable global states: every schedule, every fault sequence, every
   configuration with dynamic membership (restarts with a sorted member list) *)
Theorem C10_nodes_reachable :
  forall (c : conf) (evs : list event) (g : gstate),
  Forall ev_ok evs -> run_trace c ginit evs = Some g ->
  forall p, In p (nodes g) -> nreach c (snd p).
Proof. exact reachable_nreach. Qed.
Print Assumptions C10_nodes_reachable.

Theorem C10_one_pending_change_reachable :
  forall (c : conf) (evs : list event) (g : gstate) (x : nid) (n : node),
  dyn c = true -> Forall ev_ok evs -> run_trace c ginit evs = Some g ->
  aget x (nodes g) = Some n -> role n = LEADER ->
  exists i, noop_idx n = Some i /\
    forall e1 e2, In e1 (log n) -> In e2 (log n) -> is_mem e1 = true -> is_mem e2 = true ->
                  i < eidx e1 -> i < eidx e2 -> applied n < eidx e1 -> applied n < eidx e2 -> e1 = e2.
Proof. exact one_pending_change_global. Qed.
Print Assumptions C10_one_pending_change_reachable.

(* memory-only clusters: applying committed entries never changes a member set *)
Theorem C10_apply_does_not_reapply_reachable :
  forall (c : conf) (evs : list event) (g : gstate) (x : nid) (n : node) (e : env) (s : S),
  file_journal c = false -> Forall ev_ok evs -> run_trace c ginit evs = Some g ->
  aget x (nodes g) = Some n -> nd s = n ->
  others (nd (fst (apply_entries e s))) = others n.
Proof. exact apply_does_not_reapply_global. Qed.
Print Assumptions C10_apply_does_not_reapply_reachable.

(* observation (reachable, 73 events, reproduced on the implementation; refusals are allowed by the
   property text): the pending-change
   marker survives a lost leadership; a re-elected leader that has applied its own no-op and whose log
   holds no membership entry refuses an effective `add 4` with REQUEST_DENIED *)
Theorem C10_stale_pending_marker_refuted :
  let n := node_of 1 g_stale in
  let s' := on_tick (tick_env 922) n in
  dyn xc = true /\ Forall ev_ok stale_trace /\ run_trace xc ginit stale_trace = Some g_stale /\
  aget 1 (nodes g_stale) = Some n /\
  role n = LEADER /\ term n = 3 /\ noop_idx n = Some 4 /\ applied n = 4 /\
  forallb (fun en => negb (is_mem en)) (log n) = true /\
  queue n = [(add4, CbLocal 9)] /\ effective (self n) (others n) (true, 4) = true /\
  change_idx n = Some 10 /\
  In (Fired 9 0 REQUEST_DENIED) (outs s') /\ log (nd s') = log n /\ others (nd s') = others n.
Proof. exact stale_pending_marker_refuted. Qed.
Print Assumptions C10_stale_pending_marker_refuted.

(* finding 2 is repaired in the code: the snapshot stores the member set defined by the membership
   commands up to its position (the entries behind lastApplied are undone, latest first); the side
   condition is the undo-exactness one of C10_members_follow_log_append *)
Theorem C10_snapshot_members :
  forall (e : env) (s : S) (base : list nid),
  let n := nd s in
  let me := self n in
  let lo := upto (applied n) (log n) in
  let hi := get_entries (log n) (Some (applied n + 1)) None None in
  pid (sr (nd (try_compact e s))) = 1 ->
  consec (log n) -> ssorted base ->
  others n = fold_members base (log n) me ->
  all_undo_ok me (fold_members base lo me) (mem_ops hi) = true ->
  log n = lo ++ hi /\
  exists sn, stored (sr (nd (try_compact e s))) = Some (Good sn) /\
             s_cluster sn = with_self me (fold_members base lo me).
Proof. exact snapshot_members. Qed.
Print Assumptions C10_snapshot_members.

(* on the trace that exhibited the defect (67 events) all nodes now end with the members {1,2,3} *)
Theorem C10_snapshot_members_trace :
  dyn xc = true /\ Forall ev_ok snap_trace /\ run_trace xc ginit snap_trace = Some g_snap /\
  map fst (nodes g_snap) = [1; 2; 3] /\
  no_membership (node_of 1 g_snap) = true /\ no_membership (node_of 2 g_snap) = true /\
  no_membership (node_of 3 g_snap) = true /\
  map eidx (log (node_of 3 g_snap)) = [2; 3; 4] /\ map eterm (log (node_of 3 g_snap)) = [1; 1; 2] /\
  map eterm (log (node_of 1 g_snap)) = [1; 1; 2] /\
  role (node_of 2 g_snap) = LEADER /\ commit (node_of 2 g_snap) = 4 /\
  others (node_of 1 g_snap) = [2; 3] /\ others (node_of 2 g_snap) = [1; 3] /\
  others (node_of 3 g_snap) = [1; 2].
Proof. exact snapshot_members_trace. Qed.
Print Assumptions C10_snapshot_members_trace.

(* the member set after the install of a received snapshot: the snapshot's member set without this
   node and, when the log's suffix is kept, the kept membership entries behind the snapshot's
   position applied on top of it in order *)
Theorem C10_install_members :
  forall (e : env) (from : nid) (t c : N) (p : snap_part) (n : node) (sn : snapshot),
  term n <= t -> recv_snapshot p (sr n) = Some (Good sn) ->
  s_ver sn <= self_ver n -> applied n < eidx (s_e1 sn) ->
  let n' := nd (on_message e from (AESnap t c p) n) in
  let base := filter (fun x => negb (self_is x n)) (s_cluster sn) in
  others n' =
    (if dyn (cf e)
     then if snap_kept sn (log n)
          then fold_left (step_member (self n))
                 (mem_ops (get_entries (log n') (Some (eidx (s_e1 sn) + 1)) None None)) base
          else base
     else others n).
Proof. exact install_members. Qed.
Print Assumptions C10_install_members.
