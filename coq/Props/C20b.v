From Coq Require Import ZArith NArith List Bool.
From PSO Require Import Raft.Types Raft.Node Raft.Net Raft.Obs.
From PSO Require Import Raft.ProofsElectionGhost Raft.Refine5Main.
From PSO Require Import Raft.ProofsReadonlyFrames Raft.ProofsReadonlyB Raft.ProofsReadonlyFinal.
From PSO Require Import Raft.ProofsFallbackA Raft.ProofsFallbackB Raft.ProofsFallbackC Raft.ProofsFallbackFinal.
From PSO Require Import Raft.ProofsFallbackSlotsGlobal Raft.ProofsFallbackSuccess Raft.ProofsFallbackSuccessGlobal.
From PSO Require Import Raft.ProofsFallback5.
Import ListNotations.
Open Scope N_scope.

(* C20_leader_bounds and C20_no_success_when_cut_full of Props/C20.v over the Tier C5 fragment: hypotheses
   exactly as in Props/TierC5.v (dyn = false, 1 < batch, valid V evs, run_ok5) in place of tierC3_run. *)

(* the two invariants: a leader's commit index and its matchIndex never exceed its own last index *)
Theorem C20_leader_bounds_core5 :
  forall (c : conf) (V : list nid) (evs : list event) (g : gstate) (L : nid) (xL : node),
  dyn c = false -> 1 < batch c -> valid V evs = true -> run_ok5 c ginit evs = true ->
  run_trace c ginit evs = Some g -> aget L (nodes g) = Some xL -> role xL = LEADER ->
  commit xL <= last_idx (log xL) /\
  forall x m, In x (others xL) -> aget x (match_idx xL) = Some m -> m <= last_idx (log xL).
Proof. exact leader_bounds_core5. Qed.
Print Assumptions C20_leader_bounds_core5.

(* a cut-off leader acknowledges nothing registered beyond the last index its log had at the cut, i.e.
   nothing submitted to it after the cut *)
Theorem C20_no_success_when_cut_full_core5 : forall c V evs0 g0 L n0 evs,
  (0 <= period c)%Z ->
  dyn c = false -> 1 < batch c -> valid V evs0 = true -> run_ok5 c ginit evs0 = true ->
  Forall slot_valid evs0 -> run_trace c ginit evs0 = Some g0 ->
  aget L (nodes g0) = Some n0 -> role n0 = LEADER -> others n0 <> [] ->
  Forall ProofsCommitGlobal.ev_ok evs ->
  steps_sat (cut_quiet L) c g0 evs ->
  steps_sat (success_below L (last_idx (log n0))) c g0 evs.
Proof. exact no_success_when_cut_full_core5. Qed.
Print Assumptions C20_no_success_when_cut_full_core5.
