From Coq Require Import ZArith NArith List Bool.
From RecordUpdate Require Import RecordSet.
From PSO Require Import Raft.Types Raft.Node Raft.Net Raft.Obs Raft.ProofsSnapshotBase Raft.ProofsSnapshot Raft.ProofsSnapshotChunks Raft.ProofsDisk Raft.ProofsProgress Raft.ProofsProgressBackoff Raft.ProofsProgressExamples Raft.ProofsProgressBurst.
Import ListNotations.
Import RecordSetNotations.
Open Scope N_scope.

Theorem C05_backoff_converges : forall (e : env) (lid fid : nid) (T : N) (L : list entry),
  dyn (cf e) = false -> 1 <= batch (cf e) -> no_big e L -> log_wf L ->
  forall next preL C restL preF restF nl nf,
  binv lid fid T L next preL C restL preF restF nl nf ->
  exists k restF', (k <= N.to_nat (mu next C restL))%nat /\
    forall j, (k <= j)%nat ->
      let st := rounds j e lid fid (nl, nf) in
      log (fst st) = L /\ log (snd st) = preF ++ (C ++ restL) ++ restF' /\
      aget fid (next_idx (fst st)) = Some (last_idx L + 1) /\
      exists m1, aget fid (match_idx (fst (round e lid fid st))) = Some m1 /\ last_idx L <= m1.
Proof. exact backoff_converges. Qed.
Print Assumptions C05_backoff_converges.

Theorem C05_backoff_measure_bound : forall (e : env) (lid fid : nid) (T : N) (L : list entry),
  dyn (cf e) = false -> 1 <= batch (cf e) -> log_wf L ->
  forall next preL C restL preF restF nl nf,
  binv lid fid T L next preL C restL preF restF nl nf -> mu next C restL <= 2 * (last_idx L - last_idx C).
Proof. exact mu_bound. Qed.
Print Assumptions C05_backoff_measure_bound.

Theorem C05_backoff_round_missing : forall (e : env) (lid fid : nid) (T : N) (L : list entry),
  dyn (cf e) = false -> 1 <= batch (cf e) -> no_big e L -> log_wf L ->
  forall next preL C restL preF restF nl nf,
  binv lid fid T L next preL C restL preF restF nl nf ->
  last_idx (log nf) < next - 1 ->
  let st := round e lid fid (nl, nf) in
  binv lid fid T L (last_idx (log nf) + 1) preL C restL preF restF (fst st) (snd st) /\ log (snd st) = log nf.
Proof. exact round_missing. Qed.
Print Assumptions C05_backoff_round_missing.

Theorem C05_backoff_round_mismatch : forall (e : env) (lid fid : nid) (T : N) (L : list entry),
  dyn (cf e) = false -> 1 <= batch (cf e) -> no_big e L -> log_wf L ->
  forall next preL C restL preF restF nl nf,
  binv lid fid T L next preL C restL preF restF nl nf ->
  last_idx C < next - 1 -> next - 1 <= last_idx (log nf) ->
  let st := round e lid fid (nl, nf) in
  binv lid fid T L (next - 1) preL C restL preF restF (fst st) (snd st) /\ log (snd st) = log nf.
Proof. exact round_mismatch. Qed.
Print Assumptions C05_backoff_round_mismatch.

Theorem C05_queue_drains : forall e s,
  (0 < period (cf e))%Z -> exc s = 0 -> calm e s ->
  (leader (nd s) <> None \/ wait_leader (cf e) = false) ->
  check_commands e s = fold_left (pop_check e) (queue (nd s)) s /\
  queue (nd (check_commands e s)) = [] /\ exc (check_commands e s) = 0.
Proof. exact queue_drains. Qed.
Print Assumptions C05_queue_drains.

Theorem C05_queue_outcome : forall e c cbk s, calm e s ->
  let s' := check_one e c cbk s in
  (role (nd s) = LEADER /\
     (log (nd s') = log (nd s) ++ [mkEntry c (last_idx (log (nd s)) + 1) (term (nd s))] \/
      (log (nd s') = log (nd s) /\ dyn (cf e) = true /\ membership_of c <> None /\
       match cbk with
       | CbLocal id => In (Fired id 0 REQUEST_DENIED) (outs s')
       | CbRemote rn rid => smem rn (tconn (nd s')) = true ->
                            In (Send rn (ApplyResp rid false REQUEST_DENIED 0)) (outs s')
       | CbNone => True
       end))) \/
  (role (nd s) <> LEADER /\ log (nd s') = log (nd s) /\
     match leader (nd s) with
     | Some l =>
       match cbk with
       | CbRemote rn rid => smem rn (tconn (nd s)) = true ->
                            In (Send rn (ApplyResp rid false NOT_LEADER 0)) (outs s')
       | CbLocal id => aget (local_ctr (nd s) + 1) (wait_reply (nd s')) = Some cbk /\
                       (smem l (tconn (nd s)) = true ->
                        In (Send l (ApplyCmd c (Some (local_ctr (nd s) + 1)))) (outs s'))
       | CbNone => smem l (tconn (nd s)) = true -> In (Send l (ApplyCmd c None)) (outs s')
       end
     | None =>
       match cbk with
       | CbRemote rn rid => smem rn (tconn (nd s)) = true ->
                            In (Send rn (ApplyResp rid false MISSING_LEADER 0)) (outs s')
       | CbLocal id => In (Fired id 0 MISSING_LEADER) (outs s')
       | CbNone => True
       end
     end).
Proof. exact check_one_outcome. Qed.
Print Assumptions C05_queue_outcome.

Theorem C05_queue_waits_for_leader : forall e s,
  leader (nd s) = None -> wait_leader (cf e) = true -> check_commands e s = s.
Proof. exact queue_waits_for_leader. Qed.
Print Assumptions C05_queue_waits_for_leader.

Theorem C05_send_loop_fuel : forall e s, exc s <> EXC_FUEL -> exc (send_ae e s) <> EXC_FUEL.
Proof. exact send_loop_fuel. Qed.
Print Assumptions C05_send_loop_fuel.

Theorem C05_snapshot_transfer_completes : forall e x sl sf b,
  1 <= chunk (cf e) -> pid (sr (nd sl)) = 0 -> asorted (trans (sr (nd sl))) ->
  stored (sr (nd sl)) = Some b -> aget x (trans (sr (nd sl))) = None ->
  snap_ahead b (applied (nd sf)) = true ->
  let n := N.to_nat (nchunks (blob_len b) (chunk (cf e))) in
  let pieces := snd (sender_run (Datatypes.S n) e x sl) in
  let r := recv_run pieces sf in
  length pieces = Datatypes.S n /\
  stored (sr (nd (fst r))) = Some b /\ incoming (sr (nd (fst r))) = None /\
  snd r = repeat false n ++ [true] /\
  aget x (trans (sr (nd (fst (sender_run (Datatypes.S n) e x sl))))) = None.
Proof. exact snapshot_transfer_completes. Qed.
Print Assumptions C05_snapshot_transfer_completes.

Theorem C05_backoff_round_accept : forall (e : env) (lid fid : nid) (T : N) (L : list entry),
  dyn (cf e) = false -> 1 <= batch (cf e) -> no_big e L -> log_wf L ->
  forall preL C restL preF restF nl nf,
  binv lid fid T L (last_idx C + 1) preL C restL preF restF nl nf ->
  let st := round e lid fid (nl, nf) in
  exists k, (k <= length restL)%nat /\ (restL <> [] -> (1 <= k)%nat) /\
    binv lid fid T L (last_idx (C ++ firstn k restL) + 1) preL (C ++ firstn k restL) (skipn k restL) preF
         (match k with O => restF | _ => [] end) (fst st) (snd st) /\
    exists m1, aget fid (match_idx (fst st)) = Some m1 /\ last_idx (C ++ firstn k restL) <= m1.
Proof. exact round_accept. Qed.
Print Assumptions C05_backoff_round_accept.

Theorem C05_burst_converges : forall (e : env) (lid fid : nid) (T : N) (L : list entry),
  dyn (cf e) = false -> 1 <= batch (cf e) -> no_big e L -> log_wf L ->
  (0 <= period (cf e))%Z -> N.of_nat (length L) <= budget e ->
  forall next preL C restL preF restF nl nf,
  binv lid fid T L next preL C restL preF restF nl nf ->
  exists k restF', (k <= N.to_nat (mu_full next C restL))%nat /\
    forall j, (k <= j)%nat ->
      let st := rounds_full j e lid fid (nl, nf) in
      log (fst st) = L /\ log (snd st) = preF ++ (C ++ restL) ++ restF' /\
      aget fid (next_idx (fst st)) = Some (last_idx L + 1) /\
      exists m1, aget fid (match_idx (fst (round_full e lid fid st))) = Some m1 /\ last_idx L <= m1.
Proof. exact burst_converges. Qed.
Print Assumptions C05_burst_converges.

Theorem C05_burst_measure_bound : forall (lid fid : nid) (T : N) (L : list entry),
  forall next preL C restL preF restF nl nf,
  binv lid fid T L next preL C restL preF restF nl nf ->
  mu_full next C restL <= last_idx L - last_idx C + 1.
Proof. exact mu_full_bound. Qed.
Print Assumptions C05_burst_measure_bound.

Theorem C05_burst_round_missing : forall (e : env) (lid fid : nid) (T : N) (L : list entry),
  dyn (cf e) = false -> 1 <= batch (cf e) -> no_big e L -> log_wf L ->
  (0 <= period (cf e))%Z -> N.of_nat (length L) <= budget e ->
  forall next preL C restL preF restF nl nf,
  binv lid fid T L next preL C restL preF restF nl nf ->
  last_idx (log nf) < next - 1 ->
  let st := round_full e lid fid (nl, nf) in
  binv lid fid T L (last_idx (log nf) + 1) preL C restL preF restF (fst st) (snd st) /\ log (snd st) = log nf.
Proof. exact round_full_missing. Qed.
Print Assumptions C05_burst_round_missing.

Theorem C05_burst_round_mismatch : forall (e : env) (lid fid : nid) (T : N) (L : list entry),
  dyn (cf e) = false -> 1 <= batch (cf e) -> no_big e L -> log_wf L ->
  (0 <= period (cf e))%Z -> N.of_nat (length L) <= budget e ->
  forall next preL C restL preF restF nl nf,
  binv lid fid T L next preL C restL preF restF nl nf ->
  last_idx C < next - 1 -> next - 1 <= last_idx (log nf) ->
  let st := round_full e lid fid (nl, nf) in
  binv lid fid T L (next - 1) preL C restL preF restF (fst st) (snd st) /\ log (snd st) = log nf.
Proof. exact round_full_mismatch. Qed.
Print Assumptions C05_burst_round_mismatch.

Theorem C05_burst_round_accept : forall (e : env) (lid fid : nid) (T : N) (L : list entry),
  dyn (cf e) = false -> 1 <= batch (cf e) -> no_big e L -> log_wf L ->
  (0 <= period (cf e))%Z -> N.of_nat (length L) <= budget e ->
  forall preL C restL preF restF nl nf,
  binv lid fid T L (last_idx C + 1) preL C restL preF restF nl nf ->
  let st := round_full e lid fid (nl, nf) in
  binv lid fid T L (last_idx L + 1) preL (C ++ restL) [] preF (match restL with [] => restF | _ => [] end)
       (fst st) (snd st) /\
  exists m1, aget fid (match_idx (fst st)) = Some m1 /\ last_idx L <= m1.
Proof. exact round_full_accept. Qed.
Print Assumptions C05_burst_round_accept.

Theorem C05_burst_is_send_ae : forall (e : env) (x : nid) (n : node),
  targets e n = [x] -> smem x (connected n) = true -> send_ae e (start_S e n) = burst e x n.
Proof. exact send_ae_single. Qed.
Print Assumptions C05_burst_is_send_ae.

Theorem C05_burst_old_rule_livelock :
  aget 2 (next_idx nlb) = Some 5 /\
  aget 2 (next_idx (fst (round_full_old eb 1 2 (nlb, nfb)))) = Some 5 /\
  log (snd (round_full_old eb 1 2 (nlb, nfb))) = Fb /\
  round_full_old eb 1 2 (round_full_old eb 1 2 (nlb, nfb)) = round_full_old eb 1 2 (nlb, nfb) /\
  aget 2 (next_idx (fst (round_full eb 1 2 (nlb, nfb)))) = Some 4 /\
  log (snd (rounds_full 2 eb 1 2 (nlb, nfb))) = Lb /\
  aget 2 (next_idx (fst (rounds_full 2 eb 1 2 (nlb, nfb)))) = Some 10 /\
  aget 2 (match_idx (fst (rounds_full 2 eb 1 2 (nlb, nfb)))) = Some 9.
Proof. exact burst_old_rule_livelock. Qed.
Print Assumptions C05_burst_old_rule_livelock.

Theorem C05_burst_old_rule_livelock_forever : forall k,
  aget 2 (next_idx (fst (rounds_full_old k eb 1 2 (nlb, nfb)))) = Some 5 /\
  log (snd (rounds_full_old k eb 1 2 (nlb, nfb))) = Fb.
Proof. exact burst_old_rule_livelock_forever. Qed.
Print Assumptions C05_burst_old_rule_livelock_forever.
