(* C13, the event loop side: "never an exception escaping the event loop" for the poller that dispatches the
   connections' handlers (model Poller/Model.v of pysyncobj/poller.py, tied by props/c13.py). *)
From Coq Require Import NArith List Bool.
From PSO Require Import Poller.Model Poller.Proofs.
Import ListNotations.
Open Scope N_scope.

(* for both poller types, any callbacks that subscribe / unsubscribe descriptors while a round is dispatched, any
   readiness, any run from the empty poller: no round raises *)
Theorem C13_poll_never_raises : forall k scripts es,
  Forall (fun o => exc o = false) (snd (run k New scripts empty es)).
Proof. exact poll_never_raises. Qed.
Print Assumptions C13_poll_never_raises.

(* SelectPoller: once a descriptor is unsubscribed (and no callback subscribes it again) the round does not dispatch it *)
Theorem C13_select_unsubscribed_not_dispatched : forall f scripts rd order p,
  no_sub_of f scripts -> aget f (cbs p) = None ->
  forall c f' e, In (c, f', e) (disp (snd (poll KSelect New scripts rd order p))) -> f' <> f.
Proof. exact select_unsubscribed_not_dispatched. Qed.
Print Assumptions C13_select_unsubscribed_not_dispatched.

(* a handler is called with a non-empty event mask made of READ | WRITE | ERROR only *)
Theorem C13_dispatched_events_sound : forall k rl scripts rd order p c f e,
  In (c, f, e) (disp (snd (poll k rl scripts rd order p))) -> e <> 0 /\ e <= 7.
Proof. exact dispatched_events_sound. Qed.
Print Assumptions C13_dispatched_events_sound.

(* the dispatch loop of SelectPoller before the repair FX-C13-4: two descriptors ready in one round, the handler of the
   first unsubscribes the second - KeyError out of poll(); the repaired rule dispatches the first and skips the second *)
Theorem C13_old_select_dispatch_raises_refuted :
  map exc (snd (run KSelect Old old_scripts empty old_events)) = [false; false; true] /\
  map exc (snd (run KSelect New old_scripts empty old_events)) = [false; false; false] /\
  map disp (snd (run KSelect New old_scripts empty old_events)) = [[]; []; [(1, 7, 1)]].
Proof. exact old_select_rule_raises. Qed.
Print Assumptions C13_old_select_dispatch_raises_refuted.
