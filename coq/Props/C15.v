From Coq Require Import ZArith String List Permutation Sorted.
From PSO Require Import Batteries.PySpec Batteries.Gen Batteries.Spec Batteries.Proofs Batteries.ProofsHeap.
Import ListNotations.
Open Scope Z_scope.

Theorem C15_ReplCounter_refines :
  forall ops : list (op B_ReplCounter),
  match b_init B_ReplCounter [] with
  | None => False
  | Some s0 =>
    fst (run B_ReplCounter ops s0) = fst (run_gen spec_counter ops spec_counter_init) /\
    b_fields B_ReplCounter (snd (run B_ReplCounter ops s0)) =
    spec_counter_fields (snd (run_gen spec_counter ops spec_counter_init))
  end.
Proof. exact ReplCounter_refines. Qed.
Print Assumptions C15_ReplCounter_refines.

Theorem C15_ReplList_refines :
  forall ops : list (op B_ReplList),
  match b_init B_ReplList [] with
  | None => False
  | Some s0 =>
    fst (run B_ReplList ops s0) = fst (run_gen spec_list ops []) /\
    b_fields B_ReplList (snd (run B_ReplList ops s0)) = spec_list_fields (snd (run_gen spec_list ops []))
  end.
Proof. exact ReplList_refines. Qed.
Print Assumptions C15_ReplList_refines.

Theorem C15_ReplDict_refines :
  forall ops : list (op B_ReplDict),
  match b_init B_ReplDict [] with
  | None => False
  | Some s0 =>
    fst (run B_ReplDict ops s0) = fst (run_gen spec_dict ops []) /\
    b_fields B_ReplDict (snd (run B_ReplDict ops s0)) = spec_dict_fields (snd (run_gen spec_dict ops []))
  end.
Proof. exact ReplDict_refines. Qed.
Print Assumptions C15_ReplDict_refines.

Theorem C15_ReplSet_refines :
  forall ops : list (op B_ReplSet),
  match b_init B_ReplSet [] with
  | None => False
  | Some s0 =>
    fst (run B_ReplSet ops s0) = fst (run_gen spec_set ops []) /\
    b_fields B_ReplSet (snd (run B_ReplSet ops s0)) = spec_set_fields (snd (run_gen spec_set ops []))
  end.
Proof. exact ReplSet_refines. Qed.
Print Assumptions C15_ReplSet_refines.

Theorem C15_ReplQueue_refines :
  b_init B_ReplQueue [] = b_init B_ReplQueue [VInt 0] /\
  forall mx, 0 <= mx -> forall ops : list (op B_ReplQueue),
  match b_init B_ReplQueue [VInt mx] with
  | None => False
  | Some s0 =>
    fst (run B_ReplQueue ops s0) = fst (run_gen spec_queue ops (mx, [])) /\
    b_fields B_ReplQueue (snd (run B_ReplQueue ops s0)) = spec_queue_fields (snd (run_gen spec_queue ops (mx, [])))
  end.
Proof. exact ReplQueue_refines. Qed.
Print Assumptions C15_ReplQueue_refines.

Theorem C15_queue_maxsize_nonneg_necessary :
  match b_init B_ReplQueue [VInt (-1)] with
  | None => False
  | Some s0 =>
    fst (run B_ReplQueue [(ReplQueue_m_full, [], 0); (ReplQueue_m_put, [VInt 5], 0)] s0)
    = [ORes (VBool false); ORes (VBool false)]
  end.
Proof. exact ReplQueue_negative_maxsize. Qed.
Print Assumptions C15_queue_maxsize_nonneg_necessary.

Theorem C15_heappush_heap_and_multiset :
  forall h z, heap_ok h -> heap_ok (heap_push h z) /\ Permutation (heap_push h z) (z :: h).
Proof. exact heap_push_ok. Qed.
Print Assumptions C15_heappush_heap_and_multiset.

Theorem C15_heappop_min_and_multiset :
  forall h, h <> [] -> heap_ok h ->
  (forall y, In y h -> fst (heap_pop h) <= y) /\
  Permutation h (fst (heap_pop h) :: snd (heap_pop h)) /\
  heap_ok (snd (heap_pop h)).
Proof. exact heap_pop_ok. Qed.
Print Assumptions C15_heappop_min_and_multiset.

Theorem C15_ReplPriorityQueue_refines :
  b_init B_ReplPriorityQueue [] = b_init B_ReplPriorityQueue [VInt 0] /\
  forall mx, 0 <= mx -> forall ops : list (op B_ReplPriorityQueue),
  match b_init B_ReplPriorityQueue [VInt mx] with
  | None => False
  | Some s0 =>
    fst (run B_ReplPriorityQueue ops s0) = fst (run_gen spec_pqueue ops (mx, [])) /\
    pq_same_contents (snd (run B_ReplPriorityQueue ops s0)) (snd (run_gen spec_pqueue ops (mx, [])))
  end.
Proof. exact ReplPriorityQueue_refines. Qed.
Print Assumptions C15_ReplPriorityQueue_refines.

Theorem C15_plain_methods_readonly :
  (forall m orc args s, ReplCounter_replicated m = false -> state_of (ReplCounter_call m orc args s) = s) /\
  (forall m orc args s, ReplList_replicated m = false -> state_of (ReplList_call m orc args s) = s) /\
  (forall m orc args s, ReplDict_replicated m = false -> state_of (ReplDict_call m orc args s) = s) /\
  (forall m orc args s, ReplSet_replicated m = false -> state_of (ReplSet_call m orc args s) = s) /\
  (forall m orc args s, ReplQueue_replicated m = false -> state_of (ReplQueue_call m orc args s) = s) /\
  (forall m orc args s, ReplPriorityQueue_replicated m = false -> state_of (ReplPriorityQueue_call m orc args s) = s).
Proof. exact plain_methods_readonly. Qed.
Print Assumptions C15_plain_methods_readonly.

Theorem C15_replicas_equal :
  forall B, is_battery B ->
  forall (ops1 ops2 : list (op B)) (s0 fresh : b_state B),
    let s1 := snd (run B ops1 s0) in
    run B (ops1 ++ ops2) s0 =
    (fst (run B ops1 s0) ++ fst (run B ops2 (restore B fresh s1)), snd (run B ops2 (restore B fresh s1))).
Proof. exact replicas_equal. Qed.
Print Assumptions C15_replicas_equal.

Theorem C15_oracle_only_set_pop :
  oracle_free B_ReplCounter /\ oracle_free B_ReplList /\ oracle_free B_ReplDict /\
  oracle_free B_ReplQueue /\ oracle_free B_ReplPriorityQueue /\
  forall s0, b_init B_ReplSet [] = Some s0 ->
  forall ops ops' : list (op B_ReplSet), Forall2 (same_upto_oracle is_set_pop) ops ops' ->
    run B_ReplSet ops s0 = run B_ReplSet ops' s0.
Proof. exact oracle_only_set_pop. Qed.
Print Assumptions C15_oracle_only_set_pop.

Theorem C15_set_pop_refuted :
  exists (s fresh : b_state B_ReplSet) (o1 o2 : Z),
    b_fields B_ReplSet s = [VSet [9; 16]] /\
    let r1 := run B_ReplSet [(ReplSet_m_pop, [], o1)] s in
    let r2 := run B_ReplSet [(ReplSet_m_pop, [], o2)] (restore B_ReplSet fresh s) in
    fst r1 = [ORes (VInt 9)] /\ fst r2 = [ORes (VInt 16)] /\ snd r1 <> snd r2.
Proof. exact set_pop_refuted. Qed.
Print Assumptions C15_set_pop_refuted.
