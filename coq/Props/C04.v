From Coq Require Import ZArith NArith List Bool.
From RecordUpdate Require Import RecordSet.
From PSO Require Import Raft.Types Raft.Node Raft.Net Raft.Obs Raft.ProofsCommitBase Raft.ProofsCommit Raft.ProofsMembership Raft.ProofsCommitLog Raft.ProofsMembershipInv Raft.ProofsCommitGlobal.
Import ListNotations.
Import RecordSetNotations.
Open Scope N_scope.

(* commit never decreases: every handler invocation (any message, any clock, any configuration) *)
Theorem C04_commit_monotone_handlers :
  forall (c : conf) (MP : msg -> Prop) (n n' : node), nstep c MP n n' -> commit n <= commit n'.
Proof. exact commit_mono_nstep. Qed.
Print Assumptions C04_commit_monotone_handlers.

(* one global step, for a node that is neither killed nor restarted by it *)
Theorem C04_commit_monotone_step :
  forall (c : conf) (g : gstate) (ev : event) (g' : gstate) (r : option (nid * S)) (x : nid) (n n' : node),
    gstep c g ev = Some (g', r) ->
    is_restart x ev = false -> is_kill x ev = false ->
    aget x (nodes g) = Some n -> aget x (nodes g') = Some n' ->
    commit n <= commit n'.
Proof. exact commit_monotone_step. Qed.
Print Assumptions C04_commit_monotone_step.

(* all schedules, all configurations, from any global state *)
Theorem C04_commit_monotone :
  forall (c : conf) (evs : list event) (g g' : gstate) (x : nid) (n n' : node),
    run_trace c g evs = Some g' -> runs_through x evs ->
    aget x (nodes g) = Some n -> aget x (nodes g') = Some n' ->
    commit n <= commit n'.
Proof. exact commit_monotone_trace. Qed.
Print Assumptions C04_commit_monotone.

(* a follower's commit index moves only on an accepted append_entries / a completely installed
   snapshot of a term >= its own, to min(leader commit, last index verified by that message) *)
Theorem C04_follower_commit_verified :
  forall (e : env) (from : nid) (m : msg) (n : node),
  let n' := nd (on_message e from m n) in
  commit n' = commit n \/
  (commit n < commit n' /\
   exists t c, ae_msg_info m = Some (t, c) /\ term n <= t /\ commit n' <= c /\
     match m with
     | AE _ _ prev es =>
       exists pidx pterm p0 rest,
         prev = Some (pidx, pterm) /\ get_entries (log n) (Some pidx) None None = p0 :: rest /\
         eterm p0 = pterm /\ commit n' = N.min c (ae_last pidx es)
     | AEPiece _ _ prev lab off len en =>
       lab <> 1 /\ lab <> 2 /\
       exists pidx pterm p0 rest en',
         prev = Some (pidx, pterm) /\ get_entries (log n) (Some pidx) None None = p0 :: rest /\
         eterm p0 = pterm /\ assemble_entry (recv_t n ++ [(en, off, len)]) = Some en' /\
         commit n' = N.min c (eidx en')
     | AESnap _ _ p =>
       exists sn, recv_snapshot p (sr n) = Some (Good sn) /\ s_ver sn <= self_ver n /\
         log n' = (if snap_kept sn (log n) then delete_to (log n) (eidx (s_e0 sn)) else [s_e0 sn; s_e1 sn]) /\
         commit n' = N.min c (eidx (s_e1 sn))
     | _ => False
     end).
Proof. exact follower_commit_verified. Qed.
Print Assumptions C04_follower_commit_verified.

(* the leader commits only an entry of its own term that a majority (by match_idx) stores; every
   index up to it has a majority; the indices examined beyond it have a majority but another term;
   the scan stops at the end of the log, at a missing slot (KeyError) or at the first minority *)
Theorem C04_leader_commit_rule :
  forall (e : env) (s : S),
  let n := nd s in
  let nc := commit (nd (tick_leader e s)) in
  nc = commit n \/
  (role n = LEADER /\ commit n < nc <= last_idx (log n) /\
   own_term_at n nc = true /\
   majority (match_count nc n) n = true /\
   (forall j, commit n < j <= nc -> majority (match_count j n) n = true) /\
   exists stop, nc <= stop <= last_idx (log n) /\
     (forall j, nc < j <= stop -> majority (match_count j n) n = true /\ own_term_at n j = false) /\
     (stop = last_idx (log n) \/ slot_missing n = true \/ majority (match_count (stop + 1) n) n = false)).
Proof. exact leader_commit_rule. Qed.
Print Assumptions C04_leader_commit_rule.

(* D17 repair: a reply of another term, or one that reaches a non-leader, changes nothing *)
Theorem C04_next_idx_other_term_ignored :
  forall (e : env) (from : nid) (t nx : N) (r su : bool) (n : node),
    t <> term n \/ role n <> LEADER -> on_message e from (NextIdx t nx r su) n = start_S e n.
Proof. exact next_idx_other_term_ignored. Qed.
Print Assumptions C04_next_idx_other_term_ignored.

(* the only message that moves a leader's match_idx is a success reply of its own term, for the
   sender's slot, upwards, to next - 1 *)
Theorem C04_match_idx_from_success :
  forall (e : env) (from : nid) (m : msg) (n : node),
  role n = LEADER ->
  let n' := nd (on_message e from m n) in
  match_idx n' = match_idx n \/ role n' <> LEADER \/
  exists nx r m0, m = NextIdx (term n) nx r true /\ aget from (match_idx n) = Some m0 /\
                  m0 < nx - 1 /\ match_idx n' = aset from (nx - 1) (match_idx n).
Proof. exact match_idx_from_success. Qed.
Print Assumptions C04_match_idx_from_success.

Theorem C04_match_idx_grows_on_message :
  forall (e : env) (from : nid) (m : msg) (n : node) (y : nid) (a b : N),
  role n = LEADER -> role (nd (on_message e from m n)) = LEADER ->
  aget y (match_idx n) = Some a -> aget y (match_idx (nd (on_message e from m n))) = Some b ->
  a <= b.
Proof. exact match_idx_grows_on_message. Qed.
Print Assumptions C04_match_idx_grows_on_message.

Theorem C04_match_idx_tick_static :
  forall (e : env) (n : node),
  dyn (cf e) = false -> role n = LEADER -> need_load n = false -> replay_idx n <= applied n ->
  match_idx (nd (on_tick e n)) = match_idx n.
Proof. exact match_idx_tick_static. Qed.
Print Assumptions C04_match_idx_tick_static.

(* no message handler lowers applied (a received snapshot is installed only when it is ahead of the
   node's position) *)
Theorem C04_applied_monotone_messages :
  forall (e : env) (from : nid) (m : msg) (n : node), applied n <= applied (nd (on_message e from m n)).
Proof. exact applied_mono_msg. Qed.
Print Assumptions C04_applied_monotone_messages.

(* applied never decreases in any handler; only the load of the dump file in a node's first tick
   (restart path) carries a condition: the dump is not behind what the node has applied by then
   (the statement without it is the Definition C04_applied_monotone_full) *)
Theorem C04_applied_monotone :
  forall (c : conf) (MP : msg -> Prop) (n n' : node),
  nstep c MP n n' ->
  (forall e, cf e = c -> snap_ahead_tick e n) ->
  applied n <= applied n'.
Proof. exact applied_monotone_handlers. Qed.
Print Assumptions C04_applied_monotone.

(* log well-formedness (indices +1, sorted member set, well-formed snapshots) is kept by every
   handler when the delivered messages are well formed *)
Theorem C04_log_wf_handlers :
  forall (c : conf) (n n' : node), nstep c msg_wf n n' -> node_wf n -> node_wf n'.
Proof. exact nstep_wf. Qed.
Print Assumptions C04_log_wf_handlers.

(* the log never becomes empty; for a tick: given that a pending serializer job covers entries the
   log still has (compact_ok_needed shows the condition cannot be dropped) *)
Theorem C04_log_nonempty_handlers :
  forall (c : conf) (n n' : node),
  nstep c msg_wf n n' -> node_wf n -> log n <> [] ->
  (forall e, cf e = c -> compact_ok e n) -> log n' <> [].
Proof. exact nstep_nonempty. Qed.
Print Assumptions C04_log_nonempty_handlers.

Theorem C04_log_wf_init :
  forall (e : env) (me : option nid) (oth : list nid) (sv : N),
  ssorted oth -> node_wf (init_node e me oth sv) /\ log (init_node e me oth sv) <> [].
Proof. exact init_node_wf. Qed.
Print Assumptions C04_log_wf_init.

Theorem C04_log_index_at :
  forall (l : list entry) (k : nat) (d : entry),
  consec l -> (k < length l)%nat -> eidx (nth k l d) = first_idx l + N.of_nat k.
Proof. exact consec_nth. Qed.
Print Assumptions C04_log_index_at.

Theorem C04_log_last_idx :
  forall l : list entry, consec l -> l <> [] -> last_idx l = first_idx l + N.of_nat (length l) - 1.
Proof. exact consec_last_idx. Qed.
Print Assumptions C04_log_last_idx.

(* get_entries returns exactly the entries with the requested indices *)
Theorem C04_get_entries_spec :
  forall (l : list entry) (f : N) (c : option N),
  consec l -> first_idx l <= f ->
  get_entries l (Some f) c None = filter (in_range f c) l.
Proof. exact get_entries_spec. Qed.
Print Assumptions C04_get_entries_spec.

(* every message a well-formed node sends (tick / message handler) is well formed *)
Theorem C04_sent_messages_wf_tick :
  forall (e : env) (n : node), node_wf n -> pw (on_tick e n).
Proof. exact on_tick_pw. Qed.
Print Assumptions C04_sent_messages_wf_tick.

Theorem C04_sent_messages_wf_message :
  forall (e : env) (from : nid) (m : msg) (n : node), msg_wf m -> node_wf n -> pw (on_message e from m n).
Proof. exact on_message_pw. Qed.
Print Assumptions C04_sent_messages_wf_message.

(* hence in every global state reached from ginit (restarts with a sorted member list) every node's
   log has consecutive indices, its member set is sorted and every message in flight is well formed *)
Theorem C04_log_wf_reachable :
  forall (c : conf) (evs : list event) (g : gstate) (x : nid) (n : node),
  Forall ev_ok evs -> run_trace c ginit evs = Some g -> aget x (nodes g) = Some n ->
  consec (log n) /\ ssorted (others n) /\ chan_all msg_wf g.
Proof. exact reachable_log_wf. Qed.
Print Assumptions C04_log_wf_reachable.

(* installing a received snapshot keeps what the follower holds behind it: when the log holds the
   snapshot's two entries the new log is the old one from the snapshot's first entry on, otherwise it
   is [e0; e1]; applied is the snapshot's position and that is what the follower acknowledges *)
Theorem C04_install_keeps_acknowledged :
  forall (e : env) (from : nid) (t c : N) (p : snap_part) (n : node) (sn : snapshot),
  term n <= t -> recv_snapshot p (sr n) = Some (Good sn) ->
  s_ver sn <= self_ver n -> applied n < eidx (s_e1 sn) ->
  let s' := on_message e from (AESnap t c p) n in
  let n' := nd s' in
  applied n' = eidx (s_e1 sn) /\
  (snap_kept sn (log n) = true ->
     log n' = delete_to (log n) (eidx (s_e0 sn)) /\
     exists pre a b r, log n = pre ++ a :: b :: r /\
       entry_eqb a (s_e0 sn) = true /\ entry_eqb b (s_e1 sn) = true /\ log n' = a :: b :: r) /\
  (snap_kept sn (log n) = false -> log n' = [s_e0 sn; s_e1 sn]) /\
  (smem from (tconn n') = true ->
     In (Send from (NextIdx (term n') (eidx (s_e1 sn) + 1) false true)) (outs s')).
Proof. exact install_keeps_acknowledged. Qed.
Print Assumptions C04_install_keeps_acknowledged.

(* on a log with consecutive indices: exactly the entries from the snapshot's first entry on; every
   entry behind the snapshot's position is still there *)
Theorem C04_install_keeps_suffix :
  forall (e : env) (from : nid) (t c : N) (p : snap_part) (n : node) (sn : snapshot),
  term n <= t -> recv_snapshot p (sr n) = Some (Good sn) ->
  s_ver sn <= self_ver n -> applied n < eidx (s_e1 sn) ->
  consec (log n) -> snap_kept sn (log n) = true ->
  let n' := nd (on_message e from (AESnap t c p) n) in
  log n' = filter (fun en => eidx (s_e0 sn) <=? eidx en) (log n) /\
  (forall en, In en (log n) -> eidx (s_e1 sn) < eidx en -> In en (log n')) /\
  applied n' = eidx (s_e1 sn).
Proof. exact install_keeps_suffix. Qed.
Print Assumptions C04_install_keeps_suffix.
