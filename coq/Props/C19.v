From Coq Require Import NArith List Permutation.
From PSO Require Import Queue.Model Queue.ProofsMain Queue.ProofsDrain.
Import ListNotations.
Local Open Scope N_scope.

Theorem C19_fifo :
  forall (St : Type) (complete : cmd -> St -> St * res) (maxSize : N) (progs : N -> list call)
         (u0 : St) (sched : list action),
    let s := reach St complete maxSize progs u0 sched in
    deq s ++ queue s = map fst (filter snd (attempts s)).
Proof. exact fifo. Qed.
Print Assumptions C19_fifo.

Theorem C19_no_loss_no_dup :
  forall (St : Type) (complete : cmd -> St -> St * res) (maxSize : N) (progs : N -> list call)
         (u0 : St) (sched : list action),
    let s := reach St complete maxSize progs u0 sched in
    Permutation (deq s ++ queue s) (puts s) /\
    NoDup (map cid (puts s)) /\ NoDup (deq s ++ queue s) /\ NoDup (deq s).
Proof. exact no_loss_no_dup. Qed.
Print Assumptions C19_no_loss_no_dup.

Theorem C19_full_reported_never_dequeued :
  forall (St : Type) (complete : cmd -> St -> St * res) (maxSize : N) (progs : N -> list call)
         (u0 : St) (sched : list action),
    let s := reach St complete maxSize progs u0 sched in
    forall c, In c (rejected s) ->
      ~ In (cid c) (map cid (deq s ++ queue s)) /\
      (forall r, In (c, r) (cbs s) -> r = full_res) /\
      (cb_count (cid c) (cbs s) <= 1)%nat /\
      (kind c <> KNone -> ph (callers s (owner c)) <> PFull c -> cb_count (cid c) (cbs s) = 1%nat) /\
      (kind c = KNone -> cb_count (cid c) (cbs s) = 0%nat).
Proof. exact full_reported_never_dequeued. Qed.
Print Assumptions C19_full_reported_never_dequeued.

Theorem C19_completed_once_in_order :
  forall (St : Type) (complete : cmd -> St -> St * res) (maxSize : N) (progs : N -> list call)
         (u0 : St) (sched : list action),
    let s := reach St complete maxSize progs u0 sched in
    map fst (done s) ++ pending s = deq s /\
    NoDup (map cid (map fst (done s))) /\
    exec St complete u0 (map fst (done s)) = (done s, ust s).
Proof. exact completed_once_in_order. Qed.
Print Assumptions C19_completed_once_in_order.

Theorem C19_callback_once :
  forall (St : Type) (complete : cmd -> St -> St * res) (maxSize : N) (progs : N -> list call)
         (u0 : St) (sched : list action),
    let s := reach St complete maxSize progs u0 sched in
    NoDup (map (fun x => cid (fst x)) (cbs s)) /\
    (forall k, (cb_count k (cbs s) <= 1)%nat) /\
    (forall c r, In (c, r) (cbs s) ->
       kind c <> KNone /\ ((In c (rejected s) /\ r = full_res) \/ In (c, r) (done s))) /\
    (forall c r, In (c, r) (done s) -> kind c <> KNone ->
       In (c, r) (cbs s) /\ cb_count (cid c) (cbs s) = 1%nat).
Proof. exact callback_once. Qed.
Print Assumptions C19_callback_once.

Theorem C19_woken_by_own_callback :
  forall (St : Type) (complete : cmd -> St -> St * res) (maxSize : N) (progs : N -> list call)
         (u0 : St) (sched : list action),
    let s := reach St complete maxSize progs u0 sched in
    forall k, c_flag (cells s k) = true ->
      exists c r, cid c = k /\ In (c, r) (cbs s) /\
                  c_result (cells s k) = fst r /\ c_error (cells s k) = Some (snd r).
Proof. exact woken_by_own_callback. Qed.
Print Assumptions C19_woken_by_own_callback.

Theorem C19_sync_own_result :
  forall (St : Type) (complete : cmd -> St -> St * res) (maxSize : N) (progs : N -> list call)
         (u0 : St) (sched : list action),
    let s := reach St complete maxSize progs u0 sched in
    NoDup (map (fun x => cid (snd (fst x))) (outcomes s)) /\
    forall i c o, In (i, c, o) (outcomes s) ->
      owner c = i /\ kind c = KSync /\
      (o = OTimeout \/
       (In c (rejected s) /\ o = ORaise (Some QUEUE_FULL)) \/
       (exists r, In (c, r) (done s) /\ o = outcome_of r)).
Proof. exact sync_own_result. Qed.
Print Assumptions C19_sync_own_result.

Theorem C19_capacity :
  forall (St : Type) (complete : cmd -> St -> St * res) (maxSize : N) (progs : N -> list call)
         (u0 : St) (sched : list action),
    N.of_nat (length (queue (reach St complete maxSize progs u0 sched))) <= maxSize + 1.
Proof. exact capacity. Qed.
Print Assumptions C19_capacity.

Theorem C19_capacity_off_by_one_reached :
  length (queue (ex_reach ex_sched1)) = 2%nat.
Proof. exact capacity_reached. Qed.
Print Assumptions C19_capacity_off_by_one_reached.

Theorem C19_accepted_completes :
  forall (St : Type) (complete : cmd -> St -> St * res) (maxSize : N) (progs : N -> list call)
         (u0 : St) (sched : list action),
    exists more,
      let s := reach St complete maxSize progs u0 sched in
      let s' := reach St complete maxSize progs u0 (sched ++ more) in
      queue s' = [] /\ pending s' = [] /\ puts s' = puts s /\
      map fst (done s') = puts s /\ NoDup (map cid (map fst (done s'))).
Proof. exact accepted_completes. Qed.
Print Assumptions C19_accepted_completes.
