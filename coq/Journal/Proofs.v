(* Representation invariant of the file journal and the theorems of property C08.

   Lay f x es : the file f is  36 bytes ++ pack_u32 x ++ enc_all es ++ anything
                (records laid out back to back from offset 40, each framed by equal length words;
                 x is the header offset word).
   Good f L   : Lay f (end_off L) L, every entry fits its fixed-width fields, end_off L < 2^32.
                A Good file reopens to exactly L.
   Inv (m, d) : Good (d_file d) (m_entries m) and the in-memory offset equals the header offset. *)
From Coq Require Import ZArith NArith List Lia Bool.
From PSO Require Import Base.PyBytes Base.PyBytesFacts Journal.Model Journal.ProofsBytes.
Import ListNotations.
Open Scope Z_scope.

#[local] Arguments pack_u32 : simpl never.
#[local] Arguments pack_u64 : simpl never.
#[local] Arguments unpack_u32 : simpl never.
#[local] Arguments unpack_u64 : simpl never.
#[local] Arguments enc_entry : simpl never.
#[local] Arguments edata : simpl never.
#[local] Arguments rf_read : simpl never.
#[local] Arguments rf_write : simpl never.
#[local] Arguments zeros : simpl never.
#[local] Arguments new_size : simpl never.
#[local] Arguments pad_file : simpl never.

Definition end_off (es : list entry) : Z := FIRST_RECORD_OFFSET + zlen (enc_all es).

Definition Lay (f : bytes) (x : Z) (es : list entry) : Prop :=
  exists h36 rest, length h36 = 36%nat /\ f = h36 ++ pack_u32 x ++ enc_all es ++ rest.

Definition Good (f : bytes) (L : list entry) : Prop :=
  Lay f (end_off L) L /\ Forall entry_ok L /\ end_off L < two32.

Definition Inv (s : state) : Prop :=
  Good (d_file (snd s)) (m_entries (fst s)) /\ m_cur (fst s) = end_off (m_entries (fst s)).

(* ---------------------------------------------------------------- offsets *)

Lemma end_off_nil : end_off [] = 40.
Proof. reflexivity. Qed.

Lemma end_off_app a b : end_off (a ++ b) = end_off a + zlen (enc_all b).
Proof. unfold end_off. rewrite enc_all_app, zlen_app. lia. Qed.

Lemma enc_all_single e : enc_all [e] = enc_entry e.
Proof. cbn [enc_all]. apply app_nil_r. Qed.

Lemma end_off_snoc a e : end_off (a ++ [e]) = end_off a + zlen (enc_entry e).
Proof. now rewrite end_off_app, enc_all_single. Qed.

Lemma end_off_ge es : 40 <= end_off es.
Proof. unfold end_off, FIRST_RECORD_OFFSET. assert (H := zlen_nonneg (enc_all es)). lia. Qed.

Lemma end_off_app_le a b : end_off a <= end_off (a ++ b).
Proof. rewrite end_off_app. assert (H := zlen_nonneg (enc_all b)). lia. Qed.

Lemma end_off_suffix_le a b : end_off b <= end_off (a ++ b).
Proof.
  unfold end_off. rewrite enc_all_app, zlen_app. assert (H := zlen_nonneg (enc_all a)). lia.
Qed.

(* ---------------------------------------------------------------- layouts *)

Lemma lay_prefix f x a b : Lay f x (a ++ b) -> Lay f x a.
Proof.
  intros (h36 & rest & Hh & Hf). exists h36, (enc_all b ++ rest). split; [exact Hh|].
  rewrite Hf, enc_all_app, <- !app_assoc. reflexivity.
Qed.

Lemma lay_app_rest f x es z : Lay f x es -> Lay (f ++ z) x es.
Proof.
  intros (h36 & rest & Hh & Hf). exists h36, (rest ++ z). split; [exact Hh|].
  rewrite Hf, <- !app_assoc. reflexivity.
Qed.

Lemma zlen_36 (h36 : bytes) : length h36 = 36%nat -> zlen h36 = 36.
Proof. intros H. unfold zlen. rewrite H. reflexivity. Qed.

Lemma lay_hdr_write f x es y : Lay f x es -> Lay (rf_write f LAST_RECORD_OFFSET_OFFSET (pack_u32 y)) y es.
Proof.
  intros (h36 & rest & Hh & Hf). subst f.
  destruct (rf_write_field h36 (pack_u32 x) (pack_u32 y) (enc_all es ++ rest)) as [z Hz];
    [now rewrite !pack_u32_length|].
  rewrite (zlen_36 _ Hh) in Hz. unfold LAST_RECORD_OFFSET_OFFSET. rewrite Hz.
  exists h36, (rest ++ z). split; [exact Hh|]. now rewrite <- !app_assoc.
Qed.

Lemma lay_tail_write f x es e : Lay f x es -> Lay (rf_write f (end_off es) (enc_entry e)) x (es ++ [e]).
Proof.
  intros (h36 & rest & Hh & Hf). subst f.
  destruct (rf_write_tail (h36 ++ pack_u32 x ++ enc_all es) rest (enc_entry e)) as [tail Ht].
  replace (zlen (h36 ++ pack_u32 x ++ enc_all es)) with (end_off es) in Ht
    by (unfold end_off, FIRST_RECORD_OFFSET; rewrite !zlen_app, zlen_pack_u32, (zlen_36 _ Hh); lia).
  rewrite <- !app_assoc in Ht. rewrite Ht.
  exists h36, tail. split; [exact Hh|].
  rewrite enc_all_app, enc_all_single, <- !app_assoc. reflexivity.
Qed.

(* the trailing length word of the last laid out record, as deleteEntriesFrom reads it *)
Lemma lay_read_tailword f x a e b :
  Lay f x (a ++ e :: b) ->
  rf_read f (end_off (a ++ [e]) - 4) 4 = pack_u32 (zlen (edata e)).
Proof.
  intros (h36 & rest & Hh & Hf).
  apply (rf_read_at f (h36 ++ pack_u32 x ++ enc_all a ++ pack_u32 (zlen (edata e)) ++ edata e)
                    (pack_u32 (zlen (edata e))) (enc_all b ++ rest)).
  - rewrite Hf. change (e :: b) with ([e] ++ b). rewrite !enc_all_app, enc_all_single.
    unfold enc_entry. now rewrite <- !app_assoc.
  - rewrite end_off_snoc. unfold end_off, FIRST_RECORD_OFFSET.
    rewrite !zlen_app, !zlen_pack_u32, (zlen_36 _ Hh), zlen_enc_entry, zlen_edata. lia.
  - now rewrite zlen_pack_u32.
Qed.

(* ---------------------------------------------------------------- Good files reopen to their list *)

Lemma Forall_app_l {A} (P : A -> Prop) a b : Forall P (a ++ b) -> Forall P a.
Proof. intro H. apply Forall_app in H. tauto. Qed.

Lemma Forall_app_r {A} (P : A -> Prop) a b : Forall P (a ++ b) -> Forall P b.
Proof. intro H. apply Forall_app in H. tauto. Qed.

Lemma good_prefix f x a b :
  Lay f x (a ++ b) -> x = end_off a -> Forall entry_ok (a ++ b) -> end_off (a ++ b) < two32 -> Good f a.
Proof.
  intros Hl -> Hok Hlt. split; [|split].
  - eapply lay_prefix; exact Hl.
  - eapply Forall_app_l; exact Hok.
  - assert (H := end_off_app_le a b). lia.
Qed.

Lemma good_pad f L : Good f L -> Good (pad_file f) L.
Proof. intros (Hl & Hok & Hlt). split; [|tauto]. unfold pad_file. now apply lay_app_rest. Qed.

Lemma good_parse f L : Good f L -> parse_file f = Some (L, end_off L).
Proof.
  intros ((h36 & rest & Hh & Hf) & Hok & Hlt).
  unfold parse_file.
  assert (Hw : rf_read f LAST_RECORD_OFFSET_OFFSET 4 = pack_u32 (end_off L)).
  { apply (rf_read_at f h36 (pack_u32 (end_off L)) (enc_all L ++ rest)); [exact Hf| |].
    - now rewrite (zlen_36 _ Hh).
    - now rewrite zlen_pack_u32. }
  cbv zeta. rewrite Hw, zlen_pack_u32. change (4 <? 4) with false. cbv iota.
  rewrite unpack_pack_u32 by (assert (H := end_off_ge L); lia).
  assert (Hpre : zlen (h36 ++ pack_u32 (end_off L)) = 40)
    by (rewrite zlen_app, zlen_pack_u32, (zlen_36 _ Hh); reflexivity).
  assert (Hfuel : (length L <= length f)%nat).
  { rewrite Hf, !app_length. assert (H := enc_all_length_ge L). lia. }
  assert (HP := parse_loop_ok L f (h36 ++ pack_u32 (end_off L)) rest Hok Hfuel).
  rewrite Hpre in HP.
  replace ((h36 ++ pack_u32 (end_off L)) ++ enc_all L ++ rest) with f in HP
    by (rewrite Hf, <- !app_assoc; reflexivity).
  exact HP.
Qed.

Lemma good_reopen d L :
  Good (d_file d) L ->
  reopen d = Some {| m_entries := L; m_cur := end_off L; m_meta := d_meta d; m_saved := true |}.
Proof.
  intros Hg. unfold reopen. rewrite (good_parse _ L (good_pad _ _ Hg)). reflexivity.
Qed.

(* ---------------------------------------------------------------- primitives on the file *)

Definition apply_file (f : bytes) (ps : list prim) : bytes :=
  fold_left (fun f p => match p with FileWrite off b => rf_write f off b | _ => f end) ps f.

Definition is_fw (p : prim) : Prop := match p with FileWrite _ _ => True | _ => False end.

Lemma apply_prims_file ps : forall d, d_file (apply_prims d ps) = apply_file (d_file d) ps.
Proof.
  induction ps as [|p ps IH]; intro d; [reflexivity|].
  unfold apply_prims, apply_file in *. cbn [fold_left]. rewrite IH.
  destruct p; cbn [apply_prim d_file]; try reflexivity.
  destruct (d_tmp d); reflexivity.
Qed.

Lemma apply_prims_meta ps : forall d,
  Forall is_fw ps -> d_meta (apply_prims d ps) = d_meta d /\ d_tmp (apply_prims d ps) = d_tmp d.
Proof.
  induction ps as [|p ps IH]; intros d Hfw; [split; reflexivity|].
  inversion Hfw as [|? ? Hp Hr]; subst.
  unfold apply_prims in *. cbn [fold_left].
  destruct p; cbn [is_fw] in Hp; try contradiction.
  destruct (IH {| d_file := rf_write (d_file d) off b; d_meta := d_meta d; d_tmp := d_tmp d |} Hr) as [H1 H2].
  cbn [apply_prim]. rewrite H1, H2. split; reflexivity.
Qed.

Lemma apply_file_app f a b : apply_file f (a ++ b) = apply_file (apply_file f a) b.
Proof. unfold apply_file. apply fold_left_app. Qed.

(* ---------------------------------------------------------------- add / re-add loop *)

Lemma add_all_cons e r cur :
  add_all (e :: r) cur =
  (fst (add_all r (cur + zlen (enc_entry e))),
   FileWrite cur (enc_entry e) :: hdr_write (cur + zlen (enc_entry e)) :: snd (add_all r (cur + zlen (enc_entry e)))).
Proof. cbn [add_all]. destruct (add_all r (cur + zlen (enc_entry e))). reflexivity. Qed.

Lemma add_all_fw es : forall cur, Forall is_fw (snd (add_all es cur)).
Proof.
  induction es as [|e r IH]; intro cur; [constructor|].
  rewrite add_all_cons. cbn [snd]. repeat constructor. apply IH.
Qed.

Lemma good_add f acc e :
  Good f acc -> entry_ok e -> end_off (acc ++ [e]) < two32 ->
  Good (rf_write f (end_off acc) (enc_entry e)) acc /\
  Good (rf_write (rf_write f (end_off acc) (enc_entry e)) LAST_RECORD_OFFSET_OFFSET
                 (pack_u32 (end_off (acc ++ [e])))) (acc ++ [e]).
Proof.
  intros (Hl & Hok & Hlt) He Hlt'.
  assert (Hl1 := lay_tail_write _ _ _ e Hl).
  split.
  - split; [|split; assumption]. eapply lay_prefix; exact Hl1.
  - split; [|split; [|exact Hlt']].
    + apply (lay_hdr_write _ (end_off acc)). exact Hl1.
    + apply Forall_app. split; [exact Hok|]. constructor; [exact He|constructor].
Qed.

Lemma add_all_spec es : forall acc f,
  Good f acc -> Forall entry_ok es -> end_off (acc ++ es) < two32 ->
  fst (add_all es (end_off acc)) = end_off (acc ++ es) /\
  forall j, exists t, (t <= length es)%nat /\
    Good (apply_file f (firstn j (snd (add_all es (end_off acc))))) (acc ++ firstn t es) /\
    ((length (snd (add_all es (end_off acc))) <= j)%nat -> t = length es).
Proof.
  induction es as [|e r IH]; intros acc f Hg Hok Hlt.
  - cbn [add_all fst snd]. rewrite app_nil_r. split; [reflexivity|].
    intro j. exists 0%nat. rewrite firstn_nil. cbn [firstn]. rewrite app_nil_r.
    split; [lia|]. split; [exact Hg|reflexivity].
  - rewrite add_all_cons. cbn [fst snd].
    inversion Hok as [|? ? He Hr]; subst.
    assert (Hlt1 : end_off (acc ++ [e]) < two32).
    { replace (acc ++ e :: r) with ((acc ++ [e]) ++ r) in Hlt by now rewrite <- app_assoc.
      assert (H := end_off_app_le (acc ++ [e]) r). lia. }
    destruct (good_add f acc e Hg He Hlt1) as [Hg1 Hg2].
    rewrite <- end_off_snoc.
    set (f2 := rf_write (rf_write f (end_off acc) (enc_entry e)) LAST_RECORD_OFFSET_OFFSET
                        (pack_u32 (end_off (acc ++ [e])))) in *.
    assert (Hlt2 : end_off ((acc ++ [e]) ++ r) < two32) by now rewrite <- app_assoc.
    destruct (IH (acc ++ [e]) f2 Hg2 Hr Hlt2) as [Hfst Hj].
    split; [rewrite Hfst, <- app_assoc; reflexivity|].
    intros [|[|j]].
    + exists 0%nat. cbn [firstn]. rewrite app_nil_r. split; [lia|]. split; [exact Hg|].
      cbn [length]. lia.
    + exists 0%nat. cbn [firstn]. rewrite app_nil_r. split; [lia|]. split; [exact Hg1|].
      cbn [length]. lia.
    + destruct (Hj j) as (t & Ht & Hgt & Hfull).
      exists (S t). split; [cbn [length]; lia|]. split.
      * cbn [firstn]. unfold apply_file in *. cbn [fold_left].
        replace (acc ++ e :: firstn t r) with ((acc ++ [e]) ++ firstn t r) by now rewrite <- app_assoc.
        exact Hgt.
      * cbn [length]. intro Hlen. rewrite Hfull; [reflexivity|lia].
Qed.

(* ---------------------------------------------------------------- header rewrites of deleteEntriesFrom *)

Definition is_hdr_of (es : list entry) (lo : nat) (p : prim) : Prop :=
  exists t, (lo <= t <= length es)%nat /\ p = hdr_write (end_off (firstn t es)).

Lemma is_hdr_of_weaken es lo lo' p : (lo' <= lo)%nat -> is_hdr_of es lo p -> is_hdr_of es lo' p.
Proof. intros Hle (t & Ht & Hp). exists t. split; [lia|exact Hp]. Qed.

Lemma firstn_app_len {A} (a b : list A) : firstn (length a) (a ++ b) = a.
Proof. apply firstn_app_exact. reflexivity. Qed.

Lemma del_loop_spec mid : forall a b f x r,
  Lay f x (a ++ mid ++ b) ->
  Forall entry_ok (a ++ mid ++ b) -> end_off (a ++ mid ++ b) < two32 ->
  fst (del_loop (length mid) f (end_off (a ++ mid)) r) = end_off a /\
  Forall (is_hdr_of (a ++ mid ++ b) (length a)) (snd (del_loop (length mid) f (end_off (a ++ mid)) r)).
Proof.
  induction mid as [|e mid' IH] using rev_ind; intros a b f x r Hl Hok Hlt.
  - cbn [length del_loop fst snd]. rewrite app_nil_r. split; [reflexivity|constructor].
  - rewrite app_length. cbn [length]. rewrite Nat.add_1_r. cbn [del_loop].
    assert (Hes : a ++ (mid' ++ [e]) ++ b = (a ++ mid') ++ e :: b)
      by (rewrite <- !app_assoc; reflexivity).
    assert (Hes2 : a ++ (mid' ++ [e]) ++ b = a ++ mid' ++ (e :: b))
      by (rewrite <- !app_assoc; reflexivity).
    assert (Hcur : a ++ mid' ++ [e] = (a ++ mid') ++ [e]) by now rewrite app_assoc.
    rewrite Hcur.
    rewrite (lay_read_tailword f x (a ++ mid') e b) by (rewrite <- Hes; exact Hl).
    assert (He : entry_ok e).
    { rewrite Hes in Hok. apply Forall_app_r in Hok. now inversion Hok. }
    rewrite unpack_pack_u32
      by (destruct He as (_ & _ & Hd); rewrite zlen_edata in *; assert (H := zlen_nonneg (e_cmd e)); lia).
    replace (end_off ((a ++ mid') ++ [e]) - (zlen (edata e) + 8)) with (end_off (a ++ mid'))
      by (rewrite end_off_snoc, zlen_enc_entry, zlen_edata; lia).
    assert (Hthis : is_hdr_of (a ++ (mid' ++ [e]) ++ b) (length a) (hdr_write (end_off (a ++ mid')))).
    { exists (length (a ++ mid')). split.
      - rewrite Hes, !app_length. cbn [length]. lia.
      - rewrite Hes, firstn_app_len. reflexivity. }
    destruct ((r + 1) mod 10 =? 0).
    + destruct (del_loop (length mid') (rf_write f LAST_RECORD_OFFSET_OFFSET (pack_u32 (end_off (a ++ mid'))))
                         (end_off (a ++ mid')) (r + 1)) as [c ps] eqn:E.
      destruct (IH a (e :: b) (rf_write f LAST_RECORD_OFFSET_OFFSET (pack_u32 (end_off (a ++ mid'))))
                   (end_off (a ++ mid')) (r + 1)) as [H1 H2].
      * rewrite <- Hes2. (eapply lay_hdr_write; eassumption).
      * now rewrite <- Hes2.
      * now rewrite <- Hes2.
      * rewrite E in H1, H2. cbn [fst snd] in *. split; [exact H1|].
        constructor; [exact Hthis|]. rewrite Hes2. exact H2.
    + destruct (IH a (e :: b) f x (r + 1)) as [H1 H2].
      * now rewrite <- Hes2.
      * now rewrite <- Hes2.
      * now rewrite <- Hes2.
      * split; [exact H1|]. rewrite Hes2. exact H2.
Qed.

Lemma del_loop_fw n : forall f cur r, Forall is_fw (snd (del_loop n f cur r)).
Proof.
  induction n as [|n IH]; intros f cur r; [constructor|].
  cbn [del_loop]. destruct (_ =? 0).
  - destruct (del_loop n _ _ _) as [c ps] eqn:E. cbn [snd].
    constructor; [exact I|]. specialize (IH (rf_write f LAST_RECORD_OFFSET_OFFSET
      (pack_u32 (cur - (unpack_u32 (rf_read f (cur - 4) 4) + 8)))) (cur - (unpack_u32 (rf_read f (cur - 4) 4) + 8)) (r + 1)).
    rewrite E in IH. exact IH.
  - apply IH.
Qed.

(* any sequence of header rewrites pointing at record boundaries keeps the layout *)
Lemma hdr_writes_lay es lo : forall ps f x,
  Lay f x es -> Forall (is_hdr_of es lo) ps ->
  exists x', Lay (apply_file f ps) x' es /\
             (x' = x \/ exists t, (lo <= t <= length es)%nat /\ x' = end_off (firstn t es)).
Proof.
  induction ps as [|p ps IH]; intros f x Hl Hps.
  - exists x. split; [exact Hl|now left].
  - inversion Hps as [|? ? (t & Ht & Hp) Hr]; subst.
    unfold apply_file. cbn [fold_left hdr_write].
    destruct (IH (rf_write f LAST_RECORD_OFFSET_OFFSET (pack_u32 (end_off (firstn t es))))
                 (end_off (firstn t es)) (lay_hdr_write _ _ _ _ Hl) Hr) as (x' & Hl' & Hx').
    exists x'. split; [exact Hl'|]. right. destruct Hx' as [->|Hx']; [exists t; split; [exact Ht|reflexivity]|exact Hx'].
Qed.

Lemma good_firstn f es t :
  Lay f (end_off (firstn t es)) es -> Forall entry_ok es -> end_off es < two32 -> Good f (firstn t es).
Proof.
  intros Hl Hok Hlt.
  apply (good_prefix f (end_off (firstn t es)) (firstn t es) (skipn t es)); rewrite ?firstn_skipn; auto.
Qed.

(* ---------------------------------------------------------------- one operation, every kill point *)

Definition mk_entry (c : bytes) (i t : Z) : entry := {| e_cmd := c; e_idx := i; e_term := t |}.

Definition list_op (o : op) (L : list entry) : list entry :=
  match o with
  | OAdd c i t => L ++ [mk_entry c i t]
  | OClear => []
  | ODelFrom k => firstn (N.to_nat k) L
  | ODelTo k => skipn (N.to_nat k) L
  | _ => L
  end.

(* what a reopen may find after a kill inside o *)
Definition Post (o : op) (L L' : list entry) : Prop :=
  match o with
  | OAdd c i t => L' = L \/ L' = L ++ [mk_entry c i t]
  | OClear => L' = L \/ L' = []
  | ODelFrom k => exists t, (Nat.min (N.to_nat k) (length L) <= t <= length L)%nat /\ L' = firstn t L
  | ODelTo k => L' = L \/ exists t, (t <= length (skipn (N.to_nat k) L))%nat /\ L' = firstn t (skipn (N.to_nat k) L)
  | _ => L' = L
  end.

Lemma exec_add m d c i t :
  exec m d (OAdd c i t) =
  ({| m_entries := m_entries m ++ [mk_entry c i t]; m_cur := fst (add_all [mk_entry c i t] (m_cur m));
      m_meta := m_meta m; m_saved := m_saved m |}, snd (add_all [mk_entry c i t] (m_cur m))).
Proof. unfold exec, mk_entry. destruct (add_all _ _). reflexivity. Qed.

Lemma exec_delfrom m d k :
  exec m d (ODelFrom k) =
  let r := del_loop (length (m_entries m) - N.to_nat k) (d_file d) (m_cur m) 0 in
  ({| m_entries := firstn (N.to_nat k) (m_entries m); m_cur := fst r; m_meta := m_meta m; m_saved := m_saved m |},
   snd r ++ [hdr_write (fst r)]).
Proof. unfold exec. destruct (del_loop _ _ _ _). reflexivity. Qed.

Lemma exec_delto m d k :
  exec m d (ODelTo k) =
  let r := add_all (skipn (N.to_nat k) (m_entries m)) FIRST_RECORD_OFFSET in
  ({| m_entries := skipn (N.to_nat k) (m_entries m); m_cur := fst r; m_meta := m_meta m; m_saved := m_saved m |},
   hdr_write FIRST_RECORD_OFFSET :: snd r).
Proof. unfold exec. destruct (add_all _ _). reflexivity. Qed.

Lemma exec_entries m d o : m_entries (fst (exec m d o)) = list_op o (m_entries m).
Proof.
  destruct o.
  - now rewrite exec_add.
  - reflexivity.
  - now rewrite exec_delfrom.
  - now rewrite exec_delto.
  - reflexivity.
  - cbn [exec]. destruct (m_saved m); reflexivity.
Qed.

Lemma good_clear f L : Good f L -> Good (rf_write f LAST_RECORD_OFFSET_OFFSET (pack_u32 FIRST_RECORD_OFFSET)) [].
Proof.
  intros (Hl & _ & _). split; [|split; [constructor|reflexivity]].
  apply (lay_prefix _ _ [] L). cbn [app]. rewrite end_off_nil. (eapply lay_hdr_write; eassumption).
Qed.

Lemma entry_ok_of_fits m c i t :
  m_cur m = end_off (m_entries m) -> op_fits m (OAdd c i t) ->
  entry_ok (mk_entry c i t) /\ end_off (m_entries m ++ [mk_entry c i t]) < two32.
Proof.
  intros Hcur (Hi & Ht & Hlt). cbn [op_fits] in *.
  assert (Hc := zlen_nonneg c). assert (Hge := end_off_ge (m_entries m)).
  split.
  - repeat split; try apply Hi; try apply Ht. rewrite zlen_edata. cbn [mk_entry e_cmd]. lia.
  - rewrite end_off_snoc, zlen_enc_entry. cbn [mk_entry e_cmd]. lia.
Qed.

Theorem exec_kill m d o :
  Good (d_file d) (m_entries m) -> m_cur m = end_off (m_entries m) -> op_fits m o ->
  m_cur (fst (exec m d o)) = end_off (m_entries (fst (exec m d o))) /\
  forall j, exists L',
    Good (apply_file (d_file d) (firstn j (snd (exec m d o)))) L' /\
    Post o (m_entries m) L' /\
    ((length (snd (exec m d o)) <= j)%nat -> L' = m_entries (fst (exec m d o))).
Proof.
  intros Hg Hcur Hfit. set (L := m_entries m) in *.
  destruct o as [c i t| |k|k|v|].
  - (* add *)
    destruct (entry_ok_of_fits m c i t Hcur Hfit) as [He Hlt].
    rewrite exec_add. cbn [fst snd m_cur m_entries]. rewrite Hcur.
    destruct (add_all_spec [mk_entry c i t] L (d_file d) Hg) as [Hfst Hj];
      [constructor; [exact He|constructor]|exact Hlt|].
    split; [exact Hfst|].
    intro j. destruct (Hj j) as (t' & Ht' & Hgt & Hfull).
    exists (L ++ firstn t' [mk_entry c i t]). split; [exact Hgt|]. split.
    + cbn [Post]. destruct t' as [|t']; cbn [firstn]; [left; apply app_nil_r|right].
      now rewrite firstn_nil.
    + intro Hlen. rewrite (Hfull Hlen). reflexivity.
  - (* clear *)
    cbn [exec fst snd m_cur m_entries]. split; [reflexivity|].
    intros [|j].
    + exists L. split; [exact Hg|]. split; [now left|]. cbn [length]. lia.
    + exists []. cbn [firstn]. rewrite firstn_nil. unfold apply_file. cbn [fold_left hdr_write].
      split; [eapply good_clear; exact Hg|]. split; [now right|reflexivity].
  - (* deleteEntriesFrom *)
    rewrite exec_delfrom. cbv zeta. cbn [fst snd m_cur m_entries]. fold L.
    set (kn := N.to_nat k). set (n := (length L - kn)%nat).
    set (lo := Nat.min kn (length L)).
    assert (Hsplit : L = firstn lo L ++ firstn n (skipn lo L) ++ []).
    { rewrite app_nil_r. rewrite <- (firstn_skipn lo L) at 1. f_equal.
      symmetry. apply firstn_all2. rewrite skipn_length. unfold n, lo. lia. }
    assert (Hlen_mid : length (firstn n (skipn lo L)) = n)
      by (rewrite firstn_length, skipn_length; unfold n, lo; lia).
    assert (Hlen_a : length (firstn lo L) = lo) by (rewrite firstn_length; unfold lo; lia).
    destruct Hg as (Hl & Hok & Hlt).
    destruct (del_loop_spec (firstn n (skipn lo L)) (firstn lo L) [] (d_file d) (end_off L) 0) as [Hfst Hps];
      [rewrite <- Hsplit; exact Hl|rewrite <- Hsplit; exact Hok|rewrite <- Hsplit; exact Hlt|].
    rewrite Hlen_mid, Hlen_a, <- Hsplit in *.
    replace (firstn lo L ++ firstn n (skipn lo L)) with L in Hfst, Hps by (rewrite app_nil_r in Hsplit; exact Hsplit).
    rewrite Hcur. rewrite Hfst.
    assert (Hlo : firstn lo L = firstn kn L).
    { unfold lo. destruct (Nat.le_ge_cases kn (length L)) as [H|H].
      - now rewrite Nat.min_l.
      - rewrite Nat.min_r by exact H. rewrite !firstn_all2; [reflexivity|exact H|lia]. }
    split; [now rewrite Hlo|].
    set (ps := snd (del_loop n (d_file d) (end_off L) 0)) in *.
    assert (Hall : Forall (is_hdr_of L lo) (ps ++ [hdr_write (end_off (firstn lo L))])).
    { apply Forall_app. split; [exact Hps|]. constructor; [|constructor].
      exists lo. split; [unfold lo; lia|reflexivity]. }
    intro j.
    destruct (Nat.le_gt_cases (length (ps ++ [hdr_write (end_off (firstn lo L))])) j) as [Hfull|Hpart].
    + (* complete *)
      rewrite firstn_all2 by exact Hfull. rewrite apply_file_app.
      destruct (hdr_writes_lay L lo ps (d_file d) (end_off L) Hl Hps) as (x' & Hl' & _).
      exists (firstn lo L). split; [|split].
      * unfold apply_file at 1. cbn [fold_left hdr_write].
        apply good_firstn; [eapply lay_hdr_write; eassumption|exact Hok|exact Hlt].
      * cbn [Post]. exists lo. fold kn. fold lo. split; [unfold lo; lia|reflexivity].
      * intros _. exact Hlo.
    + (* killed inside *)
      assert (Hpre : Forall (is_hdr_of L lo) (firstn j (ps ++ [hdr_write (end_off (firstn lo L))]))).
      { rewrite <- (firstn_skipn j (ps ++ _)) in Hall. eapply Forall_app_l; exact Hall. }
      destruct (hdr_writes_lay L lo _ (d_file d) (end_off L) Hl Hpre) as (x' & Hl' & Hx').
      assert (Hx'' : exists t, (lo <= t <= length L)%nat /\ x' = end_off (firstn t L)).
      { destruct Hx' as [->|Hx']; [|exact Hx']. exists (length L). split; [unfold lo; lia|].
        now rewrite firstn_all. }
      destruct Hx'' as (t & Ht & ->).
      exists (firstn t L). split; [now apply good_firstn|]. split.
      * cbn [Post]. exists t. fold kn. fold lo. split; [exact Ht|reflexivity].
      * intro Hc. lia.
  - (* deleteEntriesTo *)
    rewrite exec_delto. cbv zeta. cbn [fst snd m_cur m_entries]. fold L.
    set (kept := skipn (N.to_nat k) L).
    assert (Hg0 := good_clear _ _ Hg).
    destruct Hg as (Hl & Hok & Hlt).
    assert (Hokk : Forall entry_ok kept).
    { unfold kept. rewrite <- (firstn_skipn (N.to_nat k) L) in Hok. eapply Forall_app_r; exact Hok. }
    assert (Hltk : end_off ([] ++ kept) < two32).
    { cbn [app]. unfold kept. assert (H := end_off_suffix_le (firstn (N.to_nat k) L) (skipn (N.to_nat k) L)).
      rewrite firstn_skipn in H. lia. }
    destruct (add_all_spec kept [] _ Hg0 Hokk Hltk) as [Hfst Hj].
    rewrite end_off_nil in *. change FIRST_RECORD_OFFSET with 40 in *.
    cbn [app] in Hfst. split; [exact Hfst|].
    intros [|j].
    + exists L. split; [split; [exact Hl|split; assumption]|]. split; [now left|]. cbn [length]. lia.
    + destruct (Hj j) as (t & Ht & Hgt & Hfull). cbn [app] in Hgt.
      exists (firstn t kept). split; [|split].
      * cbn [firstn]. unfold apply_file in *. cbn [fold_left hdr_write]. exact Hgt.
      * cbn [Post]. right. exists t. split; [exact Ht|reflexivity].
      * cbn [length]. intro Hlen. rewrite Hfull by lia. apply firstn_all.
  - (* setRaftCommitIndex *)
    cbn [exec fst snd m_cur m_entries]. split; [exact Hcur|].
    intro j. exists L. rewrite firstn_nil. split; [exact Hg|]. split; reflexivity.
  - (* onOneSecondTimer *)
    cbn [exec]. destruct (m_saved m); cbn [fst snd m_cur m_entries]; (split; [exact Hcur|]).
    + intro j. exists L. rewrite firstn_nil. split; [exact Hg|]. split; reflexivity.
    + intro j. exists L. split; [|split; reflexivity].
      destruct (m_meta m); [|rewrite firstn_nil; exact Hg].
      destruct j as [|[|[|j]]]; exact Hg.
Qed.
