(* Histories: the representation invariant survives every operation, reopen and kill; the
   theorems of property C08. *)
From Coq Require Import ZArith NArith List Lia Bool.
From PSO Require Import Base.PyBytes Base.PyBytesFacts Journal.Model Journal.ProofsBytes Journal.Proofs.
Import ListNotations.
Open Scope Z_scope.

#[local] Arguments pack_u32 : simpl never.
#[local] Arguments pack_u64 : simpl never.
#[local] Arguments unpack_u32 : simpl never.
#[local] Arguments unpack_u64 : simpl never.
#[local] Arguments enc_entry : simpl never.
#[local] Arguments edata : simpl never.
#[local] Arguments rf_read : simpl never.
#[local] Arguments rf_write : simpl never.
#[local] Arguments zeros : simpl never.
#[local] Arguments new_size : simpl never.
#[local] Arguments pad_file : simpl never.

(* ---------------------------------------------------------------- the fresh journal *)

Lemma inv_init ver : zlen ver < 8 -> Inv (init_state ver).
Proof.
  intro Hv. split; [|reflexivity].
  cbn [init_state fst snd init_disk init_mem d_file m_entries].
  apply good_pad. split; [|split; [constructor|reflexivity]].
  exists (APP_NAME ++ zeros (24 - zlen APP_NAME) ++ ver ++ zeros (8 - zlen ver) ++ pack_u32 1), [].
  split.
  - rewrite !app_length, !zeros_length, pack_u32_length.
    change (zlen APP_NAME) with 9. change (length APP_NAME) with 9%nat.
    assert (H := zlen_nonneg ver). unfold zlen in *. lia.
  - unfold default_header. rewrite end_off_nil. cbn [enc_all]. rewrite <- !app_assoc. reflexivity.
Qed.

(* ---------------------------------------------------------------- one step *)

Lemma kill_reopen m d o j :
  Inv (m, d) -> op_fits m o ->
  exists L',
    reopen (apply_prims d (firstn j (snd (exec m d o)))) =
      Some {| m_entries := L'; m_cur := end_off L';
              m_meta := d_meta (apply_prims d (firstn j (snd (exec m d o)))); m_saved := true |} /\
    Good (d_file (apply_prims d (firstn j (snd (exec m d o))))) L' /\
    Post o (m_entries m) L' /\
    ((length (snd (exec m d o)) <= j)%nat -> L' = list_op o (m_entries m)).
Proof.
  intros [Hg Hcur] Hfit. cbn [fst snd] in *.
  destruct (exec_kill m d o Hg Hcur Hfit) as [_ Hj].
  destruct (Hj j) as (L' & HgL & HP & Hfull).
  exists L'. rewrite <- apply_prims_file in HgL.
  split; [now apply good_reopen|]. split; [exact HgL|]. split; [exact HP|].
  intro Hlen. rewrite (Hfull Hlen). apply exec_entries.
Qed.

Lemma step_inv s st :
  Inv s -> match step_op st with Some o => op_fits (fst s) o | None => True end ->
  exists s', do_step s st = Some s' /\ Inv s'.
Proof.
  destruct s as [m d]. intros HI Hfit. destruct st as [o| |o j]; cbn [step_op fst] in Hfit.
  - (* complete operation *)
    destruct HI as [Hg Hcur]. cbn [fst snd] in *.
    destruct (exec_kill m d o Hg Hcur Hfit) as [Hc Hj].
    destruct (Hj (length (snd (exec m d o)))) as (L' & HgL & _ & Hfull).
    rewrite firstn_all, <- apply_prims_file in HgL. rewrite (Hfull (le_n _)) in HgL.
    cbn [do_step]. destruct (exec m d o) as [m' ps]. cbn [fst snd] in *.
    eexists. split; [reflexivity|]. split; cbn [fst snd]; assumption.
  - (* reopen *)
    destruct HI as [Hg Hcur]. cbn [fst snd] in *.
    cbn [do_step]. rewrite (good_reopen d _ Hg).
    eexists. split; [reflexivity|]. split; cbn [fst snd open_disk d_file m_entries m_cur]; [|reflexivity].
    now apply good_pad.
  - (* kill *)
    destruct (kill_reopen m d o j HI Hfit) as (L' & Hre & HgL & _ & _).
    cbn [do_step]. destruct (exec m d o) as [m' ps]. cbn [fst snd] in *.
    rewrite Hre. eexists. split; [reflexivity|].
    split; cbn [fst snd open_disk d_file m_entries m_cur]; [|reflexivity].
    now apply good_pad.
Qed.

Lemma run_inv h : forall s, Inv s -> run_fits s h -> exists s', run s h = Some s' /\ Inv s'.
Proof.
  induction h as [|st r IH]; intros s HI Hfit.
  - exists s. split; [reflexivity|exact HI].
  - cbn [run_fits] in Hfit. destruct Hfit as [Hop Hrest].
    destruct (step_inv s st HI Hop) as (s1 & Hs1 & HI1).
    cbn [run]. rewrite Hs1 in *. apply IH; assumption.
Qed.

(* ---------------------------------------------------------------- (1) refinement of the plain list *)

Definition Rel (l : lst) (s : state) : Prop :=
  m_entries (fst s) = l_entries l /\
  m_meta (fst s) = l_commit l /\
  d_meta (snd s) = l_flushed l /\
  (m_saved (fst s) = true -> l_commit l = l_flushed l) /\
  (m_saved (fst s) = false -> m_meta (fst s) <> None).

Lemma lst_op_entries l o : l_entries (lst_op l o) = list_op o (l_entries l).
Proof. destruct o; reflexivity. Qed.

Lemma exec_fw_meta m d o :
  match o with OSetCommit _ | OTimer => False | _ => True end ->
  Forall is_fw (snd (exec m d o)) /\ m_meta (fst (exec m d o)) = m_meta m /\ m_saved (fst (exec m d o)) = m_saved m.
Proof.
  destruct o; intro H; try contradiction.
  - rewrite exec_add. cbn [fst snd m_meta m_saved]. split; [apply add_all_fw|split; reflexivity].
  - cbn [exec fst snd m_meta m_saved]. split; [repeat constructor|split; reflexivity].
  - rewrite exec_delfrom. cbv zeta. cbn [fst snd m_meta m_saved]. split; [|split; reflexivity].
    apply Forall_app. split; [apply del_loop_fw|repeat constructor].
  - rewrite exec_delto. cbv zeta. cbn [fst snd m_meta m_saved]. split; [|split; reflexivity].
    constructor; [exact I|apply add_all_fw].
Qed.

Lemma op_rel l m d o :
  Rel l (m, d) ->
  Rel (lst_op l o) (fst (exec m d o), apply_prims d (snd (exec m d o))).
Proof.
  intros (He & Hm & Hd & Hs & Hu). cbn [fst snd] in *.
  assert (Hent : m_entries (fst (exec m d o)) = l_entries (lst_op l o))
    by (rewrite exec_entries, lst_op_entries, He; reflexivity).
  destruct o as [c i t| |k|k|v|].
  1-4: (match goal with |- Rel _ (fst (exec _ _ ?o), _) =>
          destruct (exec_fw_meta m d o I) as (Hfw & Hmm & Hss) end;
        destruct (apply_prims_meta _ d Hfw) as [Hdm _];
        split; [exact Hent|]; cbn [fst snd lst_op l_commit l_flushed];
        rewrite Hmm, Hss, Hdm; repeat split; assumption).
  - (* setRaftCommitIndex *)
    split; [exact Hent|]. cbn [exec fst snd apply_prims fold_left lst_op l_commit l_flushed m_meta m_saved].
    repeat split; try assumption; try discriminate.
  - (* onOneSecondTimer *)
    split; [exact Hent|]. cbn [exec lst_op l_commit l_flushed].
    destruct (m_saved m) eqn:Es; cbn [fst snd m_meta m_saved apply_prims fold_left].
    + specialize (Hs eq_refl). repeat split; try assumption; try congruence.
    + destruct (m_meta m) as [v|] eqn:Em; [|exfalso; now apply Hu].
      cbn [fold_left apply_prim d_tmp d_meta]. repeat split; try assumption; try reflexivity; try discriminate.
Qed.

Lemma step_rel l s st s' :
  Inv s -> Rel l s -> match st with SKill _ _ => False | _ => True end ->
  do_step s st = Some s' -> Rel (lst_step l st) s'.
Proof.
  destruct s as [m d]. intros HI HR Hk Hstep. destruct st as [o| |o j]; [| |contradiction].
  - cbn [do_step] in Hstep. assert (H := op_rel l m d o HR).
    destruct (exec m d o) as [m' ps]. cbn [fst snd] in H. inversion Hstep; subst. exact H.
  - destruct HI as [Hg _]. cbn [fst snd] in Hg. cbn [do_step] in Hstep.
    rewrite (good_reopen d _ Hg) in Hstep. inversion Hstep; subst.
    destruct HR as (He & Hm & Hd & Hs & Hu). cbn [fst snd] in *.
    repeat split; cbn [fst snd lst_step l_entries l_commit l_flushed m_entries m_meta m_saved open_disk d_meta];
      try assumption; try reflexivity; try discriminate.
Qed.

Definition C08_refines_list_stmt : Prop :=
  forall ver h, zlen ver < 8 -> killfree h -> run_fits (init_state ver) h ->
  exists m d, run (init_state ver) h = Some (m, d) /\
    m_entries m = l_entries (lst_run lst_init h) /\
    get_commit m = commit_of (l_commit (lst_run lst_init h)) /\
    exists m', reopen d = Some m' /\
      m_entries m' = l_entries (lst_run lst_init h) /\
      get_commit m' = commit_of (l_flushed (lst_run lst_init h)) /\
      m_cur m' = m_cur m.

Lemma run_rel h : forall s l,
  Inv s -> Rel l s -> killfree h -> run_fits s h ->
  exists s', run s h = Some s' /\ Inv s' /\ Rel (lst_run l h) s'.
Proof.
  induction h as [|st r IH]; intros s l HI HR Hk Hfit.
  - exists s. split; [reflexivity|split; assumption].
  - cbn [run_fits] in Hfit. destruct Hfit as [Hop Hrest].
    destruct (step_inv s st HI Hop) as (s1 & Hs1 & HI1).
    assert (Hk1 : match st with SKill _ _ => False | _ => True end /\ killfree r)
      by (destruct st; cbn [killfree] in Hk; tauto).
    destruct Hk1 as [Hk1 Hkr].
    assert (HR1 := step_rel l s st s1 HI HR Hk1 Hs1).
    cbn [run]. rewrite Hs1 in *. unfold lst_run. cbn [fold_left].
    apply IH; assumption.
Qed.

Theorem refines_list : C08_refines_list_stmt.
Proof.
  intros ver h Hv Hk Hfit.
  assert (HR0 : Rel lst_init (init_state ver)).
  { repeat split; try reflexivity. cbn. discriminate. }
  destruct (run_rel h _ _ (inv_init ver Hv) HR0 Hk Hfit) as ([m d] & Hrun & [Hg Hcur] & (He & Hm & Hd & _ & _)).
  cbn [fst snd] in *.
  exists m, d. split; [exact Hrun|]. split; [exact He|]. split; [unfold get_commit; now rewrite Hm|].
  eexists. split; [apply (good_reopen d _ Hg)|].
  cbn [m_entries m_cur get_commit m_meta]. rewrite Hd. repeat split; try assumption. now symmetry.
Qed.

(* a non-trivial history satisfying the hypotheses: 12 adds, a drop tail that rewrites the header
   in the middle, a commit index flushed, a reopen, a drop head *)
Definition ex_history : list step :=
  map (fun i => SOp (OAdd [Z.to_N i; 7%N] i 1)) [1;2;3;4;5;6;7;8;9;10;11;12]
  ++ [SOp (ODelFrom 1); SOp (OSetCommit 9); SOp OTimer; SReopen; SOp (OAdd (pattern 2000 1 1) 13 2);
      SOp (ODelTo 1); SReopen].

Example refines_list_nonvacuous :
  zlen ([48; 46; 51; 46; 57]%N : bytes) < 8 /\ killfree ex_history /\
  run_fits (init_state [48; 46; 51; 46; 57]%N) ex_history /\
  length (l_entries (lst_run lst_init ex_history)) = 1%nat.
Proof.
  split; [reflexivity|]. split; [exact I|]. split; [|reflexivity].
  vm_compute. intuition (try discriminate; try reflexivity).
Qed.

(* ---------------------------------------------------------------- (2) (3) kill safety *)

Definition after_kill (m : mem) (d : disk) (o : op) (j : nat) : option mem :=
  reopen (apply_prims d (firstn j (snd (exec m d o)))).

Definition C08_append_atomic_stmt : Prop :=
  forall ver h m d c i t j, zlen ver < 8 ->
  run_fits (init_state ver) h -> run (init_state ver) h = Some (m, d) -> op_fits m (OAdd c i t) ->
  exists m', after_kill m d (OAdd c i t) j = Some m' /\
    (m_entries m' = m_entries m \/ m_entries m' = m_entries m ++ [mk_entry c i t]).

Lemma reach_inv ver h s : zlen ver < 8 -> run_fits (init_state ver) h -> run (init_state ver) h = Some s -> Inv s.
Proof.
  intros Hv Hfit Hrun. destruct (run_inv h _ (inv_init ver Hv) Hfit) as (s' & Hs' & HI).
  rewrite Hrun in Hs'. inversion Hs'; subst. exact HI.
Qed.

Theorem append_atomic : C08_append_atomic_stmt.
Proof.
  intros ver h m d c i t j Hv Hfit Hrun Hop.
  destruct (kill_reopen m d (OAdd c i t) j (reach_inv ver h _ Hv Hfit Hrun) Hop) as (L' & Hre & _ & HP & _).
  eexists. split; [exact Hre|]. exact HP.
Qed.

Definition C08_clear_atomic_stmt : Prop :=
  forall ver h m d j, zlen ver < 8 ->
  run_fits (init_state ver) h -> run (init_state ver) h = Some (m, d) ->
  exists m', after_kill m d OClear j = Some m' /\ (m_entries m' = m_entries m \/ m_entries m' = []).

Theorem clear_atomic : C08_clear_atomic_stmt.
Proof.
  intros ver h m d j Hv Hfit Hrun.
  destruct (kill_reopen m d OClear j (reach_inv ver h _ Hv Hfit Hrun) I) as (L' & Hre & _ & HP & _).
  eexists. split; [exact Hre|]. exact HP.
Qed.

Definition C08_drop_tail_safe_stmt : Prop :=
  forall ver h m d k j, zlen ver < 8 ->
  run_fits (init_state ver) h -> run (init_state ver) h = Some (m, d) ->
  exists m' t, after_kill m d (ODelFrom k) j = Some m' /\
    (Nat.min (N.to_nat k) (length (m_entries m)) <= t <= length (m_entries m))%nat /\
    m_entries m' = firstn t (m_entries m).

Theorem drop_tail_safe : C08_drop_tail_safe_stmt.
Proof.
  intros ver h m d k j Hv Hfit Hrun.
  destruct (kill_reopen m d (ODelFrom k) j (reach_inv ver h _ Hv Hfit Hrun) I) as (L' & Hre & _ & (t & Ht & HL) & _).
  eexists. exists t. split; [exact Hre|]. split; [exact Ht|exact HL].
Qed.

(* what deleteEntriesTo does guarantee: a killed drop-head reopens to the old list or to a prefix of
   the entries that were to be kept -- and a prefix is not enough (see drop_head_refuted) *)
Definition C08_drop_head_prefix_of_kept_stmt : Prop :=
  forall ver h m d k j, zlen ver < 8 ->
  run_fits (init_state ver) h -> run (init_state ver) h = Some (m, d) ->
  exists m', after_kill m d (ODelTo k) j = Some m' /\
    (m_entries m' = m_entries m \/
     exists t, (t <= length (skipn (N.to_nat k) (m_entries m)))%nat /\
               m_entries m' = firstn t (skipn (N.to_nat k) (m_entries m))).

Theorem drop_head_prefix_of_kept : C08_drop_head_prefix_of_kept_stmt.
Proof.
  intros ver h m d k j Hv Hfit Hrun.
  destruct (kill_reopen m d (ODelTo k) j (reach_inv ver h _ Hv Hfit Hrun) I) as (L' & Hre & _ & HP & _).
  eexists. split; [exact Hre|]. exact HP.
Qed.

(* the kill-safety statement for drop head, as the property text has it: the reopened journal is a
   contiguous range of the old entries that contains everything from index k on *)
Definition C08_drop_head_safe_full : Prop :=
  forall ver h m d k j, zlen ver < 8 ->
  run_fits (init_state ver) h -> run (init_state ver) h = Some (m, d) ->
  exists m', after_kill m d (ODelTo k) j = Some m' /\
    exists a, (a <= N.to_nat k)%nat /\ m_entries m' = skipn a (m_entries m).

Definition d6_history : list step := [SOp (OAdd [1%N] 1 1); SOp (OAdd [2%N] 2 1); SOp (OAdd [3%N] 3 1)].

Definition C08_drop_head_refuted_stmt : Prop :=
  exists ver h m d k j m',
    zlen ver < 8 /\ run_fits (init_state ver) h /\ run (init_state ver) h = Some (m, d) /\
    after_kill m d (ODelTo k) j = Some m' /\
    ~ (exists a, (a <= N.to_nat k)%nat /\ m_entries m' = skipn a (m_entries m)).

Definition d6_state : state :=
  match run (init_state []) d6_history with Some s => s | None => init_state [] end.

Theorem drop_head_refuted : C08_drop_head_refuted_stmt.
Proof.
  exists [], d6_history, (fst d6_state), (snd d6_state), 1%N, 1%nat.
  eexists.
  split; [reflexivity|].
  split; [vm_compute; intuition (try discriminate; try reflexivity)|].
  split; [vm_compute; reflexivity|].
  split; [vm_compute; reflexivity|].
  intros (a & Ha & Heq). cbn [m_entries] in Heq. vm_compute in Heq.
  destruct a as [|[|a]]; try discriminate. vm_compute in Ha. lia.
Qed.

Lemma drop_head_safe_full_false : ~ C08_drop_head_safe_full.
Proof.
  intro H. destruct drop_head_refuted as (ver & h & m & d & k & j & m' & Hv & Hf & Hr & Hk & Hn).
  destruct (H ver h m d k j Hv Hf Hr) as (m'' & Hk' & Ha). rewrite Hk in Hk'. inversion Hk'; subst. tauto.
Qed.

(* ---------------------------------------------------------------- (4) the stored commit index *)

Definition opt_in (o : option Z) (S : list Z) : Prop := match o with Some v => In v S | None => True end.

Definition MetaInv (S : list Z) (s : state) : Prop :=
  opt_in (m_meta (fst s)) S /\ opt_in (d_meta (snd s)) S /\ opt_in (d_tmp (snd s)) S.

Lemma opt_in_mono o S S' : (forall v, In v S -> In v S') -> opt_in o S -> opt_in o S'.
Proof. destruct o; cbn; auto. Qed.

Lemma prims_meta S ps : forall d,
  (forall v, In (TmpWrite v) ps -> In v S) ->
  opt_in (d_meta d) S -> opt_in (d_tmp d) S ->
  opt_in (d_meta (apply_prims d ps)) S /\ opt_in (d_tmp (apply_prims d ps)) S.
Proof.
  induction ps as [|p ps IH]; intros d Hin Hm Ht; [split; assumption|].
  unfold apply_prims in *. cbn [fold_left].
  apply IH.
  - intros v Hv. apply Hin. now right.
  - destruct p; cbn [apply_prim d_meta]; try assumption. destruct (d_tmp d) eqn:E; cbn [d_meta]; assumption.
  - destruct p; cbn [apply_prim d_tmp]; try assumption.
    + cbn [opt_in]. apply Hin. now left.
    + destruct (d_tmp d) eqn:E; cbn [d_tmp opt_in]; [exact I|now rewrite E].
Qed.

Lemma exec_tmp_values m d o v : In (TmpWrite v) (snd (exec m d o)) -> m_meta m = Some v.
Proof.
  destruct o as [c i t| |k|k|w|]; intro Hin.
  1-4: (exfalso; match goal with H : In _ (snd (exec _ _ ?o)) |- _ =>
          destruct (exec_fw_meta m d o I) as (Hfw & _) end;
        rewrite Forall_forall in Hfw; apply (Hfw _ Hin)).
  - cbn [exec snd] in Hin. contradiction.
  - cbn [exec] in Hin. destruct (m_saved m); cbn [snd] in Hin; [contradiction|].
    destruct (m_meta m) as [x|]; [|contradiction].
    destruct Hin as [H|[H|[]]]; [now inversion H|discriminate].
Qed.

Lemma exec_meta_in S m d o :
  opt_in (m_meta m) S ->
  opt_in (m_meta (fst (exec m d o))) (S ++ match o with OSetCommit v => [v] | _ => [] end).
Proof.
  intro H.
  assert (Hmono : forall X, opt_in (m_meta m) (S ++ X)) by (intro X; eapply opt_in_mono; [|exact H]; intros; apply in_or_app; now left).
  destruct o as [c i t| |k|k|w|].
  1-4: (match goal with |- opt_in (m_meta (fst (exec _ _ ?o))) _ =>
          destruct (exec_fw_meta m d o I) as (_ & Hmm & _) end; rewrite Hmm; apply Hmono).
  - cbn [exec fst m_meta opt_in]. apply in_or_app. right. now left.
  - cbn [exec]. destruct (m_saved m); cbn [fst m_meta]; apply Hmono.
Qed.

Lemma sets_of_cons st r :
  sets_of (st :: r) = match step_op st with Some (OSetCommit v) => [v] | _ => [] end ++ sets_of r.
Proof. cbn [sets_of]. destruct (step_op st) as [[]|]; reflexivity. Qed.

Lemma step_meta S s st s' :
  MetaInv S s -> do_step s st = Some s' ->
  MetaInv (S ++ match step_op st with Some (OSetCommit v) => [v] | _ => [] end) s'.
Proof.
  destruct s as [m d]. intros (Hm & Hd & Ht) Hstep. cbn [fst snd] in *.
  set (X := match step_op st with Some (OSetCommit v) => [v] | _ => [] end).
  assert (Hmono : forall o, opt_in o S -> opt_in o (S ++ X))
    by (intros o Ho; eapply opt_in_mono; [|exact Ho]; intros; apply in_or_app; now left).
  assert (Hprims : forall o ps, (forall v, In v ps -> In v (snd (exec m d o))) ->
            opt_in (d_meta (apply_prims d ps)) (S ++ X) /\ opt_in (d_tmp (apply_prims d ps)) (S ++ X)).
  { intros o ps Hsub. apply prims_meta; try (apply Hmono; assumption).
    intros v Hv. apply Hsub in Hv. apply exec_tmp_values in Hv.
    rewrite Hv in Hm. apply in_or_app. now left. }
  destruct st as [o| |o j]; cbn [do_step step_op] in *.
  - assert (Hme := exec_meta_in S m d o Hm).
    destruct (Hprims o (snd (exec m d o)) (fun v H => H)) as [H1 H2].
    destruct (exec m d o) as [m' ps]. inversion Hstep; subst. cbn [fst snd] in *.
    split; [exact Hme|split; assumption].
  - destruct (reopen d) as [m'|] eqn:E; [|discriminate]. inversion Hstep; subst.
    unfold reopen in E. destruct (parse_file _) as [[es c]|]; [|discriminate]. inversion E; subst.
    cbn [fst snd m_meta open_disk d_meta d_tmp]. unfold X. rewrite app_nil_r. repeat split; assumption.
  - destruct (Hprims o (firstn j (snd (exec m d o))))
      as [H1 H2]; [intros v Hv; rewrite <- (firstn_skipn j (snd (exec m d o))); apply in_or_app; now left|].
    destruct (exec m d o) as [m' ps]. cbn [snd] in *.
    destruct (reopen _) as [m''|] eqn:E; [|discriminate]. inversion Hstep; subst.
    unfold reopen in E. destruct (parse_file _) as [[es c]|]; [|discriminate]. inversion E; subst.
    cbn [fst snd m_meta open_disk d_meta d_tmp]. repeat split; assumption.
Qed.

Lemma run_meta h : forall S s s', MetaInv S s -> run s h = Some s' -> MetaInv (S ++ sets_of h) s'.
Proof.
  induction h as [|st r IH]; intros S s s' HM Hrun.
  - cbn [run] in Hrun. inversion Hrun; subst. cbn [sets_of]. now rewrite app_nil_r.
  - cbn [run] in Hrun. destruct (do_step s st) as [s1|] eqn:E; [|discriminate].
    rewrite sets_of_cons, app_assoc. eapply IH; [|exact Hrun]. eapply step_meta; eassumption.
Qed.

(* after any history -- kills at any primitive write included -- the commit index of the live
   object and the one a reopen reads back are the default or a value that was set *)
Definition C08_meta_is_a_set_value_stmt : Prop :=
  forall ver h m d, run (init_state ver) h = Some (m, d) ->
  In (get_commit m) (1 :: sets_of h) /\
  forall m', reopen d = Some m' -> In (get_commit m') (1 :: sets_of h).

Theorem meta_is_a_set_value : C08_meta_is_a_set_value_stmt.
Proof.
  intros ver h m d Hrun.
  assert (H0 : MetaInv [] (init_state ver)) by (repeat split; exact I).
  destruct (run_meta h [] _ _ H0 Hrun) as (Hm & Hd & _). cbn [fst snd app] in *.
  split.
  - unfold get_commit. destruct (m_meta m); [right; exact Hm|now left].
  - intros m' Hre. unfold reopen in Hre. destruct (parse_file _) as [[es c]|]; [|discriminate].
    inversion Hre; subst. unfold get_commit. cbn [m_meta]. destruct (d_meta d); [right; exact Hd|now left].
Qed.

(* ---------------------------------------------------------------- D5, positively *)

(* the write of any record into any journal file reachable from a fresh one fits the mapping after
   the resize: no IndexError, whatever the record size *)
Definition C08_write_fits_stmt : Prop :=
  forall f off vals, 0 <= off <= zlen f -> 0 < zlen f ->
  off + zlen vals <= zlen (rf_write f off vals) /\ zlen f <= zlen (rf_write f off vals).

Theorem write_fits : C08_write_fits_stmt.
Proof.
  intros f off vals Hoff Hf.
  destruct (rf_write_length f off vals Hoff Hf) as [Hl Hmono].
  destruct (new_size_fits (zlen f) (off + zlen vals) Hf) as [Hfit _].
  rewrite Hl. split; [exact Hfit|]. rewrite <- Hl. exact Hmono.
Qed.

(* ---------------------------------------------------------------- the hypotheses are satisfiable *)

Definition ex_ver : bytes := [48; 46; 51; 46; 57]%N.

(* after ex_history (reached without ever breaking the guard) the journal holds one 2000-byte
   entry; a further append of 100000 bytes is within the guard: the kill theorems apply to it *)
Example kill_hyps_nonvacuous :
  exists m d, zlen ex_ver < 8 /\ run_fits (init_state ex_ver) ex_history /\
    run (init_state ex_ver) ex_history = Some (m, d) /\
    op_fits m (OAdd (pattern 100000 3 5) 77 2) /\ length (m_entries m) = 1%nat /\ zlen (d_file d) = 4096.
Proof.
  eexists. eexists. split; [reflexivity|].
  split; [vm_compute; intuition (try discriminate; try reflexivity)|].
  split; [vm_compute; reflexivity|].
  split; [vm_compute; intuition (try discriminate; try reflexivity)|].
  split; vm_compute; reflexivity.
Qed.

(* histories with kills satisfy the hypotheses of the kill theorems as well *)
Example kill_history_nonvacuous :
  exists m d,
    let h := ex_history ++ [SKill (ODelTo 0) 2; SOp (OAdd [5%N] 14 2); SKill (OAdd [6%N] 15 2) 1; SKill OTimer 1] in
    run_fits (init_state ex_ver) h /\ run (init_state ex_ver) h = Some (m, d) /\ length (m_entries m) = 1%nat.
Proof.
  eexists. eexists. cbv zeta.
  split; [vm_compute; intuition (try discriminate; try reflexivity)|].
  split; vm_compute; reflexivity.
Qed.

Example write_fits_nonvacuous :
  let f := d_file (init_disk ex_ver) in
  0 <= 40 <= zlen f /\ 0 < zlen f /\ zlen (rf_write f 40 (pattern 3024 120 0)) = 4096.
Proof. vm_compute. intuition (try discriminate; try reflexivity). Qed.

(* ---------------------------------------------------------------- reopen never fails; kills inside the commit-index operations *)

(* every fitting history - kills after any primitive write of any operation included - can be
   reopened at every step: parsing the file left behind never fails *)
Definition C08_never_stuck_stmt : Prop :=
  forall ver h, zlen ver < 8 -> run_fits (init_state ver) h ->
  exists m d, run (init_state ver) h = Some (m, d) /\ exists m', reopen d = Some m' /\ m_entries m' = m_entries m.

Theorem never_stuck : C08_never_stuck_stmt.
Proof.
  intros ver h Hv Hfit.
  destruct (run_inv h _ (inv_init ver Hv) Hfit) as ([m d] & Hrun & HI).
  exists m, d. split; [exact Hrun|].
  destruct (kill_reopen m d OTimer 0 HI I) as (L' & Hre & _ & HP & _).
  cbn [firstn apply_prims fold_left] in Hre. eexists. split; [exact Hre|]. exact HP.
Qed.

(* a kill inside setRaftCommitIndex / the one-second flush of the commit index leaves the entries
   and the write position exactly as they were *)
Definition C08_commit_ops_keep_entries_stmt : Prop :=
  forall ver h m d o j, zlen ver < 8 ->
  run_fits (init_state ver) h -> run (init_state ver) h = Some (m, d) ->
  (o = OTimer \/ exists v, o = OSetCommit v) ->
  exists m', after_kill m d o j = Some m' /\ m_entries m' = m_entries m /\ m_cur m' = m_cur m.

Theorem commit_ops_keep_entries : C08_commit_ops_keep_entries_stmt.
Proof.
  intros ver h m d o j Hv Hfit Hrun Ho.
  assert (HI := reach_inv ver h _ Hv Hfit Hrun).
  assert (Hop : op_fits m o) by (destruct Ho as [->|[v ->]]; exact I).
  destruct (kill_reopen m d o j HI Hop) as (L' & Hre & _ & HP & _).
  assert (HL : L' = m_entries m) by (destruct Ho as [->|[v ->]]; exact HP).
  subst L'. eexists. split; [exact Hre|]. cbn [m_entries m_cur]. split; [reflexivity|].
  destruct HI as [_ Hc]. cbn [fst] in Hc. symmetry. exact Hc.
Qed.

Example commit_ops_nonvacuous :
  exists m d m', run (init_state ex_ver) (ex_history ++ [SOp (OSetCommit 11)]) = Some (m, d) /\
    after_kill m d OTimer 1 = Some m' /\ m_entries m' = m_entries m /\ m_entries m <> [] /\
    get_commit m = 11 /\ get_commit m' = 9.
Proof. eexists. eexists. eexists. split; [vm_compute; reflexivity|]. vm_compute. intuition (try discriminate; try reflexivity). Qed.
