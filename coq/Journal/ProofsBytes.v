(* Byte-level facts for the journal model: fixed-width fields, reads and writes inside a file
   laid out as  prefix ++ x ++ suffix,  the growth rule, and the constructor's parse loop on a
   well laid out record area. *)
From Coq Require Import ZArith NArith List Lia Bool.
From PSO Require Import Base.PyBytes Base.PyBytesFacts Journal.Model.
Import ListNotations.
Open Scope Z_scope.

(* keep simpl / cbn away from the arithmetic inside the fixed-width fields *)
#[local] Arguments pack_u32 : simpl never.
#[local] Arguments pack_u64 : simpl never.
#[local] Arguments unpack_u32 : simpl never.
#[local] Arguments unpack_u64 : simpl never.
#[local] Arguments enc_entry : simpl never.
#[local] Arguments edata : simpl never.
#[local] Arguments rf_read : simpl never.
#[local] Arguments rf_write : simpl never.
#[local] Arguments zeros : simpl never.
#[local] Arguments new_size : simpl never.

(* ---------------------------------------------------------------- lengths *)

Lemma zlen_nil {A} : zlen (@nil A) = 0.
Proof. reflexivity. Qed.

Lemma zlen_cons {A} (x : A) l : zlen (x :: l) = 1 + zlen l.
Proof. unfold zlen. simpl length. lia. Qed.

Lemma zlen_length {A} (l : list A) : Z.to_nat (zlen l) = length l.
Proof. unfold zlen. lia. Qed.

Lemma pack_u32_length z : length (pack_u32 z) = 4%nat.
Proof. apply le_bytes_of_length. Qed.

Lemma pack_u64_length z : length (pack_u64 z) = 8%nat.
Proof. apply le_bytes_of_length. Qed.

Lemma zlen_pack_u32 z : zlen (pack_u32 z) = 4.
Proof. unfold zlen. now rewrite pack_u32_length. Qed.

Lemma zlen_pack_u64 z : zlen (pack_u64 z) = 8.
Proof. unfold zlen. now rewrite pack_u64_length. Qed.

Lemma zeros_length n : length (zeros n) = Z.to_nat n.
Proof. unfold zeros. apply repeat_length. Qed.

Lemma zlen_edata e : zlen (edata e) = 16 + zlen (e_cmd e).
Proof. unfold edata. rewrite !zlen_app, !zlen_pack_u64. lia. Qed.

Lemma zlen_enc_entry e : zlen (enc_entry e) = zlen (e_cmd e) + 24.
Proof. unfold enc_entry. rewrite !zlen_app, !zlen_pack_u32, zlen_edata. lia. Qed.

Lemma enc_all_app a b : enc_all (a ++ b) = enc_all a ++ enc_all b.
Proof. induction a as [|e a IH]; cbn [enc_all app]; [reflexivity|]. now rewrite IH, app_assoc. Qed.

Lemma enc_all_length_ge es : (length es <= length (enc_all es))%nat.
Proof.
  induction es as [|e r IH]; cbn [enc_all length]; [lia|].
  rewrite app_length.
  assert (H := zlen_enc_entry e). assert (H0 := zlen_nonneg (e_cmd e)). unfold zlen in *. lia.
Qed.

(* ---------------------------------------------------------------- fixed width fields *)

Lemma unpack_pack_u32 z : 0 <= z < two32 -> unpack_u32 (pack_u32 z) = z.
Proof.
  intros Hz. unfold unpack_u32, pack_u32.
  rewrite firstn_all2 by (rewrite le_bytes_of_length; lia).
  rewrite le_value_le_bytes_of by (apply Z.mod_pos_bound; reflexivity).
  change (256 ^ Z.of_nat 4) with two32.
  rewrite Z.mod_mod by (unfold two32; lia). apply Z.mod_small; exact Hz.
Qed.

Lemma unpack_pack_u64_app z rest : 0 <= z < two64 -> unpack_u64 (pack_u64 z ++ rest) = z.
Proof.
  intros Hz. unfold unpack_u64.
  rewrite (firstn_app_exact (pack_u64 z) rest 8) by apply pack_u64_length.
  unfold pack_u64.
  rewrite le_value_le_bytes_of by (apply Z.mod_pos_bound; reflexivity).
  change (256 ^ Z.of_nat 8) with two64.
  rewrite Z.mod_mod by (unfold two64; lia). apply Z.mod_small; exact Hz.
Qed.

(* ---------------------------------------------------------------- reads *)

Lemma rf_read_mid pre x post : rf_read (pre ++ x ++ post) (zlen pre) (zlen x) = x.
Proof.
  unfold rf_read.
  rewrite pyslice_nonneg.
  - replace (zlen pre + zlen x - zlen pre) with (zlen x) by lia.
    rewrite !zlen_length.
    rewrite (skipn_app_exact pre (x ++ post)) by reflexivity.
    apply firstn_app_exact; reflexivity.
  - assert (H1 := zlen_nonneg pre). assert (H2 := zlen_nonneg x). lia.
  - rewrite !zlen_app. assert (H := zlen_nonneg post). lia.
Qed.

Lemma rf_read_at f pre x post off n :
  f = pre ++ x ++ post -> off = zlen pre -> n = zlen x -> rf_read f off n = x.
Proof. intros -> -> ->. apply rf_read_mid. Qed.

(* ---------------------------------------------------------------- the growth rule *)

Lemma grow_loop_ge fuel need sz :
  0 < sz -> need <= sz * 2 ^ Z.of_nat fuel -> need <= grow_loop fuel need sz.
Proof.
  revert sz. induction fuel as [|k IH]; intros sz Hsz H.
  - simpl in *. lia.
  - cbn [grow_loop]. destruct (need >? sz) eqn:E.
    + apply IH; [lia|].
      rewrite Nat2Z.inj_succ, Z.pow_succ_r in H by lia. lia.
    + rewrite Z.gtb_ltb in E. apply Z.ltb_ge in E. exact E.
Qed.

Lemma grow_loop_mono fuel need sz : 0 < sz -> sz <= grow_loop fuel need sz.
Proof.
  revert sz. induction fuel as [|k IH]; intros sz Hsz; cbn [grow_loop]; [lia|].
  destruct (need >? sz); [|lia]. specialize (IH (2 * sz)). lia.
Qed.

(* the D5 repair, positively: after the resize the write always fits *)
Lemma new_size_fits cur need : 0 < cur -> need <= new_size cur need /\ cur <= new_size cur need.
Proof.
  intros Hc. unfold new_size. destruct (need >? cur) eqn:E.
  - split.
    + apply grow_loop_ge; [lia|].
      assert (Hn : 0 < need) by (apply Z.gtb_lt in E; lia).
      rewrite Z2Nat.id by apply Z.log2_up_nonneg.
      destruct (Z.log2_log2_up_spec need Hn) as [_ Hup].
      assert (0 < 2 ^ Z.log2_up need) by (apply Z.pow_pos_nonneg; [lia|apply Z.log2_up_nonneg]).
      nia.
    + assert (H := grow_loop_mono (Z.to_nat (Z.log2_up need)) need (2 * cur)). lia.
  - rewrite Z.gtb_ltb in E. apply Z.ltb_ge in E. lia.
Qed.

(* ---------------------------------------------------------------- writes *)

Lemma skipn_add {A} (a b : nat) (l : list A) : skipn (a + b) l = skipn b (skipn a l).
Proof.
  revert l. induction a as [|a IH]; intro l; [reflexivity|].
  destruct l as [|x l]; [now rewrite !skipn_nil|]. cbn [Nat.add skipn]. apply IH.
Qed.

Lemma rf_write_at pre rest vals :
  rf_write (pre ++ rest) (zlen pre) vals =
  pre ++ vals ++ skipn (length vals)
                      (rest ++ zeros (new_size (zlen (pre ++ rest)) (zlen pre + zlen vals) - zlen (pre ++ rest))).
Proof.
  unfold rf_write.
  set (zs := zeros _).
  rewrite <- app_assoc.
  rewrite zlen_length.
  rewrite (firstn_app_exact pre (rest ++ zs)) by reflexivity.
  replace (Z.to_nat (zlen pre + zlen vals)) with (length pre + length vals)%nat by (unfold zlen; lia).
  rewrite skipn_add.
  rewrite (skipn_app_exact pre (rest ++ zs)) by reflexivity.
  reflexivity.
Qed.

(* overwriting a field of the same width in the middle of the file *)
Lemma rf_write_field pre old new post :
  length old = length new ->
  exists z, rf_write (pre ++ old ++ post) (zlen pre) new = pre ++ new ++ post ++ z.
Proof.
  intros Hlen. rewrite rf_write_at.
  eexists. rewrite <- Hlen. rewrite <- !app_assoc.
  rewrite (skipn_app_exact old) by reflexivity. reflexivity.
Qed.

(* writing at the end of a prefix: the prefix survives, the values follow *)
Lemma rf_write_tail pre rest vals :
  exists tail, rf_write (pre ++ rest) (zlen pre) vals = pre ++ vals ++ tail.
Proof. rewrite rf_write_at. eexists. reflexivity. Qed.

(* the write never needs bytes beyond the mapping (no IndexError: D5 stays repaired) *)
Lemma rf_write_length f off vals :
  0 <= off <= zlen f -> 0 < zlen f ->
  zlen (rf_write f off vals) = new_size (zlen f) (off + zlen vals) /\ zlen f <= zlen (rf_write f off vals).
Proof.
  intros Hoff Hf.
  destruct (new_size_fits (zlen f) (off + zlen vals) Hf) as [Hfit Hmono].
  assert (Hv := zlen_nonneg vals).
  assert (Hl : zlen (rf_write f off vals) = new_size (zlen f) (off + zlen vals)).
  { unfold rf_write. rewrite !zlen_app.
    set (ns := new_size (zlen f) (off + zlen vals)) in *.
    unfold zlen in *.
    rewrite firstn_length, skipn_length, !app_length, zeros_length. lia. }
  rewrite Hl. split; [reflexivity|exact Hmono].
Qed.

(* ---------------------------------------------------------------- the parse loop *)

Definition entry_ok (e : entry) : Prop :=
  u64_ok (e_idx e) /\ u64_ok (e_term e) /\ zlen (edata e) < two32.

Lemma parse_loop_eq fuel f cur last :
  parse_loop fuel f cur last =
  if cur <? last then
    match fuel with
    | [] => None
    | _ :: fuel' =>
      let w := rf_read f cur 4 in
      if zlen w <? 4 then None
      else
        let n := unpack_u32 w in
        let data := rf_read f (cur + 4) n in
        let hd := pyslice_to data 16 in
        if zlen hd <? 16 then None
        else
          let e := {| e_cmd := pyslice_from data 16;
                      e_idx := unpack_u64 hd;
                      e_term := unpack_u64 (skipn 8 hd) |} in
          match parse_loop fuel' f (cur + n + 8) last with
          | Some (es, c) => Some (e :: es, c)
          | None => None
          end
    end
  else Some ([], cur).
Proof. destruct fuel; reflexivity. Qed.

Lemma edata_head e : pyslice_to (edata e) 16 = pack_u64 (e_idx e) ++ pack_u64 (e_term e).
Proof.
  unfold pyslice_to, norm_idx. change (16 <? 0) with false. cbv iota.
  rewrite Z.min_l by (rewrite zlen_edata; assert (H := zlen_nonneg (e_cmd e)); lia).
  unfold edata. rewrite app_assoc.
  apply firstn_app_exact. rewrite app_length, !pack_u64_length. reflexivity.
Qed.

Lemma edata_tail e : pyslice_from (edata e) 16 = e_cmd e.
Proof.
  unfold pyslice_from, norm_idx. change (16 <? 0) with false. cbv iota.
  rewrite Z.min_l by (rewrite zlen_edata; assert (H := zlen_nonneg (e_cmd e)); lia).
  unfold edata. rewrite app_assoc.
  apply skipn_app_exact. rewrite app_length, !pack_u64_length. reflexivity.
Qed.

Lemma parse_loop_ok es : forall fuel pre post,
  Forall entry_ok es -> (length es <= length fuel)%nat ->
  parse_loop fuel (pre ++ enc_all es ++ post) (zlen pre) (zlen pre + zlen (enc_all es))
  = Some (es, zlen pre + zlen (enc_all es)).
Proof.
  induction es as [|e r IH]; intros fuel pre post Hok Hfuel.
  - rewrite parse_loop_eq. simpl enc_all. rewrite zlen_nil, Z.add_0_r, Z.ltb_irrefl. reflexivity.
  - rewrite parse_loop_eq.
    inversion Hok as [|? ? He Hr]; subst.
    destruct He as (Hi & Ht & Hd).
    assert (Hc := zlen_nonneg (e_cmd e)). assert (Hpre := zlen_nonneg pre).
    assert (Hall := zlen_nonneg (enc_all r)).
    cbn [enc_all]. rewrite zlen_app, zlen_enc_entry.
    destruct (zlen pre <? zlen pre + (zlen (e_cmd e) + 24 + zlen (enc_all r))) eqn:E;
      [|apply Z.ltb_ge in E; lia].
    destruct fuel as [|b fuel']; [simpl in Hfuel; lia|].
    set (f := pre ++ (enc_entry e ++ enc_all r) ++ post).
    assert (Hw : rf_read f (zlen pre) 4 = pack_u32 (zlen (edata e))).
    { apply (rf_read_at f pre (pack_u32 (zlen (edata e)))
                        (edata e ++ pack_u32 (zlen (edata e)) ++ enc_all r ++ post)).
      - unfold f, enc_entry. now rewrite <- !app_assoc.
      - reflexivity.
      - now rewrite zlen_pack_u32. }
    cbv zeta. rewrite Hw, zlen_pack_u32. change (4 <? 4) with false. cbv iota.
    rewrite unpack_pack_u32 by (split; [rewrite zlen_edata; lia|exact Hd]).
    assert (Hdata : rf_read f (zlen pre + 4) (zlen (edata e)) = edata e).
    { apply (rf_read_at f (pre ++ pack_u32 (zlen (edata e))) (edata e)
                        (pack_u32 (zlen (edata e)) ++ enc_all r ++ post)).
      - unfold f, enc_entry. now rewrite <- !app_assoc.
      - now rewrite zlen_app, zlen_pack_u32.
      - reflexivity. }
    rewrite Hdata, edata_head, edata_tail.
    rewrite zlen_app, !zlen_pack_u64. change (8 + 8 <? 16) with false. cbv iota.
    rewrite unpack_pack_u64_app by exact Hi.
    rewrite (skipn_app_exact (pack_u64 (e_idx e))) by apply pack_u64_length.
    rewrite <- (app_nil_r (pack_u64 (e_term e))), unpack_pack_u64_app by exact Ht.
    replace (zlen pre + zlen (edata e) + 8) with (zlen (pre ++ enc_entry e))
      by (rewrite zlen_app, zlen_enc_entry, zlen_edata; lia).
    replace (zlen pre + (zlen (e_cmd e) + 24 + zlen (enc_all r)))
      with (zlen (pre ++ enc_entry e) + zlen (enc_all r))
      by (rewrite zlen_app, zlen_enc_entry; lia).
    replace f with ((pre ++ enc_entry e) ++ enc_all r ++ post)
      by (unfold f; now rewrite <- !app_assoc).
    rewrite IH; [|exact Hr|simpl in Hfuel; lia].
    destruct e; reflexivity.
Qed.
