(* Executable model of pysyncobj/journal.py: ResizableFile (mmap-backed file with the
   "grow by the resize factor until the write fits" rule), FileJournal (header layout,
   add / clear / deleteEntriesFrom / deleteEntriesTo / set+getRaftCommitIndex /
   onOneSecondTimer, the constructor's parse loop) and MetaStorer (.meta.tmp + rename).

   Disk = the journal file as a byte list (its length is the file size) plus the values held by
   `.meta` and `.meta.tmp`.  Every operation returns the new in-memory state AND the ordered
   list of primitive storage writes it performs; the new disk is the fold of the primitives.
   A kill is "apply a prefix of the primitive list, then reopen".

   Oracles / not modelled:
   - pickle: the content of .meta / .meta.tmp is modelled by the value of meta['raftCommitIndex']
     itself (pickle.loads (pickle.dumps d) = d).  The correspondence check runs the real pickle.
   - mmap / os.rename / the page cache: a store that has executed is visible to the next open,
     rename is atomic, mmap.resize zero-fills.  int(size * 2.0) is modelled as 2 * size (exact
     for every size below 2^53).
   - struct.pack raising struct.error for an out-of-range value ('<I' of an offset or length
     >= 2^32, '<QQ' of an idx / term outside 0 .. 2^64-1): the model packs the value modulo the
     width instead.  `op_fits` is exactly the condition under which no pack raises; every theorem
     carries it as its guard.
   - struct.unpack raising on short data: in the constructor it is modelled (`parse_file`
     returns None = the constructor raised); in deleteEntriesFrom the model decodes whatever the
     short slice holds (never happens in a state that satisfies the representation invariant).
   - commands are byte strings (to_bytes(command) = command); negative entryFrom / entryTo are
     not modelled (the arguments are naturals).
   - MetaStorer.storeMeta: open(path + '.tmp', 'wb') + write + flush is ONE primitive (TmpWrite);
     a kill between the open (which truncates .tmp) and the write leaves an empty .tmp, which no
     constructor ever reads, so it is observationally a kill before the TmpWrite.
   - onOneSecondTimer with metaSaved = False and no 'raftCommitIndex' key cannot happen
     (metaSaved only becomes False in setRaftCommitIndex); the model returns no primitives there.
   - a fresh file: default header (40 bytes) resized to 1024; a kill between the creation of the
     file and the resize is covered by pad_file in reopen. *)
From Coq Require Import ZArith NArith List Lia Bool.
From PSO Require Import Base.PyBytes.
Import ListNotations.
Open Scope Z_scope.

Definition FIRST_RECORD_OFFSET : Z := 40.
Definition LAST_RECORD_OFFSET_OFFSET : Z := 36.
Definition INITIAL_SIZE : Z := 1024.

(* ---------------------------------------------------------------- ResizableFile *)

Definition zeros (n : Z) : bytes := repeat 0%N (Z.to_nat n).

(* self.__mm[offset:offset + size] *)
Definition rf_read (f : bytes) (off n : Z) : bytes := pyslice f off (off + n).

(* while offset + size > newSize: newSize = int(newSize * resizeFactor) *)
Fixpoint grow_loop (fuel : nat) (need sz : Z) : Z :=
  match fuel with
  | O => sz
  | S k => if need >? sz then grow_loop k need (2 * sz) else sz
  end.

(* size of the mapping after write(offset, values) with offset + len(values) = need *)
Definition new_size (cur need : Z) : Z :=
  if need >? cur then grow_loop (Z.to_nat (Z.log2_up need)) need (2 * cur) else cur.

Definition rf_write (f : bytes) (off : Z) (vals : bytes) : bytes :=
  let need := off + zlen vals in
  let f1 := f ++ zeros (new_size (zlen f) need - zlen f) in
  firstn (Z.to_nat off) f1 ++ vals ++ skipn (Z.to_nat need) f1.

(* ResizableFile.__init__ on an existing file: resize to initialSize when smaller *)
Definition pad_file (f : bytes) : bytes := f ++ zeros (INITIAL_SIZE - zlen f).

(* ---------------------------------------------------------------- records *)

Record entry := { e_cmd : bytes; e_idx : Z; e_term : Z }.

(* struct.pack('<QQ', idx, term) + to_bytes(command) *)
Definition edata (e : entry) : bytes := pack_u64 (e_idx e) ++ pack_u64 (e_term e) ++ e_cmd e.

(* cmdLenData + cmdData + cmdLenData *)
Definition enc_entry (e : entry) : bytes :=
  let d := edata e in pack_u32 (zlen d) ++ d ++ pack_u32 (zlen d).

Fixpoint enc_all (es : list entry) : bytes :=
  match es with
  | [] => []
  | e :: r => enc_entry e ++ enc_all r
  end.

(* ---------------------------------------------------------------- state *)

Record mem := {
  m_entries : list entry;     (* self.__journal *)
  m_cur : Z;                  (* self.__currentOffset *)
  m_meta : option Z;          (* self.__meta.get('raftCommitIndex') *)
  m_saved : bool              (* self.__metaSaved *)
}.

Record disk := {
  d_file : bytes;             (* the journal file *)
  d_meta : option Z;          (* <journal>.meta      (None: absent / unreadable => {}) *)
  d_tmp : option Z            (* <journal>.meta.tmp *)
}.

Inductive prim :=
| FileWrite (off : Z) (b : bytes)     (* ResizableFile.write(off, b), resize included *)
| TmpWrite (v : Z)                    (* open(path + '.tmp', 'wb').write(dumps(meta)) *)
| Rename.                             (* shutil.move(path + '.tmp', path) *)

Definition apply_prim (d : disk) (p : prim) : disk :=
  match p with
  | FileWrite off b => {| d_file := rf_write (d_file d) off b; d_meta := d_meta d; d_tmp := d_tmp d |}
  | TmpWrite v => {| d_file := d_file d; d_meta := d_meta d; d_tmp := Some v |}
  | Rename =>
    match d_tmp d with
    | Some v => {| d_file := d_file d; d_meta := Some v; d_tmp := None |}
    | None => d
    end
  end.

Definition apply_prims (d : disk) (ps : list prim) : disk := fold_left apply_prim ps d.

Inductive op :=
| OAdd (cmd : bytes) (idx term : Z)
| OClear
| ODelFrom (k : N)            (* deleteEntriesFrom(k) *)
| ODelTo (k : N)              (* deleteEntriesTo(k) *)
| OSetCommit (v : Z)          (* setRaftCommitIndex(v) *)
| OTimer.                     (* onOneSecondTimer() *)

Definition hdr_write (off : Z) : prim := FileWrite LAST_RECORD_OFFSET_OFFSET (pack_u32 off).

(* the loop of deleteEntriesFrom: n = entries still to remove, f = the file as the loop sees it
   (its own header writes included), removed = removedEntries *)
Fixpoint del_loop (n : nat) (f : bytes) (cur removed : Z) : Z * list prim :=
  match n with
  | O => (cur, [])
  | S n' =>
    let sz := unpack_u32 (rf_read f (cur - 4) 4) in
    let cur' := cur - (sz + 8) in
    let removed' := removed + 1 in
    if removed' mod 10 =? 0 then
      let (c, ps) := del_loop n' (rf_write f LAST_RECORD_OFFSET_OFFSET (pack_u32 cur')) cur' removed' in
      (c, hdr_write cur' :: ps)
    else del_loop n' f cur' removed'
  end.

(* for entry in journal: self.add( *entry ) *)
Fixpoint add_all (es : list entry) (cur : Z) : Z * list prim :=
  match es with
  | [] => (cur, [])
  | e :: r =>
    let rec := enc_entry e in
    let cur' := cur + zlen rec in
    let (c, ps) := add_all r cur' in
    (c, FileWrite cur rec :: hdr_write cur' :: ps)
  end.

Definition exec (m : mem) (d : disk) (o : op) : mem * list prim :=
  match o with
  | OAdd c i t =>
    let e := {| e_cmd := c; e_idx := i; e_term := t |} in
    let (cur', ps) := add_all [e] (m_cur m) in
    ({| m_entries := m_entries m ++ [e]; m_cur := cur'; m_meta := m_meta m; m_saved := m_saved m |}, ps)
  | OClear =>
    ({| m_entries := []; m_cur := FIRST_RECORD_OFFSET; m_meta := m_meta m; m_saved := m_saved m |},
     [hdr_write FIRST_RECORD_OFFSET])
  | ODelFrom k =>
    let k := N.to_nat k in
    let n := (length (m_entries m) - k)%nat in
    let (cur', ps) := del_loop n (d_file d) (m_cur m) 0 in
    ({| m_entries := firstn k (m_entries m); m_cur := cur'; m_meta := m_meta m; m_saved := m_saved m |},
     ps ++ [hdr_write cur'])
  | ODelTo k =>
    let kept := skipn (N.to_nat k) (m_entries m) in
    let (cur', ps) := add_all kept FIRST_RECORD_OFFSET in
    ({| m_entries := kept; m_cur := cur'; m_meta := m_meta m; m_saved := m_saved m |},
     hdr_write FIRST_RECORD_OFFSET :: ps)
  | OSetCommit v =>
    ({| m_entries := m_entries m; m_cur := m_cur m; m_meta := Some v; m_saved := false |}, [])
  | OTimer =>
    if m_saved m then (m, [])
    else ({| m_entries := m_entries m; m_cur := m_cur m; m_meta := m_meta m; m_saved := true |},
          match m_meta m with Some v => [TmpWrite v; Rename] | None => [] end)
  end.

(* getRaftCommitIndex: self.__meta.get('raftCommitIndex', 1) *)
Definition get_commit (m : mem) : Z := match m_meta m with Some v => v | None => 1 end.

(* ---------------------------------------------------------------- FileJournal.__init__ *)

(* the while loop of the constructor; fuel = one byte of the file per record (every record
   takes at least 24 bytes).  None = struct.error (short read) or out of fuel. *)
Fixpoint parse_loop (fuel f : bytes) (cur last : Z) {struct fuel} : option (list entry * Z) :=
  if cur <? last then
    match fuel with
    | [] => None
    | _ :: fuel' =>
      let w := rf_read f cur 4 in
      if zlen w <? 4 then None
      else
        let n := unpack_u32 w in
        let data := rf_read f (cur + 4) n in
        let hd := pyslice_to data 16 in
        if zlen hd <? 16 then None
        else
          let e := {| e_cmd := pyslice_from data 16;
                      e_idx := unpack_u64 hd;
                      e_term := unpack_u64 (skipn 8 hd) |} in
          match parse_loop fuel' f (cur + n + 8) last with
          | Some (es, c) => Some (e :: es, c)
          | None => None
          end
    end
  else Some ([], cur).

Definition parse_file (f : bytes) : option (list entry * Z) :=
  let w := rf_read f LAST_RECORD_OFFSET_OFFSET 4 in
  if zlen w <? 4 then None
  else parse_loop f f FIRST_RECORD_OFFSET (unpack_u32 w).

(* what opening the files does to the disk (resize to 1024 when shorter) *)
Definition open_disk (d : disk) : disk :=
  {| d_file := pad_file (d_file d); d_meta := d_meta d; d_tmp := d_tmp d |}.

(* FileJournal(journalFile) on an existing file *)
Definition reopen (d : disk) : option mem :=
  match parse_file (pad_file (d_file d)) with
  | Some (es, cur) => Some {| m_entries := es; m_cur := cur; m_meta := d_meta d; m_saved := true |}
  | None => None
  end.

(* ---------------------------------------------------------------- histories *)

Inductive step :=
| SOp (o : op)                 (* the operation runs to completion *)
| SReopen                      (* the object is dropped and the files are opened again *)
| SKill (o : op) (j : nat).    (* killed after the j-th primitive write of o, then reopened *)

Definition state : Type := mem * disk.

Definition do_step (s : state) (st : step) : option state :=
  let (m, d) := s in
  match st with
  | SOp o => let (m', ps) := exec m d o in Some (m', apply_prims d ps)
  | SReopen =>
    match reopen d with
    | Some m' => Some (m', open_disk d)
    | None => None
    end
  | SKill o j =>
    let (_, ps) := exec m d o in
    let d' := apply_prims d (firstn j ps) in
    match reopen d' with
    | Some m' => Some (m', open_disk d')
    | None => None
    end
  end.

Fixpoint run (s : state) (h : list step) : option state :=
  match h with
  | [] => Some s
  | st :: r =>
    match do_step s st with
    | Some s' => run s' r
    | None => None
    end
  end.

(* the guard of every theorem: no struct.pack in this operation raises *)
Definition u64_ok (z : Z) : Prop := 0 <= z < two64.
Definition op_fits (m : mem) (o : op) : Prop :=
  match o with
  | OAdd c i t => u64_ok i /\ u64_ok t /\ m_cur m + (zlen c + 24) < two32
  | _ => True
  end.

Definition step_op (st : step) : option op :=
  match st with SOp o => Some o | SKill o _ => Some o | SReopen => None end.

(* offsets stay below 2^32 along the whole history *)
Fixpoint run_fits (s : state) (h : list step) : Prop :=
  match h with
  | [] => True
  | st :: r =>
    match step_op st with Some o => op_fits (fst s) o | None => True end /\
    match do_step s st with
    | Some s' => run_fits s' r
    | None => True
    end
  end.

(* a fresh journal: default header, resized to 1024; no meta files.  `ver` = APP_VERSION *)
Definition APP_NAME : bytes := [80; 89; 83; 89; 78; 67; 79; 66; 74]%N.   (* b'PYSYNCOBJ' *)
Definition default_header (ver : bytes) : bytes :=
  APP_NAME ++ zeros (24 - zlen APP_NAME) ++ ver ++ zeros (8 - zlen ver) ++ pack_u32 1 ++ pack_u32 FIRST_RECORD_OFFSET.

Definition init_disk (ver : bytes) : disk :=
  {| d_file := pad_file (default_header ver); d_meta := None; d_tmp := None |}.

Definition init_mem : mem :=
  {| m_entries := []; m_cur := FIRST_RECORD_OFFSET; m_meta := None; m_saved := true |}.

Definition init_state (ver : bytes) : state := (init_mem, init_disk ver).

(* ---------------------------------------------------------------- the plain list model *)

Record lst := {
  l_entries : list entry;
  l_commit : option Z;        (* last value set in this incarnation (or read back at open) *)
  l_flushed : option Z        (* last value flushed by the one-second timer *)
}.

Definition lst_init : lst := {| l_entries := []; l_commit := None; l_flushed := None |}.

Definition lst_op (l : lst) (o : op) : lst :=
  match o with
  | OAdd c i t => {| l_entries := l_entries l ++ [{| e_cmd := c; e_idx := i; e_term := t |}];
                     l_commit := l_commit l; l_flushed := l_flushed l |}
  | OClear => {| l_entries := []; l_commit := l_commit l; l_flushed := l_flushed l |}
  | ODelFrom k => {| l_entries := firstn (N.to_nat k) (l_entries l); l_commit := l_commit l; l_flushed := l_flushed l |}
  | ODelTo k => {| l_entries := skipn (N.to_nat k) (l_entries l); l_commit := l_commit l; l_flushed := l_flushed l |}
  | OSetCommit v => {| l_entries := l_entries l; l_commit := Some v; l_flushed := l_flushed l |}
  | OTimer => {| l_entries := l_entries l; l_commit := l_commit l; l_flushed := l_commit l |}
  end.

(* kills are not part of the functional specification (see killfree) *)
Definition lst_step (l : lst) (st : step) : lst :=
  match st with
  | SOp o => lst_op l o
  | SReopen => {| l_entries := l_entries l; l_commit := l_flushed l; l_flushed := l_flushed l |}
  | SKill _ _ => l
  end.

Definition lst_run (l : lst) (h : list step) : lst := fold_left lst_step h l.

Definition commit_of (v : option Z) : Z := match v with Some x => x | None => 1 end.

Fixpoint killfree (h : list step) : Prop :=
  match h with
  | [] => True
  | SKill _ _ :: _ => False
  | _ :: r => killfree r
  end.

(* values passed to setRaftCommitIndex anywhere in the history *)
Fixpoint sets_of (h : list step) : list Z :=
  match h with
  | [] => []
  | st :: r =>
    match step_op st with
    | Some (OSetCommit v) => v :: sets_of r
    | _ => sets_of r
    end
  end.

(* ---------------------------------------------------------------- evaluation (correspondence) *)

(* a position-sensitive checksum: three running sums over the stream of numbers; a byte string
   enters the stream as one number per block of 64 bytes (count, sum, sum of prefix sums), so the
   per-byte work is on small numbers.  One division at the very end keeps the literals short. *)
Definition hst : Type := N * N * N.
Definition hash_step (h : hst) (x : N) : hst :=
  let '(a, b, c) := h in
  let a' := (a + x + 1)%N in
  let b' := (b + a')%N in
  (a', b', (c + b')%N).
Definition hash_flush (h : hst) (k a b : N) : hst := hash_step h (a + N.shiftl b 16 + N.shiftl k 40)%N.
Definition hash_byte (st : N * N * N * hst) (x : N) : N * N * N * hst :=
  let '(k, a, b, h) := st in
  let a' := (a + x + 1)%N in
  let b' := (b + a')%N in
  if (k =? 63)%N then (0%N, 0%N, 0%N, hash_flush h 64 a' b') else ((k + 1)%N, a', b', h).
Definition hash_bytes (h : hst) (data : bytes) : hst :=
  let '(k, a, b, h') := fold_left hash_byte data (0%N, 0%N, 0%N, h) in
  if (k =? 0)%N then h' else hash_flush h' k a b.
Definition hash_Z (h : hst) (z : Z) : hst :=
  if z <? 0 then hash_step (hash_step h 1) (Z.to_N (- z)) else hash_step (hash_step h 0) (Z.to_N z).
Definition HASH_M : N := 2305843009213693951%N.
Definition hash_fin (h : hst) : Z :=
  let '(a, b, c) := h in Z.of_N ((a + N.shiftl b 64 + N.shiftl c 144) mod HASH_M)%N.
Definition h0 (x : N) : hst := (x, 0%N, 0%N).

Definition hash_entry (h : hst) (e : entry) : hst :=
  hash_bytes (hash_Z (hash_Z (hash_Z h (e_idx e)) (e_term e)) (zlen (e_cmd e))) (e_cmd e).
Definition hash_entries (es : list entry) : Z := hash_fin (fold_left hash_entry es (h0 7)).

Definition hash_prim (h : hst) (p : prim) : hst :=
  match p with
  | FileWrite off b => hash_bytes (hash_Z (hash_Z (hash_step h 1) off) (zlen b)) b
  | TmpWrite v => hash_Z (hash_step h 2) v
  | Rename => hash_step h 3
  end.
Definition hash_prims (ps : list prim) : Z := hash_fin (fold_left hash_prim ps (h0 11)).

Definition optZ_obs (v : option Z) : list Z := match v with Some x => [1; x] | None => [0; 0] end.

(* observation after a step: [len; currentOffset; header offset word; file size; file digest;
   entries digest; getRaftCommitIndex; metaSaved; .meta; .meta.tmp; #prims; prims digest] *)
Definition obs (s : state) (ps : list prim) : list Z :=
  let (m, d) := s in
  [zlen (m_entries m); m_cur m; unpack_u32 (rf_read (d_file d) LAST_RECORD_OFFSET_OFFSET 4);
   zlen (d_file d); hash_fin (hash_bytes (h0 5) (d_file d)); hash_entries (m_entries m);
   get_commit m; if m_saved m then 1 else 0]
  ++ optZ_obs (d_meta d) ++ optZ_obs (d_tmp d)
  ++ [zlen ps; hash_prims ps].

(* primitives the implementation gets to execute during a step *)
Definition step_prims (s : state) (st : step) : list prim :=
  match st with
  | SOp o => snd (exec (fst s) (snd s) o)
  | SReopen => []
  | SKill o j => firstn j (snd (exec (fst s) (snd s) o))
  end.

Fixpoint run_obs (s : state) (h : list step) : list (list Z) :=
  match h with
  | [] => []
  | st :: r =>
    match do_step s st with
    | Some s' => obs s' (step_prims s st) :: run_obs s' r
    | None => [[-1]]
    end
  end.

Fixpoint zlist_eqb (a b : list Z) : bool :=
  match a, b with
  | [], [] => true
  | x :: a', y :: b' => Z.eqb x y && zlist_eqb a' b'
  | _, _ => false
  end.

Fixpoint first_diff (i : N) (a b : list (list Z)) : option (N * list Z) :=
  match a, b with
  | [], [] => None
  | x :: a', y :: b' => if zlist_eqb x y then first_diff (i + 1)%N a' b' else Some (i, x)
  | x :: _, [] => Some (i, x)
  | [], _ :: _ => Some (i, [])
  end.

(* commands of the generated cases: either literal bytes or the pattern (a + b*i) mod 256, i < n
   (built from the last byte backwards, so the recursion is a loop) *)
Fixpoint pattern_go (n : nat) (x nb : N) (acc : bytes) : bytes :=
  match n with
  | O => acc
  | S k => pattern_go k ((x + nb) mod 256)%N nb (x :: acc)
  end.
Definition pattern (n a b : N) : bytes :=
  match n with
  | 0%N => []
  | _ => pattern_go (N.to_nat n) ((a + b * (n - 1)) mod 256)%N ((256 - b mod 256) mod 256)%N []
  end.

(* index of the first step whose observation differs (with the model's observation), or None;
   evaluation stops at that step.  `expected` holds one number per step: the digest of the
   implementation's observation list (the harness keeps the full list for the report).  The implementation side ends a history with an observation
   starting with a negative number when an operation raised / timed out / the file got too large;
   no model observation starts with a negative number except [-1] = the model's constructor raised,
   which is reported as a difference as well. *)
Definition obs_digest (o : list Z) : Z := hash_fin (fold_left hash_Z o (h0 3)).

Fixpoint check_run (i : N) (s : state) (h : list step) (expected : list Z) : option (N * list Z) :=
  match h, expected with
  | [], [] => None
  | st :: r, ex :: er =>
    match do_step s st with
    | Some s' =>
      let o := obs s' (step_prims s st) in
      if obs_digest o =? ex then check_run (i + 1)%N s' r er else Some (i, o)
    | None => Some (i, [-1])
    end
  | _, _ => Some (i, [])
  end.

Definition check_case (ver : bytes) (h : list step) (expected : list Z) : option (N * list Z) :=
  check_run 0%N (init_state ver) h expected.
