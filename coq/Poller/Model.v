(* Executable model of pysyncobj/poller.py: SelectPoller and PollPoller - subscribe, unsubscribe and the
   dispatch loop of poll(), with callbacks that subscribe / unsubscribe descriptors while a round is being
   dispatched (what TcpConnection.connect() / disconnect() do from inside a handler).

   The kernel is an oracle (harness: a fake `select` module put into pysyncobj.poller): per descriptor four
   readiness bits (readable, writable, error, hang-up).  The fake select.select answers, for the three lists it is
   given, the descriptors whose bit is set (readable | hang-up for the read list); the fake select.poll object
   keeps its registrations in insertion order and reports POLLIN / POLLOUT for registered interest, POLLERR and
   POLLHUP always.  For SelectPoller the order in which the ready descriptors are dispatched is the iteration
   order of a Python set of ints, an oracle input as well (`order`).

   `rule`: Old = the dispatch loop of SelectPoller as it was before the repair FX-C13-4 (callback table indexed
   without a check), New = as it is now. *)
From Coq Require Import NArith List Bool.
Import ListNotations.
Open Scope N_scope.

Definition fd := N.
Definition cbid := N.
(* POLL_EVENT_TYPE bits: READ = 1, WRITE = 2, ERROR = 4 *)
Definition mask := N.
(* readiness bits of the oracle: readable = 1, writable = 2, error = 4, hang-up = 8 *)
Definition ready := N.

Inductive kind := KSelect | KPoll.
Inductive rule := Old | New.

Inductive op :=
| Sub (f : fd) (c : cbid) (m : mask)
| Unsub (f : fd).

Record poller := mkP {
  interest : list (fd * mask);     (* select: membership in the three sets as bits; poll: the registrations, in order *)
  cbs : list (fd * cbid)           (* __descrToCallbacks *)
}.

Definition empty : poller := mkP [] [].

Fixpoint aget {A} (k : N) (l : list (N * A)) : option A :=
  match l with
  | [] => None
  | (k', v) :: r => if k =? k' then Some v else aget k r
  end.

Fixpoint adel {A} (k : N) (l : list (N * A)) : list (N * A) :=
  match l with
  | [] => []
  | (k', v) :: r => if k =? k' then adel k r else (k', v) :: adel k r
  end.

(* dict semantics: an existing key keeps its place *)
Fixpoint aset {A} (k : N) (v : A) (l : list (N * A)) : list (N * A) :=
  match l with
  | [] => [(k, v)]
  | (k', v') :: r => if k =? k' then (k, v) :: r else (k', v') :: aset k v r
  end.

Definition bit (m b : N) : bool := negb (N.land m b =? 0).

Definition unsubscribe (k : kind) (f : fd) (p : poller) : poller :=
  match k with
  | KSelect => mkP (adel f (interest p)) (adel f (cbs p))
  | KPoll => mkP (adel f (interest p)) (cbs p)            (* the callback stays in the table *)
  end.

Definition subscribe (k : kind) (f : fd) (c : cbid) (m : mask) (p : poller) : poller :=
  match k with
  | KSelect => let p := unsubscribe KSelect f p in
               mkP (aset f (N.land m 7) (interest p)) (aset f c (cbs p))
  | KPoll => mkP (aset f (N.land m 7) (interest p)) (aset f c (cbs p))
  end.

Definition do_op (k : kind) (o : op) (p : poller) : poller :=
  match o with
  | Sub f c m => subscribe k f c m p
  | Unsub f => unsubscribe k f p
  end.

Definition run_script (k : kind) (s : list op) (p : poller) : poller :=
  fold_left (fun p o => do_op k o p) s p.

(* the event mask handed to the callback of descriptor f *)
Definition event_of (k : kind) (m : mask) (r : ready) : mask :=
  match k with
  | KSelect =>
    (if bit m 1 && (bit r 1 || bit r 8) then 1 else 0)
    + (if bit m 2 && bit r 2 then 2 else 0)
    + (if bit m 4 && bit r 4 then 4 else 0)
  | KPoll =>
    (if bit m 1 && bit r 1 then 1 else 0)
    + (if bit m 2 && bit r 2 then 2 else 0)
    + (if bit r 4 || bit r 8 then 4 else 0)
  end.

(* the batch of one round: taken before the first callback runs *)
Definition batch (k : kind) (p : poller) (rd : list (fd * ready)) (order : list fd) : list (fd * mask) :=
  let ev f := match aget f (interest p) with
              | Some m => event_of k m (match aget f rd with Some r => r | None => 0 end)
              | None => 0
              end in
  let fds := match k with KSelect => order | KPoll => map fst (interest p) end in
  filter (fun x => negb (snd x =? 0)) (map (fun f => (f, ev f)) fds).

Record out := mkOut { disp : list (cbid * fd * mask); exc : bool }.

(* the dispatch loop; scripts : what each callback does when it is called *)
Fixpoint dispatch (k : kind) (rl : rule) (scripts : list (cbid * list op)) (b : list (fd * mask))
                  (p : poller) (acc : list (cbid * fd * mask)) : poller * out :=
  match b with
  | [] => (p, mkOut (rev acc) false)
  | (f, ev) :: rest =>
    match aget f (cbs p) with
    | None =>
      match k, rl with
      | KSelect, New => dispatch k rl scripts rest p acc           (* unsubscribed earlier in this round: skipped *)
      | _, _ => (p, mkOut (rev acc) true)                          (* KeyError out of poll() *)
      end
    | Some c =>
      let s := match aget c scripts with Some s => s | None => [] end in
      dispatch k rl scripts rest (run_script k s p) ((c, f, ev) :: acc)
    end
  end.

Definition poll (k : kind) (rl : rule) (scripts : list (cbid * list op)) (rd : list (fd * ready)) (order : list fd)
                (p : poller) : poller * out :=
  dispatch k rl scripts (batch k p rd order) p [].

(* a run: operations from outside a round, and poll rounds *)
Inductive ev :=
| EOp (o : op)
| EPoll (rd : list (fd * ready)) (order : list fd).

Definition step (k : kind) (rl : rule) (scripts : list (cbid * list op)) (p : poller) (e : ev) : poller * out :=
  match e with
  | EOp o => (do_op k o p, mkOut [] false)
  | EPoll rd order => poll k rl scripts rd order p
  end.

(* the run stops at the first exception, as the caller of poll() would see it *)
Fixpoint run (k : kind) (rl : rule) (scripts : list (cbid * list op)) (p : poller) (es : list ev)
  : poller * list out :=
  match es with
  | [] => (p, [])
  | e :: r =>
    let '(p', o) := step k rl scripts p e in
    if exc o then (p', [o])
    else let '(p'', os) := run k rl scripts p' r in (p'', o :: os)
  end.

(* what the correspondence compares: the dispatches of every event, the exception flag, the final tables *)
Definition observe (k : kind) (rl : rule) (scripts : list (cbid * list op)) (es : list ev)
  : list (list (cbid * fd * mask) * bool) * list (fd * mask) * list (fd * cbid) :=
  let '(p, os) := run k rl scripts empty es in
  (map (fun o => (disp o, exc o)) os,
   match k with KSelect => filter (fun x => negb (snd x =? 0)) (interest p) | KPoll => interest p end,
   cbs p).
