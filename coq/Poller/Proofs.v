(* Proofs about the model of pysyncobj/poller.py (Poller/Model.v). *)
From Coq Require Import NArith List Bool Lia.
From PSO Require Import Poller.Model.
Import ListNotations.
Open Scope N_scope.

(* ---- association lists ---- *)
Lemma aget_aset_same : forall A k (v : A) l, aget k (aset k v l) = Some v.
Proof.
  intros A k v l; induction l as [|[k' v'] r IH]; cbn [aset aget].
  - rewrite N.eqb_refl; reflexivity.
  - destruct (k =? k') eqn:E; cbn [aget]; rewrite ?E, ?N.eqb_refl; auto.
Qed.

Lemma aget_aset_other : forall A k k' (v : A) l, k <> k' -> aget k (aset k' v l) = aget k l.
Proof.
  intros A k k' v l Hne; induction l as [|[k2 v2] r IH]; cbn [aset aget].
  - destruct (k =? k') eqn:E; [apply N.eqb_eq in E; contradiction | reflexivity].
  - destruct (k' =? k2) eqn:E2; cbn [aget].
    + apply N.eqb_eq in E2; subst k2.
      destruct (k =? k') eqn:E; [apply N.eqb_eq in E; contradiction | reflexivity].
    + destruct (k =? k2); auto.
Qed.

Lemma aget_adel_same : forall A k (l : list (N * A)), aget k (adel k l) = None.
Proof.
  intros A k l; induction l as [|[k' v'] r IH]; cbn [adel aget]; auto.
  destruct (k =? k') eqn:E; auto. cbn [aget]; rewrite E; auto.
Qed.

Lemma aget_adel_other : forall A k k' (l : list (N * A)), k <> k' -> aget k (adel k' l) = aget k l.
Proof.
  intros A k k' l Hne; induction l as [|[k2 v2] r IH]; cbn [adel aget]; auto.
  destruct (k' =? k2) eqn:E2.
  - apply N.eqb_eq in E2; subst k2.
    destruct (k =? k') eqn:E; [apply N.eqb_eq in E; contradiction | exact IH].
  - cbn [aget]; destruct (k =? k2); auto.
Qed.

Lemma aget_in_keys : forall A k (l : list (N * A)), In k (map fst l) -> aget k l <> None.
Proof.
  intros A k l; induction l as [|[k' v'] r IH]; cbn [map fst In aget]; [tauto|].
  intros [H|H].
  - subst k'; rewrite N.eqb_refl; discriminate.
  - destruct (k =? k'); [discriminate | auto].
Qed.

Lemma aget_some_in_keys : forall A k (l : list (N * A)), aget k l <> None -> In k (map fst l).
Proof.
  intros A k l; induction l as [|[k' v'] r IH]; cbn [map fst In aget]; [tauto|].
  destruct (k =? k') eqn:E; [apply N.eqb_eq in E; auto | auto].
Qed.

(* ---- the event mask ---- *)
Lemma event_of_le7 : forall k m r, event_of k m r <= 7.
Proof.
  intros k m r; unfold event_of; destruct k.
  - destruct (bit m 1 && (bit r 1 || bit r 8)), (bit m 2 && bit r 2), (bit m 4 && bit r 4); lia.
  - destruct (bit m 1 && bit r 1), (bit m 2 && bit r 2), (bit r 4 || bit r 8); lia.
Qed.

Lemma batch_events_sound : forall k p rd order f e,
  In (f, e) (batch k p rd order) -> e <> 0 /\ e <= 7.
Proof.
  intros k p rd order f e H; unfold batch in H.
  apply filter_In in H; destruct H as [H Hn]; cbn [snd] in Hn.
  apply negb_true_iff, N.eqb_neq in Hn; split; [exact Hn|].
  apply in_map_iff in H; destruct H as [f' [H _]]; inversion H; subst.
  destruct (aget f (interest p)); [apply event_of_le7 | lia].
Qed.

(* ---- PollPoller: every registered descriptor has a callback, in every state ---- *)
Definition keys_sub {A B} (l1 : list (N * A)) (l2 : list (N * B)) : Prop :=
  forall f, aget f l1 <> None -> aget f l2 <> None.

Definition pinv (p : poller) : Prop := keys_sub (interest p) (cbs p).

Lemma cbs_grow_op : forall o p f, aget f (cbs p) <> None -> aget f (cbs (do_op KPoll o p)) <> None.
Proof.
  intros [f' c m|f'] p f H; cbn [do_op subscribe unsubscribe cbs]; [|exact H].
  destruct (N.eq_dec f f') as [->|Hne]; [rewrite aget_aset_same; discriminate | rewrite aget_aset_other; auto].
Qed.

Lemma cbs_grow_script : forall s p f, aget f (cbs p) <> None -> aget f (cbs (run_script KPoll s p)) <> None.
Proof.
  unfold run_script; induction s as [|o s IH]; intros p f H; cbn [fold_left]; [exact H|].
  apply IH, cbs_grow_op, H.
Qed.

Lemma pinv_op : forall o p, pinv p -> pinv (do_op KPoll o p).
Proof.
  intros [f' c m|f'] p H f; cbn [do_op subscribe unsubscribe interest cbs].
  - destruct (N.eq_dec f f') as [->|Hne]; [rewrite !aget_aset_same; discriminate|].
    rewrite !aget_aset_other by exact Hne; apply H.
  - destruct (N.eq_dec f f') as [->|Hne]; [rewrite aget_adel_same; tauto|].
    rewrite aget_adel_other by exact Hne; apply H.
Qed.

Lemma pinv_script : forall s p, pinv p -> pinv (run_script KPoll s p).
Proof.
  unfold run_script; induction s as [|o s IH]; intros p H; cbn [fold_left]; [exact H|].
  apply IH, pinv_op, H.
Qed.

Lemma dispatch_poll_ok : forall rl scripts b p acc,
  pinv p -> (forall f e, In (f, e) b -> aget f (cbs p) <> None) ->
  exc (snd (dispatch KPoll rl scripts b p acc)) = false /\ pinv (fst (dispatch KPoll rl scripts b p acc)).
Proof.
  intros rl scripts b; induction b as [|[f e] rest IH]; intros p acc Hp Hb; cbn [dispatch].
  - cbn; auto.
  - destruct (aget f (cbs p)) as [c|] eqn:E.
    + apply IH.
      * apply pinv_script, Hp.
      * intros f' e' Hin; apply cbs_grow_script, (Hb f' e'); right; exact Hin.
    + exfalso; apply (Hb f e); [left; reflexivity | exact E].
Qed.

Lemma batch_poll_registered : forall p rd order f e,
  In (f, e) (batch KPoll p rd order) -> aget f (interest p) <> None.
Proof.
  intros p rd order f e H; unfold batch in H.
  apply filter_In in H; destruct H as [H _].
  apply in_map_iff in H; destruct H as [f' [H Hin]]; inversion H; subst.
  apply aget_in_keys, Hin.
Qed.

(* ---- SelectPoller, repaired rule: no raise path ---- *)
Lemma dispatch_select_new_ok : forall scripts b p acc,
  exc (snd (dispatch KSelect New scripts b p acc)) = false.
Proof.
  intros scripts b; induction b as [|[f e] rest IH]; intros p acc; cbn [dispatch]; [reflexivity|].
  destruct (aget f (cbs p)); apply IH.
Qed.

(* ---- nothing escapes poll(), in every reachable state, for both pollers ---- *)
Lemma step_ok : forall k scripts p e,
  pinv p -> exc (snd (step k New scripts p e)) = false /\ (k = KPoll -> pinv (fst (step k New scripts p e))).
Proof.
  intros k scripts p [o|rd order] Hp; cbn [step fst snd].
  - split; [reflexivity | intros ->; apply pinv_op, Hp].
  - unfold poll; destruct k.
    + split; [apply dispatch_select_new_ok | discriminate].
    + pose proof (dispatch_poll_ok New scripts (batch KPoll p rd order) p [] Hp) as H.
      destruct H as [H1 H2].
      * intros f e Hin; apply Hp, (batch_poll_registered p rd order f e), Hin.
      * split; [exact H1 | intros _; exact H2].
Qed.

Lemma run_ok : forall k scripts es p, (k = KPoll -> pinv p) ->
  Forall (fun o => exc o = false) (snd (run k New scripts p es)).
Proof.
  intros k scripts es; induction es as [|e r IH]; intros p Hp; cbn [run snd]; [constructor|].
  destruct (step k New scripts p e) as [p' o] eqn:Es.
  assert (exc o = false /\ (k = KPoll -> pinv p')) as [Ho Hp'].
  { destruct k.
    - split; [|discriminate].
      destruct e as [o'|rd order]; cbn [step] in Es.
      + inversion Es; reflexivity.
      + unfold poll in Es. pose proof (dispatch_select_new_ok scripts (batch KSelect p rd order) p []) as H.
        rewrite Es in H; exact H.
    - pose proof (step_ok KPoll scripts p e (Hp eq_refl)) as [H1 H2]. rewrite Es in H1, H2. split; auto. }
  rewrite Ho.
  specialize (IH p' Hp'). destruct (run k New scripts p' r) as [p'' os]; cbn [snd] in *.
  constructor; [exact Ho | exact IH].
Qed.

Lemma pinv_empty : pinv empty.
Proof. intros f H; exact H. Qed.

Theorem poll_never_raises : forall k scripts es,
  Forall (fun o => exc o = false) (snd (run k New scripts empty es)).
Proof. intros; apply run_ok; intros _; apply pinv_empty. Qed.

(* ---- SelectPoller: a descriptor unsubscribed earlier in the round is not dispatched later in it ---- *)
Definition no_sub_of (f : fd) (scripts : list (cbid * list op)) : Prop :=
  forall c s, In (c, s) scripts -> forall c' m, ~ In (Sub f c' m) s.

Lemma aget_in : forall A k (v : A) l, aget k l = Some v -> In (k, v) l.
Proof.
  intros A k v l; induction l as [|[k' v'] r IH]; cbn [aget In]; [discriminate|].
  destruct (k =? k') eqn:E; [apply N.eqb_eq in E; subst; intros H; inversion H; auto | auto].
Qed.

Lemma script_keeps_unsubscribed : forall f s p,
  (forall c' m, ~ In (Sub f c' m) s) -> aget f (cbs p) = None -> aget f (cbs (run_script KSelect s p)) = None.
Proof.
  unfold run_script; intros f s; induction s as [|o s IH]; intros p Hs Hp; cbn [fold_left]; [exact Hp|].
  apply IH; [intros c' m Hin; apply (Hs c' m); right; exact Hin|].
  destruct o as [f' c m|f']; cbn [do_op subscribe unsubscribe cbs].
  - destruct (N.eq_dec f f') as [->|Hne]; [exfalso; apply (Hs c m); left; reflexivity|].
    rewrite aget_aset_other, aget_adel_other; auto.
  - destruct (N.eq_dec f f') as [->|Hne]; [apply aget_adel_same | rewrite aget_adel_other; auto].
Qed.

Lemma dispatch_select_skips_unsubscribed : forall f scripts b p acc,
  no_sub_of f scripts -> aget f (cbs p) = None ->
  forall d, In d (disp (snd (dispatch KSelect New scripts b p acc))) -> In d (rev acc) \/ snd (fst d) <> f.
Proof.
  intros f scripts b; induction b as [|[f' e] rest IH]; intros p acc Hs Hp d; cbn [dispatch].
  - cbn; auto.
  - destruct (aget f' (cbs p)) as [c|] eqn:E.
    + intros Hd.
      assert (f' <> f) as Hne by (intros ->; congruence).
      destruct (IH (run_script KSelect (match aget c scripts with Some s => s | None => [] end) p)
                   ((c, f', e) :: acc) Hs) with (d := d) as [H|H]; auto.
      * destruct (aget c scripts) as [s|] eqn:Ec; [|exact Hp].
        apply script_keeps_unsubscribed; [|exact Hp].
        intros c' m; apply (Hs c s); apply aget_in, Ec.
      * cbn [rev] in H; apply in_app_or in H; destruct H as [H|[H|[]]]; [left; exact H|].
        right; subst d; cbn; exact Hne.
    + apply IH; assumption.
Qed.

Theorem select_unsubscribed_not_dispatched : forall f scripts rd order p,
  no_sub_of f scripts -> aget f (cbs p) = None ->
  forall c f' e, In (c, f', e) (disp (snd (poll KSelect New scripts rd order p))) -> f' <> f.
Proof.
  intros f scripts rd order p Hs Hp c f' e Hin; unfold poll in Hin.
  destruct (dispatch_select_skips_unsubscribed f scripts _ p [] Hs Hp _ Hin) as [H|H]; [destruct H | exact H].
Qed.

(* ---- every dispatch carries a sound event mask ---- *)
Lemma dispatch_masks : forall k rl scripts b p acc,
  (forall f e, In (f, e) b -> e <> 0 /\ e <= 7) ->
  (forall d, In d acc -> snd d <> 0 /\ snd d <= 7) ->
  forall d, In d (disp (snd (dispatch k rl scripts b p acc))) -> snd d <> 0 /\ snd d <= 7.
Proof.
  intros k rl scripts b; induction b as [|[f e] rest IH]; intros p acc Hb Ha d; cbn [dispatch].
  - cbn; intros H; apply in_rev in H; auto.
  - assert (forall f0 e0, In (f0, e0) rest -> e0 <> 0 /\ e0 <= 7) as Hr by (intros; apply (Hb f0 e0); right; assumption).
    destruct (aget f (cbs p)) as [c|].
    + apply IH; [exact Hr|]. intros d' [<-|H]; [cbn; apply (Hb f e); left; reflexivity | auto].
    + destruct k, rl; first [ apply (IH p acc Hr Ha) | cbn; intros H; apply in_rev in H; auto ].
Qed.

Theorem dispatched_events_sound : forall k rl scripts rd order p c f e,
  In (c, f, e) (disp (snd (poll k rl scripts rd order p))) -> e <> 0 /\ e <= 7.
Proof.
  intros k rl scripts rd order p c f e H; unfold poll in H.
  apply (dispatch_masks k rl scripts _ p [] (batch_events_sound k p rd order)) in H; [exact H | intros d []].
Qed.

(* ---- the rule before the repair: KeyError out of poll() ---- *)
Definition old_scripts : list (cbid * list op) := [(1, [Unsub 5])].
Definition old_events : list ev :=
  [EOp (Sub 5 1 5); EOp (Sub 7 1 5); EPoll [(5, 1); (7, 1)] [7; 5]].

Lemma old_select_rule_raises :
  map exc (snd (run KSelect Old old_scripts empty old_events)) = [false; false; true] /\
  map exc (snd (run KSelect New old_scripts empty old_events)) = [false; false; false] /\
  map disp (snd (run KSelect New old_scripts empty old_events)) = [[]; []; [(1, 7, 1)]].
Proof. vm_compute; auto. Qed.

(* non-vacuity of the premises of select_unsubscribed_not_dispatched *)
Example unsubscribed_premises_hold :
  no_sub_of 5 old_scripts /\
  aget 5 (cbs (run_script KSelect [Unsub 5] (fst (run KSelect New old_scripts empty [EOp (Sub 5 1 5)])))) = None.
Proof.
  split; [|vm_compute; reflexivity].
  unfold no_sub_of, old_scripts; intros c s Hin c' m Hs; cbn [In] in Hin.
  destruct Hin as [H|[]]; inversion H; subst; cbn [In] in Hs; destruct Hs as [H'|[]]; discriminate.
Qed.
