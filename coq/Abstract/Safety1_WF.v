(* Invariant 1: well-formedness of logs and of the entries carried by messages.
   - the entry at position p has index p+1 (indices consecutive from 1);
   - every entry's term is <= the holder's current term;
   - logs are never empty; terms of nodes never decrease.
   (That terms are non-decreasing ALONG a log is [log_sorted] in Safety4_LogMatching.v: it is a
   corollary of the leader-log invariants.) *)
From Coq Require Import List Arith Lia Bool PeanoNat.
Import ListNotations.
Require Import PSO.Abstract.Model PSO.Abstract.Lib PSO.Abstract.Kstep.

Definition log_ok (l : list entry) (t : nat) : Prop :=
  forall p e, nth_error l p = Some e -> eidx e = S p /\ eterm e <= t.

Definition es_ok (pi : nat) (es : list entry) (t : nat) : Prop :=
  forall k e, nth_error es k = Some e -> eidx e = S (pi + k) /\ eterm e <= t.

Record Inv1 (s : state) : Prop := {
  I1_log : forall j, log_ok (log (nodes s j)) (term (nodes s j));
  I1_ne : forall j, log (nodes s j) <> [];
  I1_msg : forall t l pi pt es lc, In (AppendEntries t l pi pt es lc) (net s) -> es_ok pi es t
}.

Lemma log_ok_mono l t t' : log_ok l t -> t <= t' -> log_ok l t'.
Proof. intros H L p e Hp. destruct (H p e Hp). split; auto. lia. Qed.

Lemma log_ok_snoc l t c : log_ok l t -> log_ok (l ++ [mkE (S (length l)) t c]) t.
Proof.
  intros H p e Hp. apply nth_error_snoc_cases in Hp as [[L Hp]|[-> ->]]; auto.
Qed.

Lemma log_ok_merge l t p es :
  p < length l -> log_ok l t -> es_ok (S p) es t -> log_ok (firstn (S p) l ++ merge (skipn (S p) l) es) t.
Proof.
  intros Hp Hl He q e Hq.
  assert (Hlen : length (firstn (S p) l) = S p) by (rewrite firstn_length; lia).
  destruct (Nat.lt_ge_cases q (S p)) as [L|L].
  - rewrite nth_error_app1 in Hq by lia. apply nth_error_firstn_some in Hq as [_ Hq]. auto.
  - rewrite nth_error_app2 in Hq by lia. rewrite Hlen in Hq.
    apply merge_nth in Hq as [Hq|Hq].
    + rewrite nth_error_skipn in Hq. apply Hl in Hq.
      replace (S p + (q - S p)) with q in Hq by lia. auto.
    + apply He in Hq. replace (S p + (q - S p)) with q in Hq by lia. auto.
Qed.

Lemma merge_ne l p es : p < length l -> firstn (S p) l ++ merge (skipn (S p) l) es <> [].
Proof.
  intros H E. assert (L : length (firstn (S p) l ++ merge (skipn (S p) l) es) = 0) by (rewrite E; reflexivity).
  rewrite app_length, firstn_length in L. lia.
Qed.

Ltac node_cases Hf j n := rewrite (Hf j); destruct (Nat.eqb_spec j n) as [->|?]; simpl.

Section S1.
Variable V : list nat.

Lemma inv1_init : Inv1 (init V).
Proof.
  constructor; simpl.
  - intros _ p e Hp. destruct p as [|p]; simpl in Hp.
    + injection Hp as <-. simpl. auto.
    + destruct p; discriminate.
  - intros _. discriminate.
  - intros; contradiction.
Qed.

Lemma kstep_term_mono s s' j : kstep V s s' -> term (nodes s j) <= term (nodes s' j).
Proof.
  intros K. destruct K; simpl; auto; node_cases Hf j n; subst; simpl; auto; lia.
Qed.

Lemma es_ok_window l t p k : log_ok l t -> es_ok (S p) (firstn k (skipn (S p) l)) t.
Proof.
  intros H q e Hq. apply nth_error_firstn_some in Hq as [_ Hq]. rewrite nth_error_skipn in Hq.
  apply H in Hq. auto.
Qed.

Lemma inv1_kstep s s' : Inv1 s -> kstep V s s' -> Inv1 s'.
Proof.
  intros [IL IN IM] K. constructor.
  - intros j. destruct K; simpl; auto; node_cases Hf j n; subst; auto.
    + eapply log_ok_mono; [apply IL|lia].
    + apply log_ok_snoc; apply IL.
    + eapply log_ok_mono; [apply IL|lia].
    + apply log_ok_snoc; apply IL.
    + apply log_ok_merge; [apply nth_error_Some; congruence|apply IL|eapply IM; eauto].
  - intros j. destruct K; simpl; auto; node_cases Hf j n; subst; auto;
      try (intro E; apply app_eq_nil in E as [_ E]; discriminate).
    apply merge_ne. apply nth_error_Some. congruence.
  - intros t0 l0 pi0 pt0 es0 lc0 H.
    destruct K; simpl in H; eauto; destruct H as [H|H]; eauto; try discriminate.
    injection H as <- <- <- <- <- <-. subst. apply es_ok_window. apply IL.
Qed.

Theorem inv1_kreachable s : kreachable V s -> Inv1 s.
Proof. apply kreachable_ind_inv; [apply inv1_init|]. intros; eapply inv1_kstep; eauto. Qed.

Theorem inv1_reachable s : reachable V s -> Inv1 s.
Proof. intros R. apply inv1_kreachable. apply reachable_kreachable; auto. Qed.

(* ---- the statements of invariant 1 for every reachable state ---- *)
Theorem log_indices_consecutive s j p e :
  reachable V s -> nth_error (log (nodes s j)) p = Some e -> eidx e = S p.
Proof. intros R H. apply (I1_log _ (inv1_reachable s R)) in H. tauto. Qed.

Theorem log_terms_le_current s j e :
  reachable V s -> In e (log (nodes s j)) -> eterm e <= term (nodes s j).
Proof.
  intros R H. apply In_nth_error in H as [p H]. apply (I1_log _ (inv1_reachable s R)) in H. tauto.
Qed.

Theorem log_nonempty s j : reachable V s -> log (nodes s j) <> [].
Proof. intros R. apply (I1_ne _ (inv1_reachable s R)). Qed.

Theorem step_term_mono s s' j : step V s s' -> term (nodes s j) <= term (nodes s' j).
Proof.
  intros St. destruct (step_ksteps V s s' St) as [->|[K|(s1 & K1 & K2)]]; auto.
  - eapply kstep_term_mono; eauto.
  - etransitivity; eapply kstep_term_mono; eauto.
Qed.

End S1.
