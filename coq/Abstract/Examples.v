(* Non-vacuity: explicit runs of the abstract model with three voters. *)
From Coq Require Import List Arith Lia Bool PeanoNat.
Import ListNotations.
Require Import PSO.Abstract.Model.

Lemma run_reachable V acts s : reachable V s -> run_ok V acts s -> reachable V (run V acts s).
Proof.
  revert s; induction acts as [|a r IH]; intros s R H; simpl in *; auto.
  destruct H as [P H]. apply IH; auto. apply (reach_step V s (eff V a s)); auto. exists a. auto.
Qed.

Definition V3 : list nat := [0; 1; 2].

Definition n2 := mkE 2 1 0.   (* the no-op of the leader of term 1 *)
Definition c3 := mkE 3 1 7.   (* two client commands *)
Definition c4 := mkE 4 1 8.

(* node 0 is elected in term 1 with the vote of node 1, appends two commands, replicates them to
   node 1, commits them (index 4), tells nodes 1 and 2 *)
Definition run1 : list action :=
  [ Timeout 0;
    HandleRequestVote 1 1 0 1 0;
    HandleVote 0 1 1;
    ClientRequest 0 7;
    ClientRequest 0 8;
    SendAppendEntries 0 0 3;
    HandleAppendEntries 1 1 0 1 0 [n2; c3; c4] 1;
    HandleAppendReply 0 1 1 true 4;
    AdvanceCommit 0 3;
    SendAppendEntries 0 3 0;
    HandleAppendEntries 1 1 0 4 1 [] 4;
    HandleAppendEntries 2 1 0 1 0 [n2; c3; c4] 1;
    HandleAppendEntries 2 1 0 4 1 [] 4 ].

Ltac ok_tac := vm_compute; repeat split; try discriminate; try lia; auto 20.

Example run1_ok : run_ok V3 run1 (init V3).
Proof. ok_tac. Qed.

Example run1_reachable : reachable V3 (run V3 run1 (init V3)).
Proof. apply run_reachable; [constructor|apply run1_ok]. Qed.

Example run1_result :
  let s := run V3 run1 (init V3) in
  rl (nodes s 0) = Leader /\ term (nodes s 0) = 1 /\
  wins s = [(1, 0, [1; 0])] /\
  log (nodes s 0) = [e0; n2; c3; c4] /\ log (nodes s 1) = [e0; n2; c3; c4] /\ log (nodes s 2) = [e0; n2; c3; c4] /\
  commit (nodes s 0) = 4 /\ commit (nodes s 1) = 4 /\ commit (nodes s 2) = 4 /\
  direct s = [(1, 3); (0, 0)] /\
  llog s 1 = [e0; n2; c3; c4].
Proof. vm_compute. repeat split; reflexivity. Qed.

(* ... then node 0 appends a command it never replicates and steps down; node 1 is elected in
   term 2 with the vote of node 2 (its log is up to date), and overwrites node 0's uncommitted
   entry: node 0 truncates at the conflicting position only, the committed prefix stays *)
Definition c5 := mkE 5 1 9.   (* never committed *)
Definition n5 := mkE 5 2 0.   (* the no-op of the leader of term 2 *)

Definition run2 : list action :=
  run1 ++
  [ ClientRequest 0 9;
    StepDown 0;
    Timeout 1;
    HandleRequestVote 2 2 1 4 1;
    HandleVote 1 2 2;
    SendAppendEntries 1 3 1;
    HandleAppendEntries 0 2 1 4 1 [n5] 4;
    HandleAppendReply 1 2 0 true 5;
    AdvanceCommit 1 4 ].

Example run2_ok : run_ok V3 run2 (init V3).
Proof. ok_tac. Qed.

Example run2_reachable : reachable V3 (run V3 run2 (init V3)).
Proof. apply run_reachable; [constructor|apply run2_ok]. Qed.

Example run2_result :
  let s := run V3 run2 (init V3) in
  rl (nodes s 1) = Leader /\ term (nodes s 1) = 2 /\ rl (nodes s 0) = Follower /\ term (nodes s 0) = 2 /\
  wins s = [(2, 1, [2; 1]); (1, 0, [1; 0])] /\
  log (nodes s 0) = [e0; n2; c3; c4; n5] /\ log (nodes s 1) = [e0; n2; c3; c4; n5] /\
  log (nodes s 2) = [e0; n2; c3; c4] /\
  commit (nodes s 0) = 4 /\ commit (nodes s 1) = 5 /\ commit (nodes s 2) = 4 /\
  direct s = [(2, 4); (1, 3); (0, 0)] /\
  llog s 1 = [e0; n2; c3; c4; c5] /\ llog s 2 = [e0; n2; c3; c4; n5].
Proof. vm_compute. repeat split; reflexivity. Qed.

(* a split vote: two candidates of the same term, neither reaches a majority *)
Definition run3 : list action :=
  [ Timeout 0; Timeout 1;
    HandleRequestVote 1 1 0 1 0;      (* refused: node 1 voted for itself *)
    HandleRequestVote 0 1 1 1 0;      (* refused *)
    HandleRequestVote 2 1 1 1 0;      (* node 2 votes for 1 *)
    HandleRequestVote 2 1 0 1 0;      (* ... and not for 0 *)
    HandleVote 1 1 2 ].               (* node 1 wins term 1 *)

Example run3_ok : run_ok V3 run3 (init V3).
Proof. ok_tac. Qed.

Example run3_result :
  let s := run V3 run3 (init V3) in
  rl (nodes s 0) = Candidate /\ rl (nodes s 1) = Leader /\ term (nodes s 0) = 1 /\ term (nodes s 1) = 1 /\
  grants s = [(1, 2, 1); (1, 1, 1); (1, 0, 0)] /\ wins s = [(1, 1, [2; 1])].
Proof. vm_compute. repeat split; reflexivity. Qed.

(* a one-node cluster elects itself at once and commits alone *)
Example run4_ok : run_ok [5] [Timeout 5; ClientRequest 5 1; AdvanceCommit 5 2] (init [5]).
Proof. ok_tac. Qed.

Example run4_result :
  let s := run [5] [Timeout 5; ClientRequest 5 1; AdvanceCommit 5 2] (init [5]) in
  rl (nodes s 5) = Leader /\ commit (nodes s 5) = 3 /\ log (nodes s 5) = [e0; mkE 2 1 0; mkE 3 1 1].
Proof. vm_compute. repeat split; reflexivity. Qed.
