(* Invariant 2: Election Safety - at most one leader per term - via uniqueness of votes. *)
From Coq Require Import List Arith Lia Bool PeanoNat.
Import ListNotations.
Require Import PSO.Abstract.Model PSO.Abstract.Lib PSO.Abstract.Kstep PSO.Abstract.Safety1_WF.

Section S2.
Variable V : list nat.

Record Inv2 (s : state) : Prop := {
  (* a recorded grant binds the voter for that term *)
  I2_grant : forall t v c, In (t, v, c) (grants s) ->
     t <= term (nodes s v) /\ (t = term (nodes s v) -> voted (nodes s v) = Some c) /\
     t <= term (nodes s c) /\ In v V;
  I2_uniq : forall t v c c', In (t, v, c) (grants s) -> In (t, v, c') (grants s) -> c = c';
  (* vote messages are recorded grants *)
  I2_vote : forall t v c, In (Vote t v c) (net s) -> In (t, v, c) (grants s);
  (* a candidate has only counted recorded grants of its current term, each voter once *)
  I2_cand : forall c, rl (nodes s c) = Candidate ->
     NoDup (votesFrom (nodes s c)) /\
     forall v, In v (votesFrom (nodes s c)) -> In (term (nodes s c), v, c) (grants s);
  (* a win is backed by a majority of recorded grants *)
  I2_win : forall t c Q, In (t, c, Q) (wins s) ->
     NoDup Q /\ length V < 2 * length Q /\ (forall v, In v Q -> In (t, v, c) (grants s)) /\
     t <= term (nodes s c) /\ (t = term (nodes s c) -> rl (nodes s c) <> Candidate) /\ In c V;
  I2_leader : forall c, rl (nodes s c) = Leader -> won s (term (nodes s c)) c;
  (* a RequestVote describes the log of its sender while that is still a candidate of that term *)
  I2_rv : forall t c li lt, In (RequestVote t c li lt) (net s) ->
     t <= term (nodes s c) /\
     (t = term (nodes s c) -> rl (nodes s c) = Candidate ->
        li = length (log (nodes s c)) /\ lt = lastTerm (log (nodes s c)));
  (* a candidate's log holds only entries of earlier terms *)
  I2_candlog : forall c e, rl (nodes s c) = Candidate -> In e (log (nodes s c)) -> eterm e < term (nodes s c)
}.

Lemma inv2_init : Inv2 (init V).
Proof.
  constructor; simpl; try (intros; contradiction); try (intros; discriminate).
Qed.

Lemma mem_In v l : mem v l = true <-> In v l.
Proof.
  unfold mem. rewrite existsb_exists. split.
  - intros [x [H E]]. apply Nat.eqb_eq in E. subst; auto.
  - intros H. exists v. split; auto. apply Nat.eqb_refl.
Qed.

Lemma mem_not_In v l : mem v l = false -> ~ In v l.
Proof. intros H I. apply mem_In in I. congruence. Qed.

Lemma inv2_kstep s s' : Inv1 s -> Inv2 s -> kstep V s s' -> Inv2 s'.
Proof.
  intros I1 [IG IU IV IC IW IL IR ICL] K. constructor.
  - (* grants *)
    intros t0 v0 c0 H.
    assert (Old : In (t0, v0, c0) (grants s) ->
                  t0 <= term (nodes s' v0) /\ (t0 = term (nodes s' v0) -> voted (nodes s' v0) = Some c0) /\
                  t0 <= term (nodes s' c0) /\ In v0 V).
    { intros G. destruct (IG _ _ _ G) as (A & B & C & D).
      pose proof (kstep_term_mono V s s' v0 K) as Mv. pose proof (kstep_term_mono V s s' c0 K) as Mc.
      repeat split; auto; try lia.
      intros E. assert (E' : t0 = term (nodes s v0)) by lia. specialize (B E').
      clear Mc C. destruct K; subst x; simpl in *; auto; nc v0; subst; simpl in *; auto; try lia; try congruence.
    }
    destruct K; subst x; simpl in H |- *; auto; try (apply Old; exact H).
    + (* timeout *) destruct H as [H|H]; [|apply Old; exact H]. injection H as <- <- <-.
      rewrite (Hf n), Nat.eqb_refl. simpl. auto.
    + (* grant *) destruct H as [H|H]; [|apply Old; exact H]. injection H as <- <- <-.
      rewrite (Hf n), Nat.eqb_refl. simpl. repeat split; auto; try lia.
      nc c; try lia. destruct (IR _ _ _ _ Hm) as [A _]. lia.
  - (* uniqueness *)
    intros t0 v0 c0 c0' H H'.
    destruct K; subst x; simpl in H, H'; eauto.
    + destruct H as [H|H], H' as [H'|H']; eauto; try congruence.
      * injection H as <- <- <-. apply IG in H'. lia.
      * injection H' as <- <- <-. apply IG in H. lia.
    + destruct H as [H|H], H' as [H'|H']; eauto; try congruence.
      * injection H as <- <- <-. apply IG in H' as (_ & B & _). rewrite B in Hv; [discriminate|auto].
      * injection H' as <- <- <-. apply IG in H as (_ & B & _). rewrite B in Hv; [discriminate|auto].
  - (* vote messages *)
    intros t0 v0 c0 H.
    destruct K; subst x; simpl in H |- *; auto; destruct H as [H|H]; auto; try discriminate.
    injection H as <- <- <-. auto.
  - (* candidates *)
    intros c0 Hc.
    destruct K; subst x; simpl in Hc |- *; auto; revert Hc; nc c0; intros Hc; subst; auto; try discriminate;
      try (destruct (IC c0 Hc) as [A B]; split; auto; fail).
    + split; [repeat constructor; simpl; tauto|]. intros v [<-|[]]. auto.
    + destruct (IC _ Hc) as [A B]; split; auto.
    + destruct (IC _ Hr) as [A B].
      destruct (mem v (votesFrom (nodes s n))) eqn:M; auto.
      split.
      * constructor; auto. apply mem_not_In; auto.
      * intros v0 [<-|H]; auto.
  - (* wins *)
    intros t0 c0 Q0 H.
    assert (Old : In (t0, c0, Q0) (wins s) ->
              NoDup Q0 /\ length V < 2 * length Q0 /\ (forall v, In v Q0 -> In (t0, v, c0) (grants s')) /\
              t0 <= term (nodes s' c0) /\ (t0 = term (nodes s' c0) -> rl (nodes s' c0) <> Candidate) /\ In c0 V).
    { intros W. destruct (IW _ _ _ W) as (A & B & C & D & E & F).
      pose proof (kstep_term_mono V s s' c0 K) as Mc.
      repeat split; auto; try lia.
      - intros v Hv. specialize (C v Hv). destruct K; subst x; simpl; auto.
      - intros E0. assert (E' : t0 = term (nodes s c0)) by lia. specialize (E E').
        clear Mc D. destruct K; subst x; simpl in *; auto; nc c0; subst; simpl in *; auto; try lia; try congruence.
    }
    destruct K; subst x; simpl in H |- *; auto; try (apply Old; exact H).
    destruct H as [H|H]; [|apply Old; exact H]. injection H as <- <- <-.
    destruct (IC _ Hr) as [A B].
    rewrite (Hf n), Nat.eqb_refl. simpl. repeat split; auto; try discriminate.
    unfold majority in Hmaj. apply Nat.ltb_lt in Hmaj. exact Hmaj.
  - (* leaders *)
    intros c0 Hc.
    assert (Old : rl (nodes s c0) = Leader -> term (nodes s' c0) = term (nodes s c0) -> won s' (term (nodes s' c0)) c0).
    { intros L E. rewrite E. destruct (IL c0 L) as [Q HQ]. exists Q. destruct K; subst x; simpl; auto. }
    destruct K; subst x; simpl in Hc |- *; auto; revert Hc Old; nc c0; intros Hc Old; subst; auto; try discriminate;
      try (apply Old; auto; fail).
    exists (votesFrom (nodes s n)). simpl. auto.
  - (* request votes *)
    intros t0 c0 li0 lt0 H.
    assert (Old : In (RequestVote t0 c0 li0 lt0) (net s) ->
       t0 <= term (nodes s' c0) /\
       (t0 = term (nodes s' c0) -> rl (nodes s' c0) = Candidate ->
          li0 = length (log (nodes s' c0)) /\ lt0 = lastTerm (log (nodes s' c0)))).
    { intros R. destruct (IR _ _ _ _ R) as [A B].
      pose proof (kstep_term_mono V s s' c0 K) as Mc. split; [lia|].
      intros E. assert (E' : t0 = term (nodes s c0)) by lia. specialize (B E').
      clear Mc A. destruct K; subst x; simpl in *; auto; nc c0; subst; simpl in *; auto; try lia; try congruence;
        try discriminate.
    }
    destruct K; subst x; simpl in H |- *; auto; destruct H as [H|H]; try discriminate; try (apply Old; exact H).
    injection H as <- <- <- <-. rewrite (Hf n), Nat.eqb_refl. simpl. auto.
  - (* candidate logs *)
    intros c0 e Hc He.
    destruct K; subst x; simpl in Hc, He |- *; eauto; revert Hc He; nc c0; intros Hc He; subst; eauto; try discriminate; try congruence.
    apply In_nth_error in He as [p He]. apply (I1_log _ I1) in He. lia.
Qed.

Theorem inv2_kreachable s : kreachable V s -> Inv2 s.
Proof.
  apply kreachable_ind_inv; [apply inv2_init|].
  intros s0 s1 R I K. eapply inv2_kstep; eauto. apply (inv1_kreachable V); auto.
Qed.

Theorem inv2_reachable s : reachable V s -> Inv2 s.
Proof. intros R. apply inv2_kreachable. apply reachable_kreachable; auto. Qed.

(* two majorities of recorded grants of one term name the same candidate *)
Lemma quorums_same_candidate s t c c' Q Q' :
  Inv2 s -> NoDup Q -> NoDup Q' -> length V < 2 * length Q -> length V < 2 * length Q' ->
  (forall v, In v Q -> In (t, v, c) (grants s)) -> (forall v, In v Q' -> In (t, v, c') (grants s)) ->
  c = c'.
Proof.
  intros I N N' M M' G G'.
  destruct (quorum_meet V Q Q') as [v [A B]]; auto; try lia.
  - intros v Hv. apply G in Hv. apply (I2_grant _ I) in Hv. tauto.
  - intros v Hv. apply G' in Hv. apply (I2_grant _ I) in Hv. tauto.
  - eapply (I2_uniq _ I); eauto.
Qed.

Lemma one_leader_inv s t c c' Q Q' : Inv2 s -> In (t, c, Q) (wins s) -> In (t, c', Q') (wins s) -> c = c'.
Proof.
  intros I W W'. destruct (I2_win _ I _ _ _ W) as (A & B & C & _). destruct (I2_win _ I _ _ _ W') as (A' & B' & C' & _).
  apply (quorums_same_candidate s t c c' Q Q'); auto.
Qed.

(* a candidate that reaches a majority is the first (hence only) winner of its term *)
Lemma lead_fresh s n c Q :
  Inv2 s -> rl (nodes s n) = Candidate -> majority V (length (votesFrom (nodes s n))) = true ->
  ~ In (term (nodes s n), c, Q) (wins s).
Proof.
  intros I Hr Hm W. destruct (I2_cand _ I n Hr) as [A B].
  destruct (I2_win _ I _ _ _ W) as (A' & B' & C' & D' & E' & F').
  unfold majority in Hm. apply Nat.ltb_lt in Hm.
  assert (n = c) by (apply (quorums_same_candidate s (term (nodes s n)) n c (votesFrom (nodes s n)) Q); auto).
  subst c.
  apply E'; auto.
Qed.

(* ---- Election Safety, for every reachable state ---- *)
Theorem election_safety s t c c' Q Q' :
  reachable V s -> In (t, c, Q) (wins s) -> In (t, c', Q') (wins s) -> c = c'.
Proof. intros R. apply one_leader_inv. apply inv2_reachable; auto. Qed.

Theorem one_leader_per_term s a b :
  reachable V s -> rl (nodes s a) = Leader -> rl (nodes s b) = Leader ->
  term (nodes s a) = term (nodes s b) -> a = b.
Proof.
  intros R La Lb E. pose proof (inv2_reachable s R) as I.
  destruct (I2_leader _ I a La) as [Q W]. destruct (I2_leader _ I b Lb) as [Q' W'].
  rewrite E in W. eapply one_leader_inv; eauto.
Qed.

End S2.
