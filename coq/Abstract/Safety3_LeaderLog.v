(* Invariant 3: the ghost leader log.
   - [llog T] is the log of T's leader; it only grows (Leader Append-Only), by entries of term T;
   - every entry of term T held anywhere - in a log or in an AppendEntries message - sits in
     [llog T] at the same position ("every entry of term T was created by T's leader");
   - every AppendEntries message of term T is a window of [llog T]. *)
From Coq Require Import List Arith Lia Bool PeanoNat.
Import ListNotations.
Require Import PSO.Abstract.Model PSO.Abstract.Lib PSO.Abstract.Kstep PSO.Abstract.Safety1_WF
  PSO.Abstract.Safety2_Election.

(* the entries [es] are what [L] holds from position [pi] on *)
Definition window (L : list entry) (pi : nat) (es : list entry) : Prop :=
  forall k e, nth_error es k = Some e -> nth_error L (pi + k) = Some e.

(* every entry of [l] sits at the same position in the leader log of its term *)
Definition in_llog (ll : nat -> list entry) (l : list entry) : Prop :=
  forall p e, nth_error l p = Some e -> nth_error (ll (eterm e)) p = Some e.

Section S3.
Variable V : list nat.

Record Inv3 (s : state) : Prop := {
  I3_wlog : forall T c Q, In (T, c, Q) (wins s) -> term (nodes s c) = T -> log (nodes s c) = llog s T;
  I3_won : forall T, llog s T <> [] -> T = 0 \/ exists c, won s T c;
  I3_llog_ok : forall T, log_ok (llog s T) T;
  I3_in : forall j, in_llog (llog s) (log (nodes s j));
  I3_llog_in : forall T, in_llog (llog s) (llog s T);
  I3_ae : forall T l pi pt es lc, In (AppendEntries T l pi pt es lc) (net s) ->
     won s T l /\ window (llog s T) pi es /\
     exists p pe, pi = S p /\ nth_error (llog s T) p = Some pe /\ eterm pe = pt
}.

Lemma inv3_init : Inv3 (init V).
Proof.
  constructor; simpl; try (intros; contradiction).
  - intros T H. destruct (Nat.eqb_spec T 0); auto. congruence.
  - intros T p e H. destruct (Nat.eqb_spec T 0).
    + destruct p as [|[|p]]; simpl in H; try discriminate. injection H as <-. simpl. lia.
    + destruct p; discriminate.
  - intros _ p e H. destruct p as [|[|p]]; simpl in H; try discriminate. injection H as <-. simpl. auto.
  - intros T p e H. destruct (Nat.eqb_spec T 0).
    + destruct p as [|[|p]]; simpl in H; try discriminate. injection H as <-. simpl. auto.
    + destruct p; discriminate.
Qed.

Lemma cand_term_pos s c : Inv1 s -> Inv2 V s -> rl (nodes s c) = Candidate -> 0 < term (nodes s c).
Proof.
  intros I1 I2 Hc. pose proof (I1_ne _ I1 c) as N.
  destruct (log (nodes s c)) as [|e l] eqn:E; [congruence|].
  assert (eterm e < term (nodes s c)); [|lia]. apply (I2_candlog _ _ I2); auto. rewrite E. left; auto.
Qed.

(* the leader log of a term nobody has won yet is empty *)
Lemma llog_fresh s n :
  Inv1 s -> Inv2 V s -> Inv3 s -> rl (nodes s n) = Candidate ->
  majority V (length (votesFrom (nodes s n))) = true -> llog s (term (nodes s n)) = [].
Proof.
  intros I1 I2 I3 Hr Hm. destruct (llog s (term (nodes s n))) as [|e l] eqn:E; auto. exfalso.
  destruct (I3_won _ I3 (term (nodes s n))) as [Z|[c [Q W]]]; [congruence| |].
  - pose proof (cand_term_pos s n I1 I2 Hr). lia.
  - eapply (lead_fresh V); eauto.
Qed.

Lemma window_app L r pi es : window L pi es -> window (L ++ r) pi es.
Proof.
  intros W k e H. apply W in H. rewrite nth_error_app1; auto. apply nth_error_Some. congruence.
Qed.

Lemma nth_error_app_some {A} (l r : list A) p e : nth_error l p = Some e -> nth_error (l ++ r) p = Some e.
Proof. intros H. rewrite nth_error_app1; auto. apply nth_error_Some. congruence. Qed.

(* how llog changes in one kstep: only by appending, and (once non-empty) only entries of that term *)
Lemma kstep_llog s s' T :
  Inv1 s -> Inv2 V s -> Inv3 s -> kstep V s s' ->
  exists r, llog s' T = llog s T ++ r /\ (llog s T <> [] -> forall e, In e r -> eterm e = T).
Proof.
  intros I1 I2 I3 K.
  destruct K; subst x; simpl; try (exists []; rewrite app_nil_r; split; [auto|intros _ e []]; fail).
  - (* lead *)
    rewrite (Hl T). destruct (Nat.eqb_spec T (term (nodes s n))) as [->|N].
    + rewrite (llog_fresh s n); auto. exists (log (nodes s n) ++ [noop (nodes s n)]). split; auto.
      congruence.
    + exists []. rewrite app_nil_r. split; auto. intros _ e [].
  - (* client *)
    rewrite (Hl T). destruct (Nat.eqb_spec T (term (nodes s n))) as [->|N].
    + destruct (I2_leader _ _ I2 n Hr) as [Q W]. rewrite <- (I3_wlog _ I3 _ _ _ W eq_refl).
      eexists. split; [reflexivity|]. intros _ e [<-|[]]. reflexivity.
    + exists []. rewrite app_nil_r. split; auto. intros _ e [].
Qed.

Lemma inv3_wlog s s' :
  Inv1 s -> Inv2 V s -> Inv3 s -> kstep V s s' ->
  forall T c Q, In (T, c, Q) (wins s') -> term (nodes s' c) = T -> log (nodes s' c) = llog s' T.
Proof.
  intros I1 I2 I3 K T c Q H E.
  pose proof (I3_wlog _ I3) as IW.
  destruct K; subst x; sproj.
  - (* timeout *)
    nc c; eauto. apply (I2_win _ _ I2) in H. lia.
  - (* lead *)
    destruct H as [H|H].
    + injection H as <- <- <-. rewrite (Hf n), (Hl (term (nodes s n))), !Nat.eqb_refl. reflexivity.
    + assert (T <> term (nodes s n)).
      { intros ->. eapply (lead_fresh V); eauto. }
      rewrite (Hl T). destruct (Nat.eqb_spec T (term (nodes s n))); [congruence|].
      nc c; eauto. congruence.
  - (* adopt *)
    nc c; eauto. apply (I2_win _ _ I2) in H. lia.
  - nc c; eauto.
  - nc c; eauto.
  - (* client *)
    destruct (I2_leader _ _ I2 n Hr) as [Q' W].
    rewrite (Hl T). destruct (Nat.eqb_spec T (term (nodes s n))) as [->|N].
    + assert (c = n) by (eapply (one_leader_inv V); eauto). subst c.
      rewrite (Hf n), Nat.eqb_refl. reflexivity.
    + nc c; eauto. congruence.
  - eauto.
  - nc c; eauto.
  - (* ae_ok *)
    nc c; eauto. exfalso.
    destruct (I3_ae _ I3 _ _ _ _ _ _ Hm) as [[Q' W] _].
    apply Hne. apply (one_leader_inv V s T n l Q Q'); auto. congruence.
  - nc c; eauto.
  - nc c; eauto.
  - nc c; eauto.
Qed.

Lemma inv3_won s s' :
  Inv2 V s -> Inv3 s -> kstep V s s' -> forall T, llog s' T <> [] -> T = 0 \/ exists c, won s' T c.
Proof.
  intros I2 I3 K T H.
  assert (Old : llog s T <> [] -> T = 0 \/ exists c, won s' T c).
  { intros N. destruct (I3_won _ I3 T N) as [?|[c W]]; auto. right. exists c. eapply kstep_won; eauto. }
  destruct K; subst x; sproj; auto.
  - rewrite (Hl T) in H. destruct (Nat.eqb_spec T (term (nodes s n))) as [->|N]; auto.
    right. exists n, (votesFrom (nodes s n)). simpl. auto.
  - rewrite (Hl T) in H. destruct (Nat.eqb_spec T (term (nodes s n))) as [->|N]; auto.
    right. exists n. destruct (I2_leader _ _ I2 n Hr) as [Q W]. exists Q. simpl. auto.
Qed.

Lemma in_llog_mono (ll ll' : nat -> list entry) l :
  (forall T, exists r, ll' T = ll T ++ r) -> in_llog ll l -> in_llog ll' l.
Proof.
  intros M H p e Hp. destruct (M (eterm e)) as [r ->]. apply nth_error_app_some. auto.
Qed.

Lemma in_llog_snoc (ll : nat -> list entry) l e :
  in_llog ll l -> ll (eterm e) = l ++ [e] -> in_llog ll (l ++ [e]).
Proof.
  intros H E p x Hp. apply nth_error_snoc_cases in Hp as [[L Hp]|[-> ->]]; auto.
  rewrite E. apply nth_error_app_last.
Qed.

Lemma inv3_kstep s s' : Inv1 s -> Inv2 V s -> Inv3 s -> kstep V s s' -> Inv3 s'.
Proof.
  intros I1 I2 I3 K.
  assert (M : forall T, exists r, llog s' T = llog s T ++ r).
  { intros T. destruct (kstep_llog s s' T I1 I2 I3 K) as [r [E _]]. eauto. }
  assert (LI : forall T, in_llog (llog s') (llog s T)).
  { intros T. eapply in_llog_mono; eauto. apply (I3_llog_in _ I3). }
  assert (NI : forall j, in_llog (llog s') (log (nodes s j))).
  { intros j. eapply in_llog_mono; eauto. apply (I3_in _ I3). }
  constructor.
  - apply (inv3_wlog s s'); auto.
  - apply (inv3_won s s'); auto.
  - (* llog ok *)
    intros T. pose proof (I3_llog_ok _ I3 T) as O.
    destruct K; subst x; sproj; auto.
    + rewrite (Hl T). destruct (Nat.eqb_spec T (term (nodes s n))) as [->|N]; auto.
      apply log_ok_snoc. apply (I1_log _ I1).
    + rewrite (Hl T). destruct (Nat.eqb_spec T (term (nodes s n))) as [->|N]; auto.
      apply log_ok_snoc. apply (I1_log _ I1).
  - (* logs in llog *)
    intros j. specialize (NI j).
    destruct K; subst x; sproj; auto; nc j; auto.
    + apply in_llog_snoc; auto. simpl. rewrite (Hl (term (nodes s n))), Nat.eqb_refl. reflexivity.
    + apply in_llog_snoc; auto. simpl. rewrite (Hl (term (nodes s n))), Nat.eqb_refl. reflexivity.
    + (* ae_ok *)
      intros q e Hq.
      assert (Hlen : length (firstn (S p) (log (nodes s n))) = S p).
      { rewrite firstn_length. assert (p < length (log (nodes s n))) by (apply nth_error_Some; congruence). lia. }
      destruct (Nat.lt_ge_cases q (S p)) as [L|L].
      * rewrite nth_error_app1 in Hq by lia. apply nth_error_firstn_some in Hq as [_ Hq]. auto.
      * rewrite nth_error_app2 in Hq by lia. rewrite Hlen in Hq.
        apply merge_nth in Hq as [Hq|Hq].
        -- rewrite nth_error_skipn in Hq. replace (S p + (q - S p)) with q in Hq by lia. auto.
        -- destruct (I3_ae _ I3 _ _ _ _ _ _ Hm) as (_ & W & _).
           apply W in Hq. replace (S p + (q - S p)) with q in Hq by lia.
           apply (LI t). exact Hq.
  - (* llog in llog *)
    intros T. specialize (LI T).
    destruct K; subst x; sproj; auto.
    + rewrite (Hl T). destruct (Nat.eqb_spec T (term (nodes s n))) as [->|N]; auto.
      apply in_llog_snoc; auto. simpl. rewrite (Hl (term (nodes s n))), Nat.eqb_refl. reflexivity.
    + rewrite (Hl T). destruct (Nat.eqb_spec T (term (nodes s n))) as [->|N]; auto.
      apply in_llog_snoc; auto. simpl. rewrite (Hl (term (nodes s n))), Nat.eqb_refl. reflexivity.
  - (* append entries messages *)
    intros T l0 pi0 pt0 es0 lc0 H.
    assert (Old : In (AppendEntries T l0 pi0 pt0 es0 lc0) (net s) ->
       won s' T l0 /\ window (llog s' T) pi0 es0 /\
       exists p pe, pi0 = S p /\ nth_error (llog s' T) p = Some pe /\ eterm pe = pt0).
    { intros A. destruct (I3_ae _ I3 _ _ _ _ _ _ A) as (W & Wd & p0 & pe0 & E1 & E2 & E3).
      destruct (M T) as [r ->]. split; [eapply kstep_won; eauto|]. split; [apply window_app; auto|].
      exists p0, pe0. split; auto. split; auto. apply nth_error_app_some; auto. }
    destruct K; subst x; sproj; auto; destruct H as [H|H]; auto; try discriminate.
    (* sendae *)
    injection H as <- <- <- <- <- <-.
    destruct (I2_leader _ _ I2 n Hr) as [Q W].
    pose proof (I3_wlog _ I3 _ _ _ W eq_refl) as E. simpl. rewrite <- E.
    split; [exists Q; auto|]. split.
    + intros k0 e H. apply nth_error_firstn_some in H as [_ H]. rewrite nth_error_skipn in H. exact H.
    + exists p, (nth p (log (nodes s n)) e0). split; auto. split; auto. apply nth_nth_error; auto.
Qed.

Theorem inv3_kreachable s : kreachable V s -> Inv3 s.
Proof.
  apply kreachable_ind_inv; [apply inv3_init|].
  intros s0 s1 R I K. eapply inv3_kstep; eauto.
  - apply (inv1_kreachable V); auto.
  - apply inv2_kreachable; auto.
Qed.

Theorem inv3_reachable s : reachable V s -> Inv3 s.
Proof. intros R. apply inv3_kreachable. apply reachable_kreachable; auto. Qed.

(* ---- statements for every reachable state ---- *)

(* the ghost leader log only grows *)
Theorem llog_append_only s s' T :
  reachable V s -> step V s s' -> exists r, llog s' T = llog s T ++ r.
Proof.
  intros R St. apply reachable_kreachable in R.
  assert (KL : forall a b, kreachable V a -> kstep V a b -> exists r, llog b T = llog a T ++ r).
  { intros a b Ra K. destruct (kstep_llog a b T (inv1_kreachable V a Ra) (inv2_kreachable V a Ra)
      (inv3_kreachable a Ra) K) as [r [E _]]. eauto. }
  destruct (step_ksteps V s s' St) as [->|[K|(s1 & K1 & K2)]].
  - exists []. rewrite app_nil_r. auto.
  - eauto.
  - destruct (KL s s1 R K1) as [r1 E1].
    destruct (KL s1 s' (kreach_step V s s1 R K1) K2) as [r2 E2].
    exists (r1 ++ r2). rewrite E2, E1, app_assoc. reflexivity.
Qed.

(* a leader's log is the ghost leader log of its term *)
Theorem leader_log_is_llog s j :
  reachable V s -> rl (nodes s j) = Leader -> log (nodes s j) = llog s (term (nodes s j)).
Proof.
  intros R L. destruct (I2_leader _ _ (inv2_reachable V s R) j L) as [Q W].
  apply (I3_wlog _ (inv3_reachable s R) _ _ _ W eq_refl).
Qed.

(* Leader Append-Only: while a node stays leader of a term, its log only grows *)
Theorem leader_append_only s s' j :
  reachable V s -> step V s s' ->
  rl (nodes s j) = Leader -> rl (nodes s' j) = Leader -> term (nodes s' j) = term (nodes s j) ->
  exists r, log (nodes s' j) = log (nodes s j) ++ r.
Proof.
  intros R St L L' E.
  rewrite (leader_log_is_llog s j R L), (leader_log_is_llog s' j (reach_step V s s' R St) L'), E.
  apply llog_append_only; auto.
Qed.

(* every entry of term T in a log sits in T's leader log at the same position *)
Theorem entry_from_leader s j p e :
  reachable V s -> nth_error (log (nodes s j)) p = Some e -> nth_error (llog s (eterm e)) p = Some e.
Proof. intros R. apply (I3_in _ (inv3_reachable s R)). Qed.

(* ... and so does every entry carried by an AppendEntries message *)
Theorem msg_entry_from_leader s T l pi pt es lc k e :
  reachable V s -> In (AppendEntries T l pi pt es lc) (net s) -> nth_error es k = Some e ->
  nth_error (llog s T) (pi + k) = Some e /\ nth_error (llog s (eterm e)) (pi + k) = Some e.
Proof.
  intros R H He. pose proof (inv3_reachable s R) as I3.
  destruct (I3_ae _ I3 _ _ _ _ _ _ H) as (_ & W & _). apply W in He. split; auto.
  apply (I3_llog_in _ I3 T). auto.
Qed.

(* only a term that somebody won has entries *)
Theorem entry_term_won s j e :
  reachable V s -> In e (log (nodes s j)) -> eterm e = 0 \/ exists c, won s (eterm e) c.
Proof.
  intros R H. apply In_nth_error in H as [p H]. apply (entry_from_leader s j p e R) in H.
  apply (I3_won _ (inv3_reachable s R)). intros E. rewrite E in H. destruct p; discriminate.
Qed.

End S3.
