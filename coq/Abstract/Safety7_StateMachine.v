(* Invariant 7: State Machine Safety.
   Every node's committed prefix is a prefix of the leader log of a directly committed entry
   (of a term <= the node's term); hence two nodes never disagree on a committed position, commit
   indices only grow and committed entries never change. *)
From Coq Require Import List Arith Lia Bool PeanoNat.
Import ListNotations.
Require Import PSO.Abstract.Model PSO.Abstract.Lib PSO.Abstract.Kstep PSO.Abstract.Safety1_WF
  PSO.Abstract.Safety2_Election PSO.Abstract.Safety3_LeaderLog PSO.Abstract.Safety4_LogMatching
  PSO.Abstract.Safety5_Acks PSO.Abstract.Safety6_LeaderCompleteness.

(* the first k entries of l are covered by a directly committed entry of a term <= Tb *)
Definition committed_upto (s : state) (Tb : nat) (l : list entry) (k : nat) : Prop :=
  k <= length l /\
  exists T0 p0, In (T0, p0) (direct s) /\ T0 <= Tb /\ k <= S p0 /\ firstn k l = firstn k (llog s T0).

Section S7.
Variable V : list nat.
Hypothesis V_nodup : NoDup V.
Hypothesis V_ne : V <> [].

Record Inv7 (s : state) : Prop := {
  I7_node : forall j, committed_upto s (term (nodes s j)) (log (nodes s j)) (commit (nodes s j));
  I7_msg : forall T l pi pt es lc, In (AppendEntries T l pi pt es lc) (net s) ->
     committed_upto s T (llog s T) lc
}.

Lemma inv7_init : Inv7 (init V).
Proof.
  constructor; simpl; try (intros; contradiction).
  intros _. split; auto. exists 0, 0. repeat split; auto. simpl. auto.
Qed.

Lemma committed_mono s s' Tb Tb' l k :
  Inv1 s -> Inv2 V s -> Inv3 s -> kstep V s s' -> Tb <= Tb' ->
  committed_upto s Tb l k -> committed_upto s' Tb' l k.
Proof.
  intros I1 I2 I3 K L [A (T0 & p0 & B & C & D & E)]. split; auto.
  exists T0, p0. split; [eapply kstep_direct; eauto|]. split; [lia|]. split; auto.
  destruct (kstep_llog V s s' T0 I1 I2 I3 K) as [r [-> _]].
  rewrite firstn_app_le; auto. eapply firstn_eq_length; eauto.
Qed.

Lemma committed_app s Tb l r k : committed_upto s Tb l k -> committed_upto s Tb (l ++ r) k.
Proof.
  intros [A (T0 & p0 & B & C & D & E)]. split; [rewrite app_length; lia|].
  exists T0, p0. repeat split; auto. rewrite firstn_app_le; auto.
Qed.

(* a committed prefix is a prefix of the leader log of every term >= its bound that has a leader *)
Lemma committed_in_leader s Tb l k T c Q :
  Inv2 V s -> Inv4 s -> Inv6 V s -> committed_upto s Tb l k -> In (T, c, Q) (wins s) -> Tb <= T ->
  firstn k l = firstn k (llog s T).
Proof.
  intros I2 I4 I6 [A (T0 & p0 & B & C & D & E)] W L.
  assert (H : hasT (llog s T) T0 p0).
  { destruct (Nat.eq_dec T0 T) as [->|NE].
    - apply (I6_direct _ _ I6 _ _ B).
    - apply (leader_completeness_inv V s I2 I6 T0 p0 B T c Q W). lia. }
  pose proof (hasT_canon _ _ _ _ (I4_lcanon _ I4 T) H) as F.
  rewrite E. symmetry. eapply firstn_le_eq; eauto.
Qed.

Lemma inv7_kstep s s' :
  Inv1 s -> Inv2 V s -> Inv3 s -> Inv4 s -> Inv5 V s -> Inv6 V s -> Inv7 s -> kstep V s s' -> Inv7 s'.
Proof.
  intros I1 I2 I3 I4 I5 I6 I7 K.
  assert (Mono : forall Tb Tb' l k, Tb <= Tb' -> committed_upto s Tb l k -> committed_upto s' Tb' l k).
  { intros. eapply committed_mono; eauto. }
  constructor.
  - (* nodes *)
    intros j. pose proof (I7_node _ I7 j) as Cj. pose proof (Mono _ _ _ _ (le_n _) Cj) as Cj'.
    destruct K; subst x; sproj; auto; nc j; auto.
    + apply (Mono _ (S (term (nodes s n)))) in Cj; auto.
    + apply committed_app. auto.
    + apply (Mono _ t) in Cj; auto. lia.
    + apply committed_app. auto.
    + (* ae_ok *)
      subst t.
      destruct (ae_ok_facts s n _ l p pt es lc pe I3 I4 Hm Hp Hpt) as (F1 & F2 & F3 & F4).
      destruct (ae_result_prefix _ _ p es F1 F2 F3 F4) as [G1 G2].
      destruct (I3_ae _ I3 _ _ _ _ _ _ Hm) as [[Q W] _].
      pose proof (committed_in_leader s _ _ _ _ l Q I2 I4 I6 Cj W (le_n _)) as E0.
      destruct Cj as [A (T0 & p0 & B & C & D & E)].
      destruct (ae_result_keeps _ _ p es _ F1 F2 F3 F4 A E0) as [R1 R2].
      destruct (Nat.max_spec (commit (nodes s n)) (Nat.min lc (S p + length es))) as [[_ ->]|[_ ->]].
      * (* the leader's commit index *)
        destruct (I7_msg _ I7 _ _ _ _ _ _ Hm) as [A1 (T1 & p1 & B1 & C1 & D1 & E1)].
        split; [lia|]. exists T1, p1. repeat split; auto; try lia.
        transitivity (firstn (Nat.min lc (S p + length es)) (llog s (term (nodes s n)))).
        -- eapply firstn_le_eq; [|exact G2]. lia.
        -- eapply firstn_le_eq; [|exact E1]. lia.
      * split; auto. exists T0, p0. repeat split; auto. cbn [llog]. rewrite R2, <- E0. exact E.
    + (* commit *)
      destruct (I2_leader _ _ I2 n Hr) as [Q W].
      pose proof (I3_wlog _ I3 _ _ _ W eq_refl) as E.
      split; [lia|]. exists (term (nodes s n)), p. repeat split; auto.
      * left; auto.
      * cbn [llog]. rewrite <- E. reflexivity.
  - (* messages *)
    intros T l0 pi0 pt0 es0 lc0 H.
    assert (Old : In (AppendEntries T l0 pi0 pt0 es0 lc0) (net s) -> committed_upto s' T (llog s' T) lc0).
    { intros A. pose proof (Mono _ _ _ _ (le_n _) (I7_msg _ I7 _ _ _ _ _ _ A)) as C.
      destruct (kstep_llog V s s' T I1 I2 I3 K) as [r [-> _]]. apply committed_app; auto. }
    destruct K; subst x; sproj; auto; destruct H as [H|H]; auto; try discriminate.
    injection H as <- <- <- <- <- <-.
    destruct (I2_leader _ _ I2 n Hr) as [Q W].
    rewrite <- (I3_wlog _ I3 _ _ _ W eq_refl). apply (I7_node _ I7 n).
Qed.

Theorem inv7_kreachable s : kreachable V s -> Inv7 s.
Proof.
  apply kreachable_ind_inv; [apply inv7_init|].
  intros s0 s1 R I K. eapply inv7_kstep; eauto.
  - apply (inv1_kreachable V); auto.
  - apply inv2_kreachable; auto.
  - apply (inv3_kreachable V); auto.
  - apply (inv4_kreachable V); auto.
  - apply inv5_kreachable; auto.
  - apply inv6_kreachable; auto.
Qed.

Theorem inv7_reachable s : reachable V s -> Inv7 s.
Proof. intros R. apply inv7_kreachable. apply reachable_kreachable; auto. Qed.

(* two directly committed entries are compatible: the later leader log contains the earlier one *)
Lemma direct_compat s T1 p1 T2 p2 :
  Inv2 V s -> Inv3 s -> Inv4 s -> Inv6 V s ->
  In (T1, p1) (direct s) -> In (T2, p2) (direct s) -> T1 <= T2 ->
  firstn (S p1) (llog s T2) = firstn (S p1) (llog s T1).
Proof.
  intros I2 I3 I4 I6 D1 D2 L.
  assert (H : hasT (llog s T2) T1 p1).
  { destruct (Nat.eq_dec T1 T2) as [->|NE]; [apply (I6_direct _ _ I6 _ _ D1)|].
    destruct (I6_direct _ _ I6 _ _ D2) as [[e [E1 E2]] _].
    destruct (I3_won _ I3 T2) as [Z|[c [Q W]]]; [|lia|].
    - intros Z. rewrite Z in E1. destruct p2; discriminate.
    - apply (leader_completeness_inv V s I2 I6 T1 p1 D1 T2 c Q W). lia. }
  apply (hasT_canon _ _ _ _ (I4_lcanon _ I4 T2) H).
Qed.

Lemma sms_inv s a b p :
  Inv2 V s -> Inv3 s -> Inv4 s -> Inv6 V s -> Inv7 s ->
  p < commit (nodes s a) -> p < commit (nodes s b) ->
  nth_error (log (nodes s a)) p = nth_error (log (nodes s b)) p.
Proof.
  intros I2 I3 I4 I6 I7 La Lb.
  destruct (I7_node _ I7 a) as [Aa (Ta & pa & Ba & Ca & Da & Ea)].
  destruct (I7_node _ I7 b) as [Ab (Tb & pb & Bb & Cb & Db & Eb)].
  rewrite (firstn_eq_nth _ _ _ p Ea La), (firstn_eq_nth _ _ _ p Eb Lb).
  destruct (Nat.le_ge_cases Ta Tb) as [L|L].
  - pose proof (direct_compat s Ta pa Tb pb I2 I3 I4 I6 Ba Bb L) as F.
    symmetry. apply (firstn_eq_nth _ _ _ p F). lia.
  - pose proof (direct_compat s Tb pb Ta pa I2 I3 I4 I6 Bb Ba L) as F.
    apply (firstn_eq_nth _ _ _ p F). lia.
Qed.

(* ---- State Machine Safety, for every reachable state ---- *)
Theorem state_machine_safety s a b i :
  reachable V s -> i < commit (nodes s a) -> i < commit (nodes s b) ->
  exists e, nth_error (log (nodes s a)) i = Some e /\ nth_error (log (nodes s b)) i = Some e.
Proof.
  intros R La Lb.
  pose proof (inv7_reachable s R) as I7.
  pose proof (sms_inv s a b i (inv2_reachable V s R) (inv3_reachable V s R) (inv4_reachable V s R)
                (inv6_reachable V V_nodup V_ne s R) I7 La Lb) as E.
  destruct (I7_node _ I7 a) as [Aa _].
  destruct (nth_error (log (nodes s a)) i) as [e|] eqn:Ea.
  - exists e. split; auto.
  - apply nth_error_None in Ea. lia.
Qed.

(* in Raft indices: entries with the same index <= both commit indices are equal *)
Corollary state_machine_safety_idx s a b i :
  reachable V s -> 1 <= i -> i <= commit (nodes s a) -> i <= commit (nodes s b) ->
  exists e, nth_error (log (nodes s a)) (i - 1) = Some e /\ nth_error (log (nodes s b)) (i - 1) = Some e /\
            eidx e = i.
Proof.
  intros R L La Lb. destruct (state_machine_safety s a b (i - 1) R) as [e [A B]]; try lia.
  exists e. repeat split; auto. rewrite (log_indices_consecutive V s a (i - 1) e R A). lia.
Qed.

Theorem commit_le_length s j : reachable V s -> commit (nodes s j) <= length (log (nodes s j)).
Proof. intros R. apply (I7_node _ (inv7_reachable s R) j). Qed.

(* ---- commit indices only grow and committed entries never change ---- *)
Definition stable (s s' : state) (j : nat) : Prop :=
  commit (nodes s j) <= commit (nodes s' j) /\
  firstn (commit (nodes s j)) (log (nodes s' j)) = firstn (commit (nodes s j)) (log (nodes s j)).

Lemma stable_refl s j : stable s s j.
Proof. split; auto. Qed.

Lemma stable_trans s1 s2 s3 j : stable s1 s2 j -> stable s2 s3 j -> stable s1 s3 j.
Proof.
  intros [A B] [C D]. split; [lia|]. rewrite <- B. eapply firstn_le_eq; eauto.
Qed.

Lemma stable_kstep s s' j :
  Inv1 s -> Inv2 V s -> Inv3 s -> Inv4 s -> Inv6 V s -> Inv7 s -> kstep V s s' -> stable s s' j.
Proof.
  intros I1 I2 I3 I4 I6 I7 K. unfold stable.
  pose proof (I7_node _ I7 j) as Cj.
  destruct K; subst x; sproj; auto; nc j; auto.
  - split; auto. apply firstn_app_le. apply Cj.
  - split; auto. apply firstn_app_le. apply Cj.
  - (* ae_ok *)
    subst t. split; [apply Nat.le_max_l|].
    destruct (ae_ok_facts s n _ l p pt es lc pe I3 I4 Hm Hp Hpt) as (F1 & F2 & F3 & F4).
    destruct (I3_ae _ I3 _ _ _ _ _ _ Hm) as [[Q W] _].
    pose proof (committed_in_leader s _ _ _ _ l Q I2 I4 I6 Cj W (le_n _)) as E0.
    destruct Cj as [A _].
    destruct (ae_result_keeps _ _ p es _ F1 F2 F3 F4 A E0) as [R1 R2]. congruence.
Qed.

Inductive steps : state -> state -> Prop :=
| steps_refl s : steps s s
| steps_step s s1 s2 : steps s s1 -> step V s1 s2 -> steps s s2.

Lemma steps_reachable s s' : reachable V s -> steps s s' -> reachable V s'.
Proof. intros R St. induction St as [|s0 s1 s2 St IH S12]; auto. apply (reach_step V s1 s2); auto. Qed.

Lemma stable_kreachable_kstep s s' j : kreachable V s -> kstep V s s' -> stable s s' j.
Proof.
  intros R K. apply stable_kstep; auto.
  - apply (inv1_kreachable V); auto.
  - apply inv2_kreachable; auto.
  - apply (inv3_kreachable V); auto.
  - apply (inv4_kreachable V); auto.
  - apply inv6_kreachable; auto.
  - apply inv7_kreachable; auto.
Qed.

Theorem commit_stable_step s s' j : reachable V s -> step V s s' -> stable s s' j.
Proof.
  intros R St. apply reachable_kreachable in R.
  destruct (step_ksteps V s s' St) as [->|[K|(s1 & K1 & K2)]].
  - apply stable_refl.
  - apply stable_kreachable_kstep; auto.
  - eapply stable_trans; [apply stable_kreachable_kstep; eauto|].
    apply stable_kreachable_kstep; auto. eapply kreach_step; eauto.
Qed.

Theorem committed_never_change s s' j i :
  reachable V s -> steps s s' -> i < commit (nodes s j) ->
  commit (nodes s j) <= commit (nodes s' j) /\
  nth_error (log (nodes s' j)) i = nth_error (log (nodes s j)) i.
Proof.
  intros R St L.
  assert (S0 : stable s s' j).
  { induction St; [apply stable_refl|].
    eapply stable_trans; [apply IHSt; auto|]. apply commit_stable_step; auto.
    eapply steps_reachable; eauto. }
  destruct S0 as [A B]. split; auto. apply (firstn_eq_nth _ _ _ i B L).
Qed.

(* ---- the same statements for the finer-grained transition system [kstep] (Kstep.v), which is
        what a refinement from the concrete model would target: reachable states are kreachable ---- *)
Theorem k_election_safety s t c c' Q Q' :
  kreachable V s -> In (t, c, Q) (wins s) -> In (t, c', Q') (wins s) -> c = c'.
Proof. intros R. apply (one_leader_inv V). apply inv2_kreachable; auto. Qed.

Theorem k_log_matching s a b p e e' :
  kreachable V s ->
  nth_error (log (nodes s a)) p = Some e -> nth_error (log (nodes s b)) p = Some e' -> eterm e = eterm e' ->
  firstn (S p) (log (nodes s a)) = firstn (S p) (log (nodes s b)).
Proof.
  intros R. pose proof (inv4_kreachable V s R) as I4.
  apply (canon_lmatch (llog s)); apply (I4_canon _ I4).
Qed.

Theorem k_leader_completeness s T p T' c Q :
  kreachable V s -> In (T, p) (direct s) -> In (T', c, Q) (wins s) -> T < T' -> hasT (llog s T') T p.
Proof.
  intros R D W L.
  apply (leader_completeness_inv V s (inv2_kreachable V s R) (inv6_kreachable V V_nodup V_ne s R) T p D T' c Q W L).
Qed.

Theorem k_state_machine_safety s a b i :
  kreachable V s -> i < commit (nodes s a) -> i < commit (nodes s b) ->
  nth_error (log (nodes s a)) i = nth_error (log (nodes s b)) i /\ i < length (log (nodes s a)).
Proof.
  intros R La Lb. pose proof (inv7_kreachable s R) as I7. split.
  - apply (sms_inv s a b i (inv2_kreachable V s R) (inv3_kreachable V s R) (inv4_kreachable V s R)
             (inv6_kreachable V V_nodup V_ne s R) I7 La Lb).
  - destruct (I7_node _ I7 a) as [A _]. lia.
Qed.

Theorem k_commit_stable s s' j : kreachable V s -> kstep V s s' -> stable s s' j.
Proof. apply stable_kreachable_kstep. Qed.

End S7.
