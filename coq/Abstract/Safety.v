(* Summary of the abstract Raft safety development: every headline theorem restated in full,
   proved by [exact] from the Safety*.v files, followed by its [Print Assumptions].
   [reachable V s] is the reflexive-transitive closure of [step V] from [init V] (Model.v). *)
From Coq Require Import List Arith.
Import ListNotations.
Require Import PSO.Abstract.Model PSO.Abstract.Kstep
  PSO.Abstract.Safety1_WF PSO.Abstract.Safety2_Election PSO.Abstract.Safety3_LeaderLog
  PSO.Abstract.Safety4_LogMatching PSO.Abstract.Safety5_Acks PSO.Abstract.Safety6_LeaderCompleteness
  PSO.Abstract.Safety7_StateMachine PSO.Abstract.Examples.

(* ---------- 1. well-formedness ---------- *)
Theorem A1_indices_consecutive : forall V s j p e,
  reachable V s -> nth_error (log (nodes s j)) p = Some e -> eidx e = S p.
Proof. exact log_indices_consecutive. Qed.
Print Assumptions A1_indices_consecutive.

Theorem A1_entry_terms_le_current : forall V s j e,
  reachable V s -> In e (log (nodes s j)) -> eterm e <= term (nodes s j).
Proof. exact log_terms_le_current. Qed.
Print Assumptions A1_entry_terms_le_current.

Theorem A1_terms_nondecreasing_along_log : forall V s j p q e e',
  reachable V s -> p <= q ->
  nth_error (log (nodes s j)) p = Some e -> nth_error (log (nodes s j)) q = Some e' -> eterm e <= eterm e'.
Proof. intros V s j p q e e' R. exact (log_terms_sorted V s j R p q e e'). Qed.
Print Assumptions A1_terms_nondecreasing_along_log.

Theorem A1_current_term_monotone : forall V s s' j, step V s s' -> term (nodes s j) <= term (nodes s' j).
Proof. exact step_term_mono. Qed.
Print Assumptions A1_current_term_monotone.

(* ---------- 2. Election Safety ---------- *)
Theorem A2_election_safety : forall V s t c c' Q Q',
  reachable V s -> In (t, c, Q) (wins s) -> In (t, c', Q') (wins s) -> c = c'.
Proof. exact election_safety. Qed.
Print Assumptions A2_election_safety.

Theorem A2_one_leader_per_term : forall V s a b,
  reachable V s -> rl (nodes s a) = Leader -> rl (nodes s b) = Leader ->
  term (nodes s a) = term (nodes s b) -> a = b.
Proof. exact one_leader_per_term. Qed.
Print Assumptions A2_one_leader_per_term.

(* ---------- 3. Leader Append-Only; every entry of term T comes from T's leader ---------- *)
Theorem A3_leader_log_append_only : forall V s s' T,
  reachable V s -> step V s s' -> exists r, llog s' T = llog s T ++ r.
Proof. exact llog_append_only. Qed.
Print Assumptions A3_leader_log_append_only.

Theorem A3_leader_append_only : forall V s s' j,
  reachable V s -> step V s s' ->
  rl (nodes s j) = Leader -> rl (nodes s' j) = Leader -> term (nodes s' j) = term (nodes s j) ->
  exists r, log (nodes s' j) = log (nodes s j) ++ r.
Proof. exact leader_append_only. Qed.
Print Assumptions A3_leader_append_only.

Theorem A3_leader_log_is_ghost : forall V s j,
  reachable V s -> rl (nodes s j) = Leader -> log (nodes s j) = llog s (term (nodes s j)).
Proof. exact leader_log_is_llog. Qed.
Print Assumptions A3_leader_log_is_ghost.

Theorem A3_entry_from_leader : forall V s j p e,
  reachable V s -> nth_error (log (nodes s j)) p = Some e -> nth_error (llog s (eterm e)) p = Some e.
Proof. exact entry_from_leader. Qed.
Print Assumptions A3_entry_from_leader.

Theorem A3_msg_entry_from_leader : forall V s T l pi pt es lc k e,
  reachable V s -> In (AppendEntries T l pi pt es lc) (net s) -> nth_error es k = Some e ->
  nth_error (llog s T) (pi + k) = Some e /\ nth_error (llog s (eterm e)) (pi + k) = Some e.
Proof. exact msg_entry_from_leader. Qed.
Print Assumptions A3_msg_entry_from_leader.

(* ---------- 4. Log Matching ---------- *)
Theorem A4_log_matching : forall V s a b p e e',
  reachable V s ->
  nth_error (log (nodes s a)) p = Some e -> nth_error (log (nodes s b)) p = Some e' -> eterm e = eterm e' ->
  firstn (S p) (log (nodes s a)) = firstn (S p) (log (nodes s b)).
Proof. exact log_matching. Qed.
Print Assumptions A4_log_matching.

Theorem A4_log_matching_msg : forall V s a T l pi pt es lc k e e',
  reachable V s -> In (AppendEntries T l pi pt es lc) (net s) ->
  nth_error es k = Some e -> nth_error (log (nodes s a)) (pi + k) = Some e' -> eterm e = eterm e' ->
  firstn (S (pi + k)) (log (nodes s a)) = firstn (S (pi + k)) (llog s T) /\
  firstn (S (pi + k)) (llog s T) = firstn pi (llog s T) ++ firstn (S k) es.
Proof. exact log_matching_msg. Qed.
Print Assumptions A4_log_matching_msg.

Theorem A4_log_matching_prev : forall V s a T l pi pt es lc pe,
  reachable V s -> In (AppendEntries T l pi pt es lc) (net s) ->
  nth_error (log (nodes s a)) (pi - 1) = Some pe -> eterm pe = pt ->
  firstn pi (log (nodes s a)) = firstn pi (llog s T).
Proof. exact log_matching_prev. Qed.
Print Assumptions A4_log_matching_prev.

(* ---------- 5. acknowledgement / matchIndex soundness ---------- *)
Theorem A5_ack_sound : forall V s T f m,
  reachable V s -> In (AppendReply T f true m) (net s) ->
  T <= term (nodes s f) /\ m <= length (llog s T) /\
  (term (nodes s f) = T ->
     m <= length (log (nodes s f)) /\ firstn m (log (nodes s f)) = firstn m (llog s T)).
Proof. exact ack_sound. Qed.
Print Assumptions A5_ack_sound.

Theorem A5_ack_when_produced : forall V s n t l pi pt es lc m,
  reachable V s -> pre V (HandleAppendEntries n t l pi pt es lc) s ->
  let s' := eff V (HandleAppendEntries n t l pi pt es lc) s in
  In (AppendReply t n true m) (net s') ->
  term (nodes s' n) = t /\ m <= length (log (nodes s' n)) /\
  firstn m (log (nodes s' n)) = firstn m (llog s' t).
Proof. exact ack_when_produced. Qed.
Print Assumptions A5_ack_when_produced.

Theorem A5_match_sound : forall V s L f,
  reachable V s -> rl (nodes s L) = Leader -> term (nodes s f) = term (nodes s L) ->
  matchIdx (nodes s L) f <= length (log (nodes s f)) /\
  firstn (matchIdx (nodes s L) f) (log (nodes s f)) = firstn (matchIdx (nodes s L) f) (log (nodes s L)).
Proof. exact match_sound. Qed.
Print Assumptions A5_match_sound.

(* ---------- 6. Leader Completeness ---------- *)
Theorem A6_leader_completeness : forall V, NoDup V -> V <> [] -> forall s T p T' c Q,
  reachable V s -> In (T, p) (direct s) -> In (T', c, Q) (wins s) -> T < T' ->
  exists e, nth_error (llog s T) p = Some e /\ eterm e = T /\ nth_error (llog s T') p = Some e /\
            firstn (S p) (llog s T') = firstn (S p) (llog s T).
Proof. exact leader_completeness. Qed.
Print Assumptions A6_leader_completeness.

Theorem A6_leader_completeness_current : forall V, NoDup V -> V <> [] -> forall s T p L,
  reachable V s -> In (T, p) (direct s) -> rl (nodes s L) = Leader -> T < term (nodes s L) ->
  exists e, nth_error (llog s T) p = Some e /\ eterm e = T /\ nth_error (log (nodes s L)) p = Some e.
Proof. exact leader_completeness_current. Qed.
Print Assumptions A6_leader_completeness_current.

Theorem A6_direct_has_quorum : forall V, NoDup V -> V <> [] -> forall s T p,
  reachable V s -> In (T, p) (direct s) ->
  hasT (llog s T) T p /\
  exists Q, NoDup Q /\ incl Q V /\ length V < 2 * length Q /\ forall f, In f Q -> acked s T f p.
Proof. exact direct_has_quorum. Qed.
Print Assumptions A6_direct_has_quorum.

(* ---------- 7. State Machine Safety ---------- *)
Theorem A7_state_machine_safety : forall V, NoDup V -> V <> [] -> forall s a b i,
  reachable V s -> 1 <= i -> i <= commit (nodes s a) -> i <= commit (nodes s b) ->
  exists e, nth_error (log (nodes s a)) (i - 1) = Some e /\ nth_error (log (nodes s b)) (i - 1) = Some e /\
            eidx e = i.
Proof. exact state_machine_safety_idx. Qed.
Print Assumptions A7_state_machine_safety.

Theorem A7_commit_within_log : forall V, NoDup V -> V <> [] -> forall s j,
  reachable V s -> commit (nodes s j) <= length (log (nodes s j)).
Proof. exact commit_le_length. Qed.
Print Assumptions A7_commit_within_log.

Theorem A7_committed_never_change : forall V, NoDup V -> V <> [] -> forall s s' j i,
  reachable V s -> steps V s s' -> i < commit (nodes s j) ->
  commit (nodes s j) <= commit (nodes s' j) /\
  nth_error (log (nodes s' j)) i = nth_error (log (nodes s j)) i.
Proof. exact committed_never_change. Qed.
Print Assumptions A7_committed_never_change.

(* ---------- the same for the finer-grained system kstep (the refinement target) ---------- *)
Theorem AK_reachable_kreachable : forall V s, reachable V s -> kreachable V s.
Proof. exact reachable_kreachable. Qed.
Print Assumptions AK_reachable_kreachable.

Theorem AK_election_safety : forall V s t c c' Q Q',
  kreachable V s -> In (t, c, Q) (wins s) -> In (t, c', Q') (wins s) -> c = c'.
Proof. exact k_election_safety. Qed.
Print Assumptions AK_election_safety.

Theorem AK_leader_completeness : forall V, NoDup V -> V <> [] -> forall s T p T' c Q,
  kreachable V s -> In (T, p) (direct s) -> In (T', c, Q) (wins s) -> T < T' -> hasT (llog s T') T p.
Proof. exact k_leader_completeness. Qed.
Print Assumptions AK_leader_completeness.

Theorem AK_state_machine_safety : forall V, NoDup V -> V <> [] -> forall s a b i,
  kreachable V s -> i < commit (nodes s a) -> i < commit (nodes s b) ->
  nth_error (log (nodes s a)) i = nth_error (log (nodes s b)) i /\ i < length (log (nodes s a)).
Proof. exact k_state_machine_safety. Qed.
Print Assumptions AK_state_machine_safety.

Theorem AK_commit_stable : forall V, NoDup V -> V <> [] -> forall s s' j,
  kreachable V s -> kstep V s s' -> stable s s' j.
Proof. exact k_commit_stable. Qed.
Print Assumptions AK_commit_stable.

(* ---------- non-vacuity: the premises of Leader Completeness / State Machine Safety occur ---------- *)
Example A_nonvacuous :
  let s := run V3 run2 (init V3) in
  reachable V3 s /\ NoDup V3 /\ V3 <> [] /\
  In (1, 3) (direct s) /\ In (2, 1, [2; 1]) (wins s) /\ 1 < 2 /\
  commit (nodes s 0) = 4 /\ commit (nodes s 1) = 5 /\ rl (nodes s 1) = Leader.
Proof.
  split; [exact run2_reachable|]. split; [repeat constructor; simpl; intuition discriminate|].
  split; [discriminate|]. vm_compute. repeat split; auto.
Qed.
Print Assumptions A_nonvacuous.
