(* Invariant 4: Log Matching, through the ghost leader logs.
   [canon_ok]: wherever an entry of term T sits at position p - in a log or in a leader log - the
   holder's prefix up to p is the prefix of [llog T].  Hence two logs (or a log and the leader log
   an AppendEntries message is a window of) that agree on the term at one position are identical
   up to that position.  Also: terms are non-decreasing along every log. *)
From Coq Require Import List Arith Lia Bool PeanoNat.
Import ListNotations.
Require Import PSO.Abstract.Model PSO.Abstract.Lib PSO.Abstract.Kstep PSO.Abstract.Safety1_WF
  PSO.Abstract.Safety2_Election PSO.Abstract.Safety3_LeaderLog.

Definition canon_ok (ll : nat -> list entry) (l : list entry) : Prop :=
  forall p e, nth_error l p = Some e -> firstn (S p) l = firstn (S p) (ll (eterm e)).

(* l and L match: same term at a position implies equal prefixes up to there *)
Definition lmatch (l L : list entry) : Prop :=
  forall q e e', nth_error l q = Some e -> nth_error L q = Some e' -> eterm e = eterm e' ->
                 firstn (S q) l = firstn (S q) L.

Lemma canon_lmatch ll a b : canon_ok ll a -> canon_ok ll b -> lmatch a b.
Proof. intros A B q e e' Ha Hb E. rewrite (A q e Ha), (B q e' Hb), E. reflexivity. Qed.

Lemma firstn_S_length {A} (l : list A) p e : nth_error l p = Some e -> length (firstn (S p) l) = S p.
Proof. intros H. rewrite firstn_length. assert (p < length l) by (apply nth_error_Some; congruence). lia. Qed.

Lemma canon_mono (ll ll' : nat -> list entry) l :
  (forall T, exists r, ll' T = ll T ++ r) -> canon_ok ll l -> canon_ok ll' l.
Proof.
  intros M H p e Hp. rewrite (H p e Hp). destruct (M (eterm e)) as [r ->].
  rewrite firstn_app_le; auto.
  pose proof (firstn_S_length l p e Hp) as L. rewrite (H p e Hp), firstn_length in L. lia.
Qed.

Lemma canon_firstn ll l k : canon_ok ll l -> canon_ok ll (firstn k l).
Proof.
  intros H p e Hp. apply nth_error_firstn_some in Hp as [L Hp].
  rewrite firstn_firstn. replace (Nat.min (S p) k) with (S p) by lia. auto.
Qed.

Lemma canon_snoc (ll : nat -> list entry) l e :
  canon_ok ll l -> ll (eterm e) = l ++ [e] -> canon_ok ll (l ++ [e]).
Proof.
  intros H E p x Hp. apply nth_error_snoc_cases in Hp as [[L Hp]|[-> ->]].
  - rewrite firstn_app_le by lia. auto.
  - rewrite E. reflexivity.
Qed.

Lemma canon_sorted ll l : canon_ok ll l -> (forall T, sorted (ll T)) -> sorted l.
Proof.
  intros C St p q e e' L Hp Hq.
  pose proof (C q e' Hq) as E.
  apply (St (eterm e') p q); auto.
  - rewrite <- (firstn_eq_nth _ _ (S q) p E) by lia. auto.
  - rewrite <- (firstn_eq_nth _ _ (S q) q E) by lia. auto.
Qed.

Lemma window_eq L pi es : window L pi es -> firstn (length es) (skipn pi L) = es.
Proof.
  intros W. apply nth_error_ext. intros i.
  destruct (nth_error es i) as [e|] eqn:E.
  - rewrite nth_error_firstn_lt by (apply nth_error_Some; congruence).
    rewrite nth_error_skipn. apply W; auto.
  - apply nth_error_firstn_ge. apply nth_error_None; auto.
Qed.

Lemma window_length L pi es : window L pi es -> pi <= length L -> pi + length es <= length L.
Proof.
  intros W H. destruct es as [|e es'] eqn:E; [simpl; lia|]. rewrite <- E in *.
  assert (X : exists x, nth_error es (length es - 1) = Some x).
  { destruct (nth_error es (length es - 1)) eqn:N; eauto. apply nth_error_None in N. subst es. simpl in N. lia. }
  destruct X as [x X]. apply W in X.
  assert (pi + (length es - 1) < length L) by (apply nth_error_Some; congruence).
  subst es. simpl in *. lia.
Qed.

(* what a follower's log becomes when it accepts entries that are a window of L *)
Lemma ae_result l L p es :
  lmatch l L -> firstn (S p) l = firstn (S p) L -> S p <= length l -> window L (S p) es ->
  let l' := firstn (S p) l ++ merge (skipn (S p) l) es in
  let k := S p + length es in
  k <= length L /\
  ((l' = l /\ k <= length l /\ firstn k l = firstn k L) \/
   (l' = firstn k L /\ ~ (k <= length l /\ firstn k l = firstn k L))).
Proof.
  intros M E Hl W. cbv zeta.
  remember (S p + length es) as k eqn:Ek.
  assert (HL : S p <= length L) by (eapply firstn_eq_length; eauto).
  assert (Hk : k <= length L) by (subst k; apply window_length; auto).
  split; auto.
  assert (EL : firstn k L = firstn (S p) L ++ es).
  { subst k. rewrite firstn_add. rewrite window_eq; auto. }
  assert (El : firstn k l = firstn (S p) l ++ firstn (length es) (skipn (S p) l)).
  { subst k. apply firstn_add. }
  destruct (merge_cases (skipn (S p) l) es) as [[r [E1 E2]]|[E1 E2]].
  - intros j e e' Ha Hb Et. rewrite nth_error_skipn in Ha. pose proof (W j e' Hb) as Hb'.
    pose proof (M _ _ _ Ha Hb' Et) as F.
    assert (Lt : S p + j < S (S p + j)) by apply Nat.lt_succ_diag_r.
    pose proof (firstn_eq_nth _ _ (S (S p + j)) (S p + j) F Lt) as G. congruence.
  - left. rewrite E2. rewrite firstn_skipn. split; auto.
    assert (length l = S p + length (skipn (S p) l)) by (apply firstn_skipn_length; auto).
    rewrite E1, app_length in H. split; [lia|].
    rewrite El, EL, E1. rewrite firstn_app_le by lia. rewrite firstn_all. congruence.
  - right. rewrite E1. split; [rewrite EL; congruence|].
    intros [A B]. apply E2. exists (skipn (length es) (skipn (S p) l)).
    rewrite El, EL, E in B. apply app_inv_head in B.
    rewrite <- B at 1. symmetry. apply firstn_skipn.
Qed.

(* the two consequences used everywhere *)
Lemma ae_result_prefix l L p es :
  lmatch l L -> firstn (S p) l = firstn (S p) L -> S p <= length l -> window L (S p) es ->
  let l' := firstn (S p) l ++ merge (skipn (S p) l) es in
  let k := S p + length es in
  k <= length l' /\ firstn k l' = firstn k L.
Proof.
  intros M E Hl W. cbv zeta. destruct (ae_result l L p es M E Hl W) as [Hk [(A & B & C)|(A & B)]].
  - rewrite A. auto.
  - rewrite A. rewrite firstn_length. split; [lia|]. rewrite firstn_firstn. f_equal. lia.
Qed.

Lemma ae_result_keeps l L p es j :
  lmatch l L -> firstn (S p) l = firstn (S p) L -> S p <= length l -> window L (S p) es ->
  j <= length l -> firstn j l = firstn j L ->
  let l' := firstn (S p) l ++ merge (skipn (S p) l) es in
  j <= length l' /\ firstn j l' = firstn j L.
Proof.
  intros M E Hl W Hj Ej. cbv zeta. destruct (ae_result l L p es M E Hl W) as [Hk [(A & B & C)|(A & B)]].
  - rewrite A. auto.
  - remember (S p + length es) as k eqn:Ek.
    assert (j < k).
    { destruct (Nat.lt_ge_cases j k); auto. exfalso. apply B. split; [lia|]. eapply firstn_le_eq; eauto. }
    rewrite A. rewrite firstn_length. split; [lia|]. rewrite firstn_firstn. f_equal. lia.
Qed.

Section S4.
Variable V : list nat.

Record Inv4 (s : state) : Prop := {
  I4_canon : forall j, canon_ok (llog s) (log (nodes s j));
  I4_lcanon : forall T, canon_ok (llog s) (llog s T);
  I4_sorted : forall T, sorted (llog s T)
}.

Lemma inv4_init : Inv4 (init V).
Proof.
  constructor; simpl.
  - intros _ p e H. destruct p as [|[|p]]; simpl in H; try discriminate. injection H as <-. reflexivity.
  - intros T p e H. destruct (Nat.eqb_spec T 0).
    + destruct p as [|[|p]]; simpl in H; try discriminate. injection H as <-. reflexivity.
    + destruct p; discriminate.
  - intros T p q e e' L Hp Hq. destruct (Nat.eqb_spec T 0).
    + destruct p as [|[|p]]; simpl in Hp; try discriminate. destruct q as [|[|q]]; simpl in Hq; try discriminate.
      injection Hp as <-. injection Hq as <-. lia.
    + destruct p; discriminate.
Qed.

(* the facts about an accepted AppendEntries that the later layers reuse *)
Lemma ae_ok_facts s n t l p pt es lc pe :
  Inv3 s -> Inv4 s ->
  In (AppendEntries t l (S p) pt es lc) (net s) ->
  nth_error (log (nodes s n)) p = Some pe -> eterm pe = pt ->
  lmatch (log (nodes s n)) (llog s t) /\
  firstn (S p) (log (nodes s n)) = firstn (S p) (llog s t) /\
  S p <= length (log (nodes s n)) /\ window (llog s t) (S p) es.
Proof.
  intros I3 I4 Hm Hp Hpt.
  destruct (I3_ae _ I3 _ _ _ _ _ _ Hm) as (W & Wd & p0 & pe0 & E1 & E2 & E3).
  injection E1 as <-.
  assert (M : lmatch (log (nodes s n)) (llog s t)).
  { eapply canon_lmatch; [apply (I4_canon _ I4)|apply (I4_lcanon _ I4)]. }
  repeat split; auto.
  - eapply M; eauto. congruence.
  - apply nth_error_Some. congruence.
Qed.

Lemma inv4_kstep s s' : Inv1 s -> Inv2 V s -> Inv3 s -> Inv4 s -> kstep V s s' -> Inv4 s'.
Proof.
  intros I1 I2 I3 I4 K.
  assert (M : forall T, exists r, llog s' T = llog s T ++ r).
  { intros T. destruct (kstep_llog V s s' T I1 I2 I3 K) as [r [E _]]. eauto. }
  assert (NC : forall j, canon_ok (llog s') (log (nodes s j))).
  { intros j. eapply canon_mono; eauto. apply (I4_canon _ I4). }
  assert (LC : forall T, canon_ok (llog s') (llog s T)).
  { intros T. eapply canon_mono; eauto. apply (I4_lcanon _ I4). }
  assert (SL : forall j, sorted (log (nodes s j))).
  { intros j. eapply canon_sorted; [apply (I4_canon _ I4)|apply (I4_sorted _ I4)]. }
  constructor.
  - (* logs *)
    intros j. specialize (NC j).
    destruct K; subst x; sproj; auto; nc j; auto.
    + apply canon_snoc; auto. simpl. rewrite (Hl (term (nodes s n))), Nat.eqb_refl. reflexivity.
    + apply canon_snoc; auto. simpl. rewrite (Hl (term (nodes s n))), Nat.eqb_refl. reflexivity.
    + (* ae_ok *)
      destruct (ae_ok_facts s n t l p pt es lc pe I3 I4 Hm Hp Hpt) as (A & B & C & D).
      destruct (ae_result _ _ p es A B C D) as [_ [(E & _)|(E & _)]]; rewrite E; auto.
      apply canon_firstn. apply (LC t).
  - (* leader logs *)
    intros T. specialize (LC T).
    destruct K; subst x; sproj; auto.
    + rewrite (Hl T). destruct (Nat.eqb_spec T (term (nodes s n))) as [->|N]; auto.
      apply canon_snoc; auto. simpl. rewrite (Hl (term (nodes s n))), Nat.eqb_refl. reflexivity.
    + rewrite (Hl T). destruct (Nat.eqb_spec T (term (nodes s n))) as [->|N]; auto.
      apply canon_snoc; auto. simpl. rewrite (Hl (term (nodes s n))), Nat.eqb_refl. reflexivity.
  - (* sortedness of leader logs *)
    intros T. pose proof (I4_sorted _ I4 T) as S0.
    destruct K; subst x; sproj; auto.
    + rewrite (Hl T). destruct (Nat.eqb_spec T (term (nodes s n))) as [->|N]; auto.
      apply sorted_snoc; auto. intros y Hy. simpl.
      apply In_nth_error in Hy as [q Hy]. apply (I1_log _ I1) in Hy. tauto.
    + rewrite (Hl T). destruct (Nat.eqb_spec T (term (nodes s n))) as [->|N]; auto.
      apply sorted_snoc; auto. intros y Hy. simpl.
      apply In_nth_error in Hy as [q Hy]. apply (I1_log _ I1) in Hy. tauto.
Qed.

Theorem inv4_kreachable s : kreachable V s -> Inv4 s.
Proof.
  apply kreachable_ind_inv; [apply inv4_init|].
  intros s0 s1 R I K. eapply inv4_kstep; eauto.
  - apply (inv1_kreachable V); auto.
  - apply inv2_kreachable; auto.
  - apply (inv3_kreachable V); auto.
Qed.

Theorem inv4_reachable s : reachable V s -> Inv4 s.
Proof. intros R. apply inv4_kreachable. apply reachable_kreachable; auto. Qed.

Lemma inv4_log_sorted s j : Inv4 s -> sorted (log (nodes s j)).
Proof. intros I4. eapply canon_sorted; [apply (I4_canon _ I4)|apply (I4_sorted _ I4)]. Qed.

(* ---- Log Matching, for every reachable state ---- *)
Theorem log_matching s a b p e e' :
  reachable V s ->
  nth_error (log (nodes s a)) p = Some e -> nth_error (log (nodes s b)) p = Some e' -> eterm e = eterm e' ->
  firstn (S p) (log (nodes s a)) = firstn (S p) (log (nodes s b)).
Proof.
  intros R. pose proof (inv4_reachable s R) as I4.
  apply (canon_lmatch (llog s)); apply (I4_canon _ I4).
Qed.

Corollary log_matching_entry s a b p e e' :
  reachable V s ->
  nth_error (log (nodes s a)) p = Some e -> nth_error (log (nodes s b)) p = Some e' -> eterm e = eterm e' ->
  e = e'.
Proof.
  intros R Ha Hb E. pose proof (log_matching s a b p e e' R Ha Hb E) as F.
  pose proof (firstn_eq_nth _ _ (S p) p F (Nat.lt_succ_diag_r p)). congruence.
Qed.

(* a log and an AppendEntries message: the message is a window of llog T (Safety3), and a log that
   holds an entry with the same term at the position of one of the message's entries (or of its
   prev entry) is identical to llog T up to there *)
Theorem log_matching_msg s a T l pi pt es lc k e e' :
  reachable V s -> In (AppendEntries T l pi pt es lc) (net s) ->
  nth_error es k = Some e -> nth_error (log (nodes s a)) (pi + k) = Some e' -> eterm e = eterm e' ->
  firstn (S (pi + k)) (log (nodes s a)) = firstn (S (pi + k)) (llog s T) /\
  firstn (S (pi + k)) (llog s T) = firstn pi (llog s T) ++ firstn (S k) es.
Proof.
  intros R Hm He Ha E. pose proof (inv4_reachable s R) as I4. pose proof (inv3_reachable V s R) as I3.
  destruct (I3_ae _ I3 _ _ _ _ _ _ Hm) as (_ & W & _).
  split.
  - apply (canon_lmatch (llog s) _ _ (I4_canon _ I4 a) (I4_lcanon _ I4 T) (pi + k) e' e); auto.
  - replace (S (pi + k)) with (pi + S k) by lia. rewrite firstn_add. f_equal.
    rewrite <- (window_eq _ _ _ W). rewrite firstn_firstn. f_equal.
    assert (k < length es) by (apply nth_error_Some; congruence). lia.
Qed.

Theorem log_matching_prev s a T l pi pt es lc pe :
  reachable V s -> In (AppendEntries T l pi pt es lc) (net s) ->
  nth_error (log (nodes s a)) (pi - 1) = Some pe -> eterm pe = pt ->
  firstn pi (log (nodes s a)) = firstn pi (llog s T).
Proof.
  intros R Hm Ha E. pose proof (inv4_reachable s R) as I4. pose proof (inv3_reachable V s R) as I3.
  destruct (I3_ae _ I3 _ _ _ _ _ _ Hm) as (_ & _ & p0 & pe0 & -> & E2 & E3).
  simpl in Ha. rewrite Nat.sub_0_r in Ha.
  apply (canon_lmatch (llog s) _ _ (I4_canon _ I4 a) (I4_lcanon _ I4 T) p0 pe pe0); auto. congruence.
Qed.

(* terms are non-decreasing along every log (the third part of invariant 1) *)
Theorem log_sorted s j : reachable V s -> sorted (log (nodes s j)).
Proof. intros R. apply inv4_log_sorted. apply inv4_reachable; auto. Qed.

End S4.
