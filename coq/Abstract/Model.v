(* Abstract Raft, in the shape PySyncObj implements it (definitions only, no proofs).

   One fixed finite voter set [V]; per node (term, votedFor, role, log, commit) plus the two
   volatile tables a candidate / leader keeps (votes received, matchIndex); a network that is the
   SET of all messages ever sent (any message can be delivered any number of times, in any order,
   or never); ghost history variables (never read by a guard or by the real part of an effect):
   [grants] (term, voter, candidate), [wins] (term, leader, electing quorum), [llog] (term |->
   log of that term's leader), [acks] (term, follower, matchIdx), [direct] (term, position) of
   the entries a leader committed by counting.

   Index conventions: a log is a [list entry]; the entry with Raft index i sits at POSITION i-1.
   [commit], [matchIdx], the [prevIdx] / [matchIdx] message fields are Raft indices (= numbers of
   entries); [direct] and the action arguments [p] are positions. *)
From Coq Require Import List Arith Lia Bool PeanoNat.
Import ListNotations.

Record entry := mkE { eidx : nat; eterm : nat; ecmd : nat }.
Definition e0 : entry := mkE 1 0 0.             (* the common first entry (idx 1, term 0) *)

Inductive role := Follower | Candidate | Leader.

Record node := mkN {
  term : nat; voted : option nat; rl : role; log : list entry; commit : nat;
  votesFrom : list nat;                         (* candidate: voters whose vote was counted *)
  matchIdx : nat -> nat }.                      (* leader: highest acknowledged index per follower *)

Inductive msg :=
| RequestVote (t c li lt : nat)                                   (* term, candidate, lastIdx, lastTerm *)
| Vote (t v c : nat)                                              (* term, voter, candidate *)
| AppendEntries (t l pi pt : nat) (es : list entry) (lc : nat)    (* term, leader, prevIdx, prevTerm, entries, leaderCommit *)
| AppendReply (t f : nat) (ok : bool) (m : nat).                  (* term, follower, success, matchIdx *)

Record state := mkS {
  nodes : nat -> node;
  net : list msg;
  (* ghost *)
  grants : list (nat * nat * nat);
  wins : list (nat * nat * list nat);
  llog : nat -> list entry;
  acks : list (nat * nat * nat);
  direct : list (nat * nat) }.

Definition upd {A} (f : nat -> A) (n : nat) (x : A) : nat -> A := fun m => if m =? n then x else f m.

Definition is_leader (r : role) := match r with Leader => true | _ => false end.
Definition is_cand (r : role) := match r with Candidate => true | _ => false end.
Definition is_none {A} (o : option A) := match o with None => true | _ => false end.
Definition mem (v : nat) (l : list nat) := existsb (Nat.eqb v) l.
Definition lastTerm (l : list entry) := eterm (last l e0).

(* the up-to-date test of the request_vote handler: reject iff
   lt < lastTerm  or  (lt = lastTerm and li < lastIdx) *)
Definition up_to_date (l : list entry) (li lt : nat) : bool :=
  negb ((lt <? lastTerm l) || ((lt =? lastTerm l) && (li <? length l))).

(* what a follower does with the entries of an append_entries whose prev entry matches:
   keep the entries it already holds (same term at the same position), cut at the first
   conflicting one only, append the rest *)
Fixpoint merge (old new : list entry) {struct new} : list entry :=
  match new with
  | [] => old
  | n :: new' =>
    match old with
    | [] => new
    | o :: old' => if eterm o =? eterm n then o :: merge old' new' else new
    end
  end.

Section Model.
Variable V : list nat.                          (* the voters *)

Definition majority (k : nat) : bool := length V <? 2 * k.

Definition init_node : node := mkN 0 None Follower [e0] 1 [] (fun _ => 0).
Definition init : state :=
  mkS (fun _ => init_node) [] [] []
      (fun T => if T =? 0 then [e0] else [])
      (map (fun v => (0, v, 1)) V)             (* everybody holds the common first entry *)
      [(0, 0)].                                 (* ... which counts as committed (commit = 1) *)

(* ---- effects ---- *)
Definition do_lead (n : nat) (s : state) : state :=
  let x := nodes s n in
  let lg := log x ++ [mkE (S (length (log x))) (term x) 0] in          (* the no-op entry *)
  mkS (upd (nodes s) n (mkN (term x) (voted x) Leader lg (commit x) (votesFrom x) (fun _ => 0)))
      (net s) (grants s) ((term x, n, votesFrom x) :: wins s) (upd (llog s) (term x) lg)
      ((term x, n, length lg) :: acks s) (direct s).

Definition maybe_lead (n : nat) (s : state) : state :=
  if majority (length (votesFrom (nodes s n))) then do_lead n s else s.

Definition do_timeout (n : nat) (s : state) : state :=
  let x := nodes s n in
  let t := S (term x) in
  maybe_lead n
    (mkS (upd (nodes s) n (mkN t (Some n) Candidate (log x) (commit x) [n] (matchIdx x)))
         (RequestVote t n (length (log x)) (lastTerm (log x)) :: net s)
         ((t, n, n) :: grants s) (wins s) (llog s) (acks s) (direct s)).

(* adopt a higher term: become follower, forget the vote *)
Definition set_node (s : state) (n : nat) (x : node) : state :=
  mkS (upd (nodes s) n x) (net s) (grants s) (wins s) (llog s) (acks s) (direct s).

Definition bump (t : nat) (x : node) : node :=
  mkN t None Follower (log x) (commit x) (votesFrom x) (matchIdx x).

Definition adopt (n t : nat) (s : state) : state :=
  if term (nodes s n) <? t then set_node s n (bump t (nodes s n)) else s.

Definition do_grant (n t c : nat) (s : state) : state :=
  let x := nodes s n in
  mkS (upd (nodes s) n (mkN (term x) (Some c) (rl x) (log x) (commit x) (votesFrom x) (matchIdx x)))
      (Vote t n c :: net s) ((t, n, c) :: grants s) (wins s) (llog s) (acks s) (direct s).

Definition do_rv (n t c li lt : nat) (s : state) : state :=
  let s1 := adopt n t s in
  let x := nodes s1 n in
  if negb (is_leader (rl x)) && (term x <=? t) && up_to_date (log x) li lt && is_none (voted x)
  then do_grant n t c s1 else s1.

Definition do_vote (n t v : nat) (s : state) : state :=
  let x := nodes s n in
  if is_cand (rl x) && (t =? term x) then
    let vf := if mem v (votesFrom x) then votesFrom x else v :: votesFrom x in
    maybe_lead n (set_node s n (mkN (term x) (voted x) (rl x) (log x) (commit x) vf (matchIdx x)))
  else s.

Definition do_client (n c : nat) (s : state) : state :=
  let x := nodes s n in
  let lg := log x ++ [mkE (S (length (log x))) (term x) c] in
  mkS (upd (nodes s) n (mkN (term x) (voted x) (rl x) lg (commit x) (votesFrom x) (matchIdx x)))
      (net s) (grants s) (wins s) (upd (llog s) (term x) lg)
      ((term x, n, length lg) :: acks s) (direct s).

Definition do_send_ae (n p k : nat) (s : state) : state :=
  let x := nodes s n in
  mkS (nodes s)
      (AppendEntries (term x) n (S p) (eterm (nth p (log x) e0)) (firstn k (skipn (S p) (log x))) (commit x)
         :: net s)
      (grants s) (wins s) (llog s) (acks s) (direct s).

Definition ae_fail (n t : nat) (s : state) : state :=
  let x := nodes s n in
  mkS (upd (nodes s) n (mkN (term x) (voted x) Follower (log x) (commit x) (votesFrom x) (matchIdx x)))
      (AppendReply t n false 0 :: net s) (grants s) (wins s) (llog s) (acks s) (direct s).

Definition ae_ok (n t pi : nat) (es : list entry) (lc : nat) (s : state) : state :=
  let x := nodes s n in
  let lg := firstn pi (log x) ++ merge (skipn pi (log x)) es in
  let k := pi + length es in
  mkS (upd (nodes s) n (mkN (term x) (voted x) Follower lg (Nat.max (commit x) (Nat.min lc k))
                            (votesFrom x) (matchIdx x)))
      (AppendReply t n true k :: net s) (grants s) (wins s) (llog s) ((t, n, k) :: acks s) (direct s).

Definition do_ae (n t pi pt : nat) (es : list entry) (lc : nat) (s : state) : state :=
  let s1 := adopt n t s in
  match pi with
  | 0 => ae_fail n t s1
  | S p =>
    match nth_error (log (nodes s1 n)) p with
    | Some pe => if eterm pe =? pt then ae_ok n t pi es lc s1 else ae_fail n t s1
    | None => ae_fail n t s1
    end
  end.

Definition do_ar (n t f : nat) (ok : bool) (m : nat) (s : state) : state :=
  let x := nodes s n in
  if is_leader (rl x) && (t =? term x) && ok then
    set_node s n (mkN (term x) (voted x) (rl x) (log x) (commit x) (votesFrom x)
                      (upd (matchIdx x) f (Nat.max (matchIdx x f) m)))
  else s.

Definition commit_count (n p : nat) (x : node) : nat :=
  length (filter (fun f => (f =? n) || (S p <=? matchIdx x f)) V).

Definition do_commit (n p : nat) (s : state) : state :=
  let x := nodes s n in
  mkS (upd (nodes s) n (mkN (term x) (voted x) (rl x) (log x) (S p) (votesFrom x) (matchIdx x)))
      (net s) (grants s) (wins s) (llog s) (acks s) ((term x, p) :: direct s).

Definition do_stepdown (n : nat) (s : state) : state :=
  let x := nodes s n in
  set_node s n (mkN (term x) (voted x) Follower (log x) (commit x) (votesFrom x) (matchIdx x)).

(* ---- the transition system ---- *)
Inductive action :=
| Timeout (n : nat)
| HandleRequestVote (n t c li lt : nat)
| HandleVote (n t v : nat)
| ClientRequest (n c : nat)
| SendAppendEntries (n p k : nat)                     (* prev position p (prevIdx = p+1), at most k entries *)
| HandleAppendEntries (n t l pi pt : nat) (es : list entry) (lc : nat)
| HandleAppendReply (n t f : nat) (ok : bool) (m : nat)
| AdvanceCommit (n p : nat)                           (* new commit index p+1 *)
| StepDown (n : nat).

Definition pre (a : action) (s : state) : Prop :=
  match a with
  | Timeout n => In n V /\ rl (nodes s n) <> Leader
  | HandleRequestVote n t c li lt => In n V /\ In (RequestVote t c li lt) (net s)
  | HandleVote n t v => In n V /\ In (Vote t v n) (net s)
  | ClientRequest n c => In n V /\ rl (nodes s n) = Leader
  | SendAppendEntries n p k => In n V /\ rl (nodes s n) = Leader /\ p < length (log (nodes s n))
  | HandleAppendEntries n t l pi pt es lc =>
      In n V /\ In (AppendEntries t l pi pt es lc) (net s) /\ n <> l /\ term (nodes s n) <= t
  | HandleAppendReply n t f ok m => In n V /\ In (AppendReply t f ok m) (net s)
  | AdvanceCommit n p =>
      let x := nodes s n in
      In n V /\ rl x = Leader /\ commit x <= p /\ p < length (log x) /\
      eterm (nth p (log x) e0) = term x /\ majority (commit_count n p x) = true
  | StepDown n => In n V /\ rl (nodes s n) = Leader
  end.

Definition eff (a : action) (s : state) : state :=
  match a with
  | Timeout n => do_timeout n s
  | HandleRequestVote n t c li lt => do_rv n t c li lt s
  | HandleVote n t v => do_vote n t v s
  | ClientRequest n c => do_client n c s
  | SendAppendEntries n p k => do_send_ae n p k s
  | HandleAppendEntries n t l pi pt es lc => do_ae n t pi pt es lc s
  | HandleAppendReply n t f ok m => do_ar n t f ok m s
  | AdvanceCommit n p => do_commit n p s
  | StepDown n => do_stepdown n s
  end.

Definition step (s s' : state) : Prop := exists a, pre a s /\ s' = eff a s.

Inductive reachable : state -> Prop :=
| reach_init : reachable init
| reach_step s s' : reachable s -> step s s' -> reachable s'.

(* running a list of actions (for the examples); every guard must hold *)
Fixpoint run (as_ : list action) (s : state) : state :=
  match as_ with [] => s | a :: r => run r (eff a s) end.
Fixpoint run_ok (as_ : list action) (s : state) : Prop :=
  match as_ with [] => True | a :: r => pre a s /\ run_ok r (eff a s) end.

(* ---- observers used by the theorems ---- *)
Definition won (s : state) (T c : nat) : Prop := exists Q, In (T, c, Q) (wins s).
Definition hasT (l : list entry) (T p : nat) : Prop := exists e, nth_error l p = Some e /\ eterm e = T.

End Model.
