(* C13, reader side: proofs about Framing/Model.v (the model of
   pysyncobj/tcp_connection.py).  The decode oracle [dec] and the payload bytes
   of the messages are Section variables with hypotheses, never axioms.

   Contents:
     - slices / records
     - parse_one on a complete good frame, on a strict prefix of a frame,
       on a bad frame
     - parse_loop over [stream ms ++ tail]; fuel sufficiency
     - splitting of a prefix of a frame stream, uniqueness of the split
     - feed / feed_all, bridge to Model.step, reader theorems
   The writer side and the composition are in Proofs2.v. *)
From Coq Require Import ZArith NArith List Lia Bool ZifyBool.
From PSO Require Import Base.PyBytes Base.PyBytesFacts Framing.Model.
Import ListNotations.
Open Scope Z_scope.

(* ------------------------------------------------------------------ *)
(* records                                                             *)

Lemma set_rbuf_same c : set_rbuf c (rbuf c) = c.
Proof. destruct c; reflexivity. Qed.

Lemma set_wbuf_same c : set_wbuf c (wbuf c) = c.
Proof. destruct c; reflexivity. Qed.

Lemma out_app_no_out_l o : out_app no_out o = o.
Proof. destruct o; reflexivity. Qed.

Lemma out_app_no_out_r o : out_app o no_out = o.
Proof.
  destruct o as [a d n k m]. unfold out_app, no_out.
  cbn [accepted delivered disc_calls conn_calls miss].
  rewrite !app_nil_r, !Nat.add_0_r, orb_false_r. reflexivity.
Qed.

Lemma out_app_assoc a b c : out_app a (out_app b c) = out_app (out_app a b) c.
Proof.
  unfold out_app. cbn [accepted delivered disc_calls conn_calls miss].
  rewrite !app_assoc, !Nat.add_assoc, orb_assoc. reflexivity.
Qed.

(* ------------------------------------------------------------------ *)
(* lists and slices                                                    *)

Lemma zlen_to_nat {A} (l : list A) : Z.to_nat (zlen l) = length l.
Proof. unfold zlen. apply Nat2Z.id. Qed.

Lemma nonnil_length {A} (l : list A) : l <> [] -> (0 < length l)%nat.
Proof. destruct l; [congruence|cbn; lia]. Qed.

Lemma pyslice_0_4 {A} (b : list A) : 4 <= zlen b -> pyslice b 0 4 = firstn 4 b.
Proof. intros H. rewrite pyslice_nonneg by lia. reflexivity. Qed.

Lemma pyslice_4_l {A} (b : list A) l :
  0 <= l <= zlen b - 4 -> pyslice b 4 (4 + l) = firstn (Z.to_nat l) (skipn 4 b).
Proof.
  intros H. rewrite pyslice_nonneg by lia.
  replace (4 + l - 4) with l by lia. reflexivity.
Qed.

Lemma pyslice_from_4_l {A} (b : list A) l :
  0 <= l <= zlen b - 4 -> pyslice_from b (4 + l) = skipn (4 + Z.to_nat l) b.
Proof.
  intros H. rewrite pyslice_from_nonneg by lia. f_equal. lia.
Qed.

Lemma frame_length p : length (frame p) = (4 + length p)%nat.
Proof. unfold frame. rewrite app_length, pack_i_length. reflexivity. Qed.

Lemma zlen_frame p : zlen (frame p) = 4 + zlen p.
Proof. unfold zlen. rewrite frame_length. lia. Qed.

Lemma frame_nonnil p : frame p <> [].
Proof. intros H. apply (f_equal (@length N)) in H. rewrite frame_length in H. cbn in H. lia. Qed.

Lemma unpack_i_firstn4 b : unpack_i (firstn 4 b) = unpack_i b.
Proof. unfold unpack_i. rewrite firstn_firstn. reflexivity. Qed.

Lemma unpack_i_app4 a b : (4 <= length a)%nat -> unpack_i (a ++ b) = unpack_i a.
Proof.
  intros H. unfold unpack_i. rewrite firstn_app.
  replace (4 - length a)%nat with 0%nat by lia. cbn [firstn]. rewrite app_nil_r. reflexivity.
Qed.

Lemma unpack_i_frame p rest :
  zlen p < two31 -> unpack_i (frame p ++ rest) = zlen p.
Proof.
  intros H. unfold frame. rewrite <- app_assoc. apply unpack_pack_i.
  pose proof (zlen_nonneg p). unfold two31 in *. lia.
Qed.

(* what disconnect() makes of a connection that was not DISCONNECTED *)
Definition dead (now : Z) (c : conn) : conn :=
  if reconnect c then connect now c else cleared c.

(* the subscription updates change nothing but [interest] *)
Lemma send_subscribe_fields c :
  st (send_subscribe c) = st c /\ rbuf (send_subscribe c) = rbuf c /\ wbuf (send_subscribe c) = wbuf c /\
  last_read (send_subscribe c) = last_read c /\ timeout (send_subscribe c) = timeout c /\
  reconnect (send_subscribe c) = reconnect c /\ reuse_fd (send_subscribe c) = reuse_fd c.
Proof. unfold send_subscribe. destruct (st c) eqn:E; destruct (wbuf c) eqn:W; cbn; rewrite ?E, ?W; repeat split; reflexivity. Qed.

Lemma send_subscribe_st c : st (send_subscribe c) = st c.
Proof. apply send_subscribe_fields. Qed.
Lemma send_subscribe_rbuf c : rbuf (send_subscribe c) = rbuf c.
Proof. apply send_subscribe_fields. Qed.
Lemma send_subscribe_wbuf c : wbuf (send_subscribe c) = wbuf c.
Proof. apply send_subscribe_fields. Qed.

Lemma send_subscribe_off c : st c <> Connected -> send_subscribe c = c.
Proof. unfold send_subscribe. destruct (st c); [reflexivity|reflexivity|congruence]. Qed.

Lemma send_subscribe_empty c : wbuf c = [] -> send_subscribe c = c.
Proof. unfold send_subscribe. intros ->. destruct (st c); reflexivity. Qed.

Lemma step_send_inv dec c now p script c' o :
  step dec c (ESend now p script) = (c', o) ->
  exists c1, try_send now script (set_wbuf c (wbuf c ++ frame p)) = (c1, o) /\ c' = send_subscribe c1.
Proof.
  unfold step, step_gen; fold (poll_connected dec). destruct (try_send now script (set_wbuf c (wbuf c ++ frame p))) as [c1 o1].
  intros H. inversion H; subst. exists c1. split; reflexivity.
Qed.

Lemma resubscribe_fields c :
  st (resubscribe c) = st c /\ rbuf (resubscribe c) = rbuf c /\ wbuf (resubscribe c) = wbuf c /\
  last_read (resubscribe c) = last_read c /\ timeout (resubscribe c) = timeout c /\
  reconnect (resubscribe c) = reconnect c /\ reuse_fd (resubscribe c) = reuse_fd c.
Proof. unfold resubscribe. cbn. repeat split; reflexivity. Qed.

(* what the WRITE branch does to the connection __trySendBuffer() left *)
Definition wpost (wr : bool) (c : conn) : conn :=
  if wr then match st c with Connected => resubscribe c | _ => c end else c.

Lemma wpost_fields wr c :
  st (wpost wr c) = st c /\ rbuf (wpost wr c) = rbuf c /\ wbuf (wpost wr c) = wbuf c /\
  last_read (wpost wr c) = last_read c /\ timeout (wpost wr c) = timeout c /\
  reconnect (wpost wr c) = reconnect c /\ reuse_fd (wpost wr c) = reuse_fd c.
Proof.
  unfold wpost. destruct wr; [|repeat split; reflexivity].
  pose proof (resubscribe_fields c) as R.
  destruct (st c) eqn:E.
  - repeat split; solve [reflexivity|exact E].
  - repeat split; solve [reflexivity|exact E].
  - exact R.
Qed.

Lemma wpost_st wr c : st (wpost wr c) = st c. Proof. apply wpost_fields. Qed.
Lemma wpost_rbuf wr c : rbuf (wpost wr c) = rbuf c. Proof. apply wpost_fields. Qed.
Lemma wpost_wbuf wr c : wbuf (wpost wr c) = wbuf c. Proof. apply wpost_fields. Qed.
Lemma wpost_last_read wr c : last_read (wpost wr c) = last_read c. Proof. apply wpost_fields. Qed.
Lemma wpost_timeout wr c : timeout (wpost wr c) = timeout c. Proof. apply wpost_fields. Qed.
Lemma wpost_reconnect wr c : reconnect (wpost wr c) = reconnect c. Proof. apply wpost_fields. Qed.

Lemma write_part_spec now (wr : bool) ss c c2' o2 :
  (if wr
   then let (c2, o2) := try_send now ss c in
        match st c2 return conn * outs with
        | Disconnected => (c2, o2)
        | Connecting => (c2, o2)
        | Connected => (resubscribe c2, o2)
        end
   else (c, no_out)) = ((c2', o2) : conn * outs) ->
  exists c2, (if wr then try_send now ss c else (c, no_out)) = (c2, o2) /\ c2' = wpost wr c2.
Proof.
  intros H. unfold wpost. destruct wr.
  - destruct (try_send now ss c) as [c2 o] eqn:E. exists c2.
    destruct (st c2) eqn:Es; inversion H; subst; split; reflexivity.
  - exists c. inversion H; subst. split; reflexivity.
Qed.

Lemma step_send_eq dec c now p script :
  step dec c (ESend now p script) =
  (send_subscribe (fst (try_send now script (set_wbuf c (wbuf c ++ frame p)))),
   snd (try_send now script (set_wbuf c (wbuf c ++ frame p)))).
Proof. unfold step, step_gen; fold (poll_connected dec). destruct (try_send now script (set_wbuf c (wbuf c ++ frame p))); reflexivity. Qed.

Section C13.
  Variable dec : bytes -> dres.
  Variable payload : N -> bytes.

  (* what is assumed of a message that travels: its payload decodes to it and
     its length fits struct.pack('i', ...) *)
  Definition good (m : N) : Prop := dec (payload m) = DOk m /\ zlen (payload m) < two31.

  Definition stream (ms : list N) : bytes := concat (map (fun m => frame (payload m)) ms).

  (* outputs of an event that only delivers [ms] *)
  Definition mk_out (ms : list N) : outs :=
    {| accepted := []; delivered := ms; disc_calls := 0; conn_calls := 0; miss := false |}.

  (* one successful recv of [chunk] followed by the parse loop *)
  Definition feed (now : Z) (c : conn) (chunk : bytes) : conn * outs :=
    parse_all dec now (set_rbuf c (rbuf c ++ chunk)).

  (* [now] is only looked at by a disconnect (a reconnecting callback stamps
     the fresh connection with it) *)
  Fixpoint feed_all (now : Z) (c : conn) (cs : list bytes) : conn * outs :=
    match cs with
    | [] => (c, no_out)
    | ch :: r =>
      let (c1, o1) := feed now c ch in
      let (c2, o2) := feed_all now c1 r in (c2, out_app o1 o2)
    end.

  Lemma stream_cons m ms : stream (m :: ms) = frame (payload m) ++ stream ms.
  Proof. reflexivity. Qed.

  Lemma stream_app a b : stream (a ++ b) = stream a ++ stream b.
  Proof. unfold stream. rewrite map_app, concat_app. reflexivity. Qed.

  Lemma stream_length_ge ms : (4 * length ms <= length (stream ms))%nat.
  Proof.
    induction ms as [|m ms IH]; [cbn; lia|].
    rewrite stream_cons, app_length, frame_length. cbn [length]. lia.
  Qed.

  (* ---------------------------------------------------------------- *)
  (* parse_one                                                         *)

  (* a complete decodable frame at the head of the buffer is delivered and
     exactly its bytes are consumed *)
  Lemma parse_one_frame now c p rest m :
    rbuf c = frame p ++ rest -> zlen p < two31 -> dec p = DOk m ->
    parse_one dec now c = (set_rbuf c rest, PMsg m).
  Proof.
    intros Hb Hl Hd. unfold parse_one; cbv zeta. rewrite Hb.
    assert (Hlen : zlen (frame p ++ rest) = 4 + zlen p + zlen rest)
      by (rewrite zlen_app, zlen_frame; lia).
    pose proof (zlen_nonneg p) as Hp. pose proof (zlen_nonneg rest) as Hr.
    destruct (zlen (frame p ++ rest) <? 4) eqn:E1; [lia|].
    rewrite pyslice_0_4 by lia.
    rewrite unpack_i_firstn4, unpack_i_frame by assumption.
    destruct (zlen p <? 0) eqn:E2; [lia|].
    destruct (zlen (frame p ++ rest) - 4 <? zlen p) eqn:E3; [lia|].
    rewrite pyslice_4_l by lia. rewrite pyslice_from_4_l by lia.
    rewrite zlen_to_nat.
    replace (skipn 4 (frame p ++ rest)) with (p ++ rest)
      by (unfold frame; rewrite <- app_assoc;
          symmetry; apply skipn_app_exact, pack_i_length).
    rewrite (firstn_app_exact p rest (length p)) by reflexivity.
    rewrite Hd.
    rewrite (skipn_app_exact (frame p) rest) by apply frame_length.
    reflexivity.
  Qed.

  (* a strict prefix of a frame: wait for more bytes *)
  Lemma parse_one_strict_prefix now c t s p :
    rbuf c = t -> t ++ s = frame p -> s <> [] -> zlen p < two31 ->
    parse_one dec now c = (c, PNone).
  Proof.
    intros Hb Hts Hs Hl. unfold parse_one; cbv zeta. rewrite Hb.
    destruct (zlen t <? 4) eqn:E1; [reflexivity|].
    assert (Hlen : (length t + length s = 4 + length p)%nat)
      by (rewrite <- app_length, Hts; apply frame_length).
    apply nonnil_length in Hs.
    assert (Ht4 : (4 <= length t)%nat) by (unfold zlen in E1; lia).
    rewrite pyslice_0_4 by (unfold zlen; lia).
    rewrite unpack_i_firstn4.
    assert (Hu : unpack_i t = zlen p).
    { rewrite <- (unpack_i_app4 t s) by assumption. rewrite Hts.
      rewrite <- (app_nil_r (frame p)). apply unpack_i_frame. assumption. }
    rewrite Hu. pose proof (zlen_nonneg p) as Hp.
    destruct (zlen p <? 0) eqn:E2; [lia|].
    destruct (zlen t - 4 <? zlen p) eqn:E3; [reflexivity|].
    unfold zlen in *. lia.
  Qed.

  (* the two kinds of bad frame *)
  Lemma parse_one_negative now c bad rest :
    rbuf c = bad ++ rest -> (4 <= length bad)%nat -> unpack_i bad < 0 ->
    parse_one dec now c = (fst (disconnect now c), PDisc).
  Proof.
    intros Hb H4 Hneg. unfold parse_one; cbv zeta. rewrite Hb.
    assert (Hlen : 4 <= zlen (bad ++ rest))
      by (unfold zlen; rewrite app_length; lia).
    destruct (zlen (bad ++ rest) <? 4) eqn:E1; [lia|].
    rewrite pyslice_0_4 by assumption.
    rewrite unpack_i_firstn4, unpack_i_app4 by assumption.
    destruct (unpack_i bad <? 0) eqn:E2; [reflexivity|lia].
  Qed.

  Lemma parse_one_undecodable now c d rest :
    rbuf c = frame d ++ rest -> zlen d < two31 -> dec d = DFail ->
    parse_one dec now c = (fst (disconnect now c), PDisc).
  Proof.
    intros Hb Hl Hd. unfold parse_one; cbv zeta. rewrite Hb.
    assert (Hlen : zlen (frame d ++ rest) = 4 + zlen d + zlen rest)
      by (rewrite zlen_app, zlen_frame; lia).
    pose proof (zlen_nonneg d) as Hp. pose proof (zlen_nonneg rest) as Hr.
    destruct (zlen (frame d ++ rest) <? 4) eqn:E1; [lia|].
    rewrite pyslice_0_4 by lia.
    rewrite unpack_i_firstn4, unpack_i_frame by assumption.
    destruct (zlen d <? 0) eqn:E2; [lia|].
    destruct (zlen (frame d ++ rest) - 4 <? zlen d) eqn:E3; [lia|].
    rewrite pyslice_4_l by lia. rewrite zlen_to_nat.
    replace (skipn 4 (frame d ++ rest)) with (d ++ rest)
      by (unfold frame; rewrite <- app_assoc;
          symmetry; apply skipn_app_exact, pack_i_length).
    rewrite (firstn_app_exact d rest (length d)) by reflexivity.
    rewrite Hd. reflexivity.
  Qed.

  (* every parsed frame removes at least its 4-byte length field *)
  Lemma parse_one_msg_consumes now c c' id :
    parse_one dec now c = (c', PMsg id) -> (length (rbuf c') + 4 <= length (rbuf c))%nat.
  Proof.
    unfold parse_one; cbv zeta. intros H.
    destruct (zlen (rbuf c) <? 4) eqn:E1; [discriminate|].
    destruct (unpack_i (pyslice (rbuf c) 0 4) <? 0) eqn:E2; [discriminate|].
    destruct (zlen (rbuf c) - 4 <? unpack_i (pyslice (rbuf c) 0 4)) eqn:E3; [discriminate|].
    destruct (dec _) eqn:Ed; try discriminate.
    apply (f_equal fst) in H. cbn [fst] in H. subst c'.
    rewrite pyslice_from_4_l by lia.
    cbn [rbuf set_rbuf]. rewrite skipn_length. unfold zlen in *. lia.
  Qed.

  (* ---------------------------------------------------------------- *)
  (* parse_loop                                                        *)

  (* C13_parse_fuel_sufficient, general form *)
  Lemma parse_loop_fuel_irrelevant now fuel : forall c extra,
    (length (rbuf c) < fuel)%nat ->
    parse_loop dec now fuel c = parse_loop dec now (fuel + extra) c.
  Proof.
    induction fuel as [|f IH]; intros c extra Hlen; [lia|].
    cbn [parse_loop Nat.add].
    destruct (parse_one dec now c) as [c' r] eqn:E.
    destruct r as [|id| |]; try reflexivity.
    apply parse_one_msg_consumes in E.
    rewrite (IH c' extra) by lia. reflexivity.
  Qed.

  Lemma parse_all_fuel_sufficient now c extra :
    parse_loop dec now (S (length (rbuf c))) c = parse_loop dec now (S (length (rbuf c)) + extra) c.
  Proof. apply parse_loop_fuel_irrelevant. lia. Qed.

  (* the loop over a run of good frames followed by anything *)
  Lemma parse_loop_stream now ms : forall c tail fuel,
    Forall good ms -> rbuf c = stream ms ++ tail -> (length ms < fuel)%nat ->
    parse_loop dec now fuel c =
      (let (c', o) := parse_loop dec now (fuel - length ms) (set_rbuf c tail) in
       (c', out_app (mk_out ms) o)).
  Proof.
    induction ms as [|m ms IH]; intros c tail fuel Hg Hb Hf.
    - cbn [stream map concat app] in Hb. cbn [length]. rewrite Nat.sub_0_r.
      rewrite <- Hb, set_rbuf_same.
      destruct (parse_loop dec now fuel c) as [c' o].
      change (mk_out []) with no_out. rewrite out_app_no_out_l. reflexivity.
    - destruct fuel as [|f]; [cbn in Hf; lia|].
      inversion Hg as [|m' ms' [Hd Hl] Hg']; subst m' ms'.
      rewrite stream_cons, <- app_assoc in Hb.
      cbn [parse_loop].
      rewrite (parse_one_frame now c (payload m) (stream ms ++ tail) m Hb Hl Hd).
      rewrite (IH (set_rbuf c (stream ms ++ tail)) tail f Hg' eq_refl)
        by (cbn [length] in Hf; lia).
      cbn [length Nat.sub].
      change (set_rbuf (set_rbuf c (stream ms ++ tail)) tail) with (set_rbuf c tail).
      destruct (parse_loop dec now (f - length ms) (set_rbuf c tail)) as [c' o].
      reflexivity.
  Qed.

  (* ---------------------------------------------------------------- *)
  (* prefixes of a frame stream                                        *)

  (* [tail] is what may legitimately stay in the read buffer when the
     messages still to come are [ms2]: a strict prefix of the next frame *)
  Definition next_frame_prefix (tail : bytes) (ms2 : list N) : Prop :=
    match ms2 with
    | [] => tail = []
    | m :: _ => exists s, s <> [] /\ tail ++ s = frame (payload m)
    end.

  Lemma next_frame_prefix_nil ms2 : next_frame_prefix [] ms2.
  Proof.
    destruct ms2 as [|m r]; [reflexivity|].
    exists (frame (payload m)). split; [apply frame_nonnil|reflexivity].
  Qed.

  Lemma prefix_stuck now tail ms2 c :
    Forall good ms2 -> next_frame_prefix tail ms2 -> rbuf c = tail ->
    parse_one dec now c = (c, PNone).
  Proof.
    intros Hg Hp Hb. destruct ms2 as [|m r]; cbn [next_frame_prefix] in Hp.
    - subst tail. unfold parse_one; cbv zeta. rewrite Hb. reflexivity.
    - destruct Hp as (s & Hs & Hts).
      inversion Hg as [|m' r' [Hd Hl] Hg']; subst m' r'.
      exact (parse_one_strict_prefix now c tail s (payload m) Hb Hts Hs Hl).
  Qed.

  Lemma parse_all_prefix now c ms1 ms2 tail :
    Forall good ms1 -> Forall good ms2 -> next_frame_prefix tail ms2 ->
    rbuf c = stream ms1 ++ tail ->
    parse_all dec now c = (set_rbuf c tail, mk_out ms1).
  Proof.
    intros Hg1 Hg2 Hp Hb. unfold parse_all.
    pose proof (stream_length_ge ms1) as Hlen.
    assert (Hl : (length (stream ms1) <= length (rbuf c))%nat)
      by (rewrite Hb, app_length; lia).
    rewrite (parse_loop_stream now ms1 c tail _ Hg1 Hb) by lia.
    destruct (S (length (rbuf c)) - length ms1)%nat as [|f] eqn:Ef; [lia|].
    cbn [parse_loop].
    rewrite (prefix_stuck now tail ms2 (set_rbuf c tail) Hg2 Hp eq_refl).
    rewrite out_app_no_out_r. reflexivity.
  Qed.

  (* every prefix of a frame stream is some whole frames followed by a strict
     prefix of the next frame *)
  Lemma stream_prefix_split ms : forall x y,
    x ++ y = stream ms ->
    exists ms1 ms2 tail,
      ms = ms1 ++ ms2 /\ x = stream ms1 ++ tail /\ next_frame_prefix tail ms2.
  Proof.
    induction ms as [|m ms IH]; intros x y H.
    - cbn in H. apply app_eq_nil in H as [-> _].
      exists [], [], []. repeat split.
    - rewrite stream_cons in H.
      assert (Hcase : (exists l, x = frame (payload m) ++ l /\ stream ms = l ++ y)
                      \/ (exists l, l <> [] /\ frame (payload m) = x ++ l)).
      { apply app_eq_app in H as [l [[H1 H2]|[H1 H2]]].
        - left. exists l. split; [exact H1|exact H2].
        - destruct l as [|a l].
          + left. exists []. rewrite app_nil_r in H1. cbn in H2. subst.
            split; [now rewrite app_nil_r|reflexivity].
          + right. exists (a :: l). split; [discriminate|exact H1]. }
      destruct Hcase as [(l & H1 & H2)|(l & Hl & H1)].
      + symmetry in H2. destruct (IH l y H2) as (ms1 & ms2 & tail & E1 & E2 & E3).
        exists (m :: ms1), ms2, tail. subst ms l x. repeat split.
        * rewrite stream_cons, <- app_assoc. reflexivity.
        * exact E3.
      + exists [], (m :: ms), x. repeat split.
        cbn [next_frame_prefix]. exists l. split; [exact Hl|symmetry; exact H1].
  Qed.

  (* the split is unique *)
  Lemma stream_prefix_split_unique ms1 : forall ms1' ms2 ms2' tail tail',
    ms1 ++ ms2 = ms1' ++ ms2' ->
    stream ms1 ++ tail = stream ms1' ++ tail' ->
    next_frame_prefix tail ms2 -> next_frame_prefix tail' ms2' ->
    ms1 = ms1' /\ ms2 = ms2' /\ tail = tail'.
  Proof.
    induction ms1 as [|m r IH]; intros ms1' ms2 ms2' tail tail' Hms Hs Hp Hp'.
    - destruct ms1' as [|m' r'].
      + cbn in Hms, Hs. subst. repeat split.
      + exfalso. cbn [app] in Hms. subst ms2.
        cbn [next_frame_prefix] in Hp. destruct Hp as (s & Hs0 & Hts).
        apply nonnil_length in Hs0.
        apply (f_equal (@length N)) in Hs. apply (f_equal (@length N)) in Hts.
        rewrite stream_cons in Hs. rewrite !app_length in *. cbn [stream map concat length] in Hs.
        lia.
    - destruct ms1' as [|m' r'].
      + exfalso. cbn [app] in Hms. subst ms2'.
        cbn [next_frame_prefix] in Hp'. destruct Hp' as (s & Hs0 & Hts).
        apply nonnil_length in Hs0.
        apply (f_equal (@length N)) in Hs. apply (f_equal (@length N)) in Hts.
        rewrite stream_cons in Hs. rewrite !app_length in *. cbn [stream map concat length] in Hs.
        lia.
      + cbn [app] in Hms. injection Hms as -> Hms.
        rewrite !stream_cons, <- !app_assoc in Hs. apply app_inv_head in Hs.
        destruct (IH r' ms2 ms2' tail tail' Hms Hs Hp Hp') as (-> & -> & ->).
        repeat split.
  Qed.

  (* ---------------------------------------------------------------- *)
  (* feeding chunks                                                    *)

  Lemma feed_step now c ch rest ms :
    Forall good ms -> rbuf c ++ ch ++ rest = stream ms ->
    exists ms1 ms2 t1,
      ms = ms1 ++ ms2 /\ rbuf c ++ ch = stream ms1 ++ t1 /\ next_frame_prefix t1 ms2 /\
      feed now c ch = (set_rbuf c t1, mk_out ms1).
  Proof.
    intros Hg H. rewrite app_assoc in H.
    destruct (stream_prefix_split ms _ _ H) as (ms1 & ms2 & t1 & E1 & E2 & E3).
    exists ms1, ms2, t1. repeat split; try assumption.
    subst ms. apply Forall_app in Hg as [Hg1 Hg2].
    unfold feed.
    rewrite (parse_all_prefix now (set_rbuf c (rbuf c ++ ch)) ms1 ms2 t1 Hg1 Hg2 E3 E2).
    reflexivity.
  Qed.

  Lemma feed_all_prefix now cs : forall ms c rest,
    Forall good ms -> next_frame_prefix (rbuf c) ms ->
    rbuf c ++ concat cs ++ rest = stream ms ->
    exists ms1 ms2 tail,
      ms = ms1 ++ ms2 /\ rbuf c ++ concat cs = stream ms1 ++ tail /\
      next_frame_prefix tail ms2 /\
      feed_all now c cs = (set_rbuf c tail, mk_out ms1).
  Proof.
    induction cs as [|ch cs IH]; intros ms c rest Hg H0 H.
    - exists [], ms, (rbuf c). cbn [concat]. rewrite app_nil_r.
      repeat split; [exact H0|].
      cbn [feed_all]. rewrite set_rbuf_same. reflexivity.
    - cbn [concat] in H. rewrite <- app_assoc in H.
      destruct (feed_step now c ch (concat cs ++ rest) ms Hg H)
        as (ms1 & ms2 & t1 & E1 & E2 & E3 & E4).
      subst ms. pose proof Hg as Hg'. apply Forall_app in Hg' as [Hg1 Hg2].
      assert (H' : rbuf (set_rbuf c t1) ++ concat cs ++ rest = stream ms2).
      { cbn [rbuf set_rbuf]. rewrite app_assoc, E2, stream_app, <- app_assoc in H.
        apply app_inv_head in H. exact H. }
      destruct (IH ms2 (set_rbuf c t1) rest Hg2 E3 H')
        as (ms1' & ms2' & tail & F1 & F2 & F3 & F4).
      cbn [rbuf set_rbuf] in F2.
      exists (ms1 ++ ms1'), ms2', tail. repeat split.
      + subst ms2. apply app_assoc.
      + cbn [concat]. rewrite app_assoc, E2, <- app_assoc, F2, stream_app, <- app_assoc.
        reflexivity.
      + exact F3.
      + cbn [feed_all]. rewrite E4, F4. reflexivity.
  Qed.

  (* ---------------------------------------------------------------- *)
  (* C13_reader_prefix / C13_reader                                    *)

  (* After any prefix of the frame stream has arrived, cut in any way: the
     delivered list is [firstn k ms] for a k such that the bytes that arrived are
     the first k frames followed by a strict prefix [tail] of frame k, and the
     read buffer is exactly [tail]. *)
  Theorem reader_prefix now ms cs rest c :
    Forall good ms -> rbuf c = [] -> concat cs ++ rest = stream ms ->
    exists k tail,
      (k <= length ms)%nat /\
      concat cs = stream (firstn k ms) ++ tail /\
      next_frame_prefix tail (skipn k ms) /\
      feed_all now c cs = (set_rbuf c tail, mk_out (firstn k ms)).
  Proof.
    intros Hg Hr H.
    assert (H0 : next_frame_prefix (rbuf c) ms) by (rewrite Hr; apply next_frame_prefix_nil).
    assert (H' : rbuf c ++ concat cs ++ rest = stream ms) by (rewrite Hr; exact H).
    destruct (feed_all_prefix now cs ms c rest Hg H0 H')
      as (ms1 & ms2 & tail & E1 & E2 & E3 & E4).
    rewrite Hr in E2. cbn [app] in E2.
    exists (length ms1), tail. subst ms.
    rewrite (firstn_app_exact ms1 ms2 (length ms1) eq_refl).
    rewrite (skipn_app_exact ms1 ms2 (length ms1) eq_refl).
    repeat split; try assumption.
    rewrite app_length. lia.
  Qed.

  (* ... and that k (and tail) is the only one: the same statement for every
     decomposition of the bytes that arrived *)
  Theorem reader_prefix_any now ms cs k tail c :
    Forall good ms -> rbuf c = [] -> (k <= length ms)%nat ->
    concat cs = stream (firstn k ms) ++ tail ->
    next_frame_prefix tail (skipn k ms) ->
    feed_all now c cs = (set_rbuf c tail, mk_out (firstn k ms)).
  Proof.
    intros Hg Hr Hk Hc Hp.
    assert (Hrest : exists rest, concat cs ++ rest = stream ms).
    { assert (Hs : stream ms = stream (firstn k ms) ++ stream (skipn k ms))
        by (now rewrite <- stream_app, firstn_skipn).
      rewrite Hs, Hc.
      destruct (skipn k ms) as [|m r] eqn:Es; cbn [next_frame_prefix] in Hp.
      - exists []. subst tail. cbn [stream map concat]. rewrite !app_nil_r. reflexivity.
      - destruct Hp as (s & _ & Hts). exists (s ++ stream r).
        rewrite stream_cons, <- Hts, <- !app_assoc. reflexivity. }
    destruct Hrest as (rest & Hrest).
    destruct (reader_prefix now ms cs rest c Hg Hr Hrest) as (k' & tail' & Hk' & Hc' & Hp' & Hf).
    assert (Hms : firstn k ms ++ skipn k ms = firstn k' ms ++ skipn k' ms)
      by (now rewrite !firstn_skipn).
    rewrite Hc in Hc'.
    destruct (stream_prefix_split_unique _ _ _ _ _ _ Hms Hc' Hp Hp') as (E1 & _ & E2).
    rewrite E1, E2. exact Hf.
  Qed.

  (* the whole stream, in any fragmentation: exactly ms, in order, nothing
     left in the buffer, connection state untouched, no oracle miss *)
  Theorem reader_complete now ms cs c :
    Forall good ms -> rbuf c = [] -> concat cs = stream ms ->
    feed_all now c cs = (c, mk_out ms).
  Proof.
    intros Hg Hr Hc.
    pose proof (reader_prefix_any now ms cs (length ms) [] c Hg Hr (le_n _)) as H.
    rewrite firstn_all, skipn_all, app_nil_r in H.
    rewrite (H Hc eq_refl). rewrite <- Hr, set_rbuf_same. reflexivity.
  Qed.

  (* ---------------------------------------------------------------- *)
  (* bridge: [feed] is what Model.step does on a read event            *)

  Definition chunks_script (bs : list bytes) : list rres := map (fun b => RChunk b false) bs.

  (* how a recv script may end without an error: exhausted or EAGAIN *)
  Definition read_quiet (tl : list rres) : Prop :=
    match tl with [] => True | REagain :: _ => True | _ => False end.

  Lemma read_loop_chunks now bs : forall c tl,
    Forall (fun b => b <> []) bs ->
    read_loop now (chunks_script bs ++ tl) c = read_loop now tl (set_rbuf c (rbuf c ++ concat bs)).
  Proof.
    induction bs as [|b bs IH]; intros c tl H.
    - cbn [chunks_script map concat app]. rewrite app_nil_r, set_rbuf_same. reflexivity.
    - inversion H as [|b' bs' Hb Hbs]; subst b' bs'.
      cbn [chunks_script map app read_loop].
      destruct b as [|x b]; [congruence|].
      change (map (fun b0 => RChunk b0 false) bs) with (chunks_script bs).
      rewrite (IH _ tl Hbs). cbn [rbuf set_rbuf concat]. rewrite <- app_assoc.
      reflexivity.
  Qed.

  Lemma read_loop_quiet now tl c : read_quiet tl -> read_loop now tl c = (c, no_out).
  Proof. destruct tl as [|[b e| |] r]; cbn; intros H; try reflexivity; destruct H. Qed.

  Lemma timed_out_false now c :
    now - last_read c <= timeout c -> (now - last_read c >? timeout c) = false.
  Proof. intros H. destruct (now - last_read c >? timeout c) eqn:E; [lia|reflexivity]. Qed.

  Lemma timed_out_true now c :
    now - last_read c > timeout c -> (now - last_read c >? timeout c) = true.
  Proof. intros H. destruct (now - last_read c >? timeout c) eqn:E; [reflexivity|lia]. Qed.

  Lemma check_timeout_ok now c :
    now - last_read c <= timeout c -> check_timeout now c = (c, no_out).
  Proof. intros H. unfold check_timeout. rewrite (timed_out_false now c H). reflexivity. Qed.

  Lemma send_loop_empty now script c : wbuf c = [] -> send_loop now script c = (c, no_out).
  Proof. intros H. destruct script; cbn [send_loop]; rewrite H; reflexivity. Qed.

  Lemma parse_all_empty now c : rbuf c = [] -> parse_all dec now c = (c, no_out).
  Proof.
    intros H. unfold parse_all. rewrite H. cbn [length parse_loop].
    unfold parse_one; cbv zeta. rewrite H. reflexivity.
  Qed.

  (* disconnect() of a connection that is not DISCONNECTED: callback once; the
     result is [cleared c], or the fresh CONNECTING connection when the callback
     reconnects *)
  Lemma disconnect_live now c :
    st c <> Disconnected -> disconnect now c = (dead now c, disc_out).
  Proof. intros H. unfold disconnect, dead. destruct (st c); [congruence|reflexivity|reflexivity]. Qed.

  Lemma dead_buffers now c : rbuf (dead now c) = [] /\ wbuf (dead now c) = [].
  Proof. unfold dead. destruct (reconnect c); split; reflexivity. Qed.

  Lemma dead_not_connected now c : st (dead now c) <> Connected.
  Proof. unfold dead. destruct (reconnect c); discriminate. Qed.

  (* One __processConnection call with the READ flag (and possibly WRITE with
     nothing to write), no error flag, no timeout, whose recv calls return the
     non-empty chunks bs and then EAGAIN (or the script ends): the read buffer
     grows by the chunks and the parse loop runs once -- that is [feed]. *)
  (* what the WRITE branch leaves in the poller when there was nothing to write *)
  Definition wsub (wr : bool) (c : conn) : conn :=
    if wr then set_interest c (Some (RE false)) else c.

  Lemma step_poll_is_feed c now wr ss bs tl :
    st c = Connected -> now - last_read c <= timeout c ->
    (wr = true -> wbuf c = []) ->
    Forall (fun b => b <> []) bs -> read_quiet tl ->
    step dec c (EPoll now true wr false false ss (chunks_script bs ++ tl))
    = feed now (set_last_read (if wr then set_interest c (Some (RE false)) else c) now) (concat bs).
  Proof.
    intros Hst Ht Hw Hbs Htl. unfold step, step_gen; fold (poll_connected dec). rewrite Hst.
    rewrite (check_timeout_ok now c Ht). cbv beta iota zeta. rewrite Hst.
    cbn [orb andb]. unfold poll_connected, poll_connected_gen.
    assert (Hs : (if wr
                  then let (c2, o2) := try_send now ss c in
                       match st c2 with
                       | Disconnected => (c2, o2)
                       | Connecting => (if true then c2 else resubscribe_stale c2, o2)
                       | Connected => (resubscribe c2, o2)
                       end
                  else (c, no_out)) = (wsub wr c, no_out)).
    { unfold wsub. destruct wr; [|reflexivity]. unfold try_send.
      rewrite (check_timeout_ok now c Ht), Hst.
      rewrite (send_loop_empty now ss c (Hw eq_refl)). cbv beta iota. rewrite Hst.
      unfold resubscribe. rewrite (Hw eq_refl). reflexivity. }
    rewrite Hs. fold (wsub wr c).
    assert (Hst' : st (wsub wr c) = Connected) by (unfold wsub; destruct wr; exact Hst).
    cbv beta iota. rewrite Hst'.
    rewrite (read_loop_chunks now bs (wsub wr c) tl Hbs), (read_loop_quiet now tl _ Htl).
    cbv beta iota. cbn [st set_last_read set_rbuf]. rewrite Hst'.
    unfold feed.
    change (set_rbuf (set_last_read (wsub wr c) now) (rbuf (set_last_read (wsub wr c) now) ++ concat bs))
      with (set_last_read (set_rbuf (wsub wr c) (rbuf (wsub wr c) ++ concat bs)) now).
    destruct (parse_all dec now (set_last_read (set_rbuf (wsub wr c) (rbuf (wsub wr c) ++ concat bs)) now)) as [c4 o4].
    rewrite !out_app_no_out_l. reflexivity.
  Qed.

  (* ---------------------------------------------------------------- *)
  (* the reader theorem on Model.run                                   *)

  (* one read event per chunk: (time of the poll, bytes recv returned) *)
  Definition poll_event (p : Z * bytes) : event :=
    EPoll (fst p) true false false false [] [RChunk (snd p) false].

  (* chunks are non-empty (recv returning b'' is a close) and no poll comes
     later than the connection timeout after the previous one *)
  Fixpoint polls_ok (last tmo : Z) (ps : list (Z * bytes)) : Prop :=
    match ps with
    | [] => True
    | p :: r => snd p <> [] /\ fst p - last <= tmo /\ polls_ok (fst p) tmo r
    end.

  Definition sum_outs (os : list outs) : outs := fold_right out_app no_out os.

  Lemma step_poll_event c (p : Z * bytes) :
    st c = Connected -> snd p <> [] -> fst p - last_read c <= timeout c ->
    step dec c (poll_event p) = feed (fst p) (set_last_read c (fst p)) (snd p).
  Proof.
    intros Hst Hb Ht. unfold poll_event.
    pose proof (step_poll_is_feed c (fst p) false [] [snd p] [] Hst Ht) as H.
    cbn [chunks_script map app concat] in H. rewrite app_nil_r in H.
    apply H; [discriminate|repeat constructor; exact Hb|exact I].
  Qed.

  Lemma reader_run_prefix_gen ps : forall ms c rest,
    Forall good ms -> st c = Connected -> next_frame_prefix (rbuf c) ms ->
    polls_ok (last_read c) (timeout c) ps ->
    rbuf c ++ concat (map snd ps) ++ rest = stream ms ->
    exists ms1 ms2 tail c' os,
      run dec c (map poll_event ps) = (c', os) /\
      ms = ms1 ++ ms2 /\ rbuf c ++ concat (map snd ps) = stream ms1 ++ tail /\
      next_frame_prefix tail ms2 /\
      st c' = Connected /\ rbuf c' = tail /\ wbuf c' = wbuf c /\ timeout c' = timeout c /\
      sum_outs os = mk_out ms1.
  Proof.
    induction ps as [|p ps IH]; intros ms c rest Hg Hst H0 Hok H.
    - exists [], ms, (rbuf c), c, []. cbn [map concat run]. rewrite app_nil_r.
      repeat split; assumption.
    - cbn [polls_ok] in Hok. destruct Hok as (Hb & Ht & Hok).
      cbn [map concat] in H. rewrite <- app_assoc in H.
      destruct (feed_step (fst p) (set_last_read c (fst p)) (snd p) _ ms Hg H)
        as (ms1 & ms2 & t1 & E1 & E2 & E3 & E4).
      cbn [rbuf set_last_read] in E2.
      subst ms. pose proof Hg as Hg'. apply Forall_app in Hg' as [Hg1 Hg2].
      assert (H1 : rbuf (set_rbuf (set_last_read c (fst p)) t1)
                   ++ concat (map snd ps) ++ rest = stream ms2).
      { cbn [rbuf set_rbuf].
        rewrite app_assoc, E2, stream_app, <- app_assoc in H.
        apply app_inv_head in H. exact H. }
      destruct (IH ms2 (set_rbuf (set_last_read c (fst p)) t1) rest Hg2 Hst E3 Hok H1)
        as (ms1' & ms2' & tail & c' & os & R & F1 & F2 & F3 & F4 & F5 & F6 & F7 & F8).
      exists (ms1 ++ ms1'), ms2', tail, c', (mk_out ms1 :: os).
      cbn [map run]. rewrite (step_poll_event c p Hst Hb Ht).
      rewrite E4, R.
      cbn [rbuf set_rbuf] in F2.
      repeat split; try assumption.
      + subst ms2. apply app_assoc.
      + cbn [concat]. rewrite app_assoc, E2, <- app_assoc, F2, stream_app, <- app_assoc.
        reflexivity.
      + cbn [sum_outs fold_right]. fold (sum_outs os). rewrite F8. reflexivity.
  Qed.

  (* C13_reader on the modelled event loop: the whole stream, arriving as one
     non-empty recv per READ event *)
  Theorem reader_run_complete ms ps c :
    Forall good ms -> st c = Connected -> rbuf c = [] ->
    polls_ok (last_read c) (timeout c) ps ->
    concat (map snd ps) = stream ms ->
    exists c' os,
      run dec c (map poll_event ps) = (c', os) /\
      st c' = Connected /\ rbuf c' = [] /\ wbuf c' = wbuf c /\
      sum_outs os = mk_out ms.
  Proof.
    intros Hg Hst Hr Hok Hc.
    assert (H0 : next_frame_prefix (rbuf c) ms) by (rewrite Hr; apply next_frame_prefix_nil).
    assert (H : rbuf c ++ concat (map snd ps) ++ [] = stream ms)
      by (rewrite Hr, app_nil_r; exact Hc).
    destruct (reader_run_prefix_gen ps ms c [] Hg Hst H0 Hok H)
      as (ms1 & ms2 & tail & c' & os & R & F1 & F2 & F3 & F4 & F5 & F6 & F7 & F8).
    exists c', os.
    rewrite Hr in F2. cbn [app] in F2. rewrite Hc in F2.
    assert (U : ms = ms1 /\ [] = ms2 /\ [] = tail).
    { apply (stream_prefix_split_unique ms ms1 [] ms2 [] tail).
      - rewrite app_nil_r. exact F1.
      - rewrite app_nil_r. exact F2.
      - reflexivity.
      - exact F3. }
    destruct U as (<- & _ & <-).
    repeat split; assumption.
  Qed.

  (* ---------------------------------------------------------------- *)
  (* C13_bad_frame_disconnects                                         *)

  (* a frame whose length field is negative, or whose payload does not decode *)
  Definition bad_frame (bad : bytes) : Prop :=
    ((4 <= length bad)%nat /\ unpack_i bad < 0) \/
    (exists d, bad = frame d /\ zlen d < two31 /\ dec d = DFail).

  Lemma parse_one_bad now c bad rest :
    bad_frame bad -> rbuf c = bad ++ rest ->
    parse_one dec now c = (fst (disconnect now c), PDisc).
  Proof.
    intros [[H4 Hneg]|(d & -> & Hl & Hd)] Hb.
    - exact (parse_one_negative now c bad rest Hb H4 Hneg).
    - exact (parse_one_undecodable now c d rest Hb Hl Hd).
  Qed.

  Definition disc_delivering (ms : list N) : outs :=
    {| accepted := []; delivered := ms; disc_calls := 1; conn_calls := 0; miss := false |}.

  Theorem bad_frame_disconnects now c ms bad rest :
    Forall good ms -> st c = Connected -> bad_frame bad ->
    rbuf c = stream ms ++ bad ++ rest ->
    parse_all dec now c = (dead now c, disc_delivering ms).
  Proof.
    intros Hg Hst Hbad Hb. unfold parse_all.
    pose proof (stream_length_ge ms) as Hlen.
    assert (Hl : (length (stream ms) <= length (rbuf c))%nat)
      by (rewrite Hb, app_length; lia).
    rewrite (parse_loop_stream now ms c (bad ++ rest) _ Hg Hb) by lia.
    destruct (S (length (rbuf c)) - length ms)%nat as [|f] eqn:Ef; [lia|].
    cbn [parse_loop].
    rewrite (parse_one_bad now (set_rbuf c (bad ++ rest)) bad rest Hbad eq_refl).
    assert (Hd : disconnect now (set_rbuf c (bad ++ rest)) = (dead now c, disc_out)).
    { rewrite disconnect_live by (cbn [st set_rbuf]; congruence). reflexivity. }
    rewrite Hd. cbn [fst snd].
    unfold disc_delivering, out_app, mk_out, disc_out.
    cbn [accepted delivered disc_calls conn_calls miss].
    rewrite (app_nil_r ms). reflexivity.
  Qed.

  (* the same on the modelled event: the bad frame arrives (possibly with good
     frames before it and anything after it) in a read event *)
  Theorem bad_frame_step c now ms bad rest bs tl :
    Forall good ms -> st c = Connected -> now - last_read c <= timeout c ->
    Forall (fun b => b <> []) bs -> read_quiet tl -> bad_frame bad ->
    rbuf c ++ concat bs = stream ms ++ bad ++ rest ->
    step dec c (EPoll now true false false false [] (chunks_script bs ++ tl)) =
      (dead now (set_last_read c now), disc_delivering ms).
  Proof.
    intros Hg Hst Ht Hbs Htl Hbad Hb.
    rewrite (step_poll_is_feed c now false [] bs tl Hst Ht) by (assumption || discriminate).
    unfold feed.
    rewrite (bad_frame_disconnects now
               (set_rbuf (set_last_read c now) (rbuf (set_last_read c now) ++ concat bs))
               ms bad rest Hg Hst Hbad Hb).
    reflexivity.
  Qed.

  (* a Disconnected connection ignores poll events ... *)
  Lemma step_poll_disconnected c now rd wr er soerr ss rs :
    st c = Disconnected -> step dec c (EPoll now rd wr er soerr ss rs) = (c, no_out).
  Proof. intros H. unfold step, step_gen; fold (poll_connected dec). rewrite H. reflexivity. Qed.

  (* ... and whatever happens to it short of a connect(), it stays
     Disconnected, delivers nothing, sends nothing, and no callback runs *)
  Definition quiet (o : outs) : Prop :=
    accepted o = [] /\ delivered o = [] /\ disc_calls o = 0%nat /\ conn_calls o = 0%nat /\
    miss o = false.

  Definition no_connect (e : event) : Prop :=
    match e with EConnect _ => False | _ => True end.

  Lemma step_disconnected c e :
    st c = Disconnected -> no_connect e ->
    st (fst (step dec c e)) = Disconnected /\ quiet (snd (step dec c e)).
  Proof.
    intros H Hn. destruct e as [now p script|now rd wr er soerr ss rs|now|now]; [| | |destruct Hn].
    - rewrite step_send_eq. cbn [fst snd]. rewrite send_subscribe_st. unfold try_send, check_timeout.
      destruct (now - last_read (set_wbuf c (wbuf c ++ frame p)) >? timeout (set_wbuf c (wbuf c ++ frame p))).
      + unfold disconnect. cbn [st set_wbuf]. rewrite H. cbn. repeat split.
      + cbn [st set_wbuf]. rewrite H. cbn. rewrite H. repeat split.
    - rewrite step_poll_disconnected by assumption. cbn. rewrite H. repeat split.
    - unfold step, step_gen, disconnect. rewrite H. cbn. repeat split.
  Qed.

  Theorem run_disconnected es : forall c,
    st c = Disconnected -> Forall no_connect es ->
    st (fst (run dec c es)) = Disconnected /\ Forall quiet (snd (run dec c es)).
  Proof.
    induction es as [|e es IH]; intros c H Hn.
    - cbn. split; [exact H|constructor].
    - inversion Hn as [|e' es' Hn1 Hn2]; subst e' es'.
      cbn [run]. pose proof (step_disconnected c e H Hn1) as [H1 H2].
      destruct (step dec c e) as [c1 o]. cbn [fst snd] in H1, H2.
      specialize (IH c1 H1 Hn2). destruct (run dec c1 es) as [c2 os]. cbn [fst snd] in *.
      destruct IH as [I1 I2]. split; [exact I1|constructor; assumption].
  Qed.


  (* ---------------------------------------------------------------- *)
  (* C13_disconnect_clears                                             *)

  Ltac pair_inv H c o :=
    let H1 := fresh in let H2 := fresh in
    apply (f_equal fst) in H as H1; apply (f_equal snd) in H as H2;
    cbn [fst snd] in H1, H2; subst c o.

  (* either onDisconnected did not run, or both buffers are empty and the
     connection is not CONNECTED (DISCONNECTED, or CONNECTING when the callback
     reconnected) *)
  Definition clr (c' : conn) (o : outs) : Prop :=
    disc_calls o = 0%nat \/ (rbuf c' = [] /\ wbuf c' = [] /\ st c' <> Connected).

  Lemma disconnect_buffers now c c' o :
    disconnect now c = (c', o) -> rbuf c' = [] /\ wbuf c' = [] /\ st c' <> Connected.
  Proof.
    unfold disconnect. intros H.
    destruct (st c); destruct (reconnect c); pair_inv H c' o; cbn; repeat split; discriminate.
  Qed.

  Lemma disconnect_clr now c c' o : disconnect now c = (c', o) -> clr c' o.
  Proof. intros H. right. exact (disconnect_buffers now c c' o H). Qed.

  Lemma clr_no_out c : clr c no_out.
  Proof. left. reflexivity. Qed.

  Lemma send_loop_clr now script : forall c c' o,
    send_loop now script c = (c', o) -> clr c' o.
  Proof.
    induction script as [|r script IH]; intros c c' o H; cbn [send_loop] in H.
    - assert (H' : (c, no_out) = (c', o)) by (destruct (wbuf c); exact H).
      pair_inv H' c' o. apply clr_no_out.
    - destruct (wbuf c) as [|x w] eqn:Ew.
      + pair_inv H c' o. apply clr_no_out.
      + destruct r as [k| | | |].
        * remember (Nat.max 1 (N.to_nat (N.min k (N.of_nat (length (x :: w)))))) as k' eqn:Ek.
          destruct (send_loop now script (set_wbuf c (skipn k' (x :: w)))) as [c2 o2] eqn:E2.
          apply IH in E2. pair_inv H c' o.
          destruct E2 as [L|R]; [left; cbn [out_app disc_calls]; exact L|right; exact R].
        * pair_inv H c' o. apply clr_no_out.
        * exact (disconnect_clr now c c' o H).
        * pair_inv H c' o. apply clr_no_out.
        * exact (disconnect_clr now c c' o H).
  Qed.

  Lemma try_send_clr now script c c' o : try_send now script c = (c', o) -> clr c' o.
  Proof.
    unfold try_send, check_timeout. intros H.
    destruct (now - last_read c >? timeout c).
    - destruct (disconnect now c) as [c1 o1] eqn:E1.
      destruct (disconnect_buffers now c c1 o1 E1) as (B1 & B2 & B3).
      destruct (st c1) eqn:Es1.
      + pair_inv H c' o. right. repeat split; try assumption; congruence.
      + rewrite (send_loop_empty now script c1 B2) in H. pair_inv H c' o.
        rewrite out_app_no_out_r. right. repeat split; try assumption; congruence.
      + congruence.
    - destruct (st c) eqn:Es.
      + pair_inv H c' o. apply clr_no_out.
      + destruct (send_loop now script c) as [c2 o2] eqn:E2. apply send_loop_clr in E2.
        pair_inv H c' o. rewrite out_app_no_out_l. exact E2.
      + destruct (send_loop now script c) as [c2 o2] eqn:E2. apply send_loop_clr in E2.
        pair_inv H c' o. rewrite out_app_no_out_l. exact E2.
  Qed.

  Lemma read_loop_clr now rs : forall c c' o, read_loop now rs c = (c', o) -> clr c' o.
  Proof.
    induction rs as [|r rs IH]; intros c c' o H; cbn [read_loop] in H.
    - pair_inv H c' o. apply clr_no_out.
    - destruct r as [b soerr| |].
      + destruct soerr; [exact (disconnect_clr now c c' o H)|].
        destruct b as [|x b]; [exact (disconnect_clr now c c' o H)|].
        exact (IH _ _ _ H).
      + pair_inv H c' o. apply clr_no_out.
      + exact (disconnect_clr now c c' o H).
  Qed.

  Lemma parse_one_disc now c c1 :
    parse_one dec now c = (c1, PDisc) -> c1 = fst (disconnect now c).
  Proof.
    unfold parse_one; cbv zeta. intros H.
    destruct (zlen (rbuf c) <? 4); [discriminate|].
    destruct (unpack_i (pyslice (rbuf c) 0 4) <? 0).
    { apply (f_equal fst) in H. cbn [fst] in H. congruence. }
    destruct (zlen (rbuf c) - 4 <? unpack_i (pyslice (rbuf c) 0 4)); [discriminate|].
    destruct (dec _); try discriminate.
    apply (f_equal fst) in H. cbn [fst] in H. congruence.
  Qed.

  Lemma parse_loop_clr now fuel : forall c c' o,
    parse_loop dec now fuel c = (c', o) -> clr c' o.
  Proof.
    induction fuel as [|f IH]; intros c c' o H; cbn [parse_loop] in H.
    - pair_inv H c' o. apply clr_no_out.
    - destruct (parse_one dec now c) as [c1 r] eqn:E1.
      destruct r as [|id| |].
      + pair_inv H c' o. apply clr_no_out.
      + destruct (parse_loop dec now f c1) as [c2 o2] eqn:E2. apply IH in E2.
        pair_inv H c' o.
        destruct E2 as [L|R]; [left; cbn [out_app disc_calls]; exact L|right; exact R].
      + apply parse_one_disc in E1. pair_inv H c' o. subst c1.
        apply (disconnect_clr now c). apply surjective_pairing.
      + pair_inv H c' o. left. reflexivity.
  Qed.

  Lemma clr_connected c o : clr c o -> st c = Connected -> disc_calls o = 0%nat.
  Proof. intros [L|(_ & _ & R)] H; [exact L|congruence]. Qed.

  Lemma poll_connected_clr now rd wr ss rs c c' o :
    poll_connected dec now rd wr ss rs c = (c', o) -> clr c' o.
  Proof.
    unfold poll_connected, poll_connected_gen. intros H.
    match type of H with (let (_, _) := ?W in _) = _ => destruct W as [c2' o2] eqn:E2' end.
    apply write_part_spec in E2' as (c2 & E2 & ->).
    assert (C2 : clr (wpost wr c2) o2).
    { unfold clr. rewrite wpost_rbuf, wpost_wbuf, wpost_st.
      destruct wr; [exact (try_send_clr now ss c c2 o2 E2)|].
      pair_inv E2 c2 o2. apply clr_no_out. }
    remember (wpost wr c2) as c2w eqn:Ew. clear Ew E2 c2. rename c2w into c2.
    destruct (st c2) eqn:Es2.
    - pair_inv H c' o. exact C2.
    - pair_inv H c' o. exact C2.
    - pose proof (clr_connected c2 o2 C2 Es2) as D2.
      destruct rd; [|pair_inv H c' o; exact C2].
      destruct (read_loop now rs c2) as [c3 o3] eqn:E3.
      pose proof (read_loop_clr now rs c2 c3 o3 E3) as C3.
      cbn [st set_last_read] in H.
      assert (Hsum : forall o4, disc_calls (out_app o2 (out_app o3 o4)) = (disc_calls o3 + disc_calls o4)%nat)
        by (intros o4; cbn [out_app disc_calls]; rewrite D2; reflexivity).
      destruct (st c3) eqn:Es3.
      + pair_inv H c' o. destruct C3 as [L|(R1 & R2 & R3)].
        * left. cbn [out_app disc_calls]. rewrite D2, L. reflexivity.
        * right. cbn [rbuf wbuf st set_last_read]. repeat split; assumption.
      + destruct C3 as [L|(R1 & R2 & R3)].
        * destruct (parse_all dec now (set_last_read c3 now)) as [c4 o4] eqn:E4.
          unfold parse_all in E4. apply parse_loop_clr in E4. pair_inv H c' o.
          destruct E4 as [L4|R4]; [left; rewrite Hsum, L, L4; reflexivity|right; exact R4].
        * rewrite (parse_all_empty now (set_last_read c3 now) R1) in H. pair_inv H c' o.
          right. cbn [rbuf wbuf st set_last_read]. repeat split; assumption.
      + destruct C3 as [L|(R1 & R2 & R3)]; [|congruence].
        destruct (parse_all dec now (set_last_read c3 now)) as [c4 o4] eqn:E4.
        unfold parse_all in E4. apply parse_loop_clr in E4. pair_inv H c' o.
        destruct E4 as [L4|R4]; [left; rewrite Hsum, L, L4; reflexivity|right; exact R4].
  Qed.

  (* Whatever the event and the state: if onDisconnected ran during it, then
     when the handler returns both buffers are empty -- with or without a
     reconnecting callback, and even when the handler went on after the
     reconnect (timeout + READ/WRITE, where the fresh connection is marked
     CONNECTED in the same call). *)
  Theorem step_disconnect_clears c e c' o :
    step dec c e = (c', o) -> (0 < disc_calls o)%nat -> rbuf c' = [] /\ wbuf c' = [].
  Proof.
    intros H Hd.
    assert (Fin : clr c' o -> rbuf c' = [] /\ wbuf c' = []).
    { intros [L|(R1 & R2 & _)]; [lia|split; assumption]. }
    destruct e as [now p script|now rd wr er soerr ss rs|now|now].
    - apply step_send_inv in H as (c1 & H & ->). apply Fin.
      unfold clr. rewrite send_subscribe_rbuf, send_subscribe_wbuf, send_subscribe_st.
      exact (try_send_clr _ _ _ _ _ H).
    - unfold step, step_gen in H; fold (poll_connected dec) in H. destruct (st c) eqn:Es.
      + pair_inv H c' o. cbn in Hd. lia.
      + (* CONNECTING *)
        destruct er; [apply Fin; exact (disconnect_clr _ _ _ _ H)|].
        unfold check_timeout in H. cbv zeta in H.
        destruct (now - last_read c >? timeout c) eqn:Et.
        * rewrite (disconnect_live now c) in H by congruence.
          destruct (dead_buffers now c) as [B1 B2].
          rewrite andb_false_r in H. unfold dead in *.
          destruct (reconnect c); cbn [st connect cleared] in H.
          -- destruct (rd || wr); pair_inv H c' o; split; assumption.
          -- pair_inv H c' o. split; assumption.
        * rewrite Es in H. rewrite andb_true_r in H.
          destruct ((rd || wr) && soerr).
          -- destruct (disconnect now c) as [c2 o2] eqn:E2.
             destruct (disconnect_buffers now c c2 o2 E2) as (B1 & B2 & _).
             pair_inv H c' o. split; assumption.
          -- destruct (rd || wr); pair_inv H c' o; cbn in Hd; lia.
      + (* CONNECTED *)
        destruct er; [apply Fin; exact (disconnect_clr _ _ _ _ H)|].
        unfold check_timeout in H. cbv zeta in H.
        destruct (now - last_read c >? timeout c) eqn:Et.
        * rewrite (disconnect_live now c) in H by congruence.
          destruct (dead_buffers now c) as [B1 B2].
          rewrite andb_false_r in H. unfold dead in *.
          destruct (reconnect c); cbn [st connect cleared] in H.
          -- destruct (rd || wr); pair_inv H c' o; split; assumption.
          -- pair_inv H c' o. split; assumption.
        * rewrite Es in H. rewrite andb_true_r in H.
          destruct ((rd || wr) && soerr).
          -- destruct (disconnect now c) as [c2 o2] eqn:E2.
             destruct (disconnect_buffers now c c2 o2 E2) as (B1 & B2 & _).
             pair_inv H c' o. split; assumption.
          -- destruct (poll_connected dec now rd wr ss rs c) as [c2 o2] eqn:E2.
             apply poll_connected_clr in E2. pair_inv H c' o.
             rewrite out_app_no_out_l in Hd.
             destruct E2 as [L|(R1 & R2 & _)]; [lia|split; assumption].
    - apply Fin. exact (disconnect_clr _ _ _ _ H).
    - unfold step, step_gen in H; fold (poll_connected dec) in H. pair_inv H c' o. cbn in Hd. lia.
  Qed.

  (* how a read burst ends in a disconnect: ECONNRESET, EOF, or SO_ERROR set
     after a successful recv *)
  Definition burst_end (tl : list rres) : Prop :=
    match tl with
    | RErr :: _ => True
    | RChunk [] _ :: _ => True
    | RChunk _ true :: _ => True
    | _ => False
    end.

  Lemma read_loop_burst_end now tl c :
    burst_end tl -> read_loop now tl c = disconnect now c.
  Proof.
    destruct tl as [|[b e| |] r]; cbn; intros H; try destruct H; try reflexivity.
    destruct e; [reflexivity|]. destruct b; [reflexivity|destruct H].
  Qed.

  (* "in particular": the read burst [bs] (any bytes -- complete frames, a
     partial frame, a few header bytes) that ends in EOF/error: nothing of it is
     delivered and nothing of it is in the buffer afterwards, neither of the
     dead connection nor of the one the callback opened *)
  Theorem read_burst_disconnect c now bs tl :
    st c = Connected -> now - last_read c <= timeout c ->
    Forall (fun b => b <> []) bs -> burst_end tl ->
    step dec c (EPoll now true false false false [] (chunks_script bs ++ tl))
    = (set_last_read (dead now c) now, disc_out).
  Proof.
    intros Hst Ht Hbs Htl. unfold step, step_gen; fold (poll_connected dec). rewrite Hst.
    rewrite (check_timeout_ok now c Ht). cbv beta iota zeta. rewrite Hst.
    cbn [orb andb]. unfold poll_connected, poll_connected_gen. cbv beta iota. rewrite Hst.
    rewrite (read_loop_chunks now bs c tl Hbs), (read_loop_burst_end now tl _ Htl).
    rewrite disconnect_live by (cbn [st set_rbuf]; congruence).
    change (dead now (set_rbuf c (rbuf c ++ concat bs))) with (dead now c).
    cbv beta iota. cbn [st set_last_read].
    unfold dead. destruct (reconnect c); cbn [st connect cleared]; [|reflexivity].
    rewrite parse_all_empty by reflexivity. reflexivity.
  Qed.

  (* ---------------------------------------------------------------- *)
  (* C13_reader_after_reconnect                                        *)

  (* the CONNECTING branch of __processConnection: first READ/WRITE event
     without error: onConnected, CONNECTED, lastReadTime := now, return *)
  Lemma step_establish c now rd wr ss rs :
    st c = Connecting -> now - last_read c <= timeout c -> rd || wr = true ->
    step dec c (EPoll now rd wr false false ss rs) =
      ({| st := Connected; rbuf := rbuf c; wbuf := wbuf c; last_read := now;
          timeout := timeout c; reconnect := reconnect c; interest := interest c; reuse_fd := reuse_fd c |}, conn_out).
  Proof.
    intros Hst Ht Hrw. unfold step, step_gen; fold (poll_connected dec). rewrite Hst.
    rewrite (check_timeout_ok now c Ht). cbv beta iota zeta. rewrite Hst, Hrw.
    cbn [andb]. rewrite out_app_no_out_l. reflexivity.
  Qed.

  Definition connected_delivering (ms : list N) : outs :=
    {| accepted := []; delivered := ms; disc_calls := 0; conn_calls := 1; miss := false |}.

  (* a CONNECTING connection with an empty read buffer: it is established by
     the first READ/WRITE event and then receives its stream exactly *)
  Theorem reader_from_connecting ms ps c t0 rd wr ss rs :
    Forall good ms -> st c = Connecting -> rbuf c = [] ->
    t0 - last_read c <= timeout c -> rd || wr = true ->
    polls_ok t0 (timeout c) ps ->
    concat (map snd ps) = stream ms ->
    exists c' os,
      run dec c (EPoll t0 rd wr false false ss rs :: map poll_event ps) = (c', os) /\
      st c' = Connected /\ rbuf c' = [] /\
      sum_outs os = connected_delivering ms.
  Proof.
    intros Hg Hst Hr Ht Hrw Hok Hc. cbn [run].
    rewrite (step_establish c t0 rd wr ss rs Hst Ht Hrw).
    set (c1 := {| st := Connected; rbuf := rbuf c; wbuf := wbuf c; last_read := t0;
                  timeout := timeout c; reconnect := reconnect c; interest := interest c; reuse_fd := reuse_fd c |}).
    destruct (reader_run_complete ms ps c1 Hg eq_refl Hr Hok Hc)
      as (c' & os & R & F1 & F2 & _ & F4).
    exists c', (conn_out :: os). rewrite R. repeat split; try assumption.
    cbn [sum_outs fold_right]. fold (sum_outs os). rewrite F4. reflexivity.
  Qed.

  (* Whatever the connection held and whatever event [e] made onDisconnected
     run: if the callback reconnected (the state after the event is not
     DISCONNECTED), the new connection receives the stream sent on it exactly --
     nothing of the old connection is delivered, nothing is lost or mis-framed.
     (After a timeout the handler may already have marked the fresh connection
     CONNECTED; otherwise the next READ/WRITE event does.) *)
  Theorem reader_after_reconnect ms ps c e c1 o1 :
    Forall good ms ->
    step dec c e = (c1, o1) -> (0 < disc_calls o1)%nat ->
    concat (map snd ps) = stream ms ->
    (st c1 = Connecting ->
     forall t0 rd wr ss rs,
       t0 - last_read c1 <= timeout c1 -> rd || wr = true ->
       polls_ok t0 (timeout c1) ps ->
       exists c' os,
         run dec c1 (EPoll t0 rd wr false false ss rs :: map poll_event ps) = (c', os) /\
         st c' = Connected /\ rbuf c' = [] /\ sum_outs os = connected_delivering ms) /\
    (st c1 = Connected ->
     polls_ok (last_read c1) (timeout c1) ps ->
     exists c' os,
       run dec c1 (map poll_event ps) = (c', os) /\
       st c' = Connected /\ rbuf c' = [] /\ sum_outs os = mk_out ms).
  Proof.
    intros Hg Hstep Hd Hc.
    destruct (step_disconnect_clears c e c1 o1 Hstep Hd) as [Hr _].
    split.
    - intros Hst t0 rd wr ss rs Ht Hrw Hok.
      exact (reader_from_connecting ms ps c1 t0 rd wr ss rs Hg Hst Hr Ht Hrw Hok Hc).
    - intros Hst Hok.
      destruct (reader_run_complete ms ps c1 Hg Hst Hr Hok Hc) as (c' & os & R & F1 & F2 & _ & F4).
      exists c', os. repeat split; assumption.
  Qed.

  (* the same after an explicit connect() on any connection *)
  Theorem reader_after_connect ms ps c now t0 rd wr ss rs :
    Forall good ms ->
    t0 - now <= timeout c -> rd || wr = true ->
    polls_ok t0 (timeout c) ps ->
    concat (map snd ps) = stream ms ->
    exists c' os,
      run dec c (EConnect now :: EPoll t0 rd wr false false ss rs :: map poll_event ps) = (c', os) /\
      st c' = Connected /\ rbuf c' = [] /\ sum_outs os = connected_delivering ms.
  Proof.
    intros Hg Ht Hrw Hok Hc.
    destruct (reader_from_connecting ms ps (connect now c) t0 rd wr ss rs Hg eq_refl eq_refl Ht Hrw Hok Hc)
      as (c' & os & R & F1 & F2 & F3).
    exists c', (no_out :: os).
    change (run dec c (EConnect now :: EPoll t0 rd wr false false ss rs :: map poll_event ps))
      with (let (c2, os2) := run dec (connect now c) (EPoll t0 rd wr false false ss rs :: map poll_event ps)
            in (c2, no_out :: os2)).
    rewrite R. repeat split; try assumption.
    cbn [sum_outs fold_right]. fold (sum_outs os). rewrite F3. reflexivity.
  Qed.

End C13.
