(* C13, writer side and composition: proofs about Framing/Model.v.

     - send_loop / try_send: what the socket accepted is a prefix of the write
       buffer, the rest stays buffered, in order
     - writer invariant over benign schedules (acc ++ wbuf = sent), over all
       schedules (acc is a prefix of sent), failure / timeout => disconnect
     - roundtrip: writer (any schedule) composed with reader (any fragmentation) *)
From Coq Require Import ZArith NArith List Lia Bool ZifyBool.
From PSO Require Import Base.PyBytes Base.PyBytesFacts Framing.Model Framing.Proofs.
Import ListNotations.
Open Scope Z_scope.

(* ------------------------------------------------------------------ *)
(* socket scripts                                                      *)

(* results of socket.send after which the connection stays up *)
Definition benign (r : sres) : Prop :=
  match r with SAccept _ | SZero | SEagain => True | SNeg | SErr => False end.

(* results after which __processSend disconnects *)
Definition fails (r : sres) : Prop :=
  match r with SNeg | SErr => True | _ => False end.

Ltac pair_eq H c o :=
  let H1 := fresh in let H2 := fresh in
  apply (f_equal fst) in H as H1; apply (f_equal snd) in H as H2;
  cbn [fst snd] in H1, H2; subst c o.

(* onDisconnected runs unless the connection already was DISCONNECTED *)
Definition dcalls (c : conn) : nat :=
  match st c with Disconnected => 0%nat | _ => 1%nat end.

Lemma disconnect_spec now c c' o :
  disconnect now c = (c', o) ->
  c' = fst (disconnect now c) /\ accepted o = [] /\ delivered o = [] /\ miss o = false /\
  disc_calls o = dcalls c /\ conn_calls o = 0%nat /\
  rbuf c' = [] /\ wbuf c' = [] /\ st c' <> Connected /\
  reconnect c' = reconnect c /\ (reconnect c = false -> st c' = Disconnected) /\
  (st c = Disconnected -> st c' = Disconnected).
Proof.
  intros H. rewrite H. cbn [fst]. unfold disconnect, dcalls in *.
  destruct (st c) eqn:Es; destruct (reconnect c) eqn:Er; pair_eq H c' o; cbn;
    repeat split; try discriminate; try reflexivity; try assumption.
Qed.

(* while self.__processSend(): pass *)
Lemma send_loop_spec now script : forall c c' o,
  send_loop now script c = (c', o) ->
  exists rest,
    accepted o ++ rest = wbuf c /\ delivered o = [] /\ miss o = false /\ conn_calls o = 0%nat /\
    ((c' = set_wbuf c rest /\ disc_calls o = 0%nat) \/
     (~ Forall benign script /\ c' = fst (disconnect now c) /\ disc_calls o = dcalls c)).
Proof.
  induction script as [|r script IH]; intros c c' o H; cbn [send_loop] in H.
  - exists (wbuf c).
    assert (H' : (c, no_out) = (c', o)) by (destruct (wbuf c); exact H).
    pair_eq H' c' o. cbn. repeat split.
    left. rewrite set_wbuf_same. split; reflexivity.
  - destruct (wbuf c) as [|x w] eqn:Ew.
    + exists []. pair_eq H c' o. cbn. repeat split.
      left. rewrite <- Ew, set_wbuf_same. split; reflexivity.
    + destruct r as [k| | | |].
      * (* SAccept k *)
        remember (Nat.max 1 (N.to_nat (N.min k (N.of_nat (length (x :: w)))))) as k' eqn:Ek.
        destruct (send_loop now script (set_wbuf c (skipn k' (x :: w)))) as [c2 o2] eqn:E2.
        apply IH in E2 as (rest & A & B & C & C' & D). cbn [wbuf set_wbuf] in A.
        pair_eq H c' o.
        exists rest. cbn [out_app accepted delivered miss disc_calls conn_calls].
        rewrite <- app_assoc, A, firstn_skipn, B, C, C'. repeat split.
        destruct D as [[D1 D2]|[D1 [D2 D3]]].
        -- left. subst c2. rewrite D2. split; reflexivity.
        -- right. subst c2. rewrite D3. repeat split.
           intros F. apply D1. inversion F; assumption.
      * (* SZero *)
        exists (x :: w). pair_eq H c' o. cbn. repeat split.
        left. rewrite <- Ew, set_wbuf_same. split; reflexivity.
      * (* SNeg *)
        apply disconnect_spec in H as (H1 & H2 & H3 & H4 & H5 & H6 & _).
        exists (x :: w). rewrite H2. repeat split; try assumption.
        right. repeat split; try assumption.
        intros F. inversion F as [|? ? Fb ?]. exact Fb.
      * (* SEagain *)
        exists (x :: w). pair_eq H c' o. cbn. repeat split.
        left. rewrite <- Ew, set_wbuf_same. split; reflexivity.
      * (* SErr *)
        apply disconnect_spec in H as (H1 & H2 & H3 & H4 & H5 & H6 & _).
        exists (x :: w). rewrite H2. repeat split; try assumption.
        right. repeat split; try assumption.
        intros F. inversion F as [|? ? Fb ?]. exact Fb.
Qed.

(* __trySendBuffer *)
Lemma try_send_spec now script c c' o :
  try_send now script c = (c', o) ->
  exists rest,
    accepted o ++ rest = wbuf c /\ delivered o = [] /\ miss o = false /\ conn_calls o = 0%nat /\
    reconnect c' = reconnect c /\
    (reconnect c = false -> st c' <> Disconnected -> wbuf c' = rest /\ st c' = st c) /\
    (st c = Disconnected -> st c' = Disconnected /\ accepted o = [] /\ disc_calls o = 0%nat) /\
    (st c <> Disconnected -> now - last_read c <= timeout c -> Forall benign script ->
     c' = set_wbuf c rest /\ disc_calls o = 0%nat).
Proof.
  unfold try_send, check_timeout. intros H.
  destruct (now - last_read c >? timeout c) eqn:E.
  - destruct (disconnect now c) as [c1 o1] eqn:E1.
    apply disconnect_spec in E1 as (_ & A1 & A2 & A3 & A4 & A5 & B1 & B2 & B3 & B4 & B5 & B6).
    assert (H' : (c1, o1) = (c', o)).
    { destruct (st c1) eqn:Es1; [exact H| |congruence].
      rewrite (send_loop_empty now script c1 B2) in H. rewrite out_app_no_out_r in H. exact H. }
    pair_eq H' c' o.
    exists (wbuf c). rewrite A1.
    split; [reflexivity|]. split; [exact A2|]. split; [exact A3|]. split; [exact A5|].
    split; [exact B4|]. split; [|split].
    + intros Hr Hn. exfalso. apply Hn. exact (B5 Hr).
    + intros Hs. split; [exact (B6 Hs)|split; [reflexivity|]].
      unfold dcalls in A4. rewrite Hs in A4. exact A4.
    + intros _ Ht. lia.
  - destruct (st c) eqn:Es.
    { pair_eq H c' o. exists (wbuf c). cbn. repeat split; congruence. }
    all: destruct (send_loop now script c) as [c2 o2] eqn:E2;
      apply send_loop_spec in E2 as (rest & A & B & C & C' & D);
      pair_eq H c' o; rewrite out_app_no_out_l;
      exists rest;
      (split; [exact A|]); (split; [exact B|]); (split; [exact C|]); (split; [exact C'|]);
      (split; [|split; [|split]]).
    all: try (intros Hs; discriminate Hs).
    all: try (intros _ Ht Hb; destruct D as [[D1 D2]|[D1 _]]; [split; assumption|contradiction]).
    all: try (intros Hr Hn; destruct D as [[D1 _]|[_ [D1 _]]]; subst c2;
              [split; [reflexivity|cbn [st set_wbuf]; exact Es]|];
              exfalso; apply Hn; unfold disconnect; rewrite Es, Hr; reflexivity).
    all: destruct D as [[D1 _]|[_ [D1 _]]]; subst c2; [reflexivity|];
      unfold disconnect; rewrite Es; destruct (reconnect c) eqn:Er; cbn; congruence.
Qed.

Section C13W.
  Variable dec : bytes -> dres.

  (* ---------------------------------------------------------------- *)
  (* the read side never touches the write buffer                      *)

  (* [c'] comes from [c] by reading/parsing: same reconnect flag, and -- when
     no callback reconnects -- unless it was disconnected, same write buffer
     and state *)
  Definition keepw (c c' : conn) : Prop :=
    reconnect c' = reconnect c /\
    (reconnect c = false -> st c' <> Disconnected -> wbuf c' = wbuf c /\ st c' = st c).

  Lemma keepw_refl c : keepw c c.
  Proof. split; [reflexivity|]. intros _ _. split; reflexivity. Qed.

  Lemma keepw_trans a b c : keepw a b -> keepw b c -> keepw a c.
  Proof.
    intros [R1 K1] [R2 K2]. split; [congruence|].
    intros Hr Hn. destruct (K2 ltac:(congruence) Hn) as [W2 S2].
    destruct (K1 Hr ltac:(congruence)) as [W1 S1]. split; congruence.
  Qed.

  Lemma keepw_disc now c : keepw c (fst (disconnect now c)).
  Proof.
    destruct (disconnect now c) as [c' o] eqn:E. cbn [fst].
    apply disconnect_spec in E as (_ & _ & _ & _ & _ & _ & _ & _ & _ & B4 & B5 & _).
    split; [exact B4|]. intros Hr Hn. exfalso. apply Hn. exact (B5 Hr).
  Qed.

  Lemma parse_one_cases now c c' r :
    parse_one dec now c = (c', r) ->
    match r with
    | PNone | PMiss => c' = c
    | PMsg _ => exists b, c' = set_rbuf c b
    | PDisc => c' = fst (disconnect now c)
    end.
  Proof.
    unfold parse_one; cbv zeta. intros H.
    destruct (zlen (rbuf c) <? 4).
    { pair_eq H c' r. reflexivity. }
    destruct (unpack_i (pyslice (rbuf c) 0 4) <? 0).
    { pair_eq H c' r. reflexivity. }
    destruct (zlen (rbuf c) - 4 <? unpack_i (pyslice (rbuf c) 0 4)).
    { pair_eq H c' r. reflexivity. }
    destruct (dec _); pair_eq H c' r; try reflexivity.
    eexists; reflexivity.
  Qed.

  Lemma parse_loop_wbuf now fuel : forall c c' o,
    parse_loop dec now fuel c = (c', o) ->
    accepted o = [] /\ conn_calls o = 0%nat /\ keepw c c'.
  Proof.
    induction fuel as [|f IH]; intros c c' o H; cbn [parse_loop] in H.
    - pair_eq H c' o. split; [reflexivity|split; [reflexivity|apply keepw_refl]].
    - destruct (parse_one dec now c) as [c1 r] eqn:E1. apply parse_one_cases in E1.
      destruct r as [|id| |].
      + pair_eq H c' o. subst c1. split; [reflexivity|split; [reflexivity|apply keepw_refl]].
      + destruct E1 as [b ->].
        destruct (parse_loop dec now f (set_rbuf c b)) as [c2 o2] eqn:E2.
        apply IH in E2 as (A & A' & K).
        pair_eq H c' o. cbn [out_app accepted conn_calls].
        rewrite A, A'. split; [reflexivity|split; [reflexivity|]].
        refine (keepw_trans c (set_rbuf c b) c2 _ K).
        split; [reflexivity|]. intros _ _. split; reflexivity.
      + pair_eq H c' o. subst c1.
        destruct (disconnect now c) as [cd od] eqn:Ed.
        pose proof (keepw_disc now c) as K. rewrite Ed in K.
        apply disconnect_spec in Ed as (_ & A1 & _ & _ & _ & A5 & _).
        cbn [fst snd] in *. split; [exact A1|split; [exact A5|exact K]].
      + pair_eq H c' o. subst c1. split; [reflexivity|split; [reflexivity|apply keepw_refl]].
  Qed.

  Lemma read_loop_wbuf now rs : forall c c' o,
    read_loop now rs c = (c', o) ->
    accepted o = [] /\ conn_calls o = 0%nat /\ keepw c c'.
  Proof.
    assert (Hd : forall c c' o, disconnect now c = (c', o) ->
                 accepted o = [] /\ conn_calls o = 0%nat /\ keepw c c').
    { intros c c' o E. pose proof (keepw_disc now c) as K. rewrite E in K.
      apply disconnect_spec in E as (_ & A1 & _ & _ & _ & A5 & _).
      split; [exact A1|split; [exact A5|exact K]]. }
    induction rs as [|r rs IH]; intros c c' o H; cbn [read_loop] in H.
    - pair_eq H c' o. split; [reflexivity|split; [reflexivity|apply keepw_refl]].
    - destruct r as [b soerr| |].
      + destruct soerr; [exact (Hd _ _ _ H)|].
        destruct b as [|x b]; [exact (Hd _ _ _ H)|].
        apply IH in H as (A & A' & K). split; [exact A|split; [exact A'|]].
        refine (keepw_trans c _ c' _ K).
        split; [reflexivity|]. intros _ _. split; reflexivity.
      + pair_eq H c' o. split; [reflexivity|split; [reflexivity|apply keepw_refl]].
      + exact (Hd _ _ _ H).
  Qed.

  (* ---------------------------------------------------------------- *)
  (* ghost state of the writer                                         *)

  Definition sent_payloads (es : list event) : list bytes :=
    flat_map (fun e => match e with ESend _ p _ => [p] | _ => [] end) es.

  (* the bytes conn.send() appended to the write buffer so far *)
  Definition sent_of (es : list event) : bytes := concat (map frame (sent_payloads es)).

  (* the bytes socket.send() took so far *)
  Definition acc_of (os : list outs) : bytes := concat (map accepted os).

  Lemma sent_of_cons e es : sent_of (e :: es) = sent_of [e] ++ sent_of es.
  Proof.
    unfold sent_of, sent_payloads. cbn [flat_map]. rewrite app_nil_r.
    rewrite map_app, concat_app. reflexivity.
  Qed.

  Lemma acc_of_quiet os : Forall quiet os -> acc_of os = [].
  Proof.
    induction 1 as [|o os Ho _ IH]; [reflexivity|].
    unfold acc_of in *. cbn [map concat]. destruct Ho as (-> & _). rewrite IH. reflexivity.
  Qed.

  (* ---------------------------------------------------------------- *)
  (* one event, any kind, any scripts; one connection lifetime          *)
  (* (no reconnecting callback, no connect())                          *)

  Lemma poll_connected_writer c now rd wr ss rs c2 o2 :
    reconnect c = false ->
    poll_connected dec now rd wr ss rs c = (c2, o2) ->
    exists rest,
      accepted o2 ++ rest = wbuf c /\
      (st c2 <> Disconnected -> wbuf c2 = rest) /\ reconnect c2 = reconnect c.
  Proof.
    intros Hr H. unfold poll_connected, poll_connected_gen in H.
    match type of H with (let (_, _) := ?W in _) = _ => destruct W as [c1' o1] eqn:E1' end.
    apply write_part_spec in E1' as (c1 & E1 & ->).
    assert (W : exists rest, accepted o1 ++ rest = wbuf c /\ reconnect (wpost wr c1) = reconnect c /\
                             (st (wpost wr c1) <> Disconnected -> wbuf (wpost wr c1) = rest)).
    { rewrite wpost_reconnect, wpost_st, wpost_wbuf. destruct wr.
      - apply try_send_spec in E1 as (rest & A & _ & _ & _ & B & C & _).
        exists rest. repeat split; try assumption. intros Hn. exact (proj1 (C Hr Hn)).
      - pair_eq E1 c1 o1. exists (wbuf c). repeat split. }
    remember (wpost wr c1) as c1w eqn:Ew. clear Ew E1 c1. rename c1w into c1.
    destruct W as (rest & A & R1 & B). exists rest.
    destruct (st c1) eqn:Es1.
    { pair_eq H c2 o2. repeat split; try assumption. congruence. }
    { pair_eq H c2 o2. repeat split; try assumption. intros _. apply B. congruence. }
    destruct rd.
    2:{ pair_eq H c2 o2. repeat split; try assumption. intros _. apply B. congruence. }
    destruct (read_loop now rs c1) as [c3 o3] eqn:E3.
    apply read_loop_wbuf in E3 as (A3 & _ & K3).
    cbn [st set_last_read] in H.
    assert (K3' : keepw c1 (set_last_read c3 now)) by exact K3.
    destruct (st c3) eqn:Es3.
    { pair_eq H c2 o2. cbn [out_app accepted st set_last_read reconnect].
      rewrite A3, app_nil_r. repeat split; [exact A|congruence|].
      destruct K3 as [K _]. congruence. }
    all: destruct (parse_all dec now (set_last_read c3 now)) as [c4 o4] eqn:E4;
      unfold parse_all in E4; apply parse_loop_wbuf in E4 as (A4 & _ & K4);
      pose proof (keepw_trans _ _ _ K3' K4) as [KR KW];
      pair_eq H c2 o2; cbn [out_app accepted]; rewrite A3, A4, !app_nil_r;
      (repeat split; [exact A| |congruence]);
      intros Hn; destruct (KW ltac:(congruence) Hn) as [W4 _]; rewrite W4; apply B; congruence.
  Qed.

  Lemma step_poll_writer c now rd wr er soerr ss rs c1 o :
    reconnect c = false ->
    step dec c (EPoll now rd wr er soerr ss rs) = (c1, o) ->
    exists rest,
      accepted o ++ rest = wbuf c /\
      (st c1 <> Disconnected -> wbuf c1 = rest) /\
      (st c = Disconnected -> st c1 = Disconnected) /\
      reconnect c1 = reconnect c.
  Proof.
    intros Hr H. unfold step, step_gen in H; fold (poll_connected dec) in H.
    (* every branch that ends in disconnect(): nothing accepted, DISCONNECTED *)
    assert (Hd : forall cd od, disconnect now c = (cd, od) ->
                 accepted od = [] /\ st cd = Disconnected /\ reconnect cd = reconnect c).
    { intros cd od E.
      apply disconnect_spec in E as (_ & A1 & _ & _ & _ & _ & _ & _ & _ & B4 & B5 & _).
      repeat split; [exact A1|exact (B5 Hr)|exact B4]. }
    destruct (st c) eqn:Es.
    { pair_eq H c1 o. exists (wbuf c). cbn. repeat split; congruence. }
    all: destruct er;
      [destruct (Hd _ _ H) as (A1 & S1 & R1); exists (wbuf c); rewrite A1;
       repeat split; [congruence|discriminate|exact R1]|].
    all: unfold check_timeout in H; cbv zeta in H;
      destruct (now - last_read c >? timeout c);
      [destruct (disconnect now c) as [cd od] eqn:Ed;
       destruct (Hd _ _ eq_refl) as (A1 & S1 & R1); rewrite S1 in H; pair_eq H c1 o;
       exists (wbuf c); rewrite A1; repeat split; [congruence|discriminate|exact R1]|].
    all: rewrite Es in H; rewrite andb_true_r in H;
      destruct ((rd || wr) && soerr);
      [destruct (disconnect now c) as [cd od] eqn:Ed;
       destruct (Hd _ _ eq_refl) as (A1 & S1 & R1); pair_eq H c1 o;
       exists (wbuf c); rewrite out_app_no_out_l, A1;
       repeat split; [congruence|discriminate|exact R1]|].
    - (* CONNECTING *)
      exists (wbuf c). destruct (rd || wr); pair_eq H c1 o; cbn; repeat split; discriminate.
    - (* CONNECTED *)
      destruct (poll_connected dec now rd wr ss rs c) as [c2 o2] eqn:E2.
      apply (poll_connected_writer c now rd wr ss rs c2 o2 Hr) in E2 as (rest & A & B & R).
      pair_eq H c1 o. rewrite out_app_no_out_l.
      exists rest. repeat split; [exact A|exact B|discriminate|exact R].
  Qed.

  Lemma step_writer_any c e c1 o :
    reconnect c = false -> no_connect e ->
    step dec c e = (c1, o) ->
    exists rest,
      accepted o ++ rest = wbuf c ++ sent_of [e] /\
      (st c1 <> Disconnected -> wbuf c1 = rest) /\
      (st c = Disconnected -> st c1 = Disconnected) /\
      reconnect c1 = reconnect c.
  Proof.
    intros Hr Hn H. destruct e as [now p script|now rd wr er soerr ss rs|now|now]; [| | |destruct Hn].
    - (* ESend *)
      apply step_send_inv in H as (c0 & H & ->).
      rewrite send_subscribe_st, send_subscribe_wbuf, (proj1 (proj2 (proj2 (proj2 (proj2 (proj2 (send_subscribe_fields c0))))))).
      apply try_send_spec in H as (rest & A & _ & _ & _ & R & B & C & _).
      exists rest. cbn [wbuf set_wbuf] in A.
      unfold sent_of, sent_payloads. cbn [flat_map map concat app]. rewrite app_nil_r.
      repeat split; [exact A| |intros Hs; apply C; exact Hs|exact R].
      intros Hn'. exact (proj1 (B Hr Hn')).
    - (* EPoll *)
      apply (step_poll_writer c now rd wr er soerr ss rs c1 o Hr) in H as (rest & A & B & C & R).
      exists rest.
      unfold sent_of, sent_payloads. cbn [flat_map map concat app]. rewrite app_nil_r.
      repeat split; assumption.
    - (* EDisconnect *)
      unfold step, step_gen in H; fold (poll_connected dec) in H.
      apply disconnect_spec in H as (_ & A & _ & _ & _ & _ & _ & _ & _ & B4 & B5 & B6).
      exists (wbuf c). rewrite A. unfold sent_of, sent_payloads. cbn.
      rewrite app_nil_r. repeat split; [|exact B6|exact B4].
      intros Hn'. exfalso. apply Hn'. exact (B5 Hr).
  Qed.

  (* ---------------------------------------------------------------- *)
  (* C13_writer, all schedules within one connection lifetime (no
     reconnecting callback, no connect()): whatever happens to the connection
     (sends, polls with any flags and any socket scripts, errors, timeouts,
     explicit disconnects), the bytes the socket accepted so far are a prefix
     of the frames handed to send(), in order; while the connection is not
     DISCONNECTED the remainder is exactly the write buffer. *)

  Theorem writer_any es : forall c c' os,
    reconnect c = false -> Forall no_connect es ->
    run dec c es = (c', os) ->
    exists rest,
      acc_of os ++ rest = wbuf c ++ sent_of es /\
      (st c' <> Disconnected -> wbuf c' = rest).
  Proof.
    induction es as [|e es IH]; intros c c' os Hr Hn H; cbn [run] in H.
    - pair_eq H c' os. exists (wbuf c). cbn. rewrite app_nil_r. split; reflexivity.
    - inversion Hn as [|e' es' Hn1 Hn2]; subst e' es'.
      destruct (step dec c e) as [c1 o] eqn:E1.
      destruct (run dec c1 es) as [c2 os2] eqn:E2. pair_eq H c' os.
      apply (step_writer_any c e c1 o Hr Hn1) in E1 as (rest1 & A1 & B1 & _ & R1).
      change (acc_of (o :: os2)) with (accepted o ++ acc_of os2).
      rewrite (sent_of_cons e es).
      destruct (st c1) eqn:Es1.
      1:{ pose proof (run_disconnected dec es c1 Es1 Hn2) as [Q1 Q2].
          rewrite E2 in Q1, Q2. cbn [fst snd] in Q1, Q2.
          exists (rest1 ++ sent_of es).
          rewrite (acc_of_quiet _ Q2), app_nil_r, !app_assoc, A1.
          split; [reflexivity|congruence]. }
      all: apply (IH c1 c2 os2 ltac:(congruence) Hn2) in E2 as (rest & A & B);
        rewrite (B1 ltac:(discriminate)) in A;
        exists rest; rewrite <- app_assoc, A, !app_assoc, A1;
        (split; [reflexivity|exact B]).
  Qed.

  (* ---------------------------------------------------------------- *)
  (* C13_writer, schedules under which the connection stays up         *)

  (* send() and write-polls; socket.send accepts any amount, returns 0, or
     EAGAIN; no error flag; no timeout *)
  Definition benign_event (last tmo : Z) (e : event) : Prop :=
    match e with
    | ESend now _ s => now - last <= tmo /\ Forall benign s
    | EPoll now rd wr er soerr s _ =>
      rd = false /\ er = false /\ soerr = false /\ now - last <= tmo /\ Forall benign s
    | EDisconnect _ => False
    | EConnect _ => False
    end.

  Definition silent (o : outs) : Prop :=
    delivered o = [] /\ disc_calls o = 0%nat /\ conn_calls o = 0%nat /\ miss o = false.

  (* equal except for the poller subscription *)
  Definition eqi (a b : conn) : Prop :=
    st a = st b /\ rbuf a = rbuf b /\ wbuf a = wbuf b /\ last_read a = last_read b /\
    timeout a = timeout b /\ reconnect a = reconnect b /\ reuse_fd a = reuse_fd b.

  Lemma eqi_send_subscribe c : eqi (send_subscribe c) c.
  Proof. exact (send_subscribe_fields c). Qed.

  Lemma eqi_resubscribe c : eqi (resubscribe c) c.
  Proof. exact (resubscribe_fields c). Qed.

  Lemma step_writer_benign c e c1 o :
    st c = Connected -> benign_event (last_read c) (timeout c) e ->
    step dec c e = (c1, o) ->
    exists rest,
      eqi c1 (set_wbuf c rest) /\ accepted o ++ rest = wbuf c ++ sent_of [e] /\ silent o.
  Proof.
    intros Hst Hb H.
    destruct e as [now p script|now rd wr er soerr ss rs|now|now]; [| |destruct Hb|destruct Hb].
    - destruct Hb as [Ht Hs]. apply step_send_inv in H as (c0 & H & ->).
      apply try_send_spec in H as (rest & A & B & C & C' & _ & _ & _ & D).
      assert (Hl : st (set_wbuf c (wbuf c ++ frame p)) <> Disconnected)
        by (cbn [st set_wbuf]; congruence).
      destruct (D Hl Ht Hs) as [D1 D2]. exists rest. subst c0.
      unfold sent_of, sent_payloads. cbn [flat_map map concat app]. rewrite app_nil_r.
      split; [exact (eqi_send_subscribe _)|]. repeat split; assumption.
    - destruct Hb as (-> & -> & -> & Ht & Hs). unfold step, step_gen in H; fold (poll_connected dec) in H. rewrite Hst in H.
      rewrite (check_timeout_ok now c Ht) in H. cbv beta iota zeta in H. rewrite Hst in H.
      rewrite andb_false_r in H. cbn [andb] in H. unfold poll_connected, poll_connected_gen in H.
      unfold sent_of, sent_payloads. cbn [flat_map map concat app]. rewrite app_nil_r.
      destruct wr.
      + destruct (try_send now ss c) as [c2 o2] eqn:E2.
        apply try_send_spec in E2 as (rest & A & B & C & C' & _ & _ & _ & D).
        destruct (D ltac:(congruence) Ht Hs) as [D1 D2]. subst c2. cbn [st set_wbuf] in H.
        rewrite Hst in H. cbn [st resubscribe set_interest set_wbuf] in H.
        rewrite Hst in H. pair_eq H c1 o. rewrite out_app_no_out_l.
        exists rest. split; [exact (eqi_resubscribe _)|]. repeat split; assumption.
      + cbv beta iota in H. rewrite Hst in H. pair_eq H c1 o.
        exists (wbuf c). rewrite set_wbuf_same. repeat split.
  Qed.

  Theorem writer_benign es : forall c c' os,
    st c = Connected -> Forall (benign_event (last_read c) (timeout c)) es ->
    run dec c es = (c', os) ->
    exists rest,
      eqi c' (set_wbuf c rest) /\ acc_of os ++ rest = wbuf c ++ sent_of es /\ Forall silent os.
  Proof.
    induction es as [|e es IH]; intros c c' os Hst Hb H; cbn [run] in H.
    - pair_eq H c' os. exists (wbuf c). rewrite set_wbuf_same. cbn. rewrite app_nil_r.
      repeat split. constructor.
    - inversion Hb as [|e' es' Hb1 Hb2]; subst e' es'.
      destruct (step dec c e) as [c1 o] eqn:E1.
      destruct (run dec c1 es) as [c2 os2] eqn:E2. pair_eq H c' os.
      apply (step_writer_benign c e c1 o Hst Hb1) in E1 as (rest1 & Q1 & A1 & S1).
      destruct Q1 as (Q1 & Q2 & Q3 & Q4 & Q5 & Q6 & Q7).
      cbn [st rbuf wbuf last_read timeout reconnect reuse_fd set_wbuf] in Q1, Q2, Q3, Q4, Q5, Q6, Q7.
      assert (Hst1 : st c1 = Connected) by congruence.
      assert (Hb2' : Forall (benign_event (last_read c1) (timeout c1)) es) by (rewrite Q4, Q5; exact Hb2).
      apply (IH c1 c2 os2 Hst1 Hb2') in E2 as (rest & Q & A & S).
      rewrite Q3 in A.
      exists rest. change (acc_of (o :: os2)) with (accepted o ++ acc_of os2).
      rewrite (sent_of_cons e es), <- app_assoc, A, !app_assoc, A1.
      split; [|split; [reflexivity|constructor; assumption]].
      destruct Q as (P1 & P2 & P3 & P4 & P5 & P6 & P7).
      cbn [st rbuf wbuf last_read timeout reconnect reuse_fd set_wbuf] in P1, P2, P3, P4, P5, P6, P7.
      unfold eqi. cbn [st rbuf wbuf last_read timeout reconnect reuse_fd set_wbuf].
      repeat split; congruence.
  Qed.

  (* the form asked for: from an empty write buffer, acc ++ wbuf = sent, the
     connection is still up and nothing else about it changed *)
  Theorem writer_invariant es c c' os :
    st c = Connected -> wbuf c = [] ->
    Forall (benign_event (last_read c) (timeout c)) es ->
    run dec c es = (c', os) ->
    acc_of os ++ wbuf c' = sent_of es /\
    st c' = Connected /\ rbuf c' = rbuf c /\ Forall silent os.
  Proof.
    intros Hst Hw Hb H.
    destruct (writer_benign es c c' os Hst Hb H) as (rest & Q & A & S).
    destruct Q as (P1 & P2 & P3 & _).
    cbn [st rbuf wbuf set_wbuf] in P1, P2, P3.
    rewrite Hw in A. cbn [app] in A. rewrite P1, P2, P3.
    repeat split; assumption.
  Qed.

  (* ---------------------------------------------------------------- *)
  (* failing socket / timeout => disconnect, buffers dropped, one callback *)

  (* bytes one socket.send call returning k takes (the model, like the code,
     treats a positive return as progress; k = 0 is SZero) *)
  Definition amt (k : N) : nat := Nat.max 1 (N.to_nat k).
  Definition total (ks : list N) : nat := fold_right (fun k n => (amt k + n)%nat) 0%nat ks.

  Lemma firstn_add {A} a : forall b (l : list A),
    firstn (a + b) l = firstn a l ++ firstn b (skipn a l).
  Proof.
    induction a as [|a IH]; intros b l; [reflexivity|].
    destruct l as [|x l]; [cbn; now rewrite firstn_nil|].
    cbn [Nat.add firstn skipn app]. now rewrite IH.
  Qed.

  Lemma skipn_add {A} a : forall b (l : list A),
    skipn b (skipn a l) = skipn (a + b) l.
  Proof.
    induction a as [|a IH]; intros b l; [reflexivity|].
    destruct l as [|x l]; [cbn; now rewrite skipn_nil|].
    cbn [Nat.add skipn]. apply IH.
  Qed.

  Lemma send_loop_accepts now ks : forall c tl,
    (total ks < length (wbuf c))%nat ->
    send_loop now (map SAccept ks ++ tl) c =
      (let (c', o) := send_loop now tl (set_wbuf c (skipn (total ks) (wbuf c))) in
       (c', out_app {| accepted := firstn (total ks) (wbuf c); delivered := [];
                       disc_calls := 0; conn_calls := 0; miss := false |} o)).
  Proof.
    induction ks as [|k ks IH]; intros c tl Hlen.
    - cbn [map app total fold_right skipn firstn]. rewrite set_wbuf_same.
      destruct (send_loop now tl c) as [c' o].
      change {| accepted := []; delivered := []; disc_calls := 0; conn_calls := 0; miss := false |} with no_out.
      rewrite out_app_no_out_l. reflexivity.
    - cbn [map app send_loop]. cbn [total fold_right] in Hlen. fold (total ks) in Hlen.
      destruct (wbuf c) as [|x w] eqn:Ew; [cbn in Hlen; lia|].
      assert (Hk : Nat.max 1 (N.to_nat (N.min k (N.of_nat (length (x :: w))))) = amt k)
        by (unfold amt in *; lia).
      rewrite Hk.
      assert (Hl2 : (total ks < length (wbuf (set_wbuf c (skipn (amt k) (x :: w)))))%nat)
        by (cbn [wbuf set_wbuf]; rewrite skipn_length; lia).
      rewrite (IH _ tl Hl2). cbn [wbuf set_wbuf].
      change (set_wbuf (set_wbuf c (skipn (amt k) (x :: w)))
                       (skipn (total ks) (skipn (amt k) (x :: w))))
        with (set_wbuf c (skipn (total ks) (skipn (amt k) (x :: w)))).
      rewrite skipn_add.
      cbn [total fold_right]. fold (total ks).
      destruct (send_loop now tl (set_wbuf c (skipn (amt k + total ks) (x :: w)))) as [c' o].
      unfold out_app. cbn [accepted delivered disc_calls conn_calls miss].
      rewrite (firstn_add (amt k) (total ks) (x :: w)), <- app_assoc. reflexivity.
  Qed.

  Definition disc_out_acc (acc : bytes) : outs :=
    {| accepted := acc; delivered := []; disc_calls := 1; conn_calls := 0; miss := false |}.

  Lemma send_loop_fails now f post c :
    fails f -> wbuf c <> [] -> send_loop now (f :: post) c = disconnect now c.
  Proof.
    intros Hf Hne. cbn [send_loop].
    destruct (wbuf c) as [|x w]; [congruence|].
    destruct f; try reflexivity; destruct Hf.
  Qed.

  Lemma try_send_failure now ks f post c :
    st c = Connected -> now - last_read c <= timeout c -> fails f ->
    (total ks < length (wbuf c))%nat ->
    try_send now (map SAccept ks ++ f :: post) c
    = (dead now c, disc_out_acc (firstn (total ks) (wbuf c))).
  Proof.
    intros Hst Ht Hf Hlen. unfold try_send.
    rewrite (check_timeout_ok now c Ht), Hst.
    rewrite (send_loop_accepts now ks c (f :: post) Hlen).
    assert (Hne : wbuf (set_wbuf c (skipn (total ks) (wbuf c))) <> []).
    { cbn [wbuf set_wbuf]. intros Es. apply (f_equal (@length N)) in Es.
      rewrite skipn_length in Es. cbn in Es. lia. }
    rewrite (send_loop_fails now f post _ Hf Hne).
    rewrite disconnect_live by (cbn [st set_wbuf]; congruence).
    change (dead now (set_wbuf c (skipn (total ks) (wbuf c)))) with (dead now c).
    rewrite out_app_no_out_l. unfold out_app, disc_out_acc, disc_out.
    cbn [accepted delivered disc_calls conn_calls miss]. rewrite app_nil_r. reflexivity.
  Qed.

  Lemma try_send_timeout now script c :
    st c = Connected -> now - last_read c > timeout c ->
    try_send now script c = (dead now c, disc_out).
  Proof.
    intros Hst Ht. unfold try_send, check_timeout.
    rewrite (timed_out_true now c Ht).
    rewrite disconnect_live by congruence.
    destruct (dead_buffers now c) as [_ B2].
    destruct (st (dead now c)); [reflexivity| |];
      rewrite (send_loop_empty now script _ B2); reflexivity.
  Qed.

  (* socket.send fails (returns < 0 or raises a non-EAGAIN error) after having
     accepted some bytes: what was accepted is a prefix of the buffer, then
     onDisconnected once and both buffers empty: the connection is
     DISCONNECTED, or -- reconnecting callback -- a fresh CONNECTING one *)
  Theorem writer_failure_send c now p ks f post :
    st c = Connected -> now - last_read c <= timeout c -> fails f ->
    (total ks < length (wbuf c ++ frame p))%nat ->
    step dec c (ESend now p (map SAccept ks ++ f :: post))
    = (dead now c, disc_out_acc (firstn (total ks) (wbuf c ++ frame p))).
  Proof.
    intros Hst Ht Hf Hlen. unfold step, step_gen; fold (poll_connected dec).
    rewrite (try_send_failure now ks f post (set_wbuf c (wbuf c ++ frame p)) Hst Ht Hf Hlen).
    rewrite (send_subscribe_off _ (dead_not_connected now _)). reflexivity.
  Qed.

  Theorem writer_failure_poll c now rd soerr ks f post rs :
    st c = Connected -> now - last_read c <= timeout c -> fails f ->
    (total ks < length (wbuf c))%nat -> soerr = false ->
    step dec c (EPoll now rd true false soerr (map SAccept ks ++ f :: post) rs)
    = (dead now c, disc_out_acc (firstn (total ks) (wbuf c))).
  Proof.
    intros Hst Ht Hf Hlen ->. unfold step, step_gen; fold (poll_connected dec). rewrite Hst.
    rewrite (check_timeout_ok now c Ht). cbv beta iota zeta. rewrite Hst.
    rewrite andb_false_r. cbn [andb]. unfold poll_connected, poll_connected_gen.
    rewrite (try_send_failure now ks f post c Hst Ht Hf Hlen).
    cbv beta iota. unfold dead. destruct (reconnect c); cbn [st connect cleared];
      rewrite out_app_no_out_l; reflexivity.
  Qed.

  Theorem writer_timeout_send c now p script :
    st c = Connected -> now - last_read c > timeout c ->
    step dec c (ESend now p script) = (dead now c, disc_out).
  Proof.
    intros Hst Ht. unfold step, step_gen; fold (poll_connected dec).
    rewrite (try_send_timeout now script (set_wbuf c (wbuf c ++ frame p)) Hst Ht).
    rewrite (send_subscribe_off _ (dead_not_connected now _)). reflexivity.
  Qed.

  (* a poll after the timeout, no reconnecting callback *)
  Theorem writer_timeout_poll c now rd wr soerr ss rs :
    st c = Connected -> reconnect c = false -> now - last_read c > timeout c ->
    step dec c (EPoll now rd wr false soerr ss rs) = (cleared c, disc_out).
  Proof.
    intros Hst Hr Ht. unfold step, step_gen, check_timeout. rewrite Hst.
    rewrite (timed_out_true now c Ht). cbv zeta.
    rewrite disconnect_live by congruence. unfold dead. rewrite Hr. reflexivity.
  Qed.

  (* ... and with one: the handler goes on after the re-entrant connect() and,
     when the event has the READ or WRITE flag, marks the fresh connection
     CONNECTED at once (onConnected is called) *)
  Theorem timeout_poll_reconnect c now rd wr soerr ss rs :
    st c = Connected -> reconnect c = true -> now - last_read c > timeout c ->
    step dec c (EPoll now rd wr false soerr ss rs) =
      if rd || wr
      then ({| st := Connected; rbuf := []; wbuf := []; last_read := now;
               timeout := timeout c; reconnect := true; interest := Some RWE; reuse_fd := reuse_fd c |},
            out_app disc_out conn_out)
      else (connect now c, disc_out).
  Proof.
    intros Hst Hr Ht. unfold step, step_gen, check_timeout. rewrite Hst.
    rewrite (timed_out_true now c Ht). cbv zeta.
    rewrite disconnect_live by congruence. unfold dead. rewrite Hr.
    cbn [st connect]. rewrite andb_false_r.
    destruct (rd || wr); cbn [rbuf wbuf timeout reconnect connect]; rewrite ?Hr; reflexivity.
  Qed.

End C13W.

(* ------------------------------------------------------------------ *)
(* C13_roundtrip                                                       *)

Section C13RT.
  Variable dec : bytes -> dres.      (* decode oracle of the receiving side *)
  Variable decw : bytes -> dres.     (* oracle of the sender's own read side; irrelevant *)
  Variable payload : N -> bytes.

  Lemma sent_of_stream es ms :
    sent_payloads es = map payload ms -> sent_of es = stream payload ms.
  Proof. intros H. unfold sent_of, stream. rewrite H, map_map. reflexivity. Qed.

  (* Messages ms are handed to send() on a connection that is then driven by
     ANY event sequence (partial sends, EAGAIN, errors, timeouts, ...).  Take
     the bytes the socket accepted so far, cut them into chunks in any way and
     feed them to a reader: it delivers [firstn k ms], where k whole frames and
     a strict prefix of frame k have been accepted; and if the sender is still
     up with an empty write buffer, it delivers exactly ms and holds nothing. *)
  Theorem roundtrip now es ms cw cw' os cs cr :
    wbuf cw = [] -> reconnect cw = false -> Forall no_connect es ->
    sent_payloads es = map payload ms ->
    Forall (good dec payload) ms ->
    run decw cw es = (cw', os) ->
    concat cs = acc_of os -> rbuf cr = [] ->
    (exists k tail,
       (k <= length ms)%nat /\
       acc_of os = stream payload (firstn k ms) ++ tail /\
       next_frame_prefix payload tail (skipn k ms) /\
       feed_all dec now cr cs = (set_rbuf cr tail, mk_out (firstn k ms))) /\
    (st cw' <> Disconnected -> wbuf cw' = [] -> feed_all dec now cr cs = (cr, mk_out ms)).
  Proof.
    intros Hw Hrc Hnc Hp Hg Hrun Hcs Hr.
    destruct (writer_any decw es cw cw' os Hrc Hnc Hrun) as (rest & A & B).
    rewrite Hw, (sent_of_stream es ms Hp) in A. cbn [app] in A.
    split.
    - rewrite <- Hcs in A |- *.
      exact (reader_prefix dec payload now ms cs rest cr Hg Hr A).
    - intros Hst Hw'. rewrite (B Hst) in Hw'. subst rest. rewrite app_nil_r in A.
      rewrite <- Hcs in A.
      exact (reader_complete dec payload now ms cs cr Hg Hr A).
  Qed.

End C13RT.

(* ------------------------------------------------------------------ *)
(* concrete instances: the hypotheses of every theorem are satisfiable  *)
(* and the model computes what the theorem says                        *)

Definition ex_payload (m : N) : bytes :=
  match m with 1%N => [10; 11; 12]%N | 2%N => [20; 21]%N | _ => [] end.

(* [66] is a payload that fails to decode *)
Definition ex_dec : bytes -> dres :=
  table_dec [([10; 11; 12]%N, Some 1%N); ([20; 21]%N, Some 2%N); ([66]%N, None)].

Definition ex_c0 : conn := init_conn 0 10 false false.
(* the same connection with a reconnecting onDisconnected callback *)
Definition ex_c1 : conn := init_conn 0 10 true false.

Ltac ex_arith := vm_compute; first [lia | discriminate | reflexivity].
Ltac ex_good := repeat (apply Forall_cons; [split; reflexivity|]); apply Forall_nil.

Example ex_stream :
  stream ex_payload [1; 2]%N = [3; 0; 0; 0; 10; 11; 12; 2; 0; 0; 0; 20; 21]%N.
Proof. vm_compute. reflexivity. Qed.

(* three chunks, both cuts inside a length field *)
Definition ex_chunks : list bytes := [[3; 0]; [0; 0; 10; 11; 12; 2; 0; 0]; [0; 20; 21]]%N.

Example ex_reader_complete :
  feed_all ex_dec 0 ex_c0 ex_chunks = (ex_c0, mk_out [1; 2]%N).
Proof. apply (reader_complete ex_dec ex_payload); [ex_good|reflexivity|reflexivity]. Qed.

Example ex_reader_complete_computed :
  feed_all ex_dec 0 ex_c0 ex_chunks = (ex_c0, mk_out [1; 2]%N).
Proof. vm_compute. reflexivity. Qed.

(* a prefix of the stream that ends inside the second length field *)
Example ex_reader_prefix :
  exists k tail,
    (k <= 2)%nat /\
    concat [[3; 0]; [0; 0; 10; 11; 12; 2; 0]]%N = stream ex_payload (firstn k [1; 2]%N) ++ tail /\
    next_frame_prefix ex_payload tail (skipn k [1; 2]%N) /\
    feed_all ex_dec 0 ex_c0 [[3; 0]; [0; 0; 10; 11; 12; 2; 0]]%N
    = (set_rbuf ex_c0 tail, mk_out (firstn k [1; 2]%N)).
Proof.
  apply (reader_prefix ex_dec ex_payload 0 [1; 2]%N _ [0; 0; 20; 21]%N);
    [ex_good|reflexivity|reflexivity].
Qed.

Example ex_reader_prefix_any :
  feed_all ex_dec 0 ex_c0 [[3; 0]; [0; 0; 10; 11; 12; 2; 0]]%N
  = (set_rbuf ex_c0 [2; 0]%N, mk_out [1]%N).
Proof.
  apply (reader_prefix_any ex_dec ex_payload 0 [1; 2]%N _ 1%nat [2; 0]%N);
    [ex_good|reflexivity|cbn; lia|reflexivity|].
  exists [0; 0; 20; 21]%N. split; [discriminate|reflexivity].
Qed.

Definition ex_polls : list (Z * bytes) :=
  [(5, [3; 0]%N); (9, [0; 0; 10; 11; 12; 2; 0; 0]%N); (14, [0; 20; 21]%N)].

Example ex_reader_run_complete :
  exists c' os,
    run ex_dec ex_c0 (map poll_event ex_polls) = (c', os) /\
    st c' = Connected /\ rbuf c' = [] /\ wbuf c' = wbuf ex_c0 /\
    sum_outs os = mk_out [1; 2]%N.
Proof.
  apply (reader_run_complete ex_dec ex_payload); [ex_good|reflexivity|reflexivity| |reflexivity].
  cbn. repeat split; try discriminate; lia.
Qed.

Example ex_reader_run_computed :
  run ex_dec ex_c0 (map poll_event ex_polls)
  = (set_last_read ex_c0 14, [mk_out []; mk_out [1%N]; mk_out [2%N]]).
Proof. vm_compute. reflexivity. Qed.

Example ex_step_poll_is_feed :
  step ex_dec ex_c0 (EPoll 3 true true false false [SAccept 5]
                       (chunks_script [[3; 0; 0]; [0; 10; 11; 12; 2]]%N ++ [REagain]))
  = feed ex_dec 3 (set_last_read (set_interest ex_c0 (Some (RE false))) 3) [3; 0; 0; 0; 10; 11; 12; 2]%N.
Proof.
  apply (step_poll_is_feed ex_dec ex_c0 3 true [SAccept 5] [[3; 0; 0]; [0; 10; 11; 12; 2]]%N [REagain]).
  - reflexivity.
  - cbn. lia.
  - reflexivity.
  - repeat constructor; discriminate.
  - exact I.
Qed.

(* message 1, then a frame with length field -1, then garbage *)
Example ex_bad_negative :
  parse_all ex_dec 7 (set_rbuf ex_c0 ([3; 0; 0; 0; 10; 11; 12] ++ [255; 255; 255; 255] ++ [9; 9])%N)
  = (cleared ex_c0, disc_delivering [1%N]).
Proof.
  apply (bad_frame_disconnects ex_dec ex_payload 7
           (set_rbuf ex_c0 ([3; 0; 0; 0; 10; 11; 12] ++ [255; 255; 255; 255] ++ [9; 9])%N)
           [1%N] [255; 255; 255; 255]%N [9; 9]%N);
    [ex_good|reflexivity| |reflexivity].
  left. split; [cbn; lia|vm_compute; reflexivity].
Qed.

(* message 1, then an undecodable frame, then message 2, which is never
   delivered; here the callback reconnects: fresh CONNECTING connection *)
Example ex_bad_undecodable :
  parse_all ex_dec 7 (set_rbuf ex_c1 (stream ex_payload [1%N] ++ frame [66%N] ++ stream ex_payload [2%N]))
  = (connect 7 ex_c1, disc_delivering [1%N]).
Proof.
  apply (bad_frame_disconnects ex_dec ex_payload 7
           (set_rbuf ex_c1 (stream ex_payload [1%N] ++ frame [66%N] ++ stream ex_payload [2%N]))
           [1%N] (frame [66%N]) (stream ex_payload [2%N]));
    [ex_good|reflexivity| |reflexivity].
  right. exists [66%N]. repeat split.
Qed.

Example ex_bad_frame_step :
  step ex_dec (set_rbuf ex_c0 [3; 0]%N)
       (EPoll 4 true false false false []
          (chunks_script [[0; 0; 10; 11]; [12; 1; 0; 0; 0; 66; 2; 0]]%N ++ []))
  = (cleared (set_last_read ex_c0 4), disc_delivering [1%N]).
Proof.
  apply (bad_frame_step ex_dec ex_payload (set_rbuf ex_c0 [3; 0]%N) 4 [1%N] (frame [66%N]) [2; 0]%N).
  - ex_good.
  - reflexivity.
  - cbn. lia.
  - repeat constructor; discriminate.
  - exact I.
  - right. exists [66%N]. repeat split.
  - reflexivity.
Qed.

Example ex_run_disconnected :
  Forall quiet (snd (run ex_dec (cleared ex_c1)
     [ESend 1 [10; 11; 12]%N [SAccept 3];
      EPoll 2 true true false false [SAccept 9] [RChunk [3; 0; 0; 0; 10; 11; 12]%N false];
      EDisconnect 3])).
Proof. apply run_disconnected; [reflexivity|repeat constructor]. Qed.

(* writer: two sends and a write-poll, short writes, a zero return, EAGAIN *)
Definition ex_wevents : list event :=
  [ESend 1 (ex_payload 1) [SAccept 2; SEagain];
   ESend 2 (ex_payload 2) [SZero];
   EPoll 3 false true false false [SAccept 3; SAccept 100] []].

Example ex_writer_invariant :
  forall c' os, run ex_dec ex_c0 ex_wevents = (c', os) ->
    acc_of os ++ wbuf c' = sent_of ex_wevents /\
    st c' = Connected /\ rbuf c' = rbuf ex_c0 /\ Forall silent os.
Proof.
  intros c' os H. apply (writer_invariant ex_dec ex_wevents ex_c0 c' os); try reflexivity; try exact H.
  repeat constructor; cbn; lia.
Qed.

Example ex_writer_computed :
  run ex_dec ex_c0 ex_wevents
  = (set_interest ex_c0 (Some (RE false)),
     [{| accepted := [3; 0]%N; delivered := []; disc_calls := 0; conn_calls := 0; miss := false |};
      no_out;
      {| accepted := [0; 0; 10; 11; 12; 2; 0; 0; 0; 20; 21]%N; delivered := []; disc_calls := 0; conn_calls := 0; miss := false |}]).
Proof. vm_compute. reflexivity. Qed.

(* any schedule: the second send hits a socket error after 3 more bytes *)
Definition ex_wevents_fail : list event :=
  [ESend 1 (ex_payload 1) [SAccept 2; SEagain];
   ESend 2 (ex_payload 2) [SAccept 3; SErr];
   ESend 3 (ex_payload 1) [SAccept 50]].

Example ex_writer_any :
  forall c' os, run ex_dec ex_c0 ex_wevents_fail = (c', os) ->
    exists rest, acc_of os ++ rest = wbuf ex_c0 ++ sent_of ex_wevents_fail /\
                 (st c' <> Disconnected -> wbuf c' = rest).
Proof.
  intros c' os H.
  exact (writer_any ex_dec ex_wevents_fail ex_c0 c' os eq_refl ltac:(repeat constructor) H).
Qed.

Example ex_writer_any_computed :
  acc_of (snd (run ex_dec ex_c0 ex_wevents_fail)) = [3; 0; 0; 0; 10]%N /\
  st (fst (run ex_dec ex_c0 ex_wevents_fail)) = Disconnected.
Proof. vm_compute. split; reflexivity. Qed.

Example ex_writer_failure_send :
  step ex_dec (set_wbuf ex_c0 [0; 0; 10; 11; 12]%N) (ESend 2 (ex_payload 2) (map SAccept [3; 0]%N ++ SErr :: [SAccept 9]))
  = (cleared ex_c0, disc_out_acc [0; 0; 10; 11]%N).
Proof.
  apply (writer_failure_send ex_dec (set_wbuf ex_c0 [0; 0; 10; 11; 12]%N) 2 (ex_payload 2) [3; 0]%N SErr [SAccept 9]).
  - reflexivity.
  - ex_arith.
  - exact I.
  - ex_arith.
Qed.

(* the same failure with the reconnecting callback: a fresh CONNECTING
   connection, nothing of the old write buffer in it *)
Example ex_writer_failure_poll :
  step ex_dec (set_wbuf ex_c1 [0; 0; 10; 11; 12]%N)
       (EPoll 2 true true false false (map SAccept [2]%N ++ SNeg :: []) [RChunk [1]%N false])
  = (connect 2 ex_c1, disc_out_acc [0; 0]%N).
Proof.
  apply (writer_failure_poll ex_dec (set_wbuf ex_c1 [0; 0; 10; 11; 12]%N) 2 true false [2]%N SNeg []).
  - reflexivity.
  - ex_arith.
  - exact I.
  - ex_arith.
  - reflexivity.
Qed.

Example ex_writer_timeout_send :
  step ex_dec (set_wbuf ex_c0 [0; 0; 10]%N) (ESend 11 (ex_payload 2) [SAccept 9])
  = (cleared ex_c0, disc_out).
Proof. apply (writer_timeout_send ex_dec (set_wbuf ex_c0 [0; 0; 10]%N)); [reflexivity|ex_arith]. Qed.

Example ex_writer_timeout_poll :
  step ex_dec (set_wbuf ex_c0 [0; 0; 10]%N) (EPoll 11 true true false false [SAccept 9] [RChunk [1]%N false])
  = (cleared ex_c0, disc_out).
Proof.
  apply (writer_timeout_poll ex_dec (set_wbuf ex_c0 [0; 0; 10]%N)); [reflexivity|reflexivity|ex_arith].
Qed.

Example ex_timeout_poll_reconnect :
  step ex_dec (set_wbuf (set_rbuf ex_c1 [3; 0]%N) [0; 0; 10]%N)
       (EPoll 11 true false false true [] [RChunk [1]%N false])
  = ({| st := Connected; rbuf := []; wbuf := []; last_read := 11; timeout := 10; reconnect := true;
        interest := Some RWE; reuse_fd := false |},
     out_app disc_out conn_out).
Proof.
  apply (timeout_poll_reconnect ex_dec (set_wbuf (set_rbuf ex_c1 [3; 0]%N) [0; 0; 10]%N) 11 true false);
    [reflexivity|reflexivity|ex_arith].
Qed.

(* roundtrip: the writer of ex_wevents_fail got 5 bytes out before the error;
   cut as 1 + 4 they make no complete frame; the writer of ex_wevents got
   everything out, cut as in ex_chunks it is both messages *)
Example ex_roundtrip_partial :
  exists k tail,
    (k <= 3)%nat /\
    acc_of (snd (run ex_dec ex_c0 ex_wevents_fail)) = stream ex_payload (firstn k [1; 2; 1]%N) ++ tail /\
    next_frame_prefix ex_payload tail (skipn k [1; 2; 1]%N) /\
    feed_all ex_dec 0 ex_c0 [[3]; [0; 0; 0; 10]]%N = (set_rbuf ex_c0 tail, mk_out (firstn k [1; 2; 1]%N)).
Proof.
  destruct (run ex_dec ex_c0 ex_wevents_fail) as [c' os] eqn:E.
  apply (roundtrip ex_dec ex_dec ex_payload 0 ex_wevents_fail [1; 2; 1]%N ex_c0 c' os
                   [[3]; [0; 0; 0; 10]]%N ex_c0); try reflexivity; try exact E.
  - repeat constructor.
  - ex_good.
  - apply (f_equal snd) in E. cbn [snd] in E. rewrite <- E. vm_compute. reflexivity.
Qed.

Example ex_roundtrip_complete :
  feed_all ex_dec 0 ex_c0 ex_chunks = (ex_c0, mk_out [1; 2]%N).
Proof.
  destruct (run ex_dec ex_c0 ex_wevents) as [c' os] eqn:E.
  assert (E' := E). vm_compute in E'. injection E' as <- <-.
  assert (Hg : Forall (good ex_dec ex_payload) [1; 2]%N) by ex_good.
  assert (Hn : Forall (no_connect) ex_wevents) by (repeat constructor).
  destruct (roundtrip ex_dec ex_dec ex_payload 0 ex_wevents [1; 2]%N ex_c0 _ _ ex_chunks ex_c0
              eq_refl eq_refl Hn eq_refl Hg E eq_refl eq_refl) as [_ H].
  apply H; [discriminate|reflexivity].
Qed.

(* ---- reconnect ---- *)

(* the connection holds 2 stray bytes; one read burst brings message 1 whole,
   the first two header bytes of message 2, then EOF; the callback reconnects *)
Definition ex_old : conn := set_wbuf ex_c1 [7; 7; 7]%N.
Definition ex_burst : event :=
  EPoll 3 true false false false []
    (chunks_script [[3; 0; 0; 0; 10]; [11; 12; 2; 0]]%N ++ [RChunk [] false]).

Example ex_read_burst_disconnect :
  step ex_dec ex_old ex_burst = (connect 3 ex_c1, disc_out).
Proof.
  apply (read_burst_disconnect ex_dec ex_old 3 [[3; 0; 0; 0; 10]; [11; 12; 2; 0]]%N [RChunk [] false]).
  - reflexivity.
  - ex_arith.
  - repeat constructor; discriminate.
  - exact I.
Qed.

Example ex_disconnect_clears :
  forall c' o, step ex_dec ex_old ex_burst = (c', o) -> rbuf c' = [] /\ wbuf c' = [].
Proof.
  intros c' o H. apply (step_disconnect_clears ex_dec ex_old ex_burst c' o H).
  rewrite ex_read_burst_disconnect in H. injection H as _ <-. cbn. lia.
Qed.

(* ... and the new connection receives its own stream exactly: message 1 of the
   dead connection is not delivered, its 2 header bytes do not mis-frame *)
Example ex_reader_after_reconnect :
  exists c' os,
    run ex_dec (connect 3 ex_c1) (EPoll 4 false true false false [] [] :: map poll_event ex_polls) = (c', os) /\
    st c' = Connected /\ rbuf c' = [] /\ sum_outs os = connected_delivering [1; 2]%N.
Proof.
  assert (Hg : Forall (good ex_dec ex_payload) [1; 2]%N) by ex_good.
  destruct (reader_after_reconnect ex_dec ex_payload [1; 2]%N ex_polls ex_old ex_burst
              (connect 3 ex_c1) disc_out Hg ex_read_burst_disconnect ltac:(cbn; lia) eq_refl) as [H _].
  apply (H eq_refl 4 false true [] []); [ex_arith|reflexivity|].
  cbn. repeat split; try discriminate; lia.
Qed.

Example ex_reconnect_scenario_computed :
  run ex_dec ex_old (ex_burst :: EPoll 4 false true false false [] [] :: map poll_event ex_polls)
  = (set_last_read (init_conn 0 10 true false) 14,
     [disc_out; conn_out; mk_out []; mk_out [1%N]; mk_out [2%N]]).
Proof. vm_compute. reflexivity. Qed.

Example ex_reader_after_connect :
  exists c' os,
    run ex_dec (cleared ex_c0)
        (EConnect 2 :: EPoll 4 true false false false [] [RChunk [9]%N false] :: map poll_event ex_polls)
      = (c', os) /\
    st c' = Connected /\ rbuf c' = [] /\ sum_outs os = connected_delivering [1; 2]%N.
Proof.
  apply (reader_after_connect ex_dec ex_payload [1; 2]%N ex_polls (cleared ex_c0) 2 4 true false [] [RChunk [9]%N false]).
  - ex_good.
  - ex_arith.
  - reflexivity.
  - cbn. repeat split; try discriminate; lia.
  - reflexivity.
Qed.

(* ------------------------------------------------------------------ *)
(* The statements exported by Props/C13.v, with the hypotheses on the   *)
(* messages and the frame stream written out.                          *)

Section C13Final.
  Variable dec : bytes -> dres.
  Variable payload : N -> bytes.

  Lemma goods_Forall ms :
    (forall m, In m ms -> dec (payload m) = DOk m /\ zlen (payload m) < two31) ->
    Forall (good dec payload) ms.
  Proof. intros H. apply Forall_forall. exact H. Qed.

  Lemma C13_reader_thm now ms cs c :
    (forall m, In m ms -> dec (payload m) = DOk m /\ zlen (payload m) < two31) ->
    rbuf c = [] ->
    concat cs = concat (map (fun m => frame (payload m)) ms) ->
    feed_all dec now c cs =
      (c, {| accepted := []; delivered := ms; disc_calls := 0; conn_calls := 0; miss := false |}).
  Proof. intros H. exact (reader_complete dec payload now ms cs c (goods_Forall ms H)). Qed.

  Lemma C13_reader_prefix_thm now ms cs rest c :
    (forall m, In m ms -> dec (payload m) = DOk m /\ zlen (payload m) < two31) ->
    rbuf c = [] ->
    concat cs ++ rest = concat (map (fun m => frame (payload m)) ms) ->
    exists k tail,
      (k <= length ms)%nat /\
      concat cs = concat (map (fun m => frame (payload m)) (firstn k ms)) ++ tail /\
      match skipn k ms with
      | [] => tail = []
      | m :: _ => exists s, s <> [] /\ tail ++ s = frame (payload m)
      end /\
      feed_all dec now c cs =
        (set_rbuf c tail,
         {| accepted := []; delivered := firstn k ms; disc_calls := 0; conn_calls := 0; miss := false |}).
  Proof. intros H. exact (reader_prefix dec payload now ms cs rest c (goods_Forall ms H)). Qed.

  Lemma C13_reader_prefix_unique_thm now ms cs k tail c :
    (forall m, In m ms -> dec (payload m) = DOk m /\ zlen (payload m) < two31) ->
    rbuf c = [] -> (k <= length ms)%nat ->
    concat cs = concat (map (fun m => frame (payload m)) (firstn k ms)) ++ tail ->
    match skipn k ms with
    | [] => tail = []
    | m :: _ => exists s, s <> [] /\ tail ++ s = frame (payload m)
    end ->
    feed_all dec now c cs =
      (set_rbuf c tail,
       {| accepted := []; delivered := firstn k ms; disc_calls := 0; conn_calls := 0; miss := false |}).
  Proof. intros H. exact (reader_prefix_any dec payload now ms cs k tail c (goods_Forall ms H)). Qed.

  Lemma C13_reader_on_run_thm ms (ps : list (Z * bytes)) c :
    (forall m, In m ms -> dec (payload m) = DOk m /\ zlen (payload m) < two31) ->
    st c = Connected -> rbuf c = [] ->
    polls_ok (last_read c) (timeout c) ps ->
    concat (map snd ps) = concat (map (fun m => frame (payload m)) ms) ->
    exists c' os,
      run dec c (map (fun p => EPoll (fst p) true false false false [] [RChunk (snd p) false]) ps)
        = (c', os) /\
      st c' = Connected /\ rbuf c' = [] /\ wbuf c' = wbuf c /\
      fold_right out_app no_out os =
        {| accepted := []; delivered := ms; disc_calls := 0; conn_calls := 0; miss := false |}.
  Proof. intros H. exact (reader_run_complete dec payload ms ps c (goods_Forall ms H)). Qed.

  Lemma C13_bad_frame_disconnects_thm now c ms bad rest :
    (forall m, In m ms -> dec (payload m) = DOk m /\ zlen (payload m) < two31) ->
    st c = Connected ->
    ((4 <= length bad)%nat /\ unpack_i bad < 0) \/
    (exists d, bad = pack_i (zlen d) ++ d /\ zlen d < two31 /\ dec d = DFail) ->
    rbuf c = concat (map (fun m => frame (payload m)) ms) ++ bad ++ rest ->
    parse_all dec now c =
      (if reconnect c then connect now c else cleared c,
       {| accepted := []; delivered := ms; disc_calls := 1; conn_calls := 0; miss := false |}).
  Proof. intros H. exact (bad_frame_disconnects dec payload now c ms bad rest (goods_Forall ms H)). Qed.

  Lemma C13_bad_frame_disconnects_step_thm c now ms bad rest bs tl :
    (forall m, In m ms -> dec (payload m) = DOk m /\ zlen (payload m) < two31) ->
    st c = Connected -> now - last_read c <= timeout c ->
    Forall (fun b => b <> []) bs ->
    match tl with [] => True | REagain :: _ => True | _ => False end ->
    ((4 <= length bad)%nat /\ unpack_i bad < 0) \/
    (exists d, bad = pack_i (zlen d) ++ d /\ zlen d < two31 /\ dec d = DFail) ->
    rbuf c ++ concat bs = concat (map (fun m => frame (payload m)) ms) ++ bad ++ rest ->
    step dec c (EPoll now true false false false [] (map (fun b => RChunk b false) bs ++ tl)) =
      (if reconnect c then connect now c else cleared (set_last_read c now),
       {| accepted := []; delivered := ms; disc_calls := 1; conn_calls := 0; miss := false |}).
  Proof. intros H. exact (bad_frame_step dec payload c now ms bad rest bs tl (goods_Forall ms H)). Qed.

  Lemma C13_reader_after_reconnect_thm ms (ps : list (Z * bytes)) c e c1 o1 :
    (forall m, In m ms -> dec (payload m) = DOk m /\ zlen (payload m) < two31) ->
    step dec c e = (c1, o1) -> (0 < disc_calls o1)%nat ->
    concat (map snd ps) = concat (map (fun m => frame (payload m)) ms) ->
    (st c1 = Connecting ->
     forall t0 rd wr ss rs,
       t0 - last_read c1 <= timeout c1 -> rd || wr = true ->
       polls_ok t0 (timeout c1) ps ->
       exists c' os,
         run dec c1 (EPoll t0 rd wr false false ss rs ::
                     map (fun p => EPoll (fst p) true false false false [] [RChunk (snd p) false]) ps)
           = (c', os) /\
         st c' = Connected /\ rbuf c' = [] /\
         fold_right out_app no_out os =
           {| accepted := []; delivered := ms; disc_calls := 0; conn_calls := 1; miss := false |}) /\
    (st c1 = Connected ->
     polls_ok (last_read c1) (timeout c1) ps ->
     exists c' os,
       run dec c1 (map (fun p => EPoll (fst p) true false false false [] [RChunk (snd p) false]) ps)
         = (c', os) /\
       st c' = Connected /\ rbuf c' = [] /\
       fold_right out_app no_out os =
         {| accepted := []; delivered := ms; disc_calls := 0; conn_calls := 0; miss := false |}).
  Proof.
    intros H. exact (reader_after_reconnect dec payload ms ps c e c1 o1 (goods_Forall ms H)).
  Qed.

  Lemma C13_reader_after_connect_thm ms (ps : list (Z * bytes)) c now t0 rd wr ss rs :
    (forall m, In m ms -> dec (payload m) = DOk m /\ zlen (payload m) < two31) ->
    t0 - now <= timeout c -> rd || wr = true ->
    polls_ok t0 (timeout c) ps ->
    concat (map snd ps) = concat (map (fun m => frame (payload m)) ms) ->
    exists c' os,
      run dec c (EConnect now :: EPoll t0 rd wr false false ss rs ::
                 map (fun p => EPoll (fst p) true false false false [] [RChunk (snd p) false]) ps)
        = (c', os) /\
      st c' = Connected /\ rbuf c' = [] /\
      fold_right out_app no_out os =
        {| accepted := []; delivered := ms; disc_calls := 0; conn_calls := 1; miss := false |}.
  Proof.
    intros H. exact (reader_after_connect dec payload ms ps c now t0 rd wr ss rs (goods_Forall ms H)).
  Qed.

  Variable decw : bytes -> dres.

  Lemma C13_roundtrip_thm now es ms cw cw' os cs cr :
    wbuf cw = [] -> reconnect cw = false ->
    Forall (fun e => match e with EConnect _ => False | _ => True end) es ->
    flat_map (fun e => match e with ESend _ p _ => [p] | _ => [] end) es = map payload ms ->
    (forall m, In m ms -> dec (payload m) = DOk m /\ zlen (payload m) < two31) ->
    run decw cw es = (cw', os) ->
    concat cs = concat (map accepted os) -> rbuf cr = [] ->
    (exists k tail,
       (k <= length ms)%nat /\
       concat (map accepted os) = concat (map (fun m => frame (payload m)) (firstn k ms)) ++ tail /\
       match skipn k ms with
       | [] => tail = []
       | m :: _ => exists s, s <> [] /\ tail ++ s = frame (payload m)
       end /\
       feed_all dec now cr cs =
         (set_rbuf cr tail,
          {| accepted := []; delivered := firstn k ms; disc_calls := 0; conn_calls := 0; miss := false |})) /\
    (st cw' <> Disconnected -> wbuf cw' = [] ->
     feed_all dec now cr cs =
       (cr, {| accepted := []; delivered := ms; disc_calls := 0; conn_calls := 0; miss := false |})).
  Proof.
    intros Hw Hrc Hnc Hp H.
    exact (roundtrip dec decw payload now es ms cw cw' os cs cr Hw Hrc Hnc Hp (goods_Forall ms H)).
  Qed.

End C13Final.

(* ------------------------------------------------------------------ *)
(* C13_write_interest: the poller subscription                         *)

(* the subscription is what the state of the connection needs:
   DISCONNECTED: nothing subscribed; CONNECTING: READ|WRITE|ERROR (connect completion is reported
   as writability); CONNECTED: READ and ERROR, and WRITE whenever bytes wait in the write buffer *)
Definition sub_ok (c : conn) : Prop :=
  match st c with
  | Disconnected => interest c = None
  | Connecting => interest c = Some RWE
  | Connected =>
    exists m, interest c = Some m /\ m_rd m = true /\ m_er m = true /\ (wbuf c <> [] -> m_wr m = true)
  end.

(* sub_ok without the clause about the write buffer (what holds inside send(), between
   `self.__writeBuffer += data` and the subscribe at its end) *)
Definition sub_ok0 (c : conn) : Prop :=
  match st c with
  | Disconnected => interest c = None
  | Connecting => interest c = Some RWE
  | Connected => exists m, interest c = Some m /\ m_rd m = true /\ m_er m = true
  end.

Lemma sub_ok_weaken c : sub_ok c -> sub_ok0 c.
Proof.
  unfold sub_ok, sub_ok0. destruct (st c); try exact (fun H => H).
  intros (m & A & B & C & _). exists m. repeat split; assumption.
Qed.

(* [c'] comes from [c] by steps that leave state and subscription alone and do not grow the write
   buffer, or by a disconnect() *)
Definition keeps (c c' : conn) : Prop :=
  (st c' = st c /\ interest c' = interest c /\ (wbuf c' <> [] -> wbuf c <> [])) \/
  (sub_ok c' /\ st c' <> Connected).

Lemma keeps_refl c : keeps c c.
Proof. left. repeat split. exact (fun H => H). Qed.

Lemma sub_ok_not_connected_eq c c' :
  st c' = st c -> interest c' = interest c -> st c <> Connected -> sub_ok c -> sub_ok c'.
Proof.
  unfold sub_ok. intros Hs Hi Hn. rewrite Hs, Hi.
  destruct (st c); [exact (fun H => H)|exact (fun H => H)|congruence].
Qed.

Lemma keeps_trans a b c : keeps a b -> keeps b c -> keeps a c.
Proof.
  intros [(A1 & A2 & A3)|(A1 & A2)] [(B1 & B2 & B3)|(B1 & B2)].
  - left. repeat split; [congruence|congruence|]. intros H. exact (A3 (B3 H)).
  - right. split; assumption.
  - right. split; [|congruence].
    exact (sub_ok_not_connected_eq b c B1 B2 A2 A1).
  - right. split; assumption.
Qed.

Lemma keeps_sub_ok c c' : sub_ok c -> keeps c c' -> sub_ok c'.
Proof.
  intros H [(A1 & A2 & A3)|(A1 & _)]; [|exact A1].
  unfold sub_ok in *. rewrite A1, A2.
  destruct (st c); try exact H.
  destruct H as (m & B1 & B2 & B3 & B4). exists m. repeat split; try assumption.
  intros Hw. exact (B4 (A3 Hw)).
Qed.

Lemma keeps_sub_ok0 c c' : sub_ok0 c -> keeps c c' -> sub_ok0 c'.
Proof.
  intros H [(A1 & A2 & A3)|(A1 & _)]; [|exact (sub_ok_weaken c' A1)].
  unfold sub_ok0 in *. rewrite A1, A2. exact H.
Qed.

Lemma disconnect_keeps now c : keeps c (fst (disconnect now c)).
Proof.
  right. unfold disconnect, sub_ok.
  destruct (st c); destruct (reconnect c); cbn; split; try reflexivity; discriminate.
Qed.

Lemma disconnect_sub_ok now c : sub_ok (fst (disconnect now c)).
Proof. unfold disconnect, sub_ok. destruct (st c); destruct (reconnect c); cbn; reflexivity. Qed.

Lemma check_timeout_keeps now c : keeps c (fst (check_timeout now c)).
Proof.
  unfold check_timeout. destruct (now - last_read c >? timeout c).
  - apply disconnect_keeps.
  - apply keeps_refl.
Qed.

Lemma send_loop_keeps now script : forall c, keeps c (fst (send_loop now script c)).
Proof.
  induction script as [|r script IH]; intros c; cbn [send_loop].
  - destruct (wbuf c); apply keeps_refl.
  - destruct (wbuf c) as [|x w] eqn:Ew; [apply keeps_refl|].
    destruct r as [k| | | |]; try apply keeps_refl; try apply disconnect_keeps.
    remember (Nat.max 1 (N.to_nat (N.min k (N.of_nat (length (x :: w)))))) as k' eqn:Ek.
    pose proof (IH (set_wbuf c (skipn k' (x :: w)))) as K.
    destruct (send_loop now script (set_wbuf c (skipn k' (x :: w)))) as [c2 o2]. cbn [fst] in *.
    refine (keeps_trans c _ c2 _ K).
    left. cbn [st interest wbuf set_wbuf]. repeat split. intros _. rewrite Ew. discriminate.
Qed.

Lemma try_send_keeps now script c : keeps c (fst (try_send now script c)).
Proof.
  unfold try_send. pose proof (check_timeout_keeps now c) as K1.
  destruct (check_timeout now c) as [c1 o1]. cbn [fst] in K1.
  destruct (st c1); [exact K1| |];
    (pose proof (send_loop_keeps now script c1) as K2;
     destruct (send_loop now script c1) as [c2 o2]; cbn [fst] in *;
     exact (keeps_trans _ _ _ K1 K2)).
Qed.

Lemma read_loop_keeps now rs : forall c, keeps c (fst (read_loop now rs c)).
Proof.
  induction rs as [|r rs IH]; intros c; cbn [read_loop]; [apply keeps_refl|].
  destruct r as [b soerr| |]; [|apply keeps_refl|apply disconnect_keeps].
  destruct soerr; [apply disconnect_keeps|].
  destruct b as [|x b]; [apply disconnect_keeps|].
  refine (keeps_trans c _ _ _ (IH _)).
  left. cbn [st interest wbuf set_rbuf]. repeat split. exact (fun H => H).
Qed.

Lemma parse_loop_keeps dec now fuel : forall c, keeps c (fst (parse_loop dec now fuel c)).
Proof.
  induction fuel as [|f IH]; intros c; cbn [parse_loop]; [apply keeps_refl|].
  destruct (parse_one dec now c) as [c1 r] eqn:E1. apply parse_one_cases in E1.
  destruct r as [|id| |].
  - subst c1. apply keeps_refl.
  - destruct E1 as [b ->]. pose proof (IH (set_rbuf c b)) as K.
    destruct (parse_loop dec now f (set_rbuf c b)) as [c2 o2]. cbn [fst] in *.
    refine (keeps_trans c _ c2 _ K).
    left. cbn [st interest wbuf set_rbuf]. repeat split. exact (fun H => H).
  - subst c1. cbn [fst]. apply disconnect_keeps.
  - subst c1. apply keeps_refl.
Qed.

Lemma sub_ok_set_last_read c t : sub_ok c -> sub_ok (set_last_read c t).
Proof. exact (fun H => H). Qed.

Lemma send_subscribe_sub_ok c : sub_ok0 c -> sub_ok (send_subscribe c).
Proof.
  intros H. unfold send_subscribe. destruct (st c) eqn:Es.
  - unfold sub_ok, sub_ok0 in *. rewrite Es in *. exact H.
  - unfold sub_ok, sub_ok0 in *. rewrite Es in *. exact H.
  - destruct (wbuf c) as [|x w] eqn:Ew.
    + unfold sub_ok, sub_ok0 in *. rewrite Es in *. destruct H as (m & A & B & C).
      exists m. repeat split; try assumption. intros Hn. congruence.
    + unfold sub_ok. cbn [st set_interest interest wbuf]. rewrite Es.
      exists RWE. repeat split.
Qed.

Lemma resubscribe_sub_ok c : st c = Connected -> sub_ok (resubscribe c).
Proof.
  intros Es. unfold sub_ok, resubscribe. cbn [st set_interest interest wbuf]. rewrite Es.
  eexists. split; [reflexivity|]. cbn [m_rd m_wr m_er RE]. repeat split.
  intros Hn. destruct (wbuf c); [congruence|reflexivity].
Qed.

Section C13Sub.
  Variable dec : bytes -> dres.

  Lemma poll_connected_sub_ok now rd wr ss rs c :
    sub_ok c -> sub_ok (fst (poll_connected dec now rd wr ss rs c)).
  Proof.
    intros H. unfold poll_connected, poll_connected_gen.
    match goal with |- sub_ok (fst (let (_, _) := ?W in _)) => assert (S2 : sub_ok (fst W)) end.
    { destruct wr; [|exact H].
      pose proof (try_send_keeps now ss c) as K.
      destruct (try_send now ss c) as [c2 o2]. cbn [fst] in K.
      pose proof (keeps_sub_ok c c2 H K) as S2.
      destruct (st c2) eqn:Es2; cbn [fst]; [exact S2|exact S2|].
      exact (resubscribe_sub_ok c2 Es2). }
    match goal with |- sub_ok (fst (let (_, _) := ?W in _)) => destruct W as [c2 o2] end.
    cbn [fst] in S2.
    destruct (st c2) eqn:Es2; [exact S2|exact S2|].
    destruct rd; [|exact S2].
    pose proof (read_loop_keeps now rs c2) as K3.
    destruct (read_loop now rs c2) as [c3 o3]. cbn [fst] in K3.
    pose proof (keeps_sub_ok c2 c3 S2 K3) as S3.
    cbv zeta. cbn [st set_last_read].
    destruct (st c3) eqn:Es3; [exact S3| |].
    all: pose proof (parse_loop_keeps dec now (S (length (rbuf (set_last_read c3 now)))) (set_last_read c3 now)) as K4;
      unfold parse_all;
      destruct (parse_loop dec now (S (length (rbuf (set_last_read c3 now)))) (set_last_read c3 now)) as [c4 o4];
      cbn [fst] in *;
      exact (keeps_sub_ok _ c4 (sub_ok_set_last_read c3 now S3) K4).
  Qed.

  Theorem step_sub_ok c e : sub_ok c -> sub_ok (fst (step dec c e)).
  Proof.
    intros H. destruct e as [now p script|now rd wr er soerr ss rs|now|now].
    - rewrite step_send_eq. cbn [fst]. apply send_subscribe_sub_ok.
      refine (keeps_sub_ok0 (set_wbuf c (wbuf c ++ frame p)) _ _ (try_send_keeps now script _)).
      apply sub_ok_weaken in H. exact H.
    - unfold step, step_gen; fold (poll_connected dec).
      destruct (st c) eqn:Es; [exact H| |].
      all: destruct er; [apply disconnect_sub_ok|].
      all: pose proof (check_timeout_keeps now c) as K1;
        destruct (check_timeout now c) as [c1 o1]; cbn [fst] in K1;
        pose proof (keeps_sub_ok c c1 H K1) as S1;
        cbv zeta;
        destruct (st c1) eqn:Es1; [exact S1| |].
      all: destruct ((rd || wr) && soerr && negb (now - last_read c >? timeout c));
        [pose proof (disconnect_sub_ok now c1) as D; destruct (disconnect now c1) as [cd od]; exact D|].
      1,3: destruct (rd || wr); [|exact S1];
        cbn [fst]; unfold sub_ok in *; cbn [st interest wbuf]; rewrite Es1 in S1; rewrite S1;
        exists RWE; repeat split.
      all: pose proof (poll_connected_sub_ok now rd wr ss rs c1 S1) as P;
        destruct (poll_connected dec now rd wr ss rs c1) as [c2 o2]; exact P.
    - unfold step, step_gen. apply disconnect_sub_ok.
    - unfold step, step_gen, sub_ok. cbn. reflexivity.
  Qed.

  Theorem run_sub_ok es : forall c, sub_ok c -> sub_ok (fst (run dec c es)).
  Proof.
    induction es as [|e es IH]; intros c H; cbn [run]; [exact H|].
    pose proof (step_sub_ok c e H) as S1.
    destruct (step dec c e) as [c1 o]. cbn [fst] in S1.
    specialize (IH c1 S1). destruct (run dec c1 es) as [c2 os]. exact IH.
  Qed.

End C13Sub.

(* what sub_ok says, clause by clause (wants_write c = the subscription includes WRITE) *)
Lemma sub_ok_meaning c :
  sub_ok c ->
  (st c = Connected -> wbuf c <> [] -> wants_write c = true) /\
  (st c = Connecting -> wants_write c = true) /\
  (st c <> Disconnected -> exists m, interest c = Some m /\ m_rd m = true /\ m_er m = true) /\
  (st c = Disconnected -> interest c = None).
Proof.
  unfold sub_ok, wants_write. intros H. destruct (st c) eqn:Es.
  - repeat split; try discriminate; try congruence.
  - rewrite H. repeat split; try discriminate; try congruence.
    intros _. exists RWE. repeat split.
  - destruct H as (m & A & B & C & D). rewrite A. repeat split; try discriminate.
    + intros _ Hn. exact (D Hn).
    + intros _. exists m. repeat split; assumption.
Qed.

Theorem write_interest_thm dec es c k :
  sub_ok c ->
  let c' := fst (run dec c (firstn k es)) in
  (st c' = Connected -> wbuf c' <> [] -> wants_write c' = true) /\
  (st c' = Connecting -> wants_write c' = true) /\
  (st c' <> Disconnected -> exists m, interest c' = Some m /\ m_rd m = true /\ m_er m = true) /\
  (st c' = Disconnected -> interest c' = None).
Proof. intros H c'. apply sub_ok_meaning. apply run_sub_ok. exact H. Qed.

(* the two ways a connection is created: TcpConnection(poller, socket=s) and TcpConnection(poller) *)
Example ex_sub_ok_init now tmo rc ru : sub_ok (init_conn now tmo rc ru).
Proof. unfold sub_ok, init_conn. cbn. exists RWE. repeat split. Qed.

Example ex_sub_ok_unconnected now tmo rc ru : sub_ok (cleared (init_conn now tmo rc ru)).
Proof. reflexivity. Qed.

Theorem write_interest_init dec es now tmo rc ru k :
  let c' := fst (run dec (init_conn now tmo rc ru) (firstn k es)) in
  (st c' = Connected -> wbuf c' <> [] -> wants_write c' = true) /\
  (st c' = Connecting -> wants_write c' = true) /\
  (st c' <> Disconnected -> exists m, interest c' = Some m /\ m_rd m = true /\ m_er m = true) /\
  (st c' = Disconnected -> interest c' = None).
Proof. exact (write_interest_thm dec es _ k (ex_sub_ok_init now tmo rc ru)). Qed.

(* ------------------------------------------------------------------ *)
(* C13_writer_progress                                                 *)

(* a WRITE event of the fair environment: only WRITE, the socket takes at least one byte (first
   socket.send returns k > 0; the model takes max 1 k), then anything short of an error; no
   timeout *)
Definition write_event_ok (last tmo : Z) (e : event) : Prop :=
  match e with
  | EPoll now rd wr er soerr (SAccept _ :: ss) _ =>
    rd = false /\ wr = true /\ er = false /\ soerr = false /\ now - last <= tmo /\ Forall benign ss
  | _ => False
  end.

Lemma write_event_benign last tmo e : write_event_ok last tmo e -> benign_event last tmo e.
Proof.
  destruct e as [now p script|now rd wr er soerr ss rs|now|now]; cbn [write_event_ok];
    try (intro Hf; exact (match Hf with end)).
  destruct ss as [|[k| | | |] ss]; try (intro Hf; exact (match Hf with end)).
  intros (A & B & C & D & E & F). cbn [benign_event]. repeat split; try assumption.
  constructor; [exact I|exact F].
Qed.

Lemma try_send_first_accept now k ss c :
  st c = Connected -> now - last_read c <= timeout c -> wbuf c <> [] ->
  accepted (snd (try_send now (SAccept k :: ss) c)) <> [].
Proof.
  intros Hst Ht Hw. unfold try_send. rewrite (check_timeout_ok now c Ht), Hst.
  cbn [send_loop]. destruct (wbuf c) as [|x w] eqn:Ew; [congruence|].
  remember (Nat.max 1 (N.to_nat (N.min k (N.of_nat (length (x :: w)))))) as k' eqn:Ek.
  destruct (send_loop now ss (set_wbuf c (skipn k' (x :: w)))) as [c2 o2].
  cbn [snd out_app accepted no_out app].
  destruct k' as [|k']; [lia|]. cbn [firstn app]. discriminate.
Qed.

Section C13Progress.
  Variable dec : bytes -> dres.

  Lemma step_write_event c e c1 o :
    st c = Connected -> write_event_ok (last_read c) (timeout c) e ->
    step dec c e = (c1, o) ->
    exists rest,
      eqi c1 (set_wbuf c rest) /\ accepted o ++ rest = wbuf c /\ silent o /\
      (wbuf c <> [] -> accepted o <> []).
  Proof.
    intros Hst Hw H.
    destruct (step_writer_benign dec c e c1 o Hst (write_event_benign _ _ e Hw) H) as (rest & Q & A & S).
    exists rest.
    destruct e as [now p script|now rd wr er soerr ss rs|now|now]; try exact (match Hw with end).
    destruct ss as [|[k| | | |] ss]; try exact (match Hw with end).
    destruct Hw as (-> & -> & -> & -> & Ht & Hs).
    unfold sent_of, sent_payloads in A. cbn [flat_map map concat app] in A. rewrite app_nil_r in A.
    split; [exact Q|split; [exact A|split; [exact S|]]].
    intros Hne.
    unfold step, step_gen in H. rewrite Hst in H.
    rewrite (check_timeout_ok now c Ht) in H. cbv beta iota zeta in H. rewrite Hst in H.
    cbn [orb andb] in H. unfold poll_connected_gen in H.
    pose proof (try_send_first_accept now k ss c Hst Ht Hne) as F.
    destruct (try_send now (SAccept k :: ss) c) as [c2 o2]. cbn [snd] in F.
    assert (Ho : o = out_app no_out o2).
    { destruct (st c2); cbv beta iota in H; cbn [st resubscribe set_interest] in H;
        try (destruct (st c2)); apply (f_equal snd) in H; cbn [snd] in H; congruence. }
    rewrite Ho, out_app_no_out_l. exact F.
  Qed.

  Theorem writer_progress ws : forall c,
    sub_ok c -> st c = Connected ->
    Forall (write_event_ok (last_read c) (timeout c)) ws ->
    (length (wbuf c) <= length ws)%nat ->
    exists c' os,
      fair_run dec c ws = (c', os) /\
      st c' = Connected /\ wbuf c' = [] /\ rbuf c' = rbuf c /\
      acc_of os = wbuf c /\ Forall silent os.
  Proof.
    induction ws as [|e ws IH]; intros c Hok Hst Hws Hlen.
    - exists c, []. cbn in Hlen. destruct (wbuf c) eqn:Ew; [|cbn in Hlen; lia].
      repeat split; try assumption. constructor.
    - cbn [fair_run]. destruct (wants_write c) eqn:Eww.
      + inversion Hws as [|e' ws' Hw1 Hw2]; subst e' ws'.
        destruct (step dec c e) as [c1 o] eqn:E1.
        pose proof (step_sub_ok dec c e Hok) as Hok1. rewrite E1 in Hok1. cbn [fst] in Hok1.
        apply (step_write_event c e c1 o Hst Hw1) in E1 as (rest & Q & A & S & P).
        destruct Q as (Q1 & Q2 & Q3 & Q4 & Q5 & _).
        cbn [st rbuf wbuf last_read timeout set_wbuf] in Q1, Q2, Q3, Q4, Q5.
        assert (Hst1 : st c1 = Connected) by congruence.
        assert (Hws1 : Forall (write_event_ok (last_read c1) (timeout c1)) ws) by (rewrite Q4, Q5; exact Hw2).
        assert (Hlen1 : (length (wbuf c1) <= length ws)%nat).
        { rewrite Q3. apply (f_equal (@length N)) in A. rewrite app_length in A.
          cbn [length] in Hlen. destruct (wbuf c) as [|x w] eqn:Ew.
          - cbn in A. lia.
          - assert (accepted o <> []) as Hne by (apply P; discriminate).
            destruct (accepted o); [congruence|]. cbn [length] in *. lia. }
        destruct (IH c1 Hok1 Hst1 Hws1 Hlen1) as (c' & os & F & R1 & R2 & R3 & R4 & R5).
        exists c', (o :: os). rewrite F.
        change (acc_of (o :: os)) with (accepted o ++ acc_of os).
        rewrite R4, Q3, A. repeat split; try assumption; try congruence.
        constructor; assumption.
      + exists c, [].
        destruct (sub_ok_meaning c Hok) as (M1 & _).
        destruct (wbuf c) eqn:Ew.
        * repeat split; try assumption. constructor.
        * rewrite (M1 Hst) in Eww; [discriminate|]. try rewrite Ew. discriminate.
  Qed.

End C13Progress.

(* ---- concrete instances ---- *)

(* 5 bytes wait in the write buffer of a connection subscribed with READ|WRITE|ERROR; the fair
   environment offers five WRITE events, the socket takes 2 bytes each time: the third event
   empties the buffer and drops WRITE from the subscription, the environment stops *)
Definition ex_pending : conn := set_wbuf ex_c0 [0; 0; 10; 11; 12]%N.
Definition ex_wr_event (t : Z) : event := EPoll t false true false false [SAccept 2; SEagain] [].
Definition ex_wr_events : list event := map ex_wr_event [1; 2; 3; 4; 5].

Example ex_writer_progress :
  exists c' os,
    fair_run ex_dec ex_pending ex_wr_events = (c', os) /\
    st c' = Connected /\ wbuf c' = [] /\ rbuf c' = rbuf ex_pending /\
    acc_of os = wbuf ex_pending /\ Forall silent os.
Proof.
  apply (writer_progress ex_dec ex_wr_events ex_pending).
  - unfold sub_ok. cbn. exists RWE. repeat split.
  - reflexivity.
  - repeat constructor; cbn; lia.
  - cbn. lia.
Qed.

Example ex_writer_progress_computed :
  fair_run ex_dec ex_pending ex_wr_events
  = (set_interest ex_c0 (Some (RE false)),
     [{| accepted := [0; 0]%N; delivered := []; disc_calls := 0; conn_calls := 0; miss := false |};
      {| accepted := [10; 11]%N; delivered := []; disc_calls := 0; conn_calls := 0; miss := false |};
      {| accepted := [12]%N; delivered := []; disc_calls := 0; conn_calls := 0; miss := false |}]).
Proof. vm_compute. reflexivity. Qed.

(* ---- the rules as they were: refutations ---- *)

(* send() without the subscribe at its end (before commit 6d311d2): a WRITE event with nothing to
   write leaves READ|ERROR; the next send() gets 2 of its 7 bytes out; the other 5 wait in the
   buffer of a CONNECTED connection that has not asked for writability: no fair environment ever
   delivers a WRITE event.  Under the code as it is the same events end with WRITE subscribed. *)
Definition ex_old_send_events : list event :=
  [EPoll 1 false true false false [] [];
   ESend 2 (ex_payload 1) [SAccept 2; SEagain]].

Theorem old_send_stalls :
  exists (dec : bytes -> dres) (es : list event),
    let c' := fst (run_gen dec false true (init_conn 0 10 false false) es) in
    st c' = Connected /\ wbuf c' <> [] /\ wants_write c' = false /\
    (forall ws, fair_run dec c' ws = (c', [])) /\
    wants_write (fst (run dec (init_conn 0 10 false false) es)) = true.
Proof.
  exists ex_dec, ex_old_send_events. cbv zeta.
  split; [vm_compute; reflexivity|]. split; [vm_compute; discriminate|].
  split; [vm_compute; reflexivity|]. split; [|vm_compute; reflexivity].
  intros ws. destruct ws; vm_compute; reflexivity.
Qed.

(* the WRITE branch of __processConnection with the test `state == DISCONNECTED` after
   __trySendBuffer() (before the fix): socket.send fails, disconnect() closes and unsubscribes the
   descriptor, the callback reconnects, the new socket gets the same descriptor number, and the
   handler goes on to subscribe(descr, READ|ERROR): the CONNECTING connection has lost WRITE (its
   connect completion is never reported); once something else marks it CONNECTED, bytes wait in
   its write buffer without WRITE subscribed.  Under the code as it is the same events keep WRITE. *)
Definition ex_stale_events : list event :=
  [ESend 1 (ex_payload 1) [SAccept 2; SEagain];
   EPoll 2 false true false false [SErr] [];
   ESend 3 (ex_payload 2) [SEagain];
   EPoll 4 true false false false [] []].

Theorem old_write_branch_resubscribes_closed_descr :
  exists (dec : bytes -> dres) (es : list event) (k : nat),
    let c1 := fst (run_gen dec true false (init_conn 0 10 true true) (firstn k es)) in
    let c2 := fst (run_gen dec true false (init_conn 0 10 true true) es) in
    st c1 = Connecting /\ wants_write c1 = false /\
    st c2 = Connected /\ wbuf c2 <> [] /\ wants_write c2 = false /\
    wants_write (fst (run dec (init_conn 0 10 true true) (firstn k es))) = true /\
    wants_write (fst (run dec (init_conn 0 10 true true) es)) = true.
Proof.
  exists ex_dec, ex_stale_events, 2%nat. cbv zeta.
  repeat split; try (vm_compute; reflexivity). vm_compute. discriminate.
Qed.

(* run is run_gen with both rules as they are now *)
Lemma run_gen_fixed dec es : forall c, run_gen dec true true c es = run dec c es.
Proof. induction es as [|e es IH]; intros c; cbn [run run_gen]; [reflexivity|].
  change (step_gen dec true true c e) with (step dec c e).
  destruct (step dec c e) as [c1 o]. rewrite IH. reflexivity. Qed.
