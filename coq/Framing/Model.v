(* Executable model of pysyncobj/tcp_connection.py (TcpConnection in the
   DISCONNECTED / CONNECTING / CONNECTED states): connect (returning True),
   send, __trySendBuffer, __processSend, __tryReadBuffer, __processRead,
   __processParseMessage, the dispatch in __processConnection (CONNECTING
   branch included), __processConnectionTimeout, disconnect with an
   onDisconnected callback that may re-enter connect().

   Re-entrant reconnect: when `reconnect c` is set, the onDisconnected callback
   calls connect() before disconnect() returns, so the code that runs after a
   disconnect() inside a handler sees state CONNECTING, empty buffers and a
   FRESH socket (harness: nothing to recv, SO_ERROR 0, empty write buffer so
   send is not called).

   Oracles (inputs of the model, supplied by the harness from what the
   implementation saw): the payload bytes zlib.compress(pickle.dumps(m)) of
   every message sent, and the verdict of pickle.loads(zlib.decompress(d)) for
   every payload d the parser tried to decode. *)
From Coq Require Import ZArith NArith List Lia Bool.
From PSO Require Import Base.PyBytes.
Import ListNotations.
Open Scope Z_scope.

Inductive cstate := Disconnected | Connecting | Connected.

(* result of the decode oracle *)
Inductive dres := DOk (id : N) | DFail | DMiss.

(* what socket.send did *)
Inductive sres := SAccept (k : N) | SZero | SNeg | SEagain | SErr.
(* what socket.recv did; the bool is the SO_ERROR probe that follows a successful recv *)
Inductive rres := RChunk (b : bytes) (soerr : bool) | REagain | RErr.

(* what the connection asked its poller to report for its descriptor: the POLL_EVENT_TYPE bits of
   the last poller.subscribe(fileno, callback, mask) *)
Record mask := { m_rd : bool; m_wr : bool; m_er : bool }.
Definition RWE : mask := {| m_rd := true; m_wr := true; m_er := true |}.       (* READ | WRITE | ERROR *)
Definition RE (w : bool) : mask := {| m_rd := true; m_wr := w; m_er := true |}. (* READ | ERROR [| WRITE] *)

Record conn := {
  st : cstate;
  rbuf : bytes;
  wbuf : bytes;
  last_read : Z;       (* time units chosen by the harness *)
  timeout : Z;
  reconnect : bool;    (* the onDisconnected callback calls connect() at once (TCPTransport does) *)
  interest : option mask;
    (* subscription of the connection's CURRENT descriptor (self.__fileno) in the poller: None = not
       subscribed (after poller.unsubscribe, or no descriptor) *)
  reuse_fd : bool
    (* environment: the socket a re-entrant connect() creates gets the descriptor NUMBER that
       disconnect() has just closed (what an OS that hands out the lowest free number does) *)
}.

Record outs := {
  accepted : bytes;       (* bytes the socket took during this event *)
  delivered : list N;     (* ids of the messages handed to onMessageReceived *)
  disc_calls : nat;       (* onDisconnected invocations *)
  conn_calls : nat;       (* onConnected invocations *)
  miss : bool             (* the decode oracle was asked something the implementation never decoded *)
}.

Definition no_out : outs :=
  {| accepted := []; delivered := []; disc_calls := 0; conn_calls := 0; miss := false |}.

Definition out_app (a b : outs) : outs :=
  {| accepted := accepted a ++ accepted b;
     delivered := delivered a ++ delivered b;
     disc_calls := disc_calls a + disc_calls b;
     conn_calls := conn_calls a + conn_calls b;
     miss := miss a || miss b |}.

Definition set_st (c : conn) s := {| st := s; rbuf := rbuf c; wbuf := wbuf c; last_read := last_read c; timeout := timeout c; reconnect := reconnect c; interest := interest c; reuse_fd := reuse_fd c |}.
Definition set_rbuf (c : conn) b := {| st := st c; rbuf := b; wbuf := wbuf c; last_read := last_read c; timeout := timeout c; reconnect := reconnect c; interest := interest c; reuse_fd := reuse_fd c |}.
Definition set_wbuf (c : conn) b := {| st := st c; rbuf := rbuf c; wbuf := b; last_read := last_read c; timeout := timeout c; reconnect := reconnect c; interest := interest c; reuse_fd := reuse_fd c |}.
Definition set_last_read (c : conn) t := {| st := st c; rbuf := rbuf c; wbuf := wbuf c; last_read := t; timeout := timeout c; reconnect := reconnect c; interest := interest c; reuse_fd := reuse_fd c |}.

Definition set_interest (c : conn) i := {| st := st c; rbuf := rbuf c; wbuf := wbuf c; last_read := last_read c; timeout := timeout c; reconnect := reconnect c; interest := i; reuse_fd := reuse_fd c |}.

(* what disconnect() leaves when nothing reconnects *)
Definition cleared (c : conn) : conn :=
  {| st := Disconnected; rbuf := []; wbuf := []; last_read := last_read c; timeout := timeout c; reconnect := reconnect c;
     interest := None (* poller.unsubscribe(self.__fileno); self.__fileno = None *); reuse_fd := reuse_fd c |}.

(* connect(host, port) returning True: fresh socket, both buffers empty,
   lastReadTime := now, state CONNECTING, the new descriptor subscribed with READ|WRITE|ERROR.
   (connect() on a connection that is not DISCONNECTED neither closes nor unsubscribes the old
   socket; that left-over subscription of a descriptor that is no longer the connection's is
   outside `interest`.) *)
Definition connect (now : Z) (c : conn) : conn :=
  {| st := Connecting; rbuf := []; wbuf := []; last_read := now; timeout := timeout c; reconnect := reconnect c;
     interest := Some RWE (* poller.subscribe(self.__fileno, ..., READ | WRITE | ERROR) *); reuse_fd := reuse_fd c |}.

Definition disc_out : outs :=
  {| accepted := []; delivered := []; disc_calls := 1; conn_calls := 0; miss := false |}.
Definition conn_out : outs :=
  {| accepted := []; delivered := []; disc_calls := 0; conn_calls := 1; miss := false |}.

(* disconnect(): buffers cleared, state DISCONNECTED, then the callback -- only
   when not already disconnected; a reconnecting callback runs connect() inside it *)
Definition disconnect (now : Z) (c : conn) : conn * outs :=
  match st c with
  | Disconnected => (cleared c, no_out)
  | _ => (if reconnect c then connect now c else cleared c, disc_out)
  end.

(* __processConnectionTimeout *)
Definition check_timeout (now : Z) (c : conn) : conn * outs :=
  if now - last_read c >? timeout c then disconnect now c else (c, no_out).

(* while self.__processSend(): pass -- one scripted socket result per call; an
   exhausted script behaves as EAGAIN.  The socket is not called on an empty buffer. *)
Fixpoint send_loop (now : Z) (script : list sres) (c : conn) : conn * outs :=
  match wbuf c with
  | [] => (c, no_out)
  | _ :: _ =>
    match script with
    | [] => (c, no_out)
    | SAccept k :: rest =>
      let k := Nat.max 1 (N.to_nat (N.min k (N.of_nat (length (wbuf c))))) in
      let took := firstn k (wbuf c) in
      let c' := set_wbuf c (skipn k (wbuf c)) in
      let (c'', o) := send_loop now rest c' in
      (c'', out_app {| accepted := took; delivered := []; disc_calls := 0; conn_calls := 0; miss := false |} o)
    | SZero :: _ => (c, no_out)
    | SEagain :: _ => (c, no_out)
    | SNeg :: _ => disconnect now c
    | SErr :: _ => disconnect now c
    end
  end.

(* __trySendBuffer: the state test after the timeout check is `== DISCONNECTED`,
   so the send loop also runs while CONNECTING (the socket exists); after a
   timeout whose callback reconnected the write buffer is empty and the loop
   does not touch the (fresh) socket *)
Definition try_send (now : Z) (script : list sres) (c : conn) : conn * outs :=
  let (c1, o1) := check_timeout now c in
  match st c1 with
  | Disconnected => (c1, o1)
  | _ => let (c2, o2) := send_loop now script c1 in (c2, out_app o1 o2)
  end.

(* while self.__processRead(): pass *)
Fixpoint read_loop (now : Z) (script : list rres) (c : conn) : conn * outs :=
  match script with
  | [] => (c, no_out)
  | REagain :: _ => (c, no_out)
  | RErr :: _ => disconnect now c
  | RChunk b soerr :: rest =>
    if soerr then disconnect now c
    else match b with
         | [] => disconnect now c
         | _ => read_loop now rest (set_rbuf c (rbuf c ++ b))
         end
  end.

(* the end of send(): `if self.__writeBuffer and self.__state == CONNECTED:
   poller.subscribe(self.__fileno, ..., READ | WRITE | ERROR)` *)
Definition send_subscribe (c : conn) : conn :=
  match st c, wbuf c with
  | Connected, _ :: _ => set_interest c (Some RWE)
  | _, _ => c
  end.

(* the WRITE branch of __processConnection after __trySendBuffer(), state CONNECTED:
   `poller.subscribe(descr, ..., READ | ERROR [| WRITE if the write buffer is non-empty])` *)
Definition resubscribe (c : conn) : conn :=
  set_interest c (Some (RE (match wbuf c with [] => false | _ :: _ => true end))).

(* the same call as it was reached BEFORE commit 8fba630 ("the WRITE branch returns unless CONNECTED"), in
   state CONNECTING (the send failed, disconnect() closed and unsubscribed the descriptor, the
   callback reconnected): descr, the descriptor of the EVENT, is the closed one.  The call changes
   the subscription of the connection's current descriptor only if the new socket got the same
   number (reuse_fd); otherwise it subscribes a descriptor that is not the connection's (outside
   `interest`). *)
Definition resubscribe_stale (c : conn) : conn := if reuse_fd c then resubscribe c else c.

Section WithDecoder.
  Variable dec : bytes -> dres.

  (* __processParseMessage: None | Some msg, may disconnect.
     PARSE_* are the three ways it returns. *)
  Inductive pres := PNone | PMsg (id : N) | PDisc | PMiss.

  Definition parse_one (now : Z) (c : conn) : conn * pres :=
    let b := rbuf c in
    if zlen b <? 4 then (c, PNone)
    else
      let l := unpack_i (pyslice b 0 4) in
      if l <? 0 then (fst (disconnect now c), PDisc)
      else if zlen b - 4 <? l then (c, PNone)
      else
        let data := pyslice b 4 (4 + l) in
        match dec data with
        | DOk id => (set_rbuf c (pyslice_from b (4 + l)), PMsg id)
        | DFail => (fst (disconnect now c), PDisc)
        | DMiss => (c, PMiss)
        end.

  (* the while True loop of __processConnection; fuel bounds the number of
     frames parsed out of one buffer (every frame consumes >= 4 bytes) *)
  Fixpoint parse_loop (now : Z) (fuel : nat) (c : conn) : conn * outs :=
    match fuel with
    | O => (c, no_out)
    | S fuel' =>
      match parse_one now c with
      | (c', PNone) => (c', no_out)
      | (c', PMsg id) =>
        let (c'', o) := parse_loop now fuel' c' in
        (c'', out_app {| accepted := []; delivered := [id]; disc_calls := 0; conn_calls := 0; miss := false |} o)
      | (c', PDisc) =>
        (c', snd (disconnect now c))
      | (c', PMiss) =>
        (c', {| accepted := []; delivered := []; disc_calls := 0; conn_calls := 0; miss := true |})
      end
    end.

  Definition parse_all (now : Z) (c : conn) : conn * outs := parse_loop now (S (length (rbuf c))) c.

  (* events *)
  Inductive event :=
  | ESend (now : Z) (payload : bytes) (script : list sres)
      (* conn.send(m): payload = zlib.compress(pickle.dumps(m)) *)
  | EPoll (now : Z) (rd wr er : bool) (soerr : bool) (sscript : list sres) (rscript : list rres)
      (* __processConnection(fileno, mask) with the fileno of the current socket *)
  | EDisconnect (now : Z)
      (* conn.disconnect() *)
  | EConnect (now : Z).
      (* conn.connect(host, port) returning True *)

  Definition frame (payload : bytes) : bytes := pack_i (zlen payload) ++ payload.

  (* the part of __processConnection after the CONNECTING branch: write, read, parse *)
  (* fw = the code as it is (commit 8fba630): after __trySendBuffer() the WRITE branch returns
     unless the state is CONNECTED.  fw = false: the test as it was (`== DISCONNECTED`), kept for
     the refutation. *)
  Definition poll_connected_gen (fw : bool) (now : Z) (rd wr : bool) (sscript : list sres) (rscript : list rres)
             (c : conn) : conn * outs :=
    let (c2, o2) :=
      if wr then
        let (c2, o2) := try_send now sscript c in
        match st c2 with
        | Disconnected => (c2, o2)
        | Connecting => (if fw then c2 else resubscribe_stale c2, o2)
        | Connected => (resubscribe c2, o2)
        end
      else (c, no_out) in
    match st c2 with
    | Disconnected => (c2, o2)
    | Connecting =>
      (* send failed and the callback reconnected: the handler returns (`state != CONNECTED`).
         (Before the fix it went on with the fresh socket, whose recv has nothing (EAGAIN), on an
         empty read buffer: the same result apart from the subscription.) *)
      (c2, o2)
    | Connected =>
      if rd then
        let (c3, o3) := read_loop now rscript c2 in
        let c3 := set_last_read c3 now in
        match st c3 with
        | Disconnected => (c3, out_app o2 o3)
        | _ =>
          (* also reached in state CONNECTING when the read burst ended in a
             disconnect whose callback reconnected: the buffer parsed is the
             fresh connection's (empty) one *)
          let (c4, o4) := parse_all now c3 in
          (c4, out_app o2 (out_app o3 o4))
        end
      else (c2, o2)
    end.

  Definition poll_connected := poll_connected_gen true.

  (* fs = the code as it is: send() ends with send_subscribe.  fs = false: send() as it was before
     commit 6d311d2 (no subscribe at its end), kept for the refutation. *)
  Definition step_gen (fs fw : bool) (c : conn) (e : event) : conn * outs :=
    match e with
    | ESend now payload script =>
      let (c1, o) := try_send now script (set_wbuf c (wbuf c ++ frame payload)) in
      (if fs then send_subscribe c1 else c1, o)
    | EDisconnect now => disconnect now c
    | EConnect now => (connect now c, no_out)
    | EPoll now rd wr er soerr sscript rscript =>
      match st c with
      | Disconnected => (c, no_out)         (* descr != self.__fileno (None) *)
      | _ =>
        if er then disconnect now c
        else
          let timed_out := now - last_read c >? timeout c in
          let (c1, o1) := check_timeout now c in
          match st c1 with
          | Disconnected => (c1, o1)
          | _ =>
            (* after a timeout whose callback reconnected, c1 is the fresh
               CONNECTING connection and the SO_ERROR probe goes to its socket (0) *)
            if (rd || wr) && soerr && negb timed_out then
              let (c2, o2) := disconnect now c1 in (c2, out_app o1 o2)
            else
              match st c1 with
              | Connecting =>
                if rd || wr then
                  ({| st := Connected; rbuf := rbuf c1; wbuf := wbuf c1; last_read := now;
                      timeout := timeout c1; reconnect := reconnect c1; interest := interest c1; reuse_fd := reuse_fd c1 |},
                   out_app o1 conn_out)
                else (c1, o1)
              | _ =>
                let (c2, o2) := poll_connected_gen fw now rd wr sscript rscript c1 in
                (c2, out_app o1 o2)
              end
          end
      end
    end.

  Definition step := step_gen true true.

  Fixpoint run_gen (fs fw : bool) (c : conn) (es : list event) : conn * list outs :=
    match es with
    | [] => (c, [])
    | e :: r => let (c1, o) := step_gen fs fw c e in let (c2, os) := run_gen fs fw c1 r in (c2, o :: os)
    end.

  Fixpoint run (c : conn) (es : list event) : conn * list outs :=
    match es with
    | [] => (c, [])
    | e :: r => let (c1, o) := step c e in let (c2, os) := run c1 r in (c2, o :: os)
    end.

  (* ---- the poller side of the subscription ----
     A level-triggered poller reports writability of a descriptor only if the subscription asks
     for it. *)
  Definition wants_write (c : conn) : bool :=
    match interest c with Some m => m_wr m | None => false end.

  (* a fair environment for the writer: as long as WRITE is subscribed it delivers the next event
     of ws (meant: WRITE events); when WRITE is not subscribed no WRITE event is ever reported, so
     it stops *)
  Fixpoint fair_run (c : conn) (ws : list event) : conn * list outs :=
    match ws with
    | [] => (c, [])
    | e :: r =>
      if wants_write c then
        let (c1, o) := step c e in let (c2, os) := fair_run c1 r in (c2, o :: os)
      else (c, [])
    end.

End WithDecoder.

(* TcpConnection(poller, socket=s, ...): CONNECTED, the descriptor subscribed with READ|WRITE|ERROR *)
Definition init_conn (now tmo : Z) (rc ru : bool) : conn :=
  {| st := Connected; rbuf := []; wbuf := []; last_read := now; timeout := tmo; reconnect := rc;
     interest := Some RWE; reuse_fd := ru |}.

(* ---- decode oracle as a finite table, for evaluation ---- *)
Fixpoint bytes_eqb (a b : bytes) : bool :=
  match a, b with
  | [], [] => true
  | x :: a', y :: b' => N.eqb x y && bytes_eqb a' b'
  | _, _ => false
  end.

Fixpoint table_dec (tbl : list (bytes * option N)) (d : bytes) : dres :=
  match tbl with
  | [] => DMiss
  | (k, v) :: r => if bytes_eqb k d then match v with Some id => DOk id | None => DFail end
                   else table_dec r d
  end.

(* canonical observation of one event, as numbers:
   [state; |rbuf|; |wbuf|; disc_calls; conn_calls; miss] ++ [|accepted|] ++ accepted ++ [|delivered|] ++ delivered
   ++ [sub]   where sub = 0 when the connection's descriptor is not subscribed (or there is none),
                          8 + mask otherwise (READ = 1, WRITE = 2, ERROR = 4 as in POLL_EVENT_TYPE) *)
Definition sub_code (i : option mask) : N :=
  match i with
  | None => 0
  | Some m => 8 + (if m_rd m then 1 else 0) + (if m_wr m then 2 else 0) + (if m_er m then 4 else 0)
  end%N.

Definition obs (c : conn) (o : outs) : list N :=
  [match st c with Disconnected => 0 | Connecting => 1 | Connected => 2 end;
   N.of_nat (length (rbuf c)); N.of_nat (length (wbuf c));
   N.of_nat (disc_calls o); N.of_nat (conn_calls o); if miss o then 1 else 0]%N
  ++ N.of_nat (length (accepted o)) :: accepted o
  ++ N.of_nat (length (delivered o)) :: delivered o
  ++ [sub_code (interest c)].

Fixpoint run_obs (dec : bytes -> dres) (c : conn) (es : list event) : list (list N) :=
  match es with
  | [] => []
  | e :: r => let (c1, o) := step dec c e in obs c1 o :: run_obs dec c1 r
  end.

Fixpoint lists_eqb (a b : list (list N)) : bool :=
  match a, b with
  | [], [] => true
  | x :: a', y :: b' => bytes_eqb x y && lists_eqb a' b'
  | _, _ => false
  end.

(* index of the first differing step, or None *)
Fixpoint first_diff (i : N) (a b : list (list N)) : option N :=
  match a, b with
  | [], [] => None
  | x :: a', y :: b' => if bytes_eqb x y then first_diff (i + 1)%N a' b' else Some i
  | _, _ => Some i
  end.

Definition check_case (tbl : list (bytes * option N)) (now tmo : Z) (rc ru : bool) (es : list event)
           (expected : list (list N)) : option N :=
  first_diff 0%N (run_obs (table_dec tbl) (init_conn now tmo rc ru) es) expected.
