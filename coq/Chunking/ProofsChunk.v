(* Chunking of one big entry: labels, piece sizes, reassembly, the pre-fix rule. *)
From Coq Require Import ZArith List Lia Bool.
From PSO Require Import Base.PyBytes Base.PyBytesFacts Chunking.Model.
Import ListNotations.
Open Scope Z_scope.

(* ---- ceil division ---- *)

Lemma cdiv_bounds a b : 1 <= b -> (cdiv a b - 1) * b < a <= cdiv a b * b.
Proof.
  intros Hb. unfold cdiv.
  pose proof (Z.div_mod (a + b - 1) b ltac:(lia)) as Hdm.
  pose proof (Z.mod_pos_bound (a + b - 1) b ltac:(lia)) as Hm.
  nia.
Qed.

Lemma cdiv_unique a b n : 1 <= b -> (n - 1) * b < a <= n * b -> cdiv a b = n.
Proof.
  intros Hb Hn. pose proof (cdiv_bounds a b Hb) as Hc. nia.
Qed.

Lemma cdiv_mono a a' b : 1 <= b -> a <= a' -> cdiv a b <= cdiv a' b.
Proof.
  intros Hb Ha. unfold cdiv. apply Z.div_le_mono; lia.
Qed.

Lemma cdiv_ge2 a b : 1 <= b -> b < a -> 2 <= cdiv a b.
Proof.
  intros Hb Ha. pose proof (cdiv_bounds a b Hb). nia.
Qed.

Lemma cdiv_pos a b : 1 <= b -> 1 <= a -> 1 <= cdiv a b.
Proof.
  intros Hb Ha. pose proof (cdiv_bounds a b Hb). nia.
Qed.

(* ---- lists ---- *)

Lemma map_const_repeat {X Y} (f : X -> Y) (c : Y) (l : list X) :
  (forall x, In x l -> f x = c) -> map f l = repeat c (length l).
Proof.
  induction l as [|x l IH]; intros H; [reflexivity|].
  simpl. rewrite H by (left; reflexivity). f_equal. apply IH. intros y Hy. apply H. now right.
Qed.

Lemma seq_split_ends n : (2 <= n)%nat -> seq 0 n = 0%nat :: seq 1 (n - 2) ++ [(n - 1)%nat].
Proof.
  intros Hn. destruct n as [|[|m]]; try lia.
  replace (S (S m) - 2)%nat with m by lia. replace (S (S m) - 1)%nat with (S m) by lia.
  change (seq 0 (S (S m))) with (0%nat :: seq 1 (S m)).
  f_equal. rewrite seq_S. reflexivity.
Qed.

Lemma firstn_plus_skipn {X} (a b : nat) (l : list X) :
  firstn a l ++ firstn b (skipn a l) = firstn (a + b) l.
Proof.
  revert l; induction a as [|a IH]; intros l; [reflexivity|].
  destruct l as [|x l]; [now rewrite !firstn_nil|].
  simpl. f_equal. apply IH.
Qed.

(* a[lo:hi] for 0 <= lo <= hi, whatever the length *)
Lemma pyslice_pos {X} (l : list X) lo hi :
  0 <= lo <= hi -> pyslice l lo hi = firstn (Z.to_nat (hi - lo)) (skipn (Z.to_nat lo) l).
Proof.
  intros H. unfold pyslice, norm_idx.
  pose proof (zlen_nonneg l) as Hl. unfold zlen in *.
  destruct (lo <? 0) eqn:E1; [apply Z.ltb_lt in E1; lia|].
  destruct (hi <? 0) eqn:E2; [apply Z.ltb_lt in E2; lia|].
  destruct (Z.min hi (Z.of_nat (length l)) <=? Z.min lo (Z.of_nat (length l))) eqn:E3.
  - apply Z.leb_le in E3.
    destruct (Z_le_gt_dec (Z.of_nat (length l)) lo) as [Hge|Hlt].
    + rewrite skipn_all2 by lia. now rewrite firstn_nil.
    + assert (hi = lo) by lia. subst hi. now rewrite Z.sub_diag.
  - apply Z.leb_gt in E3.
    destruct (Z_le_gt_dec hi (Z.of_nat (length l))) as [Hle|Hgt].
    + rewrite Z.min_l by lia. rewrite (Z.min_l lo) by lia. reflexivity.
    + rewrite (Z.min_r hi) by lia. rewrite (Z.min_l lo) by lia.
      rewrite !firstn_all2; try reflexivity; rewrite skipn_length; lia.
Qed.

Lemma pyslice_pos_zlen {X} (l : list X) lo hi :
  0 <= lo <= hi -> zlen (pyslice l lo hi) = Z.max 0 (Z.min hi (zlen l) - lo).
Proof.
  intros H. rewrite pyslice_pos by assumption. unfold zlen.
  rewrite firstn_length, skipn_length. lia.
Qed.

(* ---- labels of the fixed rule ---- *)

Lemma middle_ok_seq m : middle_ok (repeat LProcess m ++ [LFinish]) = true.
Proof. induction m as [|m IH]; [reflexivity|exact IH]. Qed.

Lemma labels_ok_seq m : labels_ok (lab_seq m) = true.
Proof. apply middle_ok_seq. Qed.

Lemma middle_ok_inv l : middle_ok l = true -> exists m, l = repeat LProcess m ++ [LFinish].
Proof.
  induction l as [|x l IH]; intros H; [discriminate|].
  destruct x; try discriminate.
  - simpl in H. destruct (IH H) as [m Hm]. exists (S m). now rewrite Hm.
  - destruct l; [|discriminate]. now exists 0%nat.
Qed.

Lemma labels_ok_iff l : labels_ok l = true <-> exists m, l = lab_seq m.
Proof.
  split.
  - destruct l as [|x l]; [discriminate|]. destruct x; try discriminate.
    intros H. destruct (middle_ok_inv l H) as [m Hm]. exists m. now rewrite Hm.
  - intros [m ->]. apply labels_ok_seq.
Qed.

(* exactly one finish, and it is last; at least two pieces *)
Lemma count_finish_seq m : count_finish (lab_seq m) = 1%nat.
Proof.
  unfold count_finish, lab_seq. cbn [filter label_eqb].
  induction m as [|m IH]; [reflexivity|exact IH].
Qed.

Lemma lab_seq_facts m :
  (2 <= length (lab_seq m))%nat /\ count_finish (lab_seq m) = 1%nat /\
  last (lab_seq m) LStart = LFinish /\ hd LFinish (lab_seq m) = LStart.
Proof.
  split; [|split; [apply count_finish_seq|split; [|reflexivity]]].
  - unfold lab_seq. simpl. rewrite app_length. simpl. lia.
  - unfold lab_seq.
    change (LStart :: repeat LProcess m ++ [LFinish]) with ((LStart :: repeat LProcess m) ++ [LFinish]).
    apply last_last.
Qed.

(* labels of map (label_rule B len) over the positions k*B, k < n *)
Definition labels_at (B len : Z) (n : nat) : list label :=
  map (fun k => label_rule B len (Z.of_nat k * B)) (seq 0 n).

Lemma label_rule_0 B len : label_rule B len 0 = LStart.
Proof. reflexivity. Qed.

Lemma label_rule_pos B len pos :
  0 < pos -> label_rule B len pos = if pos + B >=? len then LFinish else LProcess.
Proof.
  intros H. unfold label_rule. destruct (pos =? 0) eqn:E; [apply Z.eqb_eq in E; lia|reflexivity].
Qed.

Lemma labels_fixed_at B psize :
  1 <= B -> B < psize ->
  labels_at B psize (Z.to_nat (cdiv psize B)) = lab_seq (Z.to_nat (cdiv psize B) - 2).
Proof.
  intros HB Hp. pose proof (cdiv_bounds psize B HB) as Hc. pose proof (cdiv_ge2 psize B HB Hp) as H2.
  unfold labels_at. set (n := Z.to_nat (cdiv psize B)).
  assert (Hn : (2 <= n)%nat) by (unfold n; lia).
  rewrite (seq_split_ends n Hn). cbn [map]. rewrite map_app. cbn [map].
  unfold lab_seq. f_equal. f_equal.
  - rewrite (map_const_repeat _ LProcess).
    + now rewrite seq_length.
    + intros k Hk. apply in_seq in Hk.
      rewrite label_rule_pos by nia.
      destruct (Z.of_nat k * B + B >=? psize) eqn:E; [|reflexivity].
      apply Z.geb_le in E. unfold n in *. nia.
  - f_equal. rewrite label_rule_pos by (unfold n in *; nia).
    destruct (Z.of_nat (n - 1) * B + B >=? psize) eqn:E; [reflexivity|].
    rewrite Z.geb_leb in E. apply Z.leb_gt in E. unfold n in *. nia.
Qed.

Lemma piece_sizes_with_labels rule_len B psize :
  map fst (piece_sizes_with rule_len B psize) = labels_at B rule_len (Z.to_nat (cdiv psize B)).
Proof.
  unfold piece_sizes_with, py_range0, labels_at. rewrite !map_map. reflexivity.
Qed.

Lemma pieces_with_labels {X} rule_len B (data : list X) :
  map fst (pieces_with rule_len B data) = labels_at B rule_len (Z.to_nat (cdiv (zlen data) B)).
Proof.
  unfold pieces_with, py_range0, labels_at. rewrite !map_map. reflexivity.
Qed.

(* the lengths-only view is the lengths of the bytes view *)
Lemma pieces_with_sizes {X} rule_len B (data : list X) :
  1 <= B ->
  map (fun lp => (fst lp, zlen (snd lp))) (pieces_with rule_len B data)
  = piece_sizes_with rule_len B (zlen data).
Proof.
  intros HB. unfold pieces_with, piece_sizes_with, py_range0. rewrite !map_map.
  apply map_ext_in. intros k Hk. apply in_seq in Hk. cbn [fst snd]. f_equal.
  pose proof (cdiv_bounds (zlen data) B HB) as Hc.
  rewrite pyslice_pos_zlen by nia. nia.
Qed.

(* C11_chunk_labels, lengths view *)
Lemma chunk_labels B psize :
  1 <= B -> B < psize ->
  let ls := map fst (piece_sizes B psize) in
  labels_ok ls = true /\
  ls = LStart :: repeat LProcess (Z.to_nat (cdiv psize B) - 2) ++ [LFinish] /\
  Z.of_nat (length ls) = cdiv psize B /\ 2 <= cdiv psize B.
Proof.
  intros HB Hp ls. unfold ls, piece_sizes.
  rewrite piece_sizes_with_labels, labels_fixed_at by assumption.
  pose proof (cdiv_ge2 psize B HB Hp) as H2.
  split; [apply labels_ok_seq|]. split; [reflexivity|]. split; [|assumption].
  unfold lab_seq. simpl. rewrite app_length, repeat_length. simpl. lia.
Qed.

(* every piece has B bytes except the last, which has 1..B; the sizes add up *)
Lemma piece_size_values B psize k :
  1 <= B -> 1 <= psize -> (k < Z.to_nat (cdiv psize B))%nat ->
  nth k (map snd (piece_sizes B psize)) 0 =
    (if Z.of_nat k + 1 <? cdiv psize B then B else psize - (cdiv psize B - 1) * B)
  /\ 1 <= nth k (map snd (piece_sizes B psize)) 0 <= B.
Proof.
  intros HB Hp Hk. pose proof (cdiv_bounds psize B HB) as Hc.
  assert (Heq : map snd (piece_sizes B psize)
                = map (fun k => Z.min B (psize - Z.of_nat k * B)) (seq 0 (Z.to_nat (cdiv psize B)))).
  { unfold piece_sizes, piece_sizes_with, py_range0. rewrite !map_map. reflexivity. }
  rewrite Heq. set (f := fun k : nat => Z.min B (psize - Z.of_nat k * B)).
  rewrite (nth_indep _ 0 (f 0%nat)) by (rewrite map_length, seq_length; lia).
  rewrite map_nth, seq_nth by lia. unfold f. rewrite Nat.add_0_l.
  destruct (Z.of_nat k + 1 <? cdiv psize B) eqn:E.
  - apply Z.ltb_lt in E. split; nia.
  - apply Z.ltb_ge in E. assert (Z.of_nat k = cdiv psize B - 1) as -> by lia. split; nia.
Qed.

(* ---- reassembly ---- *)

Lemma concat_slices {X} (data : list X) B n :
  1 <= B ->
  concat (map (fun k => pyslice data (Z.of_nat k * B) (Z.of_nat k * B + B)) (seq 0 n))
  = firstn (Z.to_nat (Z.of_nat n * B)) data.
Proof.
  intros HB. induction n as [|n IH]; [reflexivity|].
  rewrite seq_S, map_app, concat_app, IH. cbn [map concat]. rewrite app_nil_r, Nat.add_0_l.
  rewrite pyslice_pos by nia.
  replace (Z.of_nat n * B + B - Z.of_nat n * B) with B by lia.
  rewrite firstn_plus_skipn. f_equal. nia.
Qed.

Lemma pieces_with_concat {X} rule_len B (data : list X) :
  1 <= B -> concat (map snd (pieces_with rule_len B data)) = data.
Proof.
  intros HB. unfold pieces_with, py_range0. rewrite !map_map. cbn [snd].
  rewrite concat_slices by assumption.
  pose proof (cdiv_bounds (zlen data) B HB) as Hc. pose proof (zlen_nonneg data) as Hl.
  apply firstn_all2. unfold zlen in *.
  destruct (Z_le_gt_dec (cdiv (Z.of_nat (length data)) B) 0) as [Hz|Hz]; nia.
Qed.

Section Reassembly.
  Variable A : Type.
  Variable loads : list A -> option entry.

  Lemma recv_middle ps : forall buf e,
    middle_ok (map fst ps) = true ->
    loads (buf ++ concat (map snd ps)) = Some e ->
    recv_run loads (Some buf) (to_msgs ps)
    = (None, repeat RNeedMore (length ps - 1) ++ [RGot e]).
  Proof.
    induction ps as [|[lab d] ps IH]; intros buf e Hm Hl; [discriminate|].
    cbn [map fst snd concat] in Hm, Hl. destruct lab; try discriminate.
    - (* process *)
      cbn [middle_ok] in Hm.
      assert (Hne : ps <> []) by (intro; subst ps; discriminate).
      cbn [to_msgs map fst snd recv_run recv_step].
      rewrite app_assoc in Hl. fold (to_msgs ps). rewrite (IH _ _ Hm Hl).
      replace (length ((LProcess, d) :: ps) - 1)%nat with (S (length ps - 1))
        by (destruct ps; [congruence|cbn [length]; lia]).
      reflexivity.
    - (* finish *)
      destruct ps as [|p ps']; [|destruct (fst p); discriminate].
      cbn [map concat] in Hl. rewrite app_nil_r in Hl.
      cbn [to_msgs map fst snd recv_run recv_step length]. rewrite Hl. reflexivity.
  Qed.

  (* a well-labelled piece list is reassembled whatever the buffer held before *)
  Lemma recv_labelled ps buf0 e :
    labels_ok (map fst ps) = true ->
    loads (concat (map snd ps)) = Some e ->
    recv_run loads buf0 (to_msgs ps) = (None, repeat RNeedMore (length ps - 1) ++ [RGot e]).
  Proof.
    intros Hok Hl. destruct ps as [|[lab d] ps]; [discriminate|].
    cbn [map fst labels_ok] in Hok. destruct lab; try discriminate.
    cbn [map snd concat] in Hl.
    cbn [to_msgs map fst snd recv_run recv_step]. fold (to_msgs ps).
    assert (Hne : ps <> []) by (intro; subst ps; discriminate).
    rewrite (recv_middle ps d e Hok Hl).
    replace (length ((LStart, d) :: ps) - 1)%nat with (S (length ps - 1))
      by (destruct ps; [congruence|cbn [length]; lia]).
    reflexivity.
  Qed.

  (* C11_reassembly *)
  Lemma reassembly B (data : list A) e buf0 :
    1 <= B -> B < zlen data -> loads data = Some e ->
    concat (map snd (pieces B data)) = data /\
    recv_run loads buf0 (to_msgs (pieces B data))
    = (None, repeat RNeedMore (length (pieces B data) - 1) ++ [RGot e]) /\
    Z.of_nat (length (pieces B data)) = cdiv (zlen data) B.
  Proof.
    intros HB Hd Hl. unfold pieces.
    pose proof (pieces_with_concat (zlen data) B data HB) as Hc.
    split; [exact Hc|]. split.
    - apply recv_labelled; [|now rewrite Hc].
      rewrite pieces_with_labels, labels_fixed_at by assumption. apply labels_ok_seq.
    - unfold pieces_with, py_range0. rewrite !map_length, seq_length.
      pose proof (cdiv_ge2 (zlen data) B HB Hd). lia.
  Qed.

  (* the same for the follower: one chunked entry appends exactly that entry *)
  Lemma follower_chunk prev ps s e :
    labels_ok (map fst ps) = true ->
    loads (concat (map snd ps)) = Some e ->
    follower_run loads s (map (fun lp => WPiece prev (fst lp) (snd lp)) ps)
    = mkF None (f_got s ++ [e]) (f_raised s).
  Proof.
    intros Hok Hl. destruct ps as [|[lab d] ps]; [discriminate|].
    cbn [map fst labels_ok] in Hok. destruct lab; try discriminate.
    cbn [map snd concat] in Hl. cbn [map fst snd]. unfold follower_run. cbn [fold_left follower_step recv_step].
    cbn [f_got f_raised].
    remember (f_got s) as got. remember (f_raised s) as rz. clear Heqgot Heqrz s.
    revert d Hok Hl. induction ps as [|[lab d'] ps IH]; intros d Hok Hl; [discriminate|].
    cbn [map fst snd concat] in Hok, Hl. destruct lab; try discriminate.
    - cbn [middle_ok] in Hok. cbn [map fst snd fold_left follower_step recv_step f_buf f_got f_raised].
      apply IH; [assumption|]. now rewrite <- app_assoc.
    - destruct ps as [|p ps']; [|destruct (fst p); discriminate].
      cbn [map concat] in Hl. rewrite app_nil_r in Hl.
      cbn [map fst snd fold_left follower_step recv_step f_buf f_got f_raised]. rewrite Hl. reflexivity.
  Qed.
End Reassembly.

(* ---- the pre-fix rule ---- *)

Lemma old_labels_at B size psize :
  old_labels B size psize = labels_at B size (Z.to_nat (cdiv psize B)).
Proof. apply piece_sizes_with_labels. Qed.

Lemma labels_at_good B len n :
  1 <= B -> (2 <= n)%nat ->
  (labels_ok (labels_at B len n) = true <->
   (forall k, (1 <= k < n - 1)%nat -> Z.of_nat k * B + B < len) /\ len <= Z.of_nat n * B).
Proof.
  intros HB Hn. unfold labels_at. rewrite (seq_split_ends n Hn). cbn [map]. rewrite map_app. cbn [map labels_ok].
  rewrite (label_rule_pos B len (Z.of_nat (n - 1) * B)) by nia.
  split.
  - intros H. apply middle_ok_inv in H. destruct H as [m Hm].
    apply app_inj_tail in Hm. destruct Hm as [Hmid Hlast].
    split.
    + intros k Hk.
      assert (Hin : In (label_rule B len (Z.of_nat k * B)) (repeat LProcess m)).
      { rewrite <- Hmid. apply in_map_iff. exists k. split; [reflexivity|]. apply in_seq. lia. }
      apply repeat_spec in Hin. rewrite label_rule_pos in Hin by nia.
      destruct (Z.of_nat k * B + B >=? len) eqn:E; [discriminate|].
      rewrite Z.geb_leb in E. apply Z.leb_gt in E. lia.
    + destruct (Z.of_nat (n - 1) * B + B >=? len) eqn:E; [|discriminate].
      apply Z.geb_le in E. nia.
  - intros [Hmid Hlast].
    rewrite (map_const_repeat _ LProcess).
    + destruct (Z.of_nat (n - 1) * B + B >=? len) eqn:E.
      * apply middle_ok_seq.
      * rewrite Z.geb_leb in E. apply Z.leb_gt in E. nia.
    + intros k Hk. apply in_seq in Hk. rewrite label_rule_pos by nia.
      destruct (Z.of_nat k * B + B >=? len) eqn:E; [|reflexivity].
      apply Z.geb_le in E. specialize (Hmid k ltac:(lia)). lia.
Qed.

(* the old rule labels correctly exactly when the command and the pickled entry
   need the same number of pieces, or there are only two pieces *)
Lemma old_labels_char B size psize :
  1 <= B -> B <= size -> size < psize ->
  (labels_ok (old_labels B size psize) = true <->
   cdiv psize B <= 2 \/ cdiv size B = cdiv psize B).
Proof.
  intros HB Hs Hp. rewrite old_labels_at.
  pose proof (cdiv_bounds psize B HB) as Hcp. pose proof (cdiv_bounds size B HB) as Hcs.
  pose proof (cdiv_ge2 psize B HB ltac:(lia)) as H2.
  pose proof (cdiv_mono size psize B HB ltac:(lia)) as Hmono.
  rewrite labels_at_good by lia.
  rewrite Z2Nat.id by lia.
  split.
  - intros [Hmid _].
    destruct (Z_le_gt_dec (cdiv psize B) 2) as [Hle|Hgt]; [now left|right].
    specialize (Hmid (Z.to_nat (cdiv psize B) - 2)%nat ltac:(lia)).
    rewrite Nat2Z.inj_sub in Hmid by lia. rewrite Z2Nat.id in Hmid by lia.
    change (Z.of_nat 2) with 2 in Hmid.
    apply Z.le_antisymm; [assumption|]. nia.
  - intros Hc. split; [|nia].
    intros k Hk. destruct Hc as [Hc|Hc]; [lia|]. nia.
Qed.

Corollary old_labels_bad B size psize :
  1 <= B -> B <= size -> size < psize ->
  (labels_ok (old_labels B size psize) = false <->
   2 < cdiv psize B /\ cdiv size B < cdiv psize B).
Proof.
  intros HB Hs Hp. pose proof (old_labels_char B size psize HB Hs Hp) as H.
  pose proof (cdiv_mono size psize B HB ltac:(lia)) as Hmono.
  destruct (labels_ok (old_labels B size psize)); split; intros H'; try discriminate; try reflexivity.
  - destruct H as [H _]. specialize (H eq_refl). lia.
  - destruct (Z_le_gt_dec (cdiv psize B) 2) as [Hle|Hgt]; [lia|].
    destruct H as [_ H]. lia.
Qed.

(* C11_old_labels_refuted: B = 1000, a 1912-byte argument: command 1968, pickled entry 2026 *)
Lemma old_labels_refuted :
  exists B size psize, 1 <= B /\ B <= size /\ size < psize /\
    labels_ok (old_labels B size psize) = false /\
    old_labels B size psize = [LStart; LFinish; LFinish].
Proof.
  exists 1000, 1968, 2026. repeat split; try lia; vm_compute; reflexivity.
Qed.

(* what the receiver does with the mislabelled pieces: the second piece is labelled
   finish, the partial buffer does not unpickle, an exception escapes the handler *)
Lemma old_labels_receiver_raises :
  let good := 2026 in
  snd (recv_run (loads_len good dummy_entry) None
         (map (fun lp => (TL (fst lp), units (snd lp))) (piece_sizes_old 1968 1000 2026)))
  = [RNeedMore; RRaised; RGot dummy_entry].
Proof. vm_compute. reflexivity. Qed.

(* ---- non-vacuity ---- *)

Example chunk_labels_instance :
  map fst (piece_sizes 1000 2026) = [LStart; LProcess; LFinish] /\
  map snd (piece_sizes 1000 2026) = [1000; 1000; 26].
Proof. vm_compute. split; reflexivity. Qed.

(* boundary: size = B exactly (psize = B + 58) is chunked into two pieces;
   B = 1: one piece per byte *)
Example chunk_boundary_instance :
  piece_sizes 1000 1058 = [(LStart, 1000); (LFinish, 58)] /\
  piece_sizes 1 4 = [(LStart, 1); (LProcess, 1); (LProcess, 1); (LFinish, 1)] /\
  piece_sizes 7 14 = [(LStart, 7); (LFinish, 7)].
Proof. vm_compute. repeat split; reflexivity. Qed.

Example reassembly_instance :
  let data := [1; 2; 3; 4; 5; 6; 7] in
  let e := mkE 9 5 7 3 1 in
  let loads := fun b : list Z => if zlist_eqb b data then Some e else None in
  pieces 3 data = [(LStart, [1; 2; 3]); (LProcess, [4; 5; 6]); (LFinish, [7])] /\
  recv_run loads None (to_msgs (pieces 3 data)) = (None, [RNeedMore; RNeedMore; RGot e]).
Proof. vm_compute. split; reflexivity. Qed.

(* ---- the statements as Props/C11.v gives them (psize > size >= B >= 1) ---- *)

Lemma chunk_labels_thm B size psize :
  1 <= B -> B <= size -> size < psize ->
  let ls := map fst (piece_sizes B psize) in
  labels_ok ls = true /\
  ls = LStart :: repeat LProcess (Z.to_nat (cdiv psize B) - 2) ++ [LFinish] /\
  count_finish ls = 1%nat /\ last ls LStart = LFinish /\ hd LFinish ls = LStart /\
  (2 <= length ls)%nat /\ Z.of_nat (length ls) = cdiv psize B.
Proof.
  intros HB Hs Hp ls.
  destruct (chunk_labels B psize HB ltac:(lia)) as [H1 [H2 [H3 H4]]]. fold ls in H1, H2, H3.
  destruct (lab_seq_facts (Z.to_nat (cdiv psize B) - 2)) as [F1 [F2 [F3 F4]]].
  unfold lab_seq in *. rewrite <- H2 in F1, F2, F3, F4. auto 10.
Qed.

Lemma reassembly_thm (A : Type) (loads : list A -> option entry) B size (data : list A) e buf0 :
  1 <= B -> B <= size -> size < zlen data -> loads data = Some e ->
  concat (map snd (pieces B data)) = data /\
  recv_run loads buf0 (to_msgs (pieces B data))
  = (None, repeat RNeedMore (length (pieces B data) - 1) ++ [RGot e]) /\
  Z.of_nat (length (pieces B data)) = cdiv (zlen data) B /\
  map (fun lp => (fst lp, zlen (snd lp))) (pieces B data) = piece_sizes B (zlen data).
Proof.
  intros HB Hs Hp Hl.
  destruct (reassembly A loads B data e buf0 HB ltac:(lia) Hl) as [H1 [H2 H3]].
  repeat split; try assumption. apply pieces_with_sizes. assumption.
Qed.

(* ---- the comparison in the label rule must be >= : with > a pickled entry whose length is an
        exact multiple of the batch size is sent without a 'finish' piece ---- *)

Definition label_rule_strict (B len pos : Z) : label :=
  if pos =? 0 then LStart
  else if pos + B >? len then LFinish
  else LProcess.

Definition labels_strict (B psize : Z) : list label :=
  map (label_rule_strict B psize) (py_range0 psize B).

Definition C11_strict_rule_no_finish_stmt : Prop :=
  forall B k : Z, 1 <= B -> 1 <= k ->
    count_finish (labels_strict B (k * B)) = 0%nat /\ labels_ok (labels_strict B (k * B)) = false.

Lemma strict_no_finish_in B k pos : 1 <= B -> 1 <= k ->
  In pos (py_range0 (k * B) B) -> label_rule_strict B (k * B) pos <> LFinish.
Proof.
  intros HB Hk Hin. unfold py_range0 in Hin. apply in_map_iff in Hin.
  destruct Hin as (i & <- & Hi). apply in_seq in Hi.
  assert (Hc : cdiv (k * B) B = k).
  { unfold cdiv. replace (k * B + B - 1) with ((B - 1) + k * B) by lia.
    rewrite Z.div_add by lia. rewrite Z.div_small by lia. lia. }
  rewrite Hc in Hi. unfold label_rule_strict.
  destruct (Z.of_nat i * B =? 0); [discriminate|].
  destruct (Z.of_nat i * B + B >? k * B) eqn:Hgt; [|discriminate].
  exfalso. apply Z.gtb_lt in Hgt. nia.
Qed.

Lemma count_finish_none l : (forall x, In x l -> x <> LFinish) -> count_finish l = 0%nat.
Proof.
  unfold count_finish. induction l as [|a l IH]; intro H; [reflexivity|].
  cbn [filter]. destruct a; cbn [label_eqb length].
  - apply IH. intros x Hx. apply H. now right.
  - apply IH. intros x Hx. apply H. now right.
  - exfalso. apply (H LFinish); [now left|reflexivity].
Qed.

Lemma middle_ok_has_finish l : middle_ok l = true -> In LFinish l.
Proof.
  induction l as [|a l IH]; cbn [middle_ok]; [discriminate|].
  destruct a; try discriminate.
  - intro H. right. apply IH. exact H.
  - intros _. now left.
Qed.

Theorem strict_rule_no_finish : C11_strict_rule_no_finish_stmt.
Proof.
  intros B k HB Hk.
  assert (Hno : forall x, In x (labels_strict B (k * B)) -> x <> LFinish).
  { intros x Hx. unfold labels_strict in Hx. apply in_map_iff in Hx. destruct Hx as (pos & <- & Hpos).
    now apply strict_no_finish_in. }
  split; [now apply count_finish_none|].
  destruct (labels_ok (labels_strict B (k * B))) eqn:Hok; [|reflexivity].
  exfalso. unfold labels_ok in Hok. destruct (labels_strict B (k * B)) as [|a r] eqn:Hl; [discriminate|].
  destruct a; try discriminate. apply middle_ok_has_finish in Hok.
  apply (Hno LFinish); [now right|reflexivity].
Qed.

Example strict_rule_example : labels_strict 64 128 = [LStart; LProcess] /\
  map fst (piece_sizes 64 128) = [LStart; LFinish].
Proof. vm_compute. split; reflexivity. Qed.
