(* The decorator's packing and __doApplyCommand's unpacking are inverse. *)
From Coq Require Import ZArith List Lia Bool.
From PSO Require Import Chunking.Model.
Import ListNotations.
Open Scope Z_scope.

Section PackUnpack.
  Variable V K : Type.
  Variable K_eqb : K -> K -> bool.
  Hypothesis K_eqb_spec : forall a b, K_eqb a b = true <-> a = b.
  Variable doApply : K.
  Variable vtrue : V.

  Lemma K_eqb_false a b : a <> b -> K_eqb a b = false.
  Proof.
    intros H. destruct (K_eqb a b) eqn:E; [|reflexivity]. apply K_eqb_spec in E. contradiction.
  Qed.

  Lemma K_eqb_refl a : K_eqb a a = true.
  Proof. now apply K_eqb_spec. Qed.

  Lemma dict_set_fresh d k v : ~ In k (keys d) -> dict_set V K K_eqb d k v = d ++ [(k, v)].
  Proof.
    induction d as [|[k' v'] d IH]; intros H; [reflexivity|].
    cbn [dict_set]. rewrite K_eqb_false by (intro; subst; apply H; now left).
    cbn [app]. f_equal. apply IH. intro Hin. apply H. now right.
  Qed.

  (* updating a dict with keyword arguments whose names are distinct and not yet present
     appends them in order *)
  Lemma dict_update_fresh n : forall d,
    NoDup (keys n) -> (forall k, In k (keys n) -> ~ In k (keys d)) ->
    dict_update V K K_eqb d n = d ++ n.
  Proof.
    induction n as [|[k v] n IH]; intros d Hnd Hfresh; [now rewrite app_nil_r|].
    unfold dict_update. cbn [fold_left fst snd]. fold (dict_update V K K_eqb (dict_set V K K_eqb d k v) n).
    rewrite dict_set_fresh by (apply Hfresh; now left).
    inversion Hnd as [|k0 n0 Hnotin Hnd']; subst.
    rewrite IH.
    - now rewrite <- app_assoc.
    - assumption.
    - intros k' Hk'. unfold keys. rewrite map_app, in_app_iff. cbn [map fst In].
      intros [H|[H|[]]].
      + apply (Hfresh k'); [now right|assumption].
      + subst k'. contradiction.
  Qed.

  Lemma dict_pop_head k v d : dict_pop V K K_eqb ((k, v) :: d) k = (Some v, d).
  Proof. cbn [dict_pop]. now rewrite K_eqb_refl. Qed.

  (* C11_pack_unpack, on the unpickled object *)
  Lemma apply_pack fid args kw reserved :
    args_ok doApply kw ->
    apply_call V K K_eqb doApply vtrue (pack V K fid args kw reserved) = (Some vtrue, (fid, args, kw)).
  Proof.
    intros [Hnd Hno]. unfold pack, apply_call.
    destruct (negb (is_nil kw) || reserved) eqn:E1.
    - cbn [unpack]. rewrite dict_update_fresh.
      + cbn [app]. now rewrite dict_pop_head.
      + assumption.
      + intros k Hk. cbn [keys map fst In]. intros [H|[]]. subst k. contradiction.
    - apply orb_false_elim in E1. destruct E1 as [E1 _]. apply negb_false_iff in E1.
      destruct kw as [|p kw]; [|discriminate].
      destruct (negb (is_nil args)) eqn:E2.
      + cbn [unpack]. now rewrite dict_pop_head.
      + apply negb_false_iff in E2. destruct args as [|a args]; [|discriminate].
        cbn [unpack]. now rewrite dict_pop_head.
  Qed.

  (* the three shapes, and the two quirks *)
  Lemma pack_shapes fid args kw :
    pack V K fid [] [] false = CBare fid /\
    (args <> [] -> pack V K fid args [] false = CPair fid args) /\
    (kw <> [] -> pack V K fid args kw false = CTriple fid args kw) /\
    (kw <> [] -> pack V K fid [] kw false = CTriple fid [] kw) /\      (* kwargs only: (funcID, (), kwargs) *)
    pack V K fid args kw true = CTriple fid args kw.                   (* sync= / timeout= passed *)
  Proof.
    unfold pack. repeat split.
    - intros H. destruct args; [congruence|reflexivity].
    - intros H. destruct kw; [congruence|reflexivity].
    - intros H. destruct kw; [congruence|reflexivity].
    - now rewrite orb_true_r.
  Qed.

  Variable B8 : Type.
  Variable regular : B8.
  Variable B8_eqb : B8 -> B8 -> bool.
  Hypothesis B8_eqb_refl : forall b, B8_eqb b b = true.
  Variable cdumps : cmd V K -> list B8.
  Variable cloads : list B8 -> option (cmd V K).
  Hypothesis round_trip : forall c, cloads (cdumps c) = Some c.

  (* C11_pack_unpack, through the bytes stored in the log *)
  Lemma pack_unpack fid args kw reserved :
    args_ok doApply kw ->
    apply_command V K K_eqb doApply vtrue B8 regular B8_eqb cloads
      (make_command V K B8 regular cdumps (pack V K fid args kw reserved))
    = Some (Some vtrue, (fid, args, kw)).
  Proof.
    intros Hok. unfold apply_command, make_command.
    rewrite B8_eqb_refl, round_trip. f_equal. now apply apply_pack.
  Qed.
End PackUnpack.

(* ---- non-vacuity: keys and values are numbers, the codec is a tagged flattening ---- *)

Definition ex_cmd := cmd Z Z.

Fixpoint ex_flat_kw (kw : list (Z * Z)) : list Z :=
  match kw with
  | [] => []
  | (k, v) :: r => k :: v :: ex_flat_kw r
  end.

Fixpoint ex_unflat_kw (fuel : nat) (l : list Z) : list (Z * Z) :=
  match fuel, l with
  | S f, k :: v :: r => (k, v) :: ex_unflat_kw f r
  | _, _ => []
  end.

Definition ex_dumps (c : ex_cmd) : list Z :=
  match c with
  | CBare f => [0; f]
  | CPair f a => 1 :: f :: Z.of_nat (length a) :: a
  | CTriple f a kw => 2 :: f :: Z.of_nat (length a) :: a ++ ex_flat_kw kw
  end.

Definition ex_loads (l : list Z) : option ex_cmd :=
  match l with
  | [0; f] => Some (CBare f)
  | 1 :: f :: n :: r => Some (CPair f (firstn (Z.to_nat n) r))
  | 2 :: f :: n :: r =>
    Some (CTriple f (firstn (Z.to_nat n) r) (ex_unflat_kw (length r) (skipn (Z.to_nat n) r)))
  | _ => None
  end.

Lemma ex_unflat_flat kw : forall fuel, (length (ex_flat_kw kw) <= fuel)%nat ->
  ex_unflat_kw fuel (ex_flat_kw kw) = kw.
Proof.
  induction kw as [|[k v] kw IH]; intros fuel H; [destruct fuel; reflexivity|].
  cbn [ex_flat_kw length] in *. destruct fuel as [|fuel]; [lia|].
  cbn [ex_unflat_kw]. f_equal. apply IH. lia.
Qed.

Lemma ex_round_trip c : ex_loads (ex_dumps c) = Some c.
Proof.
  destruct c as [f|f a|f a kw]; cbn [ex_dumps ex_loads].
  - reflexivity.
  - rewrite Nat2Z.id, firstn_all. reflexivity.
  - rewrite Nat2Z.id.
    rewrite firstn_app, Nat.sub_diag, firstn_all. cbn [firstn]. rewrite app_nil_r.
    rewrite skipn_app, Nat.sub_diag, skipn_all. cbn [skipn app].
    rewrite ex_unflat_flat; [reflexivity|]. rewrite app_length. lia.
Qed.

Lemma ex_eqb_spec a b : Z.eqb a b = true <-> a = b.
Proof. apply Z.eqb_eq. Qed.

(* '_doApply' is key 0, True is 1, REGULAR is byte 0 *)
Example pack_unpack_instance :
  let run := fun fid args kw reserved =>
    apply_command Z Z Z.eqb 0 1 Z 0 Z.eqb ex_loads
      (make_command Z Z Z 0 ex_dumps (pack Z Z fid args kw reserved)) in
  run 7 [] [] false = Some (Some 1, (7, [], [])) /\
  run 7 [11; 12] [] false = Some (Some 1, (7, [11; 12], [])) /\
  run 7 [] [(5, 50)] false = Some (Some 1, (7, [], [(5, 50)])) /\
  run 7 [11] [(5, 50); (6, 60)] true = Some (Some 1, (7, [11], [(5, 50); (6, 60)])) /\
  pack Z Z 7 [] [(5, 50)] false = CTriple 7 [] [(5, 50)] /\
  pack Z Z 7 [] [] false = CBare 7 /\
  pack Z Z 7 [] [] true = CTriple 7 [] [].
Proof. vm_compute. repeat split; reflexivity. Qed.

Example pack_unpack_hyps_instance :
  args_ok 0 [(5, 50); (6, 60)] /\
  (forall c : ex_cmd, ex_loads (ex_dumps c) = Some c).
Proof.
  split; [|exact ex_round_trip].
  split.
  - cbn. repeat constructor; cbn; intuition lia.
  - cbn. intuition lia.
Qed.
