(* Executable model of the size batching / big-entry chunking path of
   pysyncobj/syncobj.py (the code as it is after the fix "label the last chunk
   of a large entry by the pickled length"):

     __getEntries                 -> get_entries, take_by_size
     __getPrevLogIndexTerm        -> prev_of
     __sendAppendEntries          -> send_loop   (one connected follower, frozen clock,
                                                  regular branch; the snapshot branch is
                                                  the marker BSnapshot and ends the model)
       big-entry branch           -> py_range0, label_rule, pieces / piece_sizes
     __onMessageReceived
       'transmission' reassembly  -> recv_step, recv_run, follower_step
     replicated (decorator)       -> pack
     __doApplyCommand (REGULAR)   -> unpack, apply_call, apply_command

   Oracles (inputs of the model, never axioms):
     e_size  e = len(command)               (measured by the harness)
     e_psize e = len(pickle.dumps(entry))   (measured by the harness)
     pickle as a codec: Section variables `dumps`/`loads`; the round-trip law is a
     Section hypothesis of the theorems in Proofs.v, not of this file.

   No proofs here. *)
From Coq Require Import ZArith List Bool.
From PSO Require Import Base.PyBytes.
Import ListNotations.
Open Scope Z_scope.

(* ------------------------------------------------------------------ *)
(* log entries: (command, idx, term); the command is abstracted to an
   identity and its two measured lengths                               *)

Record entry := mkE {
  e_id : Z;        (* identity of the command bytes *)
  e_size : Z;      (* len(entry[0]) *)
  e_psize : Z;     (* len(pickle.dumps(entry)) *)
  e_idx : Z;       (* entry[1] *)
  e_term : Z       (* entry[2] *)
}.

Definition dummy_entry : entry := mkE 0 0 0 0 0.

(* self.__raftLog[0][1] and self.__raftLog[-1][1]; the journal is never empty
   (IndexError otherwise) - the theorems carry that as part of log_wf *)
Definition first_idx (l : list entry) : Z := e_idx (hd dummy_entry l).
Definition last_idx (l : list entry) : Z := e_idx (last l dummy_entry).

(* the enumerate loop of __getEntries:
     totalSize = 0; i = 0
     for i, entry in enumerate(result):
         totalSize += len(entry[0])
         if totalSize >= maxSizeBytes: break
     return result[:i + 1]                                              *)
Fixpoint take_by_size (acc maxSize : Z) (l : list entry) : list entry :=
  match l with
  | [] => []
  | e :: r =>
    let acc' := acc + e_size e in
    if acc' >=? maxSize then [e] else e :: take_by_size acc' maxSize r
  end.

(* __getEntries(fromIDx, count=None, maxSizeBytes=None); None arguments are None *)
Definition get_entries (l : list entry) (from : option Z) (count : option Z)
           (maxSize : option Z) : list entry :=
  match from with
  | None => []
  | Some f =>
    if f <? first_idx l then []
    else
      let diff := f - first_idx l in
      let result := match count with
                    | None => pyslice_from l diff
                    | Some c => pyslice l diff (diff + c)
                    end in
      match maxSize with
      | None => result
      | Some m => take_by_size 0 m result
      end
  end.

(* __getPrevLogIndexTerm *)
Definition prev_of (l : list entry) (next : Z) : option (Z * Z) :=
  match get_entries l (Some (next - 1)) (Some 1) None with
  | e :: _ => Some (next - 1, e_term e)
  | [] => None
  end.

(* ------------------------------------------------------------------ *)
(* the sender's while loop                                             *)

Inductive batch :=
| BNormal (prev : option (Z * Z)) (es : list entry)    (* one message with 'entries' *)
| BChunked (prev : option (Z * Z)) (e : entry)         (* pickled entry cut in pieces *)
| BSnapshot.                                           (* the 'serialized' branch: not modelled further *)

Definition batch_entries (b : batch) : list entry :=
  match b with
  | BNormal _ es => es
  | BChunked _ e => [e]
  | BSnapshot => []
  end.

(* if len(entries) == 1 and len(entries[0][0]) >= batchSizeBytes *)
Definition classify (B : Z) (prev : option (Z * Z)) (es : list entry) : batch :=
  match es with
  | [e] => if e_size e >=? B then BChunked prev e else BNormal prev es
  | _ => BNormal prev es
  end.

Record send_result := mkSR {
  sr_batches : list batch;
  sr_next : Z;            (* self.__raftNextIndex[node] at loop exit *)
  sr_fuel_ok : bool       (* false: the fuel ran out (excluded by a lemma under log_wf) *)
}.

(* while nextNodeIndex <= self.__getCurrentLogIndex() or sendSingle or sendingSerialized:
   with the node connected all the time and monotonicTime() frozen (delta = 0).
   entries[-1][1] + 1 is `e_idx (last es dummy) + 1`; the IndexError on an empty
   `entries` cannot happen under log_wf (lemma). *)
Fixpoint send_loop (fuel : nat) (B : Z) (l : list entry) (next : Z) (single : bool) : send_result :=
  match fuel with
  | O => mkSR [] next false
  | S fuel' =>
    if (next <=? last_idx l) || single then
      if next >? first_idx l then
        let prev := prev_of l next in
        if next <=? last_idx l then
          let es := get_entries l (Some next) None (Some B) in
          let next' := e_idx (last es dummy_entry) + 1 in
          let r := send_loop fuel' B l next' false in
          mkSR (classify B prev es :: sr_batches r) (sr_next r) (sr_fuel_ok r)
        else
          let r := send_loop fuel' B l next false in
          mkSR (BNormal prev [] :: sr_batches r) (sr_next r) (sr_fuel_ok r)
      else mkSR [BSnapshot] next true
    else mkSR [] next true
  end.

(* one call of __sendAppendEntries for one follower *)
Definition send_all (B : Z) (l : list entry) (next : Z) : send_result :=
  send_loop (S (length l)) B l next true.

(* ------------------------------------------------------------------ *)
(* cutting the pickled entry                                           *)

Inductive label := LStart | LProcess | LFinish.

Definition label_eqb (a b : label) : bool :=
  match a, b with
  | LStart, LStart | LProcess, LProcess | LFinish, LFinish => true
  | _, _ => false
  end.

(* ceil(a / b) for b > 0 *)
Definition cdiv (a b : Z) : Z := (a + b - 1) / b.

(* xrange(0, stop, step), step >= 1 *)
Definition py_range0 (stop step : Z) : list Z :=
  map (fun k => Z.of_nat k * step) (seq 0 (Z.to_nat (cdiv stop step))).

(*   if pos == 0: 'start'
     elif pos + batchSizeBytes >= <len>: 'finish'
     else: 'process'
   the code as fixed uses <len> = len(entry) (the pickled entry that is being cut);
   the code before the fix used <len> = len(entries[0][0]) (the command)          *)
Definition label_rule (B len pos : Z) : label :=
  if pos =? 0 then LStart
  else if pos + B >=? len then LFinish
  else LProcess.

(* for pos in xrange(0, len(entry), B): (transmission, entry[pos:pos + B]) *)
Definition pieces_with {A} (rule_len B : Z) (data : list A) : list (label * list A) :=
  map (fun pos => (label_rule B rule_len pos, pyslice data pos (pos + B)))
      (py_range0 (zlen data) B).

Definition pieces {A} (B : Z) (data : list A) : list (label * list A) :=
  pieces_with (zlen data) B data.

(* pre-fix labelling: the rule looks at the command length `size` *)
Definition pieces_old {A} (size B : Z) (data : list A) : list (label * list A) :=
  pieces_with size B data.

(* the same on lengths only (what the correspondence check compares) *)
Definition piece_sizes_with (rule_len B psize : Z) : list (label * Z) :=
  map (fun pos => (label_rule B rule_len pos, Z.min B (psize - pos))) (py_range0 psize B).

Definition piece_sizes (B psize : Z) : list (label * Z) := piece_sizes_with psize B psize.
Definition piece_sizes_old (size B psize : Z) : list (label * Z) := piece_sizes_with size B psize.

(* the monitor: start, process*, finish *)
Fixpoint middle_ok (l : list label) : bool :=
  match l with
  | [LFinish] => true
  | LProcess :: r => middle_ok r
  | _ => false
  end.

Definition labels_ok (l : list label) : bool :=
  match l with
  | LStart :: r => middle_ok r
  | _ => false
  end.

(* ------------------------------------------------------------------ *)
(* messages on the wire, generic in what a piece carries (bytes or a length) *)

Inductive wire (P : Type) :=
| WEntries (prev : option (Z * Z)) (es : list entry)
| WPiece (prev : option (Z * Z)) (lab : label) (p : P)
| WSnapshot.
Arguments WEntries {P} _ _.
Arguments WPiece {P} _ _ _.
Arguments WSnapshot {P}.

Definition wire_of_batch {P} (cut : entry -> list (label * P)) (b : batch) : list (wire P) :=
  match b with
  | BNormal prev es => [WEntries prev es]
  | BChunked prev e => map (fun lp => WPiece prev (fst lp) (snd lp)) (cut e)
  | BSnapshot => [WSnapshot]
  end.

Definition wire_of {P} (cut : entry -> list (label * P)) (bs : list batch) : list (wire P) :=
  flat_map (wire_of_batch cut) bs.

(* lengths only: pieces of len(pickle.dumps(entry)) = e_psize *)
Definition cut_sizes (B : Z) (e : entry) : list (label * Z) := piece_sizes B (e_psize e).

(* ------------------------------------------------------------------ *)
(* receiver                                                            *)

Section Receiver.
  Variable A : Type.                       (* bytes of the pickled entry *)
  Variable loads : list A -> option entry. (* pickle.loads; None = it raises *)

  (* the 'transmission' field: one of the three labels or anything else *)
  Inductive tlabel := TL (l : label) | TOther.

  Inductive rout :=
  | RNeedMore            (* replied next_node_idx success=False reset=False, returned *)
  | RGot (e : entry)     (* newEntries = [pickle.loads(buffer)], buffer cleared *)
  | RRaised.             (* an exception escapes __onMessageReceived *)

  (* self.__recvTransmission: None is the initial / cleared value '' (a str: adding
     bytes to it raises TypeError), Some b is a bytes buffer *)
  Definition recv_step (buf : option (list A)) (lab : tlabel) (data : list A)
    : option (list A) * rout :=
    match lab with
    | TL LStart => (Some data, RNeedMore)
    | TL LProcess =>
      match buf with
      | Some b => (Some (b ++ data), RNeedMore)
      | None => (None, RRaised)
      end
    | TL LFinish =>
      match buf with
      | Some b =>
        match loads (b ++ data) with
        | Some e => (None, RGot e)
        | None => (Some (b ++ data), RRaised)     (* += done, loads raised, buffer kept *)
        end
      | None => (None, RRaised)
      end
    | TOther => (buf, RRaised)                    (* raise Exception('Wrong transmission type') *)
    end.

  Fixpoint recv_run (buf : option (list A)) (msgs : list (tlabel * list A))
    : option (list A) * list rout :=
    match msgs with
    | [] => (buf, [])
    | (lab, d) :: r =>
      let (buf1, o) := recv_step buf lab d in
      let (buf2, os) := recv_run buf1 r in
      (buf2, o :: os)
    end.

  (* the follower as far as C11 needs it: the entries it appends, in order.  (The
     prevLogIdx/prevLogTerm test belongs to the Raft core model.) *)
  Record fstate := mkF {
    f_buf : option (list A);
    f_got : list entry;       (* entries appended so far *)
    f_raised : bool
  }.

  Definition follower_step (s : fstate) (w : wire (list A)) : fstate :=
    match w with
    | WEntries _ es => mkF (f_buf s) (f_got s ++ es) (f_raised s)
    | WPiece _ lab d =>
      match recv_step (f_buf s) (TL lab) d with
      | (b, RNeedMore) => mkF b (f_got s) (f_raised s)
      | (b, RGot e) => mkF b (f_got s ++ [e]) (f_raised s)
      | (b, RRaised) => mkF b (f_got s) true
      end
    | WSnapshot => s
    end.

  Definition follower_run (s : fstate) (ws : list (wire (list A))) : fstate :=
    fold_left follower_step ws s.
End Receiver.
Arguments recv_step {A}.
Arguments recv_run {A}.
Arguments follower_step {A}.
Arguments follower_run {A}.
Arguments mkF {A}.
Arguments f_buf {A}.
Arguments f_got {A}.
Arguments f_raised {A}.

(* ------------------------------------------------------------------ *)
(* command packing in the decorator / unpacking in __doApplyCommand    *)

Section Packing.
  Variable V : Type.                  (* picklable values *)
  Variable K : Type.                  (* keyword names *)
  Variable K_eqb : K -> K -> bool.
  Variable doApply : K.               (* '_doApply' *)
  Variable vtrue : V.                 (* True *)

  (* what pickle.loads(command[1:]) can be, as far as __doApplyCommand looks at it *)
  Inductive cmd :=
  | CBare (fid : Z)                                         (* funcID *)
  | CPair (fid : Z) (args : list V)                         (* (funcID, args) *)
  | CTriple (fid : Z) (args : list V) (kw : list (K * V)).  (* (funcID, args, kwargs) *)

  Definition is_nil {X} (l : list X) : bool := match l with [] => true | _ => false end.

  (*  callback = kwargs.pop('callback', None)
      if kwargs:                 cmd = (funcID, args, kwargs)
      elif args and not kwargs:  cmd = (funcID, args)
      else:                      cmd = funcID
      sync = kwargs.pop('sync', False) ... timeout = kwargs.pop('timeout', None)
      applier(pickle.dumps(cmd), ...)
     `kw` are the caller's own keyword arguments; `reserved` says that 'sync' or
     'timeout' was passed: they make `if kwargs` true but are popped from the very
     dict the tuple holds before it is pickled. *)
  Definition pack (fid : Z) (args : list V) (kw : list (K * V)) (reserved : bool) : cmd :=
    if negb (is_nil kw) || reserved then CTriple fid args kw
    else if negb (is_nil args) then CPair fid args
    else CBare fid.

  (* dict as an association list in insertion order *)
  Fixpoint dict_set (d : list (K * V)) (k : K) (v : V) : list (K * V) :=
    match d with
    | [] => [(k, v)]
    | (k', v') :: r => if K_eqb k' k then (k', v) :: r else (k', v') :: dict_set r k v
    end.

  Definition dict_update (d n : list (K * V)) : list (K * V) :=
    fold_left (fun d kv => dict_set d (fst kv) (snd kv)) n d.

  Fixpoint dict_pop (d : list (K * V)) (k : K) : option V * list (K * V) :=
    match d with
    | [] => (None, [])
    | (k', v') :: r =>
      if K_eqb k' k then (Some v', r)
      else let (o, r') := dict_pop r k in (o, (k', v') :: r')
    end.

  (*  args = []; kwargs = {'_doApply': True}
      if not isinstance(command, tuple): funcID = command
      elif len(command) == 2:            funcID, args = command
      else:                              funcID, args, newKwArgs = command; kwargs.update(newKwArgs)
      return self._idToMethod[funcID](args..., kwargs...)                           *)
  Definition unpack (c : cmd) : Z * list V * list (K * V) :=
    match c with
    | CBare f => (f, [], [(doApply, vtrue)])
    | CPair f a => (f, a, [(doApply, vtrue)])
    | CTriple f a kw => (f, a, dict_update [(doApply, vtrue)] kw)
    end.

  (* newFunc: `if kwargs.pop('_doApply', False): return func(self, args..., kwargs...)`;
     result: the popped flag and what the user's function is called with *)
  Definition apply_call (c : cmd) : option V * (Z * list V * list (K * V)) :=
    match unpack c with
    | (f, a, kw) => let (flag, kw') := dict_pop kw doApply in (flag, (f, a, kw'))
    end.

  (* the bytes in the log: _bchr(_COMMAND_TYPE.REGULAR) + pickle.dumps(cmd) *)
  Variable B8 : Type.
  Variable regular : B8.                   (* the type byte 0 *)
  Variable B8_eqb : B8 -> B8 -> bool.
  Variable cdumps : cmd -> list B8.
  Variable cloads : list B8 -> option cmd.

  Definition make_command (c : cmd) : list B8 := regular :: cdumps c.

  (* __doApplyCommand on a REGULAR command: None = not REGULAR / does not unpickle *)
  Definition apply_command (command : list B8) : option (option V * (Z * list V * list (K * V))) :=
    match command with
    | t :: rest =>
      if B8_eqb t regular then
        match cloads rest with
        | Some c => Some (apply_call c)
        | None => None
        end
      else None
    | [] => None
    end.
End Packing.
Arguments CBare {V K}.
Arguments CPair {V K}.
Arguments CTriple {V K}.

(* ------------------------------------------------------------------ *)
(* specification predicates used by the theorems (definitions only)    *)

(* the journal holds consecutive indices (an invariant of the Raft core: entries are
   only ever added at getCurrentLogIndex()+1 or after truncation at prevLogIdx+1) *)
Fixpoint consec (i : Z) (l : list entry) : Prop :=
  match l with
  | [] => True
  | e :: r => e_idx e = i /\ consec (i + 1) r
  end.

Definition log_wf (l : list entry) : Prop := l <> [] /\ consec (first_idx l) l.

Definition suffix_from (l : list entry) (next : Z) : list entry :=
  skipn (Z.to_nat (next - first_idx l)) l.

Definition sum_size (l : list entry) : Z := fold_right (fun e a => e_size e + a) 0 l.

(* the byte rule of one batch, as coded *)
Definition batch_ok (B : Z) (b : batch) : Prop :=
  match b with
  | BNormal _ es =>
    es <> [] /\ sum_size (removelast es) < B /\ (forall e, es = [e] -> e_size e < B)
  | BChunked _ e => B <= e_size e
  | BSnapshot => False
  end.

(* ... and of the sequence: only the last batch may stay below B *)
Fixpoint batches_ok (B : Z) (bs : list batch) : Prop :=
  match bs with
  | [] => True
  | b :: r => batch_ok B b /\ (r <> [] -> B <= sum_size (batch_entries b)) /\ batches_ok B r
  end.

(* start, m times process, finish *)
Definition lab_seq (m : nat) : list label := LStart :: repeat LProcess m ++ [LFinish].

Definition count_finish (l : list label) : nat := length (filter (label_eqb LFinish) l).

(* labels of the old rule (finish when pos + B >= len(command)) *)
Definition old_labels (B size psize : Z) : list label := map fst (piece_sizes_old size B psize).


(* pieces as the receiver sees them: (transmission, data) *)
Definition to_msgs {A} (ps : list (label * list A)) : list (tlabel * list A) :=
  map (fun lp => (TL (fst lp), snd lp)) ps.

(* bytes-level cut of one entry: pieces of pickle.dumps(entry) *)
Definition cut_data {A} (dumps : entry -> list A) (B : Z) (e : entry) : list (label * list A) :=
  pieces B (dumps e).

Definition wire_len {A} (w : wire (list A)) : wire Z :=
  match w with
  | WEntries prev es => WEntries prev es
  | WPiece prev lab d => WPiece prev lab (zlen d)
  | WSnapshot => WSnapshot
  end.

(* keyword arguments a caller may pass: distinct names, none of them '_doApply' *)
Definition keys {K V} (d : list (K * V)) : list K := map fst d.
Definition args_ok {K V} (doApply : K) (kw : list (K * V)) : Prop :=
  NoDup (keys kw) /\ ~ In doApply (keys kw).

(* ------------------------------------------------------------------ *)
(* canonical observations for the correspondence check                 *)

Definition enc_prev (p : option (Z * Z)) : list Z :=
  match p with
  | None => [0; 0]
  | Some (i, t) => [i + 1; t + 1]
  end.

Definition enc_label (l : label) : Z :=
  match l with LStart => 1 | LProcess => 2 | LFinish => 3 end.

(* [3; prev; n; idx...]  |  [4; prev; label; len]  |  [5] *)
Definition enc_wire (w : wire Z) : list Z :=
  match w with
  | WEntries prev es => 3 :: enc_prev prev ++ Z.of_nat (length es) :: map e_idx es
  | WPiece prev lab len => 4 :: enc_prev prev ++ [enc_label lab; len]
  | WSnapshot => [5]
  end.

(* run-length encoding of equal consecutive observations: (obs, repeat) *)
Fixpoint zlist_eqb (a b : list Z) : bool :=
  match a, b with
  | [], [] => true
  | x :: a', y :: b' => (x =? y) && zlist_eqb a' b'
  | _, _ => false
  end.

Fixpoint rle (l : list (list Z)) : list (list Z * Z) :=
  match l with
  | [] => []
  | x :: r =>
    match rle r with
    | (y, n) :: t => if zlist_eqb x y then (y, n + 1) :: t else (x, 1) :: (y, n) :: t
    | [] => [(x, 1)]
    end
  end.

Fixpoint first_diff (i : Z) (a b : list (list Z * Z)) : option Z :=
  match a, b with
  | [], [] => None
  | (x, n) :: a', (y, m) :: b' =>
    if zlist_eqb x y && (n =? m) then first_diff (i + 1) a' b' else Some i
  | _, _ => Some i
  end.

(* observation of one __sendAppendEntries call: the messages, then
   [raftNextIndex at exit; fuel flag] *)
Definition obs_send (B : Z) (l : list entry) (next : Z) : list (list Z * Z) :=
  let r := send_all B l next in
  rle (map enc_wire (wire_of (cut_sizes B) (sr_batches r)))
  ++ [([sr_next r; if sr_fuel_ok r then 1 else 0], 1)].

Definition check_send (B : Z) (l : list entry) (next : Z) (expected : list (list Z * Z)) : option Z :=
  first_diff 0 (obs_send B l next) expected.

(* a run of one cluster: the leader's log only grows, so the log at a tick is a
   prefix (of length k) of the final log; cases are (k, next, expected).
   Result: (case number, first differing message) of every mismatching case. *)
Fixpoint check_run_from (i : Z) (B : Z) (l : list entry)
         (cases : list (Z * Z * list (list Z * Z))) : list (Z * Z) :=
  match cases with
  | [] => []
  | (k, next, expected) :: r =>
    match check_send B (firstn (Z.to_nat k) l) next expected with
    | None => check_run_from (i + 1) B l r
    | Some d => (i, d) :: check_run_from (i + 1) B l r
    end
  end.

Definition check_run := check_run_from 0.

(* __getEntries alone: observation = indices of the returned entries *)
Definition check_get (l : list entry) (from count maxSize : option Z) (expected : list Z) : bool :=
  zlist_eqb (map e_idx (get_entries l from count maxSize)) expected.

(* receiver alone.  recv_step is parametric in the byte type A and touches the data only through
   ++ and the loads oracle, so a piece of n bytes is handed to it as the one-token list [n]
   (A := Z, a token stands for that many bytes); a buffer's byte length is the sum of its tokens.
   The loads oracle accepts exactly the byte length `good` (= len(pickle.dumps(entry))). *)
Definition units (n : Z) : list unit := repeat tt (Z.to_nat n).

Definition loads_len (good : Z) (e : entry) (b : list unit) : option entry :=
  if zlen b =? good then Some e else None.

Definition tok_len (b : list Z) : Z := fold_right Z.add 0 b.

Definition loads_tok (good : Z) (e : entry) (b : list Z) : option entry :=
  if tok_len b =? good then Some e else None.

Definition enc_rout (o : rout) : Z :=
  match o with RNeedMore => 0 | RGot _ => 1 | RRaised => 2 end.

(* messages: (label code 1/2/3/other, data length); observation per message:
   [outcome; buffer length + 1 or 0 for ''] *)
Fixpoint recv_obs (good : Z) (e : entry) (buf : option (list Z)) (msgs : list (Z * Z))
  : list (list Z) :=
  match msgs with
  | [] => []
  | (lc, n) :: r =>
    let lab := if lc =? 1 then TL LStart else if lc =? 2 then TL LProcess
               else if lc =? 3 then TL LFinish else TOther in
    let (buf1, o) := recv_step (loads_tok good e) buf lab [n] in
    [enc_rout o; match buf1 with None => 0 | Some b => tok_len b + 1 end] :: recv_obs good e buf1 r
  end.

Fixpoint first_diff_plain (i : Z) (a b : list (list Z)) : option Z :=
  match a, b with
  | [], [] => None
  | x :: a', y :: b' => if zlist_eqb x y then first_diff_plain (i + 1) a' b' else Some i
  | _, _ => Some i
  end.

Definition check_recv (good : Z) (msgs : list (Z * Z)) (expected : list (list Z)) : option Z :=
  first_diff_plain 0 (recv_obs good dummy_entry None msgs) expected.

(* compressed literals (the generated case files stay small): messages as runs
   (label, len, count); expected observations as arithmetic progressions
   (outcome, first buffer length, step, count) *)
Fixpoint expand_ap (o first step : Z) (n : nat) : list (list Z) :=
  match n with
  | O => []
  | S n' => [o; first] :: expand_ap o (first + step) step n'
  end.

Definition expand_exp (l : list (Z * Z * Z * Z)) : list (list Z) :=
  flat_map (fun x => match x with (o, f, st, c) => expand_ap o f st (Z.to_nat c) end) l.

Definition expand_msgs (l : list (Z * Z * Z)) : list (Z * Z) :=
  flat_map (fun x => match x with (lab, len, c) => repeat (lab, len) (Z.to_nat c) end) l.

Definition check_recv_c (good : Z) (msgs : list (Z * Z * Z)) (expected : list (Z * Z * Z * Z)) : option Z :=
  check_recv good (expand_msgs msgs) (expand_exp expected).

(* decorator packing: nargs positional values, nkw keyword arguments with distinct names
   1..nkw ('_doApply' is name 0, True is 1, funcID 7); expected = shape of the unpickled
   command (0 bare, 1 pair, 2 triple).  Also checks that the call executes with the same
   arguments. *)
Definition shape_code {V K} (c : cmd V K) : Z :=
  match c with CBare _ => 0 | CPair _ _ => 1 | CTriple _ _ _ => 2 end.

Fixpoint zpairs_eqb (a b : list (Z * Z)) : bool :=
  match a, b with
  | [], [] => true
  | (x, y) :: a', (x', y') :: b' => (x =? x') && (y =? y') && zpairs_eqb a' b'
  | _, _ => false
  end.

Definition check_pack (nargs nkw : Z) (reserved : bool) (expected_shape : Z) : bool :=
  let args := map Z.of_nat (seq 1 (Z.to_nat nargs)) in
  let kw := map (fun k => (Z.of_nat k, Z.of_nat k + 100)) (seq 1 (Z.to_nat nkw)) in
  let c := pack Z Z 7 args kw reserved in
  (shape_code c =? expected_shape) &&
  match apply_call Z Z Z.eqb 0 1 c with
  | (Some 1, (7, a, k)) => zlist_eqb a args && zpairs_eqb k kw
  | _ => false
  end.
