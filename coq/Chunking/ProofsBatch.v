(* __getEntries size batching and the sender's while loop: every entry from
   nextIndex to the end is emitted exactly once, in order. *)
From Coq Require Import ZArith List Lia Bool.
From PSO Require Import Base.PyBytes Base.PyBytesFacts Chunking.Model Chunking.ProofsChunk.
Import ListNotations.
Open Scope Z_scope.

(* ---- consec ---- *)

Lemma consec_app i a b : consec i (a ++ b) <-> consec i a /\ consec (i + zlen a) b.
Proof.
  revert i; induction a as [|x a IH]; intros i.
  - simpl. unfold zlen. simpl. rewrite Z.add_0_r. tauto.
  - cbn [app consec]. rewrite IH. unfold zlen. cbn [length]. rewrite Nat2Z.inj_succ.
    replace (i + 1 + Z.of_nat (length a)) with (i + Z.succ (Z.of_nat (length a))) by lia. tauto.
Qed.

Lemma consec_last i l d : l <> [] -> consec i l -> e_idx (last l d) = i + zlen l - 1.
Proof.
  revert i; induction l as [|x l IH]; intros i Hne Hc; [congruence|].
  destruct Hc as [Hx Hc]. destruct l as [|y l].
  - simpl. unfold zlen. simpl. lia.
  - change (last (x :: y :: l) d) with (last (y :: l) d).
    rewrite (IH (i + 1)) by (congruence || assumption).
    unfold zlen. cbn [length]. lia.
Qed.

Lemma consec_skipn k : forall i l, consec i l -> consec (i + Z.of_nat k) (skipn k l).
Proof.
  induction k as [|k IH]; intros i l Hc.
  - simpl. now rewrite Z.add_0_r.
  - destruct l as [|x l]; [exact I|]. destruct Hc as [_ Hc]. cbn [skipn].
    replace (i + Z.of_nat (S k)) with (i + 1 + Z.of_nat k) by lia. now apply IH.
Qed.

Lemma consec_bounds i l e : consec i l -> In e l -> i <= e_idx e < i + zlen l.
Proof.
  revert i; induction l as [|x l IH]; intros i Hc Hin; [destruct Hin|].
  destruct Hc as [Hx Hc]. unfold zlen. cbn [length]. destruct Hin as [->|Hin].
  - lia.
  - specialize (IH (i + 1) Hc Hin). unfold zlen in IH. lia.
Qed.

Lemma wf_last l : log_wf l -> last_idx l = first_idx l + zlen l - 1.
Proof. intros [Hne Hc]. unfold last_idx. now apply consec_last. Qed.

Lemma wf_zlen_pos l : log_wf l -> 1 <= zlen l.
Proof. intros [Hne _]. destruct l; [congruence|]. unfold zlen. cbn [length]. lia. Qed.

Lemma suffix_consec l next :
  log_wf l -> first_idx l <= next -> consec next (suffix_from l next).
Proof.
  intros [_ Hc] Hn. unfold suffix_from.
  replace next with (first_idx l + Z.of_nat (Z.to_nat (next - first_idx l))) at 1 by lia.
  now apply consec_skipn.
Qed.

Lemma suffix_zlen l next :
  log_wf l -> first_idx l <= next <= last_idx l + 1 ->
  zlen (suffix_from l next) = last_idx l + 1 - next.
Proof.
  intros Hwf Hn. rewrite (wf_last l Hwf) in *. unfold suffix_from, zlen in *.
  rewrite skipn_length. lia.
Qed.

Lemma skipn_add {X} (b a : nat) : forall l : list X, skipn a (skipn b l) = skipn (b + a) l.
Proof.
  induction b as [|b IH]; intros l; [reflexivity|].
  destruct l as [|x l]; [now rewrite !skipn_nil|]. cbn [skipn Nat.add]. apply IH.
Qed.

Lemma suffix_skip l next k :
  first_idx l <= next ->
  suffix_from l (next + Z.of_nat k) = skipn k (suffix_from l next).
Proof.
  intros Hn. unfold suffix_from. rewrite skipn_add. f_equal. lia.
Qed.

Lemma suffix_split l next :
  log_wf l -> first_idx l <= next ->
  l = firstn (Z.to_nat (next - first_idx l)) l ++ suffix_from l next /\
  Forall (fun e => e_idx e < next) (firstn (Z.to_nat (next - first_idx l)) l) /\
  Forall (fun e => next <= e_idx e) (suffix_from l next).
Proof.
  intros Hwf Hn. split; [symmetry; apply firstn_skipn|].
  pose proof (firstn_skipn (Z.to_nat (next - first_idx l)) l) as Hsplit.
  destruct Hwf as [_ Hc]. rewrite <- Hsplit in Hc at 2. apply consec_app in Hc. destruct Hc as [Hc1 Hc2].
  split; apply Forall_forall; intros e Hin.
  - pose proof (consec_bounds _ _ _ Hc1 Hin) as Hb.
    unfold zlen in Hb. rewrite firstn_length in Hb. lia.
  - destruct (Z_le_gt_dec (zlen l) (next - first_idx l)) as [Hbig|Hsmall].
    + unfold suffix_from in Hin. rewrite skipn_all2 in Hin by (unfold zlen in Hbig; lia). destruct Hin.
    + pose proof (consec_bounds _ _ _ Hc2 Hin) as Hb.
      unfold zlen in Hb, Hsmall. rewrite firstn_length in Hb. unfold suffix_from in Hb. lia.
Qed.

(* ---- take_by_size ---- *)

Lemma take_prefix l : forall acc m, exists r, l = take_by_size acc m l ++ r.
Proof.
  induction l as [|e l IH]; intros acc m; [now exists []|].
  cbn [take_by_size]. destruct (acc + e_size e >=? m).
  - now exists l.
  - destruct (IH (acc + e_size e) m) as [r Hr]. exists r. cbn [app]. now rewrite <- Hr.
Qed.

Lemma take_nonempty e l acc m : take_by_size acc m (e :: l) <> [].
Proof. cbn [take_by_size]. destruct (acc + e_size e >=? m); discriminate. Qed.

Lemma removelast_cons {X} (x y : X) l : removelast (x :: y :: l) = x :: removelast (y :: l).
Proof. reflexivity. Qed.

(* the running sum stays below the limit up to the last entry taken, and reaches it
   unless the list ended *)
Lemma take_rule l : forall acc m,
  acc + sum_size (removelast (take_by_size acc m l)) < m \/ take_by_size acc m l = [] \/
  (exists e, take_by_size acc m l = [e]).
Proof.
  induction l as [|e l IH]; intros acc m; [right; now left|].
  cbn [take_by_size]. destruct (acc + e_size e >=? m) eqn:E.
  - right. right. now exists e.
  - rewrite Z.geb_leb in E. apply Z.leb_gt in E.
    destruct l as [|y l].
    + right. right. now exists e.
    + left. pose proof (take_nonempty y l (acc + e_size e) m) as Hne.
      destruct (take_by_size (acc + e_size e) m (y :: l)) as [|z t] eqn:Et; [congruence|].
      rewrite removelast_cons. cbn [sum_size fold_right]. fold (sum_size (removelast (z :: t))).
      destruct (IH (acc + e_size e) m) as [H|[H|[e' H]]].
      * rewrite Et in H. lia.
      * rewrite Et in H. discriminate.
      * rewrite Et in H. injection H as -> ->. simpl. lia.
Qed.

Lemma take_rule0 l m :
  l <> [] -> sum_size (removelast (take_by_size 0 m l)) < m \/ exists e, take_by_size 0 m l = [e].
Proof.
  intros Hne. destruct (take_rule l 0 m) as [H|[H|H]].
  - left. lia.
  - destruct l; [congruence|]. exfalso. now apply (take_nonempty e l 0 m).
  - now right.
Qed.

Lemma sum_size_app a b : sum_size (a ++ b) = sum_size a + sum_size b.
Proof. induction a as [|x a IH]; simpl; [reflexivity|]. unfold sum_size in *. lia. Qed.

(* stopped before the end of the list => the limit was reached *)
Lemma take_full l : forall acc m r,
  l = take_by_size acc m l ++ r -> r <> [] -> m <= acc + sum_size (take_by_size acc m l).
Proof.
  induction l as [|e l IH]; intros acc m r Hl Hr.
  - simpl in Hl. congruence.
  - cbn [take_by_size] in *. destruct (acc + e_size e >=? m) eqn:E.
    + apply Z.geb_le in E. simpl. lia.
    + cbn [app] in Hl. injection Hl as Hl. specialize (IH _ _ _ Hl Hr).
      cbn [sum_size fold_right]. fold (sum_size (take_by_size (acc + e_size e) m l)). lia.
Qed.

(* ---- get_entries ---- *)

Lemma skipn_min {X} (l : list X) (d : Z) :
  0 <= d -> skipn (Z.to_nat (Z.min d (zlen l))) l = skipn (Z.to_nat d) l.
Proof.
  intros Hd. unfold zlen. destruct (Z_le_gt_dec d (Z.of_nat (length l))) as [H|H].
  - now rewrite Z.min_l by lia.
  - rewrite Z.min_r by lia. rewrite !skipn_all2; [reflexivity| |]; lia.
Qed.

Lemma get_entries_batch l f B :
  first_idx l <= f ->
  get_entries l (Some f) None (Some B) = take_by_size 0 B (suffix_from l f).
Proof.
  intros Hf. unfold get_entries, suffix_from, pyslice_from, norm_idx.
  destruct (f <? first_idx l) eqn:E; [apply Z.ltb_lt in E; lia|].
  destruct (f - first_idx l <? 0) eqn:E2; [apply Z.ltb_lt in E2; lia|].
  now rewrite skipn_min by lia.
Qed.

(* fromIDx None or below the first index: nothing *)
Lemma get_entries_none l count maxSize : get_entries l None count maxSize = [].
Proof. reflexivity. Qed.

Lemma get_entries_below l f count maxSize :
  f < first_idx l -> get_entries l (Some f) count maxSize = [].
Proof.
  intros H. unfold get_entries. destruct (f <? first_idx l) eqn:E; [reflexivity|apply Z.ltb_ge in E; lia].
Qed.

(* with a size limit and a non-empty range, at least one entry comes back *)
Lemma get_entries_nonempty l f B :
  log_wf l -> first_idx l <= f <= last_idx l -> get_entries l (Some f) None (Some B) <> [].
Proof.
  intros Hwf Hf. rewrite get_entries_batch by lia.
  pose proof (suffix_zlen l f Hwf ltac:(lia)) as Hz.
  destruct (suffix_from l f) as [|e s]; [unfold zlen in Hz; simpl in Hz; lia|apply take_nonempty].
Qed.

(* ---- the send loop ---- *)

Lemma classify_entries B prev es : batch_entries (classify B prev es) = es.
Proof.
  unfold classify. destruct es as [|e [|e' r]]; try reflexivity.
  destruct (e_size e >=? B); reflexivity.
Qed.

Lemma classify_ok B prev l :
  1 <= B -> l <> [] -> batch_ok B (classify B prev (take_by_size 0 B l)).
Proof.
  intros HB Hne. pose proof (take_rule0 l B Hne) as Hr.
  assert (Hne' : take_by_size 0 B l <> []) by (destruct l; [congruence|apply take_nonempty]).
  unfold classify. destruct (take_by_size 0 B l) as [|e [|e' r]] eqn:Et; [congruence| |].
  - destruct (e_size e >=? B) eqn:E.
    + apply Z.geb_le in E. exact E.
    + rewrite Z.geb_leb in E. apply Z.leb_gt in E. cbn [batch_ok]. split; [discriminate|].
      split; [simpl; lia|]. intros e0 H. injection H as <-. exact E.
  - cbn [batch_ok]. split; [discriminate|]. split.
    + destruct Hr as [Hr|[e0 Hr]]; [exact Hr|discriminate].
    + intros e0 H. discriminate.
Qed.

Lemma send_loop_single fuel B l next :
  next <= last_idx l -> send_loop fuel B l next true = send_loop fuel B l next false.
Proof.
  intros H. destruct fuel as [|fuel]; [reflexivity|]. cbn [send_loop].
  assert (E : (next <=? last_idx l) = true) by (apply Z.leb_le; exact H).
  rewrite E. reflexivity.
Qed.

Lemma send_loop_spec B l : 1 <= B -> log_wf l -> forall fuel next,
  first_idx l < next -> next <= last_idx l + 1 ->
  (length (suffix_from l next) < fuel)%nat ->
  let r := send_loop fuel B l next false in
  sr_fuel_ok r = true /\ sr_next r = last_idx l + 1 /\
  concat (map batch_entries (sr_batches r)) = suffix_from l next /\
  batches_ok B (sr_batches r).
Proof.
  intros HB Hwf. induction fuel as [|fuel IH]; intros next Hlo Hhi Hfuel; [lia|].
  cbn [send_loop]. rewrite orb_false_r.
  pose proof (suffix_zlen l next Hwf ltac:(lia)) as Hz.
  destruct (next <=? last_idx l) eqn:E.
  - apply Z.leb_le in E.
    assert (E2 : (next >? first_idx l) = true) by (apply Z.gtb_lt; lia). rewrite E2.
    rewrite get_entries_batch by lia.
    set (s := suffix_from l next) in *.
    destruct (take_prefix s 0 B) as [s' Hs].
    set (p := take_by_size 0 B s) in *.
    assert (Hsne : s <> []) by (intro H0; rewrite H0 in Hz; unfold zlen in Hz; simpl in Hz; lia).
    assert (Hpne : p <> []) by (unfold p; destruct s; [congruence|apply take_nonempty]).
    pose proof (suffix_consec l next Hwf ltac:(lia)) as Hcs. fold s in Hcs.
    rewrite Hs in Hcs. apply consec_app in Hcs. destruct Hcs as [Hcp _].
    rewrite (consec_last next p dummy_entry Hpne Hcp).
    assert (Hlen : zlen s = zlen p + zlen s') by (rewrite Hs at 1; apply zlen_app).
    assert (Hp1 : 1 <= zlen p) by (destruct p; [congruence|unfold zlen; cbn [length]; lia]).
    replace (next + zlen p - 1 + 1) with (next + Z.of_nat (length p)) by (unfold zlen; lia).
    assert (Hsuf : suffix_from l (next + Z.of_nat (length p)) = s').
    { rewrite suffix_skip by lia. fold s. rewrite Hs. rewrite skipn_app, Nat.sub_diag, skipn_all. reflexivity. }
    specialize (IH (next + Z.of_nat (length p))).
    destruct IH as [I1 [I2 [I3 I4]]].
    + unfold zlen in *. lia.
    + unfold zlen in *. lia.
    + rewrite Hsuf. unfold zlen in *. lia.
    + cbn [sr_fuel_ok sr_next sr_batches]. split; [exact I1|]. split; [exact I2|]. split.
      * cbn [map concat]. rewrite classify_entries, I3, Hsuf. symmetry. exact Hs.
      * cbn [batches_ok]. split; [apply classify_ok; assumption|]. split; [|exact I4].
        intros Hrest. rewrite classify_entries.
        assert (Hs'ne : s' <> []).
        { intro H0. rewrite Hsuf, H0 in I3.
          destruct (sr_batches (send_loop fuel B l (next + Z.of_nat (length p)) false)) as [|b bs] eqn:Eb;
            [congruence|].
          cbn [batches_ok] in I4. destruct I4 as [Hb _]. cbn [map concat] in I3.
          apply app_eq_nil in I3. destruct I3 as [I3 _].
          destruct b as [pv es|pv e|]; cbn [batch_entries batch_ok] in *; [tauto|discriminate|tauto]. }
        pose proof (take_full s 0 B s' Hs Hs'ne) as Hfull. fold p in Hfull. lia.
  - apply Z.leb_gt in E. assert (next = last_idx l + 1) by lia. subst next.
    cbn [sr_fuel_ok sr_next sr_batches map concat batches_ok].
    destruct (suffix_from l (last_idx l + 1)) as [|x t]; [auto|unfold zlen in Hz; cbn [length] in Hz; lia].
Qed.

(* C11_batches_cover *)
Lemma batches_cover B l next :
  1 <= B -> log_wf l -> first_idx l < next ->
  let r := send_all B l next in
  sr_fuel_ok r = true /\
  (next <= last_idx l ->
     (exists pre, l = pre ++ concat (map batch_entries (sr_batches r)) /\
                  Forall (fun e => e_idx e < next) pre /\
                  Forall (fun e => next <= e_idx e) (concat (map batch_entries (sr_batches r)))) /\
     batches_ok B (sr_batches r) /\ sr_next r = last_idx l + 1) /\
  (last_idx l < next -> sr_batches r = [BNormal (prev_of l next) []] /\ sr_next r = next).
Proof.
  intros HB Hwf Hlo r. unfold r, send_all.
  destruct (Z_le_gt_dec next (last_idx l)) as [Hle|Hgt].
  - rewrite send_loop_single by assumption.
    destruct (send_loop_spec B l HB Hwf (S (length l)) next Hlo ltac:(lia)) as [S1 [S2 [S3 S4]]].
    { unfold suffix_from. rewrite skipn_length. lia. }
    split; [exact S1|]. split; [|lia]. intros _.
    split; [|split; assumption].
    destruct (suffix_split l next Hwf ltac:(lia)) as [P1 [P2 P3]].
    exists (firstn (Z.to_nat (next - first_idx l)) l). rewrite S3. auto.
  - cbn [send_loop].
    assert (E : (next <=? last_idx l) = false) by (apply Z.leb_gt; lia). rewrite E. cbn [orb].
    assert (E2 : (next >? first_idx l) = true) by (apply Z.gtb_lt; lia). rewrite E2.
    pose proof (wf_zlen_pos l Hwf) as Hpos.
    destruct (length l) as [|n] eqn:El; [unfold zlen in Hpos; lia|].
    cbn [send_loop]. rewrite E. cbn [orb sr_fuel_ok sr_next sr_batches].
    split; [reflexivity|]. split; [lia|]. intros _. split; reflexivity.
Qed.

(* ---- sender + receiver: the entries arrive intact ---- *)

Section Transfer.
  Variable A : Type.
  Variable dumps : entry -> list A.            (* pickle.dumps(entry) *)
  Variable loads : list A -> option entry.     (* pickle.loads *)
  Hypothesis round_trip : forall e, loads (dumps e) = Some e.

  (* the lengths-only wire the correspondence check compares is the length image of
     the bytes-level wire, when e_psize is what the harness says it is *)
  Lemma wire_sizes_agree B bs :
    1 <= B -> (forall e, In e (concat (map batch_entries bs)) -> e_psize e = zlen (dumps e)) ->
    map wire_len (wire_of (cut_data dumps B) bs) = wire_of (cut_sizes B) bs.
  Proof.
    intros HB. induction bs as [|b bs IH]; intros Hps; [reflexivity|].
    cbn [wire_of flat_map]. rewrite map_app. fold (wire_of (cut_data dumps B) bs). fold (wire_of (cut_sizes B) bs).
    rewrite IH by (intros e He; apply Hps; cbn [map concat]; apply in_or_app; now right).
    f_equal. destruct b as [pv es|pv e|]; try reflexivity.
    cbn [wire_of_batch]. rewrite map_map. cbn [wire_len fst snd].
    unfold cut_sizes, cut_data, piece_sizes, pieces.
    rewrite (Hps e) by (cbn [map concat batch_entries]; now left).
    rewrite <- (pieces_with_sizes (zlen (dumps e)) B (dumps e) HB). rewrite map_map. reflexivity.
  Qed.

  Lemma follower_batches B bs : forall s,
    1 <= B ->
    Forall (batch_ok B) bs ->
    (forall e, In e (concat (map batch_entries bs)) -> e_size e < zlen (dumps e)) ->
    let s' := follower_run loads s (wire_of (cut_data dumps B) bs) in
    f_got s' = f_got s ++ concat (map batch_entries bs) /\ f_raised s' = f_raised s.
  Proof.
    induction bs as [|b bs IH]; intros s HB Hok Hsz.
    - cbn. now rewrite app_nil_r.
    - inversion Hok as [|b' bs' Hb Hbs]; subst.
      cbn [wire_of flat_map]. unfold follower_run. rewrite fold_left_app.
      fold (follower_run loads s (wire_of_batch (cut_data dumps B) b)).
      fold (wire_of (cut_data dumps B) bs).
      set (s1 := follower_run loads s (wire_of_batch (cut_data dumps B) b)).
      fold (follower_run loads s1 (wire_of (cut_data dumps B) bs)).
      assert (H1 : f_got s1 = f_got s ++ batch_entries b /\ f_raised s1 = f_raised s).
      { unfold s1. destruct b as [pv es|pv e|]; cbn [wire_of_batch batch_entries].
        - cbn. auto.
        - cbn [batch_ok] in Hb.
          assert (Hlt : e_size e < zlen (dumps e)) by (apply Hsz; cbn [map concat batch_entries]; now left).
          unfold cut_data.
          rewrite (follower_chunk A loads pv (pieces B (dumps e)) s e).
          + cbn. auto.
          + unfold pieces. rewrite pieces_with_labels, labels_fixed_at by lia. apply labels_ok_seq.
          + unfold pieces. rewrite pieces_with_concat by assumption. apply round_trip.
        - destruct Hb. }
      destruct H1 as [G1 R1].
      destruct (IH s1 HB Hbs) as [G2 R2].
      { intros e He. apply Hsz. cbn [map concat]. apply in_or_app. now right. }
      cbn zeta in G2, R2. rewrite G2, R2, G1, R1. cbn [map concat]. now rewrite app_assoc.
  Qed.

  Lemma batches_ok_forall B bs : batches_ok B bs -> Forall (batch_ok B) bs.
  Proof.
    induction bs as [|b bs IH]; intros H; [constructor|].
    destruct H as [H1 [_ H2]]. constructor; auto.
  Qed.

  (* C11_transfer_intact *)
  Lemma transfer_intact B l next s :
    1 <= B -> log_wf l -> first_idx l < next <= last_idx l ->
    (forall e, In e l -> e_size e < zlen (dumps e)) ->
    let s' := follower_run loads s (wire_of (cut_data dumps B) (sr_batches (send_all B l next))) in
    f_got s' = f_got s ++ suffix_from l next /\ f_raised s' = f_raised s.
  Proof.
    intros HB Hwf Hn Hsz.
    destruct (batches_cover B l next HB Hwf ltac:(lia)) as [_ [Hc _]].
    destruct (Hc ltac:(lia)) as [[pre [Hl [Hpre Hsuf]]] [Hok Hnext]].
    unfold send_all in *. rewrite send_loop_single in * by lia.
    destruct (send_loop_spec B l HB Hwf (S (length l)) next ltac:(lia) ltac:(lia)) as [_ [_ [S3 _]]].
    { unfold suffix_from. rewrite skipn_length. lia. }
    rewrite <- S3. apply follower_batches; [assumption|now apply batches_ok_forall|].
    intros e He. apply Hsz. rewrite Hl. apply in_or_app. now right.
  Qed.
End Transfer.

(* ---- non-vacuity ---- *)

Definition ex_log : list entry :=
  [mkE 0 1 30 5 1; mkE 1 10 40 6 1; mkE 2 995 1030 7 1; mkE 3 2000 2040 8 1;
   mkE 4 3 33 9 2; mkE 5 1000 1040 10 2; mkE 6 1000 1040 11 2].

Example ex_log_wf : log_wf ex_log.
Proof. split; [discriminate|]. cbn. repeat split. Qed.

Example batches_cover_instance :
  map (fun b => map e_idx (batch_entries b)) (sr_batches (send_all 1000 ex_log 6)) = [[6; 7]; [8]; [9; 10]; [11]]
  /\ map (fun b => match b with BChunked _ _ => true | _ => false end) (sr_batches (send_all 1000 ex_log 6))
     = [false; true; false; true]
  /\ sr_next (send_all 1000 ex_log 6) = 12
  /\ sr_batches (send_all 1000 ex_log 12) = [BNormal (Some (11, 2)) []].
Proof. vm_compute. repeat split; reflexivity. Qed.

(* B = 1: every entry has len(command) >= 1, so every batch is a single chunked entry *)
Example batches_B1_instance :
  map (fun b => match b with BChunked _ e => e_idx e | _ => -1 end) (sr_batches (send_all 1 ex_log 6))
  = [6; 7; 8; 9; 10; 11].
Proof. vm_compute. reflexivity. Qed.

(* a concrete codec satisfying the round-trip hypothesis: five header numbers, then padding
   up to a pickled length above len(command) *)
Definition exb_dumps (e : entry) : list Z :=
  [e_id e; e_size e; e_psize e; e_idx e; e_term e] ++ repeat 0 (Z.to_nat (e_psize e)).

Definition exb_loads (l : list Z) : option entry :=
  match l with
  | a :: b :: c :: d :: t :: _ => Some (mkE a b c d t)
  | _ => None
  end.

Lemma ex_codec_round_trip e : exb_loads (exb_dumps e) = Some e.
Proof. destruct e; reflexivity. Qed.

Example transfer_instance :
  (forall e, In e ex_log -> e_size e < zlen (exb_dumps e)) /\
  f_got (follower_run exb_loads (mkF None [] false)
           (wire_of (cut_data exb_dumps 1000) (sr_batches (send_all 1000 ex_log 6))))
  = skipn 1 ex_log /\
  f_raised (follower_run exb_loads (mkF None [] false)
           (wire_of (cut_data exb_dumps 1000) (sr_batches (send_all 1000 ex_log 6)))) = false.
Proof.
  assert (Hsz : forall e, In e ex_log -> e_size e < zlen (exb_dumps e)).
  { intros e He. repeat (destruct He as [<-|He]; [vm_compute; reflexivity|]). destruct He. }
  split; [exact Hsz|].
  destruct (transfer_intact Z exb_dumps exb_loads ex_codec_round_trip 1000 ex_log 6 (mkF None [] false)
              ltac:(lia) ex_log_wf ltac:(vm_compute; split; congruence) Hsz) as [Hg Hr].
  split; [exact Hg|exact Hr].
Qed.

Example get_entries_instance :
  map e_idx (get_entries ex_log (Some 8) None (Some 1000)) = [8] /\
  map e_idx (get_entries ex_log (Some 9) None (Some 1000)) = [9; 10] /\
  map e_idx (get_entries ex_log (Some 9) (Some 1) None) = [9] /\
  get_entries ex_log (Some 4) None (Some 1000) = [] /\
  get_entries ex_log None None (Some 1000) = [].
Proof. vm_compute. repeat split; reflexivity. Qed.
