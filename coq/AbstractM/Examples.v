(* Runs of the membership model (vm_compute): a normal add / remove, and the counterexamples. *)
From Coq Require Import List Arith Lia Bool PeanoNat.
Import ListNotations.
Require Import PSO.AbstractM.Model.

Lemma run_reachable C0 F acts s : reachable C0 F s -> run_ok C0 F acts s -> reachable C0 F (run C0 F acts s).
Proof.
  revert s; induction acts as [|a r IH]; intros s R H; simpl in *; auto.
  destruct H as [P H]. apply IH; auto. apply (reach_step C0 F s (eff C0 F a s)); auto. exists a. auto.
Qed.

Ltac ok_tac := vm_compute; repeat split; try discriminate; try lia; auto 30.

(* the rules as coded + the project's operator discipline (current member list, ids may be reused) *)
Definition coded : flags := mkF true false false true false.
(* the same without guard (a) *)
Definition coded_no_noop_gate : flags := mkF false false false true false.
(* the discipline under which safety is proved *)
Definition strictF : flags := mkF true true true false true.

Definition V3 : list nat := [0; 1; 2].
Definition n2 := mkE 2 1 (Cmd 0).        (* no-op of the leader of term 1 *)
Definition r3 := mkE 3 1 (CRem 2).       (* remove node 2 *)
Definition a4 := mkE 4 1 (CAdd 2).       (* add node 2 again *)
Definition a5 := mkE 5 1 (CAdd 3).       (* add node 3 *)
Definition m4 := mkE 4 2 (Cmd 0).        (* no-op of the leader of term 2 *)

(* ---- run A: node 0 leads term 1, commits its no-op, removes node 2 (committed by {0,1}),
        node 2 is shut down ---- *)
Definition runA : list action :=
  [ Timeout 0; HandleRequestVote 1 1 0 1 0; HandleVote 0 1 1;
    SendAppendEntries 0 1 0 1; HandleAppendEntries 1 1 0 1 0 [n2] 1; HandleAppendReply 0 1 1 true 2;
    AdvanceCommit 0 1;
    ClientRequest 0 (CRem 2);
    SendAppendEntries 0 1 1 1; HandleAppendEntries 1 1 0 2 1 [r3] 2; HandleAppendReply 0 1 1 true 3;
    AdvanceCommit 0 2;
    Shutdown 2 ].

Example runA_ok : run_ok V3 coded runA (init V3).
Proof. ok_tac. Qed.

Example runA_result :
  let s := run V3 coded runA (init V3) in
  cfg 0 (nodes s 0) = [0; 1] /\ cfg 1 (nodes s 1) = [1; 0] /\ cfg 2 (nodes s 2) = [2; 0; 1] /\
  commit (nodes s 0) = 3 /\ log (nodes s 0) = [e0; n2; r3] /\ direct s = [(1, 2, [0; 1]); (1, 1, [0; 1; 2]); (0, 0, V3)].
Proof. vm_compute. repeat split; reflexivity. Qed.

(* the change is refused while the no-op / an earlier change is uncommitted, and [CRem self] always *)
Example gate_refuses :
  let s1 := run V3 coded (firstn 3 runA) (init V3) in       (* leader, no-op not yet committed *)
  let s2 := run V3 coded (firstn 8 runA) (init V3) in       (* CRem 2 appended, not yet committed *)
  let s3 := run V3 coded runA (init V3) in
  client_ok coded 0 (nodes s1 0) (CRem 2) = false /\
  client_ok coded 0 (nodes s2 0) (CAdd 3) = false /\
  client_ok coded 0 (nodes s3 0) (CRem 0) = false /\ client_ok coded 0 (nodes s3 0) (CAdd 1) = false /\
  client_ok coded 0 (nodes s3 0) (CAdd 3) = true.
Proof. vm_compute. repeat split; reflexivity. Qed.

(* ---- run B (counterexample for the Raft layer as coded WITHOUT the transport's member filter,
   switch [links] off): continue run A.
   Node 2 is added again (as a new node: empty log, member list [0;1]); the entry is committed by
   {0,2} - node 1 lags.  Node 3 is started with the CURRENT member list [0;2;1] and [CAdd 3] is
   appended.  Node 3 receives the first part of the log only: ... [CRem 2].  Replaying that entry on
   top of the current list REMOVES node 2 from node 3's member set: cfg = {3,0,1}.  Node 3 times
   out, node 1 (same log) votes for it: 2 of 3 - node 3 leads term 2 without the committed entry
   [CAdd 2] (index 4), overwrites it on node 1 and commits its own no-op at index 4. ---- *)
Definition runB : list action :=
  runA ++
  [ Join 2 0; ClientRequest 0 (CAdd 2);
    SendAppendEntries 0 2 0 3; HandleAppendEntries 2 1 0 1 0 [n2; r3; a4] 3; HandleAppendReply 0 1 2 true 4;
    AdvanceCommit 0 3;
    Join 3 0; ClientRequest 0 (CAdd 3);
    SendAppendEntries 0 3 0 2; HandleAppendEntries 3 1 0 1 0 [n2; r3] 4;
    Timeout 3; HandleRequestVote 1 2 3 3 1; HandleVote 3 2 1;
    SendAppendEntries 3 1 2 1; HandleAppendEntries 1 2 3 3 1 [m4] 3; HandleAppendReply 3 2 1 true 4;
    AdvanceCommit 3 3 ].

Example runB_ok : run_ok V3 coded runB (init V3).
Proof. ok_tac. Qed.

Example runB_reachable : reachable V3 coded (run V3 coded runB (init V3)).
Proof. apply run_reachable; [constructor|apply runB_ok]. Qed.

Example runB_result :
  let s := run V3 coded runB (init V3) in
  base (nodes s 3) = [0; 2; 1] /\ cfg 3 (nodes s 3) = [3; 0; 1] /\ cfg 0 (nodes s 0) = [0; 3; 2; 1] /\
  rl (nodes s 0) = Leader /\ term (nodes s 0) = 1 /\ rl (nodes s 3) = Leader /\ term (nodes s 3) = 2 /\
  commit (nodes s 0) = 4 /\ commit (nodes s 3) = 4 /\
  log (nodes s 0) = [e0; n2; r3; a4; a5] /\ log (nodes s 3) = [e0; n2; r3; m4] /\
  log (nodes s 1) = [e0; n2; r3; m4] /\ commit (nodes s 1) = 3.
Proof. vm_compute. repeat split; reflexivity. Qed.

Theorem C10_without_member_filter_refuted :
  exists s a b i, reachable V3 coded s /\ alive s a /\ alive s b /\
    i < commit (nodes s a) /\ i < commit (nodes s b) /\
    nth_error (log (nodes s a)) i <> nth_error (log (nodes s b)) i.
Proof.
  exists (run V3 coded runB (init V3)), 0, 3, 3. split; [exact runB_reachable|].
  vm_compute. repeat split; auto; discriminate.
Qed.

(* ---- run C: WITHOUT guard (a) single-server change is unsafe (Ongaro's 2015 bug report).
   Members {0,1,2,3}.  Node 0 leads term 1 and appends [CAdd 4] (its no-op is committed, so even
   guard (a) is met there); only node 4 receives it.  Node 1 wins term 2 with {1,2,3}, and - guard
   (a) dropped - at once appends [CRem 3], which {1,2} commit as a majority of {0,1,2}.  Node 0 wins
   term 3 with {0,3,4}, a majority of ITS configuration {0,1,2,3,4}; it lacks the committed entry,
   overwrites index 4 with its no-op and commits that with {0,3,4}. ---- *)
Definition V4 : list nat := [0; 1; 2; 3].
Definition b3 := mkE 3 1 (CAdd 4).
Definition k3 := mkE 3 2 (Cmd 0).        (* no-op of node 1, term 2 *)
Definition k4 := mkE 4 2 (CRem 3).
Definition z4 := mkE 4 3 (Cmd 0).        (* no-op of node 0, term 3 *)

Definition runC : list action :=
  [ Timeout 0; HandleRequestVote 1 1 0 1 0; HandleRequestVote 2 1 0 1 0; HandleVote 0 1 1; HandleVote 0 1 2;
    SendAppendEntries 0 1 0 1; HandleAppendEntries 1 1 0 1 0 [n2] 1; HandleAppendReply 0 1 1 true 2;
    SendAppendEntries 0 2 0 1; HandleAppendEntries 2 1 0 1 0 [n2] 1; HandleAppendReply 0 1 2 true 2;
    SendAppendEntries 0 3 0 1; HandleAppendEntries 3 1 0 1 0 [n2] 1;
    AdvanceCommit 0 1;
    Join 4 0; ClientRequest 0 (CAdd 4);
    SendAppendEntries 0 4 0 2; HandleAppendEntries 4 1 0 1 0 [n2; b3] 2;
    (* node 1 wins term 2 *)
    Timeout 1; HandleRequestVote 2 2 1 2 1; HandleRequestVote 3 2 1 2 1; HandleVote 1 2 2; HandleVote 1 2 3;
    ClientRequest 1 (CRem 3);
    SendAppendEntries 1 2 1 2; HandleAppendEntries 2 2 1 2 1 [k3; k4] 1; HandleAppendReply 1 2 2 true 4;
    AdvanceCommit 1 3;
    (* node 0 wins term 3 *)
    HandleRequestVote 0 2 1 2 1; Timeout 0;
    HandleRequestVote 3 3 0 3 1; HandleRequestVote 4 3 0 3 1; HandleVote 0 3 3; HandleVote 0 3 4;
    SendAppendEntries 0 3 1 2; HandleAppendEntries 3 3 0 2 1 [b3; z4] 2; HandleAppendReply 0 3 3 true 4;
    SendAppendEntries 0 4 2 1; HandleAppendEntries 4 3 0 3 1 [z4] 2; HandleAppendReply 0 3 4 true 4;
    AdvanceCommit 0 3 ].

Example runC_ok : run_ok V4 coded_no_noop_gate runC (init V4).
Proof. ok_tac. Qed.

Example runC_reachable : reachable V4 coded_no_noop_gate (run V4 coded_no_noop_gate runC (init V4)).
Proof. apply run_reachable; [constructor|apply runC_ok]. Qed.

Example runC_result :
  let s := run V4 coded_no_noop_gate runC (init V4) in
  rl (nodes s 1) = Leader /\ term (nodes s 1) = 2 /\ rl (nodes s 0) = Leader /\ term (nodes s 0) = 3 /\
  cfg 1 (nodes s 1) = [1; 0; 2] /\ cfg 0 (nodes s 0) = [0; 4; 1; 2; 3] /\
  log (nodes s 1) = [e0; n2; k3; k4] /\ log (nodes s 0) = [e0; n2; b3; z4] /\
  commit (nodes s 1) = 4 /\ commit (nodes s 0) = 4 /\
  wins s = [(3, 0, [4; 3; 0], [0; 4; 1; 2; 3]); (2, 1, [3; 2; 1], [1; 0; 2; 3]); (1, 0, [2; 1; 0], [0; 1; 2; 3])] /\
  direct s = [(3, 3, [0; 4; 1; 2; 3]); (2, 3, [1; 0; 2]); (1, 1, [0; 1; 2; 3]); (0, 0, V4)].
Proof. vm_compute. repeat split; reflexivity. Qed.

Theorem C10_without_noop_gate_refuted :
  exists s a b i, reachable V4 coded_no_noop_gate s /\ alive s a /\ alive s b /\
    i < commit (nodes s a) /\ i < commit (nodes s b) /\
    nth_error (log (nodes s a)) i <> nth_error (log (nodes s b)) i.
Proof.
  exists (run V4 coded_no_noop_gate runC (init V4)), 0, 1, 3. split; [exact runC_reachable|].
  vm_compute. repeat split; auto; discriminate.
Qed.

(* with guard (a) the same schedule is stopped at node 1's [CRem 3]: its no-op is not committed *)
Example runC_blocked_by_gate :
  let s := run V4 coded (firstn 23 runC) (init V4) in
  run_ok V4 coded (firstn 23 runC) (init V4) /\
  rl (nodes s 1) = Leader /\ client_ok coded 1 (nodes s 1) (CRem 3) = false /\
  client_ok coded_no_noop_gate 1 (nodes s 1) (CRem 3) = true.
Proof. split; [ok_tac|]. vm_compute. repeat split; reflexivity. Qed.

(* ---- run D: COUNTEREXAMPLE to C10 for the rules as coded INCLUDING the transport's member
   filter ([links] on), when ids are re-used (a removed address is added again as a new node).
   Members 0 (leader), 1 (never receives anything: its table stays the initial one), 2, 3, 4.
   Term 1: remove 2, remove 3 (acks 0,4), add 2 again, add 3 again (acks 0,4,2), remove 4
   (acks 0,2,3), add 4 again: started with the CURRENT list [0;3;2;1].  The new node 4 receives the
   log up to the two removals only; replaying them on the current list gives the member set {4,0,1}.
   Node 1 still knows address 4 from the initial list, node 4 knows 1: they are linked.  Node 4
   wins term 2 with {4,1}, lacks the committed indices 5..7, and commits its no-op at index 5. *)
Definition V5 : list nat := [0; 1; 2; 3; 4].
Definition coded_links : flags := mkF true false false true true.
Definition q3 := mkE 3 1 (CRem 2).
Definition q4 := mkE 4 1 (CRem 3).
Definition q5 := mkE 5 1 (CAdd 2).
Definition q6 := mkE 6 1 (CAdd 3).
Definition q7 := mkE 7 1 (CRem 4).
Definition w5 := mkE 5 2 (Cmd 0).

Definition runD : list action :=
  [ Timeout 0; HandleRequestVote 2 1 0 1 0; HandleRequestVote 3 1 0 1 0; HandleVote 0 1 2; HandleVote 0 1 3;
    SendAppendEntries 0 2 0 1; HandleAppendEntries 2 1 0 1 0 [n2] 1; HandleAppendReply 0 1 2 true 2;
    SendAppendEntries 0 3 0 1; HandleAppendEntries 3 1 0 1 0 [n2] 1; HandleAppendReply 0 1 3 true 2;
    SendAppendEntries 0 4 0 1; HandleAppendEntries 4 1 0 1 0 [n2] 1; HandleAppendReply 0 1 4 true 2;
    AdvanceCommit 0 1;
    ClientRequest 0 (CRem 2);
    SendAppendEntries 0 3 1 1; HandleAppendEntries 3 1 0 2 1 [q3] 2; HandleAppendReply 0 1 3 true 3;
    SendAppendEntries 0 4 1 1; HandleAppendEntries 4 1 0 2 1 [q3] 2; HandleAppendReply 0 1 4 true 3;
    AdvanceCommit 0 2; Shutdown 2;
    ClientRequest 0 (CRem 3);
    SendAppendEntries 0 4 2 1; HandleAppendEntries 4 1 0 3 1 [q4] 3; HandleAppendReply 0 1 4 true 4;
    AdvanceCommit 0 3; Shutdown 3;
    Join 2 0; ClientRequest 0 (CAdd 2);
    SendAppendEntries 0 4 3 1; HandleAppendEntries 4 1 0 4 1 [q5] 4; HandleAppendReply 0 1 4 true 5;
    SendAppendEntries 0 2 0 4; HandleAppendEntries 2 1 0 1 0 [n2; q3; q4; q5] 4; HandleAppendReply 0 1 2 true 5;
    AdvanceCommit 0 4;
    Join 3 0; ClientRequest 0 (CAdd 3);
    SendAppendEntries 0 4 4 1; HandleAppendEntries 4 1 0 5 1 [q6] 5; HandleAppendReply 0 1 4 true 6;
    SendAppendEntries 0 2 4 1; HandleAppendEntries 2 1 0 5 1 [q6] 5; HandleAppendReply 0 1 2 true 6;
    AdvanceCommit 0 5;
    SendAppendEntries 0 3 0 5; HandleAppendEntries 3 1 0 1 0 [n2; q3; q4; q5; q6] 6; HandleAppendReply 0 1 3 true 6;
    ClientRequest 0 (CRem 4);
    SendAppendEntries 0 2 5 1; HandleAppendEntries 2 1 0 6 1 [q7] 6; HandleAppendReply 0 1 2 true 7;
    SendAppendEntries 0 3 5 1; HandleAppendEntries 3 1 0 6 1 [q7] 6; HandleAppendReply 0 1 3 true 7;
    AdvanceCommit 0 6; Shutdown 4;
    Join 4 0; ClientRequest 0 (CAdd 4);
    SendAppendEntries 0 4 0 3; HandleAppendEntries 4 1 0 1 0 [n2; q3; q4] 7;
    Timeout 4; HandleRequestVote 1 2 4 4 1; HandleVote 4 2 1;
    SendAppendEntries 4 1 0 4; HandleAppendEntries 1 2 4 1 0 [n2; q3; q4; w5] 4; HandleAppendReply 4 2 1 true 5;
    AdvanceCommit 4 4 ].

Example runD_ok : run_ok V5 coded_links runD (init V5).
Proof. ok_tac. Qed.

Example runD_reachable : reachable V5 coded_links (run V5 coded_links runD (init V5)).
Proof. apply run_reachable; [constructor|apply runD_ok]. Qed.

Example runD_result :
  let s := run V5 coded_links runD (init V5) in
  base (nodes s 4) = [0; 3; 2; 1] /\ cfg 4 (nodes s 4) = [4; 0; 1] /\ cfg 1 (nodes s 1) = [1; 0; 4] /\
  cfg 0 (nodes s 0) = [0; 4; 3; 2; 1] /\
  rl (nodes s 0) = Leader /\ term (nodes s 0) = 1 /\ rl (nodes s 4) = Leader /\ term (nodes s 4) = 2 /\
  commit (nodes s 0) = 7 /\ commit (nodes s 4) = 5 /\
  log (nodes s 0) = [e0; n2; q3; q4; q5; q6; q7; mkE 8 1 (CAdd 4)] /\
  log (nodes s 4) = [e0; n2; q3; q4; w5] /\ log (nodes s 1) = [e0; n2; q3; q4; w5] /\
  wins s = [(2, 4, [1; 4], [4; 0; 1]); (1, 0, [3; 2; 0], V5)].
Proof. vm_compute. repeat split; reflexivity. Qed.

Theorem C10_as_coded_with_id_reuse_refuted :
  exists s a b i, reachable V5 coded_links s /\ alive s a /\ alive s b /\
    i < commit (nodes s a) /\ i < commit (nodes s b) /\
    nth_error (log (nodes s a)) i <> nth_error (log (nodes s b)) i.
Proof.
  exists (run V5 coded_links runD (init V5)), 0, 4, 4. split; [exact runD_reachable|].
  vm_compute. repeat split; auto; discriminate.
Qed.

(* run B is stopped by the member filter: the lagging voter 1 does not know the joiner 3 *)
Example runB_blocked_by_member_filter :
  let s := run V3 coded_links (firstn 24 runB) (init V3) in
  run_ok V3 coded_links (firstn 24 runB) (init V3) /\
  rl (nodes s 3) = Candidate /\ others 1 (nodes s 1) = [0] /\ linked s 3 1 = false.
Proof. split; [ok_tac|]. vm_compute. repeat split; reflexivity. Qed.

(* ---- run S (non-vacuity of the theorems, disciplined flags): add node 3, remove node 2, both
   committed in term 1 by node 0; node 3 then wins term 2 with {3,1}, a majority of {3,0,1}, holds
   every committed entry and commits its own no-op. ---- *)
Definition s3 := mkE 3 1 (CAdd 3).
Definition s4 := mkE 4 1 (CRem 2).
Definition t5 := mkE 5 2 (Cmd 0).

Definition runS : list action :=
  [ Timeout 0; HandleRequestVote 1 1 0 1 0; HandleVote 0 1 1;
    SendAppendEntries 0 1 0 1; HandleAppendEntries 1 1 0 1 0 [n2] 1; HandleAppendReply 0 1 1 true 2;
    AdvanceCommit 0 1;
    Join 3 0; ClientRequest 0 (CAdd 3);
    SendAppendEntries 0 1 1 1; HandleAppendEntries 1 1 0 2 1 [s3] 2; HandleAppendReply 0 1 1 true 3;
    SendAppendEntries 0 3 0 2; HandleAppendEntries 3 1 0 1 0 [n2; s3] 2; HandleAppendReply 0 1 3 true 3;
    AdvanceCommit 0 2;
    ClientRequest 0 (CRem 2);
    SendAppendEntries 0 1 2 1; HandleAppendEntries 1 1 0 3 1 [s4] 3; HandleAppendReply 0 1 1 true 4;
    AdvanceCommit 0 3;
    SendAppendEntries 0 3 2 1; HandleAppendEntries 3 1 0 3 1 [s4] 4;
    Timeout 3; HandleRequestVote 1 2 3 4 1; HandleVote 3 2 1;
    SendAppendEntries 3 1 3 1; HandleAppendEntries 1 2 3 4 1 [t5] 4; HandleAppendReply 3 2 1 true 5;
    AdvanceCommit 3 4 ].

Example runS_ok : run_ok V3 strictF runS (init V3).
Proof. ok_tac. Qed.

Example runS_reachable : reachable V3 strictF (run V3 strictF runS (init V3)).
Proof. apply run_reachable; [constructor|apply runS_ok]. Qed.

Example runS_result :
  let s := run V3 strictF runS (init V3) in
  rl (nodes s 3) = Leader /\ term (nodes s 3) = 2 /\ cfg 3 (nodes s 3) = [3; 0; 1] /\
  cfg 0 (nodes s 0) = [0; 3; 1] /\ cfg 1 (nodes s 1) = [1; 3; 0] /\ cfg 2 (nodes s 2) = [2; 0; 1] /\
  log (nodes s 3) = [e0; n2; s3; s4; t5] /\ log (nodes s 1) = [e0; n2; s3; s4; t5] /\
  commit (nodes s 3) = 5 /\ commit (nodes s 0) = 4 /\
  wins s = [(2, 3, [1; 3], [3; 0; 1]); (1, 0, [1; 0], [0; 1; 2])] /\
  direct s = [(2, 4, [3; 0; 1]); (1, 3, [0; 3; 1]); (1, 2, [0; 3; 1; 2]); (1, 1, [0; 1; 2]); (0, 0, V3)].
Proof. vm_compute. repeat split; reflexivity. Qed.

(* ---- run E: SECOND counterexample for the rules as coded (guards on, member filter on, NO id
   re-use): the operator reads the "current member list" while a change is PENDING.
   Members {0,1,2}.  Leader 0 (term 1) appends [CRem 2] (not replicated); the operator starts the
   new node 3 with node 0's table {0,1}.  Node 1 wins term 2 (with node 2), overwrites the pending
   removal, adds node 3 (committed by {1,3,0}) and then node 4 (committed by {1,2,4}).  Node 3 holds
   its own [CAdd 3] but its table is {3,0,1}: node 2 is missing for ever.  Node 3 wins term 3 with
   {3,0} - a majority of ITS set, disjoint from {1,2,4} - and commits its no-op at index 5. ---- *)
Definition coded_noreuse : flags := mkF true false false false true.
Definition x3 := mkE 3 2 (Cmd 0).
Definition x4 := mkE 4 2 (CAdd 3).
Definition x5 := mkE 5 2 (CAdd 4).
Definition z5 := mkE 5 3 (Cmd 0).

Definition runE : list action :=
  [ Timeout 0; HandleRequestVote 1 1 0 1 0; HandleVote 0 1 1;
    SendAppendEntries 0 1 0 1; HandleAppendEntries 1 1 0 1 0 [n2] 1; HandleAppendReply 0 1 1 true 2;
    SendAppendEntries 0 2 0 1; HandleAppendEntries 2 1 0 1 0 [n2] 1;
    AdvanceCommit 0 1;
    ClientRequest 0 (CRem 2);
    Join 3 0;
    Timeout 1; HandleRequestVote 2 2 1 2 1; HandleVote 1 2 2;
    SendAppendEntries 1 0 1 1; HandleAppendEntries 0 2 1 2 1 [x3] 1; HandleAppendReply 1 2 0 true 3;
    AdvanceCommit 1 2;
    ClientRequest 1 (CAdd 3);
    SendAppendEntries 1 3 0 3; HandleAppendEntries 3 2 1 1 0 [n2; x3; x4] 3; HandleAppendReply 1 2 3 true 4;
    SendAppendEntries 1 0 2 1; HandleAppendEntries 0 2 1 3 2 [x4] 3; HandleAppendReply 1 2 0 true 4;
    AdvanceCommit 1 3;
    Join 4 1; ClientRequest 1 (CAdd 4);
    SendAppendEntries 1 2 1 3; HandleAppendEntries 2 2 1 2 1 [x3; x4; x5] 4; HandleAppendReply 1 2 2 true 5;
    SendAppendEntries 1 4 0 4; HandleAppendEntries 4 2 1 1 0 [n2; x3; x4; x5] 4; HandleAppendReply 1 2 4 true 5;
    AdvanceCommit 1 4;
    Timeout 3; HandleRequestVote 0 3 3 4 2; HandleVote 3 3 0;
    SendAppendEntries 3 0 3 1; HandleAppendEntries 0 3 3 4 2 [z5] 3; HandleAppendReply 3 3 0 true 5;
    AdvanceCommit 3 4 ].

Example runE_ok : run_ok V3 coded_noreuse runE (init V3).
Proof. ok_tac. Qed.

Example runE_reachable : reachable V3 coded_noreuse (run V3 coded_noreuse runE (init V3)).
Proof. apply run_reachable; [constructor|apply runE_ok]. Qed.

Example runE_result :
  let s := run V3 coded_noreuse runE (init V3) in
  base (nodes s 3) = [0; 1] /\ cfg 3 (nodes s 3) = [3; 0; 1] /\ cfg 1 (nodes s 1) = [1; 4; 3; 0; 2] /\
  rl (nodes s 1) = Leader /\ term (nodes s 1) = 2 /\ rl (nodes s 3) = Leader /\ term (nodes s 3) = 3 /\
  commit (nodes s 1) = 5 /\ commit (nodes s 3) = 5 /\
  log (nodes s 1) = [e0; n2; x3; x4; x5] /\ log (nodes s 3) = [e0; n2; x3; x4; z5] /\
  wins s = [(3, 3, [0; 3], [3; 0; 1]); (2, 1, [2; 1], [1; 0; 2]); (1, 0, [1; 0], [0; 1; 2])] /\
  direct s = [(3, 4, [3; 0; 1]); (2, 4, [1; 4; 3; 0; 2]); (2, 3, [1; 3; 0; 2]); (2, 2, [1; 0; 2]);
              (1, 1, [0; 1; 2]); (0, 0, V3)].
Proof. vm_compute. repeat split; reflexivity. Qed.

Theorem C10_as_coded_list_read_during_change_refuted :
  exists s a b i, reachable V3 coded_noreuse s /\ alive s a /\ alive s b /\
    i < commit (nodes s a) /\ i < commit (nodes s b) /\
    nth_error (log (nodes s a)) i <> nth_error (log (nodes s b)) i.
Proof.
  exists (run V3 coded_noreuse runE (init V3)), 1, 3, 4. split; [exact runE_reachable|].
  vm_compute. repeat split; auto; discriminate.
Qed.

Lemma C10m_nonvacuous_run :
  reachable [0; 1; 2] (mkF true true true false true) (run [0; 1; 2] (mkF true true true false true) runS (init [0; 1; 2])) /\
  In (1, 3, [0; 3; 1]) (direct (run [0; 1; 2] (mkF true true true false true) runS (init [0; 1; 2]))) /\
  In (2, 3, [1; 3], [3; 0; 1]) (wins (run [0; 1; 2] (mkF true true true false true) runS (init [0; 1; 2]))) /\
  rl (nodes (run [0; 1; 2] (mkF true true true false true) runS (init [0; 1; 2])) 3) = Leader /\
  commit (nodes (run [0; 1; 2] (mkF true true true false true) runS (init [0; 1; 2])) 3) = 5 /\
  gcfg [0; 1; 2] (log (nodes (run [0; 1; 2] (mkF true true true false true) runS (init [0; 1; 2])) 3)) = [3; 0; 1].
Proof. split; [exact runS_reachable|]. vm_compute. repeat split; auto. Qed.
