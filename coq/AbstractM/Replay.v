(* Reduction fact (ii) of README 4.9, as a pure list lemma - it needs NO hypothesis on id re-use:
   a node y that was started with the member set of the prefix lK of a log (the "current list" the
   operator read when lK was the leader's log), and that holds a log lK ++ r, has - as a SET - the
   member table the global fold over the initial list gives.  (What id re-use breaks is the member
   table of a PARTIAL replay, i.e. of a log shorter than lK: runs B and D.) *)
From Coq Require Import List Arith Lia Bool PeanoNat.
Import ListNotations.
Require Import PSO.AbstractM.Model PSO.AbstractM.Lib PSO.AbstractM.Cfg.

Definition gfold (l : list entry) (o : list nat) : list nat := fold_left (fun o e => gapp o (ecmd e)) l o.

(* what an entry says about x *)
Definition touch (c : cmd) (x : nat) : option bool :=
  match c with
  | CAdd y => if y =? x then Some true else None
  | CRem y => if y =? x then Some false else None
  | Cmd _ => None
  end.

(* the last entry of l that names x *)
Fixpoint last_touch (l : list entry) (x : nat) : option bool :=
  match l with
  | [] => None
  | e :: r => match last_touch r x with Some b => Some b | None => touch (ecmd e) x end
  end.

Lemma gapp_In o c x :
  In x (gapp o c) <-> match touch c x with Some b => b = true | None => In x o end.
Proof.
  destruct c as [k|y|y]; simpl; try tauto.
  - destruct (Nat.eqb_spec y x) as [->|N].
    + destruct (mem x o) eqn:E; [apply mem_In in E|]; simpl; tauto.
    + destruct (mem y o); simpl; [tauto|]. split; [intros [H|H]; congruence|auto].
  - rewrite del_In. destruct (Nat.eqb_spec y x) as [->|N].
    + split; [intros [_ H]; congruence|discriminate].
    + split; [tauto|]. intros H. split; auto.
Qed.

Lemma gfold_In l o x :
  In x (gfold l o) <-> match last_touch l x with Some b => b = true | None => In x o end.
Proof.
  unfold gfold. revert o; induction l as [|e l IH]; intros o; simpl; [tauto|].
  rewrite IH. destruct (last_touch l x); [tauto|]. apply gapp_In.
Qed.

(* replaying a log over its own result changes nothing (as a set) *)
Lemma replay_idem l o x : In x (gfold l (gfold l o)) <-> In x (gfold l o).
Proof.
  rewrite (gfold_In l (gfold l o)). destruct (last_touch l x) eqn:E; [|tauto].
  rewrite (gfold_In l o), E. tauto.
Qed.

Lemma gfold_equiv l o o' : (forall x, In x o <-> In x o') -> forall x, In x (gfold l o) <-> In x (gfold l o').
Proof. intros E x. rewrite !gfold_In. destruct (last_touch l x); [tauto|apply E]. Qed.

Lemma gfold_app l r o : gfold (l ++ r) o = gfold r (gfold l o).
Proof. unfold gfold. apply fold_left_app. Qed.

Theorem joiner_replay_consistent C0 lK r y x :
  In x (others_of y (del y (gcfg C0 lK)) (lK ++ r)) <-> In x (del y (gcfg C0 (lK ++ r))).
Proof.
  rewrite others_of_del. fold (gfold (lK ++ r) (gcfg C0 lK)).
  rewrite !del_In. unfold gcfg. fold (gfold lK C0). fold (gfold (lK ++ r) C0).
  rewrite !gfold_app.
  pose proof (gfold_equiv r (gfold lK (gfold lK C0)) (gfold lK C0) (replay_idem lK C0) x) as E.
  tauto.
Qed.

(* ... while a partial replay (a log shorter than lK) can give a set that never existed: *)
Example partial_replay_wrong :
  let lK := [mkE 2 1 (Cmd 0); mkE 3 1 (CRem 2); mkE 4 1 (CAdd 2)] in
  gcfg [0; 1; 2] lK = [2; 0; 1] /\
  others_of 3 (del 3 (gcfg [0; 1; 2] lK)) (firstn 2 lK) = [0; 1] /\
  del 3 (gcfg [0; 1; 2] (firstn 2 lK)) = [0; 1] /\
  gcfg [0; 1; 2] (firstn 1 lK) = [0; 1; 2].
Proof. vm_compute. repeat split; reflexivity. Qed.
