(* AbstractM WITHOUT the election guard [tguard] (discipline D4), part A.

   Safety8_Gate/Safety9_Quorums/SafetyAll prove the safety theorems for flags with [tguard F = true]:
   "a node times out only if it is a member by its own log".  The code has no such rule: a freshly
   started joiner, whose log does not yet hold its own [CAdd], may time out and stand for election.
   Here the guard is replaced by what the code (transport) does guarantee:

     [kstep3 s s'] = [kstep C0 F s s'] (ANY value of [tguard F] and [links F]) + the condition [gcond]
     on the ghost list [grants]:
       - a vote granted by v to another node c (rule K_grant) is granted over a LINK: both run,
         c is in v's member table and v in c's (the transport's member filter, Props/C14; AbstractM's
         [linked]); nothing is required of the other message handlers;
       - a node v that times out (rule K_timeout, the self-grant) is a member by its own log, OR a
         "pure joiner" [purej]: not an initial member and no [CAdd v] anywhere in its log.
     (What is still excluded: a node that holds an add AND a later removal of itself and times out
      before it holds its re-addition; under D2 - a removed id is never added again - no node ever
      receives its own removal, README section 3.)

   This file: the definitions; [InvG3] = [InvG] of Safety8_Gate with "a LEADER is a member by its
   own log" instead of "a candidate or leader is ..."; its preservation, given [NW s]: a candidate
   of state s that has a majority of its own member table is a member by its own log (proved in
   part C from the member filter). *)
From Coq Require Import List Arith Lia Bool PeanoNat.
Import ListNotations.
Require Import PSO.AbstractM.Model PSO.AbstractM.Lib PSO.AbstractM.Kstep PSO.AbstractM.Cfg
  PSO.AbstractM.Safety0_Base PSO.AbstractM.Safety1_WF
  PSO.AbstractM.Safety2_Election PSO.AbstractM.Safety3_LeaderLog PSO.AbstractM.Safety4_LogMatching
  PSO.AbstractM.Safety5_Acks PSO.AbstractM.Safety6_LC PSO.AbstractM.Safety7_SM PSO.AbstractM.Safety8_Gate.

Definition is_add (y : nat) (c : cmd) : bool := match c with CAdd x => x =? y | _ => false end.

Section A.
Variable C0 : list nat.
Variable F : flags.
Hypothesis Hreuse : reuse F = false.
Hypothesis HgateA : gateA F = true.
Hypothesis HbaseC0 : baseC0 F = true.
Hypothesis C0_nodup : NoDup C0.

Notation GG := (gcfg C0).

(* a pure joiner: not an initial member, no [CAdd y] in its log *)
Definition purej (y : nat) (l : list entry) : bool :=
  negb (mem y C0) && forallb (fun e => negb (is_add y (ecmd e))) l.

Definition tcond (s : state) (v : nat) : Prop :=
  self_member C0 v (nodes s v) = true \/ purej v (log (nodes s v)) = true.

Definition gcond (s s' : state) : Prop :=
  grants s' = grants s \/
  exists t v c, grants s' = (t, v, c) :: grants s /\
    ((v = c /\ tcond s v) \/ (v <> c /\ linked s c v = true)).

Definition kstep3 (s s' : state) : Prop := kstep C0 F s s' /\ gcond s s'.

Inductive kreachable3 : state -> Prop :=
| kreach3_init : kreachable3 (init C0)
| kreach3_step s s' : kreachable3 s -> kstep3 s s' -> kreachable3 s'.

(* a candidate that has a majority of its own member table is a member by its own log *)
Definition NW (s : state) : Prop :=
  forall n, rl (nodes s n) = Candidate ->
    majority_of (cfg n (nodes s n)) (length (votesFrom (nodes s n))) = true ->
    In n (GG (log (nodes s n))).

Lemma fold_gapp_notin y r : forall o,
  ~ In y o -> forallb (fun e => negb (is_add y (ecmd e))) r = true ->
  ~ In y (fold_left (fun o e => gapp o (ecmd e)) r o).
Proof.
  induction r as [|e r IH]; intros o Ho Hr; simpl in *; auto.
  apply andb_true_iff in Hr as [He Hr]. apply IH; auto.
  destruct (ecmd e) as [k|x|x]; simpl in *; auto.
  - destruct (mem x o); auto. intros [->|H]; auto. rewrite Nat.eqb_refl in He. discriminate.
  - intros H. apply del_In in H. tauto.
Qed.

Lemma forallb_firstn {A} (f : A -> bool) l m : forallb f l = true -> forallb f (firstn m l) = true.
Proof.
  intros H. apply forallb_forall. intros x Hx. rewrite forallb_forall in H. apply H.
  rewrite <- (firstn_skipn m l). apply in_or_app. auto.
Qed.

Lemma purej_notin y l m : purej y l = true -> ~ In y (GG (firstn m l)).
Proof.
  unfold purej. intros H. apply andb_true_iff in H as [H1 H2]. apply negb_true_iff in H1.
  apply mem_not_In in H1. unfold gcfg. apply fold_gapp_notin; auto. apply forallb_firstn. exact H2.
Qed.

Lemma purej_notin_all y l : purej y l = true -> ~ In y (GG l).
Proof. intros H. rewrite <- (firstn_all l). apply purej_notin. exact H. Qed.

Lemma purej_C0 y l : purej y l = true -> ~ In y C0.
Proof.
  unfold purej. intros H. apply andb_true_iff in H as [H1 _]. apply negb_true_iff in H1.
  apply mem_not_In in H1. exact H1.
Qed.

Record InvG3 (s : state) : Prop := {
  IG3_member : forall n, rl (nodes s n) = Leader -> In n (GG (log (nodes s n)));
  IG3_noop : forall n, rl (nodes s n) = Leader ->
     hasT (log (nodes s n)) (term (nodes s n)) (noopi (nodes s n));
  IG3_direct : forall T p Cd, In (T, p, Cd) (direct s) ->
     exists m, p < m /\ m <= length (llog s T) /\ seteq Cd (GG (firstn m (llog s T)));
  IG3_win : forall T c Q Cw, In (T, c, Q, Cw) (wins s) ->
     exists m e, nth_error (llog s T) m = Some e /\ eterm e = T /\
       (forall r e', r < m -> nth_error (llog s T) r = Some e' -> eterm e' < T) /\
       seteq Cw (GG (firstn m (llog s T)));
  IG3_cfg : forall T r e, nth_error (llog s T) r = Some e -> eterm e = T -> is_cfg (ecmd e) = true ->
     cfg_entry_ok C0 s T r
}.

Lemma invG3_init : InvG3 (init C0).
Proof.
  constructor; simpl.
  - intros n H. discriminate.
  - intros n H; discriminate.
  - intros T p Cd [H|[]]. injection H as <- <- <-. exists 1. simpl. repeat split; auto.
  - intros; contradiction.
  - intros T r e H. destruct (T =? 0).
    + destruct r as [|[|r]]; simpl in H; try discriminate. injection H as <-. simpl. discriminate.
    + destruct r; discriminate.
Qed.

Ltac norejoin := try (match goal with Hy : reuse F = true /\ _ |- _ => destruct Hy; congruence end).

Lemma invG3_member_kstep s s' : InvG3 s -> NW s -> kstep C0 F s s' ->
  forall j, rl (nodes s' j) = Leader -> In j (GG (log (nodes s' j))).
Proof.
  intros IG N K j. pose proof (IG3_member _ IG j) as Old.
  destruct K; subst x; sproj; auto; nc j; auto; norejoin; intros H; try congruence; try discriminate.
  - (* lead *) rewrite gcfg_snoc. simpl. apply N; auto.
  - (* client *) rewrite gcfg_snoc. apply gapp_keeps; [apply Old; congruence|].
    apply (client_ok_not_self F _ _ _ Hg).
Qed.

Lemma invG3_noop_kstep s s' : InvG3 s -> kstep C0 F s s' ->
  forall j, rl (nodes s' j) = Leader -> hasT (log (nodes s' j)) (term (nodes s' j)) (noopi (nodes s' j)).
Proof.
  intros IG K j. pose proof (IG3_noop _ IG j) as Old.
  destruct K; subst x; sproj; auto; nc j; auto; norejoin; intros H; try congruence; try discriminate.
  - (* lead *) exists (noop (nodes s n)). split; [apply nth_error_app_last|reflexivity].
  - (* client *) apply hasT_app. auto.
Qed.

Lemma invG3_direct_kstep s s' :
  InvB C0 F s -> Inv1 s -> Inv2 s -> Inv3 s -> InvG3 s -> LF s -> kstep C0 F s s' ->
  forall T p Cd, In (T, p, Cd) (direct s') ->
     exists m, p < m /\ m <= length (llog s' T) /\ seteq Cd (GG (firstn m (llog s' T))).
Proof.
  intros IB I1 I2 I3 IG LFs K T p Cd H.
  assert (Old : In (T, p, Cd) (direct s) ->
     exists m, p < m /\ m <= length (llog s' T) /\ seteq Cd (GG (firstn m (llog s' T)))).
  { intros D. destruct (IG3_direct _ IG _ _ _ D) as (m & A & B & C).
    destruct (kstep_llog C0 F s s' T I1 I2 I3 LFs K) as [r [-> _]].
    exists m. split; auto. split; [rewrite app_length; lia|]. rewrite firstn_app_stable; auto. }
  destruct K; subst x; sproj; auto.
  destruct H as [H|H]; auto. injection H as <- <- <-.
  destruct (I2_leader _ I2 n Hr) as (Q & Cq & W).
  rewrite <- (I3_wlog _ I3 _ _ _ _ W eq_refl).
  exists (length (log (nodes s n))). split; auto. split; auto.
  rewrite firstn_all. apply (cfg_is_G C0 F Hreuse HbaseC0 C0_nodup); auto. apply (IG3_member _ IG). exact Hr.
Qed.

Lemma invG3_win_kstep s s' :
  InvB C0 F s -> Inv1 s -> Inv2 s -> Inv3 s -> InvG3 s -> LF s -> NW s -> kstep C0 F s s' ->
  forall T c Q Cw, In (T, c, Q, Cw) (wins s') ->
     exists m e, nth_error (llog s' T) m = Some e /\ eterm e = T /\
       (forall r e', r < m -> nth_error (llog s' T) r = Some e' -> eterm e' < T) /\
       seteq Cw (GG (firstn m (llog s' T))).
Proof.
  intros IB I1 I2 I3 IG LFs N K T c Q Cw H.
  assert (Old : In (T, c, Q, Cw) (wins s) ->
     exists m e, nth_error (llog s' T) m = Some e /\ eterm e = T /\
       (forall r e', r < m -> nth_error (llog s' T) r = Some e' -> eterm e' < T) /\
       seteq Cw (GG (firstn m (llog s' T)))).
  { intros W. destruct (IG3_win _ IG _ _ _ _ W) as (m & e & A & B & C & D).
    assert (Lm : m < length (llog s T)) by (apply nth_error_Some; congruence).
    destruct (kstep_llog C0 F s s' T I1 I2 I3 LFs K) as [r [-> _]].
    exists m, e. split; [apply nth_error_app_some; auto|]. split; auto. split.
    - intros r0 e' L0 H0. apply (C r0 e'); auto. apply (nth_error_app_lt _ r); auto. lia.
    - rewrite firstn_app_stable; auto. lia. }
  destruct K; subst x; sproj; auto.
  destruct H as [H|H]; auto. injection H as <- <- <- <-.
  rewrite (Hl (term (nodes s n))), Nat.eqb_refl.
  exists (length (log (nodes s n))), (noop (nodes s n)).
  split; [apply nth_error_app_last|]. split; [reflexivity|]. split.
  - intros r e' L0 H0. rewrite nth_error_app1 in H0 by auto.
    apply (I2_candlog _ I2 n); auto. eapply nth_error_In; eauto.
  - rewrite firstn_app_stable by auto. rewrite firstn_all.
    apply (cfg_is_G C0 F Hreuse HbaseC0 C0_nodup); auto.
Qed.

(* the gate at work: the entry a leader appends with [client_ok] satisfies (a) and (b) *)
Lemma gate_gives3 s n c :
  Inv1 s -> Inv2 s -> Inv3 s -> Inv7 s -> InvG3 s ->
  rl (nodes s n) = Leader -> client_ok F n (nodes s n) c = true -> is_cfg c = true ->
  let T := term (nodes s n) in let L := log (nodes s n) in
  (exists p0 Cd m0, In (T, p0, Cd) (direct s) /\ p0 < m0 /\ m0 <= length L /\
                    seteq Cd (GG (firstn m0 (llog s T)))) /\
  (forall r1 e1, nth_error L r1 = Some e1 -> is_cfg (ecmd e1) = true ->
     exists T0 p0 Cd, In (T0, p0, Cd) (direct s) /\ T0 <= T /\ r1 <= p0 /\
                      firstn (S r1) L = firstn (S r1) (llog s T0) /\
                      (T0 = T -> exists m0, p0 < m0 /\ m0 <= length L /\ seteq Cd (GG (firstn m0 (llog s T))))).
Proof.
  intros I1 I2 I3 I7 IG Hr Hg Hc T L.
  unfold client_ok in Hg. rewrite Hc in Hg. apply andb_true_iff in Hg as [Hg _].
  unfold gate in Hg. rewrite HgateA in Hg. apply andb_true_iff in Hg as [Ga Gb]. apply Nat.ltb_lt in Ga.
  destruct (I2_leader _ I2 n Hr) as (Q & Cq & W).
  pose proof (I3_wlog _ I3 _ _ _ _ W eq_refl) as EL. fold L T in EL.
  destruct (I7_node _ I7 n) as [Cl (T0 & p0 & Cd & D1 & D2 & D3 & D4)]. fold L T in Cl, D2, D4.
  split.
  - destruct (IG3_noop _ IG n Hr) as (en & N1 & N2). fold L T in N1, N2.
    assert (N3 : nth_error (llog s T0) (noopi (nodes s n)) = Some en).
    { rewrite <- (firstn_eq_nth _ _ _ _ D4 Ga). exact N1. }
    apply (I3_llog_ok _ I3) in N3. assert (T0 = T) by lia. subst T0.
    destruct (IG3_direct _ IG _ _ _ D1) as (m0 & M1 & M2 & M3).
    exists p0, Cd, m0. repeat split; auto; try apply M3. rewrite EL. exact M2.
  - intros r1 e1 H1 C1. pose proof (no_cfg_from_spec _ _ _ _ Gb H1 C1) as Lr.
    exists T0, p0, Cd. split; [auto|]. split; [auto|]. split; [lia|]. split.
    + eapply firstn_le_eq; [|exact D4]. lia.
    + intros ->. destruct (IG3_direct _ IG _ _ _ D1) as (m0 & M1 & M2 & M3).
      exists m0. split; [auto|]. split; [rewrite EL; exact M2|exact M3].
Qed.

Lemma invG3_cfg_kstep s s' :
  Inv1 s -> Inv2 s -> Inv3 s -> Inv7 s -> InvG3 s -> LF s -> kstep C0 F s s' ->
  forall T r e, nth_error (llog s' T) r = Some e -> eterm e = T -> is_cfg (ecmd e) = true ->
    cfg_entry_ok C0 s' T r.
Proof.
  intros I1 I2 I3 I7 IG LFs K T r e H Et Hc.
  assert (ML : forall U, exists x, llog s' U = llog s U ++ x).
  { intros U. destruct (kstep_llog C0 F s s' U I1 I2 I3 LFs K) as [x [E _]]. eauto. }
  assert (MD : forall d, In d (direct s) -> In d (direct s')) by (intros d; eapply kstep_direct; eauto).
  assert (Old : nth_error (llog s T) r = Some e -> cfg_entry_ok C0 s' T r).
  { intros H0. apply (cfg_entry_ok_mono C0 s s'); auto.
    - apply nth_error_Some. congruence.
    - apply (IG3_cfg _ IG T r e); auto. }
  destruct K; subst x; sproj; auto.
  - (* lead *)
    rewrite (Hl T) in H. destruct (Nat.eqb_spec T (term (nodes s n))) as [->|N]; auto.
    exfalso. apply nth_error_snoc_cases in H as [[L H]|[_ ->]]; [|discriminate].
    apply nth_error_In in H. apply (I2_candlog _ I2 n e Hr) in H. lia.
  - (* client *)
    rewrite (Hl T) in H. destruct (Nat.eqb_spec T (term (nodes s n))) as [->|N]; auto.
    destruct (I2_leader _ I2 n Hr) as (Q & Cq & W).
    pose proof (I3_wlog _ I3 _ _ _ _ W eq_refl) as EL.
    apply nth_error_snoc_cases in H as [[L H]|[-> ->]]; [rewrite EL in H; auto|].
    simpl in Hc.
    destruct (gate_gives3 s n c I1 I2 I3 I7 IG Hr Hg Hc) as [(p0 & Cd & m0 & A1 & A2 & A3 & A4) B].
    split.
    + exists p0, Cd, m0. split; [auto|]. split; [auto|]. split; [auto|].
      cbn [llog]. rewrite (Hl (term (nodes s n))), Nat.eqb_refl. rewrite <- EL in A4.
      unfold G. rewrite firstn_app_stable by auto. exact A4.
    + intros r1 e1 L1 H1 C1. cbn [llog] in *. rewrite (Hl (term (nodes s n))), Nat.eqb_refl in H1.
      apply nth_error_app_lt in H1; auto.
      destruct (B r1 e1 H1 C1) as (T0 & q0 & Cd0 & B1 & B2 & B3 & B4 & B5).
      assert (Lr : S r1 <= length (log (nodes s n))) by lia.
      exists T0, q0, Cd0. split; [auto|]. split; [auto|]. split; [auto|]. split.
      * rewrite (Hl (term (nodes s n))), Nat.eqb_refl. rewrite firstn_app_stable by auto. rewrite B4.
        rewrite (Hl T0). destruct (Nat.eqb_spec T0 (term (nodes s n))) as [->|N0]; auto.
        rewrite <- EL. rewrite firstn_app_stable; auto.
      * intros E0. destruct (B5 E0) as (m1 & M1 & M2 & M3). exists m1. split; [auto|]. split; [auto|].
        rewrite (Hl (term (nodes s n))), Nat.eqb_refl. rewrite <- EL in M3.
        unfold G. rewrite firstn_app_stable by auto. exact M3.
Qed.

Lemma invG3_kstep s s' :
  InvB C0 F s -> Inv1 s -> Inv2 s -> Inv3 s -> Inv7 s -> InvG3 s -> LF s -> NW s -> kstep C0 F s s' -> InvG3 s'.
Proof.
  intros IB I1 I2 I3 I7 IG LFs N K. constructor.
  - apply (invG3_member_kstep s s'); auto.
  - apply (invG3_noop_kstep s s'); auto.
  - apply (invG3_direct_kstep s s'); auto.
  - apply (invG3_win_kstep s s'); auto.
  - apply (invG3_cfg_kstep s s'); auto.
Qed.

End A.
