(* The joint invariant and the safety theorems of AbstractM under the discipline
     gateA  (guard (a)+(b) of __changeCluster; (b) is always on),
     baseC0 (a joining node replays its log over the initial member list),
     tguard (no election by a node that is not a member by its own log),
     no re-use of ids.
   The member filter [links] is NOT needed (the theorems hold for both values). *)
From Coq Require Import List Arith Lia Bool PeanoNat.
Import ListNotations.
Require Import PSO.AbstractM.Model PSO.AbstractM.Lib PSO.AbstractM.Kstep PSO.AbstractM.Cfg
  PSO.AbstractM.Safety0_Base PSO.AbstractM.Safety1_WF
  PSO.AbstractM.Safety2_Election PSO.AbstractM.Safety3_LeaderLog PSO.AbstractM.Safety4_LogMatching
  PSO.AbstractM.Safety5_Acks PSO.AbstractM.Safety6_LC PSO.AbstractM.Safety7_SM PSO.AbstractM.Safety8_Gate
  PSO.AbstractM.Safety9_Quorums.

Definition disciplined (F : flags) : Prop :=
  gateA F = true /\ baseC0 F = true /\ tguard F = true /\ reuse F = false.

Section All.
Variable C0 : list nat.
Variable F : flags.
Hypothesis HD : disciplined F.
Hypothesis C0_nodup : NoDup C0.
Hypothesis C0_ne : C0 <> [].

Let HgateA : gateA F = true := proj1 HD.
Let HbaseC0 : baseC0 F = true := proj1 (proj2 HD).
Let Htguard : tguard F = true := proj1 (proj2 (proj2 HD)).
Let Hreuse : reuse F = false := proj2 (proj2 (proj2 HD)).

Record AllInv (s : state) : Prop := {
  A0 : Inv0 s; AB : InvB C0 F s; A1 : Inv1 s; A2 : Inv2 s; A3 : Inv3 s; A4 : Inv4 s;
  A5 : Inv5 s; A6 : Inv6 s; A7 : Inv7 s; AG : InvG C0 s; AE : ES s }.

Lemma all_LC s : AllInv s -> LC s.
Proof. intros [? ? ? ? ? ? ? ? ? ? ?]. apply (LC_holds C0 C0_nodup); auto. Qed.

Lemma all_LF s : AllInv s -> LF s.
Proof. intros [? ? ? ? ? ? ? ? ? ? ?]. apply (LF_holds C0 F C0_nodup); auto. Qed.

Lemma all_init : AllInv (init C0).
Proof.
  constructor.
  - apply inv0_init.
  - apply invB_init; auto.
  - apply inv1_init.
  - apply inv2_init.
  - apply inv3_init.
  - apply inv4_init.
  - apply inv5_init.
  - apply inv6_init; auto.
  - apply inv7_init.
  - apply invG_init; auto.
  - intros t c c' Q Q' C C' H. destruct H.
Qed.

Lemma all_kstep s s' : AllInv s -> kstep C0 F s s' -> AllInv s'.
Proof.
  intros A K. pose proof (all_LC s A) as LCs. pose proof (all_LF s A) as LFs.
  destruct A as [I0 IB I1 I2 I3 I4 I5 I6 I7 IG IE].
  constructor.
  - eapply inv0_kstep; eauto.
  - eapply invB_kstep; eauto.
  - eapply inv1_kstep; eauto.
  - eapply inv2_kstep; eauto.
  - eapply inv3_kstep; eauto.
  - eapply inv4_kstep; eauto.
  - eapply inv5_kstep; eauto.
  - eapply (inv6_kstep C0 F Hreuse s s'); eauto.
  - eapply (inv7_kstep C0 F Hreuse s s'); eauto.
  - eapply (invG_kstep C0 F Hreuse HgateA HbaseC0 Htguard C0_nodup s s'); eauto.
  - eapply es_kstep; eauto.
Qed.

Theorem all_kreachable s : kreachable C0 F s -> AllInv s.
Proof. apply kreachable_ind_inv; [apply all_init|]. intros; eapply all_kstep; eauto. Qed.

Theorem all_reachable s : reachable C0 F s -> AllInv s.
Proof. intros R. apply all_kreachable. apply reachable_kreachable; auto. Qed.

End All.
