(* Invariant B: the member list a node was started with has no duplicates and does not contain
   the node itself; hence [cfg n x] never has duplicates.  With the switch baseC0 the list is
   the initial one and [cfg n x = n :: del n (gcfg C0 (log x))]. *)
From Coq Require Import List Arith Lia Bool PeanoNat.
Import ListNotations.
Require Import PSO.AbstractM.Model PSO.AbstractM.Lib PSO.AbstractM.Kstep PSO.AbstractM.Cfg.

Lemma app1_ok n o c : NoDup o -> ~ In n o -> NoDup (app1 n o c) /\ ~ In n (app1 n o c).
Proof.
  intros N I. destruct c as [k|x|x]; simpl; auto.
  - destruct (Nat.eqb_spec x n) as [->|Ne]; simpl; auto.
    destruct (mem x o) eqn:E; auto. split.
    + constructor; auto. apply mem_not_In; auto.
    + intros [H|H]; auto.
  - destruct (x =? n); auto. split; [apply del_NoDup; auto|].
    intros H. apply del_In in H. tauto.
Qed.

Lemma others_of_ok n b l : NoDup b -> ~ In n b -> NoDup (others_of n b l) /\ ~ In n (others_of n b l).
Proof.
  unfold others_of. revert b; induction l as [|e l IH]; intros b N I; simpl; auto.
  destruct (app1_ok n b (ecmd e) N I). apply IH; auto.
Qed.

Lemma cfg_NoDup n x : NoDup (base x) -> ~ In n (base x) -> NoDup (cfg n x).
Proof. intros N I. destruct (others_of_ok n (base x) (log x) N I). unfold cfg. constructor; auto. Qed.

Section SB.
Variable C0 : list nat.
Variable F : flags.
Hypothesis C0_nodup : NoDup C0.

Definition InvB (s : state) : Prop :=
  forall n, NoDup (base (nodes s n)) /\ ~ In n (base (nodes s n)) /\
            (baseC0 F = true -> reuse F = false -> base (nodes s n) = del n C0).

Lemma invB_init : InvB (init C0).
Proof.
  intros n. simpl. split; [apply del_NoDup; auto|]. split; auto.
  intros H. apply del_In in H. tauto.
Qed.

Lemma invB_cfg s n : InvB s -> NoDup (cfg n (nodes s n)).
Proof. intros I. destruct (I n) as (A & B & _). apply cfg_NoDup; auto. Qed.

Lemma invB_kstep s s' : InvB s -> kstep C0 F s s' -> InvB s'.
Proof.
  intros I K j. pose proof (I j) as Ij.
  assert (JB : forall y m, NoDup (join_base C0 F y m s) /\ ~ In y (join_base C0 F y m s)).
  { intros y m. unfold join_base. destruct (baseC0 F).
    - split; [apply del_NoDup; auto|]. intros H. apply del_In in H. tauto.
    - split; [apply del_NoDup; apply invB_cfg; auto|]. intros H. apply del_In in H. tauto. }
  destruct K; subst x; sproj; auto; nc j; auto.
  - destruct (JB y m) as [A B]. split; auto. split; auto.
    intros H1 H2. unfold join_base. rewrite H1. reflexivity.
  - destruct (JB y m) as [A B]. split; auto. split; auto.
    intros H1 H2. destruct Hy. congruence.
Qed.

(* with the initial list: the member table is the global member set of the log *)
Lemma cfg_gcfg s n : InvB s -> baseC0 F = true -> reuse F = false ->
  cfg n (nodes s n) = n :: del n (gcfg C0 (log (nodes s n))).
Proof.
  intros I H1 H2. destruct (I n) as (_ & _ & E). unfold cfg. rewrite (E H1 H2), others_gcfg. reflexivity.
Qed.

End SB.
