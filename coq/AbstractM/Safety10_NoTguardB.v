(* AbstractM without [tguard], part B: Safety9_Quorums.v re-run on [InvG3] (Safety10_NoTguardA).  The only
   change: [LF_holds] takes "a candidate with a majority of its own table is a member by its own log"
   ([NW s], proved in part C) as a hypothesis instead of reading it off [IG_member]. *)
From Coq Require Import List Arith Lia Bool PeanoNat.
Import ListNotations.
Require Import PSO.AbstractM.Model PSO.AbstractM.Lib PSO.AbstractM.Kstep PSO.AbstractM.Cfg PSO.AbstractM.Prefix
  PSO.AbstractM.Safety0_Base PSO.AbstractM.Safety1_WF
  PSO.AbstractM.Safety2_Election PSO.AbstractM.Safety3_LeaderLog PSO.AbstractM.Safety4_LogMatching
  PSO.AbstractM.Safety5_Acks PSO.AbstractM.Safety6_LC PSO.AbstractM.Safety7_SM PSO.AbstractM.Safety8_Gate PSO.AbstractM.Safety10_NoTguardA.

Section S9.
Variable C0 : list nat.
Variable F : flags.
Hypothesis C0_nodup : NoDup C0.

Variable s : state.
Hypothesis I1 : Inv1 s.
Hypothesis I2 : Inv2 s.
Hypothesis I3 : Inv3 s.
Hypothesis I4 : Inv4 s.
Hypothesis I6 : Inv6 s.
Hypothesis IG : InvG3 C0 s.

Notation GG := (gcfg C0).

(* Leader Completeness for all winners of terms below T' *)
Definition LCbelow (T' : nat) : Prop :=
  forall T2 c Q Cw, T2 < T' -> In (T2, c, Q, Cw) (wins s) ->
  forall T p Cd, In (T, p, Cd) (direct s) -> T < T2 -> hasT (llog s T2) T p.

Lemma direct_won T p Cd : In (T, p, Cd) (direct s) -> 0 < T -> exists c Q Cw, In (T, c, Q, Cw) (wins s).
Proof.
  intros D L. destruct (I6_direct _ I6 _ _ _ D) as [[e [E _]] _].
  destruct (I3_won _ I3 T) as [Z|(c & Q & Cw & W)]; [|lia|eauto].
  intros Z. rewrite Z in E. destruct p; discriminate.
Qed.

Lemma direct_llog T p Cd : In (T, p, Cd) (direct s) -> hasT (llog s T) T p.
Proof. intros D. apply (I6_direct _ I6 _ _ _ D). Qed.

(* agreement of two logs up to k *)
Lemma agree_nth (a b : list entry) k q : firstn k a = firstn k b -> q < k -> nth_error a q = nth_error b q.
Proof. apply firstn_eq_nth. Qed.

Lemma agree_hasT (a b : list entry) k T p : firstn k a = firstn k b -> p < k -> hasT b T p -> hasT a T p.
Proof. apply hasT_firstn_eq. Qed.

Lemma agree_le (a b : list entry) i k : firstn k a = firstn k b -> i <= k -> firstn i a = firstn i b.
Proof. intros E L. eapply firstn_le_eq; eauto. Qed.

(* a membership entry at position r of a canonical log sits in the leader log of its term *)
Lemma cfgpos_llog L r : canon_ok (llog s) L -> cfgpos L r ->
  exists e, nth_error L r = Some e /\ is_cfg (ecmd e) = true /\
            nth_error (llog s (eterm e)) r = Some e /\
            firstn (S r) L = firstn (S r) (llog s (eterm e)).
Proof.
  intros C (e & H & Hc). exists e. pose proof (C r e H) as A. repeat split; auto.
  rewrite <- (agree_nth _ _ _ r A) by lia. exact H.
Qed.

Lemma llog_canon T : canon_ok (llog s) (llog s T).
Proof. apply (I4_lcanon _ I4). Qed.

Lemma llog_sorted T : sorted (llog s T).
Proof. apply (I4_sorted _ I4). Qed.

Lemma llog_term_le T r e : nth_error (llog s T) r = Some e -> eterm e <= T.
Proof. intros H. apply (I3_llog_ok _ I3) in H. tauto. Qed.

(* ---------------------------------------------------------------------------------------------
   The core: a log L whose entries are older than T', a direct commit (T,p) of a term T < T'
   decided with the member set of [firstn m (llog T)], L does NOT hold (T,p); everything committed
   "before" (T,m) is held by L (induction hypothesis).  Then the member sets of L and of the
   committing leader differ by at most one node.
   --------------------------------------------------------------------------------------------- *)
Section Core.
Variable T' : nat.
Variable L : list entry.
Hypothesis LCb : LCbelow T'.
Hypothesis HLc : canon_ok (llog s) L.
Hypothesis HLt : forall e, In e L -> eterm e < T'.
Variables T m p : nat.
Variable Cd : list nat.
Hypothesis LT' : T < T'.
Hypothesis D : In (T, p, Cd) (direct s).
Hypothesis Lp : p < m.
Hypothesis Lm : m <= length (llog s T).
Hypothesis N : ~ hasT L T p.
Hypothesis IH : forall T0 q0 Cd0 m0, In (T0, q0, Cd0) (direct s) ->
  q0 < m0 -> m0 <= length (llog s T0) -> seteq Cd0 (GG (firstn m0 (llog s T0))) ->
  T0 < T \/ (T0 = T /\ m0 < m) -> hasT L T0 q0.

Let LT := llog s T.
Let LTm := firstn m (llog s T).
Let j := cpl L LTm.

Lemma L_sorted : sorted L.
Proof. eapply canon_sorted; eauto. apply (I4_sorted _ I4). Qed.

Lemma LTm_length : length LTm = m.
Proof. unfold LTm. rewrite firstn_length. lia. Qed.

Lemma LTm_nth q : q < m -> nth_error LTm q = nth_error LT q.
Proof. intros H. unfold LTm. apply nth_error_firstn_lt. auto. Qed.

Lemma LT_has : hasT LT T p.
Proof. apply (direct_llog _ _ _ D). Qed.

(* any agreement of L and llog T beyond the common prefix is impossible *)
Lemma F_contra q : j <= q -> q < length L -> firstn (S q) L = firstn (S q) LT -> False.
Proof.
  intros Jq Lq A. destruct (le_lt_dec (S q) m) as [Hm|Hm].
  - assert (S q <= j); [|lia]. apply cpl_max; [|lia|rewrite LTm_length; lia].
    rewrite A. unfold LTm. rewrite firstn_firstn. f_equal. lia.
  - apply N. apply (agree_hasT _ _ _ _ _ A); [lia|]. apply LT_has.
Qed.

(* entries committed in a smaller term are held by L *)
Lemma IH_lt T0 q0 Cd0 : In (T0, q0, Cd0) (direct s) -> T0 < T -> hasT L T0 q0.
Proof.
  intros D0 Lt. destruct (IG3_direct _ _ IG _ _ _ D0) as (m0 & A & B & C).
  apply (IH T0 q0 Cd0 m0); auto.
Qed.

Lemma has_agree T0 q0 : hasT L T0 q0 -> firstn (S q0) L = firstn (S q0) (llog s T0).
Proof. apply hasT_canon; auto. Qed.

Lemma cfgpos_LTm r : cfgpos LTm r -> r < m /\ cfgpos LT r.
Proof.
  intros (e & H & C). unfold LTm in H. apply nth_error_firstn_some in H as [A B].
  split; auto. exists e. auto.
Qed.

(* two membership entries of the committing leader's log behind the common prefix: the first was
   committed (guard (b)) before the second was appended, so L holds it *)
Lemma caseB r1 r2 : j <= r1 -> r1 < r2 -> cfgpos LTm r1 -> cfgpos LTm r2 -> False.
Proof.
  intros J1 L12 P1 P2.
  apply cfgpos_LTm in P1 as [M1 (e1 & H1 & C1)]. apply cfgpos_LTm in P2 as [M2 P2].
  destruct (cfgpos_llog LT r2 (llog_canon T) P2) as (e2 & H2 & C2 & H2' & A2).
  pose proof (llog_term_le _ _ _ H2) as Le.
  assert (H1' : nth_error (llog s (eterm e2)) r1 = Some e1).
  { rewrite <- (agree_nth _ _ _ r1 A2) by lia. exact H1. }
  destruct (IG3_cfg _ _ IG (eterm e2) r2 e2 H2' eq_refl C2) as [_ B].
  destruct (B r1 e1 L12 H1' C1) as (T0 & q0 & Cd0 & B1 & B2 & B3 & B4 & B5).
  assert (HL0 : hasT L T0 q0).
  { destruct (Nat.eq_dec T0 T) as [E|NE].
    - assert (E2 : T0 = eterm e2) by lia. destruct (B5 E2) as (m0 & M1' & M2' & M3').
      apply (IH T0 q0 Cd0 m0); auto.
      + rewrite E. lia.
      + rewrite E2. exact M3'.
      + right. split; auto. lia.
    - apply (IH_lt T0 q0 Cd0); auto. lia. }
  apply (F_contra r1); auto.
  - apply hasT_lt in HL0. lia.
  - rewrite (agree_le _ _ (S r1) _ (has_agree _ _ HL0)) by lia.
    rewrite <- B4. symmetry. apply (agree_le _ _ (S r1) _ A2). lia.
Qed.

(* two membership entries of L behind the common prefix: the first was committed, by some term T0 *)
Lemma caseA u1 u2 : j <= u1 -> u1 < u2 -> cfgpos L u1 -> cfgpos L u2 -> False.
Proof.
  intros J1 L12 (e1 & H1 & C1) P2.
  destruct (cfgpos_llog L u2 HLc P2) as (e2 & H2 & C2 & H2' & A2).
  assert (Lu : eterm e2 < T') by (apply HLt; eapply nth_error_In; eauto).
  assert (H1' : nth_error (llog s (eterm e2)) u1 = Some e1).
  { rewrite <- (agree_nth _ _ _ u1 A2) by lia. exact H1. }
  destruct (IG3_cfg _ _ IG (eterm e2) u2 e2 H2' eq_refl C2) as [_ B].
  destruct (B u1 e1 L12 H1' C1) as (T0 & q0 & Cd0 & B1 & B2 & B3 & B4 & _).
  assert (AG0 : firstn (S u1) L = firstn (S u1) (llog s T0)).
  { rewrite <- B4. apply (agree_le _ _ (S u1) _ A2). lia. }
  assert (Lu1 : u1 < length L) by (apply nth_error_Some; congruence).
  destruct (lt_eq_lt_dec T0 T) as [[Lt|Eq]|Gt].
  - destruct (direct_won _ _ _ D) as (c & Q & Cw & W); [lia|].
    pose proof (LCb T c Q Cw LT' W T0 q0 Cd0 B1 Lt) as X.
    apply (hasT_canon _ _ _ _ (llog_canon T)) in X.
    apply (F_contra u1); auto. rewrite AG0. symmetry. apply (agree_le _ _ (S u1) _ X). lia.
  - apply (F_contra u1); auto. rewrite AG0, Eq. reflexivity.
  - destruct (direct_won _ _ _ B1) as (c & Q & Cw & W); [lia|].
    assert (L0 : T0 < T') by lia.
    pose proof (LCb T0 c Q Cw L0 W T p Cd D Gt) as X.
    pose proof (hasT_canon _ _ _ _ (llog_canon T0) X) as Y.
    destruct (le_lt_dec p u1) as [Hp|Hp].
    + apply N. apply (agree_hasT _ _ _ _ _ AG0); [lia|exact X].
    + apply (F_contra u1); auto. rewrite AG0. apply (agree_le _ _ (S u1) _ Y). lia.
Qed.

(* one membership entry on each side: the later of the two was appended after an entry of its own
   term had been committed (guard (a)) - the other log cannot have missed that *)
Lemma caseC u1 r1 : j <= u1 -> j <= r1 -> cfgpos L u1 -> cfgpos LTm r1 -> False.
Proof.
  intros J1 J2 P1 P2.
  destruct (cfgpos_llog L u1 HLc P1) as (e1 & H1 & C1 & H1' & A1).
  apply cfgpos_LTm in P2 as [M1 P2].
  destruct (cfgpos_llog LT r1 (llog_canon T) P2) as (f1 & K1 & Cf & K1' & A2).
  assert (Lu : eterm e1 < T') by (apply HLt; eapply nth_error_In; eauto).
  pose proof (llog_term_le _ _ _ K1) as Lr.
  assert (Lu1 : u1 < length L) by (apply nth_error_Some; congruence).
  destruct (lt_eq_lt_dec (eterm e1) (eterm f1)) as [[Lt|Eq]|Gt].
  - (* the entry of the committing leader's log is the later one *)
    destruct (IG3_cfg _ _ IG (eterm f1) r1 f1 K1' eq_refl Cf) as [(p0 & Cd0 & m0 & A & Bp & Cm & Dse) _].
    assert (Lr1 : r1 < length (llog s (eterm f1))) by (apply nth_error_Some; congruence).
    assert (HL0 : hasT L (eterm f1) p0).
    { apply (IH (eterm f1) p0 Cd0 m0); auto; [lia|].
      destruct (Nat.eq_dec (eterm f1) T); [right; split; auto; lia|left; lia]. }
    assert (J0 : j <= p0).
    { destruct (le_lt_dec j p0); auto. exfalso. destruct HL0 as (e & Hp0 & Et).
      pose proof (L_sorted p0 u1 e e1 ltac:(lia) Hp0 H1). lia. }
    apply (F_contra p0); auto.
    + apply hasT_lt in HL0. auto.
    + rewrite (has_agree _ _ HL0). symmetry. apply (agree_le _ _ (S p0) _ A2). lia.
  - apply (F_contra (Nat.min u1 r1)); try lia.
    rewrite (agree_le _ _ (S (Nat.min u1 r1)) _ A1) by lia. rewrite Eq.
    symmetry. apply (agree_le _ _ (S (Nat.min u1 r1)) _ A2). lia.
  - (* the entry of L is the later one *)
    destruct (IG3_cfg _ _ IG (eterm e1) u1 e1 H1' eq_refl C1) as [(p0 & Cd0 & m0 & A & Bp & Cm & Dse) _].
    pose proof (direct_llog _ _ _ A) as X0.
    destruct (lt_eq_lt_dec (eterm e1) T) as [[Lt2|Eq2]|Gt2].
    + destruct (direct_won _ _ _ D) as (c & Q & Cw & W); [lia|].
      pose proof (LCb T c Q Cw LT' W _ _ _ A Lt2) as X.
      pose proof (hasT_canon _ _ _ _ (llog_canon T) X) as Y.
      assert (J0 : j <= p0).
      { destruct (le_lt_dec j p0); auto. exfalso. destruct X as (e & Hp0 & Et).
        pose proof (llog_sorted T p0 r1 e f1 ltac:(lia) Hp0 K1). lia. }
      apply (F_contra p0); auto; [lia|].
      rewrite (agree_le _ _ (S p0) _ A1) by lia. symmetry. exact Y.
    + apply (F_contra u1); auto. rewrite A1, Eq2. reflexivity.
    + destruct (direct_won _ _ _ A) as (c & Q & Cw & W); [lia|].
      pose proof (LCb _ c Q Cw Lu W T p Cd D Gt2) as X.
      assert (Lpp : p < p0).
      { destruct (le_lt_dec p0 p); auto. exfalso. destruct X0 as (a & Ha & Eta). destruct X as (b & Hb & Etb).
        pose proof (llog_sorted _ p0 p a b ltac:(lia) Ha Hb). lia. }
      apply N. apply (agree_hasT _ _ _ _ _ A1); [lia|exact X].
Qed.

Lemma core_adj : adj (GG L) (GG LTm).
Proof.
  destruct (adj_or_cfgs C0 L LTm C0_nodup) as [A|[X|[X|X]]]; auto; exfalso.
  - destruct X as (u1 & u2 & A1 & A2 & A3 & A4). apply (caseA u1 u2); auto.
  - destruct X as (r1 & r2 & A1 & A2 & A3 & A4). apply (caseB r1 r2); auto.
  - destruct X as (u1 & r1 & A1 & A2 & A3 & A4). apply (caseC u1 r1); auto.
Qed.

End Core.

(* a decider of term T' - a log L older than T' with a majority Q of ITS member set whose members
   "transfer" what they acknowledged - holds everything committed directly in a term < T' *)
Lemma decider_complete T' L Q :
  LCbelow T' -> canon_ok (llog s) L -> (forall e, In e L -> eterm e < T') ->
  NoDup Q -> incl Q (GG L) -> length (GG L) < 2 * length Q ->
  (forall q T p Cd, In q Q -> In (T, p, Cd) (direct s) -> acked s T q p -> T < T' ->
     hasT L T p \/ exists T2, T < T2 < T' /\ lacks s T p T2) ->
  forall T p Cd, In (T, p, Cd) (direct s) -> T < T' -> hasT L T p.
Proof.
  intros LCb HLc HLt NQ IQ MQ HV.
  assert (Main : forall T, T < T' -> forall m p Cd, In (T, p, Cd) (direct s) -> p < m ->
            m <= length (llog s T) -> seteq Cd (GG (firstn m (llog s T))) -> hasT L T p).
  { induction T as [T IHT] using lt_wf_ind. intros LT'.
    induction m as [m IHm] using lt_wf_ind. intros p Cd D Lp Lm SE.
    destruct (hasT_dec L T p) as [Y|N]; auto.
    assert (ADJ : adj (GG L) (GG (firstn m (llog s T)))).
    { apply (core_adj T' L LCb HLc HLt T m p Cd); auto.
      intros T0 q0 Cd0 m0 D0 A B C [Lt|[-> Lt]].
      - apply (IHT T0 Lt ltac:(lia) m0 q0 Cd0); auto.
      - apply (IHm m0 Lt q0 Cd0); auto. }
    destruct (I6_direct _ I6 _ _ _ D) as [HL (Qd & Q1 & Q2 & Q3 & Q4)].
    pose proof (seteq_length _ _ SE) as SL. destruct SE as (SE1 & SE2 & SE3).
    destruct (adj_meet (GG L) (GG (firstn m (llog s T))) Q Qd) as (q & A & B); auto.
    - apply gcfg_NoDup; auto.
    - intros x Hx. apply SE3. apply Q2. exact Hx.
    - lia.
    - destruct (HV q T p Cd A D (Q4 q B) LT') as [Y|(T2 & R & [(c & Qc & Cc & W) NL])]; auto.
      exfalso. apply NL. apply (LCb T2 c Qc Cc ltac:(lia) W T p Cd D). lia. }
  intros T p Cd D LT'. destruct (IG3_direct _ _ IG _ _ _ D) as (m & A & B & C).
  apply (Main T LT' m p Cd); auto.
Qed.

(* ---------------------------------------------------------------------------------------------
   Two deciders of the SAME term Tb that both hold everything committed below Tb: their member
   sets differ by at most one node.
   --------------------------------------------------------------------------------------------- *)
Definition complete_below (L : list entry) (Tb : nat) : Prop :=
  forall T p Cd, In (T, p, Cd) (direct s) -> T < Tb -> hasT L T p.

Definition maxpre (k : nat) (La Lb : list entry) : Prop :=
  forall i, firstn i La = firstn i Lb -> i <= length La -> i <= length Lb -> i <= k.

Lemma maxpre_sym k La Lb : maxpre k La Lb -> maxpre k Lb La.
Proof. intros H i E A B. apply H; auto. Qed.

Section Two.
Variable Tb : nat.
Variables La Lb : list entry.
Variable k : nat.
Hypothesis Ca : canon_ok (llog s) La.
Hypothesis Cb : canon_ok (llog s) Lb.
Hypothesis Ta : forall e, In e La -> eterm e < Tb.
Hypothesis Hb : complete_below Lb Tb.
Hypothesis Hk : maxpre k La Lb.

(* two membership entries in La behind the common prefix *)
Lemma two_one_side u1 u2 : k <= u1 -> u1 < u2 -> cfgpos La u1 -> cfgpos La u2 -> False.
Proof.
  intros J1 L12 (e1 & H1 & C1) P2.
  destruct (cfgpos_llog La u2 Ca P2) as (e2 & H2 & C2 & H2' & A2).
  assert (Lu : eterm e2 < Tb) by (apply Ta; eapply nth_error_In; eauto).
  assert (H1' : nth_error (llog s (eterm e2)) u1 = Some e1).
  { rewrite <- (agree_nth _ _ _ u1 A2) by lia. exact H1. }
  destruct (IG3_cfg _ _ IG (eterm e2) u2 e2 H2' eq_refl C2) as [_ B].
  destruct (B u1 e1 L12 H1' C1) as (T0 & q0 & Cd0 & B1 & B2 & B3 & B4 & _).
  assert (X : hasT Lb T0 q0) by (apply (Hb T0 q0 Cd0); auto; lia).
  pose proof (hasT_canon _ _ _ _ Cb X) as Y. apply hasT_lt in X.
  assert (S u1 <= k); [|lia]. apply Hk.
  - rewrite (agree_le _ _ (S u1) _ A2) by lia. rewrite B4. symmetry. apply (agree_le _ _ (S u1) _ Y). lia.
  - assert (u1 < length La) by (apply nth_error_Some; congruence). lia.
  - lia.
Qed.

(* one membership entry in each, the one in Lb of the larger term *)
Lemma one_each_lt u1 r1 e1 f1 :
  complete_below La Tb -> (forall e, In e Lb -> eterm e < Tb) ->
  k <= u1 -> nth_error La u1 = Some e1 -> nth_error Lb r1 = Some f1 -> is_cfg (ecmd f1) = true ->
  eterm e1 < eterm f1 -> False.
Proof.
  intros Ha Tbb J1 H1 K1 Cf Lt.
  pose proof (Cb r1 f1 K1) as A2.
  assert (K1' : nth_error (llog s (eterm f1)) r1 = Some f1).
  { rewrite <- (agree_nth _ _ _ r1 A2) by lia. exact K1. }
  assert (Lr : eterm f1 < Tb) by (apply Tbb; eapply nth_error_In; eauto).
  destruct (IG3_cfg _ _ IG (eterm f1) r1 f1 K1' eq_refl Cf) as [(p0 & Cd0 & m0 & A & Bp & Cm & Dse) _].
  assert (X : hasT La (eterm f1) p0) by (apply (Ha _ p0 Cd0); auto).
  pose proof (hasT_canon _ _ _ _ Ca X) as Y.
  assert (J0 : k <= p0).
  { destruct (le_lt_dec k p0); auto. exfalso. destruct X as (e & Hp0 & Et).
    assert (SA : sorted La) by (eapply canon_sorted; eauto; apply (I4_sorted _ I4)).
    pose proof (SA p0 u1 e e1 ltac:(lia) Hp0 H1). lia. }
  assert (S p0 <= k); [|lia]. apply Hk.
  - rewrite Y. symmetry. apply (agree_le _ _ (S p0) _ A2). lia.
  - apply hasT_lt in X. lia.
  - assert (r1 < length Lb) by (apply nth_error_Some; congruence). lia.
Qed.

End Two.

Lemma two_deciders_adj Tb La Lb :
  canon_ok (llog s) La -> canon_ok (llog s) Lb ->
  (forall e, In e La -> eterm e < Tb) -> (forall e, In e Lb -> eterm e < Tb) ->
  complete_below La Tb -> complete_below Lb Tb -> adj (GG La) (GG Lb).
Proof.
  intros Ca Cb Ta Tbb Ha Hb.
  assert (Hk : maxpre (cpl La Lb) La Lb) by (intros i; apply cpl_max).
  destruct (adj_or_cfgs C0 La Lb C0_nodup) as [A|[X|[X|X]]]; auto; exfalso.
  - destruct X as (u1 & u2 & A1 & A2 & A3 & A4).
    apply (two_one_side Tb La Lb _ Ca Cb Ta Hb Hk u1 u2); auto.
  - destruct X as (r1 & r2 & A1 & A2 & A3 & A4).
    apply (two_one_side Tb Lb La _ Cb Ca Tbb Ha (maxpre_sym _ _ _ Hk) r1 r2); auto.
  - destruct X as (u1 & r1 & A1 & A2 & (e1 & H1 & C1) & (f1 & K1 & Cf)).
    destruct (lt_eq_lt_dec (eterm e1) (eterm f1)) as [[Lt|Eq]|Gt].
    + apply (one_each_lt Tb La Lb _ Ca Cb Hk u1 r1 e1 f1); auto.
    + pose proof (Ca u1 e1 H1) as X1. pose proof (Cb r1 f1 K1) as X2.
      assert (Lu : u1 < length La) by (apply nth_error_Some; congruence).
      assert (Lr : r1 < length Lb) by (apply nth_error_Some; congruence).
      assert (S (Nat.min u1 r1) <= cpl La Lb); [|lia]. apply Hk; try lia.
      rewrite (agree_le _ _ (S (Nat.min u1 r1)) _ X1) by lia. rewrite Eq.
      symmetry. apply (agree_le _ _ (S (Nat.min u1 r1)) _ X2). lia.
    + apply (one_each_lt Tb Lb La _ Cb Ca (maxpre_sym _ _ _ Hk) r1 u1 f1 e1); auto.
Qed.

(* ---- the decision log of a recorded winner ---- *)
Lemma win_log T' c Q Cw : In (T', c, Q, Cw) (wins s) ->
  exists m, canon_ok (llog s) (firstn m (llog s T')) /\
            (forall e, In e (firstn m (llog s T')) -> eterm e < T') /\
            seteq Cw (GG (firstn m (llog s T'))) /\
            (forall T p, T < T' -> hasT (llog s T') T p -> hasT (firstn m (llog s T')) T p).
Proof.
  intros W. destruct (IG3_win _ _ IG _ _ _ _ W) as (m & e & A & B & C & E).
  exists m. split; [apply canon_firstn; apply llog_canon|]. split; [|split; auto].
  - intros x Hx. apply In_nth_error in Hx as [r Hx]. apply nth_error_firstn_some in Hx as [Lr Hx]. eauto.
  - intros T p LT (x & Hp & Et).
    assert (p < m).
    { destruct (le_lt_dec m p); auto. exfalso. pose proof (llog_sorted T' m p e x ltac:(lia) A Hp). lia. }
    exists x. split; auto. rewrite nth_error_firstn_lt; auto.
Qed.

Lemma hasT_firstn l m T p : hasT (firstn m l) T p -> hasT l T p.
Proof. intros (e & H & E). apply nth_error_firstn_some in H as [_ H]. exists e. auto. Qed.

(* ---- Leader Completeness ---- *)
Lemma lc_aux T' : forall c Q Cw, In (T', c, Q, Cw) (wins s) ->
  forall T p Cd, In (T, p, Cd) (direct s) -> T < T' -> hasT (llog s T') T p.
Proof.
  induction T' as [T' IH] using lt_wf_ind. intros c Q Cw W T p Cd D LT.
  assert (LCb : LCbelow T').
  { intros T2 c2 Q2 Cw2 L2 W2 T0 p0 Cd0 D0 L0. apply (IH T2 L2 c2 Q2 Cw2 W2 T0 p0 Cd0 D0 L0). }
  destruct (win_log _ _ _ _ W) as (m & Cm & Tm & SE & Hm).
  destruct (I2_win _ I2 _ _ _ _ W) as (NQ & IQ & MQ & GQ & _).
  apply (hasT_firstn _ m).
  apply (decider_complete T' (firstn m (llog s T')) Q LCb Cm Tm NQ) with (Cd := Cd); auto.
  - intros x Hx. apply (seteq_incl _ _ SE). apply IQ. exact Hx.
  - rewrite <- (seteq_length _ _ SE). exact MQ.
  - intros q T0 p0 Cd0 Hq D0 A L0.
    destruct (I6_win _ I6 T' c Q Cw q T0 p0 W Hq A (direct_llog _ _ _ D0) L0) as [X|X];
      [left; apply Hm; auto|right; exact X].
Qed.

Theorem LC_holds : LC s.
Proof. intros T p Cd D T' c Q Cw W LT. apply (lc_aux T' c Q Cw W T p Cd D LT). Qed.

(* ---- a candidate that reaches a majority of its member set is the first winner of its term ---- *)
Hypothesis IB : InvB C0 F s.
Hypothesis Hreuse : reuse F = false.
Hypothesis HbaseC0 : baseC0 F = true.
Hypothesis NWs : NW C0 s.

Theorem LF_holds : LF s.
Proof.
  intros n c Q Cw Hr Hmaj W.
  set (T' := term (nodes s n)) in *.
  assert (LCb : LCbelow T').
  { intros T2 c2 Q2 Cw2 L2 W2 T0 p0 Cd0 D0 L0. apply (lc_aux T2 c2 Q2 Cw2 W2 T0 p0 Cd0 D0 L0). }
  destruct (I2_cand _ I2 n Hr) as (NV & IV & GV).
  assert (Mn : In n (GG (log (nodes s n)))) by (apply NWs; assumption).
  pose proof (cfg_is_G C0 F Hreuse HbaseC0 C0_nodup s n IB Mn) as SEn. unfold G in SEn.
  unfold majority_of in Hmaj. apply Nat.ltb_lt in Hmaj.
  assert (Tn : forall e, In e (log (nodes s n)) -> eterm e < T') by (intros e He; apply (I2_candlog _ I2 n); auto).
  (* the candidate holds everything committed below T' *)
  assert (Hn : complete_below (log (nodes s n)) T').
  { intros T p Cd D LT.
    apply (decider_complete T' (log (nodes s n)) (votesFrom (nodes s n)) LCb (I4_canon _ I4 n) Tn NV)
      with (Cd := Cd); auto.
    - intros v Hv. apply (seteq_incl _ _ SEn). apply IV. exact Hv.
    - rewrite <- (seteq_length _ _ SEn). exact Hmaj.
    - intros q T0 p0 Cd0 Hq D0 A L0.
      destruct (I6_cand _ I6 T' q n T0 p0 (GV q Hq) A (direct_llog _ _ _ D0) L0 Hr eq_refl)
        as [X|(T2 & R & X)]; [left; exact X|].
      destruct (Nat.eq_dec T2 T') as [->|NE]; [|right; exists T2; split; [lia|exact X]].
      exfalso. destruct X as [_ NL]. apply NL. apply (lc_aux T' c Q Cw W T0 p0 Cd0 D0 L0). }
  (* so does the recorded winner *)
  destruct (win_log _ _ _ _ W) as (m & Cm & Tm & SE & Hm).
  assert (Hc : complete_below (firstn m (llog s T')) T').
  { intros T p Cd D LT. apply Hm; auto. apply (lc_aux T' c Q Cw W T p Cd D LT). }
  pose proof (two_deciders_adj T' _ _ (I4_canon _ I4 n) Cm Tn Tm Hn Hc) as ADJ.
  destruct (I2_win _ I2 _ _ _ _ W) as (NQ & IQ & MQ & GQ & Lc & Rc).
  destruct (adj_meet _ _ (votesFrom (nodes s n)) Q (gcfg_NoDup C0 _ C0_nodup) (gcfg_NoDup C0 _ C0_nodup) ADJ NV NQ)
    as (v & A & B).
  - intros v Hv. apply (seteq_incl _ _ SEn). apply IV. exact Hv.
  - intros v Hv. apply (seteq_incl _ _ SE). apply IQ. exact Hv.
  - rewrite <- (seteq_length _ _ SEn). exact Hmaj.
  - rewrite <- (seteq_length _ _ SE). exact MQ.
  - assert (n = c) by (apply (I2_uniq _ I2 T' v n c (GV v A) (GQ v B))). subst c.
    apply Rc; auto.
Qed.

End S9.
