(* Invariant 7: State Machine Safety.
   Every node's committed prefix is a prefix of the leader log of a directly committed entry
   (of a term <= the node's term); hence two nodes never disagree on a committed position, commit
   indices only grow and committed entries never change. *)
From Coq Require Import List Arith Lia Bool PeanoNat.
Import ListNotations.
Require Import PSO.AbstractM.Model PSO.AbstractM.Lib PSO.AbstractM.Kstep PSO.AbstractM.Cfg PSO.AbstractM.Safety0_Base PSO.AbstractM.Safety1_WF
  PSO.AbstractM.Safety2_Election PSO.AbstractM.Safety3_LeaderLog PSO.AbstractM.Safety4_LogMatching
  PSO.AbstractM.Safety5_Acks PSO.AbstractM.Safety6_LC.

(* the first k entries of l are covered by a directly committed entry of a term <= Tb *)
Definition committed_upto (s : state) (Tb : nat) (l : list entry) (k : nat) : Prop :=
  k <= length l /\
  exists T0 p0 C, In (T0, p0, C) (direct s) /\ T0 <= Tb /\ k <= S p0 /\ firstn k l = firstn k (llog s T0).

(* Leader Completeness as a state predicate (proved from the whole chain in Safety9_Quorums.v) *)
Definition LC (s : state) : Prop :=
  forall T p C, In (T, p, C) (direct s) -> forall T' c Q Cw, In (T', c, Q, Cw) (wins s) -> T < T' ->
    hasT (llog s T') T p.

Section S7.
Variable C0 : list nat.
Variable F : flags.
Hypothesis Hreuse : reuse F = false.

Ltac norejoin := try (match goal with Hy : reuse F = true /\ _ |- _ => destruct Hy; congruence end).

Record Inv7 (s : state) : Prop := {
  I7_node : forall j, committed_upto s (term (nodes s j)) (log (nodes s j)) (commit (nodes s j));
  I7_msg : forall T l d pi pt es lc, In (AppendEntries T l d pi pt es lc) (net s) ->
     committed_upto s T (llog s T) lc
}.

Lemma inv7_init : Inv7 (init C0).
Proof.
  constructor; simpl; try (intros; contradiction).
  intros _. split; auto. exists 0, 0, C0. repeat split; auto. simpl. auto.
Qed.

Lemma committed_mono s s' Tb Tb' l k :
  Inv1 s -> Inv2 s -> Inv3 s -> LF s -> kstep C0 F s s' -> Tb <= Tb' ->
  committed_upto s Tb l k -> committed_upto s' Tb' l k.
Proof.
  intros I1 I2 I3 LFs K L [A (T0 & p0 & Cd & B & C & D & E)]. split; auto.
  exists T0, p0, Cd. split; [eapply kstep_direct; eauto|]. split; [lia|]. split; auto.
  destruct (kstep_llog C0 F s s' T0 I1 I2 I3 LFs K) as [r [-> _]].
  rewrite firstn_app_le; auto. eapply firstn_eq_length; eauto.
Qed.

Lemma committed_app s Tb l r k : committed_upto s Tb l k -> committed_upto s Tb (l ++ r) k.
Proof.
  intros [A (T0 & p0 & Cd & B & C & D & E)]. split; [rewrite app_length; lia|].
  exists T0, p0, Cd. repeat split; auto. rewrite firstn_app_le; auto.
Qed.

(* a committed prefix is a prefix of the leader log of every term >= its bound that has a leader *)
Lemma committed_in_leader s Tb l k T c Q Cw :
  Inv4 s -> Inv6 s -> LC s -> committed_upto s Tb l k -> In (T, c, Q, Cw) (wins s) -> Tb <= T ->
  firstn k l = firstn k (llog s T).
Proof.
  intros I4 I6 LCs [A (T0 & p0 & Cd & B & C & D & E)] W L.
  assert (H : hasT (llog s T) T0 p0).
  { destruct (Nat.eq_dec T0 T) as [->|NE].
    - apply (I6_direct _ I6 _ _ _ B).
    - apply (LCs T0 p0 Cd B T c Q Cw W). lia. }
  pose proof (hasT_canon _ _ _ _ (I4_lcanon _ I4 T) H) as Fq.
  rewrite E. symmetry. eapply firstn_le_eq; eauto.
Qed.

Lemma inv7_kstep s s' :
  Inv1 s -> Inv2 s -> Inv3 s -> Inv4 s -> Inv5 s -> Inv6 s -> Inv7 s -> LF s -> LC s ->
  kstep C0 F s s' -> Inv7 s'.
Proof.
  intros I1 I2 I3 I4 I5 I6 I7 LFs LCs K.
  assert (Mono : forall Tb Tb' l k, Tb <= Tb' -> committed_upto s Tb l k -> committed_upto s' Tb' l k).
  { intros. eapply committed_mono; eauto. }
  constructor.
  - (* nodes *)
    intros j. pose proof (I7_node _ I7 j) as Cj. pose proof (Mono _ _ _ _ (le_n _) Cj) as Cj'.
    destruct K; subst x; sproj; auto; nc j; auto; norejoin.
    + apply (Mono _ (S (term (nodes s n)))) in Cj; auto.
    + apply committed_app. auto.
    + apply (Mono _ t) in Cj; auto. lia.
    + apply committed_app. auto.
    + (* ae_ok *)
      subst t.
      destruct (ae_ok_facts s n _ l n p pt es lc pe I3 I4 Hm Hp Hpt) as (F1 & F2 & F3 & F4).
      destruct (ae_result_prefix _ _ p es F1 F2 F3 F4) as [G1 G2].
      destruct (I3_ae _ I3 _ _ _ _ _ _ _ Hm) as [(Q & Cq & W) _].
      pose proof (committed_in_leader s _ _ _ _ l Q Cq I4 I6 LCs Cj W (le_n _)) as E0.
      destruct Cj as [A (T0 & p0 & Cd & B & C & D & E)].
      destruct (ae_result_keeps _ _ p es _ F1 F2 F3 F4 A E0) as [R1 R2].
      destruct (Nat.max_spec (commit (nodes s n)) (Nat.min lc (S p + length es))) as [[_ ->]|[_ ->]].
      * (* the leader's commit index *)
        destruct (I7_msg _ I7 _ _ _ _ _ _ _ Hm) as [A1 (T1 & p1 & Cd1 & B1 & C1 & D1 & E1)].
        split; [lia|]. exists T1, p1, Cd1. repeat split; auto; try lia.
        transitivity (firstn (Nat.min lc (S p + length es)) (llog s (term (nodes s n)))).
        -- eapply firstn_le_eq; [|exact G2]. lia.
        -- eapply firstn_le_eq; [|exact E1]. lia.
      * split; auto. exists T0, p0, Cd. repeat split; auto. cbn [llog]. rewrite R2, <- E0. exact E.
    + (* commit *)
      destruct (I2_leader _ I2 n Hr) as (Q & Cq & W).
      pose proof (I3_wlog _ I3 _ _ _ _ W eq_refl) as E.
      split; [lia|]. exists (term (nodes s n)), p, (cfg n (nodes s n)). repeat split; auto.
      * left; auto.
      * cbn [llog]. rewrite <- E. reflexivity.
  - (* messages *)
    intros T l0 d0 pi0 pt0 es0 lc0 H.
    assert (Old : In (AppendEntries T l0 d0 pi0 pt0 es0 lc0) (net s) -> committed_upto s' T (llog s' T) lc0).
    { intros A. pose proof (Mono _ _ _ _ (le_n _) (I7_msg _ I7 _ _ _ _ _ _ _ A)) as C.
      destruct (kstep_llog C0 F s s' T I1 I2 I3 LFs K) as [r [-> _]]. apply committed_app; auto. }
    destruct K; subst x; sproj; auto; destruct H as [H|H]; auto; try discriminate.
    injection H as <- <- <- <- <- <- <-.
    destruct (I2_leader _ I2 n Hr) as (Q & Cq & W).
    rewrite <- (I3_wlog _ I3 _ _ _ _ W eq_refl). apply (I7_node _ I7 n).
Qed.

(* two directly committed entries are compatible: the later leader log contains the earlier one *)
Lemma direct_compat s T1 p1 C1 T2 p2 C2 :
  Inv3 s -> Inv4 s -> Inv6 s -> LC s ->
  In (T1, p1, C1) (direct s) -> In (T2, p2, C2) (direct s) -> T1 <= T2 ->
  firstn (S p1) (llog s T2) = firstn (S p1) (llog s T1).
Proof.
  intros I3 I4 I6 LCs D1 D2 L.
  assert (H : hasT (llog s T2) T1 p1).
  { destruct (Nat.eq_dec T1 T2) as [->|NE]; [apply (I6_direct _ I6 _ _ _ D1)|].
    destruct (I6_direct _ I6 _ _ _ D2) as [[e [E1 E2]] _].
    destruct (I3_won _ I3 T2) as [Z|(c & Q & Cq & W)]; [|lia|].
    - intros Z. rewrite Z in E1. destruct p2; discriminate.
    - apply (LCs T1 p1 C1 D1 T2 c Q Cq W). lia. }
  apply (hasT_canon _ _ _ _ (I4_lcanon _ I4 T2) H).
Qed.

Lemma sms_inv s a b p :
  Inv3 s -> Inv4 s -> Inv6 s -> Inv7 s -> LC s ->
  p < commit (nodes s a) -> p < commit (nodes s b) ->
  nth_error (log (nodes s a)) p = nth_error (log (nodes s b)) p.
Proof.
  intros I3 I4 I6 I7 LCs La Lb.
  destruct (I7_node _ I7 a) as [Aa (Ta & pa & Ca & Ba & Ca' & Da & Ea)].
  destruct (I7_node _ I7 b) as [Ab (Tb & pb & Cb & Bb & Cb' & Db & Eb)].
  rewrite (firstn_eq_nth _ _ _ p Ea La), (firstn_eq_nth _ _ _ p Eb Lb).
  destruct (Nat.le_ge_cases Ta Tb) as [L|L].
  - pose proof (direct_compat s Ta pa Ca Tb pb Cb I3 I4 I6 LCs Ba Bb L) as Fq.
    symmetry. apply (firstn_eq_nth _ _ _ p Fq). lia.
  - pose proof (direct_compat s Tb pb Cb Ta pa Ca I3 I4 I6 LCs Bb Ba L) as Fq.
    apply (firstn_eq_nth _ _ _ p Fq). lia.
Qed.

(* ---- commit indices only grow and committed entries never change ---- *)
Definition stable (s s' : state) (j : nat) : Prop :=
  commit (nodes s j) <= commit (nodes s' j) /\
  firstn (commit (nodes s j)) (log (nodes s' j)) = firstn (commit (nodes s j)) (log (nodes s j)).

Lemma stable_refl s j : stable s s j.
Proof. split; auto. Qed.

Lemma stable_trans s1 s2 s3 j : stable s1 s2 j -> stable s2 s3 j -> stable s1 s3 j.
Proof.
  intros [A B] [C D]. split; [lia|]. rewrite <- B. eapply firstn_le_eq; eauto.
Qed.

Lemma stable_kstep s s' j :
  Inv3 s -> Inv4 s -> Inv6 s -> Inv7 s -> LC s -> kstep C0 F s s' -> stable s s' j.
Proof.
  intros I3 I4 I6 I7 LCs K. unfold stable.
  pose proof (I7_node _ I7 j) as Cj.
  destruct K; subst x; sproj; auto; nc j; auto; norejoin.
  - split; auto. apply firstn_app_le. apply Cj.
  - split; auto. apply firstn_app_le. apply Cj.
  - (* ae_ok *)
    subst t. split; [apply Nat.le_max_l|].
    destruct (ae_ok_facts s n _ l n p pt es lc pe I3 I4 Hm Hp Hpt) as (F1 & F2 & F3 & F4).
    destruct (I3_ae _ I3 _ _ _ _ _ _ _ Hm) as [(Q & Cq & W) _].
    pose proof (committed_in_leader s _ _ _ _ l Q Cq I4 I6 LCs Cj W (le_n _)) as E0.
    destruct Cj as [A _].
    destruct (ae_result_keeps _ _ p es _ F1 F2 F3 F4 A E0) as [R1 R2]. congruence.
Qed.

End S7.
