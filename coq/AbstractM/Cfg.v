(* Member sets as functions of logs: pure list lemmas.
   [gcfg C0 l] (fold of the membership entries of l over the initial members) has no duplicates;
   a node started with [del n C0] has [others = del n (gcfg l)]; appending one entry changes the
   member set by at most one node; majorities of two member sets that differ by at most one
   node intersect (C10_single_change_majorities_intersect, re-proved here on lists). *)
From Coq Require Import List Arith Lia Bool PeanoNat.
Import ListNotations.
Require Import PSO.AbstractM.Model PSO.AbstractM.Lib.

Lemma mem_In v l : mem v l = true <-> In v l.
Proof.
  unfold mem. rewrite existsb_exists. split.
  - intros [x [H E]]. apply Nat.eqb_eq in E. subst; auto.
  - intros H. exists v. split; auto. apply Nat.eqb_refl.
Qed.

Lemma mem_not_In v l : mem v l = false <-> ~ In v l.
Proof.
  split.
  - intros H I. apply mem_In in I. congruence.
  - intros H. destruct (mem v l) eqn:E; auto. apply mem_In in E. contradiction.
Qed.

Lemma del_In x y o : In x (del y o) <-> In x o /\ x <> y.
Proof.
  unfold del. rewrite filter_In. split; intros [A B]; split; auto.
  - apply negb_true_iff in B. apply Nat.eqb_neq in B. auto.
  - apply negb_true_iff. apply Nat.eqb_neq. auto.
Qed.

Lemma del_NoDup y o : NoDup o -> NoDup (del y o).
Proof. apply NoDup_filter. Qed.

Lemma del_del x y o : del x (del y o) = del y (del x o).
Proof.
  unfold del. induction o as [|a o IH]; simpl; auto.
  destruct (a =? y) eqn:Ey, (a =? x) eqn:Ex; simpl; rewrite ?Ey, ?Ex; simpl; auto. f_equal. auto.
Qed.

Lemma del_idem x o : del x (del x o) = del x o.
Proof.
  unfold del. induction o as [|a o IH]; simpl; auto.
  destruct (a =? x) eqn:Ex; simpl; rewrite ?Ex; simpl; auto. f_equal. auto.
Qed.

Lemma del_notin x o : ~ In x o -> del x o = o.
Proof.
  unfold del. induction o as [|a o IH]; simpl; auto. intros H.
  destruct (Nat.eqb_spec a x) as [->|N]; simpl; [tauto|]. f_equal. apply IH. tauto.
Qed.

Lemma mem_del x y o : x <> y -> mem x (del y o) = mem x o.
Proof.
  intros N. destruct (mem x o) eqn:E.
  - apply mem_In. apply del_In. split; auto. apply mem_In; auto.
  - apply mem_not_In. intros H. apply del_In in H as [H _]. apply mem_not_In in E. auto.
Qed.

Lemma del_length_In x o : NoDup o -> In x o -> S (length (del x o)) = length o.
Proof.
  unfold del. induction o as [|a o IH]; simpl; [tauto|]. intros N H. inversion N; subst.
  destruct (Nat.eqb_spec a x) as [->|Ne]; simpl.
  - f_equal. fold (del x o). rewrite del_notin; auto.
  - f_equal. apply IH; auto. destruct H; congruence.
Qed.

(* ---- gapp / gcfg ---- *)
Lemma gapp_NoDup o c : NoDup o -> NoDup (gapp o c).
Proof.
  intros N. destruct c as [k|x|x]; simpl; auto.
  - destruct (mem x o) eqn:E; auto. constructor; auto. apply mem_not_In; auto.
  - apply del_NoDup; auto.
Qed.

Lemma fold_gapp_NoDup l o : NoDup o -> NoDup (fold_left (fun o e => gapp o (ecmd e)) l o).
Proof. revert o; induction l as [|e l IH]; intros o N; simpl; auto. apply IH. apply gapp_NoDup; auto. Qed.

Lemma gcfg_NoDup C0 l : NoDup C0 -> NoDup (gcfg C0 l).
Proof. apply fold_gapp_NoDup. Qed.

Lemma gcfg_snoc C0 l e : gcfg C0 (l ++ [e]) = gapp (gcfg C0 l) (ecmd e).
Proof. unfold gcfg. rewrite fold_left_app. reflexivity. Qed.

Lemma gcfg_app C0 l r : gcfg C0 (l ++ r) = fold_left (fun o e => gapp o (ecmd e)) r (gcfg C0 l).
Proof. unfold gcfg. apply fold_left_app. Qed.

(* a node started with the initial list minus itself sees the global member set minus itself *)
Lemma app1_del n o c : app1 n (del n o) c = del n (gapp o c).
Proof.
  destruct c as [k|x|x]; simpl; auto.
  - destruct (Nat.eqb_spec x n) as [->|N]; simpl.
    + destruct (mem n o); auto. unfold del at 2. simpl. rewrite Nat.eqb_refl. reflexivity.
    + rewrite mem_del by auto. destruct (mem x o); auto.
      unfold del at 2. simpl. destruct (Nat.eqb_spec x n); [congruence|]. reflexivity.
  - destruct (Nat.eqb_spec x n) as [->|N].
    + symmetry. apply del_idem.
    + apply del_del.
Qed.

Lemma others_of_del n o l :
  others_of n (del n o) l = del n (fold_left (fun o e => gapp o (ecmd e)) l o).
Proof.
  unfold others_of. revert o; induction l as [|e l IH]; intros o; simpl; auto.
  rewrite app1_del. apply IH.
Qed.

Lemma others_gcfg C0 n l : others_of n (del n C0) l = del n (gcfg C0 l).
Proof. apply others_of_del. Qed.

(* ---- two member sets that differ by at most one node; their majorities meet ---- *)
Definition adj (A B : list nat) : Prop :=
  (incl A B /\ length B <= S (length A)) \/ (incl B A /\ length A <= S (length B)).

Lemma adj_refl A : adj A A.
Proof. left. split; [apply incl_refl|lia]. Qed.

Lemma adj_sym A B : adj A B -> adj B A.
Proof. intros [H|H]; [right|left]; exact H. Qed.

Lemma adj_gapp o c : NoDup o -> adj o (gapp o c).
Proof.
  intros N. destruct c as [k|x|x]; simpl; [apply adj_refl| |].
  - destruct (mem x o); [apply adj_refl|]. left. split; [apply incl_tl, incl_refl|simpl; lia].
  - right. split.
    + intros y Hy. apply del_In in Hy. tauto.
    + destruct (in_dec Nat.eq_dec x o) as [I|I].
      * rewrite (del_length_In x o N I). lia.
      * rewrite del_notin; auto.
Qed.

(* C10_single_change_majorities_intersect, on lists *)
Lemma adj_meet A B Q1 Q2 :
  NoDup A -> NoDup B -> adj A B -> NoDup Q1 -> NoDup Q2 -> incl Q1 A -> incl Q2 B ->
  length A < 2 * length Q1 -> length B < 2 * length Q2 -> exists x, In x Q1 /\ In x Q2.
Proof.
  intros NA NB [[I L]|[I L]] N1 N2 I1 I2 M1 M2.
  - apply (quorum_meet B Q1 Q2); auto; [eapply incl_tran; eauto|lia].
  - apply (quorum_meet A Q1 Q2); auto; [eapply incl_tran; eauto|lia].
Qed.

Definition seteq (A B : list nat) : Prop := NoDup A /\ NoDup B /\ forall x, In x A <-> In x B.

Lemma seteq_length A B : seteq A B -> length A = length B.
Proof.
  intros (NA & NB & E). apply Nat.le_antisymm; apply NoDup_incl_length; auto; intros x Hx; apply E; auto.
Qed.

Lemma seteq_incl A B : seteq A B -> incl A B.
Proof. intros (_ & _ & E) x Hx. apply E; auto. Qed.

(* the member list of node n (itself first) is the global member set when n is a member *)
Lemma cfg_seteq G n : NoDup G -> In n G -> seteq (n :: del n G) G.
Proof.
  intros N I. split; [|split; auto].
  - constructor; [|apply del_NoDup; auto]. intros H. apply del_In in H. tauto.
  - intros x. simpl. rewrite del_In. split.
    + intros [<-|[H _]]; auto.
    + intros H. destruct (Nat.eq_dec n x); auto.
Qed.

(* ---- number of membership entries in a piece of log ---- *)
Definition ncfg (R : list entry) : nat := length (filter (fun e => is_cfg (ecmd e)) R).
Definition cfgpos (L : list entry) (r : nat) : Prop :=
  exists e, nth_error L r = Some e /\ is_cfg (ecmd e) = true.

Lemma gapp_cmd o c : is_cfg c = false -> gapp o c = o.
Proof. destruct c; simpl; auto; discriminate. Qed.

Lemma fold_ncfg0 R A : ncfg R = 0 -> fold_left (fun o e => gapp o (ecmd e)) R A = A.
Proof.
  revert A; induction R as [|e R IH]; intros A H; simpl; auto.
  unfold ncfg in H. simpl in H. destruct (is_cfg (ecmd e)) eqn:E; [discriminate|].
  rewrite gapp_cmd by auto. apply IH. exact H.
Qed.

Lemma fold_ncfg1 R A : ncfg R <= 1 -> NoDup A -> adj A (fold_left (fun o e => gapp o (ecmd e)) R A).
Proof.
  revert A; induction R as [|e R IH]; intros A H N; simpl; [apply adj_refl|].
  unfold ncfg in H. simpl in H. destruct (is_cfg (ecmd e)) eqn:E.
  - simpl in H. rewrite fold_ncfg0 by (unfold ncfg; lia). apply adj_gapp; auto.
  - rewrite gapp_cmd by auto. apply IH; auto.
Qed.

Lemma ncfg_pos R : 1 <= ncfg R -> exists i, cfgpos R i.
Proof.
  induction R as [|e R IH]; unfold ncfg; simpl; [lia|]. intros H.
  destruct (is_cfg (ecmd e)) eqn:E.
  - exists 0, e. auto.
  - destruct (IH H) as [i Hi]. exists (S i). exact Hi.
Qed.

Lemma ncfg_pos2 R : 2 <= ncfg R -> exists i i', i < i' /\ cfgpos R i /\ cfgpos R i'.
Proof.
  induction R as [|e R IH]; unfold ncfg; simpl; [lia|]. intros H.
  destruct (is_cfg (ecmd e)) eqn:E.
  - simpl in H. destruct (ncfg_pos R) as [i Hi]; [unfold ncfg; lia|].
    exists 0, (S i). split; [lia|]. split; [exists e; auto|exact Hi].
  - destruct (IH H) as (i & i' & L & A & B). exists (S i), (S i'). split; [lia|]. auto.
Qed.

(* two logs with a common prefix and at most one membership entry behind it, in total *)
Lemma adj_logs C0 P R1 R2 :
  NoDup C0 -> ncfg R1 + ncfg R2 <= 1 -> adj (gcfg C0 (P ++ R1)) (gcfg C0 (P ++ R2)).
Proof.
  intros N H. rewrite !gcfg_app.
  pose proof (gcfg_NoDup C0 P N) as NP.
  destruct (ncfg R1) eqn:E1.
  - rewrite (fold_ncfg0 R1) by auto. apply fold_ncfg1; auto; lia.
  - rewrite (fold_ncfg0 R2) by lia. apply adj_sym. apply fold_ncfg1; auto; lia.
Qed.
