(* AbstractM without [tguard], part D: the joint invariant and the safety theorems for [kreachable3]
   (Safety10_NoTguardA): the rules of Kstep.v with ANY value of the switches [tguard] and [links],
   guards (a)/(b) on, joiners start with the initial list, no re-use of ids, plus [gcond]:
   a vote for ANOTHER node is granted over a link (both run, each has the other in its member table);
   a node that times out is a member by its own log or a pure joiner (no [CAdd] of itself in its log,
   not an initial member).
   Same names as SafetyAll.v / Theorems.v ([AllInv], [A0] .. [AE], [all_LC], [all_LF], [k_all],
   [k_election_safety], [k_leader_completeness], [k_state_machine_safety], [k_commit_stable]). *)
From Coq Require Import List Arith Lia Bool PeanoNat.
Import ListNotations.
Require Import PSO.AbstractM.Model PSO.AbstractM.Lib PSO.AbstractM.Kstep PSO.AbstractM.Cfg
  PSO.AbstractM.Safety0_Base PSO.AbstractM.Safety1_WF
  PSO.AbstractM.Safety2_Election PSO.AbstractM.Safety3_LeaderLog PSO.AbstractM.Safety4_LogMatching
  PSO.AbstractM.Safety5_Acks PSO.AbstractM.Safety6_LC PSO.AbstractM.Safety7_SM PSO.AbstractM.Safety8_Gate
  PSO.AbstractM.Safety10_NoTguardA PSO.AbstractM.Safety10_NoTguardB PSO.AbstractM.Safety10_NoTguardC.

Definition disciplined3 (F : flags) : Prop :=
  gateA F = true /\ baseC0 F = true /\ reuse F = false.

Section All.
Variable C0 : list nat.
Variable F : flags.
Hypothesis HD : disciplined3 F.
Hypothesis C0_nodup : NoDup C0.
Hypothesis C0_ne : C0 <> [].

Let HgateA : gateA F = true := proj1 HD.
Let HbaseC0 : baseC0 F = true := proj1 (proj2 HD).
Let Hreuse : reuse F = false := proj2 (proj2 HD).

Record AllInv (s : state) : Prop := {
  A0 : Inv0 s; AB : InvB C0 F s; A1 : Inv1 s; A2 : Inv2 s; A3 : Inv3 s; A4 : Inv4 s;
  A5 : Inv5 s; A6 : Inv6 s; A7 : Inv7 s; AG : InvG3 C0 s; AE : ES s;
  AP : Pj C0 s; AJ : J C0 s; AH : Hae C0 s; AY : Hy C0 s }.

Lemma all_LC s : AllInv s -> LC s.
Proof. intros [? ? ? ? ? ? ? ? ? ? ? ? ? ? ?]. apply (LC_holds C0 C0_nodup); auto. Qed.

(* a candidate with a majority of its own member table is a member by its own log *)
Lemma all_NW s : AllInv s -> NW C0 s.
Proof.
  intros A. pose proof (all_LC s A) as LCs. destruct A as [? ? ? ? ? ? ? ? ? ? ? ? ? ? ?].
  apply (NW_holds C0 F Hreuse HbaseC0 C0_nodup C0_ne s); auto.
Qed.

Lemma all_LF s : AllInv s -> LF s.
Proof.
  intros A. pose proof (all_NW s A) as N. destruct A as [? ? ? ? ? ? ? ? ? ? ? ? ? ? ?].
  apply (LF_holds C0 F C0_nodup); auto.
Qed.

Lemma all_init : AllInv (init C0).
Proof.
  constructor.
  - apply inv0_init.
  - apply invB_init; auto.
  - apply inv1_init.
  - apply inv2_init.
  - apply inv3_init.
  - apply inv4_init.
  - apply inv5_init.
  - apply inv6_init; auto.
  - apply inv7_init.
  - apply invG3_init; auto.
  - intros t c c' Q Q' C C' H. destruct H.
  - apply Pj_init.
  - apply J_init.
  - apply Hae_init.
  - apply Hy_init.
Qed.

Lemma all_kstep s s' : AllInv s -> kstep3 C0 F s s' -> AllInv s'.
Proof.
  intros A [K Gc]. pose proof (all_LC s A) as LCs. pose proof (all_LF s A) as LFs.
  pose proof (all_NW s A) as N.
  destruct A as [I0 IB I1 I2 I3 I4 I5 I6 I7 IG IE IP IJ IH IY].
  constructor.
  - eapply inv0_kstep; eauto.
  - eapply invB_kstep; eauto.
  - eapply inv1_kstep; eauto.
  - eapply inv2_kstep; eauto.
  - eapply inv3_kstep; eauto.
  - eapply inv4_kstep; eauto.
  - eapply inv5_kstep; eauto.
  - eapply (inv6_kstep C0 F Hreuse s s'); eauto.
  - eapply (inv7_kstep C0 F Hreuse s s'); eauto.
  - eapply (invG3_kstep C0 F Hreuse HgateA HbaseC0 C0_nodup s s'); eauto.
  - eapply es_kstep; eauto.
  - eapply (Pj_kstep C0 F s s'); eauto.
  - eapply (J_kstep C0 F Hreuse HgateA HbaseC0 s s'); eauto.
  - eapply (Hae_kstep C0 F Hreuse HbaseC0 s s'); eauto.
  - eapply (Hy_kstep C0 F Hreuse HgateA HbaseC0 s s'); eauto.
Qed.

Theorem k_all s : kreachable3 C0 F s -> AllInv s.
Proof. induction 1 as [|s s' R IH K]; [apply all_init|]. eapply all_kstep; eauto. Qed.

Lemma kreachable3_kreachable s : kreachable3 C0 F s -> kreachable C0 F s.
Proof. induction 1 as [|s s' R IH [K _]]; [constructor|]. eapply kreach_step; eauto. Qed.

(* ---- the theorems ---- *)
Theorem k_election_safety s t c c' Q Q' C C' :
  kreachable3 C0 F s -> In (t, c, Q, C) (wins s) -> In (t, c', Q', C') (wins s) -> c = c'.
Proof. intros R. apply (AE _ (k_all s R)). Qed.

Theorem k_one_leader_per_term s a b :
  kreachable3 C0 F s -> rl (nodes s a) = Leader -> rl (nodes s b) = Leader ->
  term (nodes s a) = term (nodes s b) -> a = b.
Proof. intros R. apply one_leader_es; [apply (A2 _ (k_all s R))|apply (AE _ (k_all s R))]. Qed.

Theorem k_leader_completeness s T p Cd T' c Q Cw :
  kreachable3 C0 F s -> In (T, p, Cd) (direct s) -> In (T', c, Q, Cw) (wins s) -> T < T' -> hasT (llog s T') T p.
Proof. intros R D W L. apply (all_LC s (k_all s R) T p Cd D T' c Q Cw W L). Qed.

Theorem k_log_matching s a b p e e' :
  kreachable3 C0 F s ->
  nth_error (log (nodes s a)) p = Some e -> nth_error (log (nodes s b)) p = Some e' -> eterm e = eterm e' ->
  firstn (S p) (log (nodes s a)) = firstn (S p) (log (nodes s b)).
Proof.
  intros R. pose proof (A4 _ (k_all s R)) as I4.
  apply (canon_lmatch (llog s)); apply (I4_canon _ I4).
Qed.

Theorem k_state_machine_safety s a b i :
  kreachable3 C0 F s -> i < commit (nodes s a) -> i < commit (nodes s b) ->
  nth_error (log (nodes s a)) i = nth_error (log (nodes s b)) i /\ i < length (log (nodes s a)).
Proof.
  intros R La Lb. pose proof (k_all s R) as A. split.
  - apply (sms_inv s a b i (A3 _ A) (A4 _ A) (A6 _ A) (A7 _ A) (all_LC s A) La Lb).
  - destruct (I7_node _ (A7 _ A) a) as [X _]. lia.
Qed.

Theorem k_commit_stable s s' j : kreachable3 C0 F s -> kstep3 C0 F s s' -> stable s s' j.
Proof.
  intros R [K _]. pose proof (k_all s R) as A.
  apply (stable_kstep C0 F Hreuse s s' j (A3 _ A) (A4 _ A) (A6 _ A) (A7 _ A) (all_LC s A) K).
Qed.

(* every decision is a majority of the decider's own member set = gcfg of a prefix of its leader log *)
Theorem k_win_by_majority_of_own_cfg s t c Q C :
  kreachable3 C0 F s -> In (t, c, Q, C) (wins s) ->
  NoDup Q /\ incl Q C /\ length C < 2 * length Q /\
  exists m, seteq C (gcfg C0 (firstn m (llog s t))).
Proof.
  intros R W. pose proof (k_all s R) as A.
  destruct (I2_win _ (A2 _ A) _ _ _ _ W) as (N & I & M & _).
  destruct (IG3_win _ _ (AG _ A) _ _ _ _ W) as (m & e & _ & _ & _ & SE). eauto.
Qed.

Theorem k_cfg_is_global s n :
  kreachable3 C0 F s -> cfg n (nodes s n) = n :: del n (gcfg C0 (log (nodes s n))).
Proof. intros R. apply (cfg_gcfg C0 F s n (AB _ (k_all s R))); auto. Qed.

(* THE POINT: who wins is a member by its own log - although nothing stops a joiner from standing *)
Theorem k_winner_is_member s n :
  kreachable3 C0 F s -> rl (nodes s n) = Leader -> In n (gcfg C0 (log (nodes s n))).
Proof. intros R. apply (IG3_member _ _ (AG _ (k_all s R))). Qed.

Theorem k_premature_candidate_has_no_majority s n :
  kreachable3 C0 F s -> rl (nodes s n) = Candidate -> ~ In n (gcfg C0 (log (nodes s n))) ->
  majority_of (cfg n (nodes s n)) (length (votesFrom (nodes s n))) = false.
Proof.
  intros R Hr Hn. destruct (majority_of _ _) eqn:E; auto. exfalso. apply Hn.
  apply (all_NW s (k_all s R) n Hr E).
Qed.

End All.

Print Assumptions k_all.
Print Assumptions k_election_safety.
Print Assumptions k_leader_completeness.
Print Assumptions k_state_machine_safety.
Print Assumptions k_commit_stable.
Print Assumptions k_winner_is_member.
Print Assumptions k_premature_candidate_has_no_majority.
