(* The longest common prefix of two logs, and the member sets of two logs in terms of it. *)
From Coq Require Import List Arith Lia Bool PeanoNat.
Import ListNotations.
Require Import PSO.AbstractM.Model PSO.AbstractM.Lib PSO.AbstractM.Cfg.

Lemma cmd_eq_dec (a b : cmd) : {a = b} + {a <> b}.
Proof. decide equality; apply Nat.eq_dec. Qed.

Lemma entry_eq_dec (a b : entry) : {a = b} + {a <> b}.
Proof. decide equality; try apply Nat.eq_dec. apply cmd_eq_dec. Qed.

Fixpoint cpl (a b : list entry) : nat :=
  match a, b with
  | x :: a', y :: b' => if entry_eq_dec x y then S (cpl a' b') else 0
  | _, _ => 0
  end.

Lemma cpl_agree a b : firstn (cpl a b) a = firstn (cpl a b) b.
Proof.
  revert b; induction a as [|x a IH]; intros [|y b]; simpl; auto.
  destruct (entry_eq_dec x y) as [->|N]; auto.
  rewrite !firstn_cons. f_equal. apply IH.
Qed.

Lemma cpl_le a b : cpl a b <= length a /\ cpl a b <= length b.
Proof.
  revert b; induction a as [|x a IH]; intros [|y b]; simpl; try lia.
  destruct (entry_eq_dec x y); simpl; try lia. destruct (IH b). lia.
Qed.

Lemma cpl_max a b k : firstn k a = firstn k b -> k <= length a -> k <= length b -> k <= cpl a b.
Proof.
  revert b k; induction a as [|x a IH]; intros [|y b] [|k] E La Lb; simpl in *; try lia.
  rewrite !firstn_cons in E. injection E as -> E.
  destruct (entry_eq_dec y y) as [_|N]; [|congruence].
  apply le_n_S. apply IH; auto; lia.
Qed.

(* positions of membership entries behind position j *)
Lemma cfgpos_skipn L j i : cfgpos (skipn j L) i <-> cfgpos L (j + i).
Proof. unfold cfgpos. rewrite nth_error_skipn. tauto. Qed.

(* the member sets of two logs differ by at most one node unless one of three things happens
   behind their common prefix: two membership entries in the first, two in the second, or one in each *)
Lemma adj_or_cfgs C0 L1 L2 :
  NoDup C0 ->
  let j := cpl L1 L2 in
  adj (gcfg C0 L1) (gcfg C0 L2) \/
  (exists u1 u2, j <= u1 /\ u1 < u2 /\ cfgpos L1 u1 /\ cfgpos L1 u2) \/
  (exists r1 r2, j <= r1 /\ r1 < r2 /\ cfgpos L2 r1 /\ cfgpos L2 r2) \/
  (exists u1 r1, j <= u1 /\ j <= r1 /\ cfgpos L1 u1 /\ cfgpos L2 r1).
Proof.
  intros N j.
  pose proof (cpl_agree L1 L2) as A. fold j in A.
  destruct (le_lt_dec (ncfg (skipn j L1) + ncfg (skipn j L2)) 1) as [H|H].
  - left. rewrite <- (firstn_skipn j L1), <- (firstn_skipn j L2). rewrite A. apply adj_logs; auto.
  - right.
    destruct (le_lt_dec 2 (ncfg (skipn j L1))) as [H1|H1].
    { left. destruct (ncfg_pos2 _ H1) as (i & i' & Li & P & P').
      apply cfgpos_skipn in P, P'. exists (j + i), (j + i'). repeat split; auto; lia. }
    destruct (le_lt_dec 2 (ncfg (skipn j L2))) as [H2|H2].
    { right. left. destruct (ncfg_pos2 _ H2) as (i & i' & Li & P & P').
      apply cfgpos_skipn in P, P'. exists (j + i), (j + i'). repeat split; auto; lia. }
    right. right.
    destruct (ncfg_pos (skipn j L1)) as [i P]; [lia|].
    destruct (ncfg_pos (skipn j L2)) as [i' P']; [lia|].
    apply cfgpos_skipn in P, P'. exists (j + i), (j + i'). repeat split; auto; lia.
Qed.
