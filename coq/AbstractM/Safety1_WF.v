(* Invariant 1: well-formedness of logs and of the entries carried by messages.
   - the entry at position p has index p+1 (indices consecutive from 1);
   - every entry's term is <= the holder's current term;
   - terms are non-decreasing along every log (and along the entries of every message, starting
     from the message's prevTerm);
   - logs are never empty; terms of nodes never decrease. *)
From Coq Require Import List Arith Lia Bool PeanoNat.
Import ListNotations.
Require Import PSO.AbstractM.Model PSO.AbstractM.Lib PSO.AbstractM.Kstep.

Definition log_ok (l : list entry) (t : nat) : Prop :=
  forall p e, nth_error l p = Some e -> eidx e = S p /\ eterm e <= t.

Definition es_ok (pi : nat) (es : list entry) (t : nat) : Prop :=
  forall k e, nth_error es k = Some e -> eidx e = S (pi + k) /\ eterm e <= t.

Definition sorted (l : list entry) : Prop :=
  forall p q e e', p <= q -> nth_error l p = Some e -> nth_error l q = Some e' -> eterm e <= eterm e'.

Record Inv1 (s : state) : Prop := {
  I1_log : forall j, log_ok (log (nodes s j)) (term (nodes s j));
  I1_ne : forall j, log (nodes s j) <> [];
  I1_msg : forall t l d pi pt es lc, In (AppendEntries t l d pi pt es lc) (net s) -> es_ok pi es t;
  I1_sorted : forall j, sorted (log (nodes s j));
  I1_msg_sorted : forall t l d pi pt es lc, In (AppendEntries t l d pi pt es lc) (net s) ->
     sorted es /\ forall e, In e es -> pt <= eterm e
}.

Lemma sorted_snoc l e : sorted l -> (forall x, In x l -> eterm x <= eterm e) -> sorted (l ++ [e]).
Proof.
  intros St B p q x y L Hp Hq.
  apply nth_error_snoc_cases in Hp as [[Lp Hp]|[-> ->]]; apply nth_error_snoc_cases in Hq as [[Lq Hq]|[-> ->]];
    eauto; try lia.
  apply B. eapply nth_error_In; eauto.
Qed.

Lemma sorted_skipn l k : sorted l -> sorted (skipn k l).
Proof.
  intros S0 p q e e' L Hp Hq. rewrite nth_error_skipn in Hp, Hq. apply (S0 (k + p) (k + q)); auto. lia.
Qed.

Lemma sorted_firstn l k : sorted l -> sorted (firstn k l).
Proof.
  intros S0 p q e e' L Hp Hq. apply nth_error_firstn_some in Hp as [_ Hp]. apply nth_error_firstn_some in Hq as [_ Hq].
  apply (S0 p q); auto.
Qed.

(* the terms along [merge old new]: those of [new] as far as it reaches, then those of [old]
   (the latter only when nothing was cut, in which case old and new carry the same terms) *)
Lemma merge_term old new i e :
  nth_error (merge old new) i = Some e ->
  (exists b, nth_error new i = Some b /\ eterm b = eterm e) \/
  (length new <= i /\ nth_error old i = Some e /\
   forall k b, nth_error new k = Some b -> exists a, nth_error old k = Some a /\ eterm a = eterm b).
Proof.
  revert old i; induction new as [|n new' IH]; intros old i H; simpl in H.
  - right. split; [simpl; lia|]. split; auto. intros k b Hk. destruct k; discriminate.
  - destruct old as [|o old'].
    + left. exists e. auto.
    + destruct (Nat.eqb_spec (eterm o) (eterm n)) as [E|E].
      * destruct i as [|i]; simpl in H.
        -- injection H as <-. left. exists n. simpl. auto.
        -- destruct (IH old' i H) as [[b [A B]]|(A & B & C)].
           ++ left. exists b. auto.
           ++ right. split; [simpl; lia|]. split; auto.
              intros k b Hk. destruct k as [|k]; simpl in Hk.
              ** injection Hk as <-. exists o. auto.
              ** apply C; auto.
      * left. exists e. auto.
Qed.

Lemma sorted_merge l p pe es :
  sorted l -> nth_error l p = Some pe -> sorted es -> (forall e, In e es -> eterm pe <= eterm e) ->
  sorted (firstn (S p) l ++ merge (skipn (S p) l) es).
Proof.
  intros Sl Hp Se Hpe.
  assert (Hlen : length (firstn (S p) l) = S p).
  { rewrite firstn_length. assert (p < length l) by (apply nth_error_Some; congruence). lia. }
  assert (So : sorted (skipn (S p) l)) by (apply sorted_skipn; auto).
  (* the term at a position of the result *)
  assert (Low : forall a x, a < S p -> nth_error (firstn (S p) l ++ merge (skipn (S p) l) es) a = Some x ->
                 nth_error l a = Some x).
  { intros a x La H. rewrite nth_error_app1 in H by lia. apply nth_error_firstn_some in H. tauto. }
  assert (High : forall a x, S p <= a -> nth_error (firstn (S p) l ++ merge (skipn (S p) l) es) a = Some x ->
                 nth_error (merge (skipn (S p) l) es) (a - S p) = Some x).
  { intros a x La H. rewrite nth_error_app2 in H by lia. rewrite Hlen in H. auto. }
  intros a b x y L Ha Hb.
  destruct (Nat.lt_ge_cases a (S p)) as [La|La]; destruct (Nat.lt_ge_cases b (S p)) as [Lb|Lb]; try lia.
  - apply (Sl a b); auto.
  - apply Low in Ha; auto. apply High in Hb; auto.
    assert (eterm x <= eterm pe) by (apply (Sl a p); auto; lia).
    destruct (merge_term _ _ _ _ Hb) as [[e [A B]]|(A & B & C)].
    + rewrite <- B. apply nth_error_In in A. apply Hpe in A. lia.
    + rewrite nth_error_skipn in B. assert (eterm pe <= eterm y) by (apply (Sl p (S p + (b - S p))); auto; lia). lia.
  - apply High in Ha; auto. apply High in Hb; auto.
    assert (Lab : a - S p <= b - S p) by lia.
    destruct (merge_term _ _ _ _ Ha) as [[ea [A1 B1]]|(A1 & B1 & C1)];
      destruct (merge_term _ _ _ _ Hb) as [[eb [A2 B2]]|(A2 & B2 & C2)].
    + rewrite <- B1, <- B2. apply (Se (a - S p) (b - S p)); auto.
    + destruct (C2 _ _ A1) as [oa [O1 O2]]. rewrite <- B1, <- O2. apply (So (a - S p) (b - S p)); auto.
    + assert (b - S p < length es) by (apply nth_error_Some; congruence). lia.
    + apply (So (a - S p) (b - S p)); auto.
Qed.

Lemma log_ok_mono l t t' : log_ok l t -> t <= t' -> log_ok l t'.
Proof. intros H L p e Hp. destruct (H p e Hp). split; auto. lia. Qed.

Lemma log_ok_snoc l t c : log_ok l t -> log_ok (l ++ [mkE (S (length l)) t c]) t.
Proof.
  intros H p e Hp. apply nth_error_snoc_cases in Hp as [[L Hp]|[-> ->]]; auto.
Qed.

Lemma log_ok_merge l t p es :
  p < length l -> log_ok l t -> es_ok (S p) es t -> log_ok (firstn (S p) l ++ merge (skipn (S p) l) es) t.
Proof.
  intros Hp Hl He q e Hq.
  assert (Hlen : length (firstn (S p) l) = S p) by (rewrite firstn_length; lia).
  destruct (Nat.lt_ge_cases q (S p)) as [L|L].
  - rewrite nth_error_app1 in Hq by lia. apply nth_error_firstn_some in Hq as [_ Hq]. auto.
  - rewrite nth_error_app2 in Hq by lia. rewrite Hlen in Hq.
    apply merge_nth in Hq as [Hq|Hq].
    + rewrite nth_error_skipn in Hq. apply Hl in Hq.
      replace (S p + (q - S p)) with q in Hq by lia. auto.
    + apply He in Hq. replace (S p + (q - S p)) with q in Hq by lia. auto.
Qed.

Lemma merge_ne l p es : p < length l -> firstn (S p) l ++ merge (skipn (S p) l) es <> [].
Proof.
  intros H E. assert (L : length (firstn (S p) l ++ merge (skipn (S p) l) es) = 0) by (rewrite E; reflexivity).
  rewrite app_length, firstn_length in L. lia.
Qed.

Ltac node_cases Hf j n := rewrite (Hf j); destruct (Nat.eqb_spec j n) as [->|?]; simpl.

Section S1.
Variable C0 : list nat.
Variable F : flags.
Hypothesis Hreuse : reuse F = false.

Ltac norejoin := try (match goal with Hy : reuse F = true /\ _ |- _ => destruct Hy; congruence end).

Lemma inv1_init : Inv1 (init C0).
Proof.
  constructor; simpl.
  - intros _ p e Hp. destruct p as [|p]; simpl in Hp.
    + injection Hp as <-. simpl. auto.
    + destruct p; discriminate.
  - intros _. discriminate.
  - intros; contradiction.
  - intros _ p q e e' L Hp Hq. destruct p as [|[|p]]; simpl in Hp; try discriminate.
    destruct q as [|[|q]]; simpl in Hq; try discriminate. injection Hp as <-. injection Hq as <-. lia.
  - intros; contradiction.
Qed.

Lemma kstep_term_mono s s' j : kstep C0 F s s' -> term (nodes s j) <= term (nodes s' j).
Proof.
  intros K. destruct K; subst x; sproj; auto; nc j; auto; try lia. norejoin.
Qed.

Lemma es_ok_window l t p k : log_ok l t -> es_ok (S p) (firstn k (skipn (S p) l)) t.
Proof.
  intros H q e Hq. apply nth_error_firstn_some in Hq as [_ Hq]. rewrite nth_error_skipn in Hq.
  apply H in Hq. auto.
Qed.

Lemma inv1_kstep s s' : Inv1 s -> kstep C0 F s s' -> Inv1 s'.
Proof.
  intros [IL IN IM IS IMS] K. constructor.
  - intros j. pose proof (IL j) as Lj. destruct K; subst x; sproj; auto; nc j; auto; norejoin.
    + eapply log_ok_mono; [apply Lj|lia].
    + apply log_ok_snoc; apply Lj.
    + eapply log_ok_mono; [apply Lj|lia].
    + apply log_ok_snoc; apply Lj.
    + apply log_ok_merge; [apply nth_error_Some; congruence|apply Lj|rewrite Ht; eapply IM; eauto].
  - intros j. pose proof (IN j) as Nj. destruct K; subst x; sproj; auto; nc j; auto; norejoin;
      try (intro E; apply app_eq_nil in E as [_ E]; discriminate).
    apply merge_ne. apply nth_error_Some. congruence.
  - intros t0 l0 d0 pi0 pt0 es0 lc0 H.
    destruct K; subst x; sproj; eauto; destruct H as [H|H]; eauto; try discriminate.
    injection H as <- <- <- <- <- <- <-. apply es_ok_window. apply IL.
  - (* logs sorted *)
    intros j. pose proof (IS j) as Sj.
    destruct K; subst x; sproj; auto; nc j; auto; norejoin.
    + apply sorted_snoc; auto. intros y Hy. simpl. apply In_nth_error in Hy as [q Hy]. apply IL in Hy. tauto.
    + apply sorted_snoc; auto. intros y Hy. simpl. apply In_nth_error in Hy as [q Hy]. apply IL in Hy. tauto.
    + destruct (IMS _ _ _ _ _ _ _ Hm) as [A B]. apply (sorted_merge _ p pe); auto. rewrite Hpt. auto.
  - (* message entries sorted *)
    intros t0 l0 d0 pi0 pt0 es0 lc0 H.
    destruct K; subst x; sproj; eauto; destruct H as [H|H]; eauto; try discriminate.
    injection H as <- <- <- <- <- <- <-. split.
    + apply sorted_firstn. apply sorted_skipn. apply IS.
    + intros e He. apply In_nth_error in He as [q He]. apply nth_error_firstn_some in He as [_ He].
      rewrite nth_error_skipn in He.
      apply (IS n p (S p + q)); auto; [lia|]. apply nth_nth_error; auto.
Qed.

Theorem inv1_kreachable s : kreachable C0 F s -> Inv1 s.
Proof. apply kreachable_ind_inv; [apply inv1_init|]. intros; eapply inv1_kstep; eauto. Qed.

Theorem inv1_reachable s : reachable C0 F s -> Inv1 s.
Proof. intros R. apply inv1_kreachable. apply reachable_kreachable; auto. Qed.

(* ---- the statements of invariant 1 for every reachable state ---- *)
Theorem log_indices_consecutive s j p e :
  reachable C0 F s -> nth_error (log (nodes s j)) p = Some e -> eidx e = S p.
Proof. intros R H. apply (I1_log _ (inv1_reachable s R)) in H. tauto. Qed.

Theorem log_terms_le_current s j e :
  reachable C0 F s -> In e (log (nodes s j)) -> eterm e <= term (nodes s j).
Proof.
  intros R H. apply In_nth_error in H as [p H]. apply (I1_log _ (inv1_reachable s R)) in H. tauto.
Qed.

Theorem log_terms_sorted s j : reachable C0 F s -> sorted (log (nodes s j)).
Proof. intros R. apply (I1_sorted _ (inv1_reachable s R)). Qed.

Theorem log_nonempty s j : reachable C0 F s -> log (nodes s j) <> [].
Proof. intros R. apply (I1_ne _ (inv1_reachable s R)). Qed.

Theorem step_term_mono s s' j : reachable C0 F s -> step C0 F s s' -> term (nodes s j) <= term (nodes s' j).
Proof.
  intros R St. apply reachable_kreachable in R.
  destruct (step_ksteps C0 F s s' (inv0_kreachable C0 F s R) St) as [->|[K|(s1 & K1 & K2)]]; auto.
  - eapply kstep_term_mono; eauto.
  - etransitivity; eapply kstep_term_mono; eauto.
Qed.

End S1.
