(* Invariant 2: votes and wins.  With membership change Election Safety is no longer a
   consequence of vote uniqueness alone (the two quorums are majorities of two member sets): here
   it is carried as the state predicate [ES], preserved as long as a candidate that reaches a
   majority is the first winner of its term ([LF], "lead fresh").  [LF] is PROVED from the whole
   invariant chain in Safety8_Quorums.v; the chain in between takes [ES] and [LF] as hypotheses. *)
From Coq Require Import List Arith Lia Bool PeanoNat.
Import ListNotations.
Require Import PSO.AbstractM.Model PSO.AbstractM.Lib PSO.AbstractM.Kstep PSO.AbstractM.Cfg
  PSO.AbstractM.Safety1_WF.

Definition ES (s : state) : Prop :=
  forall t c c' Q Q' C C', In (t, c, Q, C) (wins s) -> In (t, c', Q', C') (wins s) -> c = c'.

Definition LF (s : state) : Prop :=
  forall n c Q C, rl (nodes s n) = Candidate ->
    majority_of (cfg n (nodes s n)) (length (votesFrom (nodes s n))) = true ->
    ~ In (term (nodes s n), c, Q, C) (wins s).

Section S2.
Variable C0 : list nat.
Variable F : flags.
Hypothesis Hreuse : reuse F = false.

Ltac norejoin := try (match goal with Hy : reuse F = true /\ _ |- _ => destruct Hy; congruence end).

Record Inv2 (s : state) : Prop := {
  I2_grant : forall t v c, In (t, v, c) (grants s) ->
     t <= term (nodes s v) /\ (t = term (nodes s v) -> voted (nodes s v) = Some c) /\
     t <= term (nodes s c);
  I2_uniq : forall t v c c', In (t, v, c) (grants s) -> In (t, v, c') (grants s) -> c = c';
  I2_vote : forall t v c, In (Vote t v c) (net s) -> In (t, v, c) (grants s);
  I2_cand : forall c, rl (nodes s c) = Candidate ->
     NoDup (votesFrom (nodes s c)) /\ incl (votesFrom (nodes s c)) (cfg c (nodes s c)) /\
     forall v, In v (votesFrom (nodes s c)) -> In (term (nodes s c), v, c) (grants s);
  I2_win : forall t c Q C, In (t, c, Q, C) (wins s) ->
     NoDup Q /\ incl Q C /\ length C < 2 * length Q /\ (forall v, In v Q -> In (t, v, c) (grants s)) /\
     t <= term (nodes s c) /\ (t = term (nodes s c) -> rl (nodes s c) <> Candidate);
  I2_leader : forall c, rl (nodes s c) = Leader -> won s (term (nodes s c)) c;
  I2_rv : forall t c li lt, In (RequestVote t c li lt) (net s) ->
     t <= term (nodes s c) /\
     (t = term (nodes s c) -> rl (nodes s c) = Candidate ->
        li = length (log (nodes s c)) /\ lt = lastTerm (log (nodes s c)));
  I2_candlog : forall c e, rl (nodes s c) = Candidate -> In e (log (nodes s c)) -> eterm e < term (nodes s c)
}.

Lemma inv2_init : Inv2 (init C0).
Proof.
  constructor; simpl; try (intros; contradiction); try (intros; discriminate).
Qed.

Lemma cfg_same n x y : base x = base y -> log x = log y -> cfg n x = cfg n y.
Proof. intros A B. unfold cfg. rewrite A, B. reflexivity. Qed.

Lemma inv2_grant_kstep s s' : Inv1 s -> Inv2 s -> kstep C0 F s s' ->
  forall t v c, In (t, v, c) (grants s') ->
     t <= term (nodes s' v) /\ (t = term (nodes s' v) -> voted (nodes s' v) = Some c) /\
     t <= term (nodes s' c).
Proof.
  intros I1 [IG IU IV IC IW IL IR ICL] K t0 v0 c0 H.
  assert (Old : In (t0, v0, c0) (grants s) ->
                t0 <= term (nodes s' v0) /\ (t0 = term (nodes s' v0) -> voted (nodes s' v0) = Some c0) /\
                t0 <= term (nodes s' c0)).
  { intros G. destruct (IG _ _ _ G) as (A & B & C).
    pose proof (kstep_term_mono C0 F Hreuse s s' v0 K) as Mv.
    pose proof (kstep_term_mono C0 F Hreuse s s' c0 K) as Mc.
    repeat split; auto; try lia.
    intros E. assert (E' : t0 = term (nodes s v0)) by lia. specialize (B E').
    clear Mc C. destruct K; subst x; sproj; auto; nc v0; subst; sproj; auto; try lia; try congruence; norejoin. }
  destruct K; subst x; simpl in H |- *; auto; try (apply Old; exact H).
  - (* timeout *) destruct H as [H|H]; [|apply Old; exact H]. injection H as <- <- <-.
    rewrite (Hf n), Nat.eqb_refl. simpl. auto.
  - (* grant *) destruct H as [H|H]; [|apply Old; exact H]. injection H as <- <- <-.
    rewrite (Hf n), Nat.eqb_refl. simpl. repeat split; auto; try lia.
    nc c; try lia. destruct (IR _ _ _ _ Hm) as [A _]. lia.
Qed.

Lemma inv2_win_kstep s s' : Inv1 s -> Inv2 s -> kstep C0 F s s' ->
  forall t c Q C, In (t, c, Q, C) (wins s') ->
     NoDup Q /\ incl Q C /\ length C < 2 * length Q /\ (forall v, In v Q -> In (t, v, c) (grants s')) /\
     t <= term (nodes s' c) /\ (t = term (nodes s' c) -> rl (nodes s' c) <> Candidate).
Proof.
  intros I1 [IG IU IV IC IW IL IR ICL] K t0 c0 Q0 C1 H.
  assert (Old : In (t0, c0, Q0, C1) (wins s) ->
            NoDup Q0 /\ incl Q0 C1 /\ length C1 < 2 * length Q0 /\
            (forall v, In v Q0 -> In (t0, v, c0) (grants s')) /\
            t0 <= term (nodes s' c0) /\ (t0 = term (nodes s' c0) -> rl (nodes s' c0) <> Candidate)).
  { intros W. destruct (IW _ _ _ _ W) as (A & A' & B & C & D & E).
    pose proof (kstep_term_mono C0 F Hreuse s s' c0 K) as Mc.
    repeat split; auto; try lia.
    - intros v Hv. specialize (C v Hv). eapply kstep_grants; eauto.
    - intros E0. assert (E' : t0 = term (nodes s c0)) by lia. specialize (E E').
      clear Mc D. destruct K; subst x; sproj; auto; nc c0; subst; sproj; auto; try lia; try congruence; norejoin. }
  destruct K; subst x; simpl in H |- *; auto; try (apply Old; exact H).
  destruct H as [H|H]; [|apply Old; exact H]. injection H as <- <- <- <-.
  destruct (IC _ Hr) as (A & A' & B).
  rewrite (Hf n), Nat.eqb_refl. simpl. repeat split; auto; try discriminate.
  unfold majority_of in Hmaj. apply Nat.ltb_lt in Hmaj. exact Hmaj.
Qed.

Lemma inv2_kstep s s' : Inv1 s -> Inv2 s -> kstep C0 F s s' -> Inv2 s'.
Proof.
  intros I1 I2 K. pose proof I2 as [IG IU IV IC IW IL IR ICL]. constructor.
  - apply (inv2_grant_kstep s s'); auto.
  - (* uniqueness *)
    intros t0 v0 c0 c0' H H'.
    destruct K; subst x; simpl in H, H'; eauto.
    + destruct H as [H|H], H' as [H'|H']; eauto; try congruence.
      * injection H as <- <- <-. apply IG in H'. lia.
      * injection H' as <- <- <-. apply IG in H. lia.
    + destruct H as [H|H], H' as [H'|H']; eauto; try congruence.
      * injection H as <- <- <-. apply IG in H' as (_ & B & _). rewrite B in Hv; [discriminate|auto].
      * injection H' as <- <- <-. apply IG in H as (_ & B & _). rewrite B in Hv; [discriminate|auto].
  - (* vote messages *)
    intros t0 v0 c0 H.
    destruct K; subst x; simpl in H |- *; auto; destruct H as [H|H]; auto; try discriminate.
    injection H as <- <- <-. auto.
  - (* candidates *)
    intros c0 Hc.
    destruct K; subst x; simpl in Hc |- *; auto; revert Hc; nc c0; intros Hc; subst; auto; try discriminate;
      try congruence; norejoin; unfold cfg in *; sproj;
      try (destruct (IC _ Hc) as (A & A' & B); repeat split; auto; fail).
    + split; [repeat constructor; simpl; tauto|]. split; [intros v [<-|[]]; left; auto|].
      intros v [<-|[]]. auto.
    + destruct (IC _ Hr) as (A & A' & B).
      destruct (mem v (votesFrom (nodes s n))) eqn:M; auto.
      split; [constructor; auto; apply mem_not_In; auto|]. split.
      * intros v0 [<-|H]; auto. apply mem_In; auto.
      * intros v0 [<-|H]; auto.
    + rewrite Hp in Hc. discriminate.
  - apply (inv2_win_kstep s s'); auto.
  - (* leaders *)
    intros c0 Hc.
    assert (Old : rl (nodes s c0) = Leader -> term (nodes s' c0) = term (nodes s c0) -> won s' (term (nodes s' c0)) c0).
    { intros L E. rewrite E. eapply kstep_won; eauto. }
    destruct K; subst x; simpl in Hc |- *; auto; revert Hc Old; nc c0; intros Hc Old; subst; auto; try discriminate;
      norejoin; try (apply Old; auto; fail).
    exists (votesFrom (nodes s n)), (cfg n (nodes s n)). simpl. auto.
  - (* request votes *)
    intros t0 c0 li0 lt0 H.
    assert (Old : In (RequestVote t0 c0 li0 lt0) (net s) ->
       t0 <= term (nodes s' c0) /\
       (t0 = term (nodes s' c0) -> rl (nodes s' c0) = Candidate ->
          li0 = length (log (nodes s' c0)) /\ lt0 = lastTerm (log (nodes s' c0)))).
    { intros R. destruct (IR _ _ _ _ R) as [A B].
      pose proof (kstep_term_mono C0 F Hreuse s s' c0 K) as Mc. split; [lia|].
      intros E. assert (E' : t0 = term (nodes s c0)) by lia. specialize (B E').
      clear Mc A. destruct K; subst x; sproj; auto; nc c0; subst; sproj; auto; try lia; try congruence;
        try discriminate; norejoin. }
    destruct K; subst x; simpl in H |- *; auto; destruct H as [H|H]; try discriminate; try (apply Old; exact H).
    injection H as <- <- <- <-. rewrite (Hf n), Nat.eqb_refl. simpl. auto.
  - (* candidate logs *)
    intros c0 e Hc He.
    destruct K; subst x; simpl in Hc, He |- *; eauto; revert Hc He; nc c0; intros Hc He; subst; eauto;
      try discriminate; try congruence; norejoin.
    apply In_nth_error in He as [p He]. apply (I1_log _ I1) in He. lia.
Qed.

(* Election Safety is preserved as long as a new winner is the first of its term *)
Lemma es_kstep s s' : ES s -> LF s -> kstep C0 F s s' -> ES s'.
Proof.
  intros E L K t c c' Q Q' C C' H H'.
  destruct K; subst x; sproj; eauto.
  destruct H as [H|H], H' as [H'|H']; eauto.
  - congruence.
  - injection H as <- <- <- <-. exfalso. eapply L; eauto.
  - injection H' as <- <- <- <-. exfalso. eapply L; eauto.
Qed.

Lemma one_leader_es s a b :
  Inv2 s -> ES s -> rl (nodes s a) = Leader -> rl (nodes s b) = Leader ->
  term (nodes s a) = term (nodes s b) -> a = b.
Proof.
  intros I E La Lb Et.
  destruct (I2_leader _ I a La) as (Q & C & W). destruct (I2_leader _ I b Lb) as (Q' & C' & W').
  rewrite Et in W. eapply E; eauto.
Qed.

End S2.
