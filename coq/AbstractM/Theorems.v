(* The safety theorems of AbstractM for every reachable state (disciplined flags). *)
From Coq Require Import List Arith Lia Bool PeanoNat.
Import ListNotations.
Require Import PSO.AbstractM.Model PSO.AbstractM.Lib PSO.AbstractM.Kstep PSO.AbstractM.Cfg
  PSO.AbstractM.Safety0_Base PSO.AbstractM.Safety1_WF
  PSO.AbstractM.Safety2_Election PSO.AbstractM.Safety3_LeaderLog PSO.AbstractM.Safety4_LogMatching
  PSO.AbstractM.Safety5_Acks PSO.AbstractM.Safety6_LC PSO.AbstractM.Safety7_SM PSO.AbstractM.Safety8_Gate
  PSO.AbstractM.Safety9_Quorums PSO.AbstractM.SafetyAll.

Section Thm.
Variable C0 : list nat.
Variable F : flags.
Hypothesis HD : disciplined F.
Hypothesis C0_nodup : NoDup C0.
Hypothesis C0_ne : C0 <> [].

Let INV s (R : reachable C0 F s) : AllInv C0 F s := all_reachable C0 F HD C0_nodup C0_ne s R.
Let Hreuse : reuse F = false := proj2 (proj2 (proj2 HD)).

(* ---- Election Safety ---- *)
Theorem election_safety s t c c' Q Q' C C' :
  reachable C0 F s -> In (t, c, Q, C) (wins s) -> In (t, c', Q', C') (wins s) -> c = c'.
Proof. intros R. apply (AE _ _ _ (INV s R)). Qed.

Theorem one_leader_per_term s a b :
  reachable C0 F s -> rl (nodes s a) = Leader -> rl (nodes s b) = Leader ->
  term (nodes s a) = term (nodes s b) -> a = b.
Proof. intros R. apply one_leader_es; [apply (A2 _ _ _ (INV s R))|apply (AE _ _ _ (INV s R))]. Qed.

(* every win was decided by a majority of the winner's own member set, which is the member set
   [gcfg] of the log it had when it won *)
Theorem win_by_majority_of_own_cfg s t c Q C :
  reachable C0 F s -> In (t, c, Q, C) (wins s) ->
  NoDup Q /\ incl Q C /\ length C < 2 * length Q /\
  exists m, seteq C (gcfg C0 (firstn m (llog s t))).
Proof.
  intros R W. pose proof (INV s R) as A.
  destruct (I2_win _ (A2 _ _ _ A) _ _ _ _ W) as (N & I & M & _).
  destruct (IG_win _ _ (AG _ _ _ A) _ _ _ _ W) as (m & e & _ & _ & _ & SE). eauto.
Qed.

(* ---- Leader Append-Only ---- *)
Theorem leader_log_is_llog s j :
  reachable C0 F s -> rl (nodes s j) = Leader -> log (nodes s j) = llog s (term (nodes s j)).
Proof.
  intros R L. pose proof (INV s R) as A. destruct (I2_leader _ (A2 _ _ _ A) j L) as (Q & C & W).
  apply (I3_wlog _ (A3 _ _ _ A) _ _ _ _ W eq_refl).
Qed.

Lemma kstep_llog_reach s s' T : kreachable C0 F s -> kstep C0 F s s' -> exists r, llog s' T = llog s T ++ r.
Proof.
  intros R K. pose proof (all_kreachable C0 F HD C0_nodup C0_ne s R) as A.
  destruct (kstep_llog C0 F s s' T (A1 _ _ _ A) (A2 _ _ _ A) (A3 _ _ _ A) (all_LF C0 F HD C0_nodup s A) K)
    as [r [E _]]. eauto.
Qed.

Theorem llog_append_only s s' T :
  reachable C0 F s -> step C0 F s s' -> exists r, llog s' T = llog s T ++ r.
Proof.
  intros R St. apply reachable_kreachable in R.
  destruct (step_ksteps C0 F s s' (inv0_kreachable C0 F s R) St) as [->|[K|(s1 & K1 & K2)]].
  - exists []. rewrite app_nil_r. auto.
  - apply kstep_llog_reach; auto.
  - destruct (kstep_llog_reach s s1 T R K1) as [r1 E1].
    destruct (kstep_llog_reach s1 s' T (kreach_step C0 F s s1 R K1) K2) as [r2 E2].
    exists (r1 ++ r2). rewrite E2, E1, app_assoc. reflexivity.
Qed.

Theorem leader_append_only s s' j :
  reachable C0 F s -> step C0 F s s' ->
  rl (nodes s j) = Leader -> rl (nodes s' j) = Leader -> term (nodes s' j) = term (nodes s j) ->
  exists r, log (nodes s' j) = log (nodes s j) ++ r.
Proof.
  intros R St L L' E.
  rewrite (leader_log_is_llog s j R L), (leader_log_is_llog s' j (reach_step C0 F s s' R St) L'), E.
  apply llog_append_only; auto.
Qed.

Theorem entry_from_leader s j p e :
  reachable C0 F s -> nth_error (log (nodes s j)) p = Some e -> nth_error (llog s (eterm e)) p = Some e.
Proof. intros R. apply (I3_in _ (A3 _ _ _ (INV s R))). Qed.

(* ---- Log Matching ---- *)
Theorem log_matching s a b p e e' :
  reachable C0 F s ->
  nth_error (log (nodes s a)) p = Some e -> nth_error (log (nodes s b)) p = Some e' -> eterm e = eterm e' ->
  firstn (S p) (log (nodes s a)) = firstn (S p) (log (nodes s b)).
Proof.
  intros R. pose proof (A4 _ _ _ (INV s R)) as I4.
  apply (canon_lmatch (llog s)); apply (I4_canon _ I4).
Qed.

(* ---- Leader Completeness ---- *)
Theorem leader_completeness s T p Cd T' c Q Cw :
  reachable C0 F s -> In (T, p, Cd) (direct s) -> In (T', c, Q, Cw) (wins s) -> T < T' ->
  exists e, nth_error (llog s T) p = Some e /\ eterm e = T /\ nth_error (llog s T') p = Some e /\
            firstn (S p) (llog s T') = firstn (S p) (llog s T).
Proof.
  intros R D W LT. pose proof (INV s R) as A.
  pose proof (all_LC C0 F C0_nodup s A T p Cd D T' c Q Cw W LT) as H.
  destruct (I6_direct _ (A6 _ _ _ A) T p Cd D) as [[e [E1 E2]] _].
  pose proof (hasT_canon _ _ _ _ (I4_lcanon _ (A4 _ _ _ A) T') H) as Fq.
  exists e. repeat split; auto.
  rewrite (firstn_eq_nth _ _ (S p) p Fq (Nat.lt_succ_diag_r p)). auto.
Qed.

Theorem leader_completeness_current s T p Cd L :
  reachable C0 F s -> In (T, p, Cd) (direct s) -> rl (nodes s L) = Leader -> T < term (nodes s L) ->
  exists e, nth_error (llog s T) p = Some e /\ eterm e = T /\ nth_error (log (nodes s L)) p = Some e.
Proof.
  intros R D HL LT. destruct (I2_leader _ (A2 _ _ _ (INV s R)) L HL) as (Q & Cw & W).
  destruct (leader_completeness s T p Cd _ L Q Cw R D W LT) as [e (A & B & C & _)].
  exists e. rewrite (leader_log_is_llog s L R HL). auto.
Qed.

(* a direct commit was decided by a majority of the committing leader's own member set *)
Theorem direct_by_majority_of_own_cfg s T p Cd :
  reachable C0 F s -> In (T, p, Cd) (direct s) ->
  hasT (llog s T) T p /\
  (exists Q, NoDup Q /\ incl Q Cd /\ length Cd < 2 * length Q /\ forall f, In f Q -> acked s T f p) /\
  exists m, p < m /\ m <= length (llog s T) /\ seteq Cd (gcfg C0 (firstn m (llog s T))).
Proof.
  intros R D. pose proof (INV s R) as A.
  destruct (I6_direct _ (A6 _ _ _ A) T p Cd D) as [H Q]. split; auto. split; auto.
  apply (IG_direct _ _ (AG _ _ _ A) _ _ _ D).
Qed.

(* ---- State Machine Safety ---- *)
Theorem state_machine_safety s a b i :
  reachable C0 F s -> i < commit (nodes s a) -> i < commit (nodes s b) ->
  exists e, nth_error (log (nodes s a)) i = Some e /\ nth_error (log (nodes s b)) i = Some e.
Proof.
  intros R La Lb. pose proof (INV s R) as A.
  pose proof (sms_inv s a b i (A3 _ _ _ A) (A4 _ _ _ A) (A6 _ _ _ A) (A7 _ _ _ A)
                (all_LC C0 F C0_nodup s A) La Lb) as E.
  destruct (I7_node _ (A7 _ _ _ A) a) as [Aa _].
  destruct (nth_error (log (nodes s a)) i) as [e|] eqn:Ea.
  - exists e. split; auto.
  - apply nth_error_None in Ea. lia.
Qed.

Corollary state_machine_safety_idx s a b i :
  reachable C0 F s -> 1 <= i -> i <= commit (nodes s a) -> i <= commit (nodes s b) ->
  exists e, nth_error (log (nodes s a)) (i - 1) = Some e /\ nth_error (log (nodes s b)) (i - 1) = Some e /\
            eidx e = i.
Proof.
  intros R L La Lb. destruct (state_machine_safety s a b (i - 1) R) as [e [A B]]; try lia.
  exists e. repeat split; auto.
  apply (I1_log _ (A1 _ _ _ (INV s R))) in A. lia.
Qed.

Theorem commit_le_length s j : reachable C0 F s -> commit (nodes s j) <= length (log (nodes s j)).
Proof. intros R. apply (I7_node _ (A7 _ _ _ (INV s R)) j). Qed.

(* ---- commit indices only grow and committed entries never change ---- *)
Lemma stable_kreach s s' j : kreachable C0 F s -> kstep C0 F s s' -> stable s s' j.
Proof.
  intros R K. pose proof (all_kreachable C0 F HD C0_nodup C0_ne s R) as A.
  apply (stable_kstep C0 F Hreuse s s' j (A3 _ _ _ A) (A4 _ _ _ A) (A6 _ _ _ A) (A7 _ _ _ A)
           (all_LC C0 F C0_nodup s A) K).
Qed.

Theorem commit_stable_step s s' j : reachable C0 F s -> step C0 F s s' -> stable s s' j.
Proof.
  intros R St. apply reachable_kreachable in R.
  destruct (step_ksteps C0 F s s' (inv0_kreachable C0 F s R) St) as [->|[K|(s1 & K1 & K2)]].
  - apply stable_refl.
  - apply stable_kreach; auto.
  - eapply stable_trans; [apply stable_kreach; eauto|].
    apply stable_kreach; auto. eapply kreach_step; eauto.
Qed.

Inductive steps : state -> state -> Prop :=
| steps_refl s : steps s s
| steps_step s s1 s2 : steps s s1 -> step C0 F s1 s2 -> steps s s2.

Lemma steps_reachable s s' : reachable C0 F s -> steps s s' -> reachable C0 F s'.
Proof. intros R St. induction St as [|s0 s1 s2 St IH S12]; auto. apply (reach_step C0 F s1 s2); auto. Qed.

Theorem committed_never_change s s' j i :
  reachable C0 F s -> steps s s' -> i < commit (nodes s j) ->
  commit (nodes s j) <= commit (nodes s' j) /\
  nth_error (log (nodes s' j)) i = nth_error (log (nodes s j)) i.
Proof.
  intros R St L.
  assert (S0 : stable s s' j).
  { induction St; [apply stable_refl|].
    eapply stable_trans; [apply IHSt; auto|]. apply commit_stable_step; auto.
    eapply steps_reachable; eauto. }
  destruct S0 as [A B]. split; auto. apply (firstn_eq_nth _ _ _ i B L).
Qed.

(* ---- the member sets ---- *)
Theorem cfg_is_global s n :
  reachable C0 F s -> cfg n (nodes s n) = n :: del n (gcfg C0 (log (nodes s n))).
Proof.
  intros R. apply (cfg_gcfg C0 F s n (AB _ _ _ (INV s R))); [apply (proj1 (proj2 HD))|exact Hreuse].
Qed.

Theorem decider_is_member s n :
  reachable C0 F s -> rl (nodes s n) <> Follower -> In n (gcfg C0 (log (nodes s n))).
Proof. intros R. apply (IG_member _ _ (AG _ _ _ (INV s R))). Qed.

(* ---- the same for kstep (the refinement target) ---- *)
Theorem k_all s : kreachable C0 F s -> AllInv C0 F s.
Proof. apply (all_kreachable C0 F HD C0_nodup C0_ne). Qed.

Theorem k_election_safety s t c c' Q Q' C C' :
  kreachable C0 F s -> In (t, c, Q, C) (wins s) -> In (t, c', Q', C') (wins s) -> c = c'.
Proof. intros R. apply (AE _ _ _ (k_all s R)). Qed.

Theorem k_leader_completeness s T p Cd T' c Q Cw :
  kreachable C0 F s -> In (T, p, Cd) (direct s) -> In (T', c, Q, Cw) (wins s) -> T < T' -> hasT (llog s T') T p.
Proof. intros R D W L. apply (all_LC C0 F C0_nodup s (k_all s R) T p Cd D T' c Q Cw W L). Qed.

Theorem k_state_machine_safety s a b i :
  kreachable C0 F s -> i < commit (nodes s a) -> i < commit (nodes s b) ->
  nth_error (log (nodes s a)) i = nth_error (log (nodes s b)) i /\ i < length (log (nodes s a)).
Proof.
  intros R La Lb. pose proof (k_all s R) as A. split.
  - apply (sms_inv s a b i (A3 _ _ _ A) (A4 _ _ _ A) (A6 _ _ _ A) (A7 _ _ _ A) (all_LC C0 F C0_nodup s A) La Lb).
  - destruct (I7_node _ (A7 _ _ _ A) a) as [X _]. lia.
Qed.

Theorem k_commit_stable s s' j : kreachable C0 F s -> kstep C0 F s s' -> stable s s' j.
Proof. apply stable_kreach. Qed.

End Thm.
