(* Abstract Raft in the shape of PySyncObj WITH single-server membership change (definitions only).

   Differences to Abstract/Model.v:
   - no fixed voter set: every node derives its member set from its own log, exactly as
     syncobj.py does: [others] = the list it was started with ([base]), changed by every
     membership entry [CAdd x] / [CRem x] of its log at the moment the entry is appended (entries
     naming the node itself are ignored, adding a present / removing an absent node is a no-op),
     reverted on truncation = recomputed from the log ([others_of]); [cfg n x = n :: others];
   - every quorum (election, commit) is a majority of the deciding node's own [cfg];
   - [ClientRequest n c] with a membership command is guarded by the leader-side gate of
     __changeCluster: (a) the no-op of this leadership is committed, (b) no membership entry of the
     log is uncommitted, (c) the change is effective and is not [CRem self];
   - nodes have a life cycle Fresh -> Up -> Dead ([Join], [Shutdown]); a joining node starts with
     the log [e0] and the member list the operator gives it;
   - AppendEntries messages carry their destination (a leader sends only to its [others]).
   Section parameters: [C0] initial members; [F] the switches (see [flags]). *)
From Coq Require Import List Arith Lia Bool PeanoNat.
Import ListNotations.

Inductive cmd := Cmd (c : nat) | CAdd (x : nat) | CRem (x : nat).
Record entry := mkE { eidx : nat; eterm : nat; ecmd : cmd }.
Definition e0 : entry := mkE 1 0 (Cmd 0).       (* the common first entry (idx 1, term 0) *)

Inductive role := Follower | Candidate | Leader.
Inductive life := Fresh | Up | Dead.

Record node := mkN {
  term : nat; voted : option nat; rl : role; log : list entry; commit : nat;
  votesFrom : list nat;                         (* candidate: voters whose vote was counted *)
  matchIdx : nat -> nat;                        (* leader: highest acknowledged index per follower *)
  lf : life;
  base : list nat;                              (* the [others] the node was started with *)
  noopi : nat }.                                (* leader: position of the no-op of this leadership *)

Inductive msg :=
| RequestVote (t c li lt : nat)
| Vote (t v c : nat)
| AppendEntries (t l d pi pt : nat) (es : list entry) (lc : nat)  (* d = destination *)
| AppendReply (t f : nat) (ok : bool) (m : nat).

Record state := mkS {
  nodes : nat -> node;
  net : list msg;
  (* ghost *)
  grants : list (nat * nat * nat);
  wins : list (nat * nat * list nat * list nat);     (* term, leader, electing quorum, its cfg *)
  llog : nat -> list entry;
  acks : list (nat * nat * nat);
  direct : list (nat * nat * list nat) }.            (* term, position, the cfg that decided *)

Definition upd {A} (f : nat -> A) (n : nat) (x : A) : nat -> A := fun m => if m =? n then x else f m.

Definition is_leader (r : role) := match r with Leader => true | _ => false end.
Definition is_cand (r : role) := match r with Candidate => true | _ => false end.
Definition is_none {A} (o : option A) := match o with None => true | _ => false end.
Definition is_up (l : life) := match l with Up => true | _ => false end.
Definition mem (v : nat) (l : list nat) := existsb (Nat.eqb v) l.
Definition lastTerm (l : list entry) := eterm (last l e0).
Definition is_cfg (c : cmd) := match c with Cmd _ => false | _ => true end.

Definition up_to_date (l : list entry) (li lt : nat) : bool :=
  negb ((lt <? lastTerm l) || ((lt =? lastTerm l) && (li <? length l))).

Fixpoint merge (old new : list entry) {struct new} : list entry :=
  match new with
  | [] => old
  | n :: new' =>
    match old with
    | [] => new
    | o :: old' => if eterm o =? eterm n then o :: merge old' new' else new
    end
  end.

(* ---- membership as a function of the log (__doChangeCluster) ---- *)
Definition del (x : nat) (o : list nat) : list nat := filter (fun y => negb (y =? x)) o.

Definition app1 (self : nat) (o : list nat) (c : cmd) : list nat :=
  match c with
  | CAdd x => if (x =? self) || mem x o then o else x :: o
  | CRem x => if x =? self then o else del x o
  | Cmd _ => o
  end.

Definition others_of (self : nat) (b : list nat) (l : list entry) : list nat :=
  fold_left (fun o e => app1 self o (ecmd e)) l b.

Definition cfg (n : nat) (x : node) : list nat := n :: others_of n (base x) (log x).

Definition majority_of (c : list nat) (k : nat) : bool := length c <? 2 * k.

(* switches of the model:
   gateA  - guard (a) of __changeCluster is enforced (own no-op committed before a change);
   baseC0 - a joining node is given the INITIAL member list (false: the CURRENT one, as the
            project's operator discipline says);
   tguard - a node starts an election only if it is a member according to its own log;
   reuse  - an id that was shut down may join again (as a new node: empty log, term 0);
   links  - the transport's member filter (Props/C14): a message from a is handled by b only
            while both run and each has the other in its member table. *)
Record flags := mkF { gateA : bool; baseC0 : bool; tguard : bool; reuse : bool; links : bool }.

Section Model.
Variable C0 : list nat.                         (* the initial members *)
Variable F : flags.

Definition init_node (n : nat) : node :=
  mkN 0 None Follower [e0] 1 [] (fun _ => 0) (if mem n C0 then Up else Fresh) (del n C0) 0.
Definition init : state :=
  mkS init_node [] [] []
      (fun T => if T =? 0 then [e0] else [])
      (map (fun v => (0, v, 1)) C0)
      [(0, 0, C0)].

(* ---- the leader-side gate (__changeCluster) ---- *)
Definition no_cfg_from (k : nat) (l : list entry) : bool :=
  forallb (fun e => negb (is_cfg (ecmd e))) (skipn k l).

Definition gate (x : node) : bool :=
  (if gateA F then noopi x <? commit x else true) && no_cfg_from (commit x) (log x).

Definition effective (n : nat) (x : node) (c : cmd) : bool :=
  match c with
  | CAdd y => negb (mem y (cfg n x))
  | CRem y => negb (y =? n) && mem y (cfg n x)
  | Cmd _ => true
  end.

Definition client_ok (n : nat) (x : node) (c : cmd) : bool :=
  if is_cfg c then gate x && effective n x c else true.

(* the leader's matchIndex table after appending c: a newly added node starts at 0 *)
Definition match_after (x : node) (c : cmd) : nat -> nat :=
  match c with CAdd y => upd (matchIdx x) y 0 | _ => matchIdx x end.

(* the member set as a global function of the log (no "self" special case); the
   switch tguard lets a node start an election only if it is a member by its own log *)
Definition gapp (o : list nat) (c : cmd) : list nat :=
  match c with
  | CAdd x => if mem x o then o else x :: o
  | CRem x => del x o
  | Cmd _ => o
  end.
Definition gcfg (l : list entry) : list nat := fold_left (fun o e => gapp o (ecmd e)) l C0.
Definition self_member (n : nat) (x : node) : bool := mem n (gcfg (log x)).

(* ---- effects ---- *)
Definition noop (x : node) : entry := mkE (S (length (log x))) (term x) (Cmd 0).

Definition do_lead (n : nat) (s : state) : state :=
  let x := nodes s n in
  let lg := log x ++ [noop x] in
  mkS (upd (nodes s) n (mkN (term x) (voted x) Leader lg (commit x) (votesFrom x) (fun _ => 0)
                            (lf x) (base x) (length (log x))))
      (net s) (grants s) ((term x, n, votesFrom x, cfg n x) :: wins s) (upd (llog s) (term x) lg)
      ((term x, n, length lg) :: acks s) (direct s).

Definition maybe_lead (n : nat) (s : state) : state :=
  let x := nodes s n in
  if majority_of (cfg n x) (length (votesFrom x)) then do_lead n s else s.

Definition do_timeout (n : nat) (s : state) : state :=
  let x := nodes s n in
  let t := S (term x) in
  maybe_lead n
    (mkS (upd (nodes s) n (mkN t (Some n) Candidate (log x) (commit x) [n] (matchIdx x) (lf x) (base x) (noopi x)))
         (RequestVote t n (length (log x)) (lastTerm (log x)) :: net s)
         ((t, n, n) :: grants s) (wins s) (llog s) (acks s) (direct s)).

Definition set_node (s : state) (n : nat) (x : node) : state :=
  mkS (upd (nodes s) n x) (net s) (grants s) (wins s) (llog s) (acks s) (direct s).

Definition bump (t : nat) (x : node) : node :=
  mkN t None Follower (log x) (commit x) (votesFrom x) (matchIdx x) (lf x) (base x) (noopi x).

Definition adopt (n t : nat) (s : state) : state :=
  if term (nodes s n) <? t then set_node s n (bump t (nodes s n)) else s.

Definition do_grant (n t c : nat) (s : state) : state :=
  let x := nodes s n in
  mkS (upd (nodes s) n (mkN (term x) (Some c) (rl x) (log x) (commit x) (votesFrom x) (matchIdx x)
                            (lf x) (base x) (noopi x)))
      (Vote t n c :: net s) ((t, n, c) :: grants s) (wins s) (llog s) (acks s) (direct s).

Definition do_rv (n t c li lt : nat) (s : state) : state :=
  let s1 := adopt n t s in
  let x := nodes s1 n in
  if negb (is_leader (rl x)) && (term x <=? t) && up_to_date (log x) li lt && is_none (voted x)
  then do_grant n t c s1 else s1.

Definition do_vote (n t v : nat) (s : state) : state :=
  let x := nodes s n in
  if is_cand (rl x) && (t =? term x) && mem v (cfg n x) then
    let vf := if mem v (votesFrom x) then votesFrom x else v :: votesFrom x in
    maybe_lead n (set_node s n (mkN (term x) (voted x) (rl x) (log x) (commit x) vf (matchIdx x)
                                    (lf x) (base x) (noopi x)))
  else s.

Definition do_client (n : nat) (c : cmd) (s : state) : state :=
  let x := nodes s n in
  let lg := log x ++ [mkE (S (length (log x))) (term x) c] in
  mkS (upd (nodes s) n (mkN (term x) (voted x) (rl x) lg (commit x) (votesFrom x) (match_after x c)
                            (lf x) (base x) (noopi x)))
      (net s) (grants s) (wins s) (upd (llog s) (term x) lg)
      ((term x, n, length lg) :: acks s) (direct s).

Definition do_send_ae (n d p k : nat) (s : state) : state :=
  let x := nodes s n in
  mkS (nodes s)
      (AppendEntries (term x) n d (S p) (eterm (nth p (log x) e0)) (firstn k (skipn (S p) (log x))) (commit x)
         :: net s)
      (grants s) (wins s) (llog s) (acks s) (direct s).

Definition ae_fail (n t : nat) (s : state) : state :=
  let x := nodes s n in
  mkS (upd (nodes s) n (mkN (term x) (voted x) Follower (log x) (commit x) (votesFrom x) (matchIdx x)
                            (lf x) (base x) (noopi x)))
      (AppendReply t n false 0 :: net s) (grants s) (wins s) (llog s) (acks s) (direct s).

Definition ae_ok (n t pi : nat) (es : list entry) (lc : nat) (s : state) : state :=
  let x := nodes s n in
  let lg := firstn pi (log x) ++ merge (skipn pi (log x)) es in
  let k := pi + length es in
  mkS (upd (nodes s) n (mkN (term x) (voted x) Follower lg (Nat.max (commit x) (Nat.min lc k))
                            (votesFrom x) (matchIdx x) (lf x) (base x) (noopi x)))
      (AppendReply t n true k :: net s) (grants s) (wins s) (llog s) ((t, n, k) :: acks s) (direct s).

Definition do_ae (n t pi pt : nat) (es : list entry) (lc : nat) (s : state) : state :=
  let s1 := adopt n t s in
  match pi with
  | 0 => ae_fail n t s1
  | S p =>
    match nth_error (log (nodes s1 n)) p with
    | Some pe => if eterm pe =? pt then ae_ok n t pi es lc s1 else ae_fail n t s1
    | None => ae_fail n t s1
    end
  end.

Definition do_ar (n t f : nat) (ok : bool) (m : nat) (s : state) : state :=
  let x := nodes s n in
  if is_leader (rl x) && (t =? term x) && ok then
    set_node s n (mkN (term x) (voted x) (rl x) (log x) (commit x) (votesFrom x)
                      (upd (matchIdx x) f (Nat.max (matchIdx x f) m)) (lf x) (base x) (noopi x))
  else s.

Definition commit_set (n p : nat) (x : node) : list nat :=
  filter (fun f => (f =? n) || (S p <=? matchIdx x f)) (cfg n x).

Definition do_commit (n p : nat) (s : state) : state :=
  let x := nodes s n in
  mkS (upd (nodes s) n (mkN (term x) (voted x) (rl x) (log x) (S p) (votesFrom x) (matchIdx x)
                            (lf x) (base x) (noopi x)))
      (net s) (grants s) (wins s) (llog s) (acks s) ((term x, p, cfg n x) :: direct s).

Definition do_stepdown (n : nat) (s : state) : state :=
  let x := nodes s n in
  set_node s n (mkN (term x) (voted x) Follower (log x) (commit x) (votesFrom x) (matchIdx x)
                    (lf x) (base x) (noopi x)).

(* the member list the operator hands to a joining node y: the current members as seen by the
   (leader) node m, without y; with baseC0: the INITIAL members without y *)
Definition join_base (y m : nat) (s : state) : list nat :=
  if baseC0 F then del y C0 else del y (cfg m (nodes s m)).

Definition do_join (y m : nat) (s : state) : state :=
  mkS (upd (nodes s) y (mkN 0 None Follower [e0] 1 [] (fun _ => 0) Up (join_base y m s) 0))
      (net s) (grants s) (wins s) (llog s) ((0, y, 1) :: acks s) (direct s).

Definition do_shutdown (n : nat) (s : state) : state :=
  let x := nodes s n in
  set_node s n (mkN (term x) (voted x) (rl x) (log x) (commit x) (votesFrom x) (matchIdx x)
                    Dead (base x) (noopi x)).

(* ---- the transition system ---- *)
Inductive action :=
| Timeout (n : nat)
| HandleRequestVote (n t c li lt : nat)
| HandleVote (n t v : nat)
| ClientRequest (n : nat) (c : cmd)                   (* c = Cmd k, or the change CAdd x / CRem x *)
| SendAppendEntries (n d p k : nat)                   (* to d; prev position p, at most k entries *)
| HandleAppendEntries (n t l pi pt : nat) (es : list entry) (lc : nat)
| HandleAppendReply (n t f : nat) (ok : bool) (m : nat)
| AdvanceCommit (n p : nat)
| StepDown (n : nat)
| Join (y m : nat)                                    (* the operator starts y with m's member list *)
| Shutdown (n : nat).

Definition alive (s : state) (n : nat) : Prop := lf (nodes s n) = Up.

Definition others (n : nat) (x : node) : list nat := others_of n (base x) (log x).
Definition linked (s : state) (a b : nat) : bool :=
  is_up (lf (nodes s a)) && is_up (lf (nodes s b)) &&
  mem a (others b (nodes s b)) && mem b (others a (nodes s a)).
Definition link_ok (s : state) (a b : nat) : Prop := links F = true -> linked s a b = true.

Definition pre (a : action) (s : state) : Prop :=
  match a with
  | Timeout n => alive s n /\ rl (nodes s n) <> Leader /\
                 (tguard F = true -> self_member n (nodes s n) = true)
  | HandleRequestVote n t c li lt => alive s n /\ In (RequestVote t c li lt) (net s) /\ link_ok s c n
  | HandleVote n t v => alive s n /\ In (Vote t v n) (net s) /\ link_ok s v n
  | ClientRequest n c => alive s n /\ rl (nodes s n) = Leader /\ client_ok n (nodes s n) c = true
  | SendAppendEntries n d p k =>
      alive s n /\ rl (nodes s n) = Leader /\ p < length (log (nodes s n)) /\
      d <> n /\ In d (cfg n (nodes s n))
  | HandleAppendEntries n t l pi pt es lc =>
      alive s n /\ In (AppendEntries t l n pi pt es lc) (net s) /\ n <> l /\ term (nodes s n) <= t /\
      link_ok s l n
  | HandleAppendReply n t f ok m => alive s n /\ In (AppendReply t f ok m) (net s) /\ link_ok s f n
  | AdvanceCommit n p =>
      let x := nodes s n in
      alive s n /\ rl x = Leader /\ commit x <= p /\ p < length (log x) /\
      eterm (nth p (log x) e0) = term x /\ majority_of (cfg n x) (length (commit_set n p x)) = true
  | StepDown n => alive s n /\ rl (nodes s n) = Leader
  | Join y m =>
      alive s m /\ rl (nodes s m) = Leader /\
      (lf (nodes s y) = Fresh \/ (reuse F = true /\ lf (nodes s y) = Dead))
  | Shutdown n => alive s n
  end.

Definition eff (a : action) (s : state) : state :=
  match a with
  | Timeout n => do_timeout n s
  | HandleRequestVote n t c li lt => do_rv n t c li lt s
  | HandleVote n t v => do_vote n t v s
  | ClientRequest n c => do_client n c s
  | SendAppendEntries n d p k => do_send_ae n d p k s
  | HandleAppendEntries n t l pi pt es lc => do_ae n t pi pt es lc s
  | HandleAppendReply n t f ok m => do_ar n t f ok m s
  | AdvanceCommit n p => do_commit n p s
  | StepDown n => do_stepdown n s
  | Join y m => do_join y m s
  | Shutdown n => do_shutdown n s
  end.

Definition step (s s' : state) : Prop := exists a, pre a s /\ s' = eff a s.

Inductive reachable : state -> Prop :=
| reach_init : reachable init
| reach_step s s' : reachable s -> step s s' -> reachable s'.

Fixpoint run (as_ : list action) (s : state) : state :=
  match as_ with [] => s | a :: r => run r (eff a s) end.
Fixpoint run_ok (as_ : list action) (s : state) : Prop :=
  match as_ with [] => True | a :: r => pre a s /\ run_ok r (eff a s) end.

End Model.

(* ---- observers used by the theorems ---- *)
Definition won (s : state) (T c : nat) : Prop := exists Q C, In (T, c, Q, C) (wins s).
Definition hasT (l : list entry) (T p : nat) : Prop := exists e, nth_error l p = Some e /\ eterm e = T.
