(* Invariant 6: Leader Completeness.
   An entry (term T, position p) that the leader of T committed by counting acknowledgements
   (ghost [direct]) is present in the leader log of every later term.

   The inductive core (Verdi's "allEntries / votesWithLog" argument, phrased with our ghosts):
   K1  a node that acknowledged (T,p) still holds it, or a leader of a term in (T, its term] lacks it;
   K2  a candidate c of T' that has the vote of such a node holds it, or a leader of a term in
       (T, T'] lacks it   (this is where the up-to-date check is used);
   K3  the same for a winner of T' and the members of its electing quorum, with (T, T');
   K4  a directly committed (T,p) was acknowledged by a majority.
   Leader Completeness is then a strong induction on T' inside one state. *)
From Coq Require Import List Arith Lia Bool PeanoNat.
Import ListNotations.
Require Import PSO.AbstractM.Model PSO.AbstractM.Lib PSO.AbstractM.Kstep PSO.AbstractM.Cfg PSO.AbstractM.Safety0_Base PSO.AbstractM.Safety1_WF
  PSO.AbstractM.Safety2_Election PSO.AbstractM.Safety3_LeaderLog PSO.AbstractM.Safety4_LogMatching
  PSO.AbstractM.Safety5_Acks.

Definition acked (s : state) (T f p : nat) : Prop := exists m, In (T, f, m) (acks s) /\ p < m.
Definition lacks (s : state) (T p T2 : nat) : Prop := (exists c, won s T2 c) /\ ~ hasT (llog s T2) T p.

Lemma hasT_dec l T p : {hasT l T p} + {~ hasT l T p}.
Proof.
  unfold hasT. destruct (nth_error l p) as [e|] eqn:E.
  - destruct (Nat.eq_dec (eterm e) T) as [Et|Et].
    + left. eauto.
    + right. intros [e' [A B]]. congruence.
  - right. intros [e' [A B]]. discriminate.
Qed.

Lemma hasT_app l r T p : hasT l T p -> hasT (l ++ r) T p.
Proof. intros [e [A B]]. exists e. split; auto. apply nth_error_app_some; auto. Qed.

Lemma hasT_app_inv l r T p : hasT (l ++ r) T p -> (forall e, In e r -> eterm e <> T) -> hasT l T p.
Proof.
  intros [e [A B]] N. destruct (Nat.lt_ge_cases p (length l)) as [L|L].
  - rewrite nth_error_app1 in A by auto. exists e. auto.
  - rewrite nth_error_app2 in A by auto. apply nth_error_In in A. apply N in A. congruence.
Qed.

Lemma hasT_app_lt l r T p : hasT (l ++ r) T p -> p < length l -> hasT l T p.
Proof. intros [e [A B]] L. rewrite nth_error_app1 in A by auto. exists e. auto. Qed.

Lemma hasT_firstn_eq l1 l2 k T p : firstn k l1 = firstn k l2 -> p < k -> hasT l2 T p -> hasT l1 T p.
Proof. intros E L [e [A B]]. exists e. split; auto. rewrite (firstn_eq_nth _ _ k p E L). auto. Qed.

Lemma hasT_lt l T p : hasT l T p -> p < length l.
Proof. intros [e [A B]]. apply nth_error_Some. congruence. Qed.

(* a log that holds (T,p) agrees with llog T up to p *)
Lemma hasT_canon ll l T p : canon_ok ll l -> hasT l T p -> firstn (S p) l = firstn (S p) (ll T).
Proof. intros C [e [A B]]. rewrite <- B. apply C. auto. Qed.

Section S6.
Variable C0 : list nat.
Variable F : flags.
Hypothesis Hreuse : reuse F = false.
Hypothesis C0_ne : C0 <> [].
Hypothesis C0_nodup : NoDup C0.

Ltac norejoin := try (match goal with Hy : reuse F = true /\ _ |- _ => destruct Hy; congruence end).

Record Inv6 (s : state) : Prop := {
  I6_won_ne : forall T c Q C, In (T, c, Q, C) (wins s) -> llog s T <> [];
  I6_ack : forall T f p, acked s T f p -> hasT (llog s T) T p ->
     hasT (log (nodes s f)) T p \/ exists T2, T < T2 <= term (nodes s f) /\ lacks s T p T2;
  I6_cand : forall T' q c T p, In (T', q, c) (grants s) -> acked s T q p -> hasT (llog s T) T p -> T < T' ->
     rl (nodes s c) = Candidate -> term (nodes s c) = T' ->
     hasT (log (nodes s c)) T p \/ exists T2, T < T2 <= T' /\ lacks s T p T2;
  I6_win : forall T' c Q C q T p, In (T', c, Q, C) (wins s) -> In q Q -> acked s T q p -> hasT (llog s T) T p -> T < T' ->
     hasT (llog s T') T p \/ exists T2, T < T2 < T' /\ lacks s T p T2;
  I6_direct : forall T p C, In (T, p, C) (direct s) ->
     hasT (llog s T) T p /\
     exists Q, NoDup Q /\ incl Q C /\ length C < 2 * length Q /\ forall f, In f Q -> acked s T f p
}.

Lemma inv6_init : Inv6 (init C0).
Proof.
  constructor; simpl; try (intros; contradiction).
  - intros T f p [m [H L]] _. apply in_map_iff in H as [v [E Hv]]. injection E as <- <- <-.
    left. assert (p = 0) by lia. subst p. exists e0. auto.
  - intros T p C [H|[]]. injection H as <- <- <-. split; [exists e0; auto|].
    exists C0. repeat split; auto using incl_refl.
    + destruct C0; [congruence|simpl; lia].
    + intros f Hf. exists 1. split; auto. apply in_map_iff. eauto.
Qed.

(* ---- how the observers move in one kstep ---- *)
Section Mono.
Variables s s' : state.
Hypothesis I1 : Inv1 s.
Hypothesis I2 : Inv2 s.
Hypothesis I3 : Inv3 s.
Hypothesis I6 : Inv6 s.
Hypothesis LFs : LF s.
Hypothesis K : kstep C0 F s s'.

Lemma acked_mono T f p : acked s T f p -> acked s' T f p.
Proof. intros [m [A B]]. exists m. split; auto. eapply kstep_acks; eauto. Qed.

Lemma hasT_llog_mono T T0 p : hasT (llog s T0) T p -> hasT (llog s' T0) T p.
Proof. intros H. destruct (kstep_llog C0 F s s' T0 I1 I2 I3 LFs K) as [r [-> _]]. apply hasT_app; auto. Qed.

Lemma lacks_mono T p T2 : T < T2 -> lacks s T p T2 -> lacks s' T p T2.
Proof.
  intros L [(c & Q & Cq & W) N]. split.
  - exists c, Q, Cq. eapply kstep_wins; eauto.
  - intros H. apply N. destruct (kstep_llog C0 F s s' T2 I1 I2 I3 LFs K) as [r [E R]]. rewrite E in H.
    apply (hasT_app_inv _ r); auto. intros e He. rewrite (R (I6_won_ne _ I6 _ _ _ _ W) e He). lia.
Qed.

Lemma ex_lacks_le T p hi hi' :
  hi <= hi' -> (exists T2, T < T2 <= hi /\ lacks s T p T2) -> exists T2, T < T2 <= hi' /\ lacks s' T p T2.
Proof. intros L [T2 [A C]]. exists T2. split; [lia|]. apply lacks_mono; auto. lia. Qed.

Lemma ex_lacks_lt T p hi :
  (exists T2, T < T2 < hi /\ lacks s T p T2) -> exists T2, T < T2 < hi /\ lacks s' T p T2.
Proof. intros [T2 [A C]]. exists T2. split; [lia|]. apply lacks_mono; auto. lia. Qed.

End Mono.

(* the up-to-date check: a voter that holds (T,p) only votes for a candidate that holds it too,
   unless the candidate's last entry is from a leader (of a term between T and T') that lacks it *)
Lemma vote_transfers s q c T p T' :
  Inv1 s -> Inv3 s -> Inv4 s ->
  hasT (log (nodes s q)) T p -> hasT (llog s T) T p ->
  up_to_date (log (nodes s q)) (length (log (nodes s c))) (lastTerm (log (nodes s c))) = true ->
  (forall e, In e (log (nodes s c)) -> eterm e < T') -> T < T' ->
  hasT (log (nodes s c)) T p \/ exists T2, T < T2 < T' /\ lacks s T p T2.
Proof.
  intros I1 I3 I4 Hq HT Hu Hc LT.
  set (lq := log (nodes s q)) in *. set (lc := log (nodes s c)) in *.
  pose proof (nth_error_last lq e0 (I1_ne _ I1 q)) as Lq.
  pose proof (nth_error_last lc e0 (I1_ne _ I1 c)) as Lc.
  set (el := last lc e0) in *.
  assert (Elt : lastTerm lc = eterm el) by reflexivity.
  assert (Nc : 0 < length lc).
  { destruct lc eqn:E; [|simpl; lia]. exfalso. apply (I1_ne _ I1 c). exact E. }
  pose proof (hasT_lt _ _ _ Hq) as Pq.
  assert (Tq : T <= lastTerm lq).
  { destruct Hq as [e [A B]]. rewrite <- B. unfold lastTerm.
    apply (inv4_log_sorted s q I4 p (length lq - 1)); auto. fold lq. lia. }
  unfold up_to_date in Hu. apply negb_true_iff in Hu. apply orb_false_iff in Hu as [U1 U2].
  apply Nat.ltb_ge in U1.
  assert (Lt' : eterm el < T') by (apply Hc; eapply nth_error_In; eauto).
  pose proof (I4_canon _ I4 c (length lc - 1) el Lc) as Cc. fold lc in Cc.
  replace (S (length lc - 1)) with (length lc) in Cc by lia.
  destruct (Nat.eq_dec (eterm el) T) as [E|NE].
  - (* the candidate's last term is T *)
    left. rewrite Elt in *. assert (E2 : lastTerm lq = T) by lia.
    rewrite E, E2, Nat.eqb_refl in U2. simpl in U2. apply Nat.ltb_ge in U2.
    rewrite E in Cc. apply (hasT_firstn_eq _ _ (length lc) T p Cc); auto. lia.
  - (* the candidate's last term is larger: it comes from a leader of that term *)
    rewrite Elt in *.
    assert (W : exists w, won s (eterm el) w).
    { pose proof (I3_in _ I3 c _ _ Lc) as X.
      destruct (I3_won _ I3 (eterm el)) as [Z|W]; auto; [|lia].
      intros Z. apply nth_error_In in X. rewrite Z in X. exact X. }
    destruct (hasT_dec (llog s (eterm el)) T p) as [Y|N].
    + left. apply (hasT_firstn_eq _ _ (length lc) T p Cc); auto.
      destruct Y as [e [A B]].
      pose proof (I3_in _ I3 c _ _ Lc) as X. fold lc in X.
      destruct (Nat.lt_ge_cases p (length lc - 1)) as [G|G]; [lia|].
      pose proof (I4_sorted _ I4 (eterm el) (length lc - 1) p el e G X A). lia.
    + right. exists (eterm el). split; [lia|]. split; auto.
Qed.

(* ---- K1 ---- *)
Lemma inv6_ack_kstep s s' :
  Inv1 s -> Inv2 s -> Inv3 s -> Inv4 s -> Inv5 s -> Inv6 s -> LF s -> kstep C0 F s s' ->
  forall T f p, acked s' T f p -> hasT (llog s' T) T p ->
     hasT (log (nodes s' f)) T p \/ exists T2, T < T2 <= term (nodes s' f) /\ lacks s' T p T2.
Proof.
  intros I1 I2 I3 I4 I5 I6 LFs K T f p HA HL.
  assert (Old : acked s T f p -> hasT (llog s T) T p ->
      (hasT (log (nodes s f)) T p -> hasT (log (nodes s' f)) T p) ->
      hasT (log (nodes s' f)) T p \/ exists T2, T < T2 <= term (nodes s' f) /\ lacks s' T p T2).
  { intros A B C. destruct (I6_ack _ I6 T f p A B) as [X|X]; [left; auto|right].
    apply (ex_lacks_le s s' I1 I2 I3 I6 LFs K T p (term (nodes s f)) (term (nodes s' f))); auto.
    eapply kstep_term_mono; eauto. }
  destruct K; subst x.
  - apply Old; auto. sproj. nc f; auto.
  - (* lead *)
    pose proof (llog_fresh s n I1 I2 I3 LFs Hr Hmaj) as Fr.
    destruct HA as [m [HA Lm]]. simpl in HA. destruct HA as [HA|HA].
    + injection HA as <- <- <-. left. sproj. rewrite (Hf n), Nat.eqb_refl. sproj.
      rewrite (Hl (term (nodes s n))), Nat.eqb_refl in HL. exact HL.
    + destruct (I5_ack _ I5 _ _ _ HA) as (A & B & D).
      assert (NT : T <> term (nodes s n)). { intros ->. rewrite Fr in B. simpl in B. lia. }
      sproj. rewrite (Hl T) in HL. destruct (Nat.eqb_spec T (term (nodes s n))); [congruence|].
      apply Old; [exists m; auto|auto|].
      nc f; auto. apply hasT_app.
  - apply Old; auto. sproj. nc f; auto.
  - apply Old; auto. sproj. nc f; auto.
  - apply Old; auto. sproj. nc f; auto.
  - (* client *)
    destruct HA as [m [HA Lm]]. simpl in HA. destruct HA as [HA|HA].
    + injection HA as <- <- <-. left. sproj. rewrite (Hf n), Nat.eqb_refl. sproj.
      rewrite (Hl (term (nodes s n))), Nat.eqb_refl in HL. exact HL.
    + destruct (I5_ack _ I5 _ _ _ HA) as (A & B & D).
      assert (HL0 : hasT (llog s T) T p).
      { sproj. rewrite (Hl T) in HL. destruct (Nat.eqb_spec T (term (nodes s n))) as [->|N]; auto.
        destruct (I2_leader _ I2 n Hr) as (Q & Cq & W).
        rewrite (I3_wlog _ I3 _ _ _ _ W eq_refl) in HL. apply (hasT_app_lt _ _ _ _ HL). lia. }
      apply Old; [exists m; auto|auto|].
      sproj. nc f; auto. apply hasT_app.
  - apply Old; auto.
  - apply Old; auto. sproj. nc f; auto.
  - (* ae_ok *)
    subst t.
    destruct (ae_ok_facts s n _ l n p0 pt es lc pe I3 I4 Hm Hp Hpt) as (F1 & F2 & F3 & F4).
    destruct (ae_result_prefix _ _ p0 es F1 F2 F3 F4) as [G1 G2].
    destruct HA as [m [HA Lm]]. simpl in HA. destruct HA as [HA|HA].
    + injection HA as <- <- <-. left. sproj. rewrite (Hf n), Nat.eqb_refl. sproj.
      apply (hasT_firstn_eq _ _ _ _ _ G2 Lm HL).
    + sproj. nc f.
      * destruct (I5_ack _ I5 _ _ _ HA) as (A & B & D).
        destruct (I6_ack _ I6 T n p (ex_intro _ m (conj HA Lm)) HL) as [X|X].
        -- destruct (Nat.eq_dec T (term (nodes s n))) as [E|NE].
           ++ left. subst T. destruct (D eq_refl) as [D1 D2].
              destruct (ae_result_keeps _ _ p0 es m F1 F2 F3 F4 D1 D2) as [R1 R2].
              apply (hasT_firstn_eq _ _ m _ _ R2 Lm HL).
           ++ destruct (hasT_dec (llog s (term (nodes s n))) T p) as [Y|N].
              ** left.
                 assert (E1 : firstn (S p) (log (nodes s n)) = firstn (S p) (llog s (term (nodes s n)))).
                 { rewrite (hasT_canon _ _ _ _ (I4_canon _ I4 n) X),
                           (hasT_canon _ _ _ _ (I4_lcanon _ I4 _) Y). reflexivity. }
                 destruct (ae_result_keeps _ _ p0 es (S p) F1 F2 F3 F4 (hasT_lt _ _ _ X) E1) as [R1 R2].
                 apply (hasT_firstn_eq _ _ (S p) _ _ R2 (Nat.lt_succ_diag_r p) Y).
              ** right. exists (term (nodes s n)). split; [lia|]. split; auto.
                 destruct (I3_ae _ I3 _ _ _ _ _ _ _ Hm) as [W _]. exists l. exact W.
        -- right. exact X.
      * destruct (I6_ack _ I6 T f p (ex_intro _ m (conj HA Lm)) HL) as [X|X]; [left; auto|right; exact X].
  - apply Old; auto. sproj. nc f; auto.
  - apply Old; auto. sproj. nc f; auto.
  - apply Old; auto. sproj. nc f; auto.
  - (* join *)
    destruct HA as [m0 [HA Lm]]. simpl in HA. destruct HA as [HA|HA].
    + injection HA as <- <- <-. left. sproj. rewrite (Hf y), Nat.eqb_refl. sproj.
      rewrite Hp. simpl. assert (p = 0) by lia. subst p. exists e0. auto.
    + apply Old; [exists m0; auto|auto|]. sproj. nc f; auto.
  - norejoin.
  - apply Old; auto. sproj. nc f; auto.
Qed.

(* ---- K2 ---- *)
Lemma inv6_cand_kstep s s' :
  Inv1 s -> Inv2 s -> Inv3 s -> Inv4 s -> Inv5 s -> Inv6 s -> LF s -> kstep C0 F s s' ->
  forall T' q ca T pa, In (T', q, ca) (grants s') -> acked s' T q pa -> hasT (llog s' T) T pa -> T < T' ->
     rl (nodes s' ca) = Candidate -> term (nodes s' ca) = T' ->
     hasT (log (nodes s' ca)) T pa \/ exists T2, T < T2 <= T' /\ lacks s' T pa T2.
Proof.
  intros I1 I2 I3 I4 I5 I6 LFs K T' q ca T pa HG HA HL LT HR HT.
  assert (Old : In (T', q, ca) (grants s) -> acked s T q pa -> hasT (llog s T) T pa ->
      rl (nodes s ca) = Candidate -> term (nodes s ca) = T' ->
      (hasT (log (nodes s ca)) T pa -> hasT (log (nodes s' ca)) T pa) ->
      hasT (log (nodes s' ca)) T pa \/ exists T2, T < T2 <= T' /\ lacks s' T pa T2).
  { intros G A B R E C. destruct (I6_cand _ I6 T' q ca T pa G A B LT R E) as [X|X]; [left; auto|right].
    apply (ex_lacks_le s s' I1 I2 I3 I6 LFs K T pa T' T'); auto. }
  destruct K; subst x.
  - (* timeout *)
    simpl in HG. destruct HG as [HG|HG].
    + injection HG as <- <- <-. sproj. rewrite (Hf n), Nat.eqb_refl. sproj.
      destruct (I6_ack _ I6 T n pa HA HL) as [X|[T2 [X1 X2]]]; [left; auto|right].
      exists T2. split; [lia|exact X2].
    + sproj. revert HR HT. nc ca; intros HR HT.
      * apply (I2_grant _ I2) in HG. lia.
      * apply Old; auto.
  - (* lead *)
    pose proof (llog_fresh s n I1 I2 I3 LFs Hr Hmaj) as Fr.
    sproj. revert HR HT. nc ca; intros HR HT; [discriminate|].
    destruct HA as [m [HA Lm]]. simpl in HA. destruct HA as [HA|HA].
    + injection HA as <- <- <-. apply (I2_grant _ I2) in HG. lia.
    + destruct (I5_ack _ I5 _ _ _ HA) as (A & B & D).
      assert (NT : T <> term (nodes s n)). { intros ->. rewrite Fr in B. simpl in B. lia. }
      rewrite (Hl T) in HL. destruct (Nat.eqb_spec T (term (nodes s n))); [congruence|].
      assert (A' : acked s T q pa) by (exists m; auto).
      destruct (I6_cand _ I6 T' q ca T pa HG A' HL LT HR HT) as [X|X]; [left; auto|right].
      apply (ex_lacks_le s _ I1 I2 I3 I6 LFs (K_lead C0 F s n _ nds' lg' Hn eq_refl Hr Hmaj Hf Hl) T pa T' T'); auto.
  - (* adopt *)
    sproj. revert HR HT. nc ca; intros HR HT; [discriminate|]. apply Old; auto.
  - (* grant *)
    subst t. simpl in HG. destruct HG as [HG|HG].
    + injection HG as <- <- <-.
      assert (R0 : rl (nodes s c) = Candidate /\ term (nodes s c) = term (nodes s n)).
      { sproj. revert HR HT. nc c; intros HR HT; auto. }
      clear HR HT. destruct R0 as (R1 & R2).
      assert (Same : forall j, log (nds' j) = log (nodes s j)).
      { intros j. rewrite (Hf j). destruct (j =? n) eqn:E; auto. apply Nat.eqb_eq in E. subst j. reflexivity. }
      sproj. rewrite Same.
      destruct (I2_rv _ I2 _ _ _ _ Hm) as [_ RV]. destruct (RV (eq_sym R2) R1) as [-> ->].
      destruct (I6_ack _ I6 T n pa HA HL) as [X|[T2 [X1 X2]]].
      * destruct (vote_transfers s n c T pa (term (nodes s n)) I1 I3 I4 X HL Hu) as [Y|[T2 [Y1 Y2]]]; auto.
        -- intros e He. rewrite <- R2. apply (I2_candlog _ I2); auto.
        -- right. exists T2. split; [lia|exact Y2].
      * right. exists T2. split; [lia|exact X2].
    + apply Old; auto; sproj; revert HR HT; nc ca; intros HR HT; auto.
  - (* count *)
    apply Old; auto; sproj; revert HR HT; nc ca; intros HR HT; auto.
  - (* client *)
    sproj. revert HR HT. nc ca; intros HR HT; [congruence|].
    destruct HA as [m [HA Lm]]. simpl in HA. destruct HA as [HA|HA].
    + injection HA as <- <- <-. apply (I2_grant _ I2) in HG. lia.
    + destruct (I5_ack _ I5 _ _ _ HA) as (A & B & D).
      assert (HL0 : hasT (llog s T) T pa).
      { rewrite (Hl T) in HL. destruct (Nat.eqb_spec T (term (nodes s n))) as [->|N]; auto.
        destruct (I2_leader _ I2 n Hr) as (Q & Cq & W).
        rewrite (I3_wlog _ I3 _ _ _ _ W eq_refl) in HL. apply (hasT_app_lt _ _ _ _ HL). lia. }
      assert (A' : acked s T q pa) by (exists m; auto).
      destruct (I6_cand _ I6 T' q ca T pa HG A' HL0 LT HR HT) as [X|X]; [left; auto|right].
      apply (ex_lacks_le s _ I1 I2 I3 I6 LFs (K_client C0 F s n _ c nds' lg' Hn eq_refl Hr Hg Hf Hl) T pa T' T'); auto.
  - (* sendae *)
    apply Old; auto.
  - (* ae_fail *)
    sproj. revert HR HT. nc ca; intros HR HT; [discriminate|]. apply Old; auto.
  - (* ae_ok *)
    sproj. revert HR HT. nc ca; intros HR HT; [discriminate|].
    destruct HA as [m [HA Lm]]. simpl in HA. destruct HA as [HA|HA].
    + injection HA as <- <- <-. apply (I2_grant _ I2) in HG. lia.
    + assert (A' : acked s T q pa) by (exists m; auto).
      destruct (I6_cand _ I6 T' q ca T pa HG A' HL LT HR HT) as [X|X]; [left; auto|right; exact X].
  - apply Old; auto; sproj; revert HR HT; nc ca; intros HR HT; auto; try discriminate; try congruence.
  - apply Old; auto; sproj; revert HR HT; nc ca; intros HR HT; auto; try discriminate; try congruence.
  - apply Old; auto; sproj; revert HR HT; nc ca; intros HR HT; auto; try discriminate; try congruence.
  - (* join *)
    sproj. assert (ca <> y). { intros ->. rewrite (Hf y), Nat.eqb_refl in HR. sproj. rewrite Hp in HR. discriminate. }
    revert HR HT. nc ca; intros HR HT; [congruence|].
    destruct HA as [m0 [HA Lm]]. simpl in HA. destruct HA as [HA|HA].
    + injection HA as <- <- <-. apply (I2_grant _ I2) in HG. rewrite Hp in HG. simpl in HG. lia.
    + apply Old; auto. exists m0; auto.
  - norejoin.
  - apply Old; auto; sproj; revert HR HT; nc ca; intros HR HT; auto; try discriminate; try congruence.
Qed.

(* ---- K3 ---- *)
Lemma inv6_win_kstep s s' :
  Inv1 s -> Inv2 s -> Inv3 s -> Inv4 s -> Inv5 s -> Inv6 s -> LF s -> kstep C0 F s s' ->
  forall T' ca Q Cw qa T pa, In (T', ca, Q, Cw) (wins s') -> In qa Q -> acked s' T qa pa -> hasT (llog s' T) T pa ->
     T < T' -> hasT (llog s' T') T pa \/ exists T2, T < T2 < T' /\ lacks s' T pa T2.
Proof.
  intros I1 I2 I3 I4 I5 I6 LFs K T' ca Q Cw qa T pa HW HQ HA HL LT.
  pose proof (lacks_mono s s' I1 I2 I3 I6 LFs K) as LM.
  pose proof (hasT_llog_mono s s' I1 I2 I3 LFs K) as HM.
  assert (Old : In (T', ca, Q, Cw) (wins s) -> acked s T qa pa -> hasT (llog s T) T pa ->
      hasT (llog s' T') T pa \/ exists T2, T < T2 < T' /\ lacks s' T pa T2).
  { intros W A B. destruct (I6_win _ I6 T' ca Q Cw qa T pa W HQ A B LT) as [X|X]; [left; auto|right].
    apply (ex_lacks_lt s s' I1 I2 I3 I6 LFs K); auto. }
  assert (NoSelf : In (T', ca, Q, Cw) (wins s) -> ~ (T = term (nodes s qa))).
  { intros W E. destruct (I2_win _ I2 _ _ _ _ W) as (_ & _ & _ & G & _).
    apply G in HQ. apply (I2_grant _ I2) in HQ. lia. }
  destruct K; subst x; try (apply Old; auto; fail).
  - (* lead *)
    pose proof (llog_fresh s n I1 I2 I3 LFs Hr Hmaj) as Fr.
    assert (OldAck : forall m, In (T, qa, m) (acks s) -> pa < m -> T <> term (nodes s n) /\ hasT (llog s T) T pa).
    { intros m HA' Lm. destruct (I5_ack _ I5 _ _ _ HA') as (A & B & D).
      assert (NT : T <> term (nodes s n)). { intros ->. rewrite Fr in B. simpl in B. lia. }
      split; auto. sproj. rewrite (Hl T) in HL. destruct (Nat.eqb_spec T (term (nodes s n))); [congruence|auto]. }
    simpl in HW. destruct HW as [HW|HW].
    + injection HW as <- <- <- <-.
      destruct HA as [m [HA Lm]]. simpl in HA. destruct HA as [HA|HA].
      * injection HA as <- <- <-. lia.
      * destruct (OldAck m HA Lm) as [NT HL0].
        destruct (I2_cand _ I2 n Hr) as (_ & _ & G). specialize (G qa HQ).
        assert (A' : acked s T qa pa) by (exists m; auto).
        destruct (I6_cand _ I6 _ qa n T pa G A' HL0 LT Hr eq_refl) as [X|[T2 [X1 X2]]].
        -- left. sproj. rewrite (Hl (term (nodes s n))), Nat.eqb_refl. apply hasT_app. auto.
        -- right. exists T2. split; [|apply LM; auto; lia].
           destruct (Nat.eq_dec T2 (term (nodes s n))) as [->|NE]; [|lia].
           exfalso. destruct X2 as [(w & Qw & Cq & W) _]. eapply LFs; eauto.
    + destruct HA as [m [HA Lm]]. simpl in HA. destruct HA as [HA|HA].
      * injection HA as <- <- <-. exfalso. apply (NoSelf HW). reflexivity.
      * destruct (OldAck m HA Lm) as [NT HL0]. apply Old; auto. exists m; auto.
  - (* client *)
    destruct HA as [m [HA Lm]]. simpl in HA. destruct HA as [HA|HA].
    + injection HA as <- <- <-. exfalso. apply (NoSelf HW). reflexivity.
    + destruct (I5_ack _ I5 _ _ _ HA) as (A & B & D).
      assert (HL0 : hasT (llog s T) T pa).
      { sproj. rewrite (Hl T) in HL. destruct (Nat.eqb_spec T (term (nodes s n))) as [->|N]; auto.
        destruct (I2_leader _ I2 n Hr) as (Q' & Cq' & W).
        rewrite (I3_wlog _ I3 _ _ _ _ W eq_refl) in HL. apply (hasT_app_lt _ _ _ _ HL). lia. }
      apply Old; auto. exists m; auto.
  - (* ae_ok *)
    destruct HA as [m [HA Lm]]. simpl in HA. destruct HA as [HA|HA].
    + injection HA as <- <- <-. exfalso. apply (NoSelf HW). auto.
    + apply Old; auto. exists m; auto.
  - (* join *)
    destruct HA as [m0 [HA Lm]]. simpl in HA. destruct HA as [HA|HA].
    + injection HA as <- <- <-. exfalso. apply (NoSelf HW). rewrite Hp. reflexivity.
    + apply Old; auto. exists m0; auto.
  - norejoin.
Qed.

(* ---- K0 and K4 ---- *)
Lemma inv6_kstep s s' :
  InvB C0 F s -> Inv1 s -> Inv2 s -> Inv3 s -> Inv4 s -> Inv5 s -> Inv6 s -> LF s -> kstep C0 F s s' -> Inv6 s'.
Proof.
  intros IB I1 I2 I3 I4 I5 I6 LFs K. constructor.
  - (* winners have a leader log *)
    intros T c Q Cw H.
    assert (Old : In (T, c, Q, Cw) (wins s) -> llog s' T <> []).
    { intros W. destruct (kstep_llog C0 F s s' T I1 I2 I3 LFs K) as [r [-> _]].
      pose proof (I6_won_ne _ I6 _ _ _ _ W) as N. destruct (llog s T); [congruence|discriminate]. }
    destruct K; subst x; auto.
    simpl in H. destruct H as [H|H]; auto. injection H as <- <- <- <-.
    sproj. rewrite (Hl (term (nodes s n))), Nat.eqb_refl. intros E. apply app_eq_nil in E as [_ E]. discriminate.
  - apply (inv6_ack_kstep s s'); auto.
  - apply (inv6_cand_kstep s s'); auto.
  - apply (inv6_win_kstep s s'); auto.
  - (* directly committed entries *)
    intros T p Cd H.
    assert (Old : In (T, p, Cd) (direct s) ->
       hasT (llog s' T) T p /\
       exists Q, NoDup Q /\ incl Q Cd /\ length Cd < 2 * length Q /\ forall f, In f Q -> acked s' T f p).
    { intros D. destruct (I6_direct _ I6 T p Cd D) as [A [Q (B1 & B2 & B3 & B4)]].
      split; [eapply hasT_llog_mono; eauto|]. exists Q. repeat split; auto.
      intros f Hf. eapply acked_mono; eauto. }
    destruct K; subst x; auto.
    simpl in H. destruct H as [H|H]; auto. injection H as <- <- <-. sproj.
    destruct (I2_leader _ I2 n Hr) as (Qw & Cw & W).
    pose proof (I3_wlog _ I3 _ _ _ _ W eq_refl) as E.
    split.
    + rewrite <- E. exists (nth p0 (log (nodes s n)) e0). split; auto. apply nth_nth_error; auto.
    + exists (commit_set n p0 (nodes s n)). unfold commit_set.
      split; [apply NoDup_filter; apply (invB_cfg C0 F); auto|]. split; [apply incl_filter|].
      split; [unfold majority_of, commit_set in Hmaj; apply Nat.ltb_lt in Hmaj; exact Hmaj|].
      intros f Hq. apply filter_In in Hq as [Hf1 Hf2]. apply orb_true_iff in Hf2 as [Hf2|Hf2].
      * apply Nat.eqb_eq in Hf2. subst f. exists (length (log (nodes s n))). split; auto.
        apply (I5_self _ I5); auto.
      * apply Nat.leb_le in Hf2. destruct (I5_match _ I5 n f Hr) as [Z|A]; [lia|].
        exists (matchIdx (nodes s n) f). split; auto.
Qed.

End S6.
