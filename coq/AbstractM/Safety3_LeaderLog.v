(* Invariant 3: the ghost leader log.
   - [llog T] is the log of T's leader; it only grows (Leader Append-Only), by entries of term T;
   - every entry of term T held anywhere - in a log or in an AppendEntries message - sits in
     [llog T] at the same position ("every entry of term T was created by T's leader");
   - every AppendEntries message of term T is a window of [llog T]. *)
From Coq Require Import List Arith Lia Bool PeanoNat.
Import ListNotations.
Require Import PSO.AbstractM.Model PSO.AbstractM.Lib PSO.AbstractM.Kstep PSO.AbstractM.Cfg PSO.AbstractM.Safety1_WF
  PSO.AbstractM.Safety2_Election.

(* the entries [es] are what [L] holds from position [pi] on *)
Definition window (L : list entry) (pi : nat) (es : list entry) : Prop :=
  forall k e, nth_error es k = Some e -> nth_error L (pi + k) = Some e.

(* every entry of [l] sits at the same position in the leader log of its term *)
Definition in_llog (ll : nat -> list entry) (l : list entry) : Prop :=
  forall p e, nth_error l p = Some e -> nth_error (ll (eterm e)) p = Some e.

Section S3.
Variable C0 : list nat.
Variable F : flags.
Hypothesis Hreuse : reuse F = false.

Ltac norejoin := try (match goal with Hy : reuse F = true /\ _ |- _ => destruct Hy; congruence end).

Record Inv3 (s : state) : Prop := {
  I3_wlog : forall T c Q C, In (T, c, Q, C) (wins s) -> term (nodes s c) = T -> log (nodes s c) = llog s T;
  I3_won : forall T, llog s T <> [] -> T = 0 \/ exists c, won s T c;
  I3_llog_ok : forall T, log_ok (llog s T) T;
  I3_in : forall j, in_llog (llog s) (log (nodes s j));
  I3_llog_in : forall T, in_llog (llog s) (llog s T);
  I3_ae : forall T l d pi pt es lc, In (AppendEntries T l d pi pt es lc) (net s) ->
     won s T l /\ window (llog s T) pi es /\
     exists p pe, pi = S p /\ nth_error (llog s T) p = Some pe /\ eterm pe = pt;
  I3_l0 : llog s 0 = [e0];
  I3_wpos : forall T c Q C, In (T, c, Q, C) (wins s) -> 0 < T
}.

Lemma inv3_init : Inv3 (init C0).
Proof.
  constructor; simpl; try (intros; contradiction).
  - intros T H. destruct (Nat.eqb_spec T 0); auto. congruence.
  - intros T p e H. destruct (Nat.eqb_spec T 0).
    + destruct p as [|[|p]]; simpl in H; try discriminate. injection H as <-. simpl. lia.
    + destruct p; discriminate.
  - intros _ p e H. destruct p as [|[|p]]; simpl in H; try discriminate. injection H as <-. simpl. auto.
  - intros T p e H. destruct (Nat.eqb_spec T 0).
    + destruct p as [|[|p]]; simpl in H; try discriminate. injection H as <-. simpl. auto.
    + destruct p; discriminate.
  - reflexivity.
Qed.

Lemma cand_term_pos s c : Inv1 s -> Inv2 s -> rl (nodes s c) = Candidate -> 0 < term (nodes s c).
Proof.
  intros I1 I2 Hc. pose proof (I1_ne _ I1 c) as N.
  destruct (log (nodes s c)) as [|e l] eqn:E; [congruence|].
  assert (eterm e < term (nodes s c)); [|lia]. apply (I2_candlog _ I2); auto. rewrite E. left; auto.
Qed.

(* the leader log of a term nobody has won yet is empty *)
Lemma llog_fresh s n :
  Inv1 s -> Inv2 s -> Inv3 s -> LF s -> rl (nodes s n) = Candidate ->
  majority_of (cfg n (nodes s n)) (length (votesFrom (nodes s n))) = true -> llog s (term (nodes s n)) = [].
Proof.
  intros I1 I2 I3 LFs Hr Hm. destruct (llog s (term (nodes s n))) as [|e l] eqn:E; auto. exfalso.
  destruct (I3_won _ I3 (term (nodes s n))) as [Z|(c & Q & Cq & W)]; [congruence| |].
  - pose proof (cand_term_pos s n I1 I2 Hr). lia.
  - eapply LFs; eauto.
Qed.

Lemma window_app L r pi es : window L pi es -> window (L ++ r) pi es.
Proof.
  intros W k e H. apply W in H. rewrite nth_error_app1; auto. apply nth_error_Some. congruence.
Qed.

Lemma nth_error_app_some {A} (l r : list A) p e : nth_error l p = Some e -> nth_error (l ++ r) p = Some e.
Proof. intros H. rewrite nth_error_app1; auto. apply nth_error_Some. congruence. Qed.

(* how llog changes in one kstep: only by appending, and (once non-empty) only entries of that term *)
Lemma kstep_llog s s' T :
  Inv1 s -> Inv2 s -> Inv3 s -> LF s -> kstep C0 F s s' ->
  exists r, llog s' T = llog s T ++ r /\ (llog s T <> [] -> forall e, In e r -> eterm e = T).
Proof.
  intros I1 I2 I3 LFs K.
  destruct K; subst x; simpl; try (exists []; rewrite app_nil_r; split; [auto|intros _ e []]; fail).
  - (* lead *)
    rewrite (Hl T). destruct (Nat.eqb_spec T (term (nodes s n))) as [->|N].
    + rewrite (llog_fresh s n); auto. exists (log (nodes s n) ++ [noop (nodes s n)]). split; auto.
      congruence.
    + exists []. rewrite app_nil_r. split; auto. intros _ e [].
  - (* client *)
    rewrite (Hl T). destruct (Nat.eqb_spec T (term (nodes s n))) as [->|N].
    + destruct (I2_leader _ I2 n Hr) as (Q & Cq & W). rewrite <- (I3_wlog _ I3 _ _ _ _ W eq_refl).
      eexists. split; [reflexivity|]. intros _ e [<-|[]]. reflexivity.
    + exists []. rewrite app_nil_r. split; auto. intros _ e [].
Qed.

Lemma inv3_wlog s s' :
  Inv1 s -> Inv2 s -> Inv3 s -> ES s -> LF s -> kstep C0 F s s' ->
  forall T c Q C, In (T, c, Q, C) (wins s') -> term (nodes s' c) = T -> log (nodes s' c) = llog s' T.
Proof.
  intros I1 I2 I3 ESs LFs K T c Q Cw H E.
  pose proof (I3_wlog _ I3) as IW.
  destruct K; subst x; sproj.
  - (* timeout *)
    nc c; eauto. apply (I2_win _ I2) in H. lia.
  - (* lead *)
    destruct H as [H|H].
    + injection H as <- <- <- <-. rewrite (Hf n), (Hl (term (nodes s n))), !Nat.eqb_refl. reflexivity.
    + assert (T <> term (nodes s n)).
      { intros ->. eapply LFs; eauto. }
      rewrite (Hl T). destruct (Nat.eqb_spec T (term (nodes s n))); [congruence|].
      nc c; eauto. congruence.
  - (* adopt *)
    nc c; eauto. apply (I2_win _ I2) in H. lia.
  - nc c; eauto.
  - nc c; eauto.
  - (* client *)
    destruct (I2_leader _ I2 n Hr) as (Q' & Cq' & W).
    rewrite (Hl T). destruct (Nat.eqb_spec T (term (nodes s n))) as [->|N].
    + assert (c = n) by (eapply ESs; eauto). subst c.
      rewrite (Hf n), Nat.eqb_refl. reflexivity.
    + nc c; eauto. congruence.
  - eauto.
  - nc c; eauto.
  - (* ae_ok *)
    nc c; eauto. exfalso.
    destruct (I3_ae _ I3 _ _ _ _ _ _ _ Hm) as [(Q' & Cq' & W) _].
    apply Hne. apply (ESs T n l Q Q' Cw Cq'); auto. congruence.
  - nc c; eauto.
  - nc c; eauto.
  - nc c; eauto.
  - nc c; eauto.
  - norejoin.
  - nc c; eauto.
Qed.

Lemma inv3_won s s' :
  Inv2 s -> Inv3 s -> kstep C0 F s s' -> forall T, llog s' T <> [] -> T = 0 \/ exists c, won s' T c.
Proof.
  intros I2 I3 K T H.
  assert (Old : llog s T <> [] -> T = 0 \/ exists c, won s' T c).
  { intros N. destruct (I3_won _ I3 T N) as [?|[c W]]; auto. right. exists c. eapply kstep_won; eauto. }
  destruct K; subst x; sproj; auto.
  - rewrite (Hl T) in H. destruct (Nat.eqb_spec T (term (nodes s n))) as [->|N]; auto.
    right. exists n, (votesFrom (nodes s n)), (cfg n (nodes s n)). simpl. auto.
  - rewrite (Hl T) in H. destruct (Nat.eqb_spec T (term (nodes s n))) as [->|N]; auto.
    right. exists n. destruct (I2_leader _ I2 n Hr) as (Q & Cq & W). exists Q, Cq. simpl. auto.
Qed.

Lemma in_llog_mono (ll ll' : nat -> list entry) l :
  (forall T, exists r, ll' T = ll T ++ r) -> in_llog ll l -> in_llog ll' l.
Proof.
  intros M H p e Hp. destruct (M (eterm e)) as [r ->]. apply nth_error_app_some. auto.
Qed.

Lemma in_llog_snoc (ll : nat -> list entry) l e :
  in_llog ll l -> ll (eterm e) = l ++ [e] -> in_llog ll (l ++ [e]).
Proof.
  intros H E p x Hp. apply nth_error_snoc_cases in Hp as [[L Hp]|[-> ->]]; auto.
  rewrite E. apply nth_error_app_last.
Qed.

Lemma inv3_kstep s s' : Inv1 s -> Inv2 s -> Inv3 s -> ES s -> LF s -> kstep C0 F s s' -> Inv3 s'.
Proof.
  intros I1 I2 I3 ESs LFs K.
  assert (M : forall T, exists r, llog s' T = llog s T ++ r).
  { intros T. destruct (kstep_llog s s' T I1 I2 I3 LFs K) as [r [E _]]. eauto. }
  assert (LI : forall T, in_llog (llog s') (llog s T)).
  { intros T. eapply in_llog_mono; eauto. apply (I3_llog_in _ I3). }
  assert (NI : forall j, in_llog (llog s') (log (nodes s j))).
  { intros j. eapply in_llog_mono; eauto. apply (I3_in _ I3). }
  constructor.
  - apply (inv3_wlog s s'); auto.
  - apply (inv3_won s s'); auto.
  - (* llog ok *)
    intros T. pose proof (I3_llog_ok _ I3 T) as O.
    destruct K; subst x; sproj; auto.
    + rewrite (Hl T). destruct (Nat.eqb_spec T (term (nodes s n))) as [->|N]; auto.
      apply log_ok_snoc. apply (I1_log _ I1).
    + rewrite (Hl T). destruct (Nat.eqb_spec T (term (nodes s n))) as [->|N]; auto.
      apply log_ok_snoc. apply (I1_log _ I1).
  - (* logs in llog *)
    intros j. specialize (NI j).
    destruct K; subst x; sproj; auto; nc j; auto; norejoin.
    + apply in_llog_snoc; auto. simpl. rewrite (Hl (term (nodes s n))), Nat.eqb_refl. reflexivity.
    + apply in_llog_snoc; auto. simpl. rewrite (Hl (term (nodes s n))), Nat.eqb_refl. reflexivity.
    + (* ae_ok *)
      intros q e Hq.
      assert (Hlen : length (firstn (S p) (log (nodes s n))) = S p).
      { rewrite firstn_length. assert (p < length (log (nodes s n))) by (apply nth_error_Some; congruence). lia. }
      destruct (Nat.lt_ge_cases q (S p)) as [L|L].
      * rewrite nth_error_app1 in Hq by lia. apply nth_error_firstn_some in Hq as [_ Hq]. auto.
      * rewrite nth_error_app2 in Hq by lia. rewrite Hlen in Hq.
        apply merge_nth in Hq as [Hq|Hq].
        -- rewrite nth_error_skipn in Hq. replace (S p + (q - S p)) with q in Hq by lia. auto.
        -- destruct (I3_ae _ I3 _ _ _ _ _ _ _ Hm) as (_ & W & _).
           apply W in Hq. replace (S p + (q - S p)) with q in Hq by lia.
           apply (LI t). exact Hq.
  - (* llog in llog *)
    intros T. specialize (LI T).
    destruct K; subst x; sproj; auto.
    + rewrite (Hl T). destruct (Nat.eqb_spec T (term (nodes s n))) as [->|N]; auto.
      apply in_llog_snoc; auto. simpl. rewrite (Hl (term (nodes s n))), Nat.eqb_refl. reflexivity.
    + rewrite (Hl T). destruct (Nat.eqb_spec T (term (nodes s n))) as [->|N]; auto.
      apply in_llog_snoc; auto. simpl. rewrite (Hl (term (nodes s n))), Nat.eqb_refl. reflexivity.
  - (* append entries messages *)
    intros T l0 d0 pi0 pt0 es0 lc0 H.
    assert (Old : In (AppendEntries T l0 d0 pi0 pt0 es0 lc0) (net s) ->
       won s' T l0 /\ window (llog s' T) pi0 es0 /\
       exists p pe, pi0 = S p /\ nth_error (llog s' T) p = Some pe /\ eterm pe = pt0).
    { intros A. destruct (I3_ae _ I3 _ _ _ _ _ _ _ A) as (W & Wd & p0 & pe0 & E1 & E2 & E3).
      destruct (M T) as [r ->]. split; [eapply kstep_won; eauto|]. split; [apply window_app; auto|].
      exists p0, pe0. split; auto. split; auto. apply nth_error_app_some; auto. }
    destruct K; subst x; sproj; auto; destruct H as [H|H]; auto; try discriminate.
    (* sendae *)
    injection H as <- <- <- <- <- <- <-.
    destruct (I2_leader _ I2 n Hr) as (Q & Cq & W).
    pose proof (I3_wlog _ I3 _ _ _ _ W eq_refl) as E. simpl. rewrite <- E.
    split; [exists Q, Cq; auto|]. split.
    + intros k0 e H. apply nth_error_firstn_some in H as [_ H]. rewrite nth_error_skipn in H. exact H.
    + exists p, (nth p (log (nodes s n)) e0). split; auto. split; auto. apply nth_nth_error; auto.
  - (* llog 0 *)
    pose proof (I3_l0 _ I3) as Z.
    destruct K; subst x; sproj; auto.
    + rewrite (Hl 0). destruct (Nat.eqb_spec 0 (term (nodes s n))) as [E|N]; auto.
      pose proof (cand_term_pos s n I1 I2 Hr). lia.
    + rewrite (Hl 0). destruct (Nat.eqb_spec 0 (term (nodes s n))) as [E|N]; auto.
      destruct (I2_leader _ I2 n Hr) as (Q & Cq & W). apply (I3_wpos _ I3) in W. lia.
  - (* winning terms are positive *)
    intros T c Q Cw H. pose proof (I3_wpos _ I3 T c Q Cw) as O.
    destruct K; subst x; sproj; auto. destruct H as [H|H]; auto.
    injection H as <- <- <- <-. apply (cand_term_pos s n I1 I2 Hr).
Qed.

End S3.
