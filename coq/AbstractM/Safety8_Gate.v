(* Invariant G: what the leader-side gate and the discipline give.
   - a candidate / leader is a member by its own log (tguard at the timeout, never "CRem self");
   - every decision (win, direct commit) was taken with the member set [gcfg] of a prefix of the
     decider's leader log;
   - a membership entry of term T at position r of [llog T] was appended when
       (a) an entry of term T was already committed (guard (a): the no-op), by a decision taken
           with a log no longer than r, and
       (b) every earlier membership entry of that log was committed (guard (b)). *)
From Coq Require Import List Arith Lia Bool PeanoNat.
Import ListNotations.
Require Import PSO.AbstractM.Model PSO.AbstractM.Lib PSO.AbstractM.Kstep PSO.AbstractM.Cfg
  PSO.AbstractM.Safety0_Base PSO.AbstractM.Safety1_WF
  PSO.AbstractM.Safety2_Election PSO.AbstractM.Safety3_LeaderLog PSO.AbstractM.Safety4_LogMatching
  PSO.AbstractM.Safety5_Acks PSO.AbstractM.Safety6_LC PSO.AbstractM.Safety7_SM.

Section S8.
Variable C0 : list nat.
Variable F : flags.
Hypothesis Hreuse : reuse F = false.
Hypothesis HgateA : gateA F = true.
Hypothesis HbaseC0 : baseC0 F = true.
Hypothesis Htguard : tguard F = true.
Hypothesis C0_nodup : NoDup C0.

Ltac norejoin := try (match goal with Hy : reuse F = true /\ _ |- _ => destruct Hy; congruence end).

Definition G (l : list entry) : list nat := gcfg C0 l.

Record InvG (s : state) : Prop := {
  IG_member : forall n, rl (nodes s n) <> Follower -> In n (G (log (nodes s n)));
  IG_noop : forall n, rl (nodes s n) = Leader ->
     hasT (log (nodes s n)) (term (nodes s n)) (noopi (nodes s n));
  IG_direct : forall T p Cd, In (T, p, Cd) (direct s) ->
     exists m, p < m /\ m <= length (llog s T) /\ seteq Cd (G (firstn m (llog s T)));
  IG_win : forall T c Q Cw, In (T, c, Q, Cw) (wins s) ->
     exists m e, nth_error (llog s T) m = Some e /\ eterm e = T /\
       (forall r e', r < m -> nth_error (llog s T) r = Some e' -> eterm e' < T) /\
       seteq Cw (G (firstn m (llog s T)));
  IG_cfg : forall T r e, nth_error (llog s T) r = Some e -> eterm e = T -> is_cfg (ecmd e) = true ->
     (exists p0 Cd m0, In (T, p0, Cd) (direct s) /\ p0 < m0 /\ m0 <= r /\
                       seteq Cd (G (firstn m0 (llog s T)))) /\
     (forall r1 e1, r1 < r -> nth_error (llog s T) r1 = Some e1 -> is_cfg (ecmd e1) = true ->
        exists T0 p0 Cd, In (T0, p0, Cd) (direct s) /\ T0 <= T /\ r1 <= p0 /\
                         firstn (S r1) (llog s T) = firstn (S r1) (llog s T0) /\
                         (T0 = T -> exists m0, p0 < m0 /\ m0 <= r /\ seteq Cd (G (firstn m0 (llog s T)))))
}.

Lemma seteq_refl A : NoDup A -> seteq A A.
Proof. intros N. split; [|split]; auto. tauto. Qed.

Lemma invG_init : InvG (init C0).
Proof.
  constructor; simpl.
  - intros n H. congruence.
  - intros n H; discriminate.
  - intros T p Cd [H|[]]. injection H as <- <- <-. exists 1. simpl. repeat split; auto.
  - intros; contradiction.
  - intros T r e H. destruct (T =? 0).
    + destruct r as [|[|r]]; simpl in H; try discriminate. injection H as <-. simpl. discriminate.
    + destruct r; discriminate.
Qed.

(* the member table of a node that is a member by its own log *)
Lemma cfg_is_G s n : InvB C0 F s -> In n (G (log (nodes s n))) ->
  seteq (cfg n (nodes s n)) (G (log (nodes s n))).
Proof.
  intros IB I. rewrite (cfg_gcfg C0 F s n IB HbaseC0 Hreuse). apply cfg_seteq; auto.
  apply gcfg_NoDup; auto.
Qed.

Lemma G_snoc l e : G (l ++ [e]) = gapp (G l) (ecmd e).
Proof. apply gcfg_snoc. Qed.

Lemma firstn_app_stable {A} (l r : list A) m : m <= length l -> firstn m (l ++ r) = firstn m l.
Proof. apply firstn_app_le. Qed.

Lemma nth_error_app_lt {A} (l r : list A) p e : nth_error (l ++ r) p = Some e -> p < length l -> nth_error l p = Some e.
Proof. intros H L. rewrite nth_error_app1 in H; auto. Qed.

Lemma gapp_keeps n o c : In n o -> (forall y, c = CRem y -> y <> n) -> In n (gapp o c).
Proof.
  intros I H. destruct c as [k|y|y]; simpl; auto.
  - destruct (mem y o); simpl; auto.
  - apply del_In. split; auto. intros ->. apply (H y); auto.
Qed.

Lemma client_ok_not_self n x c : client_ok F n x c = true -> forall y, c = CRem y -> y <> n.
Proof.
  intros H y ->. unfold client_ok in H. simpl in H.
  apply andb_true_iff in H as [_ H]. apply andb_true_iff in H as [H _].
  apply negb_true_iff in H. apply Nat.eqb_neq in H. exact H.
Qed.

Lemma invG_member_kstep s s' : InvG s -> kstep C0 F s s' ->
  forall j, rl (nodes s' j) <> Follower -> In j (G (log (nodes s' j))).
Proof.
  intros IG K j. pose proof (IG_member _ IG j) as Old.
  destruct K; subst x; sproj; auto; nc j; auto; norejoin; intros H; try congruence.
  - (* timeout *) apply mem_In. apply Hg. exact Htguard.
  - (* lead *) rewrite G_snoc. simpl. apply Old. congruence.
  - (* client *) rewrite G_snoc. apply gapp_keeps; [apply Old; congruence|].
    apply (client_ok_not_self _ _ _ Hg).
Qed.

Lemma invG_noop_kstep s s' : InvG s -> kstep C0 F s s' ->
  forall j, rl (nodes s' j) = Leader -> hasT (log (nodes s' j)) (term (nodes s' j)) (noopi (nodes s' j)).
Proof.
  intros IG K j. pose proof (IG_noop _ IG j) as Old.
  destruct K; subst x; sproj; auto; nc j; auto; norejoin; intros H; try congruence; try discriminate.
  - (* lead *) exists (noop (nodes s n)). split; [apply nth_error_app_last|reflexivity].
  - (* client *) apply hasT_app. auto.
Qed.

Lemma invG_direct_kstep s s' :
  InvB C0 F s -> Inv1 s -> Inv2 s -> Inv3 s -> InvG s -> LF s -> kstep C0 F s s' ->
  forall T p Cd, In (T, p, Cd) (direct s') ->
     exists m, p < m /\ m <= length (llog s' T) /\ seteq Cd (G (firstn m (llog s' T))).
Proof.
  intros IB I1 I2 I3 IG LFs K T p Cd H.
  assert (Old : In (T, p, Cd) (direct s) ->
     exists m, p < m /\ m <= length (llog s' T) /\ seteq Cd (G (firstn m (llog s' T)))).
  { intros D. destruct (IG_direct _ IG _ _ _ D) as (m & A & B & C).
    destruct (kstep_llog C0 F s s' T I1 I2 I3 LFs K) as [r [-> _]].
    exists m. split; auto. split; [rewrite app_length; lia|]. rewrite firstn_app_stable; auto. }
  destruct K; subst x; sproj; auto.
  destruct H as [H|H]; auto. injection H as <- <- <-.
  destruct (I2_leader _ I2 n Hr) as (Q & Cq & W).
  rewrite <- (I3_wlog _ I3 _ _ _ _ W eq_refl).
  exists (length (log (nodes s n))). split; auto. split; auto.
  rewrite firstn_all. apply cfg_is_G; auto. apply (IG_member _ IG). congruence.
Qed.

Lemma invG_win_kstep s s' :
  InvB C0 F s -> Inv1 s -> Inv2 s -> Inv3 s -> InvG s -> LF s -> kstep C0 F s s' ->
  forall T c Q Cw, In (T, c, Q, Cw) (wins s') ->
     exists m e, nth_error (llog s' T) m = Some e /\ eterm e = T /\
       (forall r e', r < m -> nth_error (llog s' T) r = Some e' -> eterm e' < T) /\
       seteq Cw (G (firstn m (llog s' T))).
Proof.
  intros IB I1 I2 I3 IG LFs K T c Q Cw H.
  assert (Old : In (T, c, Q, Cw) (wins s) ->
     exists m e, nth_error (llog s' T) m = Some e /\ eterm e = T /\
       (forall r e', r < m -> nth_error (llog s' T) r = Some e' -> eterm e' < T) /\
       seteq Cw (G (firstn m (llog s' T)))).
  { intros W. destruct (IG_win _ IG _ _ _ _ W) as (m & e & A & B & C & D).
    assert (Lm : m < length (llog s T)) by (apply nth_error_Some; congruence).
    destruct (kstep_llog C0 F s s' T I1 I2 I3 LFs K) as [r [-> _]].
    exists m, e. split; [apply nth_error_app_some; auto|]. split; auto. split.
    - intros r0 e' L0 H0. apply (C r0 e'); auto. apply (nth_error_app_lt _ r); auto. lia.
    - rewrite firstn_app_stable; auto. lia. }
  destruct K; subst x; sproj; auto.
  destruct H as [H|H]; auto. injection H as <- <- <- <-.
  rewrite (Hl (term (nodes s n))), Nat.eqb_refl.
  exists (length (log (nodes s n))), (noop (nodes s n)).
  split; [apply nth_error_app_last|]. split; [reflexivity|]. split.
  - intros r e' L0 H0. rewrite nth_error_app1 in H0 by auto.
    apply (I2_candlog _ I2 n); auto. eapply nth_error_In; eauto.
  - rewrite firstn_app_stable by auto. rewrite firstn_all.
    apply cfg_is_G; auto. apply (IG_member _ IG). congruence.
Qed.

Lemma no_cfg_from_spec k l r e :
  no_cfg_from k l = true -> nth_error l r = Some e -> is_cfg (ecmd e) = true -> r < k.
Proof.
  intros H Hr Hc. destruct (Nat.lt_ge_cases r k) as [L|L]; auto. exfalso.
  unfold no_cfg_from in H. rewrite forallb_forall in H.
  assert (I : In e (skipn k l)).
  { apply (nth_error_In _ (r - k)). rewrite nth_error_skipn. replace (k + (r - k)) with r by lia. auto. }
  apply H in I. rewrite Hc in I. discriminate.
Qed.

(* the conclusion of IG_cfg for one entry, as a predicate of the state *)
Definition cfg_entry_ok (s : state) (T r : nat) : Prop :=
  (exists p0 Cd m0, In (T, p0, Cd) (direct s) /\ p0 < m0 /\ m0 <= r /\
                    seteq Cd (G (firstn m0 (llog s T)))) /\
  (forall r1 e1, r1 < r -> nth_error (llog s T) r1 = Some e1 -> is_cfg (ecmd e1) = true ->
     exists T0 p0 Cd, In (T0, p0, Cd) (direct s) /\ T0 <= T /\ r1 <= p0 /\
                      firstn (S r1) (llog s T) = firstn (S r1) (llog s T0) /\
                      (T0 = T -> exists m0, p0 < m0 /\ m0 <= r /\ seteq Cd (G (firstn m0 (llog s T))))).

Lemma cfg_entry_ok_mono s s' T r :
  (forall d, In d (direct s) -> In d (direct s')) ->
  (forall U, exists x, llog s' U = llog s U ++ x) ->
  r < length (llog s T) -> cfg_entry_ok s T r -> cfg_entry_ok s' T r.
Proof.
  intros MD ML Lr [(p0 & Cd & m0 & A1 & A2 & A3 & A4) B]. split.
  - exists p0, Cd, m0. split; [auto|]. split; [auto|]. split; [auto|].
    destruct (ML T) as [x ->]. rewrite firstn_app_stable by lia. exact A4.
  - intros r1 e1 L1 H1 C1. destruct (ML T) as [x E].
    assert (H1' : nth_error (llog s T) r1 = Some e1).
    { rewrite E in H1. apply (nth_error_app_lt _ x); auto. lia. }
    destruct (B r1 e1 L1 H1' C1) as (T0 & q0 & Cd0 & B1 & B2 & B3 & B4 & B5).
    exists T0, q0, Cd0. split; [auto|]. split; [auto|]. split; [auto|]. split.
    + rewrite E. rewrite firstn_app_stable by lia. rewrite B4.
      destruct (ML T0) as [y ->]. rewrite firstn_app_stable; auto.
      apply (firstn_eq_length _ _ _ B4). lia.
    + intros E0. destruct (B5 E0) as (m1 & M1 & M2 & M3). exists m1. split; [auto|]. split; [auto|].
      rewrite E. rewrite firstn_app_stable by lia. exact M3.
Qed.

(* the gate at work: the entry a leader appends with [client_ok] satisfies (a) and (b) *)
Lemma gate_gives s n c :
  Inv1 s -> Inv2 s -> Inv3 s -> Inv7 s -> InvG s ->
  rl (nodes s n) = Leader -> client_ok F n (nodes s n) c = true -> is_cfg c = true ->
  let T := term (nodes s n) in let L := log (nodes s n) in
  (exists p0 Cd m0, In (T, p0, Cd) (direct s) /\ p0 < m0 /\ m0 <= length L /\
                    seteq Cd (G (firstn m0 (llog s T)))) /\
  (forall r1 e1, nth_error L r1 = Some e1 -> is_cfg (ecmd e1) = true ->
     exists T0 p0 Cd, In (T0, p0, Cd) (direct s) /\ T0 <= T /\ r1 <= p0 /\
                      firstn (S r1) L = firstn (S r1) (llog s T0) /\
                      (T0 = T -> exists m0, p0 < m0 /\ m0 <= length L /\ seteq Cd (G (firstn m0 (llog s T))))).
Proof.
  intros I1 I2 I3 I7 IG Hr Hg Hc T L.
  unfold client_ok in Hg. rewrite Hc in Hg. apply andb_true_iff in Hg as [Hg _].
  unfold gate in Hg. rewrite HgateA in Hg. apply andb_true_iff in Hg as [Ga Gb]. apply Nat.ltb_lt in Ga.
  destruct (I2_leader _ I2 n Hr) as (Q & Cq & W).
  pose proof (I3_wlog _ I3 _ _ _ _ W eq_refl) as EL. fold L T in EL.
  destruct (I7_node _ I7 n) as [Cl (T0 & p0 & Cd & D1 & D2 & D3 & D4)]. fold L T in Cl, D2, D4.
  split.
  - destruct (IG_noop _ IG n Hr) as (en & N1 & N2). fold L T in N1, N2.
    assert (N3 : nth_error (llog s T0) (noopi (nodes s n)) = Some en).
    { rewrite <- (firstn_eq_nth _ _ _ _ D4 Ga). exact N1. }
    apply (I3_llog_ok _ I3) in N3. assert (T0 = T) by lia. subst T0.
    destruct (IG_direct _ IG _ _ _ D1) as (m0 & M1 & M2 & M3).
    exists p0, Cd, m0. repeat split; auto; try apply M3. rewrite EL. exact M2.
  - intros r1 e1 H1 C1. pose proof (no_cfg_from_spec _ _ _ _ Gb H1 C1) as Lr.
    exists T0, p0, Cd. split; [auto|]. split; [auto|]. split; [lia|]. split.
    + eapply firstn_le_eq; [|exact D4]. lia.
    + intros ->. destruct (IG_direct _ IG _ _ _ D1) as (m0 & M1 & M2 & M3).
      exists m0. split; [auto|]. split; [rewrite EL; exact M2|exact M3].
Qed.

Lemma invG_cfg_kstep s s' :
  Inv1 s -> Inv2 s -> Inv3 s -> Inv7 s -> InvG s -> LF s -> kstep C0 F s s' ->
  forall T r e, nth_error (llog s' T) r = Some e -> eterm e = T -> is_cfg (ecmd e) = true ->
    cfg_entry_ok s' T r.
Proof.
  intros I1 I2 I3 I7 IG LFs K T r e H Et Hc.
  assert (ML : forall U, exists x, llog s' U = llog s U ++ x).
  { intros U. destruct (kstep_llog C0 F s s' U I1 I2 I3 LFs K) as [x [E _]]. eauto. }
  assert (MD : forall d, In d (direct s) -> In d (direct s')) by (intros d; eapply kstep_direct; eauto).
  assert (Old : nth_error (llog s T) r = Some e -> cfg_entry_ok s' T r).
  { intros H0. apply (cfg_entry_ok_mono s s'); auto.
    - apply nth_error_Some. congruence.
    - apply (IG_cfg _ IG T r e); auto. }
  destruct K; subst x; sproj; auto.
  - (* lead *)
    rewrite (Hl T) in H. destruct (Nat.eqb_spec T (term (nodes s n))) as [->|N]; auto.
    exfalso. apply nth_error_snoc_cases in H as [[L H]|[_ ->]]; [|discriminate].
    apply nth_error_In in H. apply (I2_candlog _ I2 n e Hr) in H. lia.
  - (* client *)
    rewrite (Hl T) in H. destruct (Nat.eqb_spec T (term (nodes s n))) as [->|N]; auto.
    destruct (I2_leader _ I2 n Hr) as (Q & Cq & W).
    pose proof (I3_wlog _ I3 _ _ _ _ W eq_refl) as EL.
    apply nth_error_snoc_cases in H as [[L H]|[-> ->]]; [rewrite EL in H; auto|].
    simpl in Hc.
    destruct (gate_gives s n c I1 I2 I3 I7 IG Hr Hg Hc) as [(p0 & Cd & m0 & A1 & A2 & A3 & A4) B].
    split.
    + exists p0, Cd, m0. split; [auto|]. split; [auto|]. split; [auto|].
      cbn [llog]. rewrite (Hl (term (nodes s n))), Nat.eqb_refl. rewrite <- EL in A4.
      rewrite firstn_app_stable by auto. exact A4.
    + intros r1 e1 L1 H1 C1. cbn [llog] in *. rewrite (Hl (term (nodes s n))), Nat.eqb_refl in H1.
      apply nth_error_app_lt in H1; auto.
      destruct (B r1 e1 H1 C1) as (T0 & q0 & Cd0 & B1 & B2 & B3 & B4 & B5).
      assert (Lr : S r1 <= length (log (nodes s n))) by lia.
      exists T0, q0, Cd0. split; [auto|]. split; [auto|]. split; [auto|]. split.
      * rewrite (Hl (term (nodes s n))), Nat.eqb_refl. rewrite firstn_app_stable by auto. rewrite B4.
        rewrite (Hl T0). destruct (Nat.eqb_spec T0 (term (nodes s n))) as [->|N0]; auto.
        rewrite <- EL. rewrite firstn_app_stable; auto.
      * intros E0. destruct (B5 E0) as (m1 & M1 & M2 & M3). exists m1. split; [auto|]. split; [auto|].
        rewrite (Hl (term (nodes s n))), Nat.eqb_refl. rewrite <- EL in M3.
        rewrite firstn_app_stable by auto. exact M3.
Qed.

Lemma invG_kstep s s' :
  InvB C0 F s -> Inv1 s -> Inv2 s -> Inv3 s -> Inv7 s -> InvG s -> LF s -> kstep C0 F s s' -> InvG s'.
Proof.
  intros IB I1 I2 I3 I7 IG LFs K. constructor.
  - apply (invG_member_kstep s s'); auto.
  - apply (invG_noop_kstep s s'); auto.
  - apply (invG_direct_kstep s s'); auto.
  - apply (invG_win_kstep s s'); auto.
  - apply (invG_cfg_kstep s s'); auto.
Qed.

End S8.
