(* Invariant 4: Log Matching, through the ghost leader logs.
   [canon_ok]: wherever an entry of term T sits at position p - in a log or in a leader log - the
   holder's prefix up to p is the prefix of [llog T].  Hence two logs (or a log and the leader log
   an AppendEntries message is a window of) that agree on the term at one position are identical
   up to that position.  Also: terms are non-decreasing along every log. *)
From Coq Require Import List Arith Lia Bool PeanoNat.
Import ListNotations.
Require Import PSO.AbstractM.Model PSO.AbstractM.Lib PSO.AbstractM.Kstep PSO.AbstractM.Cfg PSO.AbstractM.Safety1_WF
  PSO.AbstractM.Safety2_Election PSO.AbstractM.Safety3_LeaderLog.

Definition canon_ok (ll : nat -> list entry) (l : list entry) : Prop :=
  forall p e, nth_error l p = Some e -> firstn (S p) l = firstn (S p) (ll (eterm e)).

(* l and L match: same term at a position implies equal prefixes up to there *)
Definition lmatch (l L : list entry) : Prop :=
  forall q e e', nth_error l q = Some e -> nth_error L q = Some e' -> eterm e = eterm e' ->
                 firstn (S q) l = firstn (S q) L.

Lemma canon_lmatch ll a b : canon_ok ll a -> canon_ok ll b -> lmatch a b.
Proof. intros A B q e e' Ha Hb E. rewrite (A q e Ha), (B q e' Hb), E. reflexivity. Qed.

Lemma firstn_S_length {A} (l : list A) p e : nth_error l p = Some e -> length (firstn (S p) l) = S p.
Proof. intros H. rewrite firstn_length. assert (p < length l) by (apply nth_error_Some; congruence). lia. Qed.

Lemma canon_mono (ll ll' : nat -> list entry) l :
  (forall T, exists r, ll' T = ll T ++ r) -> canon_ok ll l -> canon_ok ll' l.
Proof.
  intros M H p e Hp. rewrite (H p e Hp). destruct (M (eterm e)) as [r ->].
  rewrite firstn_app_le; auto.
  pose proof (firstn_S_length l p e Hp) as L. rewrite (H p e Hp), firstn_length in L. lia.
Qed.

Lemma canon_firstn ll l k : canon_ok ll l -> canon_ok ll (firstn k l).
Proof.
  intros H p e Hp. apply nth_error_firstn_some in Hp as [L Hp].
  rewrite firstn_firstn. replace (Nat.min (S p) k) with (S p) by lia. auto.
Qed.

Lemma canon_snoc (ll : nat -> list entry) l e :
  canon_ok ll l -> ll (eterm e) = l ++ [e] -> canon_ok ll (l ++ [e]).
Proof.
  intros H E p x Hp. apply nth_error_snoc_cases in Hp as [[L Hp]|[-> ->]].
  - rewrite firstn_app_le by lia. auto.
  - rewrite E. reflexivity.
Qed.

Lemma canon_sorted ll l : canon_ok ll l -> (forall T, sorted (ll T)) -> sorted l.
Proof.
  intros C St p q e e' L Hp Hq.
  pose proof (C q e' Hq) as E.
  apply (St (eterm e') p q); auto.
  - rewrite <- (firstn_eq_nth _ _ (S q) p E) by lia. auto.
  - rewrite <- (firstn_eq_nth _ _ (S q) q E) by lia. auto.
Qed.

Lemma window_eq L pi es : window L pi es -> firstn (length es) (skipn pi L) = es.
Proof.
  intros W. apply nth_error_ext. intros i.
  destruct (nth_error es i) as [e|] eqn:E.
  - rewrite nth_error_firstn_lt by (apply nth_error_Some; congruence).
    rewrite nth_error_skipn. apply W; auto.
  - apply nth_error_firstn_ge. apply nth_error_None; auto.
Qed.

Lemma window_length L pi es : window L pi es -> pi <= length L -> pi + length es <= length L.
Proof.
  intros W H. destruct es as [|e es'] eqn:E; [simpl; lia|]. rewrite <- E in *.
  assert (X : exists x, nth_error es (length es - 1) = Some x).
  { destruct (nth_error es (length es - 1)) eqn:N; eauto. apply nth_error_None in N. subst es. simpl in N. lia. }
  destruct X as [x X]. apply W in X.
  assert (pi + (length es - 1) < length L) by (apply nth_error_Some; congruence).
  subst es. simpl in *. lia.
Qed.

(* what a follower's log becomes when it accepts entries that are a window of L *)
Lemma ae_result l L p es :
  lmatch l L -> firstn (S p) l = firstn (S p) L -> S p <= length l -> window L (S p) es ->
  let l' := firstn (S p) l ++ merge (skipn (S p) l) es in
  let k := S p + length es in
  k <= length L /\
  ((l' = l /\ k <= length l /\ firstn k l = firstn k L) \/
   (l' = firstn k L /\ ~ (k <= length l /\ firstn k l = firstn k L))).
Proof.
  intros M E Hl W. cbv zeta.
  remember (S p + length es) as k eqn:Ek.
  assert (HL : S p <= length L) by (eapply firstn_eq_length; eauto).
  assert (Hk : k <= length L) by (subst k; apply window_length; auto).
  split; auto.
  assert (EL : firstn k L = firstn (S p) L ++ es).
  { subst k. rewrite firstn_add. rewrite window_eq; auto. }
  assert (El : firstn k l = firstn (S p) l ++ firstn (length es) (skipn (S p) l)).
  { subst k. apply firstn_add. }
  destruct (merge_cases (skipn (S p) l) es) as [[r [E1 E2]]|[E1 E2]].
  - intros j e e' Ha Hb Et. rewrite nth_error_skipn in Ha. pose proof (W j e' Hb) as Hb'.
    pose proof (M _ _ _ Ha Hb' Et) as F.
    assert (Lt : S p + j < S (S p + j)) by apply Nat.lt_succ_diag_r.
    pose proof (firstn_eq_nth _ _ (S (S p + j)) (S p + j) F Lt) as G. congruence.
  - left. rewrite E2. rewrite firstn_skipn. split; auto.
    assert (length l = S p + length (skipn (S p) l)) by (apply firstn_skipn_length; auto).
    rewrite E1, app_length in H. split; [lia|].
    rewrite El, EL, E1. rewrite firstn_app_le by lia. rewrite firstn_all. congruence.
  - right. rewrite E1. split; [rewrite EL; congruence|].
    intros [A B]. apply E2. exists (skipn (length es) (skipn (S p) l)).
    rewrite El, EL, E in B. apply app_inv_head in B.
    rewrite <- B at 1. symmetry. apply firstn_skipn.
Qed.

(* the two consequences used everywhere *)
Lemma ae_result_prefix l L p es :
  lmatch l L -> firstn (S p) l = firstn (S p) L -> S p <= length l -> window L (S p) es ->
  let l' := firstn (S p) l ++ merge (skipn (S p) l) es in
  let k := S p + length es in
  k <= length l' /\ firstn k l' = firstn k L.
Proof.
  intros M E Hl W. cbv zeta. destruct (ae_result l L p es M E Hl W) as [Hk [(A & B & C)|(A & B)]].
  - rewrite A. auto.
  - rewrite A. rewrite firstn_length. split; [lia|]. rewrite firstn_firstn. f_equal. lia.
Qed.

Lemma ae_result_keeps l L p es j :
  lmatch l L -> firstn (S p) l = firstn (S p) L -> S p <= length l -> window L (S p) es ->
  j <= length l -> firstn j l = firstn j L ->
  let l' := firstn (S p) l ++ merge (skipn (S p) l) es in
  j <= length l' /\ firstn j l' = firstn j L.
Proof.
  intros M E Hl W Hj Ej. cbv zeta. destruct (ae_result l L p es M E Hl W) as [Hk [(A & B & C)|(A & B)]].
  - rewrite A. auto.
  - remember (S p + length es) as k eqn:Ek.
    assert (j < k).
    { destruct (Nat.lt_ge_cases j k); auto. exfalso. apply B. split; [lia|]. eapply firstn_le_eq; eauto. }
    rewrite A. rewrite firstn_length. split; [lia|]. rewrite firstn_firstn. f_equal. lia.
Qed.

Section S4.
Variable C0 : list nat.
Variable F : flags.
Hypothesis Hreuse : reuse F = false.

Ltac norejoin := try (match goal with Hy : reuse F = true /\ _ |- _ => destruct Hy; congruence end).

Record Inv4 (s : state) : Prop := {
  I4_canon : forall j, canon_ok (llog s) (log (nodes s j));
  I4_lcanon : forall T, canon_ok (llog s) (llog s T);
  I4_sorted : forall T, sorted (llog s T)
}.

Lemma inv4_init : Inv4 (init C0).
Proof.
  constructor; simpl.
  - intros _ p e H. destruct p as [|[|p]]; simpl in H; try discriminate. injection H as <-. reflexivity.
  - intros T p e H. destruct (Nat.eqb_spec T 0).
    + destruct p as [|[|p]]; simpl in H; try discriminate. injection H as <-. reflexivity.
    + destruct p; discriminate.
  - intros T p q e e' L Hp Hq. destruct (Nat.eqb_spec T 0).
    + destruct p as [|[|p]]; simpl in Hp; try discriminate. destruct q as [|[|q]]; simpl in Hq; try discriminate.
      injection Hp as <-. injection Hq as <-. lia.
    + destruct p; discriminate.
Qed.

(* the facts about an accepted AppendEntries that the later layers reuse *)
Lemma ae_ok_facts s n t l d p pt es lc pe :
  Inv3 s -> Inv4 s ->
  In (AppendEntries t l d (S p) pt es lc) (net s) ->
  nth_error (log (nodes s n)) p = Some pe -> eterm pe = pt ->
  lmatch (log (nodes s n)) (llog s t) /\
  firstn (S p) (log (nodes s n)) = firstn (S p) (llog s t) /\
  S p <= length (log (nodes s n)) /\ window (llog s t) (S p) es.
Proof.
  intros I3 I4 Hm Hp Hpt.
  destruct (I3_ae _ I3 _ _ _ _ _ _ _ Hm) as (W & Wd & p0 & pe0 & E1 & E2 & E3).
  injection E1 as <-.
  assert (M : lmatch (log (nodes s n)) (llog s t)).
  { eapply canon_lmatch; [apply (I4_canon _ I4)|apply (I4_lcanon _ I4)]. }
  repeat split; auto.
  - eapply M; eauto. congruence.
  - apply nth_error_Some. congruence.
Qed.

Lemma inv4_kstep s s' : Inv1 s -> Inv2 s -> Inv3 s -> Inv4 s -> LF s -> kstep C0 F s s' -> Inv4 s'.
Proof.
  intros I1 I2 I3 I4 LFs K.
  assert (M : forall T, exists r, llog s' T = llog s T ++ r).
  { intros T. destruct (kstep_llog C0 F s s' T I1 I2 I3 LFs K) as [r [E _]]. eauto. }
  assert (NC : forall j, canon_ok (llog s') (log (nodes s j))).
  { intros j. eapply canon_mono; eauto. apply (I4_canon _ I4). }
  assert (LC : forall T, canon_ok (llog s') (llog s T)).
  { intros T. eapply canon_mono; eauto. apply (I4_lcanon _ I4). }
  assert (SL : forall j, sorted (log (nodes s j))).
  { intros j. eapply canon_sorted; [apply (I4_canon _ I4)|apply (I4_sorted _ I4)]. }
  constructor.
  - (* logs *)
    intros j. specialize (NC j).
    destruct K; subst x; sproj; auto; nc j; auto; norejoin.
    + apply canon_snoc; auto. simpl. rewrite (Hl (term (nodes s n))), Nat.eqb_refl. reflexivity.
    + apply canon_snoc; auto. simpl. rewrite (Hl (term (nodes s n))), Nat.eqb_refl. reflexivity.
    + (* ae_ok *)
      destruct (ae_ok_facts s n t l n p pt es lc pe I3 I4 Hm Hp Hpt) as (A & B & C & D).
      destruct (ae_result _ _ p es A B C D) as [_ [(E & _)|(E & _)]]; rewrite E; auto.
      apply canon_firstn. apply (LC t).
  - (* leader logs *)
    intros T. specialize (LC T).
    destruct K; subst x; sproj; auto.
    + rewrite (Hl T). destruct (Nat.eqb_spec T (term (nodes s n))) as [->|N]; auto.
      apply canon_snoc; auto. simpl. rewrite (Hl (term (nodes s n))), Nat.eqb_refl. reflexivity.
    + rewrite (Hl T). destruct (Nat.eqb_spec T (term (nodes s n))) as [->|N]; auto.
      apply canon_snoc; auto. simpl. rewrite (Hl (term (nodes s n))), Nat.eqb_refl. reflexivity.
  - (* sortedness of leader logs *)
    intros T. pose proof (I4_sorted _ I4 T) as S0.
    destruct K; subst x; sproj; auto.
    + rewrite (Hl T). destruct (Nat.eqb_spec T (term (nodes s n))) as [->|N]; auto.
      apply sorted_snoc; auto. intros y Hy. simpl.
      apply In_nth_error in Hy as [q Hy]. apply (I1_log _ I1) in Hy. tauto.
    + rewrite (Hl T). destruct (Nat.eqb_spec T (term (nodes s n))) as [->|N]; auto.
      apply sorted_snoc; auto. intros y Hy. simpl.
      apply In_nth_error in Hy as [q Hy]. apply (I1_log _ I1) in Hy. tauto.
Qed.

Lemma inv4_log_sorted s j : Inv4 s -> sorted (log (nodes s j)).
Proof. intros I4. eapply canon_sorted; [apply (I4_canon _ I4)|apply (I4_sorted _ I4)]. Qed.

End S4.
