(* Atomic sub-steps.  Every [step] of Model.v is zero, one or two [kstep]s ("adopt the higher
   term" and "become leader" are split off), so an invariant of [kstep] is an invariant of [step].
   [kstep] describes the function-valued fields of the new state pointwise, so it is closed under
   extensional equality of states. *)
From Coq Require Import List Arith Lia Bool PeanoNat.
Import ListNotations.
Require Import PSO.AbstractM.Model PSO.AbstractM.Lib.

Definition fupd {A} (f : nat -> A) (n : nat) (x : A) (f' : nat -> A) : Prop :=
  forall j, f' j = if j =? n then x else f j.

Lemma fupd_upd {A} (f : nat -> A) n x : fupd f n x (upd f n x).
Proof. intros j. reflexivity. Qed.

(* reduce record projections only (cheap, unlike [simpl in *]) *)
Ltac sproj :=
  cbn [term voted rl log commit votesFrom matchIdx lf base noopi nodes net grants wins llog acks direct] in *.

(* case split "is j the node that moved?" and rewrite the new node function everywhere *)
Ltac nc j :=
  match goal with
  | Hf : fupd (nodes _) ?n _ _ |- _ =>
      let Hj := fresh "Hj" in
      sproj;
      pose proof (Hf j) as Hj;
      destruct (Nat.eqb_spec j n) as [?|?]; [try subst j|];
      try rewrite Hj in *; clear Hj; sproj
  end.

(* the state of a node that was never started *)
Definition pristine (x : node) : Prop :=
  x = mkN 0 None Follower [e0] 1 [] (fun _ => 0) Fresh (base x) 0.

Section K.
Variable C0 : list nat.
Variable F : flags.

Definition cent (x : node) (c : cmd) : entry := mkE (S (length (log x))) (term x) c.

Inductive kstep : state -> state -> Prop :=
| K_timeout s n x nds'
    (Hn : lf x = Up) (Hx : nodes s n = x) (Hr : rl x <> Leader)
    (Hg : tguard F = true -> self_member C0 n x = true)
    (Hf : fupd (nodes s) n (mkN (S (term x)) (Some n) Candidate (log x) (commit x) [n] (matchIdx x)
                                (lf x) (base x) (noopi x)) nds') :
    kstep s (mkS nds' (RequestVote (S (term x)) n (length (log x)) (lastTerm (log x)) :: net s)
                 ((S (term x), n, n) :: grants s) (wins s) (llog s) (acks s) (direct s))
| K_lead s n x nds' lg'
    (Hn : lf x = Up) (Hx : nodes s n = x) (Hr : rl x = Candidate)
    (Hmaj : majority_of (cfg n x) (length (votesFrom x)) = true)
    (Hf : fupd (nodes s) n (mkN (term x) (voted x) Leader (log x ++ [noop x]) (commit x) (votesFrom x)
                                (fun _ => 0) (lf x) (base x) (length (log x))) nds')
    (Hl : fupd (llog s) (term x) (log x ++ [noop x]) lg') :
    kstep s (mkS nds' (net s) (grants s) ((term x, n, votesFrom x, cfg n x) :: wins s) lg'
                 ((term x, n, length (log x ++ [noop x])) :: acks s) (direct s))
| K_adopt s n x t nds'
    (Hn : lf x = Up) (Hx : nodes s n = x) (Ht : term x < t)
    (Hf : fupd (nodes s) n (mkN t None Follower (log x) (commit x) (votesFrom x) (matchIdx x)
                                (lf x) (base x) (noopi x)) nds') :
    kstep s (mkS nds' (net s) (grants s) (wins s) (llog s) (acks s) (direct s))
| K_grant s n x t c li lt nds'
    (Hn : lf x = Up) (Hx : nodes s n = x) (Hm : In (RequestVote t c li lt) (net s))
    (Hk : link_ok F s c n)
    (Hr : rl x <> Leader) (Ht : term x = t) (Hu : up_to_date (log x) li lt = true) (Hv : voted x = None)
    (Hf : fupd (nodes s) n (mkN (term x) (Some c) (rl x) (log x) (commit x) (votesFrom x) (matchIdx x)
                                (lf x) (base x) (noopi x)) nds') :
    kstep s (mkS nds' (Vote t n c :: net s) ((t, n, c) :: grants s) (wins s) (llog s) (acks s) (direct s))
| K_count s n x v nds'
    (Hn : lf x = Up) (Hx : nodes s n = x) (Hm : In (Vote (term x) v n) (net s)) (Hr : rl x = Candidate)
    (Hc : mem v (cfg n x) = true) (Hk : link_ok F s v n)
    (Hf : fupd (nodes s) n (mkN (term x) (voted x) (rl x) (log x) (commit x)
                          (if mem v (votesFrom x) then votesFrom x else v :: votesFrom x) (matchIdx x)
                          (lf x) (base x) (noopi x)) nds') :
    kstep s (mkS nds' (net s) (grants s) (wins s) (llog s) (acks s) (direct s))
| K_client s n x c nds' lg'
    (Hn : lf x = Up) (Hx : nodes s n = x) (Hr : rl x = Leader) (Hg : client_ok F n x c = true)
    (Hf : fupd (nodes s) n (mkN (term x) (voted x) (rl x) (log x ++ [cent x c])
                          (commit x) (votesFrom x) (match_after x c) (lf x) (base x) (noopi x)) nds')
    (Hl : fupd (llog s) (term x) (log x ++ [cent x c]) lg') :
    kstep s (mkS nds' (net s) (grants s) (wins s) lg'
                 ((term x, n, length (log x ++ [cent x c])) :: acks s) (direct s))
| K_sendae s n x d p k
    (Hn : lf x = Up) (Hx : nodes s n = x) (Hr : rl x = Leader) (Hp : p < length (log x))
    (Hd : d <> n) (Hdc : In d (cfg n x)) :
    kstep s (mkS (nodes s)
                 (AppendEntries (term x) n d (S p) (eterm (nth p (log x) e0)) (firstn k (skipn (S p) (log x))) (commit x)
                    :: net s) (grants s) (wins s) (llog s) (acks s) (direct s))
| K_ae_fail s n x t l pi pt es lc nds'
    (Hn : lf x = Up) (Hx : nodes s n = x) (Hm : In (AppendEntries t l n pi pt es lc) (net s))
    (Hne : n <> l) (Ht : term x = t) (Hk : link_ok F s l n)
    (Hf : fupd (nodes s) n (mkN (term x) (voted x) Follower (log x) (commit x) (votesFrom x) (matchIdx x)
                                (lf x) (base x) (noopi x)) nds') :
    kstep s (mkS nds' (AppendReply t n false 0 :: net s) (grants s) (wins s) (llog s) (acks s) (direct s))
| K_ae_ok s n x t l p pt es lc pe nds'
    (Hn : lf x = Up) (Hx : nodes s n = x) (Hm : In (AppendEntries t l n (S p) pt es lc) (net s))
    (Hne : n <> l) (Ht : term x = t) (Hk : link_ok F s l n)
    (Hp : nth_error (log x) p = Some pe) (Hpt : eterm pe = pt)
    (Hf : fupd (nodes s) n (mkN (term x) (voted x) Follower
                          (firstn (S p) (log x) ++ merge (skipn (S p) (log x)) es)
                          (Nat.max (commit x) (Nat.min lc (S p + length es)))
                          (votesFrom x) (matchIdx x) (lf x) (base x) (noopi x)) nds') :
    kstep s (mkS nds' (AppendReply t n true (S p + length es) :: net s) (grants s) (wins s) (llog s)
                 ((t, n, S p + length es) :: acks s) (direct s))
| K_ar s n x f m nds'
    (Hn : lf x = Up) (Hx : nodes s n = x) (Hm : In (AppendReply (term x) f true m) (net s)) (Hr : rl x = Leader)
    (Hk : link_ok F s f n)
    (Hf : fupd (nodes s) n (mkN (term x) (voted x) (rl x) (log x) (commit x) (votesFrom x)
                          (upd (matchIdx x) f (Nat.max (matchIdx x f) m)) (lf x) (base x) (noopi x)) nds') :
    kstep s (mkS nds' (net s) (grants s) (wins s) (llog s) (acks s) (direct s))
| K_commit s n x p nds'
    (Hn : lf x = Up) (Hx : nodes s n = x) (Hr : rl x = Leader) (Hc : commit x <= p) (Hp : p < length (log x))
    (He : eterm (nth p (log x) e0) = term x)
    (Hmaj : majority_of (cfg n x) (length (commit_set n p x)) = true)
    (Hf : fupd (nodes s) n (mkN (term x) (voted x) (rl x) (log x) (S p) (votesFrom x) (matchIdx x)
                                (lf x) (base x) (noopi x)) nds') :
    kstep s (mkS nds' (net s) (grants s) (wins s) (llog s) (acks s) ((term x, p, cfg n x) :: direct s))
| K_stepdown s n x nds'
    (Hn : lf x = Up) (Hx : nodes s n = x) (Hr : rl x = Leader)
    (Hf : fupd (nodes s) n (mkN (term x) (voted x) Follower (log x) (commit x) (votesFrom x) (matchIdx x)
                                (lf x) (base x) (noopi x)) nds') :
    kstep s (mkS nds' (net s) (grants s) (wins s) (llog s) (acks s) (direct s))
| K_join s y x m nds'                       (* a node that never ran: still in its initial state *)
    (Hm : lf (nodes s m) = Up) (Hr : rl (nodes s m) = Leader) (Hx : nodes s y = x)
    (Hy : lf x = Fresh) (Hp : pristine x)
    (Hf : fupd (nodes s) y (mkN (term x) (voted x) (rl x) (log x) (commit x) (votesFrom x) (matchIdx x)
                                Up (join_base C0 F y m s) (noopi x)) nds') :
    kstep s (mkS nds' (net s) (grants s) (wins s) (llog s) ((0, y, 1) :: acks s) (direct s))
| K_rejoin s y x m nds'                     (* a re-used id: everything is forgotten *)
    (Hm : lf (nodes s m) = Up) (Hr : rl (nodes s m) = Leader) (Hx : nodes s y = x)
    (Hy : reuse F = true /\ lf x = Dead)
    (Hf : fupd (nodes s) y (mkN 0 None Follower [e0] 1 [] (fun _ => 0) Up (join_base C0 F y m s) 0) nds') :
    kstep s (mkS nds' (net s) (grants s) (wins s) (llog s) ((0, y, 1) :: acks s) (direct s))
| K_shutdown s n x nds'
    (Hn : lf x = Up) (Hx : nodes s n = x)
    (Hf : fupd (nodes s) n (mkN (term x) (voted x) (rl x) (log x) (commit x) (votesFrom x) (matchIdx x)
                                Dead (base x) (noopi x)) nds') :
    kstep s (mkS nds' (net s) (grants s) (wins s) (llog s) (acks s) (direct s)).

(* the history lists only grow *)
Lemma kstep_net s s' m : kstep s s' -> In m (net s) -> In m (net s').
Proof. intros K H. destruct K; simpl; auto. Qed.
Lemma kstep_grants s s' g : kstep s s' -> In g (grants s) -> In g (grants s').
Proof. intros K H. destruct K; simpl; auto. Qed.
Lemma kstep_wins s s' w : kstep s s' -> In w (wins s) -> In w (wins s').
Proof. intros K H. destruct K; simpl; auto. Qed.
Lemma kstep_acks s s' a : kstep s s' -> In a (acks s) -> In a (acks s').
Proof. intros K H. destruct K; simpl; auto. Qed.
Lemma kstep_direct s s' d : kstep s s' -> In d (direct s) -> In d (direct s').
Proof. intros K H. destruct K; simpl; auto. Qed.
Lemma kstep_won s s' T c : kstep s s' -> won s T c -> won s' T c.
Proof. intros K (Q & C & H). exists Q, C. eapply kstep_wins; eauto. Qed.

(* invariant 0: a node that was never started is in its initial state *)
Definition Inv0 (s : state) : Prop := forall n, lf (nodes s n) = Fresh -> pristine (nodes s n).

Lemma inv0_init : Inv0 (init C0).
Proof. intros n H. unfold init, init_node in *. simpl in *. destruct (mem n C0); [discriminate|reflexivity]. Qed.

Lemma inv0_kstep s s' : Inv0 s -> kstep s s' -> Inv0 s'.
Proof.
  intros I K j. pose proof (I j) as Ij.
  destruct K; subst x; sproj; auto; nc j; auto; intros H; try discriminate; try congruence.
Qed.

Inductive kreachable : state -> Prop :=
| kreach_init : kreachable (init C0)
| kreach_step s s' : kreachable s -> kstep s s' -> kreachable s'.

(* ---- every step is at most two ksteps ---- *)
Lemma lead_kstep s n :
  lf (nodes s n) = Up -> rl (nodes s n) = Candidate ->
  majority_of (cfg n (nodes s n)) (length (votesFrom (nodes s n))) = true ->
  kstep s (do_lead n s).
Proof.
  intros Hn Hr Hm. unfold do_lead.
  eapply (K_lead s n (nodes s n)); auto; apply fupd_upd.
Qed.

Lemma maybe_lead_kstep s n :
  lf (nodes s n) = Up -> rl (nodes s n) = Candidate -> maybe_lead n s = s \/ kstep s (maybe_lead n s).
Proof.
  intros Hn Hr. unfold maybe_lead.
  destruct (majority_of (cfg n (nodes s n)) (length (votesFrom (nodes s n)))) eqn:M; auto.
  right. apply lead_kstep; auto.
Qed.

Lemma fupd_upd2 {A} (f : nat -> A) n x y : fupd (upd f n x) n y (upd f n y).
Proof. intros j. unfold upd. destruct (j =? n); reflexivity. Qed.

Lemma adopt_kstep s n t : lf (nodes s n) = Up -> adopt n t s = s \/ kstep s (adopt n t s).
Proof.
  intros Hn. unfold adopt. destruct (Nat.ltb_spec (term (nodes s n)) t) as [Hlt|Hge]; auto.
  right. unfold set_node, bump. apply (K_adopt s n (nodes s n) t); auto. apply fupd_upd.
Qed.

Lemma adopt_term s n t : term (nodes s n) <= t -> term (nodes (adopt n t s) n) = t.
Proof.
  intros H. unfold adopt. destruct (Nat.ltb_spec (term (nodes s n)) t) as [Hlt|Hge].
  - simpl. rewrite upd_same. reflexivity.
  - lia.
Qed.

Lemma adopt_net s n t : net (adopt n t s) = net s.
Proof. unfold adopt. destruct (term (nodes s n) <? t); reflexivity. Qed.

Lemma adopt_lf s n t : lf (nodes (adopt n t s) n) = lf (nodes s n).
Proof. unfold adopt. destruct (term (nodes s n) <? t); auto. simpl. rewrite upd_same. reflexivity. Qed.

Definition ksteps2 (s s' : state) : Prop :=
  s' = s \/ kstep s s' \/ exists s1, kstep s s1 /\ kstep s1 s'.

Lemma ksteps2_after s s1 s' : (s1 = s \/ kstep s s1) -> kstep s1 s' -> ksteps2 s s'.
Proof. intros [->|K1] K2; [right; left; auto|right; right; eauto]. Qed.

Lemma ksteps2_before s s1 s' : kstep s s1 -> (s' = s1 \/ kstep s1 s') -> ksteps2 s s'.
Proof. intros K1 [->|K2]; [right; left; auto|right; right; eauto]. Qed.

Lemma adopt_link s n t a b : linked (adopt n t s) a b = linked s a b.
Proof.
  unfold adopt. destruct (term (nodes s n) <? t); auto.
  unfold linked, set_node, bump, others; simpl. unfold upd.
  destruct (Nat.eqb_spec a n) as [->|?], (Nat.eqb_spec b n) as [->|?]; reflexivity.
Qed.

Theorem step_ksteps s s' : Inv0 s -> step C0 F s s' -> ksteps2 s s'.
Proof.
  intros I0 (a & Hpre & ->). destruct a; simpl in Hpre |- *.
  - (* Timeout *)
    destruct Hpre as (Hn & Hr & Hg). unfold do_timeout.
    set (x := nodes s n).
    set (s1 := mkS _ _ _ _ _ _ _).
    assert (K1 : kstep s s1).
    { subst s1. apply (K_timeout s n x); auto. apply fupd_upd. }
    apply (ksteps2_before s s1); auto.
    apply maybe_lead_kstep; subst s1; simpl; rewrite upd_same; auto.
  - (* HandleRequestVote *)
    destruct Hpre as (Hn & Hm & Hk). unfold do_rv.
    pose proof (adopt_kstep s n t Hn) as K1.
    set (s1 := adopt n t s) in *. set (x := nodes s1 n).
    destruct (negb (is_leader (rl x)) && (term x <=? t) && up_to_date (log x) li lt && is_none (voted x)) eqn:C.
    + apply (ksteps2_after s s1); auto.
      apply andb_true_iff in C as [C C4]. apply andb_true_iff in C as [C C3].
      apply andb_true_iff in C as [C1 C2]. apply Nat.leb_le in C2.
      assert (Ht : term x = t).
      { subst x s1. unfold adopt in *. destruct (Nat.ltb_spec (term (nodes s n)) t) as [Hlt|Hge].
        - simpl. rewrite upd_same. reflexivity.
        - lia. }
      unfold do_grant. apply (K_grant s1 n x t c li lt); auto.
      * subst x s1. rewrite adopt_lf. exact Hn.
      * subst s1. rewrite adopt_net. exact Hm.
      * intros L. subst s1. rewrite adopt_link. auto.
      * fold x. destruct (rl x); simpl in C1; congruence.
      * destruct (voted x); simpl in C4; congruence.
      * apply fupd_upd.
    + destruct K1 as [->|K1]; [left; auto|right; left; auto].
  - (* HandleVote *)
    destruct Hpre as (Hn & Hm & Hk). unfold do_vote.
    destruct (is_cand (rl (nodes s n)) && (t =? term (nodes s n)) && mem v (cfg n (nodes s n))) eqn:C; [|left; auto].
    apply andb_true_iff in C as [C C3]. apply andb_true_iff in C as [C1 C2]. apply Nat.eqb_eq in C2. subst t.
    assert (Hr : rl (nodes s n) = Candidate) by (destruct (rl (nodes s n)); simpl in C1; congruence).
    set (s1 := set_node _ _ _).
    assert (K1 : kstep s s1).
    { subst s1. unfold set_node. apply (K_count s n (nodes s n) v); auto. apply fupd_upd. }
    apply (ksteps2_before s s1); auto.
    apply maybe_lead_kstep; subst s1; simpl; rewrite upd_same; simpl; auto.
  - (* ClientRequest *)
    destruct Hpre as (Hn & Hr & Hg). right. left. unfold do_client.
    apply (K_client s n (nodes s n) c); auto; apply fupd_upd.
  - (* SendAppendEntries *)
    destruct Hpre as (Hn & Hr & Hp & Hd & Hdc). right. left. unfold do_send_ae.
    apply (K_sendae s n (nodes s n) d p k); auto.
  - (* HandleAppendEntries *)
    destruct Hpre as (Hn & Hm & Hne & Ht & Hk). unfold do_ae.
    pose proof (adopt_kstep s n t Hn) as K1.
    pose proof (adopt_term s n t Ht) as T1.
    pose proof (adopt_net s n t) as N1.
    pose proof (adopt_lf s n t) as L1. rewrite Hn in L1.
    assert (Hk1 : link_ok F (adopt n t s) l n) by (intros L; rewrite adopt_link; auto).
    set (s1 := adopt n t s) in *.
    assert (KF : kstep s1 (ae_fail n t s1)).
    { unfold ae_fail. apply (K_ae_fail s1 n (nodes s1 n) t l pi pt es lc); auto.
      - rewrite N1; auto.
      - apply fupd_upd. }
    apply (ksteps2_after s s1); auto.
    destruct pi as [|p]; auto.
    destruct (nth_error (log (nodes s1 n)) p) as [pe|] eqn:Hp; auto.
    destruct (Nat.eqb_spec (eterm pe) pt) as [E|E]; auto.
    unfold ae_ok. apply (K_ae_ok s1 n (nodes s1 n) t l p pt es lc pe); auto.
    + rewrite N1; auto.
    + apply fupd_upd.
  - (* HandleAppendReply *)
    destruct Hpre as (Hn & Hm & Hk). unfold do_ar.
    destruct (is_leader (rl (nodes s n)) && (t =? term (nodes s n)) && ok) eqn:C; [|left; auto].
    apply andb_true_iff in C as [C C3]. apply andb_true_iff in C as [C1 C2].
    apply Nat.eqb_eq in C2. subst t ok. right. left. unfold set_node.
    apply (K_ar s n (nodes s n) f m); auto.
    + destruct (rl (nodes s n)); simpl in C1; congruence.
    + apply fupd_upd.
  - (* AdvanceCommit *)
    destruct Hpre as (Hn & Hr & Hc & Hp & He & Hmaj). right. left. unfold do_commit.
    apply (K_commit s n (nodes s n) p); auto. apply fupd_upd.
  - (* StepDown *)
    destruct Hpre as [Hn Hr]. right. left. unfold do_stepdown, set_node.
    apply (K_stepdown s n (nodes s n)); auto. apply fupd_upd.
  - (* Join *)
    destruct Hpre as (Hm & Hr & [Hy|Hy]); right; left; unfold do_join.
    + pose proof (I0 y Hy) as P. apply (K_join s y (nodes s y) m); auto.
      rewrite P at 1 2 3 4 5 6 7 8. simpl. apply fupd_upd.
    + apply (K_rejoin s y (nodes s y) m); auto. apply fupd_upd.
  - (* Shutdown *)
    right. left. unfold do_shutdown, set_node.
    apply (K_shutdown s n (nodes s n)); auto. apply fupd_upd.
Qed.

Lemma inv0_kreachable s : kreachable s -> Inv0 s.
Proof. induction 1; [apply inv0_init|eapply inv0_kstep; eauto]. Qed.

Theorem reachable_kreachable s : reachable C0 F s -> kreachable s.
Proof.
  induction 1 as [|s s' R IH St]; [constructor|].
  destruct (step_ksteps s s' (inv0_kreachable s IH) St) as [E|[K|(s1 & K1 & K2)]].
  - subst s'. exact IH.
  - apply (kreach_step s s'); auto.
  - apply (kreach_step s1 s'); auto. apply (kreach_step s s1); auto.
Qed.

Lemma kreachable_ind_inv (P : state -> Prop) :
  P (init C0) -> (forall s s', kreachable s -> P s -> kstep s s' -> P s') -> forall s, kreachable s -> P s.
Proof. intros H0 HS s R. induction R; eauto. Qed.

End K.
