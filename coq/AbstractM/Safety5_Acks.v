(* Invariant 5: acknowledgement soundness.
   A successful AppendReply (T, f, m) - recorded in the ghost list [acks] - means that f's log
   agreed with [llog T] up to m when the reply was produced, and it still does for as long as f
   stays in term T (a follower truncates only at a real conflict).  The leader of T has only
   recorded acknowledgements in its matchIdx table. *)
From Coq Require Import List Arith Lia Bool PeanoNat.
Import ListNotations.
Require Import PSO.AbstractM.Model PSO.AbstractM.Lib PSO.AbstractM.Kstep PSO.AbstractM.Cfg PSO.AbstractM.Safety1_WF
  PSO.AbstractM.Safety2_Election PSO.AbstractM.Safety3_LeaderLog PSO.AbstractM.Safety4_LogMatching.

Section S5.
Variable C0 : list nat.
Variable F : flags.
Hypothesis Hreuse : reuse F = false.

Ltac norejoin := try (match goal with Hy : reuse F = true /\ _ |- _ => destruct Hy; congruence end).

Record Inv5 (s : state) : Prop := {
  I5_reply : forall T f m, In (AppendReply T f true m) (net s) -> In (T, f, m) (acks s);
  I5_ack : forall T f m, In (T, f, m) (acks s) ->
     T <= term (nodes s f) /\ m <= length (llog s T) /\
     (term (nodes s f) = T ->
        m <= length (log (nodes s f)) /\ firstn m (log (nodes s f)) = firstn m (llog s T));
  I5_match : forall L f, rl (nodes s L) = Leader ->
     matchIdx (nodes s L) f = 0 \/ In (term (nodes s L), f, matchIdx (nodes s L) f) (acks s);
  I5_self : forall L, rl (nodes s L) = Leader -> In (term (nodes s L), L, length (log (nodes s L))) (acks s)
}.

Lemma inv5_init : Inv5 (init C0).
Proof.
  constructor; simpl; try (intros; contradiction); try (intros; discriminate).
  - intros T f m H. apply in_map_iff in H as [v [E Hv]]. injection E as <- <- <-. simpl.
    repeat split; auto.
Qed.

Lemma inv5_ack_kstep s s' :
  Inv1 s -> Inv2 s -> Inv3 s -> Inv4 s -> Inv5 s -> LF s -> kstep C0 F s s' ->
  forall T f m, In (T, f, m) (acks s') ->
     T <= term (nodes s' f) /\ m <= length (llog s' T) /\
     (term (nodes s' f) = T ->
        m <= length (log (nodes s' f)) /\ firstn m (log (nodes s' f)) = firstn m (llog s' T)).
Proof.
  intros I1 I2 I3 I4 I5 LFs K T f m H.
  pose proof (I5_ack _ I5) as IA.
  destruct K; subst x; sproj.
  - (* timeout *)
    destruct (IA _ _ _ H) as (A & B & D). nc f; auto. repeat split; auto; lia.
  - (* lead *)
    pose proof (llog_fresh s n I1 I2 I3 LFs Hr Hmaj) as Fr.
    destruct H as [H|H].
    + injection H as <- <- <-. rewrite (Hf n), (Hl (term (nodes s n))), !Nat.eqb_refl. sproj.
      repeat split; auto.
    + destruct (IA _ _ _ H) as (A & B & D).
      rewrite (Hl T). destruct (Nat.eqb_spec T (term (nodes s n))) as [->|N].
      * rewrite Fr in B. simpl in B. assert (m = 0) by lia. subst m.
        repeat split; auto; try lia. nc f; auto.
      * nc f; auto. repeat split; auto; congruence.
  - (* adopt *)
    destruct (IA _ _ _ H) as (A & B & D). nc f; auto. repeat split; auto; lia.
  - destruct (IA _ _ _ H) as (A & B & D). nc f; auto.
  - destruct (IA _ _ _ H) as (A & B & D). nc f; auto.
  - (* client *)
    destruct H as [H|H].
    + injection H as <- <- <-. rewrite (Hf n), (Hl (term (nodes s n))), !Nat.eqb_refl. sproj.
      repeat split; auto.
    + destruct (IA _ _ _ H) as (A & B & D).
      rewrite (Hl T). destruct (Nat.eqb_spec T (term (nodes s n))) as [->|N].
      * destruct (I2_leader _ I2 n Hr) as (Q & Cq & W).
        pose proof (I3_wlog _ I3 _ _ _ _ W eq_refl) as E. rewrite <- E in *.
        nc f.
        -- repeat split; auto; rewrite app_length; lia.
        -- repeat split; auto; try (rewrite app_length; lia).
           ++ apply D; auto.
           ++ rewrite firstn_app_le by lia. apply D; auto.
      * nc f; auto. repeat split; auto; congruence.
  - (* sendae *)
    destruct (IA _ _ _ H) as (A & B & D). auto.
  - destruct (IA _ _ _ H) as (A & B & D). nc f; auto.
  - (* ae_ok *)
    destruct (ae_ok_facts s n t l n p pt es lc pe I3 I4 Hm Hp Hpt) as (F1 & F2 & F3 & F4).
    destruct H as [H|H].
    + injection H as <- <- <-. rewrite (Hf n), Nat.eqb_refl. sproj.
      destruct (ae_result _ _ p es F1 F2 F3 F4) as [Hk' _].
      destruct (ae_result_prefix _ _ p es F1 F2 F3 F4) as [G1 G2].
      repeat split; auto; try lia.
    + destruct (IA _ _ _ H) as (A & B & D). nc f; auto.
      split; [auto|]. split; [auto|].
      intros E. specialize (D E) as [D1 D2]. subst T. subst t.
      apply (ae_result_keeps _ _ p es m F1 F2 F3 F4 D1 D2).
  - destruct (IA _ _ _ H) as (A & B & D). nc f; auto.
  - destruct (IA _ _ _ H) as (A & B & D). nc f; auto.
  - destruct (IA _ _ _ H) as (A & B & D). nc f; auto.
  - (* join *)
    destruct H as [H|H].
    + injection H as <- <- <-. rewrite (Hf y), Nat.eqb_refl. sproj. rewrite (I3_l0 _ I3).
      rewrite Hp. simpl. repeat split; auto.
    + destruct (IA _ _ _ H) as (A & B & D). nc f; auto.
  - norejoin.
  - destruct (IA _ _ _ H) as (A & B & D). nc f; auto.
Qed.

Lemma inv5_kstep s s' :
  Inv1 s -> Inv2 s -> Inv3 s -> Inv4 s -> Inv5 s -> LF s -> kstep C0 F s s' -> Inv5 s'.
Proof.
  intros I1 I2 I3 I4 I5 LFs K. constructor.
  - (* replies *)
    intros T f m H. pose proof (I5_reply _ I5 T f m) as IR.
    destruct K; subst x; sproj; try (simpl; auto; fail); destruct H as [H|H]; try discriminate; simpl; auto.
    injection H as <- <- <-. auto.
  - apply (inv5_ack_kstep s s'); auto.
  - (* matchIdx *)
    intros L f HL.
    assert (Old : rl (nodes s L) = Leader ->
                  matchIdx (nodes s L) f = 0 \/ In (term (nodes s L), f, matchIdx (nodes s L) f) (acks s')).
    { intros R. destruct (I5_match _ I5 L f R); auto. right. eapply kstep_acks; eauto. }
    destruct K; subst x; sproj; auto; revert HL Old; nc L; intros HL Old; auto; try discriminate; norejoin.
    + (* client: a newly added node starts at 0 *)
      destruct c as [k|y|y]; simpl; auto. unfold upd. destruct (f =? y); auto.
    + (* K_ar *)
      unfold upd. destruct (Nat.eqb_spec f f0) as [->|N]; auto.
      destruct (Nat.max_spec (matchIdx (nodes s n) f0) m) as [[_ ->]|[_ ->]]; auto.
      right. apply (I5_reply _ I5). auto.
  - (* self *)
    intros L HL.
    assert (Old : rl (nodes s L) = Leader -> In (term (nodes s L), L, length (log (nodes s L))) (acks s')).
    { intros R. eapply kstep_acks; eauto. apply (I5_self _ I5); auto. }
    destruct K; subst x; sproj; auto; revert HL Old; nc L; intros HL Old; auto; try discriminate;
      norejoin; simpl; auto.
Qed.

End S5.
