(* Summary of AbstractM (abstract Raft in the shape of PySyncObj WITH single-server membership
   change): every headline theorem restated in full, proved by [exact], followed by its
   [Print Assumptions].
   [reachable C0 F s]: s is reachable from [init C0] by [step C0 F] (Model.v); [C0] = the initial
   members, [F] = the switches.  [disciplined F]: guard (a) on, joiner replays over the initial
   list, no election before membership by own log, ids never re-used.  The refutations are for
   the rules as coded ([coded], [coded_links]) and for the rules without guard (a). *)
From Coq Require Import List Arith.
Import ListNotations.
Require Import PSO.AbstractM.Model PSO.AbstractM.Kstep PSO.AbstractM.Cfg
  PSO.AbstractM.Safety1_WF PSO.AbstractM.Safety6_LC PSO.AbstractM.Safety7_SM
  PSO.AbstractM.SafetyAll PSO.AbstractM.Theorems PSO.AbstractM.Examples PSO.AbstractM.Replay.

(* ---------- the core lemma: majorities of member sets that differ by one node meet ---------- *)
Theorem M0_single_change_majorities_intersect : forall A B Q1 Q2 : list nat,
  NoDup A -> NoDup B ->
  ((incl A B /\ length B <= S (length A)) \/ (incl B A /\ length A <= S (length B))) ->
  NoDup Q1 -> NoDup Q2 -> incl Q1 A -> incl Q2 B ->
  length A < 2 * length Q1 -> length B < 2 * length Q2 -> exists x, In x Q1 /\ In x Q2.
Proof. exact adj_meet. Qed.
Print Assumptions M0_single_change_majorities_intersect.

Theorem M0_one_entry_changes_one_member : forall (o : list nat) (c : cmd), NoDup o ->
  (incl o (gapp o c) /\ length (gapp o c) <= S (length o)) \/
  (incl (gapp o c) o /\ length o <= S (length (gapp o c))).
Proof. exact adj_gapp. Qed.
Print Assumptions M0_one_entry_changes_one_member.

(* ---------- Election Safety ---------- *)
Theorem M2_election_safety : forall C0 F, disciplined F -> NoDup C0 -> C0 <> [] ->
  forall s t c c' Q Q' C C',
  reachable C0 F s -> In (t, c, Q, C) (wins s) -> In (t, c', Q', C') (wins s) -> c = c'.
Proof. exact election_safety. Qed.
Print Assumptions M2_election_safety.

Theorem M2_one_leader_per_term : forall C0 F, disciplined F -> NoDup C0 -> C0 <> [] ->
  forall s a b,
  reachable C0 F s -> rl (nodes s a) = Leader -> rl (nodes s b) = Leader ->
  term (nodes s a) = term (nodes s b) -> a = b.
Proof. exact one_leader_per_term. Qed.
Print Assumptions M2_one_leader_per_term.

Theorem M2_win_by_majority_of_own_member_set : forall C0 F, disciplined F -> NoDup C0 -> C0 <> [] ->
  forall s t c Q C,
  reachable C0 F s -> In (t, c, Q, C) (wins s) ->
  NoDup Q /\ incl Q C /\ length C < 2 * length Q /\
  exists m, seteq C (gcfg C0 (firstn m (llog s t))).
Proof. exact win_by_majority_of_own_cfg. Qed.
Print Assumptions M2_win_by_majority_of_own_member_set.

(* ---------- Leader Append-Only ---------- *)
Theorem M3_leader_append_only : forall C0 F, disciplined F -> NoDup C0 -> C0 <> [] ->
  forall s s' j,
  reachable C0 F s -> step C0 F s s' ->
  rl (nodes s j) = Leader -> rl (nodes s' j) = Leader -> term (nodes s' j) = term (nodes s j) ->
  exists r, log (nodes s' j) = log (nodes s j) ++ r.
Proof. exact leader_append_only. Qed.
Print Assumptions M3_leader_append_only.

Theorem M3_entry_from_leader : forall C0 F, disciplined F -> NoDup C0 -> C0 <> [] ->
  forall s j p e,
  reachable C0 F s -> nth_error (log (nodes s j)) p = Some e -> nth_error (llog s (eterm e)) p = Some e.
Proof. exact entry_from_leader. Qed.
Print Assumptions M3_entry_from_leader.

(* ---------- Log Matching ---------- *)
Theorem M4_log_matching : forall C0 F, disciplined F -> NoDup C0 -> C0 <> [] ->
  forall s a b p e e',
  reachable C0 F s ->
  nth_error (log (nodes s a)) p = Some e -> nth_error (log (nodes s b)) p = Some e' -> eterm e = eterm e' ->
  firstn (S p) (log (nodes s a)) = firstn (S p) (log (nodes s b)).
Proof. exact log_matching. Qed.
Print Assumptions M4_log_matching.

(* ---------- Leader Completeness ---------- *)
Theorem M6_leader_completeness : forall C0 F, disciplined F -> NoDup C0 -> C0 <> [] ->
  forall s T p Cd T' c Q Cw,
  reachable C0 F s -> In (T, p, Cd) (direct s) -> In (T', c, Q, Cw) (wins s) -> T < T' ->
  exists e, nth_error (llog s T) p = Some e /\ eterm e = T /\ nth_error (llog s T') p = Some e /\
            firstn (S p) (llog s T') = firstn (S p) (llog s T).
Proof. exact leader_completeness. Qed.
Print Assumptions M6_leader_completeness.

Theorem M6_leader_completeness_current : forall C0 F, disciplined F -> NoDup C0 -> C0 <> [] ->
  forall s T p Cd L,
  reachable C0 F s -> In (T, p, Cd) (direct s) -> rl (nodes s L) = Leader -> T < term (nodes s L) ->
  exists e, nth_error (llog s T) p = Some e /\ eterm e = T /\ nth_error (log (nodes s L)) p = Some e.
Proof. exact leader_completeness_current. Qed.
Print Assumptions M6_leader_completeness_current.

Theorem M6_direct_by_majority_of_own_member_set : forall C0 F, disciplined F -> NoDup C0 -> C0 <> [] ->
  forall s T p Cd,
  reachable C0 F s -> In (T, p, Cd) (direct s) ->
  hasT (llog s T) T p /\
  (exists Q, NoDup Q /\ incl Q Cd /\ length Cd < 2 * length Q /\ forall f, In f Q -> acked s T f p) /\
  exists m, p < m /\ m <= length (llog s T) /\ seteq Cd (gcfg C0 (firstn m (llog s T))).
Proof. exact direct_by_majority_of_own_cfg. Qed.
Print Assumptions M6_direct_by_majority_of_own_member_set.

(* ---------- State Machine Safety; committed entries never change ---------- *)
Theorem M7_state_machine_safety : forall C0 F, disciplined F -> NoDup C0 -> C0 <> [] ->
  forall s a b i,
  reachable C0 F s -> 1 <= i -> i <= commit (nodes s a) -> i <= commit (nodes s b) ->
  exists e, nth_error (log (nodes s a)) (i - 1) = Some e /\ nth_error (log (nodes s b)) (i - 1) = Some e /\
            eidx e = i.
Proof. exact state_machine_safety_idx. Qed.
Print Assumptions M7_state_machine_safety.

Theorem M7_commit_within_log : forall C0 F, disciplined F -> NoDup C0 -> C0 <> [] ->
  forall s j, reachable C0 F s -> commit (nodes s j) <= length (log (nodes s j)).
Proof. exact commit_le_length. Qed.
Print Assumptions M7_commit_within_log.

Theorem M7_committed_never_change : forall C0 F, disciplined F -> NoDup C0 -> C0 <> [] ->
  forall s s' j i,
  reachable C0 F s -> steps C0 F s s' -> i < commit (nodes s j) ->
  commit (nodes s j) <= commit (nodes s' j) /\
  nth_error (log (nodes s' j)) i = nth_error (log (nodes s j)) i.
Proof. exact committed_never_change. Qed.
Print Assumptions M7_committed_never_change.

(* ---------- the member sets ---------- *)
Theorem M8_member_table_is_function_of_log : forall C0 F, disciplined F -> NoDup C0 -> C0 <> [] ->
  forall s n, reachable C0 F s -> cfg n (nodes s n) = n :: del n (gcfg C0 (log (nodes s n))).
Proof. exact cfg_is_global. Qed.
Print Assumptions M8_member_table_is_function_of_log.

Theorem M8_decider_is_member : forall C0 F, disciplined F -> NoDup C0 -> C0 <> [] ->
  forall s n, reachable C0 F s -> rl (nodes s n) <> Follower -> In n (gcfg C0 (log (nodes s n))).
Proof. exact decider_is_member. Qed.
Print Assumptions M8_decider_is_member.

(* ---------- the same for the finer-grained system kstep (the refinement target) ---------- *)
Theorem MK_reachable_kreachable : forall C0 F s, reachable C0 F s -> kreachable C0 F s.
Proof. exact reachable_kreachable. Qed.
Print Assumptions MK_reachable_kreachable.

Theorem MK_election_safety : forall C0 F, disciplined F -> NoDup C0 -> C0 <> [] ->
  forall s t c c' Q Q' C C',
  kreachable C0 F s -> In (t, c, Q, C) (wins s) -> In (t, c', Q', C') (wins s) -> c = c'.
Proof. exact k_election_safety. Qed.
Print Assumptions MK_election_safety.

Theorem MK_leader_completeness : forall C0 F, disciplined F -> NoDup C0 -> C0 <> [] ->
  forall s T p Cd T' c Q Cw,
  kreachable C0 F s -> In (T, p, Cd) (direct s) -> In (T', c, Q, Cw) (wins s) -> T < T' -> hasT (llog s T') T p.
Proof. exact k_leader_completeness. Qed.
Print Assumptions MK_leader_completeness.

Theorem MK_state_machine_safety : forall C0 F, disciplined F -> NoDup C0 -> C0 <> [] ->
  forall s a b i,
  kreachable C0 F s -> i < commit (nodes s a) -> i < commit (nodes s b) ->
  nth_error (log (nodes s a)) i = nth_error (log (nodes s b)) i /\ i < length (log (nodes s a)).
Proof. exact k_state_machine_safety. Qed.
Print Assumptions MK_state_machine_safety.

Theorem MK_commit_stable : forall C0 F, disciplined F -> NoDup C0 -> C0 <> [] ->
  forall s s' j, kreachable C0 F s -> kstep C0 F s s' -> stable s s' j.
Proof. exact k_commit_stable. Qed.
Print Assumptions MK_commit_stable.

(* ---------- refutations (vm_compute-checked runs, Examples.v) ---------- *)
Definition sms_violated (C0 : list nat) (F : flags) : Prop :=
  exists s a b i, reachable C0 F s /\ alive s a /\ alive s b /\
    i < commit (nodes s a) /\ i < commit (nodes s b) /\
    nth_error (log (nodes s a)) i <> nth_error (log (nodes s b)) i.

(* Ongaro 2015: without guard (a) single-server change is unsafe *)
Theorem R1_C10_without_noop_gate_refuted : sms_violated [0; 1; 2; 3] (mkF false false false true false).
Proof. exact C10_without_noop_gate_refuted. Qed.
Print Assumptions R1_C10_without_noop_gate_refuted.

(* the rules as coded, transport member filter ON, joiner gets the CURRENT member list, a removed
   id is added again as a fresh node: a committed entry is lost (KF-C10-1) *)
Theorem R2_C10_as_coded_with_id_reuse_refuted : sms_violated [0; 1; 2; 3; 4] (mkF true false false true true).
Proof. exact C10_as_coded_with_id_reuse_refuted. Qed.
Print Assumptions R2_C10_as_coded_with_id_reuse_refuted.

(* the Raft layer alone (member filter off) is unsafe already with 3+1 nodes *)
Theorem R3_C10_without_member_filter_refuted : sms_violated [0; 1; 2] (mkF true false false true false).
Proof. exact C10_without_member_filter_refuted. Qed.
Print Assumptions R3_C10_without_member_filter_refuted.

(* ---------- non-vacuity: a disciplined run with an add and a remove committed, then a new leader ---------- *)
Example M_nonvacuous :
  let s := run V3 strictF runS (init V3) in
  disciplined strictF /\ reachable V3 strictF s /\ NoDup V3 /\ V3 <> [] /\
  In (1, 3, [0; 3; 1]) (direct s) /\ In (2, 3, [1; 3], [3; 0; 1]) (wins s) /\ 1 < 2 /\
  commit (nodes s 0) = 4 /\ commit (nodes s 3) = 5 /\ rl (nodes s 3) = Leader /\
  gcfg V3 (log (nodes s 3)) = [3; 0; 1].
Proof.
  split; [repeat split; reflexivity|]. split; [exact runS_reachable|].
  split; [repeat constructor; simpl; intuition discriminate|].
  split; [discriminate|]. vm_compute. repeat split; auto.
Qed.
Print Assumptions M_nonvacuous.

(* the rules as coded, guards and member filter on, NO id re-use: the operator reads the member
   list while a change is pending (run E) *)
Theorem R4_C10_as_coded_list_read_during_change_refuted : sms_violated [0; 1; 2] (mkF true false false false true).
Proof. exact C10_as_coded_list_read_during_change_refuted. Qed.
Print Assumptions R4_C10_as_coded_list_read_during_change_refuted.

(* ---------- the as-coded joiner: a COMPLETE replay over the list of a log prefix is consistent ---------- *)
Theorem M9_joiner_replay_consistent : forall C0 lK r y x,
  In x (others_of y (del y (gcfg C0 lK)) (lK ++ r)) <-> In x (del y (gcfg C0 (lK ++ r))).
Proof. exact joiner_replay_consistent. Qed.
Print Assumptions M9_joiner_replay_consistent.
