(* List lemmas used by the abstract Raft safety proof. *)
From Coq Require Import List Arith Lia Bool PeanoNat.
Import ListNotations.
Require Import PSO.AbstractM.Model.

(* ---------- firstn / skipn / nth_error ---------- *)
Lemma nth_error_firstn_lt {A} (l : list A) k p : p < k -> nth_error (firstn k l) p = nth_error l p.
Proof.
  revert k p; induction l as [|h t IH]; intros [|k] [|p] H; simpl; auto; try lia.
  apply IH; lia.
Qed.

Lemma nth_error_firstn_ge {A} (l : list A) k p : k <= p -> nth_error (firstn k l) p = None.
Proof.
  intros H. apply nth_error_None. rewrite firstn_length. lia.
Qed.

Lemma nth_error_firstn_some {A} (l : list A) k p e :
  nth_error (firstn k l) p = Some e -> p < k /\ nth_error l p = Some e.
Proof.
  intros H. destruct (Nat.lt_ge_cases p k) as [L|L].
  - split; auto. rewrite nth_error_firstn_lt in H; auto.
  - rewrite nth_error_firstn_ge in H; auto. discriminate.
Qed.

Lemma nth_error_skipn {A} (l : list A) k p : nth_error (skipn k l) p = nth_error l (k + p).
Proof.
  revert l; induction k as [|k IH]; intros [|h t]; simpl; auto.
  destruct p; auto.
Qed.

Lemma firstn_app_le {A} (l r : list A) k : k <= length l -> firstn k (l ++ r) = firstn k l.
Proof.
  intros H. rewrite firstn_app. replace (k - length l) with 0 by lia. simpl. apply app_nil_r.
Qed.

Lemma firstn_le_eq {A} (l1 l2 : list A) i j : i <= j -> firstn j l1 = firstn j l2 -> firstn i l1 = firstn i l2.
Proof.
  intros H E. assert (X : firstn i (firstn j l1) = firstn i (firstn j l2)) by (rewrite E; auto).
  rewrite !firstn_firstn in X. replace (Nat.min i j) with i in X by lia. exact X.
Qed.

Lemma firstn_add {A} (l : list A) a b : firstn (a + b) l = firstn a l ++ firstn b (skipn a l).
Proof.
  revert l; induction a as [|a IH]; intros l; simpl; auto.
  destruct l as [|h t]; simpl.
  - rewrite firstn_nil. reflexivity.
  - f_equal. apply IH.
Qed.

Lemma firstn_S_snoc {A} (l : list A) p e : nth_error l p = Some e -> firstn (S p) l = firstn p l ++ [e].
Proof.
  revert p; induction l as [|h t IH]; intros [|p] H; simpl in *; try discriminate.
  - injection H as ->. reflexivity.
  - f_equal. apply IH; auto.
Qed.

Lemma firstn_eq_nth {A} (l1 l2 : list A) k p : firstn k l1 = firstn k l2 -> p < k -> nth_error l1 p = nth_error l2 p.
Proof.
  intros E H. rewrite <- (nth_error_firstn_lt l1 k p H), <- (nth_error_firstn_lt l2 k p H), E. reflexivity.
Qed.

Lemma firstn_eq_length {A} (l1 l2 : list A) k : firstn k l1 = firstn k l2 -> k <= length l1 -> k <= length l2.
Proof.
  intros E H. assert (X : length (firstn k l1) = length (firstn k l2)) by (rewrite E; auto).
  rewrite !firstn_length in X. lia.
Qed.

Lemma nth_error_app_last {A} (l : list A) e : nth_error (l ++ [e]) (length l) = Some e.
Proof. rewrite nth_error_app2 by lia. rewrite Nat.sub_diag. reflexivity. Qed.

Lemma nth_error_snoc_cases {A} (l : list A) x p e :
  nth_error (l ++ [x]) p = Some e -> (p < length l /\ nth_error l p = Some e) \/ (p = length l /\ e = x).
Proof.
  intros H. destruct (Nat.lt_ge_cases p (length l)) as [L|L].
  - left. rewrite nth_error_app1 in H; auto.
  - right. rewrite nth_error_app2 in H; auto.
    destruct (p - length l) as [|d] eqn:D.
    + simpl in H. injection H as <-. split; auto. lia.
    + simpl in H. destruct d; discriminate.
Qed.

Lemma nth_error_last {A} (l : list A) d : l <> [] -> nth_error l (length l - 1) = Some (last l d).
Proof.
  induction l as [|h t IH]; intros H; [congruence|].
  destruct t as [|h' t'].
  - reflexivity.
  - assert (IH' : nth_error (h' :: t') (length (h' :: t') - 1) = Some (last (h' :: t') d))
      by (apply IH; congruence).
    replace (length (h :: h' :: t') - 1) with (S (length (h' :: t') - 1)) by (simpl; lia).
    exact IH'.
Qed.

Lemma nth_nth_error {A} (l : list A) p d : p < length l -> nth_error l p = Some (nth p l d).
Proof. intros H. apply nth_error_nth'. exact H. Qed.

Lemma nth_error_ext {A} (a b : list A) : (forall i, nth_error a i = nth_error b i) -> a = b.
Proof.
  revert b; induction a as [|x a IH]; intros [|y b] H; auto.
  - specialize (H 0). discriminate.
  - specialize (H 0). discriminate.
  - pose proof (H 0) as H0. simpl in H0. injection H0 as ->. f_equal. apply IH. intros i. apply (H (S i)).
Qed.

Lemma firstn_skipn_length {A} (l : list A) k : k <= length l -> length l = k + length (skipn k l).
Proof. intros H. rewrite skipn_length. lia. Qed.

(* ---------- upd ---------- *)
Lemma upd_same {A} (f : nat -> A) n x : upd f n x n = x.
Proof. unfold upd. rewrite Nat.eqb_refl. reflexivity. Qed.
Lemma upd_other {A} (f : nat -> A) n x m : m <> n -> upd f n x m = f m.
Proof. unfold upd. intros H. destruct (Nat.eqb_spec m n); congruence. Qed.

(* ---------- quorum intersection ---------- *)
Lemma quorum_meet (U A B : list nat) :
  NoDup A -> NoDup B -> incl A U -> incl B U -> length U < length A + length B ->
  exists x, In x A /\ In x B.
Proof.
  intros NA NB HA HB L.
  destruct (existsb (fun a => mem a B) A) eqn:E.
  - apply existsb_exists in E as [x [Hx Hm]]. exists x. split; auto.
    unfold mem in Hm. apply existsb_exists in Hm as [y [Hy E]]. apply Nat.eqb_eq in E. subst; auto.
  - exfalso.
    assert (D : forall x, In x A -> In x B -> False).
    { intros x Hx Hb. assert (existsb (fun a => mem a B) A = true); [|congruence].
      apply existsb_exists. exists x. split; auto. unfold mem. apply existsb_exists.
      exists x. split; auto. apply Nat.eqb_refl. }
    assert (ND : NoDup (A ++ B)).
    { clear HA HB L E. induction A as [|a A IH]; simpl; auto. inversion NA; subst. constructor.
      - intros H. apply in_app_or in H as [H|H]; auto. apply (D a); simpl; auto.
      - apply IH; auto. intros x Hx; apply D; simpl; auto. }
    assert (HI : incl (A ++ B) U).
    { intros x Hx. apply in_app_or in Hx as [Hx|Hx]; auto. }
    apply NoDup_incl_length in HI; auto. rewrite app_length in HI. lia.
Qed.

(* ---------- merge ---------- *)
Lemma merge_nth old new j e :
  nth_error (merge old new) j = Some e -> nth_error old j = Some e \/ nth_error new j = Some e.
Proof.
  revert old j; induction new as [|n new' IH]; intros old j H; simpl in H; auto.
  destruct old as [|o old']; auto.
  destruct (eterm o =? eterm n); auto.
  destruct j as [|j]; simpl in *; auto.
Qed.

Lemma merge_length old new : length new <= length (merge old new).
Proof.
  revert old; induction new as [|n new' IH]; intros old; simpl; try lia.
  destruct old as [|o old']; simpl; auto.
  destruct (eterm o =? eterm n); simpl; auto. specialize (IH old'). lia.
Qed.

(* if entries with the same term at the same offset are equal, the merge is one of its arguments *)
Lemma merge_cases old new :
  (forall j e e', nth_error old j = Some e -> nth_error new j = Some e' -> eterm e = eterm e' -> e = e') ->
  (exists r, old = new ++ r /\ merge old new = old) \/
  (merge old new = new /\ ~ exists r, old = new ++ r).
Proof.
  revert old; induction new as [|n new' IH]; intros old H; simpl.
  - left. exists old. auto.
  - destruct old as [|o old'].
    + right. split; auto. intros [r E]. discriminate.
    + destruct (Nat.eqb_spec (eterm o) (eterm n)) as [E|E].
      * assert (o = n) by (apply (H 0); simpl; auto). subst o.
        destruct (IH old') as [[r [E1 E2]]|[E1 E2]].
        { intros j e e' A B C. apply (H (S j)); auto. }
        -- left. exists r. subst old'. split; auto. rewrite E2 at 1. reflexivity.
        -- right. split; [rewrite E1; auto|]. intros [r Er]. injection Er as Er. apply E2. exists r; auto.
      * right. split; auto. intros [r Er]. injection Er as -> _. congruence.
Qed.

(* keep firstn / skipn folded in the proofs that follow *)
Global Arguments firstn : simpl never.
Global Arguments skipn : simpl never.
