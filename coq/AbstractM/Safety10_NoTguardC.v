(* AbstractM without [tguard], part C: a premature candidate cannot win.

   [NW_holds]: in a state of the invariant chain, a candidate that has counted a majority of its own
   member table is a member by its own log.  By [Pj] a candidate is a member by its log or a pure
   joiner y (no [CAdd y] in its log Ly, y not an initial member).  A pure joiner with a majority is
   impossible:
     - Ly = [e0]: every voter v <> y granted over a link, so v's log held a [CAdd y] ([J]); such a log is
       longer than [e0] and not older: v refused.  y has only its own vote; its table has >= 2 nodes.
     - otherwise Ly is a prefix of a leader log L4 that makes y a member further on ([Hy]: entries reach
       y only from leaders that have y in their table, [Hae]).  Let r2 be the first membership entry of
       L4 behind Ly, T5 its term.  Guards (a)/(b) ([IG3_cfg]) give a direct commit (T5,p) decided with
       EXACTLY the member set G(Ly) (no membership entry between the decision and r2).  A voter q of y
       that is in the committing quorum acked (T5,p); then Ly holds (T5,p) (I6_cand + Leader
       Completeness), so T5 is the last term of Ly; by [J] q's log at the grant was a prefix of a
       leader log of a term Tv <= T5 that knows y: Tv = T5 contradicts "no CAdd y in Ly", Tv < T5
       contradicts "q acked (T5,p) before it granted".  So the voters of y (without y) and the quorum
       are disjoint subsets of G(Ly): too few votes for a majority of y :: G(Ly).
   New invariants: [Pj] (candidates), [J] (what a grant over a link records), [Hae] (AppendEntries go to
   members of a prefix of the leader log), [Hy] (where a node's log comes from). *)
From Coq Require Import List Arith Lia Bool PeanoNat.
Import ListNotations.
Require Import PSO.AbstractM.Model PSO.AbstractM.Lib PSO.AbstractM.Kstep PSO.AbstractM.Cfg
  PSO.AbstractM.Safety0_Base PSO.AbstractM.Safety1_WF
  PSO.AbstractM.Safety2_Election PSO.AbstractM.Safety3_LeaderLog PSO.AbstractM.Safety4_LogMatching
  PSO.AbstractM.Safety5_Acks PSO.AbstractM.Safety6_LC PSO.AbstractM.Safety7_SM PSO.AbstractM.Safety8_Gate
  PSO.AbstractM.Safety10_NoTguardA.

(* ---- searching a decidable predicate in an interval ---- *)
Lemma first_in (P : nat -> Prop) (dec : forall r, {P r} + {~ P r}) a k :
  (exists r, a <= r < k /\ P r /\ forall r', a <= r' < r -> ~ P r') \/ (forall r', a <= r' < k -> ~ P r').
Proof.
  induction k as [|k IH].
  - right. intros r' H. lia.
  - destruct IH as [(r & A & B & C)|N].
    + left. exists r. split; [lia|]. auto.
    + destruct (le_lt_dec a k) as [Lk|Lk].
      * destruct (dec k) as [Pk|NPk].
        -- left. exists k. split; [lia|]. split; auto.
        -- right. intros r' H. destruct (Nat.eq_dec r' k) as [->|Ne]; auto. apply N. lia.
      * right. intros r' H. lia.
Qed.

Lemma last_in (P : nat -> Prop) (dec : forall r, {P r} + {~ P r}) a k :
  (exists r, a <= r < k /\ P r /\ forall r', r < r' < k -> ~ P r') \/ (forall r', a <= r' < k -> ~ P r').
Proof.
  induction k as [|k IH].
  - right. intros r' H. lia.
  - destruct (le_lt_dec a k) as [Lk|Lk].
    + destruct (dec k) as [Pk|NPk].
      * left. exists k. split; [lia|]. split; auto. intros r' H. lia.
      * destruct IH as [(r & A & B & C)|N].
        -- left. exists r. split; [lia|]. split; auto. intros r' H.
           destruct (Nat.eq_dec r' k) as [->|Ne]; auto. apply C. lia.
        -- right. intros r' H. destruct (Nat.eq_dec r' k) as [->|Ne]; auto. apply N. lia.
    + right. intros r' H. lia.
Qed.

Lemma cfgpos_dec L r : {cfgpos L r} + {~ cfgpos L r}.
Proof.
  unfold cfgpos. destruct (nth_error L r) as [e|] eqn:E.
  - destruct (is_cfg (ecmd e)) eqn:C.
    + left. exists e. auto.
    + right. intros (e' & H & H'). injection H as <-. congruence.
  - right. intros (e' & H & _). discriminate.
Qed.

Lemma firstn_S_none {A} (l : list A) k : nth_error l k = None -> firstn (S k) l = firstn k l.
Proof.
  intros H. apply nth_error_None in H. rewrite !firstn_all2; auto; lia.
Qed.

Lemma no_cfg_same C0 L a k :
  a <= k -> (forall r, a <= r < k -> ~ cfgpos L r) -> gcfg C0 (firstn k L) = gcfg C0 (firstn a L).
Proof.
  induction k as [|k IH]; intros Lak N.
  - assert (a = 0) by lia. subst. reflexivity.
  - destruct (Nat.eq_dec a (S k)) as [->|Ne]; [reflexivity|].
    assert (E : gcfg C0 (firstn k L) = gcfg C0 (firstn a L)).
    { apply IH; [lia|]. intros r H. apply N. lia. }
    destruct (nth_error L k) as [e|] eqn:Ek.
    + rewrite (firstn_S_snoc _ _ _ Ek), gcfg_snoc, E. apply gapp_cmd.
      destruct (is_cfg (ecmd e)) eqn:C; auto. exfalso. apply (N k); [lia|]. exists e. auto.
    + rewrite (firstn_S_none _ _ Ek). exact E.
Qed.

Lemma cons_neq {A} (a : A) l : l <> a :: l.
Proof. intros H. apply (f_equal (@length A)) in H. simpl in H. lia. Qed.

Lemma del_length_le x o : NoDup o -> length o <= S (length (del x o)).
Proof.
  intros N. destruct (in_dec Nat.eq_dec x o) as [I|I].
  - rewrite (del_length_In x o N I). lia.
  - rewrite (del_notin x o I). lia.
Qed.

Lemma sorted_last_ge l p e : sorted l -> nth_error l p = Some e -> eterm e <= lastTerm l.
Proof.
  intros S H. assert (Ne : l <> []) by (intros ->; destruct p; discriminate).
  pose proof (nth_error_last l e0 Ne) as HL. unfold lastTerm.
  apply (S p (length l - 1) e (last l e0)); auto.
  assert (p < length l) by (apply nth_error_Some; congruence). lia.
Qed.

Section C.
Variable C0 : list nat.
Variable F : flags.
Hypothesis Hreuse : reuse F = false.
Hypothesis HgateA : gateA F = true.
Hypothesis HbaseC0 : baseC0 F = true.
Hypothesis C0_nodup : NoDup C0.
Hypothesis C0_ne : C0 <> [].

Notation GG := (gcfg C0).
Notation purej := (purej C0).
Notation tcond := (tcond C0).
Notation gcond := (gcond C0).
Notation NW := (NW C0).
Notation InvG3 := (InvG3 C0).

Ltac norejoin := try (match goal with Hy : reuse F = true /\ _ |- _ => destruct Hy; congruence end).

(* a candidate is a member by its own log or a pure joiner *)
Definition Pj (s : state) : Prop := forall c, rl (nodes s c) = Candidate -> tcond s c.

(* what the grant (t,v,c) of v to ANOTHER node c records: at the grant v's log was the prefix of
   length m of the leader log of term Tv, that prefix makes c a member (the link), it was not newer
   than what the candidate announced, and everything v had acknowledged in a term < t is in it *)
Definition Jg (s : state) (t v c : nat) : Prop :=
  exists Tv m li lt,
    m <= length (llog s Tv) /\ In c (GG (firstn m (llog s Tv))) /\
    In (RequestVote t c li lt) (net s) /\ Tv <= lt /\ (lt = Tv -> m <= li) /\
    (forall T p, T < t -> acked s T v p -> hasT (llog s T) T p ->
       T <= Tv \/ exists T2, T < T2 <= t /\ lacks s T p T2).

Definition J (s : state) : Prop := forall t v c, In (t, v, c) (grants s) -> v <> c -> Jg s t v c.

(* AppendEntries go to members of (a prefix of) the leader log *)
Definition Hae (s : state) : Prop :=
  forall t l d pi pt es lc, In (AppendEntries t l d pi pt es lc) (net s) ->
    exists k, k <= length (llog s t) /\ In d (GG (firstn k (llog s t))).

(* a log other than [e0] is a prefix of a leader log that makes its holder a member *)
Definition Hy1 (s : state) (y : nat) : Prop :=
  log (nodes s y) = [e0] \/
    exists T4 k, T4 <= term (nodes s y) /\ (rl (nodes s y) = Candidate -> T4 < term (nodes s y)) /\
      length (log (nodes s y)) <= length (llog s T4) /\
      firstn (length (log (nodes s y))) (llog s T4) = log (nodes s y) /\
      k <= length (llog s T4) /\ In y (GG (firstn k (llog s T4))).
Definition Hy (s : state) : Prop := forall y, Hy1 s y.

Lemma Pj_init : Pj (init C0).
Proof. intros c H. simpl in H. discriminate. Qed.
Lemma J_init : J (init C0).
Proof. intros t v c H. destruct H. Qed.
Lemma Hae_init : Hae (init C0).
Proof. intros t l d pi pt es lc H. destruct H. Qed.
Lemma Hy_init : Hy (init C0).
Proof. intros y. left. reflexivity. Qed.

(* ---- Pj ---- *)
Lemma Pj_kstep s s' : Pj s -> kstep C0 F s s' -> gcond s s' -> Pj s'.
Proof.
  intros P K Gc c. pose proof (P c) as Old. unfold Safety10_NoTguardA.tcond, self_member in *.
  destruct K; subst x; sproj; auto; nc c; auto; norejoin; intros H; try discriminate; try congruence.
  all: try (apply Old; congruence).
  - (* timeout *)
    destruct Gc as [E|(t0 & v0 & c0 & E & [[Ev T]|[Ne L]])].
    + symmetry in E. apply cons_neq in E. destruct E.
    + injection E as <- <- <-. exact T.
    + injection E as <- <- <-. congruence.
Qed.

(* ---- Hae ---- *)
Lemma others_G s n d : InvB C0 F s -> In d (cfg n (nodes s n)) -> d <> n -> In d (GG (log (nodes s n))).
Proof.
  intros IB Hd Hne. rewrite (cfg_gcfg C0 F s n IB HbaseC0 Hreuse) in Hd.
  destruct Hd as [Hd|Hd]; [congruence|]. apply del_In in Hd. tauto.
Qed.

Lemma Hae_kstep s s' : InvB C0 F s -> Inv1 s -> Inv2 s -> Inv3 s -> LF s -> Hae s -> kstep C0 F s s' -> Hae s'.
Proof.
  intros IB I1 I2 I3 LFs H K t l d pi pt es lc Hin.
  assert (Old : In (AppendEntries t l d pi pt es lc) (net s) ->
                exists k, k <= length (llog s' t) /\ In d (GG (firstn k (llog s' t)))).
  { intros Hi. destruct (H _ _ _ _ _ _ _ Hi) as (k & A & B).
    destruct (kstep_llog C0 F s s' t I1 I2 I3 LFs K) as [r [-> _]].
    exists k. split; [rewrite app_length; lia|]. rewrite firstn_app_le; auto. }
  destruct K; subst x; sproj; auto; try (destruct Hin as [Hin|Hin]; [discriminate|auto]).
  destruct Hin as [Hin|Hin]; auto. injection Hin as <- <- <- <- <- <- <-.
  destruct (I2_leader _ I2 n Hr) as (Q & Cq & W).
  rewrite <- (I3_wlog _ I3 _ _ _ _ W eq_refl).
  exists (length (log (nodes s n))). split; auto. rewrite firstn_all. apply others_G; auto.
Qed.

(* ---- J ---- *)
Lemma acks_new s s' T f m :
  kstep C0 F s s' -> In (T, f, m) (acks s') -> In (T, f, m) (acks s) \/ T = term (nodes s' f).
Proof.
  intros K Hin.
  destruct K; subst x; sproj; auto; norejoin; destruct Hin as [Hin|Hin]; auto; injection Hin as <- <- <-; right.
  - rewrite (Hf n), Nat.eqb_refl. reflexivity.
  - rewrite (Hf n), Nat.eqb_refl. reflexivity.
  - rewrite (Hf n), Nat.eqb_refl. simpl. auto.
  - rewrite (Hf y), Nat.eqb_refl. rewrite Hp. reflexivity.
Qed.

Lemma Jg_mono s s' t v c :
  Inv1 s -> Inv2 s -> Inv3 s -> Inv5 s -> Inv6 s -> LF s -> kstep C0 F s s' ->
  t <= term (nodes s v) -> Jg s t v c -> Jg s' t v c.
Proof.
  intros I1 I2 I3 I5 I6 LFs K Lt1 (Tv & m & li & lt & A & B & Cn & D & E & G).
  exists Tv, m, li, lt.
  destruct (kstep_llog C0 F s s' Tv I1 I2 I3 LFs K) as [r [El _]].
  split; [rewrite El, app_length; lia|]. split; [rewrite El, firstn_app_le; auto|].
  split; [eapply kstep_net; eauto|]. split; auto. split; auto.
  intros T p LT Ak Hh.
  assert (Ak0 : acked s T v p).
  { destruct Ak as (m' & Hm & Lp). exists m'. split; auto.
    destruct (acks_new s s' T v m' K Hm) as [X|X]; auto. exfalso.
    pose proof (kstep_term_mono C0 F Hreuse s s' v K). lia. }
  assert (Hh0 : hasT (llog s T) T p).
  { destruct Ak0 as (m' & Hm & Lp). destruct (I5_ack _ I5 _ _ _ Hm) as (_ & Lm & _).
    destruct (kstep_llog C0 F s s' T I1 I2 I3 LFs K) as [r' [El' _]]. rewrite El' in Hh.
    apply (hasT_app_lt _ r'); auto. lia. }
  destruct (G T p LT Ak0 Hh0) as [X|X]; [left; exact X|right].
  apply (ex_lacks_le C0 F s s' I1 I2 I3 I6 LFs K T p t t); auto.
Qed.

Lemma linked_knows s c n : InvB C0 F s -> linked s c n = true -> In c (GG (log (nodes s n))).
Proof.
  intros IB H. unfold linked in H. apply andb_true_iff in H as [H _]. apply andb_true_iff in H as [_ H].
  unfold others in H. destruct (IB n) as (_ & _ & Eb). rewrite (Eb HbaseC0 Hreuse), others_gcfg in H.
  apply mem_In in H. apply del_In in H. tauto.
Qed.

(* the record of a grant, in the state in which it is given *)
Lemma Jg_pre s n t c li lt :
  InvB C0 F s -> Inv1 s -> Inv4 s -> Inv6 s ->
  In (RequestVote t c li lt) (net s) -> term (nodes s n) = t ->
  up_to_date (log (nodes s n)) li lt = true -> linked s c n = true -> Jg s t n c.
Proof.
  intros IB I1 I4 I6 Hm Ht Hu Hl.
  pose proof (linked_knows s c n IB Hl) as Kn.
  pose proof (I1_sorted _ I1 n) as So.
  pose proof (fun T p => I6_ack _ I6 T n p) as Ak6. rewrite Ht in Ak6.
  set (L := log (nodes s n)) in *.
  assert (Ne : L <> []) by apply (I1_ne _ I1).
  pose proof (nth_error_last L e0 Ne) as HL.
  pose proof (I4_canon _ I4 n _ _ HL) as Cn. fold L in Cn.
  assert (EL : S (length L - 1) = length L) by (destruct L; [contradiction|simpl; lia]).
  rewrite EL in Cn.
  exists (lastTerm L), (length L), li, lt. unfold lastTerm at 1 2.
  split; [apply (firstn_eq_length L _ _ Cn); lia|].
  split; [rewrite <- Cn, firstn_all; exact Kn|].
  split; [exact Hm|].
  unfold up_to_date in Hu. apply negb_true_iff in Hu. apply orb_false_iff in Hu as [U1 U2].
  apply Nat.ltb_ge in U1. split; [exact U1|]. split.
  - intros E. rewrite E, Nat.eqb_refl in U2. simpl in U2. apply Nat.ltb_ge in U2. exact U2.
  - intros T p LT Ak Hh. destruct (Ak6 T p Ak Hh) as [(e & X & Y)|X]; [left|right; exact X].
    rewrite <- Y. apply (sorted_last_ge L p e So X).
Qed.

Lemma J_kstep s s' :
  InvB C0 F s -> Inv1 s -> Inv2 s -> Inv3 s -> Inv4 s -> Inv5 s -> Inv6 s -> LF s -> J s ->
  kstep C0 F s s' -> gcond s s' -> J s'.
Proof.
  intros IB I1 I2 I3 I4 I5 I6 LFs Js K Gc t v c Hin Hne.
  assert (Old : In (t, v, c) (grants s) -> Jg s' t v c).
  { intros Hg. apply (Jg_mono s s'); auto. apply (I2_grant _ I2 _ _ _ Hg). }
  destruct Gc as [E|(t0 & v0 & c0 & E & Cd)]; [rewrite E in Hin; auto|].
  rewrite E in Hin. destruct Hin as [Hin|Hin]; auto. injection Hin as -> -> ->.
  destruct Cd as [[Ev _]|[_ Hl]]; [congruence|].
  assert (P : Jg s t v c /\ t <= term (nodes s v)).
  { pose proof K as K0.
    destruct K0; subst x; sproj; try (destruct (cons_neq _ _ E)).
    - exfalso. congruence.
    - injection E as <- <- <-. split; [|lia]. eapply Jg_pre; eauto. }
  destruct P as [P Lt]. apply (Jg_mono s s'); auto.
Qed.

(* ---- Hy ---- *)
Lemma Hy_keep s s' y :
  (forall T, exists r, llog s' T = llog s T ++ r) ->
  log (nodes s' y) = log (nodes s y) -> term (nodes s y) <= term (nodes s' y) ->
  (rl (nodes s' y) = Candidate -> term (nodes s y) < term (nodes s' y) \/ rl (nodes s y) = Candidate) ->
  Hy1 s y -> Hy1 s' y.
Proof.
  intros ML El Lt Hc [E|(T4 & k & A & B & C & D & E' & G)]; [left; congruence|right].
  exists T4, k. destruct (ML T4) as [r Er]. rewrite El, Er.
  split; [lia|]. split; [intros Hr; destruct (Hc Hr) as [X|X]; [lia|specialize (B X); lia]|].
  split; [rewrite app_length; lia|]. split; [rewrite firstn_app_le; auto|].
  split; [rewrite app_length; lia|]. rewrite firstn_app_le; auto.
Qed.

Lemma Hy_kstep s s' :
  InvB C0 F s -> Inv1 s -> Inv2 s -> Inv3 s -> Inv4 s -> InvG3 s -> LF s -> NW s -> Hae s -> Hy s ->
  kstep C0 F s s' -> Hy s'.
Proof.
  intros IB I1 I2 I3 I4 IG LFs N Ha H K y.
  assert (ML : forall T, exists r, llog s' T = llog s T ++ r).
  { intros T. destruct (kstep_llog C0 F s s' T I1 I2 I3 LFs K) as [r [E _]]. eauto. }
  pose proof (H y) as Old.
  pose proof (kstep_term_mono C0 F Hreuse s s' y K) as Tm.
  assert (Keep : log (nodes s' y) = log (nodes s y) ->
     (rl (nodes s' y) = Candidate -> term (nodes s y) < term (nodes s' y) \/ rl (nodes s y) = Candidate) ->
     Hy1 s' y).
  { intros; apply (Hy_keep s s' y); auto. }
  destruct K; subst x; sproj; norejoin.
  1,3,4,5,8,10,11,12,13,14:
    (apply Keep; [nc y; reflexivity|nc y; intros Hcd; try discriminate; auto; left; lia]).
  - (* lead *)
    destruct (Nat.eq_dec y n) as [->|Ne].
    + right. exists (term (nodes s n)), (length (log (nodes s n))). unfold Hy1. sproj.
      rewrite (Hf n), Nat.eqb_refl, (Hl (term (nodes s n))), Nat.eqb_refl. sproj.
      split; [lia|]. split; [discriminate|]. split; [lia|]. split; [apply firstn_all|].
      split; [rewrite app_length; lia|]. rewrite firstn_app_le, firstn_all by lia. apply N; auto.
    + apply Keep; [nc y; [congruence|reflexivity]|nc y; [congruence|auto]].
  - (* client *)
    destruct (Nat.eq_dec y n) as [->|Ne].
    + right. exists (term (nodes s n)), (length (log (nodes s n))). unfold Hy1. sproj.
      rewrite (Hf n), Nat.eqb_refl, (Hl (term (nodes s n))), Nat.eqb_refl. sproj.
      split; [lia|]. split; [congruence|]. split; [lia|]. split; [apply firstn_all|].
      split; [rewrite app_length; lia|]. rewrite firstn_app_le, firstn_all by lia.
      apply (IG3_member _ _ IG); auto.
    + apply Keep; [nc y; [congruence|reflexivity]|nc y; [congruence|auto]].
  - (* sendae *) apply Keep; auto.
  - (* ae_ok *)
    destruct (Nat.eq_dec y n) as [->|Ne].
    + destruct (ae_ok_facts s n t l n p pt es lc pe I3 I4 Hm Hp Hpt) as (LM & Fp & Lp & Wn).
      destruct (ae_result _ _ p es LM Fp Lp Wn) as (Kl & [(E1 & _)|(E1 & _)]).
      * apply Keep; [rewrite (Hf n), Nat.eqb_refl; sproj; exact E1|rewrite (Hf n), Nat.eqb_refl; sproj; discriminate].
      * right. destruct (Ha _ _ _ _ _ _ _ Hm) as (k & Ak & Bk).
        exists t, k. unfold Hy1. sproj. rewrite (Hf n), Nat.eqb_refl. sproj. rewrite E1.
        rewrite firstn_length_le by lia.
        split; [lia|]. split; [discriminate|]. split; [lia|]. split; [reflexivity|]. auto.
    + apply Keep; [nc y; [congruence|reflexivity]|nc y; [congruence|auto]].
Qed.

(* ---- the main lemma: inside one state of the chain ---- *)
Section NWH.
Variable s : state.
Hypothesis IB : InvB C0 F s.
Hypothesis I1 : Inv1 s.
Hypothesis I2 : Inv2 s.
Hypothesis I3 : Inv3 s.
Hypothesis I4 : Inv4 s.
Hypothesis I6 : Inv6 s.
Hypothesis IG : InvG3 s.
Hypothesis LCs : LC s.
Hypothesis HJ : J s.
Hypothesis HY : Hy s.

Lemma lacks_LC T p Cd hi :
  In (T, p, Cd) (direct s) -> (exists T2, T < T2 <= hi /\ lacks s T p T2) -> False.
Proof.
  intros D (T2 & R & ((c & Q & Cw & W) & NL)). apply NL. apply (LCs T p Cd D T2 c Q Cw W). lia.
Qed.

Lemma firstn_prefix {A} (L : list A) j m : m <= j -> firstn m (firstn j L) = firstn m L.
Proof. intros H. rewrite firstn_firstn. rewrite Nat.min_l; auto. Qed.

(* a direct commit decided with exactly the member set of [firstn r2 L5], r2 a membership entry of
   its own term in the leader log L5: guards (a) and (b) *)
Lemma commit_before_cfg T5 r2 e2 :
  nth_error (llog s T5) r2 = Some e2 -> eterm e2 = T5 -> is_cfg (ecmd e2) = true ->
  exists pd Cd, In (T5, pd, Cd) (direct s) /\ seteq Cd (GG (firstn r2 (llog s T5))).
Proof.
  intros H2 E2 C2. set (L5 := llog s T5) in *.
  destruct (IG3_cfg _ _ IG T5 r2 e2 H2 E2 C2) as [(p0 & Cd & m0 & D1 & D2 & D3 & D4) Bb]. fold L5 in D4, Bb.
  destruct (last_in (cfgpos L5) (cfgpos_dec L5) m0 r2) as [(r1 & R1 & (e1 & H1 & C1) & Mx)|No].
  - (* the last membership entry before r2 lies behind the decision: it is of term T5, use (b) *)
    destruct (I6_direct _ I6 _ _ _ D1) as [(ep & Hep & Tep) _]. fold L5 in Hep.
    assert (Te1 : eterm e1 = T5).
    { pose proof (I4_sorted _ I4 T5 p0 r1 ep e1) as So. fold L5 in So.
      specialize (So ltac:(lia) Hep H1).
      pose proof (proj2 (I3_llog_ok _ I3 T5 r1 e1 H1)). lia. }
    destruct (Bb r1 e1 ltac:(lia) H1 C1) as (T0 & q0 & Cd0 & B1 & B2 & B3 & B4 & B5).
    assert (ET : T0 = T5).
    { assert (X : nth_error (llog s T0) r1 = Some e1).
      { rewrite <- (firstn_eq_nth _ _ (S r1) r1 B4) by lia. exact H1. }
      pose proof (proj2 (I3_llog_ok _ I3 T0 r1 e1 X)). lia. }
    destruct (B5 ET) as (m1 & M1 & M2 & M3). subst T0.
    exists q0, Cd0. split; auto.
    rewrite (no_cfg_same C0 L5 m1 r2); auto. intros r Hr. apply Mx. lia.
  - exists p0, Cd. split; auto. rewrite (no_cfg_same C0 L5 m0 r2); auto.
Qed.

(* the quorum that never votes for a pure joiner n with log Ly *)
Lemma pure_quorum n :
  rl (nodes s n) = Candidate -> purej n (log (nodes s n)) = true ->
  exists Q, NoDup Q /\ incl Q (GG (log (nodes s n))) /\ length (GG (log (nodes s n))) < 2 * length Q /\
    forall q, In q Q -> In q (votesFrom (nodes s n)) -> q <> n -> False.
Proof.
  intros Hr Hp.
  set (Ly := log (nodes s n)) in *. set (t := term (nodes s n)) in *.
  destruct (I2_cand _ I2 n Hr) as (NV & IV & GV).
  assert (RVn : forall li lt, In (RequestVote t n li lt) (net s) -> li = length Ly /\ lt = lastTerm Ly).
  { intros li lt H. destruct (I2_rv _ I2 _ _ _ _ H) as (_ & X). apply X; auto. }
  (* what the grant of a voter q <> n records *)
  assert (Vq : forall q, In q (votesFrom (nodes s n)) -> q <> n ->
     exists Tv m, In n (GG (firstn m (llog s Tv))) /\ Tv <= lastTerm Ly /\ (lastTerm Ly = Tv -> m <= length Ly) /\
       (forall T p, T < t -> acked s T q p -> hasT (llog s T) T p ->
          T <= Tv \/ exists T2, T < T2 <= t /\ lacks s T p T2)).
  { intros q Hq Hne. destruct (HJ t q n (GV q Hq) Hne) as (Tv & m & li & lt & A & B & Cn & D & E & G).
    destruct (RVn li lt Cn) as [-> ->]. exists Tv, m. auto. }
  destruct (HY n) as [E0|(T4 & k & A4 & B4 & C4 & D4 & E4 & G4)]; fold Ly in E0 || fold Ly t in A4, B4, C4, D4.
  - (* Ly = [e0]: nobody else votes *)
    exists C0. rewrite E0. split; [exact C0_nodup|]. split; [apply incl_refl|]. split.
    { simpl. destruct C0; [contradiction|simpl; lia]. }
    intros q _ Hq Hne. destruct (Vq q Hq Hne) as (Tv & m & B & D & E & _).
    rewrite E0 in D, E. change (lastTerm [e0]) with 0 in D, E.
    assert (Tv = 0) by lia. subst Tv. rewrite (I3_l0 _ I3) in B.
    rewrite <- E0 in B. apply (purej_notin C0 n Ly m Hp). exact B.
  - (* Ly is a proper prefix of a leader log that makes n a member *)
    set (L4 := llog s T4) in *.
    assert (Lk : length Ly < k).
    { destruct (le_lt_dec k (length Ly)) as [Le|]; auto. exfalso.
      apply (purej_notin C0 n Ly k Hp). rewrite <- D4, firstn_prefix; auto. }
    destruct (first_in (cfgpos L4) (cfgpos_dec L4) (length Ly) k) as [(r2 & R2 & (e2 & H2 & C2) & Mn)|No].
    2:{ exfalso. apply (purej_notin_all C0 n Ly Hp).
        replace (GG Ly) with (GG (firstn k L4)); [exact G4|].
        rewrite (no_cfg_same C0 L4 (length Ly) k); [rewrite D4; reflexivity|lia|auto]. }
    set (T5 := eterm e2) in *.
    pose proof (I4_lcanon _ I4 T4 r2 e2 H2) as F45. fold L4 T5 in F45. set (L5 := llog s T5) in *.
    assert (H2' : nth_error L5 r2 = Some e2).
    { rewrite <- (firstn_eq_nth _ _ (S r2) r2 F45) by lia. exact H2. }
    assert (LT5 : T5 < t).
    { pose proof (proj2 (I3_llog_ok _ I3 T4 r2 e2 H2)). specialize (B4 Hr). unfold T5. lia. }
    assert (Ly5 : firstn (length Ly) L5 = Ly).
    { transitivity (firstn (length Ly) L4); [|exact D4].
      apply (firstn_le_eq _ _ (length Ly) (S r2)); [lia|symmetry; exact F45]. }
    assert (G5 : GG (firstn r2 L5) = GG Ly).
    { transitivity (GG (firstn (length Ly) L5)); [|rewrite Ly5; reflexivity].
      apply no_cfg_same; [lia|]. intros r Rr (e & He & Ce). apply (Mn r Rr).
      exists e. split; auto. rewrite (firstn_eq_nth _ _ (S r2) r F45) by lia. exact He. }
    destruct (commit_before_cfg T5 r2 e2 H2' eq_refl C2) as (pd & Cd & Dd & SE). fold L5 in SE. rewrite G5 in SE.
    destruct (I6_direct _ I6 _ _ _ Dd) as [Hpd (Q & NQ & IQ & MQ & AQ)]. fold L5 in Hpd.
    exists Q. split; [exact NQ|]. split.
    { intros q Hq. apply (seteq_incl _ _ SE). apply IQ. exact Hq. }
    split; [rewrite <- (seteq_length _ _ SE); exact MQ|].
    intros q HqQ Hq Hne.
    (* the candidate's log holds (T5,pd): T5 is its last term *)
    assert (Ne : Ly <> []) by apply (I1_ne _ I1).
    assert (T25 : lastTerm Ly <= T5).
    { pose proof (nth_error_last Ly e0 Ne) as HL.
      assert (Lp : 0 < length Ly) by (destruct Ly; [contradiction|simpl; lia]).
      assert (HL' : nth_error L5 (length Ly - 1) = Some (last Ly e0)).
      { rewrite <- (nth_error_firstn_lt L5 (length Ly) (length Ly - 1)) by lia. rewrite Ly5. exact HL. }
      apply (I4_sorted _ I4 T5 (length Ly - 1) r2 _ e2 ltac:(lia) HL' H2'). }
    assert (X : hasT Ly T5 pd).
    { destruct (I6_cand _ I6 t q n T5 pd (GV q Hq) (AQ q HqQ) Hpd LT5 Hr eq_refl) as [X|X]; auto.
      exfalso. apply (lacks_LC _ _ _ _ Dd X). }
    assert (T52 : T5 <= lastTerm Ly).
    { destruct X as (e & Xe & Te). rewrite <- Te. apply (sorted_last_ge Ly pd e (I1_sorted _ I1 n) Xe). }
    destruct (Vq q Hq Hne) as (Tv & m & B & D & E & G).
    destruct (Nat.eq_dec Tv T5) as [->|NT].
    + apply (purej_notin C0 n Ly m Hp). rewrite <- Ly5, firstn_prefix; [exact B|]. apply E. lia.
    + destruct (G T5 pd LT5 (AQ q HqQ) Hpd) as [Y|Y]; [lia|]. apply (lacks_LC _ _ _ _ Dd Y).
Qed.

Hypothesis HP : Pj s.

Theorem NW_holds : NW s.
Proof.
  intros n Hr Hmaj. destruct (HP n Hr) as [Hm|Hp]; [apply mem_In; exact Hm|]. exfalso.
  destruct (pure_quorum n Hr Hp) as (Q & NQ & IQ & MQ & DQ).
  destruct (I2_cand _ I2 n Hr) as (NV & IV & _).
  pose proof (purej_notin_all C0 n _ Hp) as NinG.
  assert (Ecfg : cfg n (nodes s n) = n :: GG (log (nodes s n))).
  { rewrite (cfg_gcfg C0 F s n IB HbaseC0 Hreuse). f_equal. apply del_notin. exact NinG. }
  set (W := votesFrom (nodes s n)) in *. set (G := GG (log (nodes s n))) in *.
  unfold majority_of in Hmaj. apply Nat.ltb_lt in Hmaj. rewrite Ecfg in Hmaj, IV. simpl in Hmaj.
  pose proof (del_length_le n W NV) as LW.
  destruct (quorum_meet G (del n W) Q) as (q & A & B); auto.
  - apply del_NoDup. exact NV.
  - intros q Hq. apply del_In in Hq as [Hq Hne]. destruct (IV q Hq) as [E|E]; [congruence|exact E].
  - lia.
  - apply del_In in A as [A Hne]. apply (DQ q B A Hne).
Qed.

End NWH.

End C.
