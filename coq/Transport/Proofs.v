(* Basic facts about coq/Transport/Model.v: association lists, the connection
   heap, the "quiet frame" satisfied by every helper that can only dial or
   notice a disconnect, the specification of each helper, and the invariant
   [Inv] of all reachable states. *)
From Coq Require Import ZArith NArith List Bool Lia.
From PSO Require Import Transport.Model.
Import ListNotations.
Open Scope Z_scope.

(* ---------- decidable equalities ---------- *)
Lemma node_eqb_eq : forall x y, node_eqb x y = true <-> x = y.
Proof.
  intros [a|a] [b|b]; simpl; split; intro H; try discriminate; try congruence.
  - apply Z.eqb_eq in H; congruence.
  - inversion H; apply Z.eqb_refl.
  - apply N.eqb_eq in H; congruence.
  - inversion H; apply N.eqb_refl.
Qed.

Lemma node_eqb_refl : forall x, node_eqb x x = true.
Proof. intro x; apply node_eqb_eq; reflexivity. Qed.

Lemma node_eqb_neq : forall x y, node_eqb x y = false <-> x <> y.
Proof.
  intros x y; split; intro H.
  - intro E; apply node_eqb_eq in E; congruence.
  - destruct (node_eqb x y) eqn:E; [apply node_eqb_eq in E; contradiction | reflexivity].
Qed.

Lemma node_eq_dec : forall x y : node, {x = y} + {x <> y}.
Proof.
  intros x y; destruct (node_eqb x y) eqn:E.
  - left; apply node_eqb_eq; exact E.
  - right; apply node_eqb_neq; exact E.
Qed.

(* ---------- association lists ---------- *)
Section AssocFacts.
  Variables K V : Type.
  Variable eqb : K -> K -> bool.
  Hypothesis eqb_eq : forall x y, eqb x y = true <-> x = y.

  Lemma eqb_refl' : forall x, eqb x x = true.
  Proof. intro x; apply eqb_eq; reflexivity. Qed.

  Lemma eqb_false : forall x y, eqb x y = false <-> x <> y.
  Proof.
    intros x y; split; intro H.
    - intro E; apply eqb_eq in E; congruence.
    - destruct (eqb x y) eqn:E; [apply eqb_eq in E; contradiction | reflexivity].
  Qed.

  Lemma alookup_aremove_same : forall k (l : list (K * V)), alookup eqb k (aremove eqb k l) = None.
  Proof.
    intros k l; induction l as [|[k' v] r IH]; simpl; [reflexivity|].
    destruct (eqb k k') eqn:E; [exact IH|].
    simpl; rewrite E; exact IH.
  Qed.

  Lemma alookup_aremove_other : forall k k' (l : list (K * V)), k <> k' ->
    alookup eqb k (aremove eqb k' l) = alookup eqb k l.
  Proof.
    intros k k' l Hne; induction l as [|[k2 v] r IH]; simpl; [reflexivity|].
    destruct (eqb k' k2) eqn:E.
    - apply eqb_eq in E; subst k2.
      destruct (eqb k k') eqn:E2; [apply eqb_eq in E2; contradiction | exact IH].
    - simpl; destruct (eqb k k2); [reflexivity | exact IH].
  Qed.

  Lemma alookup_aset_same : forall k v (l : list (K * V)), alookup eqb k (aset eqb k v l) = Some v.
  Proof. intros; unfold aset; simpl; rewrite eqb_refl'; reflexivity. Qed.

  Lemma alookup_aset_other : forall k k' v (l : list (K * V)), k <> k' ->
    alookup eqb k (aset eqb k' v l) = alookup eqb k l.
  Proof.
    intros k k' v l Hne; unfold aset; simpl.
    destruct (eqb k k') eqn:E; [apply eqb_eq in E; contradiction|].
    apply alookup_aremove_other; exact Hne.
  Qed.

  Lemma alookup_aupdate : forall k k' f (l : list (K * V)),
    alookup eqb k (aupdate eqb k' f l) =
    if eqb k k' then option_map f (alookup eqb k l) else alookup eqb k l.
  Proof.
    intros k k' f l; induction l as [|[k2 v] r IH]; simpl.
    - destruct (eqb k k'); reflexivity.
    - destruct (eqb k' k2) eqn:E; simpl.
      + apply eqb_eq in E; subst k2.
        destruct (eqb k k') eqn:E2; simpl; [reflexivity | exact IH].
      + destruct (eqb k k2) eqn:E3.
        * destruct (eqb k k') eqn:E2; [|reflexivity].
          apply eqb_eq in E2; apply eqb_eq in E3; subst.
          rewrite eqb_refl' in E; discriminate.
        * exact IH.
  Qed.

  Lemma alookup_In : forall k v (l : list (K * V)), alookup eqb k l = Some v -> In (k, v) l.
  Proof.
    intros k v l; induction l as [|[k2 v2] r IH]; simpl; [discriminate|].
    destruct (eqb k k2) eqn:E; intro H.
    - apply eqb_eq in E; inversion H; subst; left; reflexivity.
    - right; apply IH; exact H.
  Qed.
End AssocFacts.

Lemma Neqb_eq : forall x y, N.eqb x y = true <-> x = y.
Proof. exact N.eqb_eq. Qed.
Lemma Zeqb_eq : forall x y, Z.eqb x y = true <-> x = y.
Proof. exact Z.eqb_eq. Qed.

(* ---------- small sets ---------- *)
Lemma zmem_In : forall a l, zmem a l = true <-> In a l.
Proof.
  intros a l; induction l as [|x r IH]; simpl; [split; [discriminate | tauto]|].
  destruct (a =? x) eqn:E.
  - apply Z.eqb_eq in E; subst; tauto.
  - apply Z.eqb_neq in E; rewrite IH; split; [tauto | intros [H|H]; [congruence | exact H]].
Qed.

Lemma zmem_zadd : forall a b l, zmem a (zadd b l) = (a =? b) || zmem a l.
Proof.
  intros a b l; unfold zadd; destruct (zmem b l) eqn:E; simpl.
  - destruct (a =? b) eqn:E2; [apply Z.eqb_eq in E2; subst; rewrite E; reflexivity | reflexivity].
  - reflexivity.
Qed.

Lemma zmem_zremove : forall a b l, zmem a (zremove b l) = negb (a =? b) && zmem a l.
Proof.
  intros a b l; induction l as [|x r IH]; simpl; [rewrite andb_false_r; reflexivity|].
  destruct (b =? x) eqn:E.
  - apply Z.eqb_eq in E; subst x; rewrite IH.
    destruct (a =? b); simpl; reflexivity.
  - simpl; rewrite IH; destruct (a =? x) eqn:E2; [|reflexivity].
    apply Z.eqb_eq in E2; subst x.
    rewrite Z.eqb_sym, E; reflexivity.
Qed.

Lemma nmem_nremove_same : forall a l, nmem a (nremove a l) = false.
Proof.
  intros a l; induction l as [|x r IH]; simpl; [reflexivity|].
  destruct (N.eqb a x) eqn:E; [exact IH | simpl; rewrite E; exact IH].
Qed.

(* ---------- the connection heap ---------- *)
Definition bind_of (st : tstate) (c : N) : option node :=
  match get_conn st c with Some r => c_bind r | None => None end.
Definition allocated (st : tstate) (c : N) : Prop := get_conn st c <> None.

Lemma get_conn_set_cstate : forall st c s c',
  get_conn (set_cstate st c s) c' =
  if N.eqb c' c then option_map (fun r => mkConn s (c_out r) (c_bind r)) (get_conn st c') else get_conn st c'.
Proof. intros; unfold get_conn, set_cstate; simpl; apply alookup_aupdate; exact Neqb_eq. Qed.

Lemma get_conn_set_bind : forall st c n c',
  get_conn (set_bind st c n) c' =
  if N.eqb c' c then option_map (fun r => mkConn (cst r) (c_out r) (Some n)) (get_conn st c') else get_conn st c'.
Proof. intros; unfold get_conn, set_bind; simpl; apply alookup_aupdate; exact Neqb_eq. Qed.

Lemma get_conn_alloc : forall st r c',
  get_conn (alloc st r) c' = if N.eqb c' (next_conn st) then Some r else get_conn st c'.
Proof. intros; unfold get_conn, alloc; simpl; reflexivity. Qed.

Lemma conn_state_set_cstate : forall st c s c',
  conn_state (set_cstate st c s) c' =
  if N.eqb c' c then match get_conn st c' with Some _ => s | None => Disconnected end else conn_state st c'.
Proof.
  intros; unfold conn_state; rewrite get_conn_set_cstate.
  destruct (N.eqb c' c); [destruct (get_conn st c'); reflexivity | reflexivity].
Qed.

Lemma bind_of_set_cstate : forall st c s c', bind_of (set_cstate st c s) c' = bind_of st c'.
Proof.
  intros; unfold bind_of; rewrite get_conn_set_cstate.
  destruct (N.eqb c' c); [destruct (get_conn st c'); reflexivity | reflexivity].
Qed.

Lemma allocated_set_cstate : forall st c s c', allocated (set_cstate st c s) c' <-> allocated st c'.
Proof.
  intros; unfold allocated; rewrite get_conn_set_cstate.
  destruct (N.eqb c' c); [destruct (get_conn st c'); simpl; split; congruence | tauto].
Qed.

Lemma conn_state_live_allocated : forall st c, conn_state st c <> Disconnected -> allocated st c.
Proof. unfold conn_state, allocated; intros st c H E; rewrite E in H; congruence. Qed.

(* ---------- _connToNode ---------- *)
Lemma conn_to_node_registered : forall st c n, conn_to_node st c = Some n -> registered st n = Some c.
Proof.
  unfold conn_to_node; intros st c n H.
  destruct (find _ (connections st)) as [kv|] eqn:F; [|discriminate].
  inversion H; subst; clear H.
  apply find_some in F; destruct F as [_ F].
  destruct (registered st (fst kv)) as [c'|]; [|discriminate].
  apply N.eqb_eq in F; congruence.
Qed.

Lemma conn_to_node_none : forall st c, (forall n, registered st n <> Some c) -> conn_to_node st c = None.
Proof.
  intros st c H; destruct (conn_to_node st c) as [n|] eqn:E; [|reflexivity].
  apply conn_to_node_registered in E; exfalso; exact (H n E).
Qed.

Lemma conn_to_node_some : forall st c n, registered st n = Some c -> exists n', conn_to_node st c = Some n'.
Proof.
  intros st c n H; unfold conn_to_node.
  destruct (find _ (connections st)) as [kv|] eqn:F; [eexists; reflexivity|].
  exfalso.
  pose proof (alookup_In _ _ node_eqb node_eqb_eq _ _ _ H) as HIn.
  apply (find_none _ _ F) in HIn; simpl in HIn.
  rewrite H in HIn; rewrite N.eqb_refl in HIn; discriminate.
Qed.

(* conn_to_node only reads the connections table *)
Lemma conn_to_node_ext : forall st st' c, connections st' = connections st -> conn_to_node st' c = conn_to_node st c.
Proof. intros st st' c H; unfold conn_to_node, registered; rewrite H; reflexivity. Qed.

(* ---------- the quiet frame ---------- *)
(* what every helper that only dials / notices a disconnect may change *)
Record quiet_frame (st st' : tstate) : Prop := {
  qf_reg : forall n, registered st' n = registered st n;
  qf_nodes : nodes st' = nodes st;
  qf_self : self_addr st' = self_addr st;
  qf_retry : retry st' = retry st;
  qf_utils : utils st' = utils st;
  qf_next : next_conn st' = next_conn st;
  qf_roc : ro_counter st' = ro_counter st;
  qf_bind : forall c, bind_of st' c = bind_of st c;
  qf_alloc : forall c, allocated st' c <-> allocated st c;
  qf_state : forall c, conn_state st' c = conn_state st c \/ conn_state st' c = Disconnected \/
                       (conn_state st' c = Connecting /\ exists a, registered st (Member a) = Some c)
}.

Lemma quiet_refl : forall st, quiet_frame st st.
Proof. intro st; constructor; try reflexivity; try tauto. Qed.

Lemma quiet_registered : forall st st' n, quiet_frame st st' -> registered st' n = registered st n.
Proof. intros st st' n Q; apply (qf_reg _ _ Q). Qed.

Lemma quiet_trans : forall a b c, quiet_frame a b -> quiet_frame b c -> quiet_frame a c.
Proof.
  intros a b c Q1 Q2; constructor.
  - intro x; rewrite (qf_reg _ _ Q2); apply Q1.
  - rewrite (qf_nodes _ _ Q2); apply Q1.
  - rewrite (qf_self _ _ Q2); apply Q1.
  - rewrite (qf_retry _ _ Q2); apply Q1.
  - rewrite (qf_utils _ _ Q2); apply Q1.
  - rewrite (qf_next _ _ Q2); apply Q1.
  - rewrite (qf_roc _ _ Q2); apply Q1.
  - intro x; rewrite (qf_bind _ _ Q2); apply Q1.
  - intro x; rewrite (qf_alloc _ _ Q2); apply Q1.
  - intro x.
    destruct (qf_state _ _ Q2 x) as [H|[H|[H [n Hn]]]].
    + rewrite H; apply Q1.
    + right; left; exact H.
    + right; right; split; [exact H|]. exists n. rewrite <- (quiet_registered _ _ _ Q1); exact Hn.
Qed.

Lemma quiet_set_last_attempt : forall st v, quiet_frame st (set_last_attempt st v).
Proof. intros; constructor; simpl; try reflexivity; try tauto. Qed.
Lemma quiet_set_unknown : forall st v, quiet_frame st (set_unknown st v).
Proof. intros; constructor; simpl; try reflexivity; try tauto. Qed.
Lemma quiet_set_ro_nodes : forall st v, quiet_frame st (set_ro_nodes st v).
Proof. intros; constructor; simpl; try reflexivity; try tauto. Qed.

Lemma quiet_set_disconnected : forall st c, quiet_frame st (set_cstate st c Disconnected).
Proof.
  intros st c; constructor; simpl; try reflexivity.
  - intro x; apply bind_of_set_cstate.
  - intro x; apply allocated_set_cstate.
  - intro x; rewrite conn_state_set_cstate.
    destruct (N.eqb x c); [|left; reflexivity].
    destruct (get_conn st x) eqn:E; [right; left; reflexivity|].
    left; unfold conn_state; rewrite E; reflexivity.
Qed.

Lemma quiet_set_connecting : forall st c a, registered st (Member a) = Some c -> conn_state st c = Disconnected ->
  quiet_frame st (set_cstate st c Connecting).
Proof.
  intros st c a HR HD; constructor; simpl; try reflexivity.
  - intro x; apply bind_of_set_cstate.
  - intro x; apply allocated_set_cstate.
  - intro x; rewrite conn_state_set_cstate.
    destruct (N.eqb x c) eqn:E; [|left; reflexivity].
    apply N.eqb_eq in E; subst x.
    destruct (get_conn st c) eqn:G.
    + right; right; split; [reflexivity | exists a; exact HR].
    + left; unfold conn_state; rewrite G; reflexivity.
Qed.

(* ---------- specification of _connectIfNecessarySingle ---------- *)
Inductive cs_result (st : tstate) (now : Z) (refuse : list Z) (a : Z) : tstate -> list output -> Prop :=
| cs_nothing : cs_result st now refuse a st []
| cs_assert : registered st (Member a) = None -> should_connect (self_addr st) a = true ->
    cs_result st now refuse a st [ORaise 3]
| cs_refused : forall c, registered st (Member a) = Some c -> conn_state st c = Disconnected ->
    should_connect (self_addr st) a = true -> throttled st a now = false -> zmem a refuse = true ->
    cs_result st now refuse a (set_last_attempt st (aset Z.eqb a now (last_attempt st))) [ODial c a false]
| cs_dialled : forall c, registered st (Member a) = Some c -> conn_state st c = Disconnected ->
    should_connect (self_addr st) a = true -> throttled st a now = false -> zmem a refuse = false ->
    cs_result st now refuse a
      (set_cstate (set_last_attempt st (aset Z.eqb a now (last_attempt st))) c Connecting) [ODial c a true].

Lemma is_disconnected_true : forall s, is_disconnected s = true <-> s = Disconnected.
Proof. intros []; simpl; split; congruence. Qed.
Lemma is_connected_true : forall s, is_connected s = true <-> s = Connected.
Proof. intros []; simpl; split; congruence. Qed.

Lemma connect_single_spec : forall st now refuse a,
  cs_result st now refuse a (fst (connect_single st now refuse a)) (snd (connect_single st now refuse a)).
Proof.
  intros st now refuse a; unfold connect_single.
  destruct (registered st (Member a)) as [c|] eqn:R.
  - destruct (is_disconnected (conn_state st c)) eqn:D; simpl; [|apply cs_nothing].
    apply is_disconnected_true in D.
    destruct (should_connect (self_addr st) a) eqn:S; simpl; [|apply cs_nothing].
    destruct (throttled st a now) eqn:T; simpl; [apply cs_nothing|].
    destruct (zmem a refuse) eqn:Z; simpl.
    + apply cs_refused; assumption.
    + apply cs_dialled; assumption.
  - simpl. destruct (should_connect (self_addr st) a) eqn:S; simpl; [|apply cs_nothing].
    apply cs_assert; [exact R | exact S].
Qed.

(* the immediate / periodic dial decision, exactly *)
Lemma connect_single_dials : forall st now refuse a c,
  registered st (Member a) = Some c -> conn_state st c = Disconnected ->
  should_connect (self_addr st) a = true -> throttled st a now = false ->
  snd (connect_single st now refuse a) = [ODial c a (negb (zmem a refuse))] /\
  alookup Z.eqb a (last_attempt (fst (connect_single st now refuse a))) = Some now.
Proof.
  intros st now refuse a c R D S T; unfold connect_single.
  rewrite R, D, S, T; simpl.
  destruct (zmem a refuse); simpl; split; try reflexivity;
    apply alookup_aset_same; exact Zeqb_eq.
Qed.

Lemma connect_single_throttled : forall st now refuse a c,
  registered st (Member a) = Some c ->
  throttled st a now = true -> connect_single st now refuse a = (st, []).
Proof.
  intros st now refuse a c R T; unfold connect_single. rewrite R; simpl.
  destruct (is_disconnected (conn_state st c)); simpl; [|reflexivity].
  destruct (should_connect (self_addr st) a); simpl; [|reflexivity].
  rewrite T; reflexivity.
Qed.
