(* Executable model of the registry logic of pysyncobj/transport.py (class
   TCPTransport) over ABSTRACT connection events, virtual time in Z.

   What is modelled (the code as it is, quirks included):
     addNode, dropNode, send, _onTick -> _connectIfNecessary ->
     _connectIfNecessarySingle (dial rule _shouldConnect, retry throttle),
     _onOutgoingConnected (sends the own address / 'readonly', fires
     onNodeConnected(_connToNode(conn))), _onNewIncomingConnection,
     _onIncomingMessageReceived (utility list / member address / 'readonly' /
     anything else), _onUtilityMessage, _utilityCallback, _onDisconnected,
     _connToNode.

   Connection objects (TcpConnection) are abstract records in a heap [conns]:
   state, "has an onConnected callback" (true exactly for the objects created
   by addNode), and the node the onMessageReceived callback is bound to
   (functools.partial(self._onMessageReceived, node)) or None while it is still
   functools.partial(self._onIncomingMessageReceived, conn).  Connection ids are
   allocated in creation order.  The heap keeps every object ever created: an
   object that leaves self._connections keeps its binding.  Since the repair
   "close the connection that a new incoming connection of the same node
   supersedes", _onIncomingMessageReceived disconnects the object it replaces;
   addNode of a node that is already present still overwrites the registered
   object without disconnecting it (SyncObj never does that: it refuses to add
   a node it already has), and such an object keeps delivering messages as
   from the node.

   Addresses are integers: the rank of the address string in Python's string
   order among the addresses of the case (supplied by the harness; the order on
   str is an oracle).  _nodes and _nodeAddrToNode always hold the same set (both
   are written by addNode and dropNode only, Node equality is equality of ids),
   so one list [nodes] stands for both; the harness checks they agree.
   _preventConnectNodes is dead code: dropNode pops the connection from
   self._connections *before* it calls conn.disconnect(), so _connToNode finds
   no node for it and _connectIfNecessarySingle is never reached with the
   protected node; the harness checks the set is empty after every event.

   Not modelled: encryption handshake, server bind/unbind and its retry,
   destroy(), DNS (a failed resolution is the same as a refused connect),
   faults inside the two handshake sends, user callbacks that call back into
   the transport.  Every environment decision is an input of the step: the
   clock reading [ev_now], the set of addresses whose connect() fails
   synchronously [ev_refuse], whether conn.send notices a dead socket
   [fault], whether the utility callback raises [uraise]. *)
From Coq Require Import ZArith NArith List Bool.
Import ListNotations.
Open Scope Z_scope.

(* ---- association lists with a boolean key equality (Python dict: unique keys) ---- *)
Section Assoc.
  Variables K V : Type.
  Variable eqb : K -> K -> bool.

  Fixpoint alookup (k : K) (l : list (K * V)) : option V :=
    match l with
    | [] => None
    | (k', v) :: r => if eqb k k' then Some v else alookup k r
    end.

  Fixpoint aremove (k : K) (l : list (K * V)) : list (K * V) :=
    match l with
    | [] => []
    | (k', v) :: r => if eqb k k' then aremove k r else (k', v) :: aremove k r
    end.

  Definition aset (k : K) (v : V) (l : list (K * V)) : list (K * V) := (k, v) :: aremove k l.

  (* apply f to the value stored under k (if any), keeping the order *)
  Fixpoint aupdate (k : K) (f : V -> V) (l : list (K * V)) : list (K * V) :=
    match l with
    | [] => []
    | (k', v) :: r => if eqb k k' then (k', f v) :: aupdate k f r else (k', v) :: aupdate k f r
    end.
End Assoc.
Arguments alookup {K V} eqb k l.
Arguments aremove {K V} eqb k l.
Arguments aset {K V} eqb k v l.
Arguments aupdate {K V} eqb k f l.

Fixpoint zmem (a : Z) (l : list Z) : bool :=
  match l with [] => false | x :: r => if a =? x then true else zmem a r end.
Fixpoint zremove (a : Z) (l : list Z) : list Z :=
  match l with [] => [] | x :: r => if a =? x then zremove a r else x :: zremove a r end.
Definition zadd (a : Z) (l : list Z) : list Z := if zmem a l then l else a :: l.

Fixpoint nmem (a : N) (l : list N) : bool :=
  match l with [] => false | x :: r => if N.eqb a x then true else nmem a r end.
Fixpoint nremove (a : N) (l : list N) : list N :=
  match l with [] => [] | x :: r => if N.eqb a x then nremove a r else x :: nremove a r end.
Definition nadd (a : N) (l : list N) : list N := if nmem a l then l else a :: l.

(* ---- types ---- *)
Inductive cstate := Disconnected | Connecting | Connected.

Definition is_disconnected (s : cstate) : bool := match s with Disconnected => true | _ => false end.
Definition is_connected (s : cstate) : bool := match s with Connected => true | _ => false end.

(* Node objects: TCPNode(address) | Node(str(counter)) created for a read-only peer *)
Inductive node := Member (a : Z) | RO (k : N).

Definition node_eqb (x y : node) : bool :=
  match x, y with
  | Member a, Member b => a =? b
  | RO a, RO b => N.eqb a b
  | _, _ => false
  end.

(* what arrived on a connection (any picklable Python value), as far as the transport can tell it apart *)
Inductive msg :=
| MAddr (a : Z)          (* a str that is one of the case's addresses *)
| MReadonly              (* the str 'readonly' *)
| MList (cmd : N)        (* a non-empty list with a hashable head, cmd = id of the head *)
| MEmptyList             (* [] *)
| MUnhashable (k : N)    (* dict, set, bytearray, list with an unhashable head ... *)
| MOther (k : N).        (* any other hashable non-list value *)

Inductive payload :=
| PSelf (a : option Z)   (* own address, or 'readonly' *)
| PMsg (m : N)           (* message id handed to send() *)
| PUtilErr               (* str(e) of an exception raised by a utility callback *)
| PUtilReply.            (* result of a utility command *)

Inductive output :=
| ONodeConnected (n : option node)     (* onNodeConnected(node); node may be None (orphaned outgoing connection) *)
| ONodeDisconnected (n : node)
| OROConnected (n : node)
| ORODisconnected (n : node)
| OMessage (c : N) (n : node) (m : msg)  (* onMessageReceived(n, m), delivered by connection object c *)
| ODial (c : N) (a : Z) (ok : bool)    (* conn.connect(ip, port) on object c towards address a, and its result *)
| OSend (c : N) (p : payload)          (* conn.send(p) *)
| ODisconnect (c : N)                  (* conn.disconnect() called by the transport *)
| OUtility (c : N) (cmd : N)           (* utility callback invoked *)
| OSendResult (b : bool)               (* return value of send() *)
| ORaise (k : Z).                      (* exception escaping the handler: 1 TypeError, 2 IndexError, 3 AssertionError *)

Record crec := mkConn {
  cst : cstate;
  c_out : bool;             (* created by addNode: has onConnected = _onOutgoingConnected *)
  c_bind : option node      (* onMessageReceived bound to _onMessageReceived(node) *)
}.

Record tstate := mkT {
  self_addr : option Z;             (* None: this is a read-only node *)
  retry : Z;                        (* conf.connectionRetryTime *)
  utils : list N;                   (* registered utility commands *)
  nodes : list Z;                   (* _nodes / _nodeAddrToNode *)
  connections : list (node * N);    (* _connections: node -> connection object *)
  unknown : list N;                 (* _unknownConnections *)
  ro_nodes : list N;                (* _readonlyNodes (ids) *)
  ro_counter : N;                   (* _readonlyNodesCounter *)
  last_attempt : list (Z * Z);      (* _lastConnectAttempt *)
  conns : list (N * crec);          (* heap of connection objects, newest first *)
  next_conn : N
}.

Definition init (self : option Z) (rt : Z) (ut : list N) : tstate :=
  mkT self rt ut [] [] [] [] 0%N [] [] 0%N.

Definition set_nodes st v := mkT (self_addr st) (retry st) (utils st) v (connections st) (unknown st) (ro_nodes st) (ro_counter st) (last_attempt st) (conns st) (next_conn st).
Definition set_connections st v := mkT (self_addr st) (retry st) (utils st) (nodes st) v (unknown st) (ro_nodes st) (ro_counter st) (last_attempt st) (conns st) (next_conn st).
Definition set_unknown st v := mkT (self_addr st) (retry st) (utils st) (nodes st) (connections st) v (ro_nodes st) (ro_counter st) (last_attempt st) (conns st) (next_conn st).
Definition set_ro_nodes st v := mkT (self_addr st) (retry st) (utils st) (nodes st) (connections st) (unknown st) v (ro_counter st) (last_attempt st) (conns st) (next_conn st).
Definition set_ro_counter st v := mkT (self_addr st) (retry st) (utils st) (nodes st) (connections st) (unknown st) (ro_nodes st) v (last_attempt st) (conns st) (next_conn st).
Definition set_last_attempt st v := mkT (self_addr st) (retry st) (utils st) (nodes st) (connections st) (unknown st) (ro_nodes st) (ro_counter st) v (conns st) (next_conn st).
Definition set_conns st v := mkT (self_addr st) (retry st) (utils st) (nodes st) (connections st) (unknown st) (ro_nodes st) (ro_counter st) (last_attempt st) v (next_conn st).

Definition get_conn (st : tstate) (c : N) : option crec := alookup N.eqb c (conns st).

(* state of a connection object; an id that was never allocated behaves as a dead object *)
Definition conn_state (st : tstate) (c : N) : cstate :=
  match get_conn st c with Some r => cst r | None => Disconnected end.

Definition set_cstate (st : tstate) (c : N) (s : cstate) : tstate :=
  set_conns st (aupdate N.eqb c (fun r => mkConn s (c_out r) (c_bind r)) (conns st)).

Definition set_bind (st : tstate) (c : N) (n : node) : tstate :=
  set_conns st (aupdate N.eqb c (fun r => mkConn (cst r) (c_out r) (Some n)) (conns st)).

(* a new TcpConnection object *)
Definition alloc (st : tstate) (r : crec) : tstate :=
  mkT (self_addr st) (retry st) (utils st) (nodes st) (connections st) (unknown st) (ro_nodes st) (ro_counter st)
      (last_attempt st) ((next_conn st, r) :: conns st) (N.succ (next_conn st)).

(* _shouldConnect (for a TCPNode; _preventConnectNodes is always empty, see above):
   self._selfIsReadonlyNode or self._selfNode.address > node.address *)
Definition should_connect (self : option Z) (a : Z) : bool :=
  match self with None => true | Some s => a <? s end.

Definition registered (st : tstate) (n : node) : option N := alookup node_eqb n (connections st).

(* _connToNode: for node in self._connections: if self._connections[node] is conn: return node *)
Definition conn_to_node (st : tstate) (c : N) : option node :=
  match find (fun kv => match registered st (fst kv) with Some c' => N.eqb c' c | None => false end)
             (connections st) with
  | Some kv => Some (fst kv)
  | None => None
  end.

Definition throttled (st : tstate) (a now : Z) : bool :=
  match alookup Z.eqb a (last_attempt st) with
  | Some t => now - t <? retry st
  | None => false
  end.

(* _connectIfNecessarySingle(TCPNode a) *)
Definition connect_single (st : tstate) (now : Z) (refuse : list Z) (a : Z) : tstate * list output :=
  let reg := registered st (Member a) in
  if match reg with Some c => negb (is_disconnected (conn_state st c)) | None => false end then (st, [])
  else if negb (should_connect (self_addr st) a) then (st, [])
  else match reg with
       | None => (st, [ORaise 3])      (* assert node in self._connections; unreachable, see Proofs *)
       | Some c =>
         if throttled st a now then (st, [])
         else
           let st1 := set_last_attempt st (aset Z.eqb a now (last_attempt st)) in
           if zmem a refuse then (st1, [ODial c a false])
           else (set_cstate st1 c Connecting, [ODial c a true])
       end.

(* _connectIfNecessary: for node in self._nodes (the order is immaterial: the
   calls touch disjoint parts of the state; observations of a tick are sorted) *)
Fixpoint connect_all (st : tstate) (now : Z) (refuse : list Z) (l : list Z) : tstate * list output :=
  match l with
  | [] => (st, [])
  | a :: r =>
    let (st1, o1) := connect_single st now refuse a in
    let (st2, o2) := connect_all st1 now refuse r in
    (st2, o1 ++ o2)
  end.

(* _onDisconnected(conn) *)
Definition on_disconnected (st : tstate) (now : Z) (refuse : list Z) (c : N) : tstate * list output :=
  let st := set_unknown st (nremove c (unknown st)) in
  match conn_to_node st c with
  | None => (st, [])
  | Some (Member a) =>
    if zmem a (nodes st)                       (* node in self._nodes *)
    then let (st1, o) := connect_single st now refuse a in (st1, ONodeDisconnected (Member a) :: o)
    else (st, [ORODisconnected (Member a)])    (* _readonlyNodes.discard is a no-op for a TCPNode *)
  | Some (RO k) => (set_ro_nodes st (nremove k (ro_nodes st)), [ORODisconnected (RO k)])
  end.

(* TcpConnection.disconnect(): the callback runs only if the object was not already disconnected *)
Definition conn_disconnect (st : tstate) (now : Z) (refuse : list Z) (c : N) : tstate * list output :=
  if is_disconnected (conn_state st c) then (st, [])
  else on_disconnected (set_cstate st c Disconnected) now refuse c.

(* the tail of _onIncomingMessageReceived after a node was determined:
     self._unknownConnections.discard(conn)
     oldConn = self._connections.pop(node, None)
     if oldConn is not None and oldConn is not conn: oldConn.disconnect()
     self._connections[node] = conn; conn.setOnMessageReceivedCallback(partial(self._onMessageReceived, node))
   The superseded object is popped before its disconnect(), so _onDisconnected finds no node for it. *)
Definition register (st : tstate) (now : Z) (refuse : list Z) (c : N) (n : node) : tstate * list output :=
  let st0 := set_unknown st (nremove c (unknown st)) in
  let (st1, o) :=
    match registered st0 n with
    | Some old =>
      let st' := set_connections st0 (aremove node_eqb n (connections st0)) in
      if N.eqb old c then (st', [])
      else let (st2, o2) := conn_disconnect st' now refuse old in (st2, ODisconnect old :: o2)
    | None => (st0, [])
    end in
  let st2 := set_connections st1 (aset node_eqb n c (connections st1)) in
  (set_bind st2 c n, o).

(* node is None and message != 'readonly': conn.disconnect(); self._unknownConnections.discard(conn) *)
Definition reject (st : tstate) (now : Z) (refuse : list Z) (c : N) : tstate * list output :=
  let (st1, o) := conn_disconnect st now refuse c in
  (set_unknown st1 (nremove c (unknown st1)), ODisconnect c :: o).

(* _onIncomingMessageReceived(conn, message), encryption off *)
Definition first_message (st : tstate) (now : Z) (refuse : list Z) (c : N) (m : msg) (uraise : bool)
  : tstate * list output :=
  match m with
  | MList cmd =>
    if nmem cmd (utils st)
    then (st, OUtility c cmd :: (if uraise then [OSend c PUtilErr] else []))
    else (st, [ORaise 1])        (* falls through to `message in self._nodeAddrToNode`: unhashable list *)
  | MEmptyList => (st, [ORaise 2])   (* message[0] *)
  | MUnhashable _ => (st, [ORaise 1])
  | MAddr a =>
    if zmem a (nodes st)
    then let (st1, o) := register st now refuse c (Member a) in (st1, o ++ [ONodeConnected (Some (Member a))])
    else reject st now refuse c
  | MReadonly =>
    let k := ro_counter st in
    let st1 := set_ro_counter (set_ro_nodes st (nadd k (ro_nodes st))) (N.succ k) in
    let (st2, o) := register st1 now refuse c (RO k) in (st2, o ++ [OROConnected (RO k)])
  | MOther _ => reject st now refuse c
  end.

Inductive action :=
| Tick                                   (* _onTick *)
| OutConnected (c : N)                   (* poll event on a CONNECTING object, no socket error *)
| IncomingNew                            (* the server accepted a socket *)
| Message (c : N) (m : msg) (uraise : bool)   (* one message parsed on object c *)
| Closed (c : N)                         (* the object noticed reset / EOF / error / timeout: its disconnect() *)
| AddNode (a : Z)
| DropNode (n : node)
| Send (n : node) (m : N) (fault : bool) (* fault: conn.send notices a dead socket and disconnects *)
| UtilReply (c : N).                     (* the utility callback's continuation: conn.send(result) *)

Record event := mkEv { ev_now : Z; ev_refuse : list Z; ev_act : action }.

Definition drop_node_tables (st : tstate) (n : node) : tstate :=
  match n with
  | Member a =>
    set_last_attempt (set_nodes st (zremove a (nodes st))) (aremove Z.eqb a (last_attempt st))
  | RO k => set_ro_nodes st (nremove k (ro_nodes st))
  end.

Definition step (st : tstate) (e : event) : tstate * list output :=
  let now := ev_now e in
  let refuse := ev_refuse e in
  match ev_act e with
  | Tick => connect_all st now refuse (nodes st)
  | OutConnected c =>
    match get_conn st c with
    | Some r =>
      match cst r with
      | Connecting =>
        (set_cstate st c Connected,
         if c_out r then [OSend c (PSelf (self_addr st)); ONodeConnected (conn_to_node st c)] else [])
      | _ => (st, [])
      end
    | None => (st, [])
    end
  | IncomingNew =>
    let c := next_conn st in
    let st1 := alloc st (mkConn Connected false None) in
    (set_unknown st1 (nadd c (unknown st1)), [])
  | Message c m uraise =>
    match get_conn st c with
    | Some r =>
      match cst r with
      | Connected =>
        match c_bind r with
        | Some n => (st, [OMessage c n m])
        | None => first_message st now refuse c m uraise
        end
      | _ => (st, [])
      end
    | None => (st, [])
    end
  | Closed c => conn_disconnect st now refuse c
  | AddNode a =>
    let st1 := set_nodes st (zadd a (nodes st)) in
    if should_connect (self_addr st) a then
      let c := next_conn st1 in
      let st2 := alloc st1 (mkConn Disconnected true (Some (Member a))) in
      (set_connections st2 (aset node_eqb (Member a) c (connections st2)), [])
    else (st1, [])
  | DropNode n =>
    match registered st n with
    | Some c =>
      let st1 := set_connections st (aremove node_eqb n (connections st)) in
      let (st2, o) := conn_disconnect st1 now refuse c in
      (drop_node_tables st2 n, ODisconnect c :: o)
    | None => (drop_node_tables st n, [])
    end
  | Send n m fault =>
    match registered st n with
    | Some c =>
      if is_connected (conn_state st c) then
        let (st1, o1) := if fault then conn_disconnect st now refuse c else (st, []) in
        let res := match registered st1 n with
                   | Some c' => is_connected (conn_state st1 c')
                   | None => false
                   end in
        (st1, OSend c (PMsg m) :: o1 ++ [OSendResult res])
      else (st, [OSendResult false])
    | None => (st, [OSendResult false])
    end
  | UtilReply c =>
    match get_conn st c with
    | Some _ => (st, [OSend c PUtilReply])
    | None => (st, [])
    end
  end.

Fixpoint run (st : tstate) (es : list event) : tstate * list (list output) :=
  match es with
  | [] => (st, [])
  | e :: r => let (st1, o) := step st e in let (st2, os) := run st1 r in (st2, o :: os)
  end.

Definition run_state (st : tstate) (es : list event) : tstate := fst (run st es).

(* ---- canonical observation (numbers only), compared with the implementation ---- *)
Definition zb (b : bool) : Z := if b then 1 else 0.
Definition enc_node (n : node) : list Z :=
  match n with Member a => [0; a] | RO k => [1; Z.of_N k] end.
Definition enc_onode (n : option node) : list Z :=
  match n with Some n => enc_node n | None => [2; 0] end.
Definition enc_msg (m : msg) : list Z :=
  match m with
  | MAddr a => [0; a] | MReadonly => [1; 0] | MList c => [2; Z.of_N c] | MEmptyList => [3; 0]
  | MUnhashable k => [4; Z.of_N k] | MOther k => [5; Z.of_N k]
  end.
Definition enc_payload (p : payload) : list Z :=
  match p with
  | PSelf (Some a) => [0; a] | PSelf None => [1; 0] | PMsg m => [2; Z.of_N m]
  | PUtilErr => [3; 0] | PUtilReply => [4; 0]
  end.
Definition enc_cstate (s : cstate) : Z :=
  match s with Disconnected => 0 | Connecting => 1 | Connected => 2 end.

Definition enc_output (o : output) : list Z :=
  match o with
  | ONodeConnected n => 1 :: enc_onode n ++ [0; 0; 0]
  | ONodeDisconnected n => 2 :: enc_node n ++ [0; 0; 0]
  | OROConnected n => 3 :: enc_node n ++ [0; 0; 0]
  | ORODisconnected n => 4 :: enc_node n ++ [0; 0; 0]
  | OMessage c n m => 5 :: Z.of_N c :: enc_node n ++ enc_msg m
  | ODial c a ok => [6; Z.of_N c; a; zb ok; 0; 0]
  | OSend c p => 7 :: Z.of_N c :: enc_payload p ++ [0; 0]
  | ODisconnect c => [8; Z.of_N c; 0; 0; 0; 0]
  | OUtility c cmd => [9; Z.of_N c; Z.of_N cmd; 0; 0; 0]
  | OSendResult b => [10; zb b; 0; 0; 0; 0]
  | ORaise k => [11; k; 0; 0; 0; 0]
  end.

(* lexicographic order on number lists = Python's order on lists of ints *)
Fixpoint lex_leb (a b : list Z) : bool :=
  match a, b with
  | [], _ => true
  | _ :: _, [] => false
  | x :: a', y :: b' => if x <? y then true else if y <? x then false else lex_leb a' b'
  end.
Fixpoint lex_insert (x : list Z) (l : list (list Z)) : list (list Z) :=
  match l with
  | [] => [x]
  | y :: r => if lex_leb x y then x :: l else y :: lex_insert x r
  end.
Definition lex_sort (l : list (list Z)) : list (list Z) := fold_right lex_insert [] l.

Definition enc_conn (kv : N * crec) : list Z :=
  [enc_cstate (cst (snd kv)); zb (c_out (snd kv))] ++ enc_onode (c_bind (snd kv)).

Definition enc_registry (st : tstate) : list (list Z) :=
  [ 100 :: concat (lex_sort (map (fun a => [a]) (nodes st)));
    101 :: concat (lex_sort (map (fun kv => enc_node (fst kv) ++ [Z.of_N (snd kv)]) (connections st)));
    102 :: concat (lex_sort (map (fun c => [Z.of_N c]) (unknown st)));
    103 :: concat (lex_sort (map (fun k => [Z.of_N k]) (ro_nodes st)));
    [104; Z.of_N (ro_counter st)];
    105 :: concat (lex_sort (map (fun kv => [fst kv; snd kv]) (last_attempt st)));
    106 :: concat (map enc_conn (rev (conns st)));
    [107; Z.of_N (next_conn st)] ].

(* One observation = the outputs of the event (in order; sorted for a tick) followed by the whole registry.
   It is compared with the implementation through a 40-bit polynomial checksum of that list of number lists
   (the harness computes the same checksum from what the implementation did); the checksum only keeps the
   generated literals small -- Coq reads numerals slowly. *)
Definition obs_full (e : event) (st : tstate) (o : list output) : list (list Z) :=
  (match ev_act e with
   | Tick => lex_sort (map enc_output o)
   | _ => map enc_output o
   end) ++ enc_registry st.

Definition hmod : Z := 1099511627689.   (* 2^40 - 87 *)
Definition hstep (acc x : Z) : Z := (acc * 1000003 + x + 12345) mod hmod.
Definition hash_ll (l : list (list Z)) : Z :=
  fold_left (fun acc l => hstep (fold_left hstep l acc) (-1)) l 0.

Definition obs (e : event) (st : tstate) (o : list output) : Z := hash_ll (obs_full e st o).

Fixpoint run_obs (st : tstate) (es : list event) : list Z :=
  match es with
  | [] => []
  | e :: r => let (st1, o) := step st e in obs e st1 o :: run_obs st1 r
  end.

(* the un-hashed observations, for debugging a divergence *)
Fixpoint run_obs_full (st : tstate) (es : list event) : list (list (list Z)) :=
  match es with
  | [] => []
  | e :: r => let (st1, o) := step st e in obs_full e st1 o :: run_obs_full st1 r
  end.

(* index of the first differing step, or None *)
Fixpoint first_diff (i : N) (a b : list Z) : option N :=
  match a, b with
  | [], [] => None
  | x :: a', y :: b' => if x =? y then first_diff (i + 1)%N a' b' else Some i
  | _, _ => Some i
  end.

Definition check_case (self : option Z) (rt : Z) (ut : list N) (es : list event)
           (expected : list Z) : option N :=
  first_diff 0%N (run_obs (init self rt ut) es) expected.
